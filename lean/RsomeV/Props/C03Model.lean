import RsomeV.M.DroModel
import RsomeV.L.DroModel
import RsomeV.Props.C03Scen
import RsomeV.Props.C03Rows
import Mathlib.Tactic.Linarith
import Mathlib.Tactic.Ring
import Mathlib.Tactic.NormNum

/-! C03, whole-program form — the program `dro.Model.do_math()` compiles (model `DroModel.droModel`,
`RsomeV/M/DroModel.lean`, tied entry by entry to the code by `test_dro_model.py`) implies the
distributionally robust model the user wrote.  At every point `x` of the compiled program

(i)   every declared robust / linear constraint of `ctype 'R'` (and an objective row of that kind) holds, in
      every scenario `s`, at every realisation of the support attached to `s`, at the decisions obtained by
      evaluating the decision rules at `(x, z)` — `ro_to_roc_sound` lifted to the whole program
      (`dro_model_sound_R`);
(ii)  every expectation constraint `E(max_l piece_l) <= 0` (and an objective row of that kind) holds for every
      distribution of its ambiguity set — `dro_rows_sound` lifted to the whole program (`dro_model_sound_E`,
      in the user's terms `dro_model_sound_E'`);
(iii) the epigraph row `var_const[0] <= rc_model.vars[0]` of the ro_model's objective holds
      (`DroModel.compile_obj`); deterministic rows are the case `kind = lin` of (i).

The composition: a point of the whole program is a point of every fragment `le_to_rc` returned
(`DroModel.compile_pre_feas`, `compile_rob_feas`: the first-stage fragments of `dro_to_roc` at the columns
they own, the `RoConstr` items at the width `c` `ro.Model.do_math` compiles them at); an item zero-padded to
`c` columns is the item `ro_to_roc` / `dro_to_roc` produce at padding width `c`
(`RoRows.leToRc_rebase_feas`, `DroModel.roToRoc_repad`); hence the hypotheses `hv` of `ro_to_roc_sound` and
`hv1`, `hv2` of `dro_rows_sound` hold at the one assignment `x`. -/

set_option linter.unusedSectionVars false
set_option linter.unusedSimpArgs false
set_option linter.unusedVariables false

namespace RsomeV.C03Model
open Finset RsomeV ConeProg RoRows RoToRoc Dro DroModel

variable {K : Type} [Field K] [LinearOrder K] [IsStrictOrderedRing K]

/-- well-formedness of the rule tables (true of `Rule.ofDecs 1 nrand decs`, `n0 = ruleWidth 1 decs`; re-checked
by `test_ro_to_roc.py` on every case): the rule's columns exist after `rule_var()`, dependencies are declared
on the model's random components only, and `var_const[0]` (column 1) exists -/
structure RuleWF (D : DroDesc K) : Prop where
  cc   : ∀ s < D.S, ∀ d < D.rule.nv, D.rule.cc s d < D.n0
  lc   : ∀ s < D.S, ∀ d < D.rule.nv, ∀ j, D.rule.mask d j = true → D.rule.lcol s d j < D.n0
  mask : ∀ d < D.rule.nv, ∀ j, D.rule.mask d j = true → j < D.nrand
  one  : 1 < D.n0

/-- a width for every (half, scenario) at which a property holds, whenever there is one -/
lemma choose_width (nd : ℕ) (Q : ℕ → ℕ → ℕ → Prop) (hQ : ∀ h s c, Q h s c → nd ≤ c) :
    ∃ f : ℕ → ℕ → ℕ, (∀ h s, nd ≤ f h s) ∧ ∀ h s, (∃ c, Q h s c) → Q h s (f h s) := by
  classical
  refine ⟨fun h s => if hq : ∃ c, Q h s c then Classical.choose hq else nd, ?_, ?_⟩
  · intro h s
    by_cases hq : ∃ c, Q h s c
    · simp only [dif_pos hq]
      exact hQ h s _ (Classical.choose_spec hq)
    · simp only [dif_neg hq]
      exact le_refl _
  · intro h s hq
    simp only [dif_pos hq]
    exact Classical.choose_spec hq

lemma halfRows_shape (C : Constr K) (h : ℕ) :
    (halfRows C h).nz = C.rows.nz ∧ (halfRows C h).m = C.rows.m ∧ (halfRows C h).nd = C.rows.nd := by
  have hO : C.orig.nd = C.rows.nd ∧ C.orig.nz = C.rows.nz ∧ C.orig.m = C.rows.m := by
    unfold Constr.orig; cases C.kind <;> exact ⟨rfl, rfl, rfl⟩
  unfold halfRows
  split_ifs
  · exact ⟨hO.2.1, hO.2.2, hO.1⟩
  · exact ⟨hO.2.1, hO.2.2, hO.1⟩

/-! ### (i) Constraints of `ctype 'R'` -/

/-- **Whole-program soundness, robust and linear constraints** (`ro_to_roc_sound` lifted to
`dro.Model.do_math()`).

Let `droItems D = .ok (items, nd)` (no exception) and let `x` be feasible for the compiled program
`compile items nd` (`= droModel D`).  For every declared constraint `C` of `ctype 'R'` with set selection `sel`
(an entry of `all_constr`, or the objective row `dec_vars[0] >= obj * sign`): for **every scenario `s`** and
**every realisation `z` in the support attached to `s`** (`InSupp`: the support program `D.selPz sel t` of the
tag `t` the code selects — own set, default set, explicit list; no condition when no set is attached: then the
constraint has no random part) the ORIGINAL constraint holds at the decisions `x_s(z) = D.rule.x … s x z`
obtained by evaluating the decision rules at `(x, z)`: `<= 0` for an inequality, `= 0` for an equality.

Hypotheses: `RuleWF D`; the exponential cone has the pairing and monotonicity properties (`ExpPair`,
`ExpMono`; true of the real cone); the constraint is written over the vt_model's columns (`hnv`); `rst` covers the
pattern of its random coefficients (`hrst`); the hypotheses of `C01.rc_sound` for every attached support program
(`hP`). -/
theorem dro_model_sound_R (D : DroDesc K) (hD : RuleWF D) (items : List (DItem K)) (nd : ℕ)
    (hok : droItems D = .ok (items, nd))
    (E : K → K → K → Prop) (hE : ExpPair E) (hmono : ExpMono E)
    (x : ℕ → K) (hx : (compile items nd).Feas E x)
    (C : Constr K) (sel : Sel K) (hc : DCon.R C sel ∈ D.objc :: D.cons)
    (hnv : D.rule.nv = C.rows.nd)
    (hrst : ∀ n j d, C.rows.Rl n j d ≠ 0 → C.rst d = true)
    (hP : ∀ s < D.S, ∀ t, tagFor (D.selAmb sel) s = some t → C03Scen.SuppWF (D.selPz sel t) C.rows.nz) :
    ∀ s < D.S, ∀ z, C03Scen.InSupp E (D.selPz sel) (D.selAmb sel) C.rows.nz s z → ∀ n < C.rows.m,
      if C.eq = true then C.orig.eval n (D.rule.x C.rows.nz s x z) z = 0
      else C.orig.eval n (D.rule.x C.rows.nz s x z) z ≤ 0 := by
  obtain ⟨hwf, hn0⟩ := droItems_wf D items nd hok
  unfold droItems at hok
  obtain ⟨cur, L', c1, hcur, hcon, hsub, hc1⟩ := go_mem D _ _ _ _ hok _ hc
  obtain ⟨its, hits, hL, hc1'⟩ := conItems_R D cur C sel L' c1 hcon
  rw [hc1'] at hc1
  -- the rule's columns exist at every width `≥ cur`
  have hccW : ∀ s < D.S, ∀ d < D.rule.nv, D.rule.cc s d < cur :=
    fun s hs d hd => lt_of_lt_of_le (hD.cc s hs d hd) hcur
  have hlcW : ∀ s < D.S, ∀ d < D.rule.nv, ∀ j < C.rows.nz, D.rule.mask d j = true → D.rule.lcol s d j < cur :=
    fun s hs d hd j _ hm => lt_of_lt_of_le (hD.lc s hs d hd j hm) hcur
  -- the widths the items are compiled at
  obtain ⟨nd1, hnd1, hQ⟩ := choose_width nd
    (fun h s c => nd ≤ c ∧ ∀ t, tagFor (D.selAmb sel) s = some t →
      (((substRow D.rule s cur (halfRows C h)).setNd c).leToRc (D.selPz sel t).coneDual).prog.Feas E x)
    (fun h s c hq => hq.1)
  have hnd1' : ∀ h s, cur ≤ nd1 h s := fun h s => le_trans hc1 (hnd1 h s)
  have hrep := roToRoc_repad C D.rule D.S (D.selAmb sel) cur hccW hlcW its hits nd1 hnd1'
  -- every re-padded item is feasible at `x`
  have hv : ∀ it ∈ its.map (repad nd1), C03Scen.Item.FeasAt E (D.selPz sel) x it := by
    intro it1 hit1
    obtain ⟨it0, hit0, rfl⟩ := List.mem_map.mp hit1
    obtain ⟨h, s, eq, hs, hio⟩ := roToRoc_mem C D.rule D.S (D.selAmb sel) _ its hits it0 hit0
    obtain ⟨e1, e2⟩ := itemOf_hs _ _ _ _ _ _ _ _ it0 hio
    obtain ⟨_, hrow, heq, hcase⟩ := itemOf_ok _ _ _ _ _ _ _ _ it0 hio
    obtain ⟨hnz, hm, _⟩ := halfRows_shape C h
    have hmem : ofItem (D.selPz sel) it0 ∈ items := hsub _ (by rw [hL]; exact List.mem_map_of_mem hit0)
    have hrow1 : (repad nd1 it0).row = (substRow D.rule s cur (halfRows C h)).setNd (nd1 h s) := by
      show it0.row.setNd (nd1 it0.h it0.s) = _
      rw [hrow, e1, e2]
    unfold C03Scen.Item.FeasAt
    have htag1 : (repad nd1 it0).tag = it0.tag := rfl
    have heq1 : (repad nd1 it0).eq = it0.eq := rfl
    rcases hcase with ⟨htag, _⟩ | ⟨htag, hne, _⟩
    · -- a `LinConstr` item: its rows are rows of the program
      rw [htag1, htag]
      try simp only
      intro n hn
      rw [hrow1] at hn ⊢
      have hn' : n < it0.row.m := by rw [hrow]; exact hn
      obtain ⟨hd1, hd2⟩ := ofItem_det (D.selPz sel) it0 htag
      rw [hd1] at hmem
      have hdet := compile_det items nd E x hx _ _ _ _ _ hmem hd2 n hn'
      try simp only at hdet
      rw [heq1, eval_zero]
      have hs' : ∑ d ∈ range (nd1 h s), (substRow D.rule s cur (halfRows C h)).al n d * x d
          = ∑ d ∈ range nd, it0.row.al n d * x d := by
        rw [hrow]
        exact sum_range_tail_zero nd (nd1 h s) (hnd1 h s) _ _ (fun _ _ => rfl)
          (fun d hd _ => by
            rw [substRow_al_zero D.rule s cur (halfRows C h) (hccW s hs) cur n d (by omega), zero_mul])
      have hac : ((substRow D.rule s cur (halfRows C h)).setNd (nd1 h s)).ac n = it0.row.ac n := by
        rw [hrow]; rfl
      show if it0.eq = true then
          ∑ d ∈ range (nd1 h s), (substRow D.rule s cur (halfRows C h)).al n d * x d
            + ((substRow D.rule s cur (halfRows C h)).setNd (nd1 h s)).ac n = 0
        else ∑ d ∈ range (nd1 h s), (substRow D.rule s cur (halfRows C h)).al n d * x d
            + ((substRow D.rule s cur (halfRows C h)).setNd (nd1 h s)).ac n ≤ 0
      rw [hs', hac]
      by_cases he : it0.eq = true
      · rw [if_pos he] at hdet ⊢; linarith
      · rw [if_neg he] at hdet ⊢; linarith
    · -- an `RoConstr` item: compiled at some width `c ≥ nd`
      cases ht : tagFor (D.selAmb sel) s with
      | none => rw [ht] at htag; exact absurd htag hne
      | some t =>
        rw [ht] at htag
        have hex : ∃ c, nd ≤ c ∧ ∀ t', tagFor (D.selAmb sel) s = some t' →
            (((substRow D.rule s cur (halfRows C h)).setNd c).leToRc (D.selPz sel t').coneDual).prog.Feas E x := by
          obtain ⟨ri, hri, hblk⟩ := ofItem_rob (D.selPz sel) it0 t htag
          rw [hri] at hmem
          obtain ⟨c, hc, hfe⟩ := compile_rob_feas items nd hwf E hmono x hx ri _ _ hmem hblk
            (coneDual_xmat_wf _)
          refine ⟨c, hc, ?_⟩
          intro t' ht'
          rw [ht] at ht'
          injection ht' with ht'
          subst ht'
          rw [hrow] at hfe
          exact leToRc_rebase_feas _ _ c (by show cur ≤ c; omega)
            (fun n _ j hj d hd _ => substRow_Rl_zero D.rule s cur (halfRows C h) (hccW s hs)
              (by rw [hnz]; exact hlcW s hs) cur n j d hj hd)
            (fun n _ d hd _ => substRow_al_zero D.rule s cur (halfRows C h) (hccW s hs) cur n d hd)
            E x hfe
        have hq := (hQ h s hex).2 t ht
        rw [htag1, htag]
        try simp only
        rw [hrow1]
        exact hq
  exact C03Scen.ro_to_roc_sound E hE C D.rule D.S (D.selAmb sel) nd1 _ hrep hnv
    (fun h s hs d hd => lt_of_lt_of_le (hccW s hs d hd) (hnd1' h s))
    (fun h s hs d hd j hj hm => lt_of_lt_of_le (hlcW s hs d hd j hj hm) (hnd1' h s))
    hrst (D.selPz sel) hP x hv

/-! ### (ii) Expectation constraints -/

/-- the hypotheses of `C03Rows.dro_rows_sound` on an ambiguity set (well-formed index lists of the probability
and expectation programs, the lifted support keeps the plain layout, shapes, and the hypotheses of
`C01.rc_sound` on every scenario support); all re-checked by `test_dro_rows.py` on every generated case
(`wf_inputs`, `rows_removed`) -/
structure AmbWF (A : Amb K) (S nrand : ℕ) : Prop where
  hst  : ∀ i j, A.pro.lp.a i j ≠ 0 → A.pro.st i j = true
  hqp  : ∀ q ∈ A.pro.qmat, ∀ j ∈ q, j < A.pro.lp.nc
  hxl  : ∀ e ∈ A.pro.xmat, e.length = 3
  hxp  : ∀ e ∈ A.pro.xmat, ∀ j ∈ e, j < A.pro.lp.nc
  hqe  : ∀ k < A.exps.length, ∀ q ∈ (blk A.exps k).qmat, ∀ j ∈ q, j < (blk A.exps k).lp.nc
  hxle : ∀ k < A.exps.length, ∀ e ∈ (blk A.exps k).xmat, e.length = 3
  hxe  : ∀ k < A.exps.length, ∀ e ∈ (blk A.exps k).xmat, ∀ j ∈ e, j < (blk A.exps k).lp.nc
  hidx : ∀ k < A.exps.length, ∀ s ∈ idx A.exps k, s < A.pro.lp.nc
  hlay : (mixSupport A.pro A.exps).rowsRemoved = false
  hS   : S ≤ A.pro.lp.nc
  hnz  : ∀ k < A.exps.length, nrand ≤ (blk A.exps k).lp.nc
  sup  : ∀ s < S, C03Scen.SuppWF (A.sup s) nrand

/-- the substituted row has no coefficient beyond the rule's columns (any random component) -/
lemma substRow_Rl_zero' (r : Rule) (s w0 : ℕ) (R : RoRows K)
    (hcc : ∀ d < r.nv, r.cc s d < w0)
    (hlc : ∀ d < r.nv, ∀ j, r.mask d j = true → r.lcol s d j < w0)
    (w n j c : ℕ) (hc : w0 ≤ c) : (substRow r s w R).Rl n j c = 0 := by
  show (∑ d ∈ range r.nv, if r.cc s d = c then R.Rl n j d else 0) +
    (∑ d ∈ range r.nv, if r.mask d j ∧ r.lcol s d j = c then R.al n d else 0) = 0
  have h1 : (∑ d ∈ range r.nv, if r.cc s d = c then R.Rl n j d else 0) = 0 := by
    apply Finset.sum_eq_zero
    intro d hd
    have := hcc d (Finset.mem_range.mp hd)
    rw [if_neg (by omega)]
  have h2 : (∑ d ∈ range r.nv, if r.mask d j ∧ r.lcol s d j = c then R.al n d else 0) = 0 := by
    apply Finset.sum_eq_zero
    intro d hd
    by_cases hm : r.mask d j = true
    · have := hlc d (Finset.mem_range.mp hd) j hm
      rw [if_neg (by intro h; omega)]
    · rw [if_neg (by intro h; exact hm h.1)]
  rw [h1, h2, add_zero]

lemma row2_setNd (exps : List (ConeProg K × List ℕ)) (I : DroIn K) (w w' s l : ℕ) :
    row2 exps I w' s l = (row2 exps I w s l).setNd w' := by
  unfold row2
  cases hb : isLin exps I s l <;> simp only [hb, if_true, Bool.false_eq_true, if_false] <;> rfl

lemma row2_shape (exps : List (ConeProg K × List ℕ)) (I : DroIn K) (w s l : ℕ) :
    (row2 exps I w s l).nd = w ∧ (row2 exps I w s l).m = 1 ∧ (row2 exps I w s l).nz = I.nrand := by
  unfold row2
  split_ifs <;> exact ⟨rfl, rfl, rfl⟩

lemma row2_al (exps : List (ConeProg K × List ℕ)) (I : DroIn K) (w s l n d : ℕ) :
    (row2 exps I w s l).al n d = I.al s l d - (if d = I.acol s then 1 else 0) := by
  unfold row2
  cases hb : isLin exps I s l <;> simp only [hb, if_true, Bool.false_eq_true, if_false]

lemma row2_Rl (exps : List (ConeProg K × List ℕ)) (I : DroIn K) (w s l n j d : ℕ)
    (h : isLin exps I s l = false) :
    (row2 exps I w s l).Rl n j d = I.Rl s l j d - betaCoef exps I s j d := by
  unfold row2
  rw [h]
  rfl

/-- the columns of `beta` lie before `firstNd` -/
lemma betaCoef_zero (exps : List (ConeProg K × List ℕ)) (I : DroIn K) (s j d : ℕ) (hj : j < I.nrand)
    (hd : I.firstNd exps.length ≤ d) : betaCoef exps I s j d = 0 := by
  unfold betaCoef
  apply Finset.sum_eq_zero
  intro k hk
  have := bcol_lt I exps.length k j (Finset.mem_range.mp hk) hj
  rw [if_neg (by intro h; omega)]

/-- **Whole-program soundness, expectation constraints** (`dro_rows_sound` lifted to
`dro.Model.do_math()`).

Let `droItems D = .ok (items, nd)` and let `x` be feasible for the compiled program.  For every declared
expectation constraint `E(max_l piece_l) <= 0` / `== 0` (`DCon.E ps eq a pat`: an entry of `all_constr`, or the
objective row `dec_vars[0] >= E(...) * sign`) with ambiguity set `A = D.amb ai` (its own or the default one),
every half `h` (`h = 1`: the negated expression of an equality) and every row `i`: there is a width `cur`
(`rc_model.last` when the row was processed) such that for **every admissible distribution** — scenario
probabilities `π` feasible for the probability program, conditional expectation operators `Es s` on the scenario
supports, conditional means `ν k` of every event feasible for the expectation programs and tied to `π`, `Es` —

  `Σ_s π_s · E_s[ max_l piece_{s,l}(x, z̃) ] ≤ 0`

where `piece_{s,l}` is piece `l` (row `i`, negated for `h = 1`) with the decision rule of scenario `s` substituted,
over the `cur` columns that existed (`droIn`; in the user's terms: `dro_model_sound_E'`).

Hypotheses: `RuleWF D`, the cone properties, `AmbWF` (the hypotheses of `dro_rows_sound` on the set). -/
theorem dro_model_sound_E (D : DroDesc K) (hD : RuleWF D) (items : List (DItem K)) (nd : ℕ)
    (hok : droItems D = .ok (items, nd))
    (E : K → K → K → Prop) (hE : ExpPair E)
    (hEsc : ∀ t a b c : K, 0 ≤ t → E a b c → E (t * a) (t * b) (t * c)) (hmono : ExpMono E)
    (x : ℕ → K) (hx : (compile items nd).Feas E x)
    (ps : List (Constr K)) (eq : Bool) (a : Option ℕ) (pat : ℕ → ℕ → ℕ → Bool)
    (hc : DCon.E ps eq a pat ∈ D.objc :: D.cons)
    (ai : ℕ) (hai : eAmb D a = some ai) (hA : AmbWF (D.amb ai) D.S D.nrand)
    (hnp : 0 < ps.length)
    (h : ℕ) (hh : h < (if eq then 2 else 1)) (i : ℕ) (hi : i < eRowsOf ps) :
    ∃ cur, D.n0 ≤ cur ∧
      ∀ (π : ℕ → K) (hπ : (D.amb ai).pro.Feas E π) (hπ0 : ∀ s < D.S, 0 ≤ π s)
        (Es : ℕ → ((ℕ → K) → K) → K)
        (hEs : ∀ s < D.S, CondExp (suppOf ((D.amb ai).sup s) E D.nrand) (Es s))
        (ν : ℕ → ℕ → K) (hν : ∀ k < (D.amb ai).exps.length, (blk (D.amb ai).exps k).Feas E (ν k))
        (ht : ∀ k < (D.amb ai).exps.length, 0 ≤ evProb (D.amb ai).exps k π)
        (hμ : ∀ k < (D.amb ai).exps.length, ∀ j < D.nrand, evProb (D.amb ai).exps k π * ν k j
            = ∑ s ∈ range D.S, if s ∈ idx (D.amb ai).exps k then π s * Es s (fun z => z j) else 0),
        ∑ s ∈ range D.S, π s * Es s (fun z =>
          C03Rows.pwMax (droIn D.rule D.S D.nrand cur ps (decide (h = 1)) i) hnp s x z) ≤ 0 := by
  obtain ⟨hwf, hn0⟩ := droItems_wf D items nd hok
  unfold droItems at hok
  obtain ⟨cur0, L', c1, hcur0, hcon, hsub, hc1⟩ := go_mem D _ _ _ _ hok _ hc
  obtain ⟨ai', hai', _, hL, hc1'⟩ := conItems_E D cur0 ps eq a pat L' c1 hcon
  rw [hai] at hai'
  injection hai' with hai'
  subst hai'
  set A := D.amb ai with hAdef
  set m := eRowsOf ps with hm
  set w := eW D A with hw
  -- the run `k = h·m + i`
  have hh2 : h = 0 ∨ h = 1 := by
    by_cases he : eq = true
    · rw [if_pos he] at hh; omega
    · rw [if_neg he] at hh; omega
  set k := h * m + i with hk
  have hkN : k < (if eq then 2 else 1) * m := by
    have : (h + 1) * m ≤ (if eq then 2 else 1) * m := Nat.mul_le_mul_right m hh
    rw [Nat.add_mul, Nat.one_mul] at this
    omega
  have hneg : decide (m ≤ k) = decide (h = 1) := by
    rcases hh2 with rfl | rfl
    · have : ¬ m ≤ k := by rw [hk]; omega
      simp [this]
    · have : m ≤ k := by rw [hk]; omega
      simp [this]
  have hmod : k % m = i := by
    rcases hh2 with rfl | rfl
    · rw [hk, Nat.zero_mul, Nat.zero_add]; exact Nat.mod_eq_of_lt hi
    · rw [hk, Nat.one_mul, Nat.add_mod_left]; exact Nat.mod_eq_of_lt hi
  set cur := cur0 + k * w with hcurdef
  have hcur : D.n0 ≤ cur := le_trans hcur0 (Nat.le_add_right _ _)
  have hcurw : cur + w ≤ nd := by
    have := run_le cur0 k _ w hkN
    rw [hc1'] at hc1
    omega
  set I := droIn D.rule D.S D.nrand cur ps (decide (h = 1)) i with hI
  have hrow : ∀ it ∈ eRow D A ps (decide (h = 1)) cur i, it ∈ items := by
    intro it hit
    apply hsub
    rw [hL]
    refine List.mem_flatMap.mpr ⟨k, List.mem_range.mpr hkN, ?_⟩
    rw [hneg, hmod]
    exact hit
  refine ⟨cur, hcur, ?_⟩
  intro π hπ hπ0 Es hEs ν hν ht hμ
  have hfirst : I.firstNd A.exps.length + A.mixDual.lp.nc = cur + w := by
    show cur + D.S + D.nrand * A.exps.length + A.mixDual.lp.nc = cur + (D.S + D.nrand * A.exps.length + A.mixDual.lp.nc)
    omega
  have hfirstle : I.firstNd A.exps.length ≤ cur + w := by omega
  -- the rule's columns exist
  have hccW : ∀ s < D.S, ∀ d < D.rule.nv, D.rule.cc s d < cur :=
    fun s hs d hd => lt_of_lt_of_le (hD.cc s hs d hd) hcur
  have hlcW : ∀ s < D.S, ∀ d < D.rule.nv, ∀ j, D.rule.mask d j = true → D.rule.lcol s d j < cur :=
    fun s hs d hd j hm => lt_of_lt_of_le (hD.lc s hs d hd j hm) hcur
  have hRl : ∀ s l j d, I.acol0 ≤ d → I.Rl s l j d = 0 := by
    intro s l j d hd
    show (if s < D.S then (substRow D.rule s cur (pieceRows ps (decide (h = 1)) l)).Rl i j d else 0) = 0
    by_cases hs : s < D.S
    · rw [if_pos hs]
      exact substRow_Rl_zero' D.rule s cur _ (hccW s hs) (hlcW s hs) cur i j d hd
    · rw [if_neg hs]
  have hal : ∀ s l d, I.acol0 ≤ d → I.al s l d = 0 := by
    intro s l d hd
    show (if s < D.S then (substRow D.rule s cur (pieceRows ps (decide (h = 1)) l)).al i d else 0) = 0
    by_cases hs : s < D.S
    · rw [if_pos hs]
      exact substRow_al_zero D.rule s cur _ (hccW s hs) cur i d hd
    · rw [if_neg hs]
  have hlin : ∀ s l, isLin A.exps I s l = true → ∀ j, (∀ d, I.Rl s l j d = 0) ∧ I.Rc s l j = 0 := by
    intro s l hl j
    unfold isLin at hl
    simp only [Bool.and_eq_true, Bool.not_eq_true'] at hl
    obtain ⟨⟨hrand, hro⟩, _⟩ := hl
    have hkind : (ps.getD l Constr.zero).kind = .lin := by
      have : ((ps.getD l Constr.zero).kind == Kind.ro) = false := hrand
      cases hk' : (ps.getD l Constr.zero).kind
      · rw [hk'] at this; simp at this
      · rfl
    have hmask : ∀ d < D.rule.nv, ∀ j, D.rule.mask d j = false := by
      intro d hd j'
      by_contra hne
      have hm' : D.rule.mask d j' = true := by
        cases hh' : D.rule.mask d j'
        · exact absurd hh' hne
        · rfl
      have hj' := hD.mask d hd j' hm'
      have := C03Scen.isRo_false D.rule D.nrand hro d hd j' hj'
      rw [this] at hm'; cases hm'
    have hP : ∀ n j d, (pieceRows ps (decide (h = 1)) l).Rl n j d = 0 ∧
        (pieceRows ps (decide (h = 1)) l).Rc n j = 0 := by
      intro n j d
      unfold pieceRows Constr.orig
      rw [hkind]
      split_ifs
      · exact ⟨by show -(0:K) = 0; simp, by show -(0:K) = 0; simp⟩
      · exact ⟨rfl, rfl⟩
    constructor
    · intro d
      show (if s < D.S then (substRow D.rule s cur (pieceRows ps (decide (h = 1)) l)).Rl i j d else 0) = 0
      by_cases hs : s < D.S
      · rw [if_pos hs]
        show (∑ d' ∈ range D.rule.nv, if D.rule.cc s d' = d then (pieceRows ps (decide (h = 1)) l).Rl i j d' else 0) +
          (∑ d' ∈ range D.rule.nv, if D.rule.mask d' j ∧ D.rule.lcol s d' j = d
            then (pieceRows ps (decide (h = 1)) l).al i d' else 0) = 0
        have h1 : (∑ d' ∈ range D.rule.nv,
            if D.rule.cc s d' = d then (pieceRows ps (decide (h = 1)) l).Rl i j d' else 0) = 0 := by
          apply Finset.sum_eq_zero
          intro d' _
          rw [(hP i j d').1]; simp
        have h2 : (∑ d' ∈ range D.rule.nv, if D.rule.mask d' j ∧ D.rule.lcol s d' j = d
            then (pieceRows ps (decide (h = 1)) l).al i d' else 0) = 0 := by
          apply Finset.sum_eq_zero
          intro d' hd'
          rw [hmask d' (Finset.mem_range.mp hd') j]
          simp
        rw [h1, h2, add_zero]
      · rw [if_neg hs]
    · show (if s < D.S then (substRow D.rule s cur (pieceRows ps (decide (h = 1)) l)).Rc i j else 0) = 0
      by_cases hs : s < D.S
      · rw [if_pos hs]
        exact (hP i j 0).2
      · rw [if_neg hs]
  -- the widths the second-stage items are compiled at
  obtain ⟨nd2, hnd2, hQ⟩ := choose_width nd
    (fun s l c => nd ≤ c ∧ ((row2 A.exps I c s l).leToRc (A.sup s).coneDual).prog.Feas E x)
    (fun s l c hq => hq.1)
  -- the compiled first-stage row
  have hv1 : ((droToRoc A.pro A.exps I nd2).first.leToRc (mixSupport A.pro A.exps).coneDual).prog.Feas E x := by
    have hmem : DItem.pre (droToRoc A.pro A.exps I (fun _ _ => cur + w)).first A.mixDual ∈ items :=
      hrow _ List.mem_cons_self
    exact compile_pre_feas items nd hwf E hmono x hx _ _ hmem (coneDual_xmat_wf _)
  -- the second-stage items
  have hv2 : ∀ r ∈ (droToRoc A.pro A.exps I nd2).second,
      if r.lin = true then r.row.eval 0 x (fun _ => 0) ≤ 0
      else (r.row.leToRc (A.sup r.s).coneDual).prog.Feas E x := by
    intro r hr
    obtain ⟨s, hs, hr'⟩ := List.mem_flatMap.mp hr
    obtain ⟨l, hl, rfl⟩ := List.mem_map.mp hr'
    have hs' : s < D.S := List.mem_range.mp hs
    have hl' : l < I.np := List.mem_range.mp hl
    have hmem0 := mem_second A.pro A.exps I (fun _ _ => cur + w) s l hs' hl'
    have hmem : ofRow2 A { s := s, l := l, lin := isLin A.exps I s l, row := row2 A.exps I (cur + w) s l } ∈ items :=
      hrow _ (List.mem_cons_of_mem _ (List.mem_map_of_mem hmem0))
    obtain ⟨hnd0, hm0, hnz0⟩ := row2_shape A.exps I (cur + w) s l
    simp only
    cases hb : isLin A.exps I s l
    · -- an `RoConstr` item
      simp only [Bool.false_eq_true, if_false]
      have hitem : ofRow2 A { s := s, l := l, lin := isLin A.exps I s l, row := row2 A.exps I (cur + w) s l }
          = .ro (.rob (row2 A.exps I (cur + w) s l) (some (A.sup s).coneDual)) := by
        unfold ofRow2; simp only [hb, Bool.false_eq_true, if_false]
      rw [hitem] at hmem
      obtain ⟨c, hc, hfe⟩ := compile_rob_feas items nd hwf E hmono x hx _ (row2 A.exps I (cur + w) s l)
        (A.sup s).coneDual hmem (by simp [blocksOf, RoItem.resolve]) (coneDual_xmat_wf _)
      have hfe' := leToRc_rebase_feas _ _ c (by rw [hnd0]; omega)
        (by
          intro n _ j hj d hd _
          rw [hnz0] at hj
          rw [hnd0] at hd
          rw [row2_Rl A.exps I (cur + w) s l n j d hb, hRl s l j d (by show cur ≤ d; omega),
            betaCoef_zero A.exps I s j d hj (by omega), sub_zero])
        (by
          intro n _ d hd _
          rw [hnd0] at hd
          have ha : I.acol s < I.firstNd A.exps.length := acol_lt I s hs' _
          rw [row2_al, hal s l d (by show cur ≤ d; omega), if_neg (by omega), sub_zero])
        E x hfe
      rw [← row2_setNd] at hfe'
      exact (hQ s l ⟨c, hc, hfe'⟩).2
    · -- a `LinConstr` item
      simp only [if_true]
      have hitem : ofRow2 A { s := s, l := l, lin := isLin A.exps I s l, row := row2 A.exps I (cur + w) s l }
          = .ro (.det 1 (row2 A.exps I (cur + w) s l).al (fun n => - (row2 A.exps I (cur + w) s l).ac n)
              (fun _ => false)) := by
        unfold ofRow2; simp only [hb, if_true]
      rw [hitem] at hmem
      have hdet := compile_det items nd E x hx
        (RoItem.det 1 (row2 A.exps I (cur + w) s l).al (fun n => - (row2 A.exps I (cur + w) s l).ac n) (fun _ => false))
        1 (row2 A.exps I (cur + w) s l).al (fun n => - (row2 A.exps I (cur + w) s l).ac n) (fun _ => false)
        hmem (by simp [blocksOf, RoItem.resolve]) 0 (by omega)
      simp only [Bool.false_eq_true, if_false] at hdet
      rw [row2_setNd A.exps I (cur + w) (nd2 s l) s l, eval_zero]
      have hs2 : ∑ d ∈ range (nd2 s l), (row2 A.exps I (cur + w) s l).al 0 d * x d
          = ∑ d ∈ range nd, (row2 A.exps I (cur + w) s l).al 0 d * x d :=
        sum_range_tail_zero nd (nd2 s l) (hnd2 s l) _ _ (fun _ _ => rfl)
          (fun d hd _ => by
            have ha : I.acol s < I.firstNd A.exps.length := acol_lt I s hs' _
            rw [row2_al, hal s l d (by show cur ≤ d; omega), if_neg (by omega), sub_zero, zero_mul])
      show ∑ d ∈ range (nd2 s l), (row2 A.exps I (cur + w) s l).al 0 d * x d
        + (row2 A.exps I (cur + w) s l).ac 0 ≤ 0
      rw [hs2]
      linarith
  exact C03Rows.dro_rows_sound A.pro A.exps E hE hEsc hA.hst hA.hqp hA.hxl hA.hxp hA.hqe hA.hxle hA.hxe
    hA.hidx hA.hlay I nd2 hnp hA.hS hA.hnz
    (fun s _ l _ => le_trans (le_trans hfirstle hcurw) (hnd2 s l)) hRl hal hlin
    (fun s => A.sup s) (fun s hs => (hA.sup s hs).wf) (fun s hs => (hA.sup s hs).ones)
    (fun s hs => (hA.sup s hs).hnz) (fun s hs => (hA.sup s hs).hq) (fun s hs => (hA.sup s hs).hxq)
    x hv1 hv2 π hπ hπ0 Es hEs ν hν ht hμ

/-! #### the integrand in the user's terms -/

/-- `max_l piece_l` of row `i` of an expectation constraint (negated pieces for `neg`) at the decisions
`x_s(z) = r.x … s v z` obtained by evaluating the decision rules of scenario `s` at `(v, z)` -/
def pwUser (ps : List (Constr K)) (neg : Bool) (i : ℕ) (r : Rule) (nrand : ℕ) (hnp : 0 < ps.length)
    (s : ℕ) (v z : ℕ → K) : K :=
  (range ps.length).sup' ⟨0, mem_range.mpr hnp⟩ fun l => (pieceRows ps neg l).eval i (r.x nrand s v z) z

/-- what the pieces of an expectation constraint must satisfy for the substitution lemma: written over the
vt_model's columns and the model's random components, and **no decision column with a random coefficient (in a
row of a `DecRoConstr` piece) is affinely adaptive**.  The last clause is what `dro_to_roc` checks (it raises
`SyntaxError('Incorrect affine expressions.')` otherwise, as `ro_to_roc` does): it FOLLOWS from
`droItems D = .ok …` (`droItems_piecesOK`). -/
def PiecesOK (D : DroDesc K) (ps : List (Constr K)) : Prop :=
  ∀ l < ps.length, (ps.getD l Constr.zero).rows.nz = D.nrand ∧ D.rule.nv = (ps.getD l Constr.zero).rows.nd ∧
    ((ps.getD l Constr.zero).kind = .ro → ∀ i < eRowsOf ps, ∀ j, ∀ d < D.rule.nv,
      (ps.getD l Constr.zero).rows.Rl i j d ≠ 0 → ∀ j' < D.nrand, D.rule.mask d j' = false)

/-- well-formedness of the exported pieces (the analogue of `hnv`, `hrst` of part (i)): written over the vt_model's
columns and the model's random components, and `pat` covers the pattern of the random coefficients
(`raffine.linear[row_ind].indices`) -/
def PiecesWF (D : DroDesc K) (ps : List (Constr K)) (pat : ℕ → ℕ → ℕ → Bool) : Prop :=
  ∀ l < ps.length, (ps.getD l Constr.zero).rows.nz = D.nrand ∧ D.rule.nv = (ps.getD l Constr.zero).rows.nd ∧
    ∀ i j d, (ps.getD l Constr.zero).rows.Rl i j d ≠ 0 → pat l i d = true

/-- **`PiecesOK` follows from the absence of an exception**: if the model of `do_math` raises nothing, no
expectation constraint has a random coefficient on an affinely adaptive decision. -/
theorem droItems_piecesOK (D : DroDesc K) (items : List (DItem K)) (nd : ℕ)
    (hok : droItems D = .ok (items, nd))
    (ps : List (Constr K)) (eq : Bool) (a : Option ℕ) (pat : ℕ → ℕ → ℕ → Bool)
    (hc : DCon.E ps eq a pat ∈ D.objc :: D.cons) (hwf : PiecesWF D ps pat) : PiecesOK D ps := by
  unfold droItems at hok
  obtain ⟨cur0, L', c1, _, hcon, _, _⟩ := go_mem D _ _ _ _ hok _ hc
  obtain ⟨_, _, hrej, _, _⟩ := conItems_E D cur0 ps eq a pat L' c1 hcon
  intro l hl
  obtain ⟨h1, h2, h3⟩ := hwf l hl
  refine ⟨h1, h2, ?_⟩
  intro hk i hi j d hd hne j' hj'
  exact not_rejectsE D.rule D.nrand ps pat (eRowsOf ps) hrej i hi l hl hk d hd (h3 i j d hne) j' hj'

lemma pieceRows_facts (D : DroDesc K) (ps : List (Constr K)) (hps : PiecesOK D ps) (neg : Bool) (l : ℕ)
    (hl : l < ps.length) (i : ℕ) (hi : i < eRowsOf ps) :
    (pieceRows ps neg l).nz = D.nrand ∧ D.rule.nv = (pieceRows ps neg l).nd ∧
    ∀ j, ∀ d < D.rule.nv, (pieceRows ps neg l).Rl i j d ≠ 0 → ∀ j' < D.nrand, D.rule.mask d j' = false := by
  obtain ⟨h1, h2, h3⟩ := hps l hl
  have hO : (ps.getD l Constr.zero).orig.nz = (ps.getD l Constr.zero).rows.nz ∧
      (ps.getD l Constr.zero).orig.nd = (ps.getD l Constr.zero).rows.nd ∧
      ∀ n j d, (ps.getD l Constr.zero).orig.Rl n j d ≠ 0 →
        (ps.getD l Constr.zero).kind = .ro ∧ (ps.getD l Constr.zero).rows.Rl n j d ≠ 0 := by
    unfold Constr.orig
    cases hk : (ps.getD l Constr.zero).kind
    · exact ⟨rfl, rfl, fun _ _ _ h => ⟨rfl, h⟩⟩
    · exact ⟨rfl, rfl, fun _ _ _ h => absurd rfl h⟩
  unfold pieceRows
  cases neg
  · simp only [Bool.false_eq_true, if_false]
    refine ⟨hO.1.trans h1, h2.trans hO.2.1.symm, fun j d hd h j' hj' => ?_⟩
    obtain ⟨hk, hne⟩ := hO.2.2 i j d h
    exact h3 hk i hi j d hd hne j' hj'
  · simp only [if_true]
    refine ⟨hO.1.trans h1, h2.trans hO.2.1.symm, fun j d hd h j' hj' => ?_⟩
    have hne0 : (ps.getD l Constr.zero).orig.Rl i j d ≠ 0 := by
      intro h0
      apply h
      show - (ps.getD l Constr.zero).orig.Rl i j d = 0
      rw [h0, neg_zero]
    obtain ⟨hk, hne⟩ := hO.2.2 i j d hne0
    exact h3 hk i hi j d hd hne j' hj'

/-- **the pieces of `droIn` are the user's pieces at the rule values** (substitution lemma) -/
lemma pieceVal_droIn (D : DroDesc K) (hD : RuleWF D) (ps : List (Constr K)) (hps : PiecesOK D ps)
    (cur : ℕ) (hcur : D.n0 ≤ cur) (neg : Bool) (i : ℕ) (hi : i < eRowsOf ps) (s : ℕ) (hs : s < D.S)
    (l : ℕ) (hl : l < ps.length) (v z : ℕ → K) :
    (droIn D.rule D.S D.nrand cur ps neg i).pieceVal s l v z
      = (pieceRows ps neg l).eval i (D.rule.x D.nrand s v z) z := by
  obtain ⟨hnz, hnv, hprod⟩ := pieceRows_facts D ps hps neg l hl i hi
  have hsub := subst_eval D.rule s cur (pieceRows ps neg l) hnv
    (fun d hd => lt_of_lt_of_le (hD.cc s hs d hd) hcur)
    (fun d hd j _ hm => lt_of_lt_of_le (hD.lc s hs d hd j hm) hcur) i
    (fun j _ d hd hne j' hj' => hprod j d hd hne j' (by rw [← hnz]; exact hj')) v z
  rw [hnz] at hsub
  rw [← hsub]
  unfold DroIn.pieceVal RoRows.eval droIn
  simp only [hs, if_true]
  show _ = (∑ j ∈ range (pieceRows ps neg l).nz, _) + _
  rw [hnz]
  rfl

/-- **Expectation constraints in the user's terms, `PiecesOK` as an explicit hypothesis**: for every half, every
row and every admissible distribution, `Σ_s π_s · E_s[ max_l piece_l(x_s(z̃), z̃) ] ≤ 0` where `x_s(z)` are the
decisions obtained by evaluating the decision rules of scenario `s` at `(x, z)`. -/
theorem dro_model_sound_E_pieces (D : DroDesc K) (hD : RuleWF D) (items : List (DItem K)) (nd : ℕ)
    (hok : droItems D = .ok (items, nd))
    (E : K → K → K → Prop) (hE : ExpPair E)
    (hEsc : ∀ t a b c : K, 0 ≤ t → E a b c → E (t * a) (t * b) (t * c)) (hmono : ExpMono E)
    (x : ℕ → K) (hx : (compile items nd).Feas E x)
    (ps : List (Constr K)) (eq : Bool) (a : Option ℕ) (pat : ℕ → ℕ → ℕ → Bool)
    (hc : DCon.E ps eq a pat ∈ D.objc :: D.cons)
    (ai : ℕ) (hai : eAmb D a = some ai) (hA : AmbWF (D.amb ai) D.S D.nrand)
    (hnp : 0 < ps.length) (hps : PiecesOK D ps)
    (h : ℕ) (hh : h < (if eq then 2 else 1)) (i : ℕ) (hi : i < eRowsOf ps)
    (π : ℕ → K) (hπ : (D.amb ai).pro.Feas E π) (hπ0 : ∀ s < D.S, 0 ≤ π s)
    (Es : ℕ → ((ℕ → K) → K) → K)
    (hEs : ∀ s < D.S, CondExp (suppOf ((D.amb ai).sup s) E D.nrand) (Es s))
    (ν : ℕ → ℕ → K) (hν : ∀ k < (D.amb ai).exps.length, (blk (D.amb ai).exps k).Feas E (ν k))
    (ht : ∀ k < (D.amb ai).exps.length, 0 ≤ evProb (D.amb ai).exps k π)
    (hμ : ∀ k < (D.amb ai).exps.length, ∀ j < D.nrand, evProb (D.amb ai).exps k π * ν k j
        = ∑ s ∈ range D.S, if s ∈ idx (D.amb ai).exps k then π s * Es s (fun z => z j) else 0) :
    ∑ s ∈ range D.S, π s * Es s (fun z => pwUser ps (decide (h = 1)) i D.rule D.nrand hnp s x z) ≤ 0 := by
  obtain ⟨cur, hcur, H⟩ := dro_model_sound_E D hD items nd hok E hE hEsc hmono x hx ps eq a pat hc ai hai hA hnp
    h hh i hi
  have H' := H π hπ hπ0 Es hEs ν hν ht hμ
  have e : ∀ s ∈ range D.S,
      π s * Es s (fun z => pwUser ps (decide (h = 1)) i D.rule D.nrand hnp s x z)
      = π s * Es s (fun z => C03Rows.pwMax (droIn D.rule D.S D.nrand cur ps (decide (h = 1)) i) hnp s x z) := by
    intro s hs
    have hs' := Finset.mem_range.mp hs
    congr 2
    funext z
    unfold pwUser C03Rows.pwMax
    exact Finset.sup'_congr _ rfl (fun l hl =>
      (pieceVal_droIn D hD ps hps cur hcur (decide (h = 1)) i hi s hs' l (Finset.mem_range.mp hl) x z).symm)
  rw [Finset.sum_congr rfl e]
  exact H'

/-- **Expectation constraints in the user's terms** (`dro_rows_sound` lifted to `dro.Model.do_math()`; `PiecesOK`
is derived from the absence of an exception): for every declared expectation constraint whose exported data are
well-formed (`PiecesWF`), every half, every row and every admissible distribution,
`Σ_s π_s · E_s[ max_l piece_l(x_s(z̃), z̃) ] ≤ 0` where `x_s(z)` are the decisions obtained by evaluating the decision
rules of scenario `s` at `(x, z)`. -/
theorem dro_model_sound_E' (D : DroDesc K) (hD : RuleWF D) (items : List (DItem K)) (nd : ℕ)
    (hok : droItems D = .ok (items, nd))
    (E : K → K → K → Prop) (hE : ExpPair E)
    (hEsc : ∀ t a b c : K, 0 ≤ t → E a b c → E (t * a) (t * b) (t * c)) (hmono : ExpMono E)
    (x : ℕ → K) (hx : (compile items nd).Feas E x)
    (ps : List (Constr K)) (eq : Bool) (a : Option ℕ) (pat : ℕ → ℕ → ℕ → Bool)
    (hc : DCon.E ps eq a pat ∈ D.objc :: D.cons)
    (ai : ℕ) (hai : eAmb D a = some ai) (hA : AmbWF (D.amb ai) D.S D.nrand)
    (hnp : 0 < ps.length) (hpw : PiecesWF D ps pat)
    (h : ℕ) (hh : h < (if eq then 2 else 1)) (i : ℕ) (hi : i < eRowsOf ps)
    (π : ℕ → K) (hπ : (D.amb ai).pro.Feas E π) (hπ0 : ∀ s < D.S, 0 ≤ π s)
    (Es : ℕ → ((ℕ → K) → K) → K)
    (hEs : ∀ s < D.S, CondExp (suppOf ((D.amb ai).sup s) E D.nrand) (Es s))
    (ν : ℕ → ℕ → K) (hν : ∀ k < (D.amb ai).exps.length, (blk (D.amb ai).exps k).Feas E (ν k))
    (ht : ∀ k < (D.amb ai).exps.length, 0 ≤ evProb (D.amb ai).exps k π)
    (hμ : ∀ k < (D.amb ai).exps.length, ∀ j < D.nrand, evProb (D.amb ai).exps k π * ν k j
        = ∑ s ∈ range D.S, if s ∈ idx (D.amb ai).exps k then π s * Es s (fun z => z j) else 0) :
    ∑ s ∈ range D.S, π s * Es s (fun z => pwUser ps (decide (h = 1)) i D.rule D.nrand hnp s x z) ≤ 0 :=
  dro_model_sound_E_pieces D hD items nd hok E hE hEsc hmono x hx ps eq a pat hc ai hai hA hnp
    (droItems_piecesOK D items nd hok ps eq a pat hc hpw) h hh i hi π hπ hπ0 Es hEs ν hν ht hμ

/-! ### The whole program -/

/-- **`dro_model_sound`: the program `dro.Model.do_math()` compiles implies the model the user wrote.**

Let `droItems D = .ok (items, nd)` (the model of `do_math` raises no exception; then `droModel D = .ok (compile
items nd)`), let the rule tables be well-formed and the exponential cone have the pairing, scaling and monotonicity
properties, and let `x` be feasible for the compiled program.  Then

(i)   every declared constraint of `ctype 'R'` (objective row included) holds in every scenario at every
      realisation of the support attached to the scenario, at the rule values read off `x`
      (statement of `ro_to_roc_sound`);
(ii)  every declared expectation constraint (objective row included) whose exported data are well-formed
      (`PiecesWF`: shapes and pattern, the analogue of `hnv`, `hrst`) holds, row by row, for every distribution of
      its ambiguity set, at the rule values read off `x` (statement of `dro_rows_sound`); that no random coefficient
      sits on an affinely adaptive decision is not assumed: it follows from `hok` (`droItems_piecesOK`);
(iii) the epigraph row holds: `var_const[0] = x 1 ≤ x 0`, the objective value of the program. -/
theorem dro_model_sound (D : DroDesc K) (hD : RuleWF D) (items : List (DItem K)) (nd : ℕ)
    (hok : droItems D = .ok (items, nd))
    (E : K → K → K → Prop) (hE : ExpPair E)
    (hEsc : ∀ t a b c : K, 0 ≤ t → E a b c → E (t * a) (t * b) (t * c)) (hmono : ExpMono E)
    (x : ℕ → K) (hx : (compile items nd).Feas E x) :
    (∀ C sel, DCon.R C sel ∈ D.objc :: D.cons →
      D.rule.nv = C.rows.nd →
      (∀ n j d, C.rows.Rl n j d ≠ 0 → C.rst d = true) →
      (∀ s < D.S, ∀ t, tagFor (D.selAmb sel) s = some t → C03Scen.SuppWF (D.selPz sel t) C.rows.nz) →
      ∀ s < D.S, ∀ z, C03Scen.InSupp E (D.selPz sel) (D.selAmb sel) C.rows.nz s z → ∀ n < C.rows.m,
        if C.eq = true then C.orig.eval n (D.rule.x C.rows.nz s x z) z = 0
        else C.orig.eval n (D.rule.x C.rows.nz s x z) z ≤ 0) ∧
    (∀ ps eq a pat, DCon.E ps eq a pat ∈ D.objc :: D.cons →
      ∀ ai, eAmb D a = some ai → AmbWF (D.amb ai) D.S D.nrand →
      ∀ (hnp : 0 < ps.length), PiecesWF D ps pat →
      ∀ h < (if eq then 2 else 1), ∀ i < eRowsOf ps,
      ∀ (π : ℕ → K), (D.amb ai).pro.Feas E π → (∀ s < D.S, 0 ≤ π s) →
      ∀ (Es : ℕ → ((ℕ → K) → K) → K),
        (∀ s < D.S, CondExp (suppOf ((D.amb ai).sup s) E D.nrand) (Es s)) →
      ∀ (ν : ℕ → ℕ → K), (∀ k < (D.amb ai).exps.length, (blk (D.amb ai).exps k).Feas E (ν k)) →
        (∀ k < (D.amb ai).exps.length, 0 ≤ evProb (D.amb ai).exps k π) →
        (∀ k < (D.amb ai).exps.length, ∀ j < D.nrand, evProb (D.amb ai).exps k π * ν k j
          = ∑ s ∈ range D.S, if s ∈ idx (D.amb ai).exps k then π s * Es s (fun z => z j) else 0) →
        ∑ s ∈ range D.S, π s * Es s (fun z => pwUser ps (decide (h = 1)) i D.rule D.nrand hnp s x z) ≤ 0) ∧
    x 1 ≤ x 0 := by
  refine ⟨?_, ?_, ?_⟩
  · intro C sel hc hnv hrst hP
    exact dro_model_sound_R D hD items nd hok E hE hmono x hx C sel hc hnv hrst hP
  · intro ps eq a pat hc ai hai hA hnp hps h hh i hi π hπ hπ0 Es hEs ν hν ht hμ
    exact dro_model_sound_E' D hD items nd hok E hE hEsc hmono x hx ps eq a pat hc ai hai hA hnp hps h hh i hi
      π hπ hπ0 Es hEs ν hν ht hμ
  · obtain ⟨_, hn0⟩ := droItems_wf D items nd hok
    exact compile_obj items nd E x hx (lt_of_lt_of_le hD.one hn0)

/-! ### Example: `minsup E(x + z̃)  s.t.  x·z ≤ 4 ∀ z,  x ≥ 0`, one scenario, `E(z̃) == 2`, support `0 ≤ z ≤ 2`

`m = dro.Model(1)`, `z = m.rvar()`, `x = m.dvar()`, ambiguity set `fset`: support `0 ≤ z ≤ 2` (`C01.exPz`),
`p_0 = 1` (`C03.exPro1`), `E(z) == 2` (`C03.exExps1`); `m.minsup(E(x + z), fset)`, `m.st(x*z <= 4, x >= 0)`.
The vt_model has the columns `t` (epigraph, `dec_vars[0]`), `x`; `rule_var()` allocates `var_const` = columns
1–2 (`n0 = 3`).  The objective row `t >= E(x + z)` goes through `dro_to_roc`: `alpha` = column 3, `beta` =
column 4, the multipliers of the compiled first-stage row = columns 5–7, second-stage row
`(x + z - t) - α - β z <= 0 ∀ z`; the two constraints go through `ro_to_roc`; `nd = 8`, and `ro.Model.do_math`
adds the multiplier columns 8 (second-stage row) and 9 (`x·z <= 4`): 9 rows, 10 columns.  The program is
feasible at `t₀ = 3` (`rc_model`'s epigraph column), `t = 3`, `x = 1`, `α = -2`, `β = 1`, multipliers
`(0, 0, -1)`, `0`, `-1`, and `dro_model_sound` yields: `x·z - 4 ≤ 0` on the whole support, `-x ≤ 0`,
`E[x + z̃ - t] ≤ 0` for the admissible distribution (`z̃ = 2` a.s.: `1 + 2 - 3 = 0`, tight), and `t ≤ t₀`. -/

/-- the rule tables (those `Rule.ofDecs 1 1 exDecs` computes, see the `example` below) -/
def exRule : Rule := { nv := 2, cc := fun _ d => d + 1, mask := fun _ _ => false, lcol := fun _ _ _ => 0 }

def exDecs : List Partition.DecM := [⟨1, [[0]], [[false]]⟩, ⟨1, [[0]], [[false]]⟩]

example : (Rule.ofDecs 1 1 exDecs).nv = exRule.nv
    ∧ (∀ d < 2, (Rule.ofDecs 1 1 exDecs).cc 0 d = exRule.cc 0 d)
    ∧ (∀ d < 2, (Rule.ofDecs 1 1 exDecs).mask d 0 = exRule.mask d 0)
    ∧ ruleWidth 1 exDecs = 3 := by decide

def exAmb : Amb ℚ := { sup := fun _ => C01.exPz, pro := C03.exPro1, exps := C03.exExps1 }

/-- the objective expression `x + z` over the vt columns `t, x` -/
def exObjRows : RoRows ℚ :=
  { nd := 2, m := 1, nz := 1, Rl := fun _ _ _ => 0, Rc := fun _ _ => 1,
    al := fun _ d => if d = 1 then 1 else 0, ac := fun _ => 0 }

/-- `x·z - 4 <= 0` -/
def exC1 : Constr ℚ :=
  { kind := .ro, eq := false
    rows := { nd := 2, m := 1, nz := 1, Rl := fun _ _ d => if d = 1 then 1 else 0, Rc := fun _ _ => 0,
              al := fun _ _ => 0, ac := fun _ => -4 }
    rst := fun d => d == 1 }

/-- `-x <= 0` -/
def exC2 : Constr ℚ :=
  { kind := .lin, eq := false
    rows := { nd := 2, m := 1, nz := 1, Rl := fun _ _ _ => 0, Rc := fun _ _ => 0,
              al := fun _ d => if d = 1 then -1 else 0, ac := fun _ => 0 }
    rst := fun _ => false }

/-- the objective row `t >= E(x + z)` as a piece: `x + z - t <= 0` -/
def exPiece : Constr ℚ := { kind := .ro, eq := false, rows := exObjRows.epi 1, rst := fun _ => false }

def exD : DroDesc ℚ :=
  { S := 1, nrand := 1, rule := exRule, n0 := 3, vtc := ("CC", 2), ambs := [exAmb], dflt := some 0
    objc := objCon 1 true .ro exObjRows (fun _ => false)
    cons := [.R exC1 .dflt, .R exC2 .dflt] }

lemma exD_objc : exD.objc = .E [exPiece] false none (fun _ _ _ => false) := rfl

/-- what `droItems` returns (items, `nd`) -/
def exOut : List (DItem ℚ) × ℕ := match droItems exD with | .ok p => p | .error _ => ([], 0)

/-- `t₀ = 3, t = 3, x = 1, α = -2, β = 1`, multipliers `(0, 0, -1), 0, -1` -/
def exX : ℕ → ℚ := fun c =>
  if c = 0 then 3 else if c = 1 then 3 else if c = 2 then 1 else if c = 3 then -2 else if c = 4 then 1
  else if c = 7 then -1 else if c = 9 then -1 else 0

instance (v : ℚ) (o : Option ℚ) : Decidable (LinProg.leUb v o) := by
  cases o <;> unfold LinProg.leUb <;> infer_instance
instance (v : ℚ) (o : Option ℚ) : Decidable (LinProg.geLb v o) := by
  cases o <;> unfold LinProg.geLb <;> infer_instance

lemma ex_isOk : (droItems exD).toBool = true := by decide +kernel
lemma ex_nd : exOut.2 = 8 := by decide +kernel
lemma ex_nr : (compile exOut.1 exOut.2).lp.nr = 9 := by decide +kernel
lemma ex_nc : (compile exOut.1 exOut.2).lp.nc = 10 := by decide +kernel

/-- the model of `do_math` raises no exception on the instance -/
lemma ex_ok : droItems exD = .ok (exOut.1, exOut.2) := by
  have h := ex_isOk
  unfold exOut
  cases hd : droItems exD with
  | error e => rw [hd] at h; cases h
  | ok p => rfl

lemma ex_droModel : droModel exD = .ok (compile exOut.1 exOut.2) := by
  unfold droModel; rw [ex_ok]

/-- the compiled program is feasible at `exX` -/
lemma ex_feas : (compile exOut.1 exOut.2).Feas (fun _ _ _ => False) exX := by
  refine ⟨⟨?_, ?_, ?_⟩, ?_, ?_⟩
  · decide +kernel
  · decide +kernel
  · decide +kernel
  · intro q hq
    have : (compile exOut.1 exOut.2).qmat = [] := by decide +kernel
    rw [this] at hq; simp at hq
  · intro e he
    have : (compile exOut.1 exOut.2).xmat = [] := by decide +kernel
    rw [this] at he; simp at he

lemma exRuleWF : RuleWF exD where
  cc := by intro s _ d hd; show d + 1 < 3; have : d < 2 := hd; omega
  lc := by intro s _ d _ j hm; cases hm
  mask := by intro d _ j hm; cases hm
  one := by decide

lemma exAmbWF : AmbWF (exD.amb 0) 1 1 where
  hst := C03.exPro1_hst
  hqp := C03.exPro1_hqp
  hxl := C03.exPro1_hxl
  hxp := C03.exPro1_hxp
  hqe := C03.exExps1_hqe
  hxle := C03.exExps1_hxle
  hxe := C03.exExps1_hxe
  hidx := C03.exExps1_hidx
  hlay := by decide
  hS := by decide
  hnz := by
    intro k hk
    have hk' : k < 1 := hk
    have : k = 0 := by omega
    subst this; decide
  sup := fun _ _ => C03Scen.exPz_suppWF

lemma exPiecesWF : PiecesWF exD [exPiece] (fun _ _ _ => false) := by
  intro l hl
  have hl' : l < 1 := hl
  have : l = 0 := by omega
  subst this
  refine ⟨rfl, rfl, ?_⟩
  intro n j d hne
  exfalso; apply hne
  show (1 : ℚ) * 0 = 0
  norm_num

/-- the point `z = 2` lies in the support `0 ≤ z ≤ 2` -/
lemma ex_pt_supp : suppOf C01.exPz (fun _ _ _ => False) 1 (fun _ => (2 : ℚ)) := by
  refine ⟨fun _ => 2, ⟨⟨?_, ?_, ?_⟩, ?_, ?_⟩, fun _ _ => rfl⟩
  · intro r hr; exact absurd hr (by simp [C01.exPz])
  · intro j hj
    have : j = 0 := by
      have : j < 1 := hj
      omega
    subst this
    simp [LinProg.leUb, C01.exPz]
  · intro j hj
    have : j = 0 := by
      have : j < 1 := hj
      omega
    subst this
    simp [LinProg.geLb, C01.exPz]
  · intro q hq; simp [C01.exPz] at hq
  · intro e he; simp [C01.exPz] at he

/-- **`dro_model_sound` on the instance**: all hypotheses hold (the model raises no exception, the program is
feasible at `exX`, rule tables / ambiguity set / pieces are well-formed), and the theorem yields
(i) `x·z - 4 ≤ 0` on the whole support `0 ≤ z ≤ 2` and `-x ≤ 0`, at the rule values read off `exX`;
(ii) `E[x + z̃ - t] ≤ 0` for the admissible distribution `π_0 = 1`, `z̃ = 2` almost surely;
(iii) `t ≤ t₀`. -/
theorem ex_sound :
    (∀ z, suppOf C01.exPz (fun _ _ _ => False) 1 z → exC1.orig.eval 0 (exRule.x 1 0 exX z) z ≤ 0) ∧
    (∀ z, exC2.orig.eval 0 (exRule.x 1 0 exX z) z ≤ 0) ∧
    (∑ s ∈ range 1, (1 : ℚ) * finExp 1 (fun _ => (1:ℚ)) (fun _ _ => (2:ℚ))
        (fun z => pwUser [exPiece] false 0 exRule 1 (by decide) s exX z) ≤ 0) ∧
    exX 1 ≤ exX 0 := by
  obtain ⟨h1, h2, h3⟩ := dro_model_sound exD exRuleWF exOut.1 exOut.2 ex_ok (fun _ _ _ => False)
    (fun _ _ _ _ _ _ h _ => h.elim) (fun _ _ _ _ _ h => h) (fun _ _ _ _ h _ => h.elim) exX ex_feas
  have hP : ∀ s < exD.S, ∀ t, tagFor (exD.selAmb .dflt) s = some t → C03Scen.SuppWF (exD.selPz .dflt t) 1 := by
    intro s _ t ht
    have : t = .dflt s := by
      have : tagFor (exD.selAmb .dflt) s = some (.dflt s) := rfl
      rw [this] at ht; injection ht with ht; exact ht.symm
    subst this
    exact C03Scen.exPz_suppWF
  refine ⟨?_, ?_, ?_, h3⟩
  · intro z hz
    have h := h1 exC1 .dflt (by simp [exD]) rfl
      (by intro n j d hne
          show (d == 1) = true
          have : d = 1 := by
            by_contra hd
            apply hne
            show (if d = 1 then (1:ℚ) else 0) = 0
            rw [if_neg hd]
          simp [this])
      hP 0 (by decide) z
      (by intro t ht
          have : t = .dflt 0 := by
            have : tagFor (exD.selAmb .dflt) 0 = some (.dflt 0) := rfl
            rw [this] at ht; injection ht with ht; exact ht.symm
          subst this
          exact hz)
      0 (by decide)
    have heq : exC1.eq = false := rfl
    simp only [heq, Bool.false_eq_true, if_false] at h
    exact h
  · intro z
    have h := h1 exC2 .dflt (by simp [exD]) rfl
      (by intro n j d hne; exact absurd rfl hne)
      hP 0 (by decide) (fun _ => 2)
      (by intro t ht
          have : t = .dflt 0 := by
            have : tagFor (exD.selAmb .dflt) 0 = some (.dflt 0) := rfl
            rw [this] at ht; injection ht with ht; exact ht.symm
          subst this
          exact ex_pt_supp)
      0 (by decide)
    have heq : exC2.eq = false := rfl
    simp only [heq, Bool.false_eq_true, if_false] at h
    -- a linear constraint does not depend on the realisation
    have e : exC2.orig.eval 0 (exRule.x 1 0 exX z) z = exC2.orig.eval 0 (exRule.x 1 0 exX (fun _ => 2)) (fun _ => 2) := by
      unfold RoRows.eval Constr.orig Rule.x
      simp [exC2, exRule, RoRows.detPart]
    rw [e]
    exact h
  · have h := h2 [exPiece] false none (fun _ _ _ => false) (by rw [exD_objc]; exact List.mem_cons_self) 0 rfl
      exAmbWF (by decide) exPiecesWF 0 (by decide) 0 (by decide) (fun _ => 1)
      (by
        refine ⟨⟨?_, fun _ _ => trivial, fun _ _ => trivial⟩, ?_, ?_⟩
        · intro i hi
          have hi' : i < 2 := hi
          have : i = 0 ∨ i = 1 := by omega
          rcases this with rfl | rfl <;>
            norm_num [LinProg.row, exD, DroDesc.amb, exAmb, C03.exPro1, Finset.sum_range_succ]
        · intro q hq; simp [exD, DroDesc.amb, exAmb, C03.exPro1] at hq
        · intro e he; simp [exD, DroDesc.amb, exAmb, C03.exPro1] at he)
      (by intro s _; norm_num)
      (fun _ => finExp 1 (fun _ => (1:ℚ)) (fun _ _ => (2:ℚ)))
      (by intro s _; exact C03Rows.exEs_condExp)
      (fun _ _ => 2)
      (by
        intro k hk
        have hk' : k < 1 := hk
        have : k = 0 := by omega
        subst this
        refine ⟨⟨?_, fun _ _ => trivial, fun _ _ => trivial⟩, ?_, ?_⟩
        · intro i hi
          have hi' : i < 1 := hi
          have : i = 0 := by omega
          subst this
          norm_num [LinProg.row, blk, exD, DroDesc.amb, exAmb, C03.exExps1, C03.exMean, Finset.sum_range_succ]
        · intro q hq; simp [blk, exD, DroDesc.amb, exAmb, C03.exExps1, C03.exMean] at hq
        · intro e he; simp [blk, exD, DroDesc.amb, exAmb, C03.exExps1, C03.exMean] at he)
      (by
        intro k hk
        have hk' : k < 1 := hk
        have : k = 0 := by omega
        subst this
        norm_num [evProb, idx, exD, DroDesc.amb, exAmb, C03.exExps1])
      (by
        intro k hk j hj
        have hk' : k < 1 := hk
        have : k = 0 := by omega
        subst this
        have hj' : j < 1 := hj
        have : j = 0 := by omega
        subst this
        have hS : exD.S = 1 := rfl
        rw [hS]
        norm_num [evProb, idx, exD, DroDesc.amb, exAmb, C03.exExps1, finExp, Finset.sum_range_succ])
    exact h

/-- the values the theorem bounds: `x·z - 4 = z - 4`, `-x = -1`, and the integrand `x + z - t = z - 2` -/
example (z : ℕ → ℚ) : exC1.orig.eval 0 (exRule.x 1 0 exX z) z = z 0 - 4 := by
  unfold RoRows.eval Constr.orig Rule.x
  simp [exC1, exRule, exX, Finset.sum_range_succ]
  ring

example (z : ℕ → ℚ) : pwUser [exPiece] false 0 exRule 1 (by decide) 0 exX z = z 0 - 2 := by
  unfold pwUser
  simp [pieceRows, exPiece, Constr.orig, RoRows.epi, exObjRows, RoRows.eval, Rule.x, exRule, exX,
    Finset.sum_range_succ]
  ring

/-- the multiplier of the second-stage row matters: with `β = 0` (same other values) the compiled program is
infeasible (its row `-β + Y ≤ -1` with `Y ≤ 0` fails) -/
example : ¬ (compile exOut.1 exOut.2).Feas (fun _ _ _ => False)
    (fun c => if c = 4 then 0 else exX c) := by
  intro h
  have h4 := h.lin.rows 4 (by rw [ex_nr]; decide)
  have hub := h.lin.ubs 8 (by rw [ex_nc]; decide)
  revert h4 hub
  decide +kernel

/-- the check of `dro_to_roc` on an instance: `x` depends affinely on `z` and the objective row `t >= E(x·z - 4)` has
the random coefficient `x`: the model of `do_math` raises `SyntaxError('Incorrect affine expressions.')` -/
def exBad : DroDesc ℚ :=
  { exD with
    rule := { nv := 2, cc := fun _ d => d + 1, mask := fun d j => d == 1 && j == 0, lcol := fun _ _ _ => 3 }
    n0 := 4
    objc := .E [exC1] false none (fun _ _ d => d == 1)
    cons := [] }

example : (match droItems exBad with | .error e => e | .ok _ => "") = "SyntaxError: Incorrect affine expressions." := by
  decide +kernel

end RsomeV.C03Model
