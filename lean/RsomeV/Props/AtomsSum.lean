import RsomeV.L.AtomsSum

/-! # Summed exponential-cone atoms `exp(e).sum(axis)` / `log(e).sum(axis)` of `gcp.Model.do_math`:
the encoding is equivalent to the user's inequalities

Model: `RsomeV/M/AtomsSum.lean`.  `encodeSumAtom n R` is the state `do_math` reaches for a model with `n`
columns (epigraph column `0` and the user columns) holding the single constraint `R`
(`k * Σ_axis exp(e) + out <= 0` when `R.isLog = false`, `-k * Σ_axis log(e) + out <= 0` when
`R.isLog = true`): one auxiliary column `n + s` per entry `e_s` of `affine_in` (row-major), the rows
`aux.sum(axis) + out/k <= 0` resp. `aux.sum(axis) - out/k >= 0`, one cone `exp(e_s) ≤ aux_s` resp.
`exp(aux_s) ≤ e_s` per entry; `.prog` is the emitted `GCProg` (three more columns and rows per cone,
`xmat`).  Cone: `realExpCone` (closed).

`R.groups` lists, for every entry of `affine_in.sum(axis)`, the flat indices of the entries it adds up
(`groupsOfAxis shape axis` computes them the way NumPy does); the rows of the linear constraint are the
pairs `(g, i)` of `R.pairs` = the NumPy broadcast of the sums' shape against the shape of `affine_out`
(`pairs_vec`, `pairs_scalar`: in normal use, where the two shapes agree, row `g` pairs sum `g` with
`out_g`).

Everything over `ℝ` with `Real.exp` / `Real.log`; `v : ℕ → ℝ` assigns columns, the user's inequalities
read the columns `< n` only (`R.inVal n v s`, `R.outVal n v i`).  Hypotheses: `R.WF n` (the expressions
mention the model's `n` columns only), `R.GroupsOk` (groups list entries of `affine_in`), `0 < R.mult`
(rsome stores `abs(k)`).  The groups need not be disjoint nor cover all entries.

* `sound`   : `prog.Feas realExpCone v → user inequalities at v`
* `complete`: `user inequalities at v → ∃ w, (∀ j < n, w j = v j) ∧ prog.Feas realExpCone w` -/

namespace RsomeV.ASum
open RsomeV.AExp Real

/-- **summed X, soundness.**  Every feasible point of the program `do_math` emits for
`k * exp(e).sum(axis) + out <= 0` satisfies `k * Σ_{s ∈ group g} exp(e_s) + out_i ≤ 0` for every row
`(g, i)` of the linear constraint. -/
theorem expsum_sound (n : ℕ) (R : SumReq ℝ) (hX : R.isLog = false) (hwf : R.WF n) (hg : R.GroupsOk)
    (hk : 0 < R.mult) (v : ℕ → ℝ) (hf : (encodeSumAtom n R).prog.Feas realExpCone v) :
    ∀ p ∈ R.pairs,
      R.mult * ((R.groupAt (p.getD 0 0)).map fun s => exp (R.inVal n v s)).sum
        + R.outVal n v (p.getD 1 0) ≤ 0 := by
  have hs := (encodeSumAtom n R).prog_sound (enc_wf n R hwf hg) realExpCone realExpCone_mono v hf
  have hs' : (encodeSumAtom n R).Sat realExpCone v := hs
  exact expsum_sat_sound n R hX hwf hg hk v hs'

/-- **summed X, completeness.**  If the user's inequalities hold at `v`, the auxiliary columns can be
filled in (`w` agrees with `v` on the model's `n` columns; the column of entry `s` gets `exp(e_s)`) so
that the emitted program is feasible. -/
theorem expsum_complete (n : ℕ) (R : SumReq ℝ) (hX : R.isLog = false) (hwf : R.WF n) (hg : R.GroupsOk)
    (hk : 0 < R.mult) (v : ℕ → ℝ)
    (h : ∀ p ∈ R.pairs,
      R.mult * ((R.groupAt (p.getD 0 0)).map fun s => exp (R.inVal n v s)).sum
        + R.outVal n v (p.getD 1 0) ≤ 0) :
    ∃ w, (∀ j < n, w j = v j) ∧ (encodeSumAtom n R).prog.Feas realExpCone w := by
  obtain ⟨w, hw, _, hf⟩ := enc_feasible_of_sat n R hwf hg v (fun s => exp (R.inVal n v s))
    (fun v' hv haux => expsum_sat_complete n R hX hwf hg hk v v' hv haux h)
  exact ⟨w, hw, hf⟩

/-- **summed L, soundness.**  Every feasible point of the program emitted for
`-k * log(e).sum(axis) + out <= 0` has `e_s > 0` *strictly* for every entry and satisfies
`-k * Σ_{s ∈ group g} log(e_s) + out_i ≤ 0` for every row `(g, i)`.  (The cone of entry `s` is
`ExpConstr(aux_s, e_s, 1)`: `exp(aux_s) ≤ e_s` forces `e_s > 0`; no point with `e_s = 0` is admitted.) -/
theorem logsum_sound (n : ℕ) (R : SumReq ℝ) (hL : R.isLog = true) (hwf : R.WF n) (hg : R.GroupsOk)
    (hk : 0 < R.mult) (v : ℕ → ℝ) (hf : (encodeSumAtom n R).prog.Feas realExpCone v) :
    (∀ s < R.ns, 0 < R.inVal n v s) ∧
    ∀ p ∈ R.pairs,
      -R.mult * ((R.groupAt (p.getD 0 0)).map fun s => log (R.inVal n v s)).sum
        + R.outVal n v (p.getD 1 0) ≤ 0 := by
  have hs := (encodeSumAtom n R).prog_sound (enc_wf n R hwf hg) realExpCone realExpCone_mono v hf
  exact logsum_sat_sound n R hL hwf hg hk v hs

/-- **summed L, completeness** on the exact domain `e_s > 0` (the column of entry `s` gets
`log(e_s)`). -/
theorem logsum_complete (n : ℕ) (R : SumReq ℝ) (hL : R.isLog = true) (hwf : R.WF n) (hg : R.GroupsOk)
    (hk : 0 < R.mult) (v : ℕ → ℝ)
    (h : (∀ s < R.ns, 0 < R.inVal n v s) ∧
      ∀ p ∈ R.pairs,
        -R.mult * ((R.groupAt (p.getD 0 0)).map fun s => log (R.inVal n v s)).sum
          + R.outVal n v (p.getD 1 0) ≤ 0) :
    ∃ w, (∀ j < n, w j = v j) ∧ (encodeSumAtom n R).prog.Feas realExpCone w := by
  obtain ⟨w, hw, _, hf⟩ := enc_feasible_of_sat n R hwf hg v (fun s => log (R.inVal n v s))
    (fun v' hv haux => logsum_sat_complete n R hL hwf hg hk v v' hv haux h)
  exact ⟨w, hw, hf⟩

/-! ## the rows in normal use: the sums and `affine_out` have the same shape -/

/-- `axis = None` (or a 1-D `e`) and a scalar other side: one row, sum `0` with `out_0` -/
lemma pairs_scalar (R : SumReq ℝ) (h1 : R.sumShape = []) (h2 : R.outShape = []) :
    R.pairs = [[0, 0]] := by
  unfold SumReq.pairs
  rw [h1, h2]
  decide

/-- sums and other side both of shape `(m,)`: row `g` pairs sum `g` with `out_g` -/
lemma pairs_vec (R : SumReq ℝ) (m : ℕ) (h1 : R.sumShape = [m]) (h2 : R.outShape = [m]) :
    R.pairs = (List.range m).map fun g => [g, g] := by
  unfold SumReq.pairs
  rw [h1, h2]
  have hb : Nd.broadcastShapes [m] [m] = some [m] := by
    simp [Nd.broadcastShapes, Nd.bcastRev]
  have hb0 : Nd.broadcastShapes [] [m] = some [m] := by
    simp [Nd.broadcastShapes, Nd.bcastRev]
  simp only [bcastIdx, List.foldl_cons, List.foldl_nil, Option.bind_some, hb0, hb, Nd.size, mul_one,
    List.map_cons, List.map_nil]
  apply List.map_congr_left
  intro k hk
  have hk' : k < m := List.mem_range.1 hk
  have : Nd.bcastFlat [m] [m] k = k := by
    simp only [Nd.bcastFlat, Nd.unravel, Nd.size, Nat.div_one, Nd.bcastIdx, List.length_cons,
      List.length_nil, Nat.sub_self, List.drop_zero, List.zipWith_cons_cons, List.zipWith_nil_right,
      Nd.ravel, mul_one, add_zero]
    split_ifs with h
    · omega
    · rfl
  rw [this]

/-- **summed X, one inequality per group** (`out` has the shape `(m,)` of the sums): feasible points
satisfy `k * Σ_{s ∈ group g} exp(e_s) + out_g ≤ 0` for every group `g < m` -/
theorem expsum_sound_groups (n m : ℕ) (R : SumReq ℝ) (hX : R.isLog = false) (hwf : R.WF n)
    (hg : R.GroupsOk) (hk : 0 < R.mult) (h1 : R.sumShape = [m]) (h2 : R.outShape = [m]) (v : ℕ → ℝ)
    (hf : (encodeSumAtom n R).prog.Feas realExpCone v) :
    ∀ g < m, R.mult * ((R.groupAt g).map fun s => exp (R.inVal n v s)).sum + R.outVal n v g ≤ 0 := by
  intro g hgm
  have := expsum_sound n R hX hwf hg hk v hf [g, g]
    (by rw [pairs_vec R m h1 h2]; exact List.mem_map.2 ⟨g, List.mem_range.2 hgm, rfl⟩)
  simpa using this

/-- ... and conversely -/
theorem expsum_complete_groups (n m : ℕ) (R : SumReq ℝ) (hX : R.isLog = false) (hwf : R.WF n)
    (hg : R.GroupsOk) (hk : 0 < R.mult) (h1 : R.sumShape = [m]) (h2 : R.outShape = [m]) (v : ℕ → ℝ)
    (h : ∀ g < m, R.mult * ((R.groupAt g).map fun s => exp (R.inVal n v s)).sum + R.outVal n v g ≤ 0) :
    ∃ w, (∀ j < n, w j = v j) ∧ (encodeSumAtom n R).prog.Feas realExpCone w := by
  apply expsum_complete n R hX hwf hg hk v
  intro p hp
  rw [pairs_vec R m h1 h2] at hp
  obtain ⟨g, hgm, rfl⟩ := List.mem_map.1 hp
  simpa using h g (List.mem_range.1 hgm)

/-- **summed L, one inequality per group**: feasible points have all `e_s > 0` and satisfy
`-k * Σ_{s ∈ group g} log(e_s) + out_g ≤ 0` for every group `g < m` -/
theorem logsum_sound_groups (n m : ℕ) (R : SumReq ℝ) (hL : R.isLog = true) (hwf : R.WF n)
    (hg : R.GroupsOk) (hk : 0 < R.mult) (h1 : R.sumShape = [m]) (h2 : R.outShape = [m]) (v : ℕ → ℝ)
    (hf : (encodeSumAtom n R).prog.Feas realExpCone v) :
    (∀ s < R.ns, 0 < R.inVal n v s) ∧
    ∀ g < m, -R.mult * ((R.groupAt g).map fun s => log (R.inVal n v s)).sum + R.outVal n v g ≤ 0 := by
  obtain ⟨hpos, hall⟩ := logsum_sound n R hL hwf hg hk v hf
  refine ⟨hpos, fun g hgm => ?_⟩
  have := hall [g, g]
    (by rw [pairs_vec R m h1 h2]; exact List.mem_map.2 ⟨g, List.mem_range.2 hgm, rfl⟩)
  simpa using this

/-- ... and conversely -/
theorem logsum_complete_groups (n m : ℕ) (R : SumReq ℝ) (hL : R.isLog = true) (hwf : R.WF n)
    (hg : R.GroupsOk) (hk : 0 < R.mult) (h1 : R.sumShape = [m]) (h2 : R.outShape = [m]) (v : ℕ → ℝ)
    (h : (∀ s < R.ns, 0 < R.inVal n v s) ∧
      ∀ g < m, -R.mult * ((R.groupAt g).map fun s => log (R.inVal n v s)).sum + R.outVal n v g ≤ 0) :
    ∃ w, (∀ j < n, w j = v j) ∧ (encodeSumAtom n R).prog.Feas realExpCone w := by
  apply logsum_complete n R hL hwf hg hk v
  refine ⟨h.1, ?_⟩
  intro p hp
  rw [pairs_vec R m h1 h2] at hp
  obtain ⟨g, hgm, rfl⟩ := List.mem_map.1 hp
  simpa using h.2 g (List.mem_range.1 hgm)

/-! ## concrete instances -/

namespace AtomsSumExamples

/-- the groups of `a.sum(axis=0)`, `a.sum(axis=1)`, `a.sum(axis=-1)`, `a.sum()` for `a` of shape `(2, 3)`
(flat row-major indices), and the shapes of the results -/
example : groupsOfAxis [2, 3] (some 0) = some ([[0, 3], [1, 4], [2, 5]], [3]) := by decide
example : groupsOfAxis [2, 3] (some 1) = some ([[0, 1, 2], [3, 4, 5]], [2]) := by decide
example : groupsOfAxis [2, 3] (some (-1)) = some ([[0, 1, 2], [3, 4, 5]], [2]) := by decide
example : groupsOfAxis [2, 3] none = some ([[0, 1, 2, 3, 4, 5]], []) := by decide
example : groupsOfAxis [3] (some 0) = some ([[0, 1, 2]], []) := by decide
example : groupsOfAxis [2, 3] (some 2) = none := by decide

/-! A model with columns `0` (epigraph), `1` (`x`), `2` (`y`); `e = [x, y]`, everything is summed. -/

/-- the expression `x` (column 1 of a 3-column model) -/
noncomputable def xE : Aff ℝ := Aff.ofRow 3 (fun j => if j = 1 then 1 else 0) 0
/-- the expression `y` (column 2) -/
noncomputable def yE : Aff ℝ := Aff.ofRow 3 (fun j => if j = 2 then 1 else 0) 0
/-- a constant -/
noncomputable def cE (c : ℝ) : Aff ℝ := Aff.ofRow 3 (fun _ => 0) c

/-- `k * f([x, y]).sum() + c <= 0` (`f = log` when `lg`, with `-k` then) -/
noncomputable def exS (lg : Bool) (k c : ℝ) : SumReq ℝ := ⟨lg, k, [xE, yE], [[0, 1]], [cE c], [], []⟩

lemma exS_wf (lg : Bool) (k c : ℝ) : (exS lg k c).WF 3 := by
  constructor <;> intro e he <;> simp [exS] at he
  · rcases he with rfl | rfl <;> exact Aff.suppLt_ofRow _ _ _
  · subst he; exact Aff.suppLt_ofRow _ _ _

lemma exS_groups (lg : Bool) (k c : ℝ) : (exS lg k c).GroupsOk := by
  intro g hg s hs
  simp [exS] at hg
  subst hg
  simp at hs
  show s < 2
  omega

lemma exS_pairs (lg : Bool) (k c : ℝ) : (exS lg k c).pairs = [[0, 0]] := pairs_scalar _ rfl rfl

lemma exS_in0 (lg : Bool) (k c : ℝ) (v : ℕ → ℝ) : (exS lg k c).inVal 3 v 0 = v 1 := by
  simp [SumReq.inVal, SumReq.inAt, exS, xE, Aff.eval, Aff.ofRow, Finset.sum_range_succ]
lemma exS_in1 (lg : Bool) (k c : ℝ) (v : ℕ → ℝ) : (exS lg k c).inVal 3 v 1 = v 2 := by
  simp [SumReq.inVal, SumReq.inAt, exS, yE, Aff.eval, Aff.ofRow, Finset.sum_range_succ]
lemma exS_out (lg : Bool) (k c : ℝ) (v : ℕ → ℝ) : (exS lg k c).outVal 3 v 0 = c := by
  simp [SumReq.outVal, exS, cE, Aff.eval, Aff.ofRow]
lemma exS_mult (lg : Bool) (k c : ℝ) : (exS lg k c).mult = k := rfl
lemma exS_group (lg : Bool) (k c : ℝ) : (exS lg k c).groupAt 0 = [0, 1] := rfl
lemma exS_ns (lg : Bool) (k c : ℝ) : (exS lg k c).ns = 2 := rfl

/-- column layout: auxiliary columns 3, 4 (one per entry), cone columns 5..7 and 8..10 -/
example : (encodeSumAtom 3 (exS false 1 (-2))).prog.xmat = [[5, 6, 7], [8, 9, 10]] := by
  simp [encodeSumAtom, ExpEnc.prog, exS_ns, List.range_succ]

example : (encodeSumAtom 3 (exS false 1 (-2))).prog.lp.nc = 11 ∧
    (encodeSumAtom 3 (exS false 1 (-2))).prog.lp.nr = 7 := by
  simp [encodeSumAtom, ExpEnc.prog, ExpEnc.allRows, ExpEnc.coneRows, ExpEnc.coneRows3, exS_ns, exS_pairs,
    List.range_succ]

/-- `exp([x, y]).sum() - 2 <= 0` : every feasible point of the encoding has `exp x + exp y ≤ 2` -/
example (w : ℕ → ℝ) (hf : (encodeSumAtom 3 (exS false 1 (-2))).prog.Feas realExpCone w) :
    exp (w 1) + exp (w 2) ≤ 2 := by
  have := expsum_sound 3 (exS false 1 (-2)) rfl (exS_wf _ _ _) (exS_groups _ _ _) (by simp [exS_mult]) w hf
    [0, 0] (by simp [exS_pairs])
  simp only [List.getD_cons_zero, List.getD_cons_succ, exS_group, List.map_cons, List.map_nil, List.sum_cons, List.sum_nil,
    exS_in0, exS_in1, exS_out, exS_mult] at this
  linarith

/-- `exp([x, y]).sum() - 2 <= 0` : the point `x = y = 0` extends to a feasible point of the encoding -/
example : ∃ w : ℕ → ℝ, w 1 = 0 ∧ w 2 = 0 ∧
    (encodeSumAtom 3 (exS false 1 (-2))).prog.Feas realExpCone w := by
  obtain ⟨w, hw, hf⟩ := expsum_complete 3 (exS false 1 (-2)) rfl (exS_wf _ _ _) (exS_groups _ _ _)
    (by simp [exS_mult]) (fun _ => 0) (by
    intro p hp
    simp only [exS_pairs, List.mem_singleton] at hp
    subst hp
    simp only [List.getD_cons_zero, List.getD_cons_succ, exS_group, List.map_cons, List.map_nil, List.sum_cons, List.sum_nil,
      exS_in0, exS_in1, exS_out, exS_mult, exp_zero]
    norm_num)
  exact ⟨w, hw 1 (by norm_num), hw 2 (by norm_num), hf⟩

/-- `-(log([x, y]).sum()) <= 0` : every feasible point has `x > 0`, `y > 0` and `x*y ≥ 1` -/
example (w : ℕ → ℝ) (hf : (encodeSumAtom 3 (exS true 1 0)).prog.Feas realExpCone w) :
    0 < w 1 ∧ 0 < w 2 ∧ 1 ≤ w 1 * w 2 := by
  obtain ⟨hpos, hall⟩ := logsum_sound 3 (exS true 1 0) rfl (exS_wf _ _ _) (exS_groups _ _ _)
    (by simp [exS_mult]) w hf
  have hx := hpos 0 (by simp [exS_ns])
  have hy := hpos 1 (by simp [exS_ns])
  rw [exS_in0] at hx
  rw [exS_in1] at hy
  have := hall [0, 0] (by simp [exS_pairs])
  simp only [List.getD_cons_zero, List.getD_cons_succ, exS_group, List.map_cons, List.map_nil, List.sum_cons, List.sum_nil,
    exS_in0, exS_in1, exS_out, exS_mult] at this
  refine ⟨hx, hy, ?_⟩
  have h1 : 0 ≤ log (w 1 * w 2) := by rw [log_mul (ne_of_gt hx) (ne_of_gt hy)]; linarith
  exact (log_nonneg_iff (mul_pos hx hy)).1 h1

/-- `-(log([x, y]).sum()) <= 0` : `x = y = 1` is admitted -/
example : ∃ w : ℕ → ℝ, w 1 = 1 ∧ w 2 = 1 ∧ (encodeSumAtom 3 (exS true 1 0)).prog.Feas realExpCone w := by
  obtain ⟨w, hw, hf⟩ := logsum_complete 3 (exS true 1 0) rfl (exS_wf _ _ _) (exS_groups _ _ _)
    (by simp [exS_mult]) (fun _ => 1) (by
    constructor
    · intro s hs
      have hs' : s < 2 := hs
      rcases (by omega : s = 0 ∨ s = 1) with rfl | rfl
      · rw [exS_in0]; norm_num
      · rw [exS_in1]; norm_num
    · intro p hp
      simp only [exS_pairs, List.mem_singleton] at hp
      subst hp
      simp only [List.getD_cons_zero, List.getD_cons_succ, exS_group, List.map_cons, List.map_nil, List.sum_cons,
        List.sum_nil, exS_in0, exS_in1, exS_out, exS_mult, log_one]
      norm_num)
  exact ⟨w, hw 1 (by norm_num), hw 2 (by norm_num), hf⟩

/-- `-(log([x, y]).sum()) <= 0` : no feasible point has `x = 0` (the domain of `log` is enforced
entry by entry, also when the sum would be compensated by the other entry) -/
example (w : ℕ → ℝ) (hf : (encodeSumAtom 3 (exS true 1 0)).prog.Feas realExpCone w) : w 1 ≠ 0 := by
  obtain ⟨hpos, _⟩ := logsum_sound 3 (exS true 1 0) rfl (exS_wf _ _ _) (exS_groups _ _ _)
    (by simp [exS_mult]) w hf
  have hx := hpos 0 (by simp [exS_ns])
  rw [exS_in0] at hx
  exact ne_of_gt hx

end AtomsSumExamples

end RsomeV.ASum
