import RsomeV.L.AtomsSoc
import Mathlib.Tactic.IntervalCases
import Mathlib.Tactic.NormNum

/-! # Atom encodings A / M / I / E / S / Q, `rsocone`, and the bound fold

Property theorems about the order-faithful model `RsomeV/M/AtomsSoc.lean` of what
`lp.Model.do_math` and `socp.Model.do_math` add to the standard form for one `CvxConstr`.
For every xtype: `…_sound` (every point feasible for the emitted program satisfies the user's
inequality `k·f(Ain·x+bin) + (Aout·x+bout) ≤ 0`) and `…_complete` (if the user's inequality holds
at the user columns of `v`, auxiliary values exist that make the emitted program feasible without
changing the user columns).  The user's inequality only reads columns `< A.n` (`AtomIn.inv`,
`AtomIn.outv`).  Norms are stated without square roots, over every linear ordered field.
The model is tied to rsome's code by `test_atoms_soc.py` (entry-by-entry comparison with
`do_math()`). -/

set_option linter.unusedSectionVars false
set_option linter.unusedSimpArgs false
set_option linter.unusedVariables false

namespace RsomeV.AtomsSoc
open Finset RsomeV
variable {K : Type} [Field K] [LinearOrder K] [IsStrictOrderedRing K]

/-! ### `'A'`: element-wise absolute value -/

/-- **abs, soundness.** The two row blocks `k·in + out ≤ 0`, `-k·in + out ≤ 0` imply
`k·|in_i| + out_i ≤ 0` for every element (`k ≥ 0` is the stored multiplier). -/
theorem abs_sound (A : AtomIn K) (hk : 0 ≤ A.k) (Ex : K → K → K → Prop) (w : ℕ → K)
    (h : (encodeAtom .A A).prog.Feas Ex w) : ∀ i < A.r, A.k * |A.inv w i| + A.outv w i ≤ 0 := by
  obtain ⟨h1, h2⟩ := (encA_feas A Ex w).mp h
  intro i hi
  have : |A.k * A.inv w i| ≤ -A.outv w i := abs_le.mpr ⟨by linarith [h2 i hi], by linarith [h1 i hi]⟩
  rw [abs_mul, abs_of_nonneg hk] at this
  linarith

/-- **abs, completeness.** No auxiliary column: the point itself is feasible. -/
theorem abs_complete (A : AtomIn K) (hk : 0 ≤ A.k) (Ex : K → K → K → Prop) (v : ℕ → K)
    (h : ∀ i < A.r, A.k * |A.inv v i| + A.outv v i ≤ 0) :
    ∃ w, (∀ j < A.n, w j = v j) ∧ (encodeAtom .A A).prog.Feas Ex w := by
  refine ⟨v, fun _ _ => rfl, (encA_feas A Ex v).mpr ⟨fun i hi => ?_, fun i hi => ?_⟩⟩
  · have := h i hi
    have h2 : A.k * A.inv v i ≤ A.k * |A.inv v i| := mul_le_mul_of_nonneg_left (le_abs_self _) hk
    linarith
  · have := h i hi
    have h2 : A.k * -A.inv v i ≤ A.k * |A.inv v i| := mul_le_mul_of_nonneg_left (neg_le_abs _) hk
    linarith

/-! ### `'M'`: 1-norm -/

/-- **1-norm, soundness.** -/
theorem norm1_sound (A : AtomIn K) (hk : 0 ≤ A.k) (Ex : K → K → K → Prop) (w : ℕ → K)
    (h : (encodeAtom .M A).prog.Feas Ex w) : A.k * ∑ i ∈ range A.r, |A.inv w i| + A.outv w 0 ≤ 0 := by
  obtain ⟨h1, h2, h3⟩ := (encM_feas A Ex w).mp h
  have : A.k * ∑ i ∈ range A.r, |A.inv w i| ≤ ∑ i ∈ range A.r, w (A.n + i) := by
    rw [Finset.mul_sum]
    apply Finset.sum_le_sum
    intro i hi
    have hi := Finset.mem_range.mp hi
    have : |A.k * A.inv w i| ≤ w (A.n + i) := abs_le.mpr ⟨by linarith [h2 i hi], h1 i hi⟩
    rwa [abs_mul, abs_of_nonneg hk] at this
  linarith

/-- **1-norm, completeness.** Auxiliary values `aux_i = k·|in_i|`. -/
theorem norm1_complete (A : AtomIn K) (hk : 0 ≤ A.k) (Ex : K → K → K → Prop) (v : ℕ → K)
    (h : A.k * ∑ i ∈ range A.r, |A.inv v i| + A.outv v 0 ≤ 0) :
    ∃ w, (∀ j < A.n, w j = v j) ∧ (encodeAtom .M A).prog.Feas Ex w := by
  refine ⟨extend A.n v (fun t => A.k * |A.inv v t|), fun j hj => extend_lt _ _ _ _ hj,
    (encM_feas A Ex _).mpr ⟨fun i hi => ?_, fun i hi => ?_, ?_⟩⟩
  · simp only [extend_add, AtomIn.inv_extend]
    exact mul_le_mul_of_nonneg_left (le_abs_self _) hk
  · simp only [extend_add, AtomIn.inv_extend]
    have := mul_le_mul_of_nonneg_left (neg_le_abs (A.inv v i)) hk
    linarith
  · simp only [extend_add, AtomIn.outv_extend, ← Finset.mul_sum]
    exact h

/-! ### `'I'`: infinity norm -/

/-- **inf-norm, soundness.** With `r = 0` rows the conclusion is vacuous — and so is the encoding,
see `norminf_zero_rows`. -/
theorem norminf_sound (A : AtomIn K) (hk : 0 ≤ A.k) (Ex : K → K → K → Prop) (w : ℕ → K)
    (h : (encodeAtom .I A).prog.Feas Ex w) : ∀ i < A.r, A.k * |A.inv w i| + A.outv w 0 ≤ 0 := by
  obtain ⟨h1, h2, h3⟩ := (encI_feas A Ex w).mp h
  intro i hi
  have : |A.k * A.inv w i| ≤ w A.n := abs_le.mpr ⟨by linarith [h2 i hi], h1 i hi⟩
  rw [abs_mul, abs_of_nonneg hk] at this
  linarith

/-- **inf-norm, completeness.** Auxiliary value `aux = -out`. -/
theorem norminf_complete (A : AtomIn K) (hk : 0 ≤ A.k) (Ex : K → K → K → Prop) (v : ℕ → K)
    (h : ∀ i < A.r, A.k * |A.inv v i| + A.outv v 0 ≤ 0) :
    ∃ w, (∀ j < A.n, w j = v j) ∧ (encodeAtom .I A).prog.Feas Ex w := by
  refine ⟨extend A.n v (fun _ => -A.outv v 0), fun j hj => extend_lt _ _ _ _ hj,
    (encI_feas A Ex _).mpr ⟨fun i hi => ?_, fun i hi => ?_, ?_⟩⟩
  · simp only [extend_self, AtomIn.inv_extend]
    have := mul_le_mul_of_nonneg_left (le_abs_self (A.inv v i)) hk
    linarith [h i hi]
  · simp only [extend_self, AtomIn.inv_extend]
    have := mul_le_mul_of_nonneg_left (neg_le_abs (A.inv v i)) hk
    linarith [h i hi]
  · simp only [extend_self, AtomIn.outv_extend]
    linarith

/-- **inf-norm of an empty vector.** With `r = 0` rows the encoding is the single row
`aux + out ≤ 0` with a free auxiliary column: it holds for *every* user point (also when
`out > 0`), i.e. it does not encode `k·‖()‖∞ + out = out ≤ 0`.  (Not reachable through
`rso.norm`, whose argument is a non-empty 1-D array in practice; contrast `'M'`, whose row
`Σ aux + out ≤ 0` does reduce to `out ≤ 0`.) -/
theorem norminf_zero_rows (A : AtomIn K) (hr : A.r = 0) (hk : 0 ≤ A.k) (Ex : K → K → K → Prop) (v : ℕ → K) :
    ∃ w, (∀ j < A.n, w j = v j) ∧ (encodeAtom .I A).prog.Feas Ex w :=
  norminf_complete A hk Ex v (fun i hi => by omega)

/-! ### `'E'`: Euclidean norm -/

/-- **2-norm, soundness.** `k‖in‖₂ + out ≤ 0` without square roots: `out ≤ 0 ∧ Σ (k·in_i)² ≤ out²`. -/
theorem norm2_sound (A : AtomIn K) (Ex : K → K → K → Prop) (w : ℕ → K)
    (h : (encodeAtom .E A).prog.Feas Ex w) :
    A.outv w 0 ≤ 0 ∧ ∑ i ∈ range A.r, (A.k * A.inv w i) ^ 2 ≤ A.outv w 0 ^ 2 := by
  obtain ⟨h1, h2, h3, h4⟩ := (encE_feas A Ex w).mp h
  refine ⟨by linarith, ?_⟩
  have e : ∑ i ∈ range A.r, (A.k * A.inv w i) ^ 2 = ∑ i ∈ range A.r, w (A.n + i) ^ 2 :=
    Finset.sum_congr rfl fun i hi => by rw [h1 i (Finset.mem_range.mp hi)]
  rw [e]
  have : w (A.n + A.r) ^ 2 ≤ (-A.outv w 0) ^ 2 := pow_le_pow_left₀ h3 (by linarith) 2
  rw [neg_sq] at this
  linarith

/-- **2-norm, completeness.** `aux_left = k·in`, `aux_right = -out`. -/
theorem norm2_complete (A : AtomIn K) (Ex : K → K → K → Prop) (v : ℕ → K)
    (h : A.outv v 0 ≤ 0 ∧ ∑ i ∈ range A.r, (A.k * A.inv v i) ^ 2 ≤ A.outv v 0 ^ 2) :
    ∃ w, (∀ j < A.n, w j = v j) ∧ (encodeAtom .E A).prog.Feas Ex w := by
  obtain ⟨ho, hs⟩ := h
  set aux : ℕ → K := fun t => if t < A.r then A.k * A.inv v t else -A.outv v 0 with haux
  have ha : ∀ i < A.r, aux i = A.k * A.inv v i := fun i hi => by simp [haux, hi]
  have hr : aux A.r = -A.outv v 0 := by simp [haux]
  refine ⟨extend A.n v aux, fun j hj => extend_lt _ _ _ _ hj,
    (encE_feas A Ex _).mpr ⟨fun i hi => ?_, ?_, ?_, ?_⟩⟩
  · simp only [extend_add, AtomIn.inv_extend, ha i hi]
  · simp only [extend_add, AtomIn.outv_extend, hr]; linarith
  · simp only [extend_add, hr]; linarith
  · simp only [extend_add, hr, neg_sq]
    have e : ∑ i ∈ range A.r, aux i ^ 2 = ∑ i ∈ range A.r, (A.k * A.inv v i) ^ 2 :=
      Finset.sum_congr rfl fun i hi => by rw [ha i (Finset.mem_range.mp hi)]
    rw [e]; exact hs

/-! ### `'S'`: element-wise square -/

/-- **square, soundness.** `A.k` is the stored multiplier `k_s` (`k_s² = ` the user's factor):
`(k_s·in_i)² + out_i ≤ 0` for every element. -/
theorem square_sound (A : AtomIn K) (Ex : K → K → K → Prop) (w : ℕ → K)
    (h : (encodeAtom .S A).prog.Feas Ex w) : ∀ i < A.r, (A.k * A.inv w i) ^ 2 + A.outv w i ≤ 0 := by
  obtain ⟨h1, h2, h3, h4, h5⟩ := (encS_feas A Ex w).mp h
  intro i hi
  have := h5 i hi
  rw [h1 i hi, h2 i hi, h3 i hi] at this
  have e : (1 / 2 * (1 - A.outv w i)) ^ 2 - (1 / 2 * (1 + A.outv w i)) ^ 2 = -A.outv w i := by ring
  linarith

/-- **square, completeness.** `aux1 = (1+out)/2`, `aux2 = k_s·in`, `aux3 = (1-out)/2` (non-negative
because `out ≤ 0`). -/
theorem square_complete (A : AtomIn K) (Ex : K → K → K → Prop) (v : ℕ → K)
    (h : ∀ i < A.r, (A.k * A.inv v i) ^ 2 + A.outv v i ≤ 0) :
    ∃ w, (∀ j < A.n, w j = v j) ∧ (encodeAtom .S A).prog.Feas Ex w := by
  set aux : ℕ → K := fun t =>
    if t < A.r then 1 / 2 * (1 + A.outv v t)
    else if t < A.r + A.r then A.k * A.inv v (t - A.r)
    else 1 / 2 * (1 - A.outv v (t - (A.r + A.r))) with haux
  have h1 : ∀ i < A.r, aux i = 1 / 2 * (1 + A.outv v i) := fun i hi => by simp [haux, hi]
  have h2 : ∀ i < A.r, aux (A.r + i) = A.k * A.inv v i := fun i hi => by simp [haux, hi]
  have h3 : ∀ i < A.r, aux (A.r + A.r + i) = 1 / 2 * (1 - A.outv v i) := fun i hi => by
    have : ¬ (A.r + A.r + i < A.r) := by omega
    simp [haux, this]
  have ho : ∀ i < A.r, A.outv v i ≤ 0 := fun i hi => by
    have := h i hi
    have := sq_nonneg (A.k * A.inv v i)
    linarith
  refine ⟨extend A.n v aux, fun j hj => extend_lt _ _ _ _ hj,
    (encS_feas A Ex _).mpr ⟨fun i hi => ?_, fun i hi => ?_, fun i hi => ?_, fun i hi => ?_, fun i hi => ?_⟩⟩
  · simp only [extend_add, AtomIn.outv_extend, h1 i hi]
  · simp only [extend_add, AtomIn.inv_extend, h2 i hi]
  · simp only [extend_add, AtomIn.outv_extend, h3 i hi]
  · simp only [extend_add, h3 i hi]; linarith [ho i hi]
  · simp only [extend_add, h1 i hi, h2 i hi, h3 i hi]
    have e : (1 / 2 * (1 - A.outv v i)) ^ 2 - (1 / 2 * (1 + A.outv v i)) ^ 2 = -A.outv v i := by ring
    linarith [h i hi]

/-! ### `'Q'`: sum of squares -/

/-- **sumsqr, soundness.** `Σ (k_s·in_i)² + out ≤ 0` (`A.k = k_s` the stored multiplier). -/
theorem sumsqr_sound (A : AtomIn K) (Ex : K → K → K → Prop) (w : ℕ → K)
    (h : (encodeAtom .Q A).prog.Feas Ex w) : ∑ i ∈ range A.r, (A.k * A.inv w i) ^ 2 + A.outv w 0 ≤ 0 := by
  obtain ⟨h1, h2, h3, h4, h5, h6⟩ := (encQ_feas A Ex w).mp h
  have e : ∑ i ∈ range A.r, (A.k * A.inv w i) ^ 2 = ∑ i ∈ range A.r, w (A.n + (1 + i)) ^ 2 :=
    Finset.sum_congr rfl fun i hi => by rw [h2 i (Finset.mem_range.mp hi)]
  rw [e]
  have ha : w A.n = 1 / 2 * (1 - w (A.n + (A.r + 2))) := by linarith
  have hc : w (A.n + (A.r + 1)) = 1 / 2 * (1 + w (A.n + (A.r + 2))) := by linarith
  rw [ha, hc] at h6
  have e2 : (1 / 2 * (1 + w (A.n + (A.r + 2)))) ^ 2 - (1 / 2 * (1 - w (A.n + (A.r + 2)))) ^ 2 =
      w (A.n + (A.r + 2)) := by ring
  linarith

/-- **sumsqr, completeness.** `aux4 = -out`, `aux1 = (1-aux4)/2`, `aux2 = k_s·in`, `aux3 = (1+aux4)/2`. -/
theorem sumsqr_complete (A : AtomIn K) (Ex : K → K → K → Prop) (v : ℕ → K)
    (h : ∑ i ∈ range A.r, (A.k * A.inv v i) ^ 2 + A.outv v 0 ≤ 0) :
    ∃ w, (∀ j < A.n, w j = v j) ∧ (encodeAtom .Q A).prog.Feas Ex w := by
  set d : K := -A.outv v 0 with hd
  set aux : ℕ → K := fun t =>
    if t = 0 then 1 / 2 * (1 - d)
    else if t < A.r + 1 then A.k * A.inv v (t - 1)
    else if t = A.r + 1 then 1 / 2 * (1 + d) else d with haux
  have h0 : aux 0 = 1 / 2 * (1 - d) := by simp [haux]
  have h2 : ∀ i < A.r, aux (1 + i) = A.k * A.inv v i := fun i hi => by
    have : 1 + i < A.r + 1 := by omega
    simp [haux, this]
  have h3 : aux (A.r + 1) = 1 / 2 * (1 + d) := by simp [haux]
  have h4 : aux (A.r + 2) = d := by simp [haux]
  have hs : 0 ≤ ∑ i ∈ range A.r, (A.k * A.inv v i) ^ 2 := Finset.sum_nonneg fun i _ => sq_nonneg _
  refine ⟨extend A.n v aux, fun j hj => extend_lt _ _ _ _ hj,
    (encQ_feas A Ex _).mpr ⟨?_, fun i hi => ?_, ?_, ?_, ?_, ?_⟩⟩
  · simp only [extend_add, extend_self, h0, h4]; ring
  · simp only [extend_add, AtomIn.inv_extend, h2 i hi]
  · simp only [extend_add, h3, h4]; ring
  · simp only [extend_add, AtomIn.outv_extend, h4, hd]; linarith
  · simp only [extend_add, h3, hd]; linarith
  · simp only [extend_add, extend_self, h0, h3]
    have e : ∑ i ∈ range A.r, aux (1 + i) ^ 2 = ∑ i ∈ range A.r, (A.k * A.inv v i) ^ 2 :=
      Finset.sum_congr rfl fun i hi => by rw [h2 i (Finset.mem_range.mp hi)]
    rw [e]
    have e2 : (1 / 2 * (1 + d)) ^ 2 - (1 / 2 * (1 - d)) ^ 2 = d := by ring
    linarith

/-! ### `rsocone` (rotated second-order cone) -/

/-- **rsocone, soundness.** `rso.rsocone(x, y, z)` (documented as `sumsqr(x) ≤ y·z`) is an `'E'`
constraint `‖[(y-z)/2; x]‖₂ ≤ (y+z)/2`.  Every feasible point of its encoding satisfies
`Σ xᵢ² ≤ y·z` **and** `y ≥ 0`, `z ≥ 0`: the encoding gives `y + z ≥ 0` directly (the cone head
is squeezed between `0` and `(y+z)/2`), and `y·z ≥ Σ xᵢ² ≥ 0` then forces both signs. -/
theorem rsocone_sound (n r : ℕ) (ax : ℕ → ℕ → K) (bx : ℕ → K) (ay : ℕ → K) (by_ : K) (az : ℕ → K) (bz : K)
    (Ex : K → K → K → Prop) (w : ℕ → K)
    (h : (encodeAtom .E (rsoconeAtom n r ax bx ay by_ az bz)).prog.Feas Ex w) :
    0 ≤ affVal n ay by_ w ∧ 0 ≤ affVal n az bz w ∧
      ∑ i ∈ range r, affVal n (ax i) (bx i) w ^ 2 ≤ affVal n ay by_ w * affVal n az bz w :=
  (rso_norm2_iff n r ax bx ay by_ az bz w).mp (norm2_sound _ Ex w h)

/-- **rsocone, completeness.** -/
theorem rsocone_complete (n r : ℕ) (ax : ℕ → ℕ → K) (bx : ℕ → K) (ay : ℕ → K) (by_ : K) (az : ℕ → K) (bz : K)
    (Ex : K → K → K → Prop) (v : ℕ → K)
    (h : 0 ≤ affVal n ay by_ v ∧ 0 ≤ affVal n az bz v ∧
      ∑ i ∈ range r, affVal n (ax i) (bx i) v ^ 2 ≤ affVal n ay by_ v * affVal n az bz v) :
    ∃ w, (∀ j < n, w j = v j) ∧ (encodeAtom .E (rsoconeAtom n r ax bx ay by_ az bz)).prog.Feas Ex w :=
  norm2_complete (rsoconeAtom n r ax bx ay by_ az bz) Ex v ((rso_norm2_iff n r ax bx ay by_ az bz v).mpr h)

/-! ### Program assembly: the bound fold -/

/-- **Bound fold, specification.**  If repeated indices inside one `Bounds` object carry equal
values (`Bound.Consistent`: true of everything rsome's comparison operators build), entry `j` of
the folded `ub` is `+∞` (`none`) iff no upper-bound value was given for `j`, and otherwise it is
the least of all upper-bound values given for `j`; dually for `lb` (greatest, `-∞`). -/
theorem foldBounds_spec (bs : List (Bound K)) (hc : ∀ b ∈ bs, b.Consistent) (j : ℕ) :
    ((foldBounds bs).1 j = none ↔ upVals bs j = []) ∧
    (∀ m, (foldBounds bs).1 j = some m → m ∈ upVals bs j ∧ ∀ v ∈ upVals bs j, m ≤ v) ∧
    ((foldBounds bs).2 j = none ↔ loVals bs j = []) ∧
    (∀ m, (foldBounds bs).2 j = some m → m ∈ loVals bs j ∧ ∀ v ∈ loVals bs j, v ≤ m) := by
  obtain ⟨h1, h2⟩ := foldBounds_eq bs hc j
  rw [h1, h2]
  exact ⟨listOp_eq_none_iff _, listOp_min_spec _, listOp_eq_none_iff _, listOp_max_spec _⟩

/-- **Bound fold, order independence** (no hypothesis: every single pass is
`ub ↦ min(·, ub)` / `lb ↦ max(·, lb)` on the addressed entries, and those commute). -/
theorem foldBounds_perm {bs bs' : List (Bound K)} (h : bs.Perm bs') : foldBounds bs = foldBounds bs' :=
  foldBounds_perm' h

/-- a point satisfies the folded bound vectors iff it satisfies every given bound -/
theorem foldBounds_feas (bs : List (Bound K)) (hc : ∀ b ∈ bs, b.Consistent) (N : ℕ)
    (hN : ∀ b ∈ bs, ∀ p ∈ b.entries, p.1 < N) (w : ℕ → K) :
    ((∀ j < N, LinProg.leUb (w j) ((foldBounds bs).1 j)) ∧ (∀ j < N, LinProg.geLb (w j) ((foldBounds bs).2 j))) ↔
    ∀ b ∈ bs, ∀ p ∈ b.entries, if b.upper then w p.1 ≤ p.2 else p.2 ≤ w p.1 :=
  foldBounds_feas_iff bs hc N hN w

/-- **vtype vector, length.** If every variable's type string has length 1 or its size (what
`Model.dvar` enforces), the `vtype` vector has one entry per column. -/
theorem vtypeVector_length (vars : List (String × ℕ)) (h : ∀ v ∈ vars, v.1.length = 1 ∨ v.1.length = v.2) :
    (vtypeVector vars).length = (vars.map Prod.snd).sum := by
  induction vars with
  | nil => simp [vtypeVector]
  | cons v vs ih =>
    have ih' := ih (fun u hu => h u (List.mem_cons_of_mem _ hu))
    simp only [vtypeVector, List.flatMap_cons, List.length_append, List.map_cons, List.sum_cons] at ih' ⊢
    rw [ih']
    congr 1
    by_cases h1 : v.1.length = 1
    · simp [h1]
    · rcases h v List.mem_cons_self with h2 | h2
      · exact absurd h2 h1
      · rw [if_neg h1, ← h2]; exact String.length_toList

/-! ### Concrete instances (non-vacuity) -/

section Examples

/-- `n = 2` user columns (epigraph column, `x`), `in = (x, 1 - x)`, `out = -4`, stored multiplier 2 -/
def A0 : AtomIn ℚ where
  n := 2
  r := 2
  k := 2
  ain := fun i j => if j = 1 then (if i = 0 then 1 else -1) else 0
  bin := fun i => if i = 0 then 0 else 1
  aout := fun _ _ => 0
  bout := fun _ => -4

def ExT : ℚ → ℚ → ℚ → Prop := fun _ _ _ => True

lemma A0_inv0 (w : ℕ → ℚ) : A0.inv w 0 = w 1 := by simp [AtomIn.inv, A0, Finset.sum_range_succ]
lemma A0_inv1 (w : ℕ → ℚ) : A0.inv w 1 = 1 - w 1 := by
  simp [AtomIn.inv, A0, Finset.sum_range_succ]; ring
lemma A0_outv (w : ℕ → ℚ) (i : ℕ) : A0.outv w i = -4 := by simp [AtomIn.outv, A0]
lemma A0_k : A0.k = 2 := rfl
lemma A0_r : A0.r = 2 := rfl

/-- `x = 1` satisfies `2|x| - 4 ≤ 0`, `2|1-x| - 4 ≤ 0`: the encoding is feasible there -/
example : ∃ w : ℕ → ℚ, w 1 = 1 ∧ (encodeAtom .A A0).prog.Feas ExT w := by
  obtain ⟨w, hw, hf⟩ := abs_complete A0 (by norm_num [A0_k]) ExT (fun _ => 1) (by
    intro i hi
    rw [A0_r] at hi
    interval_cases i <;> norm_num [A0_inv0, A0_inv1, A0_outv, A0_k])
  exact ⟨w, hw 1 (by decide), hf⟩

/-- `x = 3` violates `2|x| - 4 ≤ 0`: no auxiliary values make the encoding feasible -/
example (w : ℕ → ℚ) (hw : w 1 = 3) : ¬ (encodeAtom .A A0).prog.Feas ExT w := fun h => by
  have := abs_sound A0 (by norm_num [A0_k]) ExT w h 0 (by decide)
  rw [A0_inv0, A0_outv, hw, A0_k] at this
  norm_num at this

/-- 1-norm: `2(|x| + |1-x|) - 4 ≤ 0` at `x = 1` -/
example : ∃ w : ℕ → ℚ, w 1 = 1 ∧ (encodeAtom .M A0).prog.Feas ExT w := by
  obtain ⟨w, hw, hf⟩ := norm1_complete A0 (by norm_num [A0_k]) ExT (fun _ => 1) (by
    simp [A0_r, Finset.sum_range_succ, A0_inv0, A0_inv1, A0_outv, A0_k]; norm_num)
  exact ⟨w, hw 1 (by decide), hf⟩

example (w : ℕ → ℚ) (hw : w 1 = 3) : ¬ (encodeAtom .M A0).prog.Feas ExT w := fun h => by
  have := norm1_sound A0 (by norm_num [A0_k]) ExT w h
  simp [A0_r, Finset.sum_range_succ, A0_inv0, A0_inv1, A0_outv, A0_k, hw] at this
  norm_num at this

/-- inf-norm at `x = 1` / `x = 3` -/
example : ∃ w : ℕ → ℚ, w 1 = 1 ∧ (encodeAtom .I A0).prog.Feas ExT w := by
  obtain ⟨w, hw, hf⟩ := norminf_complete A0 (by norm_num [A0_k]) ExT (fun _ => 1) (by
    intro i hi
    rw [A0_r] at hi
    interval_cases i <;> norm_num [A0_inv0, A0_inv1, A0_outv, A0_k])
  exact ⟨w, hw 1 (by decide), hf⟩

example (w : ℕ → ℚ) (hw : w 1 = 3) : ¬ (encodeAtom .I A0).prog.Feas ExT w := fun h => by
  have := norminf_sound A0 (by norm_num [A0_k]) ExT w h 0 (by decide)
  rw [A0_inv0, A0_outv, hw, A0_k] at this
  norm_num at this

/-- 2-norm: `(2x)² + (2(1-x))² ≤ 16` at `x = 1` / `x = 3` -/
example : ∃ w : ℕ → ℚ, w 1 = 1 ∧ (encodeAtom .E A0).prog.Feas ExT w := by
  obtain ⟨w, hw, hf⟩ := norm2_complete A0 ExT (fun _ => 1) (by
    simp [A0_r, Finset.sum_range_succ, A0_inv0, A0_inv1, A0_outv, A0_k]; norm_num)
  exact ⟨w, hw 1 (by decide), hf⟩

example (w : ℕ → ℚ) (hw : w 1 = 3) : ¬ (encodeAtom .E A0).prog.Feas ExT w := fun h => by
  have := (norm2_sound A0 ExT w h).2
  simp [A0_r, Finset.sum_range_succ, A0_inv0, A0_inv1, A0_outv, A0_k, hw] at this
  norm_num at this

/-- square: `(2x)² - 4 ≤ 0`, `(2(1-x))² - 4 ≤ 0` at `x = 1` / `x = 3` -/
example : ∃ w : ℕ → ℚ, w 1 = 1 ∧ (encodeAtom .S A0).prog.Feas ExT w := by
  obtain ⟨w, hw, hf⟩ := square_complete A0 ExT (fun _ => 1) (by
    intro i hi
    rw [A0_r] at hi
    interval_cases i <;> norm_num [A0_inv0, A0_inv1, A0_outv, A0_k])
  exact ⟨w, hw 1 (by decide), hf⟩

example (w : ℕ → ℚ) (hw : w 1 = 3) : ¬ (encodeAtom .S A0).prog.Feas ExT w := fun h => by
  have := square_sound A0 ExT w h 0 (by decide)
  rw [A0_inv0, A0_outv, hw, A0_k] at this
  norm_num at this

/-- sumsqr: `(2x)² + (2(1-x))² - 4 ≤ 0` at `x = 1` / `x = 3` -/
example : ∃ w : ℕ → ℚ, w 1 = 1 ∧ (encodeAtom .Q A0).prog.Feas ExT w := by
  obtain ⟨w, hw, hf⟩ := sumsqr_complete A0 ExT (fun _ => 1) (by
    simp [A0_r, Finset.sum_range_succ, A0_inv0, A0_inv1, A0_outv, A0_k]; norm_num)
  exact ⟨w, hw 1 (by decide), hf⟩

example (w : ℕ → ℚ) (hw : w 1 = 3) : ¬ (encodeAtom .Q A0).prog.Feas ExT w := fun h => by
  have := sumsqr_sound A0 ExT w h
  simp [A0_r, Finset.sum_range_succ, A0_inv0, A0_inv1, A0_outv, A0_k, hw] at this
  norm_num at this

/-- `rsocone(x, y, z)` on columns `1, 2, 3` (`x` a 1-vector) -/
def colSel (c : ℕ) : ℕ → ℚ := fun j => if j = c then 1 else 0

lemma affVal_colSel (c : ℕ) (hc : c < 4) (w : ℕ → ℚ) : affVal 4 (colSel c) 0 w = w c := by
  interval_cases c <;> simp [affVal, colSel, Finset.sum_range_succ]

/-- `(x, y, z) = (1, 1, 2)`: `1 ≤ 2`, `y, z ≥ 0` — feasible -/
example : ∃ w : ℕ → ℚ, (w 1 = 1 ∧ w 2 = 1 ∧ w 3 = 2) ∧
    (encodeAtom .E (rsoconeAtom 4 1 (fun _ => colSel 1) (fun _ => 0) (colSel 2) 0 (colSel 3) 0)).prog.Feas ExT w := by
  obtain ⟨w, hw, hf⟩ := rsocone_complete 4 1 (fun _ => colSel 1) (fun _ => 0) (colSel 2) 0 (colSel 3) 0 ExT
    (fun j => if j = 3 then 2 else 1) (by
      simp [affVal_colSel, Finset.sum_range_succ])
  exact ⟨w, ⟨hw 1 (by decide), hw 2 (by decide), hw 3 (by decide)⟩, hf⟩

/-- `(x, y, z) = (1, -1, -2)`: `x² ≤ y·z` holds but `y < 0` — the encoding is infeasible -/
example (w : ℕ → ℚ) (h1 : w 1 = 1) (h2 : w 2 = -1) (h3 : w 3 = -2) :
    ¬ (encodeAtom .E (rsoconeAtom 4 1 (fun _ => colSel 1) (fun _ => 0) (colSel 2) 0 (colSel 3) 0)).prog.Feas ExT w :=
  fun h => by
    have := (rsocone_sound 4 1 (fun _ => colSel 1) (fun _ => 0) (colSel 2) 0 (colSel 3) 0 ExT w h).1
    rw [affVal_colSel 2 (by decide), h2] at this
    norm_num at this

/-- bound fold: `x₁ ≤ 3, x₂ ≤ 5`, `x₁ ≥ 0`, `x₁ ≤ 2` gives `ub = (∞, 2, 5)`, `lb = (-∞, 0, -∞)` -/
example : let s := foldBounds ([⟨true, [(1, 3), (2, 5)]⟩, ⟨false, [(1, 0)]⟩, ⟨true, [(1, 2)]⟩] : List (Bound ℚ))
    (s.1 0, s.1 1, s.1 2, s.2 0, s.2 1, s.2 2) = (none, some 2, some 5, none, some 0, none) := by
  decide

/-- a hand-made `Bounds` object with a repeated index and *different* values is not consistent:
NumPy's fancy assignment keeps the last write, so `ub[0] = 2` although the values given for
entry 0 are `1` and `2` (hypothesis `Bound.Consistent` of `foldBounds_spec` is needed) -/
example : (foldBounds ([⟨true, [(0, 1), (0, 2)]⟩] : List (Bound ℚ))).1 0 = some 2 := by
  decide

end Examples

end RsomeV.AtomsSoc
