import RsomeV.L.SocApprox
import Mathlib.Analysis.SpecialFunctions.Exp
import Mathlib.Analysis.Complex.Exponential

/-! # C18: `GCProg.to_socp` — the second-order-cone approximation of exponential cones

Property theorems about the order-faithful model `RsomeV/M/SocApprox.lean` of
`GCProg.to_socp(degree = L, cuts = (cLo, cHi))` (rsome/gcp.py l.532-647, with the repair of the lower
cut: row 0 of every block is `t + exp(cLo)·α0 ≤ x_{i1}`).  The model is tied to the code by
`test_to_socp.py` (entry-by-entry comparison with the real `to_socp`).  The coefficient
`np.exp(cLo)` is the model parameter `elo` (generic field: no `exp`); the theorems over `ℝ` that need
its value take `elo = Real.exp cLo` (the float `np.exp` is trusted to within rounding).

* `socp_carry` / `socp_carry_row` / `socp_carry_feas`: rows, columns, bounds, cost and cones of the
  source program are an unchanged prefix of the result; `xmat = []`; a point feasible for the result
  is feasible for everything of the source except its exponential cones.
* `socp_feas_block`: feasibility of the result gives, for every exponential cone of the source, the
  relations `BlockRel` of its block (the literal content of the block's rows, bounds and cones).
* `socp_block_rot`, `socp_block_sound`, `socp_block_sound_div`: the algebraic content of one block,
  over every linear ordered field: each row-triple + cone says `y² ≤ α1·w`; together they force
  `Q4(x1/2^L, α1)^(2^L) ≤ α1^(2^(L+2)-1)·t`, i.e. `α1·P4(x1/(α1·2^L))^(2^L) ≤ t`, and
  `t + elo·α0 ≤ x_{i1}`.
* `taylor4_close`, `taylor4_pow_close`, `taylor4_pow_close_two_pow` (over `ℝ`): `P4` is the degree-4
  Taylor polynomial of `exp`, `|exp u - P4 u| ≤ |u|^5/100`, and `P4(u)^N` is within the relative
  error `28/N^4` (`≤ 10⁻³` for `N = 2^L`, `L ≥ 4`) of `exp(N·u)` when `|N·u| ≤ 4`.
* `socp_exp_lower`: consequence over `ℝ` for the result of `toSocp` when the cuts lie in `[-4, 4]`.
* `default_cuts_gap`: with the default arguments (`degree = 4`, `cuts = (-30, 60)`) the bound the
  block enforces at the upper cut is below `exp(60)/400`. -/

set_option linter.unusedSectionVars false
set_option linter.unusedSimpArgs false
set_option linter.unusedVariables false

namespace RsomeV.C18
open Finset RsomeV RsomeV.SocApprox

variable {K : Type} [Field K] [LinearOrder K] [IsStrictOrderedRing K]

/-! ### 1. the unchanged prefix -/

/-- **C18.1 (carry-over).** The result of `to_socp` has `rowCount L = 16 + 3L` more rows and
`numCols L = 17 + 4L` more columns per exponential cone; on the rows `< nr` and columns `< nc` of the
source the matrix, right-hand side, senses, bounds and cost are those of the source; old rows have
zero coefficients on the new columns; new columns have zero cost and no upper bound; the cones of
the source are a prefix of the cones of the result; there is no exponential cone left. -/
theorem socp_carry (P : ConeProg K) (L : ℕ) (lo hi elo : K) :
    (toSocp P L lo hi elo).lp.nr = P.lp.nr + P.xmat.length * rowCount L ∧
    (toSocp P L lo hi elo).lp.nc = P.lp.nc + P.xmat.length * numCols L ∧
    (∀ i < P.lp.nr, ∀ j < P.lp.nc, (toSocp P L lo hi elo).lp.a i j = P.lp.a i j) ∧
    (∀ i < P.lp.nr, ∀ j, P.lp.nc ≤ j → (toSocp P L lo hi elo).lp.a i j = 0) ∧
    (∀ i < P.lp.nr, (toSocp P L lo hi elo).lp.b i = P.lp.b i ∧ (toSocp P L lo hi elo).lp.eq i = P.lp.eq i) ∧
    (∀ j < P.lp.nc, (toSocp P L lo hi elo).lp.ub j = P.lp.ub j ∧ (toSocp P L lo hi elo).lp.lb j = P.lp.lb j ∧
      (toSocp P L lo hi elo).lp.c j = P.lp.c j) ∧
    (∀ j, P.lp.nc ≤ j → (toSocp P L lo hi elo).lp.c j = 0 ∧ (toSocp P L lo hi elo).lp.ub j = none) ∧
    P.qmat <+: (toSocp P L lo hi elo).qmat ∧
    (toSocp P L lo hi elo).qmat.length = P.qmat.length + P.xmat.length * (3 + L) ∧
    (toSocp P L lo hi elo).xmat = [] := by
  refine ⟨rfl, rfl, ?_, ?_, ?_, ?_, ?_, ?_, ?_, rfl⟩
  · intro i hi j hj; simp [toSocp, hi, hj]
  · intro i hi j hj
    have : ¬ j < P.lp.nc := by omega
    simp [toSocp, hi, this]
  · intro i hi; simp [toSocp, hi]
  · intro j hj; simp [toSocp, hj]
  · intro j hj
    have : ¬ j < P.lp.nc := by omega
    simp [toSocp, this]
  · exact List.prefix_append _ _
  · simp [toSocp, blockCones, List.length_flatMap]

/-- **C18.1b.** An old row evaluates on a point of the result as on the source (new columns have
zero coefficients), and the cost is the old cost. -/
theorem socp_carry_row (P : ConeProg K) (L : ℕ) (lo hi elo : K) (x : ℕ → K) :
    (∀ i < P.lp.nr, (toSocp P L lo hi elo).lp.row i x = P.lp.row i x) ∧
    (toSocp P L lo hi elo).lp.obj x = P.lp.obj x := by
  have key : ∀ f : ℕ → K, ∑ j ∈ range (P.lp.nc + P.xmat.length * numCols L),
      (if j < P.lp.nc then f j else 0) * x j = ∑ j ∈ range P.lp.nc, f j * x j := by
    intro f
    rw [Finset.sum_range_add]
    have h2 : ∑ j ∈ range (P.xmat.length * numCols L),
        (if P.lp.nc + j < P.lp.nc then f (P.lp.nc + j) else 0) * x (P.lp.nc + j) = 0 := by
      apply Finset.sum_eq_zero
      intro j _
      have : ¬ P.lp.nc + j < P.lp.nc := by omega
      simp [this]
    rw [h2, add_zero]
    apply Finset.sum_congr rfl
    intro j hj
    simp [Finset.mem_range.mp hj]
  constructor
  · intro i hi
    unfold LinProg.row
    simp only [toSocp, hi, if_true]
    exact key (P.lp.a i)
  · unfold LinProg.obj
    simp only [toSocp]
    exact key P.lp.c

/-- **C18.1c.** A point feasible for the result satisfies every row, bound and second-order cone of
the source (everything except the exponential cones, which the blocks replace). -/
theorem socp_carry_feas (P : ConeProg K) (L : ℕ) (lo hi elo : K) (E : K → K → K → Prop) (x : ℕ → K)
    (h : (toSocp P L lo hi elo).Feas E x) : P.lp.Feas x ∧ ∀ q ∈ P.qmat, socMem x q := by
  obtain ⟨_, _, ha, _, hb, hc, _, hq, _, _⟩ := socp_carry P L lo hi elo
  have hrow := (socp_carry_row P L lo hi elo x).1
  have hnr : ∀ i < P.lp.nr, i < (toSocp P L lo hi elo).lp.nr := fun i hi => by simp only [toSocp]; omega
  have hnc : ∀ j < P.lp.nc, j < (toSocp P L lo hi elo).lp.nc := fun j hj => by simp only [toSocp]; omega
  refine ⟨⟨?_, ?_, ?_⟩, ?_⟩
  · intro i hi
    have := h.lin.rows i (hnr i hi)
    rwa [hrow i hi, (hb i hi).1, (hb i hi).2] at this
  · intro j hj
    have := h.lin.ubs j (hnc j hj)
    rwa [(hc j hj).1] at this
  · intro j hj
    have := h.lin.lbs j (hnc j hj)
    rwa [(hc j hj).2.1] at this
  · intro q hq'
    exact h.soc q (hq.subset hq')

/-! ### 2. one block -/

/-- **C18.2a (model → block).** If `x` is feasible for `toSocp P L lo hi elo` (`1 ≤ L`, the exponential
cones of `P` are triples of existing columns) then for the `k`-th exponential cone `[i0, i1, i2]`
of `P` the block-local point `c ↦ x (nc + k·numCols L + c)` satisfies the relations `BlockRel`
(rows, bounds and cones of the block, read off literally; see `RsomeV/L/SocApprox.lean`). -/
theorem socp_feas_block (P : ConeProg K) (L : ℕ) (hL : 1 ≤ L) (lo hi elo : K) (hx : XOk P)
    (E : K → K → K → Prop) (x : ℕ → K) (hf : (toSocp P L lo hi elo).Feas E x) (k : ℕ)
    (hk : k < P.xmat.length) :
    BlockRel L lo hi elo (x ((P.xmat.getD k []).getD 0 0)) (x ((P.xmat.getD k []).getD 1 0))
      (x ((P.xmat.getD k []).getD 2 0)) (fun c => x (off P L k + c)) :=
  feas_blockRel P L hL lo hi elo hx E x hf k hk

/-- **C18.2b (what a row-triple + rotated cone says).** In a block, with `α1 = y 4`,
`u = x1/2^L = y 2 / 2^L`:
`u² ≤ α1·f`, `(u + α1)² ≤ α1·g`, `g² ≤ α1·h`, `v_d² ≤ α1·v_{d+1}` (`d + 1 < L`) and
`v_{L-1}² ≤ α1·t`. -/
theorem socp_block_rot (L : ℕ) (hL : 1 ≤ L) (lo hi elo a0 a1 a2 : K) (y : ℕ → K)
    (h : BlockRel L lo hi elo a0 a1 a2 y) :
    (y 2 / 2 ^ L) ^ 2 ≤ y 4 * y 5 ∧
    (y 2 / 2 ^ L + y 4) ^ 2 ≤ y 4 * y 6 ∧
    y 6 ^ 2 ≤ y 4 * y 7 ∧
    (∀ d, d + 1 < L → y (8 + d) ^ 2 ≤ y 4 * y (8 + (d + 1))) ∧
    y (8 + (L - 1)) ^ 2 ≤ y 4 * y 0 := by
  have R : ∀ q < 3 + L, yVal L q y ^ 2 ≤ y 4 * y (wCol L q) := by
    intro q hq
    obtain ⟨h0, h1, h2, h3, h4⟩ := h.rot q hq
    exact rot_prod _ _ _ _ _ _ h0 h1 h2 h3 h4
  refine ⟨?_, ?_, ?_, ?_, ?_⟩
  · simpa [yVal, wCol] using R 0 (by omega)
  · simpa [yVal, wCol] using R 1 (by omega)
  · simpa [yVal, wCol] using R 2 (by omega)
  · intro d hd
    have := R (3 + d) (by omega)
    have e1 : yVal L (3 + d) y = y (8 + d) := by
      unfold yVal
      rw [if_neg (by omega), if_neg (by omega), if_neg (by omega)]
      congr 1; omega
    have e2 : wCol L (3 + d) = 8 + (d + 1) := by
      unfold wCol
      rw [if_neg (by omega), if_pos (by omega)]; omega
    rwa [e1, e2] at this
  · have := R (2 + L) (by omega)
    have e1 : yVal L (2 + L) y = y (8 + (L - 1)) := by
      unfold yVal
      rw [if_neg (by omega), if_neg (by omega), if_neg (by omega)]
      congr 1; omega
    have e2 : wCol L (2 + L) = 0 := by
      unfold wCol
      rw [if_neg (by omega), if_neg (by omega)]
    rwa [e1, e2] at this

/-- the degree-4 Taylor polynomial of `exp` -/
def P4 (w : K) : K := 1 + w + w ^ 2 / 2 + w ^ 3 / 6 + w ^ 4 / 24

/-- `Q4 u a = a⁴·P4(u/a)` (`Q4` is defined in `RsomeV/L/SocApprox.lean`:
`a⁴ + a³u + a²u²/2 + au³/6 + u⁴/24`) -/
theorem Q4_eq (u a : K) (ha : a ≠ 0) : Q4 u a = a ^ 4 * P4 (u / a) := by
  unfold Q4 P4
  field_simp

/-- **C18.2c (block soundness, division-free).** The rows, bounds and cones of one block imply,
with `t = y 0`, `x1 = y 2`, `α1 = y 4`:
`Q4(x1/2^L, α1)^(2^L) ≤ α1^(2^(L+2) - 1) · t`, and `t + elo·α0 ≤ x_{i1}` (`elo = np.exp(cLo)`),
`x0 + x1 = x_{i0}`,
`α0 + α1 = x_{i2}`, `α0, α1 ≥ 0`, `x0 ≤ cLo·α0`, `cLo·α1 ≤ x1 ≤ cHi·α1`. -/
theorem socp_block_sound (L : ℕ) (hL : 1 ≤ L) (lo hi elo a0 a1 a2 : K) (y : ℕ → K)
    (h : BlockRel L lo hi elo a0 a1 a2 y) :
    Q4 (y 2 / 2 ^ L) (y 4) ^ 2 ^ L ≤ y 4 ^ (2 ^ (L + 2) - 1) * y 0 ∧
    y 0 + elo * y 3 ≤ a1 ∧ y 1 + y 2 = a0 ∧ y 3 + y 4 = a2 ∧ 0 ≤ y 3 ∧ 0 ≤ y 4 ∧
    y 1 ≤ lo * y 3 ∧ lo * y 4 ≤ y 2 ∧ y 2 ≤ hi * y 4 := by
  have hV : numVars L = 8 + L := by unfold numVars; omega
  have ha : 0 ≤ y 4 := h.nonneg 4 (by omega) (by omega)
  obtain ⟨r0, r1, r2, r3, r4⟩ := socp_block_rot L hL lo hi elo a0 a1 a2 y h
  refine ⟨?_, h.epi, h.splitx, h.splita, h.nonneg 3 (by omega) (by omega), ha, h.cutLo0, h.cutLo1,
    h.cutHi⟩
  have ht : 20 / 24 * (y 2 / 2 ^ L) + 23 / 24 * y 4 + 1 / 4 * y 5 + 1 / 24 * y 7 ≤ y 8 := by
    have := h.taylor
    have e : 20 / 24 * (y 2 / 2 ^ L) = 20 / 2 ^ L / 24 * y 2 := by ring
    rw [e]; exact this
  have hB := taylor_row (y 4) (y 2 / 2 ^ L) (y 5) (y 6) (y 7) (y 8) ha r0 r1 r2 ht
  set s : ℕ → K := fun d => if d < L then y (8 + d) else y 0 with hs
  have hs0 : s 0 = y 8 := by simp [hs, show 0 < L by omega]
  have hsL : s L = y 0 := by simp [hs]
  have hchain : ∀ d < L, s d ^ 2 ≤ y 4 * s (d + 1) := by
    intro d hd
    by_cases hd1 : d + 1 < L
    · simp only [hs, hd, hd1, if_true]
      exact r3 d hd1
    · have hdL : d = L - 1 := by omega
      simp only [hs, hd, hd1, if_true, if_false]
      rw [hdL]; exact r4
  have := chain_pow (y 4) (Q4 (y 2 / 2 ^ L) (y 4)) s L ha (Q4_nonneg _ _) (by rw [hs0]; exact hB)
    hchain L le_rfl
  rwa [hsL] at this

/-- **C18.2d (block soundness, with division).** If `α1 > 0` the block enforces
`α1 · P4(x1/(α1·2^L))^(2^L) ≤ t` (`≤ x_{i1}`); if `α1 = 0` it enforces `x1 = 0`. -/
theorem socp_block_sound_div (L : ℕ) (hL : 1 ≤ L) (lo hi elo a0 a1 a2 : K) (y : ℕ → K)
    (h : BlockRel L lo hi elo a0 a1 a2 y) :
    (0 < y 4 → y 4 * P4 (y 2 / (y 4 * 2 ^ L)) ^ 2 ^ L ≤ y 0) ∧ (y 4 = 0 → y 2 = 0) := by
  obtain ⟨hq, -⟩ := socp_block_sound L hL lo hi elo a0 a1 a2 y h
  constructor
  · intro ha
    rw [Q4_eq _ _ (ne_of_gt ha)] at hq
    have e1 : y 2 / 2 ^ L / y 4 = y 2 / (y 4 * 2 ^ L) := by
      rw [div_div, mul_comm]
    rw [e1, mul_pow, ← pow_mul] at hq
    have hp : 0 < y 4 ^ (2 ^ (L + 2) - 1) := pow_pos ha _
    have e2 : y 4 ^ (4 * 2 ^ L) = y 4 ^ (2 ^ (L + 2) - 1) * y 4 := by
      rw [← pow_succ]
      congr 1
      have : 1 ≤ 2 ^ (L + 2) := Nat.one_le_two_pow
      have : 2 ^ (L + 2) = 4 * 2 ^ L := by rw [pow_add]; ring
      omega
    rw [e2, mul_assoc] at hq
    exact le_of_mul_le_mul_left hq hp
  · intro ha
    obtain ⟨r0, -⟩ := socp_block_rot L hL lo hi elo a0 a1 a2 y h
    rw [ha, zero_mul] at r0
    have h2 : y 2 / 2 ^ L = 0 := by
      have := sq_nonneg (y 2 / 2 ^ L)
      exact pow_eq_zero_iff (two_ne_zero) |>.mp (le_antisymm r0 this)
    have hp : (2 : K) ^ L ≠ 0 := pow_ne_zero _ two_ne_zero
    exact (div_eq_zero_iff.mp h2).resolve_right hp

/-- **C18.2e.** The epigraph column of a block is non-negative: `0 ≤ t`. -/
theorem socp_block_t_nonneg (L : ℕ) (hL : 1 ≤ L) (lo hi elo a0 a1 a2 : K) (y : ℕ → K)
    (h : BlockRel L lo hi elo a0 a1 a2 y) : 0 ≤ y 0 := by
  obtain ⟨h0, h1, h2, h3, h4⟩ := h.rot (2 + L) (by omega)
  have e2 : wCol L (2 + L) = 0 := by
    unfold wCol
    rw [if_neg (by omega), if_neg (by omega)]
  rw [e2] at h0 h2
  exact rot_w_nonneg _ _ _ _ _ h0 h2 h3 h4

/-! ### 3. the Taylor polynomial (over `ℝ`) -/

/-- **C18.3a (one-step Taylor bound).** For `|u| ≤ 1`: `|exp u − P4 u| ≤ |u|^5 · (1/100)`. -/
theorem taylor4_close (u : ℝ) (hu : |u| ≤ 1) : |Real.exp u - P4 u| ≤ |u| ^ 5 * (1 / 100) := by
  have h := Real.exp_bound hu (n := 5) (by norm_num)
  have e : ∑ m ∈ Finset.range 5, u ^ m / (m.factorial : ℝ) = P4 u := by
    simp [Finset.sum_range_succ, Nat.factorial, P4]
  rw [e] at h
  calc |Real.exp u - P4 u| ≤ |u| ^ 5 * (((5 : ℕ).succ : ℝ) / ((Nat.factorial 5 : ℝ) * (5 : ℕ))) := h
    _ = |u| ^ 5 * (1 / 100) := by norm_num [Nat.factorial]

/-- relative form: for `|u| ≤ 1/4`, `exp u·(1 − |u|^5/75) ≤ P4 u ≤ exp u·(1 + |u|^5/75)` -/
theorem taylor4_rel (u : ℝ) (hu : |u| ≤ 1 / 4) :
    Real.exp u * (1 - |u| ^ 5 / 75) ≤ P4 u ∧ P4 u ≤ Real.exp u * (1 + |u| ^ 5 / 75) := by
  have h := abs_le.mp (taylor4_close u (by linarith))
  have he : 3 / 4 ≤ Real.exp u := by
    have := Real.add_one_le_exp u
    have := (abs_le.mp hu).1
    linarith
  have hp : 0 ≤ |u| ^ 5 := pow_nonneg (abs_nonneg u) 5
  have hm : |u| ^ 5 * (1 / 100) ≤ Real.exp u * (|u| ^ 5 / 75) := by
    have := mul_le_mul_of_nonneg_right he (by positivity : 0 ≤ |u| ^ 5 / 75)
    linarith
  constructor <;> linarith [h.1, h.2]

/-- **C18.3b (powered Taylor bound).** For `N ≥ 16` and `|N·u| ≤ 4`:
`(1 − 28/N⁴)·exp(N·u) ≤ P4(u)^N ≤ (1 + 28/N⁴)·exp(N·u)`. -/
theorem taylor4_pow_close (N : ℕ) (hN : 16 ≤ N) (u : ℝ) (hu : |(N : ℝ) * u| ≤ 4) :
    (1 - 28 / (N : ℝ) ^ 4) * Real.exp (N * u) ≤ P4 u ^ N ∧
    P4 u ^ N ≤ (1 + 28 / (N : ℝ) ^ 4) * Real.exp (N * u) := by
  have hN0 : (16 : ℝ) ≤ N := by exact_mod_cast hN
  have hNpos : (0 : ℝ) < N := by linarith
  have hu1 : |u| ≤ 4 / N := by
    rw [abs_mul, abs_of_pos hNpos] at hu
    rw [le_div_iff₀ hNpos]; linarith
  have hu2 : |u| ≤ 1 / 4 := by
    have : (4 : ℝ) / N ≤ 1 / 4 := by
      rw [div_le_div_iff₀ hNpos (by norm_num)]; linarith
    linarith
  obtain ⟨hlo, hhi⟩ := taylor4_rel u hu2
  set η : ℝ := |u| ^ 5 / 75 with hη
  have hη0 : 0 ≤ η := by positivity
  -- N·η ≤ 14/N⁴
  have hNη : (N : ℝ) * η ≤ 14 / (N : ℝ) ^ 4 := by
    have h5 : |u| ^ 5 ≤ (4 / (N : ℝ)) ^ 5 := pow_le_pow_left₀ (abs_nonneg u) hu1 5
    have e : (N : ℝ) * ((4 / (N : ℝ)) ^ 5 / 75) = 1024 / 75 / (N : ℝ) ^ 4 := by
      field_simp; norm_num
    have h6 : (N : ℝ) * η ≤ (N : ℝ) * ((4 / (N : ℝ)) ^ 5 / 75) := by
      apply mul_le_mul_of_nonneg_left _ hNpos.le
      rw [hη]; linarith
    rw [e] at h6
    have h7 : (1024 : ℝ) / 75 / (N : ℝ) ^ 4 ≤ 14 / (N : ℝ) ^ 4 := by
      apply div_le_div_of_nonneg_right _ (by positivity)
      norm_num
    linarith
  have hN4 : (14 : ℝ) / (N : ℝ) ^ 4 ≤ 14 / 65536 := by
    apply div_le_div_of_nonneg_left (by norm_num) (by norm_num)
    calc (65536 : ℝ) = 16 ^ 4 := by norm_num
      _ ≤ (N : ℝ) ^ 4 := pow_le_pow_left₀ (by norm_num) hN0 4
  have hη1 : η ≤ 1 / 2 := by
    have : η ≤ (N : ℝ) * η := by nlinarith
    linarith
  have hexp : Real.exp (N * u) = Real.exp u ^ N := Real.exp_nat_mul u N
  have hepos : 0 < Real.exp u := Real.exp_pos u
  constructor
  · -- lower bound, Bernoulli
    have hb : 1 + (N : ℝ) * (-η) ≤ (1 + -η) ^ N := one_add_mul_le_pow (by linarith) N
    have h1 : (Real.exp u * (1 - η)) ^ N ≤ P4 u ^ N :=
      pow_le_pow_left₀ (mul_nonneg hepos.le (by linarith)) hlo N
    rw [mul_pow] at h1
    have h2 : Real.exp u ^ N * (1 - 28 / (N : ℝ) ^ 4) ≤ Real.exp u ^ N * (1 - η) ^ N := by
      apply mul_le_mul_of_nonneg_left _ (pow_nonneg hepos.le N)
      have : (0 : ℝ) ≤ 14 / (N : ℝ) ^ 4 := by positivity
      have e : (1 : ℝ) - η = 1 + -η := by ring
      rw [e]
      have e2 : (28 : ℝ) / (N : ℝ) ^ 4 = 2 * (14 / (N : ℝ) ^ 4) := by ring
      linarith
    rw [hexp]
    linarith
  · -- upper bound
    have hP0 : 0 ≤ P4 u := le_trans (mul_nonneg hepos.le (by linarith)) hlo
    have h1 : P4 u ^ N ≤ (Real.exp u * (1 + η)) ^ N := pow_le_pow_left₀ hP0 hhi N
    rw [mul_pow] at h1
    set s : ℝ := (N : ℝ) * η with hs
    have hs0 : 0 ≤ s := mul_nonneg hNpos.le hη0
    have hs1 : s ≤ 1 / 2 := by linarith
    have h3 : (1 + η) ^ N ≤ Real.exp s := by
      have : 1 + η ≤ Real.exp η := by linarith [Real.add_one_le_exp η]
      calc (1 + η) ^ N ≤ Real.exp η ^ N := pow_le_pow_left₀ (by linarith) this N
        _ = Real.exp s := by rw [hs, Real.exp_nat_mul]
    have h4 : Real.exp s ≤ 1 + 2 * s := by
      have h5 : 1 - s ≤ Real.exp (-s) := Real.one_sub_le_exp_neg s
      have h6 : Real.exp s * Real.exp (-s) = 1 := by rw [← Real.exp_add]; simp
      have h7 : Real.exp s * (1 - s) ≤ 1 :=
        le_of_le_of_eq (mul_le_mul_of_nonneg_left h5 (Real.exp_pos s).le) h6
      have h8 : 0 < 1 - s := by linarith
      have h9 : Real.exp s * (1 - s) ≤ (1 + 2 * s) * (1 - s) := by nlinarith
      exact le_of_mul_le_mul_right h9 h8
    have h10 : (1 + η) ^ N ≤ 1 + 28 / (N : ℝ) ^ 4 := by
      have e2 : (28 : ℝ) / (N : ℝ) ^ 4 = 2 * (14 / (N : ℝ) ^ 4) := by ring
      linarith
    have h11 : Real.exp u ^ N * (1 + η) ^ N ≤ Real.exp u ^ N * (1 + 28 / (N : ℝ) ^ 4) :=
      mul_le_mul_of_nonneg_left h10 (pow_nonneg hepos.le N)
    rw [hexp]
    linarith

/-- **C18.3c.** For `L ≥ 4` and `|2^L·u| ≤ 4`: `P4(u)^(2^L)` is within relative error `10⁻³` of
`exp(2^L·u)`. -/
theorem taylor4_pow_close_two_pow (L : ℕ) (hL : 4 ≤ L) (u : ℝ) (hu : |(2 : ℝ) ^ L * u| ≤ 4) :
    (1 - 1 / 1000) * Real.exp (2 ^ L * u) ≤ P4 u ^ 2 ^ L ∧
    P4 u ^ 2 ^ L ≤ (1 + 1 / 1000) * Real.exp (2 ^ L * u) := by
  have hN : 16 ≤ 2 ^ L := by
    calc 16 = 2 ^ 4 := by norm_num
      _ ≤ 2 ^ L := Nat.pow_le_pow_right (by norm_num) hL
  have hc : ((2 ^ L : ℕ) : ℝ) = (2 : ℝ) ^ L := by push_cast; rfl
  have h := taylor4_pow_close (2 ^ L) hN u (by rw [hc]; exact hu)
  rw [hc] at h
  have hN0 : (16 : ℝ) ≤ (2 : ℝ) ^ L := by rw [← hc]; exact_mod_cast hN
  have hδ : (28 : ℝ) / ((2 : ℝ) ^ L) ^ 4 ≤ 1 / 1000 := by
    have : (65536 : ℝ) ≤ ((2 : ℝ) ^ L) ^ 4 := by
      calc (65536 : ℝ) = 16 ^ 4 := by norm_num
        _ ≤ ((2 : ℝ) ^ L) ^ 4 := pow_le_pow_left₀ (by norm_num) hN0 4
    rw [div_le_div_iff₀ (by positivity) (by norm_num)]
    linarith
  have hpos : 0 < Real.exp (2 ^ L * u) := Real.exp_pos _
  constructor
  · have := mul_le_mul_of_nonneg_right (sub_le_sub_left hδ 1) hpos.le
    linarith [h.1]
  · have := mul_le_mul_of_nonneg_right (add_le_add_left hδ 1) hpos.le
    linarith [h.2]

/-! ### 4. consequences over `ℝ` -/

/-- **C18.4a (one block over `ℝ`).** With `L ≥ 4` and cuts inside `[-4, 4]`, a block with `α1 > 0`
enforces `(1 − 10⁻³)·α1·exp(x1/α1) ≤ t`. -/
theorem socp_block_exp_lower (L : ℕ) (hL : 4 ≤ L) (lo hi elo a0 a1 a2 : ℝ) (hlo : -4 ≤ lo) (hhi : hi ≤ 4)
    (y : ℕ → ℝ) (h : BlockRel L lo hi elo a0 a1 a2 y) (ha : 0 < y 4) :
    (1 - 1 / 1000) * (y 4 * Real.exp (y 2 / y 4)) ≤ y 0 := by
  have hd := (socp_block_sound_div L (by omega) lo hi elo a0 a1 a2 y h).1 ha
  have hp : (0 : ℝ) < 2 ^ L := by positivity
  have hw : (2 : ℝ) ^ L * (y 2 / (y 4 * 2 ^ L)) = y 2 / y 4 := by
    field_simp
  have hwl : -4 ≤ y 2 / y 4 := by
    rw [le_div_iff₀ ha]
    have := mul_le_mul_of_nonneg_right hlo ha.le
    linarith [h.cutLo1]
  have hwu : y 2 / y 4 ≤ 4 := by
    rw [div_le_iff₀ ha]
    have := mul_le_mul_of_nonneg_right hhi ha.le
    linarith [h.cutHi]
  have ht := (taylor4_pow_close_two_pow L hL (y 2 / (y 4 * 2 ^ L))
    (by rw [hw]; exact abs_le.mpr ⟨hwl, hwu⟩)).1
  rw [hw] at ht
  have := mul_le_mul_of_nonneg_left ht ha.le
  linarith

/-- **C18.4b (the result of `to_socp` over `ℝ`).** Let `x` be feasible for
`toSocp P L lo hi (exp lo)` with `L ≥ 4`, `-4 ≤ lo`, `hi ≤ 4`.  Then for every exponential cone
`[i0, i1, i2]` of `P` there is a split `x_{i0} = x0 + x1`, `x_{i2} = α0 + α1` with `α0, α1 ≥ 0`,
`x0 ≤ lo·α0`, `lo·α1 ≤ x1 ≤ hi·α1`, `0 ≤ x_{i1}`, `exp(lo)·α0 ≤ x_{i1}` (the flat piece below the
cut), and `(1 − 10⁻³)·α1·exp(x1/α1) + exp(lo)·α0 ≤ x_{i1}` if `α1 > 0`, `x1 = 0` if `α1 = 0`.
(The bound in the original columns, free of the split, is `C18Upper.toSocp_sound_orig`.) -/
theorem socp_exp_lower (P : ConeProg ℝ) (L : ℕ) (hL : 4 ≤ L) (lo hi : ℝ) (hlo : -4 ≤ lo) (hhi : hi ≤ 4)
    (hx : XOk P) (E : ℝ → ℝ → ℝ → Prop) (x : ℕ → ℝ)
    (hf : (toSocp P L lo hi (Real.exp lo)).Feas E x) (k : ℕ) (hk : k < P.xmat.length) :
    ∃ x0 x1 α0 α1 : ℝ,
      x0 + x1 = x ((P.xmat.getD k []).getD 0 0) ∧ α0 + α1 = x ((P.xmat.getD k []).getD 2 0) ∧
      0 ≤ α0 ∧ 0 ≤ α1 ∧ x0 ≤ lo * α0 ∧ lo * α1 ≤ x1 ∧ x1 ≤ hi * α1 ∧
      0 ≤ x ((P.xmat.getD k []).getD 1 0) ∧
      Real.exp lo * α0 ≤ x ((P.xmat.getD k []).getD 1 0) ∧
      (0 < α1 → (1 - 1 / 1000) * (α1 * Real.exp (x1 / α1)) + Real.exp lo * α0 ≤
        x ((P.xmat.getD k []).getD 1 0)) ∧
      (α1 = 0 → x1 = 0) := by
  have hb := socp_feas_block P L (by omega) lo hi (Real.exp lo) hx E x hf k hk
  obtain ⟨-, h1, h2, h3, h4, h5, h6, h7, h8⟩ := socp_block_sound L (by omega) _ _ _ _ _ _ _ hb
  have ht := socp_block_t_nonneg L (by omega) _ _ _ _ _ _ _ hb
  have he : 0 ≤ Real.exp lo * x (off P L k + 3) := mul_nonneg (Real.exp_pos lo).le h4
  refine ⟨_, _, _, _, h2, h3, h4, h5, h6, h7, h8, by linarith, by linarith, ?_, ?_⟩
  · intro ha
    have := socp_block_exp_lower L hL lo hi _ _ _ _ hlo hhi _ hb ha
    linarith
  · exact (socp_block_sound_div L (by omega) _ _ _ _ _ _ _ hb).2

/-- **C18.4c (default arguments).** `soc_solve` / `to_socp` default to `degree = 4`,
`cuts = (-30, 60)`.  At the upper cut `x1/α1 = 60` the Taylor argument is `u = 60/16 = 3.75`, far
outside the range where `P4` is close to `exp`: the bound `α1·P4(60/2^4)^(2^4) ≤ t` that the block
enforces there is more than 400 times weaker than `α1·exp(60) ≤ t`. -/
theorem default_cuts_gap : 400 * P4 ((60 : ℝ) / 2 ^ 4) ^ 2 ^ 4 ≤ Real.exp 60 := by
  have h := Real.sum_le_exp_of_nonneg (x := (15 : ℝ) / 4) (by norm_num) 10
  have e : Real.exp 60 = Real.exp (15 / 4) ^ 16 := by
    rw [← Real.exp_nat_mul]; norm_num
  rw [e]
  have h2 : (42 : ℝ) ≤ Real.exp (15 / 4) := by
    refine le_trans ?_ h
    simp [Finset.sum_range_succ, Nat.factorial]
    norm_num
  calc 400 * P4 ((60 : ℝ) / 2 ^ 4) ^ 2 ^ 4 ≤ (42 : ℝ) ^ 16 := by
        unfold P4; norm_num
    _ ≤ Real.exp (15 / 4) ^ 16 := pow_le_pow_left₀ (by norm_num) h2 16

/-! ### 5. concrete instances -/

/-- a source program with one row `x1 + x2 ≤ 3`, four columns, one cone and the exponential cone
`[1, 2, 3]` -/
def exP : ConeProg ℚ :=
  { lp := { nr := 1, nc := 4, a := fun _ j => if j = 1 ∨ j = 2 then 1 else 0, b := fun _ => 3,
            eq := fun _ => false, ub := fun _ => none, lb := fun _ => none,
            c := fun j => if j = 0 then 1 else 0 }
    st := fun _ j => decide (j = 1 ∨ j = 2), qmat := [[0, 1]], xmat := [[1, 2, 3]] }

example : (toSocp exP 1 (-1) 1 (3 / 8)).lp.nr = 20 ∧ (toSocp exP 1 (-1) 1 (3 / 8)).lp.nc = 25 := by decide
example : (toSocp exP 1 (-1) 1 (3 / 8)).qmat =
    [[0, 1], [15, 14, 13], [18, 17, 16], [21, 20, 19], [24, 23, 22]] := by decide
example : (toSocp exP 1 (-1) 1 (3 / 8)).lp.a 1 2 = -1 := by
  simp [toSocp, exP, globalRow, leftRow, blockRow, entry, rowCount, off, numCols, numVars]

/-- the entry of the repair: row 0 of the block (row `1`), column `α0` (`4 + 3`), value `elo` -/
example : (toSocp exP 1 (-1) 1 (3 / 8)).lp.a 1 7 = 3 / 8 ∧ (toSocp exP 1 (-1) 1 (3 / 8)).lp.a 1 4 = 1 := by
  constructor <;>
  simp [toSocp, exP, globalRow, leftRow, blockRow, entry, rowCount, off, numCols, numVars]

example : (toSocp exP 1 (-1) 1 (3 / 8)).lp.a 4 6 = 5 / 12 ∧ (toSocp exP 1 (-1) 1 (3 / 8)).lp.a 4 12 = -1 := by
  constructor
  · simp [toSocp, exP, globalRow, leftRow, blockRow, entry, rowCount, off, numCols, numVars]
    norm_num
  · simp [toSocp, exP, globalRow, leftRow, blockRow, entry, rowCount, off, numCols, numVars]

/-- a block-local point for `L = 1`: `α1 = 1`, `x1 = 0`, `f = 0`, `g = h = v_0 = t = 1`
(`1·exp(0/1) ≤ 1`) -/
def exY : ℕ → ℚ := fun c =>
  [1, 0, 0, 0, 1, 0, 1, 1, 1, 1/2, 0, 1/2, 0, 1, 1, 0, 1, 1, 0, 1, 1].getD c 0

/-- `BlockRel` is satisfiable (the block of the cone `a0 = 0, a1 = 1, a2 = 1`; `elo = 3/8 ≈ exp(-1)`) -/
example : BlockRel 1 (-1) 1 (3 / 8) 0 1 1 exY := by
  refine ⟨by norm_num [exY], by norm_num [exY], by norm_num [exY], by norm_num [exY],
    by norm_num [exY], by norm_num [exY], by norm_num [exY], ?_, ?_⟩
  · intro c h3 hV
    have : c < 9 := hV
    interval_cases c <;> norm_num [exY]
  · intro q hq
    have : q < 4 := hq
    interval_cases q <;> norm_num [exY, numVars, wCol, yVal]

/-- a block point that uses the split: `α0 = α1 = 1`, `x0 = -2 ≤ lo·α0`, `x1 = 0`, `t = 1`, cone
`a0 = -2, a2 = 2` and `a1 = t + elo·α0 = 11/8` (row 0 with the new entry is tight) -/
def exY2 : ℕ → ℚ := fun c =>
  [1, -2, 0, 1, 1, 0, 1, 1, 1, 1/2, 0, 1/2, 0, 1, 1, 0, 1, 1, 0, 1, 1].getD c 0

example : BlockRel 1 (-1) 1 (3 / 8) (-2) (11 / 8) 2 exY2 := by
  refine ⟨by norm_num [exY2], by norm_num [exY2], by norm_num [exY2], by norm_num [exY2],
    by norm_num [exY2], by norm_num [exY2], by norm_num [exY2], ?_, ?_⟩
  · intro c h3 hV
    have : c < 9 := hV
    interval_cases c <;> norm_num [exY2]
  · intro q hq
    have : q < 4 := hq
    interval_cases q <;> norm_num [exY2, numVars, wCol, yVal]

/-- with `a1` below `t + elo·α0` row 0 fails: the same point is NOT a block point for `a1 = 1`
(it was one before the repair, `elo = 0`) -/
example : ¬ BlockRel 1 (-1) 1 (3 / 8) (-2) 1 2 exY2 ∧ BlockRel 1 (-1) 1 0 (-2) 1 2 exY2 := by
  constructor
  · intro h
    have := h.epi
    norm_num [exY2] at this
  · refine ⟨by norm_num [exY2], by norm_num [exY2], by norm_num [exY2], by norm_num [exY2],
      by norm_num [exY2], by norm_num [exY2], by norm_num [exY2], ?_, ?_⟩
    · intro c h3 hV
      have : c < 9 := hV
      interval_cases c <;> norm_num [exY2]
    · intro q hq
      have : q < 4 := hq
      interval_cases q <;> norm_num [exY2, numVars, wCol, yVal]

/-- and the block soundness statement at that point reads `1 ≤ 1` -/
example : Q4 (exY 2 / 2 ^ 1) (exY 4) ^ 2 ^ 1 ≤ exY 4 ^ (2 ^ (1 + 2) - 1) * exY 0 := by
  norm_num [exY, Q4]

example : P4 (0 : ℚ) = 1 ∧ P4 (1 : ℚ) = 65 / 24 ∧ Q4 (1 : ℚ) 2 = 16 * P4 (1 / 2) := by
  norm_num [P4, Q4]

/-- a point of the result: `x = (0, 0, 1, 1)` followed by the block point `exY` -/
def exX : ℕ → ℚ := fun c =>
  [0, 0, 1, 1, 1, 0, 0, 0, 1, 0, 1, 1, 1, 1/2, 0, 1/2, 0, 1, 1, 0, 1, 1, 0, 1, 1].getD c 0

lemma exP_ok : XOk exP := by
  intro e he
  simp [exP] at he
  subst he
  simp [exP]

/-- the result has feasible points (so `socp_feas_block` is not vacuous) -/
example : (toSocp exP 1 (-1) 1 (3 / 8)).Feas (fun _ _ _ => True) exX := by
  refine ⟨⟨?_, ?_, ?_⟩, ?_, ?_⟩
  · intro i hi
    have hi' : i < 20 := hi
    rcases Nat.eq_zero_or_pos i with rfl | hpos
    · rw [(socp_carry_row exP 1 (-1) 1 (3 / 8) exX).1 0 (by decide)]
      simp [LinProg.row, toSocp, exP, Finset.sum_range_succ, exX]
    · obtain ⟨r, rfl⟩ : ∃ r, i = exP.lp.nr + 0 * rowCount 1 + r := ⟨i - 1, by simp [exP]; omega⟩
      have hr : r < rowCount 1 := by simp [exP] at hi'; unfold rowCount; omega
      rw [toSocp_eq_block _ _ _ _ _ _ _ hr, toSocp_row_block _ _ le_rfl _ _ _ exP_ok 0 (by decide) r hr,
        toSocp_b_block _ _ _ _ _ _ _ hr]
      have : r < 19 := hr
      interval_cases r <;>
      simp [exP, leftRow, blockRow, blockEq, off, numCols, numVars, wCol, yRow, exX] <;> norm_num
  · intro j hj
    simp [toSocp, exP, LinProg.leUb]
  · intro j hj
    have : j < 25 := hj
    interval_cases j <;> simp [toSocp, exP, LinProg.geLb, blockLb, numCols, numVars, exX]
  · intro q hq
    have hq' : (toSocp exP 1 (-1) 1 (3 / 8)).qmat =
        [[0, 1], [15, 14, 13], [18, 17, 16], [21, 20, 19], [24, 23, 22]] := by decide
    rw [hq'] at hq
    simp at hq
    rcases hq with rfl | rfl | rfl | rfl | rfl <;> simp [socMem, exX]
  · intro e he
    simp [toSocp] at he

end RsomeV.C18
