import RsomeV.M.Solvers
import RsomeV.L.Solvers
import RsomeV.L.ExpCone
import RsomeV.Gen.Status
import Mathlib.Data.Rat.Floor

/-! # C11 — the solver interfaces hand the compiled program to the solver unchanged

Model: `RsomeV/M/Solvers.lean` (the data each interface passes to its solver API, and what that
data means); helper lemmas: `RsomeV/L/Solvers.lean`.  Differential test: `test_iface.py`.

For every interface: a vector satisfies the solver-API data **iff** it is `ConeProg.Feas` for the
compiled program and binary / integral where `vtype` says so (`VtOk`), for every program in the
interface's cone class, and the objective handed over is the program's cost vector (all four
interfaces minimise).

Deviations that the theorems expose as hypotheses (each with a concrete counter-example below):
* (repaired in the code: OR-Tools used to drop a row whose CSR slice has no stored entry, so an
  infeasible `0 ≤ -1` row disappeared; now kept - `ortools_keeps_infeasible_row`.)
* Gurobi receives `Σ tail² ≤ head²` *without* `head ≥ 0`; it is the cone only when the head column
  carries a non-negative lower bound (`gurobi_free_head`).
* `def_sol` / OR-Tools make every non-`'C'` column integral, ECOS only the `'I'`/`'B'` ones: the
  interfaces agree only on the alphabet `C/B/I` (`VtWF`; `defsol_other_letter`).
* `def_sol` (MILP branch) rounds the bounds of every non-`'C'` column inward with the tolerance
  `ε = 1/10^9` (`ceil(lb - ε)`, `floor(ub + ε)`; repair: HiGHS returned suboptimal points for
  fractional integer bounds).  No binary / integral point of the program is lost (`defsol_sound`),
  an accepted point respects the bounds up to `ε` (`defsol_complete_tol`), and the exact iff
  `defsol_equiv` holds when no integer lies within `ε` outside of a bound (`BoundsNotNearInt`, true
  of integral and half-integral bounds - `boundsNotNearInt_of_half`; needed: `defsol_tol_needed`).
* (repaired in the code: ECOS_BB mixes up the bound rows of binary and integer variables unless every
  binary column precedes every integer one; `eco_solver.solve` now passes a binary as an *integer*
  variable with the bound rows of `[max(lb,0), min(ub,1)]` and no `bool_vars_idx`.  `ecos_equiv` is
  still exact - integer ∧ `0 ≤ x ≤ 1` ⇔ binary; example `PIB` has the `'I'` column first.)
* ECOS' exponential cone is read in the order `(s₀,s₁,s₂) ↦ s₂·exp(s₀/s₂) ≤ s₁`, the same order
  as rsome's `ExpConstr(e1,e2,e3)`/`xmat = [aux0,aux1,aux2]` (`ecos_exp_membership`; confirmed
  numerically against the real ECOS in `test_iface.py`). -/

set_option linter.unusedSectionVars false
set_option linter.unusedSimpArgs false

namespace RsomeV.C11
open Finset RsomeV RsomeV.Solvers

variable {K : Type} [Field K] [LinearOrder K] [IsStrictOrderedRing K]

/-! ### def_sol (SciPy `linprog` / `milp`) -/

section DefSol
variable [FloorRing K]

/-- `def_sol`'s data, branch by branch, as statements about the program: the all-continuous branch
(`linprog`) hands over rows and bounds unchanged; the MILP branch the rows, the per-column bounds
`milpLb`/`milpUb` (binaries clipped to `[0,1]`, then every non-`'C'` column rounded inward:
`ceil(lb - ε)`, `floor(ub + ε)`, `ε = 1/10^9`) and integrality off `'C'`. -/
lemma defSol_feas_iff (P : ConeProg K) (vt : ℕ → Char) (x : ℕ → K) :
    (defSol P vt).Feas x ↔
      (∀ i < P.lp.nr, if P.lp.eq i then P.lp.row i x = P.lp.b i else P.lp.row i x ≤ P.lp.b i) ∧
      if allCont vt P.lp.nc = true then
        ∀ j < P.lp.nc, LinProg.geLb (x j) (P.lp.lb j) ∧ LinProg.leUb (x j) (P.lp.ub j)
      else
        (∀ j < P.lp.nc, LinProg.geLb (x j) (milpLb (vt j) (P.lp.lb j)) ∧
          LinProg.leUb (x j) (milpUb (vt j) (P.lp.ub j))) ∧
        ∀ j < P.lp.nc, (vt j != 'C') = true → IsInt (x j) := by
  unfold defSol
  by_cases hc : allCont vt P.lp.nc = true
  · simp only [hc, if_true, DefSolArgs.Feas]
    rw [linprogFeas_iff, optRowsLe_norows, optRowsEq_norows, rows_split]
    tauto
  · simp only [hc, Bool.false_eq_true, if_false, DefSolArgs.Feas]
    rw [milpFeas_iff]
    simp only [dot_row, milp_row_iff]

/-- **`defsol_sound`**: every feasible point of the program that is binary on `'B'` and integral on
`'I'` columns satisfies the arguments `def_sol` passes to `scipy.optimize.linprog` / `milp` - the
inward rounding of the bounds of the non-continuous columns never cuts off such a point (an integer
`≤ ub` is `≤ floor(ub + ε)`).  No hypothesis on the cones (they are ignored) nor on the bounds; the
alphabet `C/B/I` is needed because `def_sol` makes *every* non-`'C'` column integral
(`defsol_other_letter`). -/
theorem defsol_sound (P : ConeProg K) (vt : ℕ → Char) (E : K → K → K → Prop) (x : ℕ → K)
    (hvt : VtWF vt P.lp.nc) :
    (P.Feas E x ∧ VtOk vt P.lp.nc x) → (defSol P vt).Feas x := by
  rintro ⟨hF, hV⟩
  have hL := hF.lin
  rw [defSol_feas_iff]
  refine ⟨hL.rows, ?_⟩
  by_cases hc : allCont vt P.lp.nc = true
  · rw [if_pos hc]
    exact fun j hj => ⟨hL.lbs j hj, hL.ubs j hj⟩
  · rw [if_neg hc]
    have := fun j hj => col_milp_sound (vt j) (hvt j hj) (x j) (P.lp.lb j) (P.lp.ub j)
      ⟨hL.lbs j hj, hL.ubs j hj⟩ (hV j hj)
    exact ⟨fun j hj => (this j hj).1, fun j hj => (this j hj).2⟩

/-- **`defsol_complete_tol`**: a vector that satisfies the arguments `def_sol` passes to SciPy
satisfies every row of the program, is binary on `'B'` and integral on `'I'` columns, and is within
the bounds of the program - exactly on the continuous columns, up to `ε = 1/10^9` on the others
(`lb - ε ≤ x`, `x ≤ ub + ε`; on a binary column too: with `ub = -1/10^10` the value `0` is accepted,
`defsol_tol_needed`).  No hypothesis on the alphabet. -/
theorem defsol_complete_tol (P : ConeProg K) (vt : ℕ → Char) (x : ℕ → K)
    (h : (defSol P vt).Feas x) :
    (∀ i < P.lp.nr, if P.lp.eq i then P.lp.row i x = P.lp.b i else P.lp.row i x ≤ P.lp.b i) ∧
    VtOk vt P.lp.nc x ∧
    ∀ j < P.lp.nc,
      (vt j = 'C' → LinProg.geLb (x j) (P.lp.lb j) ∧ LinProg.leUb (x j) (P.lp.ub j)) ∧
      (vt j ≠ 'C' → geLbTol (x j) (P.lp.lb j) ∧ leUbTol (x j) (P.lp.ub j)) := by
  rw [defSol_feas_iff] at h
  refine ⟨h.1, ?_⟩
  by_cases hc : allCont vt P.lp.nc = true
  · have hb := h.2
    rw [if_pos hc] at hb
    refine ⟨vtOk_of_allCont vt P.lp.nc x hc, fun j hj => ⟨fun _ => hb j hj, fun hne => ?_⟩⟩
    exact absurd ((allCont_iff vt P.lp.nc).mp hc j hj) hne
  · have hb := h.2
    rw [if_neg hc] at hb
    have := fun j hj => col_milp_tol (vt j) (x j) (P.lp.lb j) (P.lp.ub j) ⟨hb.1 j hj, hb.2 j hj⟩
    exact ⟨fun j hj => (this j hj).1, fun j hj => (this j hj).2⟩

/-- `BoundsNotNearInt` spelled out: for every non-continuous column, no integer in `[lb - ε, lb)`
nor in `(ub, ub + ε]`, `ε = 1/10^9` (nothing is asked of an infinite bound) -/
theorem boundsNotNearInt_iff (vt : ℕ → Char) (n : ℕ) (lb ub : ℕ → Option K) :
    BoundsNotNearInt vt n lb ub ↔ ∀ j < n, vt j ≠ 'C' →
      (∀ l, lb j = some l → ∀ z : ℤ, ¬ (l - 1 / 10 ^ 9 ≤ (z : K) ∧ (z : K) < l)) ∧
      (∀ u, ub j = some u → ∀ z : ℤ, ¬ (u < (z : K) ∧ (z : K) ≤ u + 1 / 10 ^ 9)) := by
  unfold BoundsNotNearInt
  apply forall_congr'; intro j
  apply imp_congr_right; intro _
  apply imp_congr_right; intro _
  apply and_congr
  · cases lb j with
    | none => simp [LbFar]
    | some l => simp [LbFar, intEps]
  · cases ub j with
    | none => simp [UbFar]
    | some u => simp [UbFar, intEps]

/-- **`defsol_equiv`**: for a program without cones, a `vtype` over `C/B/I` and bounds of the
non-continuous columns that are not within `ε` outside of an integer (`BoundsNotNearInt`: no integer
in `(ub, ub + ε]` nor in `[lb - ε, lb)`), the arguments `def_sol` passes to
`scipy.optimize.linprog` (all-continuous) or `scipy.optimize.milp` (otherwise: `b_l = -inf` except
on equalities, binaries with `lb' = max(lb,0)`, `ub' = min(ub,1)`, then `ceil(lb' - ε)`,
`floor(ub' + ε)` on every non-`'C'` column, `integrality = 1` off `'C'`) are satisfied by exactly the
feasible points of the program that are binary on `'B'` and integral on `'I'` columns.  (Without
the hypothesis only `defsol_sound` and `defsol_complete_tol` hold.) -/
theorem defsol_equiv (P : ConeProg K) (vt : ℕ → Char) (E : K → K → K → Prop) (x : ℕ → K)
    (hq : P.qmat = []) (hx : P.xmat = []) (hvt : VtWF vt P.lp.nc)
    (hb : BoundsNotNearInt vt P.lp.nc P.lp.lb P.lp.ub) :
    (defSol P vt).Feas x ↔ (P.Feas E x ∧ VtOk vt P.lp.nc x) := by
  refine ⟨fun h => ?_, defsol_sound P vt E x hvt⟩
  rw [coneFeas_nocone P E x hq hx]
  rw [defSol_feas_iff] at h
  by_cases hc : allCont vt P.lp.nc = true
  · have h2 := h.2
    rw [if_pos hc] at h2
    exact ⟨⟨h.1, fun j hj => (h2 j hj).2, fun j hj => (h2 j hj).1⟩, vtOk_of_allCont vt P.lp.nc x hc⟩
  · have h2 := h.2
    rw [if_neg hc] at h2
    have := fun j hj => (col_milp_iff (vt j) (hvt j hj) (x j) (P.lp.lb j) (P.lp.ub j) (hb j hj)).mp
      ⟨h2.1 j hj, h2.2 j hj⟩
    exact ⟨⟨h.1, fun j hj => (this j hj).1.2, fun j hj => (this j hj).1.1⟩, fun j hj => (this j hj).2⟩

/-- integral and half-integral bounds are never within `ε` outside of an integer: the smallest
integer above `k/2` is at least `k/2 + 1/2` -/
lemma lbFar_half (k : ℤ) : LbFar (some ((k : K) / 2)) := by
  rintro z ⟨h1, h2⟩
  have e := intEps_lt_one (K := K)
  have e0 := intEps_pos (K := K)
  have a : ((2 * z : ℤ) : K) < ((k : ℤ) : K) := by push_cast; linarith
  have a' : 2 * z < k := by exact_mod_cast a
  have b' : 2 * z + 1 ≤ k := by omega
  have b : ((2 * z + 1 : ℤ) : K) ≤ ((k : ℤ) : K) := by exact_mod_cast b'
  push_cast at b
  -- z ≤ k/2 - 1/2 < k/2 - ε
  have hhalf : intEps < (1 : K) / 2 := by
    unfold intEps; rw [div_lt_div_iff_of_pos_left one_pos (pow_pos (by norm_num) 9) (by norm_num)]
    norm_num
  linarith

lemma ubFar_half (k : ℤ) : UbFar (some ((k : K) / 2)) := by
  rintro z ⟨h1, h2⟩
  have a : ((k : ℤ) : K) < ((2 * z : ℤ) : K) := by push_cast; linarith
  have a' : k < 2 * z := by exact_mod_cast a
  have b' : k + 1 ≤ 2 * z := by omega
  have b : ((k + 1 : ℤ) : K) ≤ ((2 * z : ℤ) : K) := by exact_mod_cast b'
  push_cast at b
  have hhalf : intEps < (1 : K) / 2 := by
    unfold intEps; rw [div_lt_div_iff_of_pos_left one_pos (pow_pos (by norm_num) 9) (by norm_num)]
    norm_num
  linarith

/-- `BoundsNotNearInt` holds whenever every finite bound of a non-continuous column is an integer
or a half-integer (`k/2`, `k ∈ ℤ`) - in particular for the integral bounds of an ordinary MILP -/
theorem boundsNotNearInt_of_half (vt : ℕ → Char) (n : ℕ) (lb ub : ℕ → Option K)
    (hl : ∀ j < n, vt j ≠ 'C' → ∀ l, lb j = some l → ∃ k : ℤ, l = (k : K) / 2)
    (hu : ∀ j < n, vt j ≠ 'C' → ∀ u, ub j = some u → ∃ k : ℤ, u = (k : K) / 2) :
    BoundsNotNearInt vt n lb ub := by
  intro j hj hne
  constructor
  · cases h : lb j with
    | none => trivial
    | some l => obtain ⟨k, rfl⟩ := hl j hj hne l h; exact lbFar_half k
  · cases h : ub j with
    | none => trivial
    | some u => obtain ⟨k, rfl⟩ := hu j hj hne u h; exact ubFar_half k

/-- in the MILP branch every non-`'C'` column is declared integral -/
lemma defSol_feas_int (P : ConeProg K) (vt : ℕ → Char) (x : ℕ → K)
    (h : allCont vt P.lp.nc = false) (hf : (defSol P vt).Feas x) :
    ∀ j < P.lp.nc, vt j ≠ 'C' → IsInt (x j) := by
  unfold defSol at hf
  simp only [h, Bool.false_eq_true, if_false, DefSolArgs.Feas] at hf
  exact fun j hj hne => hf.int j hj (by simpa using hne)

/-- the objective handed to SciPy is the program's cost vector -/
theorem defsol_cost (P : ConeProg K) (vt : ℕ → Char) : (defSol P vt).c = P.lp.c := by
  unfold defSol
  by_cases h : allCont vt P.lp.nc = true <;> simp [h, DefSolArgs.c]

end DefSol

/-! ### ECOS -/

/-- bounds + integrality as `eco_solver.solve` sets them (bound rows from the clipped bounds
`clipBin`, `int_vars_idx` = the `'B'` and `'I'` columns): an integer within `[max(lb,0), min(ub,1)]`
is a 0/1 value within `[lb, ub]` -/
lemma cols_ecos_iff (vt : ℕ → Char) (L : LinProg K) (x : ℕ → K) :
    ((∀ j < L.nc, LinProg.geLb (x j) ((clipBin L vt).lb j) ∧ LinProg.leUb (x j) ((clipBin L vt).ub j)) ∧
      ∀ j < L.nc, (vt j == 'B' || vt j == 'I') = true → IsInt (x j)) ↔
    ((∀ j < L.nc, LinProg.geLb (x j) (L.lb j) ∧ LinProg.leUb (x j) (L.ub j)) ∧ VtOk vt L.nc x) := by
  constructor
  · rintro ⟨h1, h2⟩
    have := fun j hj => (col_ecos_iff (vt j) (x j) (L.lb j) (L.ub j)).mp ⟨h1 j hj, h2 j hj⟩
    exact ⟨fun j hj => (this j hj).1, fun j hj => (this j hj).2⟩
  · rintro ⟨h1, h2⟩
    have := fun j hj => (col_ecos_iff (vt j) (x j) (L.lb j) (L.ub j)).mpr ⟨h1 j hj, h2 j hj⟩
    exact ⟨fun j hj => (this j hj).1, fun j hj => (this j hj).2⟩

/-- **`ecos_equiv`**: `G x + s = h`, `s ∈ ℝ₊^l × Q^{q₁} × … × K_exp^e`, `A x = b` and the integer
variables as listed — the data `eco_solver.solve` passes to `ecos.solve` — hold for exactly the
feasible points of the conic program (rows, bounds, second-order cones head first, exponential
cones `E (x e₀) (x e₁) (x e₂)`) that are binary on `'B'` and integral on `'I'` columns.  `E` is
ECOS' exponential cone read on the slack triple in ECOS' own order.  Since the repair of
`eco_solver.solve` a binary is an ECOS *integer* variable whose bound rows are those of
`[max(lb,0), min(ub,1)]` (no `bool_vars_idx`): integer ∧ `0 ≤ x ≤ 1` ⇔ binary, so the equivalence
is still exact, whatever the order of the `'B'` and `'I'` columns and for every alphabet. -/
theorem ecos_equiv (P : ConeProg K) (vt : ℕ → Char) (E : K → K → K → Prop) (x : ℕ → K)
    (hw : IdxOk P) :
    (ecos P vt).Feas E x ↔ (P.Feas E x ∧ VtOk vt P.lp.nc x) := by
  have hs := ecos_slack P vt x hw
  have hlen : (ecos P vt).dimL =
      ((ineqIdx P.lp).map (fun i => P.lp.b i - P.lp.row i x) ++
       (zlbIdx (clipBin P.lp vt)).map (fun j => x j - ((clipBin P.lp vt).lb j).getD 0) ++
       (zubIdx (clipBin P.lp vt)).map (fun j => ((clipBin P.lp vt).ub j).getD 0 - x j)).length := by
    simp [ecos, Nat.add_assoc]
  have htake := List.take_left' (l₂ := P.qmat.flatten.map x ++ P.xmat.flatten.map x) hlen.symm
  have hdrop := List.drop_left' (l₂ := P.qmat.flatten.map x ++ P.xmat.flatten.map x) hlen.symm
  have hlin : (∀ v ∈ ((ecos P vt).slack x).take (ecos P vt).dimL, 0 ≤ v) ↔
      ((∀ i ∈ ineqIdx P.lp, P.lp.row i x ≤ P.lp.b i) ∧
        (∀ j < (clipBin P.lp vt).nc, LinProg.geLb (x j) ((clipBin P.lp vt).lb j)) ∧
        ∀ j < (clipBin P.lp vt).nc, LinProg.leUb (x j) ((clipBin P.lp vt).ub j)) := by
    rw [hs, htake, ← zlb_iff, ← zub_iff]
    simp only [List.mem_append, List.mem_map, or_imp, forall_and, forall_exists_index, and_imp,
      forall_apply_eq_imp_iff₂, sub_nonneg, and_assoc]
  have hcone : coneFeas E (ecos P vt).dimQ (ecos P vt).dimE
      (((ecos P vt).slack x).drop (ecos P vt).dimL) ↔
      ((∀ q ∈ P.qmat, socMem x q) ∧
        ∀ e ∈ P.xmat, E (x (e.getD 0 0)) (x (e.getD 1 0)) (x (e.getD 2 0))) := by
    rw [hs, hdrop]
    exact coneFeas_iff E x P.qmat P.xmat hw.xlen
  have heq : optRowsEq (ecos P vt).n (ecos P vt).A (ecos P vt).b x ↔
      ∀ i ∈ eqIdx P.lp, P.lp.row i x = P.lp.b i := optRowsEq_noeq P.lp x
  have hint : ((∀ j ∈ (ecos P vt).boolIdx, IsBin (x j)) ∧ ∀ j ∈ (ecos P vt).intIdx, IsInt (x j)) ↔
      ∀ j < P.lp.nc, (vt j == 'B' || vt j == 'I') = true → IsInt (x j) := by
    simp only [ecos, List.not_mem_nil, false_imp_iff, implies_true, true_and, List.mem_filter,
      List.mem_range, and_imp]
  have hcols := cols_ecos_iff vt P.lp x
  constructor
  · intro h
    obtain ⟨a1, a2, a3⟩ := hlin.mp h.lin
    obtain ⟨b1, b2⟩ := hcone.mp h.cone
    have c1 := heq.mp h.eq
    obtain ⟨d1, d2⟩ := hcols.mp ⟨fun j hj => ⟨a2 j hj, a3 j hj⟩, hint.mp ⟨h.bool, h.int⟩⟩
    exact ⟨⟨(linFeas_iff P.lp x).mpr ⟨⟨a1, c1⟩, d1⟩, b1, b2⟩, d2⟩
  · rintro ⟨h, hv⟩
    obtain ⟨⟨a1, c1⟩, a23⟩ := (linFeas_iff P.lp x).mp h.lin
    obtain ⟨d1, d2⟩ := hcols.mpr ⟨a23, hv⟩
    obtain ⟨v1, v2⟩ := hint.mpr d2
    exact ⟨hlin.mpr ⟨a1, fun j hj => (d1 j hj).1, fun j hj => (d1 j hj).2⟩,
      hcone.mpr ⟨h.soc, h.exp⟩, heq.mpr c1, v1, v2⟩

/-- the objective handed to ECOS is the program's cost vector -/
theorem ecos_cost (P : ConeProg K) (vt : ℕ → Char) : (ecos P vt).c = P.lp.c := rfl

/-- **ECOS' exponential-cone ordering.**  With ECOS' cone
`K_exp = cl {(s₀,s₁,s₂) | s₂ > 0, s₂·exp(s₀/s₂) ≤ s₁}` (`realExpCone`), the data express, for
every `xmat` entry `e = [e₀,e₁,e₂]`, the membership `x[e₂]·exp(x[e₀]/x[e₂]) ≤ x[e₁]` — rsome's
`ExpConstr(expr1, expr2, expr3)` = `expr3·exp(expr1/expr3) ≤ expr2` with `aux0 = expr1`,
`aux1 ≤ expr2`, `aux2 = expr3`.  (Not `s₁·exp(s₀/s₁) ≤ s₂`.) -/
theorem ecos_exp_membership (P : ConeProg ℝ) (vt : ℕ → Char) (x : ℕ → ℝ) (hw : IdxOk P)
    (h : (ecos P vt).Feas realExpCone x) :
    ∀ e ∈ P.xmat, realExpCone (x (e.getD 0 0)) (x (e.getD 1 0)) (x (e.getD 2 0)) :=
  ((ecos_equiv P vt realExpCone x hw).mp h).1.exp

/-! ### OR-Tools -/

/-- entries outside the stored (CSR) pattern are zero -/
def StoredCovers (P : ConeProg K) : Prop :=
  ∀ i < P.lp.nr, ∀ j < P.lp.nc, P.st i j = false → P.lp.a i j = 0

lemma ort_row (P : ConeProg K) (hst : StoredCovers P) (x : ℕ → K) (i : ℕ) (hi : i < P.lp.nr) :
    dot P.lp.nc (fun j => if P.st i j then P.lp.a i j else 0) x = P.lp.row i x := by
  unfold dot LinProg.row
  apply Finset.sum_congr rfl
  intro j hj
  cases h : P.st i j with
  | true => simp [h]
  | false => simp [h, hst i hi j (Finset.mem_range.mp hj) h]

/-- **`ortools_equiv`**: for a program without cones, `vtype` over `C/B/I` and a stored pattern that
covers the non-zeros, the variables (`NumVar(lb,ub)`, `IntVar(max(0,lb),min(1,ub))` for `'B'`,
`IntVar(lb,ub)` otherwise) and rows added to the `pywraplp` solver are satisfied by exactly the
feasible points of the program that are binary / integral where `vtype` says so.  (Rows without a
stored entry are handed over as empty constraints `0 == b` / `0 <= b`; before the repair of
`ort_solver.solve` they were dropped and this theorem needed the hypothesis that no such row is
violated - `m.st(0*x[0] <= -1)` was reported optimal.) -/
theorem ortools_equiv (P : ConeProg K) (vt : ℕ → Char) (E : K → K → K → Prop) (x : ℕ → K)
    (hq : P.qmat = []) (hx : P.xmat = []) (hvt : VtWF vt P.lp.nc)
    (hst : StoredCovers P) :
    (ortools P vt).Feas x ↔ (P.Feas E x ∧ VtOk vt P.lp.nc x) := by
  rw [coneFeas_nocone P E x hq hx]
  have hrows : (∀ r ∈ (ortools P vt).rows,
        LinProg.geLb (dot (ortools P vt).n r.coef x) r.lo ∧ dot (ortools P vt).n r.coef x ≤ r.hi) ↔
      ∀ i < P.lp.nr, if P.lp.eq i then P.lp.row i x = P.lp.b i else P.lp.row i x ≤ P.lp.b i := by
    show (∀ r ∈ (ortKept P).map (ortRow P),
        LinProg.geLb (dot P.lp.nc r.coef x) r.lo ∧ dot P.lp.nc r.coef x ≤ r.hi) ↔ _
    rw [List.forall_mem_map]
    simp only [ortKept, List.mem_range, ortRow]
    constructor
    · intro h i hi
      have := h i hi
      rw [ort_row P hst x i hi, milp_row_iff] at this
      exact this
    · intro h i hi
      rw [ort_row P hst x i hi, milp_row_iff]
      exact h i hi
  have hcols := cols_clip_iff vt P.lp.nc hvt P.lp.lb P.lp.ub x
  constructor
  · intro h
    obtain ⟨h2, h3⟩ := hcols.mp ⟨h.bnd, h.int⟩
    exact ⟨⟨hrows.mp h.rows, fun j hj => (h2 j hj).2, fun j hj => (h2 j hj).1⟩, h3⟩
  · rintro ⟨h, h3⟩
    obtain ⟨b1, b2⟩ := hcols.mpr ⟨fun j hj => ⟨h.lbs j hj, h.ubs j hj⟩, h3⟩
    exact ⟨hrows.mpr h.rows, b1, b2⟩

/-- the objective handed to OR-Tools is the program's cost vector -/
theorem ortools_cost (P : ConeProg K) (vt : ℕ → Char) : (ortools P vt).obj = P.lp.c := rfl

/-! ### Gurobi -/

/-- every cone's head column carries a non-negative lower bound (true of the cones `do_math`
creates for the norm / square / quadratic atoms: `aux >= 0` goes to `lb`) -/
def HeadsNonneg (P : ConeProg K) : Prop :=
  ∀ q ∈ P.qmat, ∀ h t, q = h :: t → h < P.lp.nc ∧ ∃ l, P.lp.lb h = some l ∧ 0 ≤ l

lemma grbFeas_iff (d : GrbArgs K) (x : ℕ → K) :
    d.Feas x ↔ optRowsEq d.n d.aEq d.bEq x ∧ optRowsLe d.n d.aLe d.bLe x ∧
      (∀ j < d.n, LinProg.geLb (x j) (d.lb j) ∧ LinProg.leUb (x j) (d.ub j)) ∧ VtOk d.vtype d.n x ∧
      ∀ c ∈ d.qcs, (c.left.map fun j => x j ^ 2).sum ≤ (c.right.map fun j => x j ^ 2).sum :=
  ⟨fun h => ⟨h.eq, h.le, h.bnd, h.vt, h.qc⟩, fun ⟨a, b, c, d, e⟩ => ⟨a, b, c, d, e⟩⟩

/-- **`gurobi_equiv`**: for a program without exponential cones whose cone heads have a
non-negative lower bound, the data `grb_solver.solve` gives Gurobi (`addMVar(lb, ub, vtype)`,
`A_eq x = b_eq`, `A_ineq x ≤ b_ineq`, one `x_tail·x_tail ≤ x_head·x_head` per cone) are satisfied by
exactly the feasible points of the program that are binary / integral where `vtype` says so.
(Gurobi's reading of `vtype` as continuous/binary/integer is for the letters `C/B/I`.) -/
theorem gurobi_equiv (P : ConeProg K) (vt : ℕ → Char) (E : K → K → K → Prop) (x : ℕ → K)
    (hx : P.xmat = []) (hh : HeadsNonneg P) :
    (gurobi P vt).Feas x ↔ (P.Feas E x ∧ VtOk vt P.lp.nc x) := by
  rw [grbFeas_iff]
  have e1 : optRowsEq (gurobi P vt).n (gurobi P vt).aEq (gurobi P vt).bEq x ↔
      ∀ i ∈ eqIdx P.lp, P.lp.row i x = P.lp.b i := optRowsEq_norows P.lp x
  have e2 : optRowsLe (gurobi P vt).n (gurobi P vt).aLe (gurobi P vt).bLe x ↔
      ∀ i ∈ ineqIdx P.lp, P.lp.row i x ≤ P.lp.b i := optRowsLe_norows P.lp x
  rw [e1, e2]
  have hsoc : (∀ j < P.lp.nc, LinProg.geLb (x j) (P.lp.lb j)) →
      ((∀ c ∈ (gurobi P vt).qcs, (c.left.map fun j => x j ^ 2).sum ≤ (c.right.map fun j => x j ^ 2).sum) ↔
        ∀ q ∈ P.qmat, socMem x q) := by
    intro hlb
    simp only [gurobi, List.mem_map, forall_exists_index, and_imp, forall_apply_eq_imp_iff₂]
    apply forall_congr'; intro q
    apply imp_congr_right; intro hq
    cases q with
    | nil => simp [socMem]
    | cons h t =>
      obtain ⟨hlt, l, hl, hl0⟩ := hh _ hq h t rfl
      have h0 : 0 ≤ x h := by
        have := hlb h hlt
        rw [hl] at this
        exact le_trans hl0 this
      simp [socMem, h0]
  have hfe : P.Feas E x ↔ (P.lp.Feas x ∧ ∀ q ∈ P.qmat, socMem x q) :=
    ⟨fun h => ⟨h.lin, h.soc⟩, fun h => ⟨h.1, h.2, by simp [hx]⟩⟩
  rw [hfe, linFeas_iff]
  constructor
  · rintro ⟨a, b, c, d, e⟩
    exact ⟨⟨⟨⟨b, a⟩, c⟩, (hsoc (fun j hj => (c j hj).1)).mp e⟩, d⟩
  · rintro ⟨⟨⟨⟨b, a⟩, c⟩, e⟩, d⟩
    exact ⟨a, b, c, d, (hsoc (fun j hj => (c j hj).1)).mpr e⟩

/-- the objective handed to Gurobi is the program's cost vector -/
theorem gurobi_cost (P : ConeProg K) (vt : ℕ → Char) : (gurobi P vt).obj = P.lp.c := rfl

/-! ### Status → `Solution` -/

/-- **`status_honest`**: whenever the solver's status is not a success code (`0` for SciPy, `0` or
`10` for ECOS) the `Solution` carries `objval = nan` and `x = None`; and when it carries a point,
the status was a success code, the point is the solver's and (`def_sol`) the reported value is
`obj @ x`. -/
theorem status_honest (n : ℕ) (c : ℕ → K) (status : ℤ) (resx : ℕ → K) (pcost : K) :
    (status ≠ 0 → (defSolSolution n c status resx).objval = none ∧
        (defSolSolution n c status resx).x = none) ∧
    ((status ≠ 0 ∧ status ≠ 10) → (ecosSolution status pcost resx).objval = none ∧
        (ecosSolution status pcost resx).x = none) ∧
    (∀ y, (defSolSolution n c status resx).x = some y →
        status = 0 ∧ y = resx ∧ (defSolSolution n c status resx).objval = some (dot n c resx)) ∧
    (∀ y, (ecosSolution status pcost resx).x = some y →
        (status = 0 ∨ status = 10) ∧ y = resx ∧ (ecosSolution status pcost resx).objval = some pcost) := by
  refine ⟨fun h => ?_, fun h => ?_, fun y hy => ?_, fun y hy => ?_⟩
  · simp [defSolSolution, h]
  · simp [ecosSolution, h.1, h.2]
  · unfold defSolSolution at hy ⊢
    by_cases h : status = 0
    · simp only [h, if_true, Option.some.injEq] at hy ⊢
      exact ⟨trivial, hy.symm, trivial⟩
    · simp [h] at hy
  · unfold ecosSolution at hy ⊢
    by_cases h : status = 0 ∨ status = 10
    · simp only [h, if_true, Option.some.injEq] at hy ⊢
      exact ⟨trivial, hy.symm, trivial⟩
    · simp [h] at hy

/-- **`status_honest_grb_ort`**: the Gurobi interface gives no solution for the statuses
INFEASIBLE (3), INF_OR_UNBD (4), UNBOUNDED (5) - whether or not Gurobi holds an incumbent (an
unbounded MILP has one) - nor without an incumbent; the OR-Tools interface gives one only for
OPTIMAL (0); and a `Solution` that carries a point carries the solver's point and value. -/
theorem status_honest_grb_ort (status : ℤ) (inc : Bool) (objval : K) (resx : ℕ → K) :
    ((status = 3 ∨ status = 4 ∨ status = 5 ∨ inc = false) →
        (grbSolution status inc objval resx).objval = none ∧ (grbSolution status inc objval resx).x = none) ∧
    (status ≠ 0 → (ortSolution status objval resx).objval = none ∧ (ortSolution status objval resx).x = none) ∧
    (∀ y, (grbSolution status inc objval resx).x = some y →
        status ≠ 3 ∧ status ≠ 4 ∧ status ≠ 5 ∧ inc = true ∧ y = resx ∧
        (grbSolution status inc objval resx).objval = some objval) ∧
    (∀ y, (ortSolution status objval resx).x = some y →
        status = 0 ∧ y = resx ∧ (ortSolution status objval resx).objval = some objval) := by
  refine ⟨fun h => ?_, fun h => ?_, fun y hy => ?_, fun y hy => ?_⟩
  · unfold grbSolution
    by_cases h1 : status = 3 ∨ status = 4 ∨ status = 5
    · simp [h1]
    · have : inc = false := by tauto
      simp [h1, this]
  · simp [ortSolution, h]
  · unfold grbSolution at hy ⊢
    by_cases h1 : status = 3 ∨ status = 4 ∨ status = 5
    · simp [h1] at hy
    · cases hi : inc with
      | false => simp [h1, hi] at hy
      | true =>
        simp only [h1, hi, if_false, if_true, Option.some.injEq] at hy ⊢
        refine ⟨?_, ?_, ?_, trivial, hy.symm, trivial⟩ <;> intro h <;> exact h1 (by simp [h])
  · unfold ortSolution at hy ⊢
    by_cases h : status = 0
    · simp only [h, if_true, Option.some.injEq] at hy ⊢
      exact ⟨trivial, hy.symm, trivial⟩
    · simp [h] at hy

/-- the incumbent of an unbounded MILP (status 5) is not reported -/
example : (grbSolution 5 true (0 : ℚ) (fun _ => 0)).objval = none := by decide

/-! ### The status tests as written in the source (regenerated on every run) -/

/-- **`status_tests_as_modelled`**: the tests extracted from `def_sol`, `eco_solver.solve`, `ort_solver.solve` and
`grb_solver.solve` on this run are exactly the ones the `Solution` models above use: one `res.status == 0`
test in `def_sol`, `exitFlag in [0, 10]` for ECOS, `status == OPTIMAL (= 0)` for OR-Tools, and for Gurobi the
rejection of INFEASIBLE / INF_OR_UNBD / UNBOUNDED (3, 4, 5) together with `SolCount == 0`. A source edit
that changes a test (e.g. `exitFlag >= 0`) changes the generated table and this `decide` fails. -/
theorem status_tests_as_modelled :
    Gen.defSolAccept = [0] ∧ Gen.defSolTests = ["res.status == 0"] ∧
    Gen.ecosAccept = [0, 10] ∧ Gen.ecosTests.length = 1 ∧
    Gen.ortAccept = [0] ∧ Gen.ortTests.length = 1 ∧
    Gen.grbReject = [3, 4, 5] ∧ Gen.grbSolCountZeroRejects = true ∧ Gen.grbTests.length = 1 := by
  decide

/-- the models accept exactly the extracted codes: a `Solution` carries a point iff the status is in the
extracted acceptance list (Gurobi: not in the extracted rejection list and an incumbent exists) -/
theorem status_models_follow_tables (status : ℤ) (inc : Bool) (v : K) (x : ℕ → K) (n : ℕ) (c : ℕ → K) :
    ((defSolSolution n c status x).x.isSome ↔ status ∈ Gen.defSolAccept) ∧
    ((ecosSolution status v x).x.isSome ↔ status ∈ Gen.ecosAccept) ∧
    ((ortSolution status v x).x.isSome ↔ status ∈ Gen.ortAccept) ∧
    ((grbSolution status inc v x).x.isSome ↔ (status ∉ Gen.grbReject ∧ inc = true)) := by
  have h1 : Gen.defSolAccept = [0] := by decide
  have h2 : Gen.ecosAccept = [0, 10] := by decide
  have h3 : Gen.ortAccept = [0] := by decide
  have h4 : Gen.grbReject = [3, 4, 5] := by decide
  rw [h1, h2, h3, h4]
  refine ⟨?_, ?_, ?_, ?_⟩
  · unfold defSolSolution; by_cases h : status = 0 <;> simp [h]
  · unfold ecosSolution; by_cases h : status = 0 ∨ status = 10
    · rcases h with h | h <;> simp [h]
    · have h0 : status ≠ 0 := fun e => h (Or.inl e)
      have h10 : status ≠ 10 := fun e => h (Or.inr e)
      simp [h, h0, h10]
  · unfold ortSolution; by_cases h : status = 0 <;> simp [h]
  · unfold grbSolution
    by_cases h : status = 3 ∨ status = 4 ∨ status = 5
    · have : status ∈ ([3, 4, 5] : List ℤ) := by rcases h with h | h | h <;> simp [h]
      simp [h, this]
    · have hn : status ∉ ([3, 4, 5] : List ℤ) := by
        simp only [List.mem_cons, List.not_mem_nil, or_false]; exact h
      cases inc <;> simp [h, hn]

/-! ### Concrete instances and counter-examples -/

section Examples

/-- `min x₁` s.t. `x₁ + 2 x₂ ≤ 3`, `x₂ + x₃/2 = 4`, `x₀ ≥ 0`, `x₁ ≤ 5`, a cone `[1,2]`, an
exponential cone `[1,2,3]`, `vtype = "CBIC"` -/
def P0 : ConeProg ℚ where
  lp := { nr := 2, nc := 4
          a := fun i j => if i = 0 then (if j = 0 then 1 else if j = 1 then 2 else 0)
                          else (if j = 1 then 1 else if j = 2 then 1/2 else 0)
          b := fun i => if i = 0 then 3 else 4
          eq := fun i => i == 1
          ub := fun j => if j = 1 then some 5 else none
          lb := fun j => if j = 0 then some 0 else none
          c := fun j => if j = 0 then 1 else 0 }
  st := fun i j => if i = 0 then j ≤ 1 else (j == 1 || j == 2)
  qmat := [[1, 2]]
  xmat := [[1, 2, 3]]

def vt0 : ℕ → Char := fun j => "CBIC".toList.getD j 'C'

/-- the binary column 1 (`x₁ ≤ 5`, no lower bound) gets both bound rows `0 ≤ x₁ ≤ 1` and is listed as an
integer variable; no boolean variable is declared -/
example : ((ecos P0 vt0).dimL, (ecos P0 vt0).dimQ, (ecos P0 vt0).dimE) = (4, [2], 1) := by decide
example : ((ecos P0 vt0).boolIdx, (ecos P0 vt0).intIdx, (ecos P0 vt0).mixed) = ([], [1, 2], true) := by
  decide
example : (ecos P0 vt0).G.length = 9 ∧ (ecos P0 vt0).h.length = 9 := by decide
example : (ecos P0 vt0).h.take 4 = [3, -0, -0, 1] := by decide
example : (ortools P0 vt0).solver = "SCIP" ∧ (ortools P0 vt0).rows.length = 2 := by decide
example : (gurobi P0 vt0).qcs.map (fun c => (c.left, c.right)) = [([2], [1])] := by decide

/-- `ecos_equiv` at the concrete program -/
example (E : ℚ → ℚ → ℚ → Prop) (x : ℕ → ℚ) :
    (ecos P0 vt0).Feas E x ↔ (P0.Feas E x ∧ VtOk vt0 4 x) :=
  ecos_equiv P0 vt0 E x ⟨by decide, by decide, by decide⟩

/-- the program on which ECOS_BB went wrong: `n = dvar('I'); y = dvar('B')`,
`max 2n + y` s.t. `n + y ≤ 3`, `n ≥ 0` - an `'I'` column *before* a `'B'` column -/
def PIB : ConeProg ℚ where
  lp := { nr := 1, nc := 2, a := fun _ _ => 1, b := fun _ => 3, eq := fun _ => false
          ub := fun _ => none, lb := fun j => if j = 0 then some 0 else none
          c := fun j => if j = 0 then -2 else -1 }
  st := fun _ _ => true
  qmat := []
  xmat := []

def vtIB : ℕ → Char := fun j => "IB".toList.getD j 'C'

/-- both columns are handed over as integer variables (none as boolean); the binary `y` carries the
bound rows `-y ≤ 0`, `y ≤ 1`: `h = [3 | -0, -0 | 1]`, `dims['l'] = 4` -/
example : ((ecos PIB vtIB).boolIdx, (ecos PIB vtIB).intIdx, (ecos PIB vtIB).mixed) = ([], [0, 1], true) := by
  decide
example : ((ecos PIB vtIB).dimL, (ecos PIB vtIB).h) = (4, [3, -0, -0, 1]) := by decide
example : (ecos PIB vtIB).G.map (fun g => (g 0, g 1)) = [(1, 1), (-1, 0), (0, -1), (0, 1)] := by decide

/-- `ecos_equiv` with the `'I'` column before the `'B'` column -/
example (E : ℚ → ℚ → ℚ → Prop) (x : ℕ → ℚ) :
    (ecos PIB vtIB).Feas E x ↔ (PIB.Feas E x ∧ VtOk vtIB 2 x) :=
  ecos_equiv PIB vtIB E x ⟨by decide, by decide, by decide⟩

/-- the point ECOS_BB used to return (`n = 1`, `y = 2`: value 4, the optimum is 6 at `(3,0)`/`(2,1)`)
does not satisfy the data handed over now -/
example (E : ℚ → ℚ → ℚ → Prop) : ¬ (ecos PIB vtIB).Feas E (fun j => if j = 0 then 1 else 2) := by
  rw [ecos_equiv PIB vtIB E _ ⟨by decide, by decide, by decide⟩]
  rintro ⟨_, hv⟩
  have := (hv 1 (by decide)).1 (by decide)
  rcases this with h | h <;> norm_num at h

/-- a one-column LP `x₀ ≤ 1/2` with the binary `x₀` and user bounds `[-3, 7]` -/
def P1 : ConeProg ℚ where
  lp := { nr := 1, nc := 1, a := fun _ _ => 1, b := fun _ => 1/2, eq := fun _ => false
          ub := fun _ => some 7, lb := fun _ => some (-3), c := fun _ => 1 }
  st := fun _ _ => true
  qmat := []
  xmat := []

/-- `defsol_equiv` at a concrete MILP: the bounds handed to `milp` are `[max(-3,0), min(7,1)]`
(integral bounds: `BoundsNotNearInt` holds) -/
example (E : ℚ → ℚ → ℚ → Prop) (x : ℕ → ℚ) :
    (defSol P1 (fun _ => 'B')).Feas x ↔ (P1.Feas E x ∧ VtOk (fun _ => 'B') 1 x) :=
  defsol_equiv P1 _ E x rfl rfl (fun _ _ => Or.inr (Or.inl rfl))
    (boundsNotNearInt_of_half _ _ _ _
      (fun _ _ _ l hl => ⟨-6, by simp only [P1, Option.some.injEq] at hl; rw [← hl]; norm_num⟩)
      (fun _ _ _ u hu => ⟨14, by simp only [P1, Option.some.injEq] at hu; rw [← hu]; norm_num⟩))

example : (match defSol P1 (fun _ => 'B') with
    | .milp d => (d.lb 0, d.ub 0, d.integrality 0) = (some 0, some 1, true)
    | .linprog _ => False) := by
  simp [defSol, allCont, milpLb, milpUb, lbRound, ubRound, intEps, lbBin, ubBin, P1]
  norm_num [Int.ceil_eq_iff, Int.floor_eq_iff]

/-- a one-column program `-1/2 ≤ x₀ ≤ 3/2` (no rows) -/
def P2 : ConeProg ℚ where
  lp := { nr := 0, nc := 1, a := fun _ _ => 0, b := fun _ => 0, eq := fun _ => false
          ub := fun _ => some (3/2), lb := fun _ => some (-1/2), c := fun _ => -1 }
  st := fun _ _ => false
  qmat := []
  xmat := []

/-- **fractional bounds of an integer column are rounded inward**: with `x₀` integer and
`-1/2 ≤ x₀ ≤ 3/2` the solver receives `lb = ceil(-1/2 - ε) = 0`, `ub = floor(3/2 + ε) = 1` -/
example : (match defSol P2 (fun _ => 'I') with
    | .milp d => (d.lb 0, d.ub 0, d.integrality 0) = (some 0, some 1, true)
    | .linprog _ => False) := by
  simp [defSol, allCont, milpLb, milpUb, lbRound, ubRound, intEps, P2]
  norm_num [Int.ceil_eq_iff, Int.floor_eq_iff]

/-- on a continuous column the same bounds are handed over unchanged (all-continuous: `linprog`) -/
example : (match defSol P2 (fun _ => 'C') with
    | .milp _ => False
    | .linprog d => (d.lb 0, d.ub 0) = (some (-1/2), some (3/2))) := by
  simp [defSol, allCont, P2]

/-- integral and half-integral bounds satisfy `BoundsNotNearInt` (here `-1/2`, `3/2`; `P1`: `-3`, `7`) -/
example : BoundsNotNearInt (fun _ => 'I') P2.lp.nc P2.lp.lb P2.lp.ub :=
  boundsNotNearInt_of_half _ _ _ _
    (fun _ _ _ l hl => ⟨-1, by simp only [P2, Option.some.injEq] at hl; rw [← hl]; norm_num⟩)
    (fun _ _ _ u hu => ⟨3, by simp only [P2, Option.some.injEq] at hu; rw [← hu]; norm_num⟩)

example : BoundsNotNearInt (fun _ => 'B') P1.lp.nc P1.lp.lb P1.lp.ub :=
  boundsNotNearInt_of_half _ _ _ _
    (fun _ _ _ l hl => ⟨-6, by simp only [P1, Option.some.injEq] at hl; rw [← hl]; norm_num⟩)
    (fun _ _ _ u hu => ⟨14, by simp only [P1, Option.some.injEq] at hu; rw [← hu]; norm_num⟩)

/-- hence `defsol_equiv` at the program with the fractional bounds -/
example (E : ℚ → ℚ → ℚ → Prop) (x : ℕ → ℚ) :
    (defSol P2 (fun _ => 'I')).Feas x ↔ (P2.Feas E x ∧ VtOk (fun _ => 'I') 1 x) :=
  defsol_equiv P2 _ E x rfl rfl (fun _ _ => Or.inr (Or.inr rfl))
    (boundsNotNearInt_of_half _ _ _ _
      (fun _ _ _ l hl => ⟨-1, by simp only [P2, Option.some.injEq] at hl; rw [← hl]; norm_num⟩)
      (fun _ _ _ u hu => ⟨3, by simp only [P2, Option.some.injEq] at hu; rw [← hu]; norm_num⟩))

/-- a binary column with the upper bound `-1/10^10` (no rows): infeasible, but within `ε` of `0` -/
def P3 : ConeProg ℚ where
  lp := { nr := 0, nc := 1, a := fun _ _ => 0, b := fun _ => 0, eq := fun _ => false
          ub := fun _ => some (-1 / 10 ^ 10), lb := fun _ => none, c := fun _ => 1 }
  st := fun _ _ => false
  qmat := []
  xmat := []

/-- **the tolerance is really there** (why `defsol_equiv` needs `BoundsNotNearInt` and
`defsol_complete_tol` is stated up to `ε`, also on binary columns): with `x₀` binary and
`x₀ ≤ -1/10^10` the solver receives `ub = floor(min(-1/10^10, 1) + 1/10^9) = 0` and accepts `x₀ = 0`,
which violates the bound of the program. -/
theorem defsol_tol_needed :
    (defSol P3 (fun _ => 'B')).Feas (fun _ => 0) ∧
    ¬ P3.Feas (fun _ _ _ => True) (fun _ => (0 : ℚ)) ∧
    ¬ BoundsNotNearInt (fun _ => 'B') P3.lp.nc P3.lp.lb P3.lp.ub := by
  refine ⟨?_, ?_, ?_⟩
  · rw [defSol_feas_iff]
    refine ⟨fun i hi => by simp [P3] at hi, ?_⟩
    rw [if_neg (by decide)]
    refine ⟨fun j _ => ?_, fun j _ _ => ⟨0, by simp⟩⟩
    simp [milpLb, milpUb, lbRound, ubRound, intEps, lbBin, ubBin, P3, LinProg.geLb, LinProg.leUb]
    norm_num [Int.ceil_le, Int.le_floor]
  · intro h
    have := h.lin.ubs 0 (by simp [P3])
    simp [P3, LinProg.leUb] at this
    exact absurd this (by norm_num)
  · intro h
    have := (h 0 (by simp [P3]) (by decide)).2
    simp only [P3, UbFar, intEps] at this
    exact this 0 (by norm_num)

/-- `ortools_equiv` / `gurobi_equiv` at the same program -/
example (E : ℚ → ℚ → ℚ → Prop) (x : ℕ → ℚ) :
    (ortools P1 (fun _ => 'B')).Feas x ↔ (P1.Feas E x ∧ VtOk (fun _ => 'B') 1 x) :=
  ortools_equiv P1 _ E x rfl rfl (fun _ _ => Or.inr (Or.inl rfl))
    (fun _ _ _ _ h => by simp [P1] at h)

example (E : ℚ → ℚ → ℚ → Prop) (x : ℕ → ℚ) :
    (gurobi P1 (fun _ => 'B')).Feas x ↔ (P1.Feas E x ∧ VtOk (fun _ => 'B') 1 x) :=
  gurobi_equiv P1 _ E x rfl (fun q hq => by simp [P1] at hq)

/-- the infeasible program `0·x₀ ≤ -1` whose only row has no stored entry -/
def Pempty : ConeProg ℚ where
  lp := { nr := 1, nc := 1, a := fun _ _ => 0, b := fun _ => -1, eq := fun _ => false
          ub := fun _ => none, lb := fun _ => none, c := fun _ => 1 }
  st := fun _ _ => false
  qmat := []
  xmat := []

/-- **the empty row is kept** (regression guard for the repaired interface; reachable:
`m.st(0*x[0] <= -1)` through `ro.Model` gives such a row): OR-Tools gets the row `0 ≤ -1`, so no
vector satisfies its data - as none is feasible for the program. -/
theorem ortools_keeps_infeasible_row :
    (ortools Pempty (fun _ => 'C')).rows.length = 1 ∧
    ¬ (ortools Pempty (fun _ => 'C')).Feas (fun _ => 0) ∧
    ¬ Pempty.Feas (fun _ _ _ => True) (fun _ => (0 : ℚ)) := by
  refine ⟨by decide, ?_, ?_⟩
  · intro h
    have hr := h.rows ((ortRow Pempty) 0) (by simp [ortools, ortKept, Pempty])
    have := hr.2
    simp [ortools, ortRow, Pempty, dot] at this
    exact absurd this (by norm_num)
  · intro h
    have := h.lin.rows 0 (by simp [Pempty])
    simp [Pempty, LinProg.row] at this
    exact absurd this (by norm_num)

/-- a cone `x₁² ≤ x₀²` on two free columns -/
def Pfree : ConeProg ℚ where
  lp := { nr := 0, nc := 2, a := fun _ _ => 0, b := fun _ => 0, eq := fun _ => false
          ub := fun _ => none, lb := fun _ => none, c := fun _ => 0 }
  st := fun _ _ => false
  qmat := [[0, 1]]
  xmat := []

/-- **counter-example without `HeadsNonneg`**: with a free head column the quadratic constraint
handed to Gurobi admits `(-1, 0)`, which is not in the second-order cone. -/
theorem gurobi_free_head :
    (gurobi Pfree (fun _ => 'C')).Feas (fun j => if j = 0 then -1 else 0) ∧
    ¬ Pfree.Feas (fun _ _ _ => True) (fun j => if j = 0 then (-1 : ℚ) else 0) := by
  constructor
  · rw [grbFeas_iff]
    refine ⟨by simp [gurobi, Pfree, optRowsEq], by simp [gurobi, Pfree, optRowsLe], ?_, ?_, ?_⟩
    · intro j _; simp [gurobi, Pfree, LinProg.geLb, LinProg.leUb]
    · intro j _; constructor <;> intro h <;> simp [gurobi] at h
    · intro c hc
      simp only [gurobi, Pfree, List.map_cons, List.map_nil, List.mem_singleton] at hc
      subst hc
      norm_num
  · intro h
    have := (h.soc [0, 1] (by simp [Pfree])).1
    norm_num at this

/-- **the interfaces agree only on the alphabet `C/B/I`**: `Model.dvar` accepts any string that
contains one of the three letters (e.g. `'CX'`); on an `'X'` column `def_sol` (and OR-Tools)
demand integrality, ECOS does not. -/
theorem defsol_other_letter :
    ¬ (defSol P1 (fun _ => 'X')).Feas (fun _ => (1/2 : ℚ)) ∧
    (ecos P1 (fun _ => 'X')).Feas (fun _ _ _ => True) (fun _ => (1/2 : ℚ)) := by
  constructor
  · intro h
    obtain ⟨z, hz⟩ := defSol_feas_int P1 _ _ (by decide) h 0 (by simp [P1]) (by decide)
    have h2 : (2 : ℚ) * z = 1 := by rw [← hz]; norm_num
    have h3 : (2 * z : ℤ) = 1 := by exact_mod_cast h2
    omega
  · rw [ecos_equiv P1 _ _ _ ⟨by simp [P1], by simp [P1], by simp [P1]⟩]
    refine ⟨⟨⟨?_, ?_, ?_⟩, by simp [P1], by simp [P1]⟩, ?_⟩
    · intro i hi
      have : i = 0 := by simp [P1] at hi; omega
      subst this
      simp [P1, LinProg.row]
    · intro j _; simp [P1, LinProg.leUb]; norm_num
    · intro j _; simp [P1, LinProg.geLb]; norm_num
    · intro j _; constructor <;> intro h <;> simp at h

/-- `status_honest` on concrete data: SciPy status 2 (infeasible) → `nan`, `None` -/
example : (defSolSolution 2 (fun _ => (1 : ℚ)) 2 (fun _ => 5)).objval = none ∧
    (defSolSolution 2 (fun _ => (1 : ℚ)) 2 (fun _ => 5)).x = none :=
  (status_honest 2 (fun _ => (1 : ℚ)) 2 (fun _ => 5) 0).1 (by decide)

example : (defSolSolution 2 (fun _ => (1 : ℚ)) 0 (fun _ => 5)).objval = some 10 := by
  simp [defSolSolution, dot, Finset.sum_range_succ]; norm_num

end Examples

end RsomeV.C11
