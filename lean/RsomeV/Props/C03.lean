import RsomeV.M.Dro
import RsomeV.L.DroSound
import RsomeV.L.ExpConeScale
import Mathlib.Tactic.Linarith
import Mathlib.Tactic.Ring
import Mathlib.Tactic.NormNum

/-! C03 — soundness of the event-wise DRO reformulation (`dro.Model.dro_to_roc`, rsome/dro.py).

For a constraint `sup_{P ∈ F} E_P[f(x, z̃)] ≤ 0` over an event-wise ambiguity set `F`
(scenario probabilities `p ∈ 𝒫`, supports `Z_s`, conditional-mean sets `E[z̃ | s̃ ∈ E_k] ∈ 𝒬_k`)
the code introduces multipliers `α_s`, `β_k` and emits

* (H1, *first-stage row*)  `Σ_s α_s p_s + Σ_k β_k·μ_k ≤ 0` for all `(p, μ)` in the **lifted support**
  `Ambiguity.mix_support` — compiled with `le_to_rc` over the conic dual of that support;
* (H2, *scenario rows*)    `f(x, z) ≤ α_s + Σ_{k : s ∈ E_k} β_k·z` for all `z ∈ Z_s` — compiled with
  `forall(sup_constr[s])` (covered by C01).

Contents:
1. `mixSupport_lift`     every admissible `(p, conditional means)` is a point of the model
                         `Dro.mixSupport` of `mix_support` (order-faithful, differential-tested);
2. `dro_sound`           (H1) ∧ (H2) ⇒ `Σ_s p_s·E_s[f_s] ≤ 0`, for abstract conditional expectation
                         operators (`CondExp`; finitely supported distributions are an instance);
3. `dro_sound_compiled`  feasibility of the compiled first-stage row ⇒ (H1) at every admissible
                         `(p, μ)`; `dro_sound_end_to_end` chains 1–3.

Faithfulness notes on `mix_support` (see `RsomeV/M/Dro.lean`): exponential cones of the
probability program *and of every expectation program* are forwarded; they are not re-indexed but
re-created on three fresh auxiliary columns with copy rows (first those of the probability
program, then those of expectation program 0, 1, …).  The cones of expectation program `k` act on
the perspective variables `μ_k = t_k·ν_k`; `mixSupport_lift` therefore takes *full* feasibility of
`ν_k` for the expectation program (exponential cones included) and needs that the abstract cone
predicate `E` is closed under scaling by `t ≥ 0` (`hEsc`; true of the real closed exponential cone,
`L/ExpConeScale.lean`, `t = 0` included). -/

set_option linter.unusedSectionVars false
set_option linter.unusedSimpArgs false
set_option linter.unusedVariables false

namespace RsomeV.C03
open Finset RsomeV ConeProg RoRows Dro

variable {K : Type} [Field K] [LinearOrder K] [IsStrictOrderedRing K]

/-! ### 1. Lifting -/

/-- **Every admissible (probabilities, conditional means) pair is a point of the lifted support.**

`pro` is the probability program (`pro_model.do_math(obj=False)`), `exps` the list of
(expectation program, scenario indices of the event).  If `π` is feasible for `pro` and, for every
event `k`, `ν k` is feasible for the `k`-th expectation program (*all* of it: rows, second-order
cones and exponential cones), and the event probabilities `t_k = Σ_{s ∈ E_k} π_s` are
non-negative, then
`liftPoint pro exps π ν = [ π | t_1·ν_1 | t_2·ν_2 | … | copies of the cone arguments: π[e[t]] for
the exp cones of pro, t_k·ν_k[e[t]] for the exp cones of expectation program k ]`
is feasible for `mixSupport pro exps`.

`hEsc`: the cone predicate `E` is closed under scaling by `t ≥ 0` (the forwarded cones of block `k`
hold at `t_k·ν_k`); for the real exponential cone this is `realExpCone_scaleClosed`.

Well-formedness hypotheses (true of every program `do_math` emits, re-checked on the generated
cases): cone index lists in range (`hqp`, `hxl`, `hxp`, `hqe`, `hxle`, `hxe`) and event indices are
columns of `pro` (`hidx`).  The bounds `ub/lb` of the sub-programs are ignored by the code, hence by the
model; the theorem therefore needs nothing about them (`Feas` of the inputs includes them, which
only makes the hypothesis stronger). -/
theorem mixSupport_lift (pro : ConeProg K) (exps : List (ConeProg K × List ℕ))
    (E : K → K → K → Prop) (π : ℕ → K) (ν : ℕ → ℕ → K)
    (hEsc : ∀ t a b c : K, 0 ≤ t → E a b c → E (t * a) (t * b) (t * c))
    (hqp : ∀ q ∈ pro.qmat, ∀ j ∈ q, j < pro.lp.nc)
    (hxl : ∀ e ∈ pro.xmat, e.length = 3) (hxp : ∀ e ∈ pro.xmat, ∀ j ∈ e, j < pro.lp.nc)
    (hqe : ∀ k < exps.length, ∀ q ∈ (blk exps k).qmat, ∀ j ∈ q, j < (blk exps k).lp.nc)
    (hxle : ∀ k < exps.length, ∀ e ∈ (blk exps k).xmat, e.length = 3)
    (hxe : ∀ k < exps.length, ∀ e ∈ (blk exps k).xmat, ∀ j ∈ e, j < (blk exps k).lp.nc)
    (hidx : ∀ k < exps.length, ∀ s ∈ idx exps k, s < pro.lp.nc)
    (hπ : pro.Feas E π)
    (hν : ∀ k < exps.length, (blk exps k).Feas E (ν k))
    (ht : ∀ k < exps.length, 0 ≤ evProb exps k π) :
    (mixSupport pro exps).Feas E (liftPoint pro exps π ν) :=
  lift_feas pro exps π ν E hEsc hqp hxl hxp hqe hxle hxe hidx hπ hν ht

/-- the coordinates of the lifted point: probabilities … -/
theorem liftPoint_prob (pro : ConeProg K) (exps : List (ConeProg K × List ℕ)) (π : ℕ → K)
    (ν : ℕ → ℕ → K) (s : ℕ) (hs : s < pro.lp.nc) : liftPoint pro exps π ν s = π s :=
  liftPoint_pro pro exps π ν s hs

/-- … and scaled means `μ_k = t_k·ν_k` at the columns of block `k` -/
theorem liftPoint_mean (pro : ConeProg K) (exps : List (ConeProg K × List ℕ)) (π : ℕ → K)
    (ν : ℕ → ℕ → K) (k : ℕ) (hk : k < exps.length) (j : ℕ) (hj : j < (blk exps k).lp.nc) :
    liftPoint pro exps π ν (colOff pro exps k + j) = evProb exps k π * ν k j :=
  liftPoint_blk pro exps π ν k hk j hj

/-! ### 2. The abstract soundness argument -/

/-- **Soundness of the event-wise reformulation** (no measure theory; any ordered field).

`S` scenarios with supports `Z s`, integrands `f s`, `nE` events `Ev k` (sets of scenarios), `nz`
random components.  `Es s` is a conditional expectation operator on `Z s` (`CondExp`: additive,
homogeneous, monotone on `Z s`, normalised) — integration of `g(z̃)` given scenario `s`.
* (H2) scenario rows: on `Z s`, `f s z ≤ α s + Σ_{k : Ev k s} Σ_j β k j · z j`;
* (H1) first-stage row at the probabilities `p ≥ 0` and the scaled means
  `μ k j = Σ_{s : Ev k s} p s · E_s[z_j]`:  `Σ_s α s · p s + Σ_k Σ_j β k j · μ k j ≤ 0`.
Then the expected integrand `Σ_s p s · E_s[f s]` is non-positive.  (For an `E(...) <= 0` constraint
`f s` is the constraint function under the scenario's recourse; for the objective the epigraph
variable is folded into `f`.) -/
theorem dro_sound (S nE nz : ℕ) (Z : ℕ → (ℕ → K) → Prop) (Es : ℕ → ((ℕ → K) → K) → K)
    (hEs : ∀ s < S, CondExp (Z s) (Es s))
    (f : ℕ → (ℕ → K) → K) (α : ℕ → K) (β : ℕ → ℕ → K)
    (Ev : ℕ → ℕ → Prop) [∀ k s, Decidable (Ev k s)]
    (p : ℕ → K) (hp : ∀ s < S, 0 ≤ p s)
    (H2 : ∀ s < S, ∀ z, Z s z →
      f s z ≤ α s + ∑ k ∈ range nE, if Ev k s then ∑ j ∈ range nz, β k j * z j else 0)
    (H1 : ∑ s ∈ range S, α s * p s
        + ∑ k ∈ range nE, ∑ j ∈ range nz,
            β k j * (∑ s ∈ range S, if Ev k s then p s * Es s (fun z => z j) else 0) ≤ 0) :
    ∑ s ∈ range S, p s * Es s (f s) ≤ 0 :=
  dro_sound_core S nE nz Z Es hEs f α β Ev p hp H2 H1

/-- **Non-vacuity of `CondExp`**: a finitely supported distribution on `Z` (atoms `pt i ∈ Z`,
weights `w i ≥ 0` summing to one) is a conditional expectation operator. -/
theorem finExp_isCondExp (Z : (ℕ → K) → Prop) (n : ℕ) (w : ℕ → K) (pt : ℕ → ℕ → K)
    (hw : ∀ i < n, 0 ≤ w i) (hsum : ∑ i ∈ range n, w i = 1) (hZ : ∀ i < n, Z (pt i)) :
    CondExp Z (finExp n w pt) :=
  finExp_condExp Z n w pt hw hsum hZ

/-! ### 3. The compiled first-stage row -/

/-- **(H1) from the compiled rows.**  Let `Pz = mixSupport pro exps`.  The first-stage row of
`dro_to_roc` is `droRow pro exps S nz nd acol bcol` (one uncertain row over the `colEnd` columns of
the mixed support: the decision column `acol s` multiplies `p_s`, `s < S`; the decision column
`bcol k j` multiplies column `j < nz` of block `k`).  If `v` (decisions and multipliers) is
feasible for the `le_to_rc` fragment of that row over `Pz.coneDual`, then at every admissible
`(π, ν)` (as in `mixSupport_lift`)
`Σ_s v(acol s)·π_s + Σ_k Σ_j v(bcol k j)·(t_k·ν_{k,j}) ≤ 0`, i.e. (H1) with `α_s = v (acol s)`,
`β_{k,j} = v (bcol k j)`, `p = π`, `μ_k = t_k ν_k`.

Hypotheses of `rc_sound` made explicit:
* well-formedness of the inputs (`hst`, `hqp`, `hxl`, `hxp`, `hqe`, `hxle`, `hxe`, `hidx`) — they
  give `Pz.WF` and the lifting;
* `hE` the pairing property of the exponential cone (holds for the real cone, `L/ExpCone.lean`),
  `hEsc` its closure under scaling by `t ≥ 0` (`L/ExpConeScale.lean`);
* `hlay : Pz.rowsRemoved = false` — the conic dual of the mixed support does not take the compact
  second-order-cone layout.  `C01.rc_sound` asks that cone columns lie behind all
  coefficient-carrying columns, which is false for mixed supports (the cones of the probability
  block precede the expectation blocks); `rc_sound_gen` needs that only in the compact layout.
  In the compact layout `le_to_rc` would pair multipliers with the wrong dual rows; the layout
  is never compact for mixed supports built through the public API (norm atoms put their head
  column in two rows) — the differential test reports `rows_removed = 0` on all cases;
* the shape of the row: `hS`, `hnz`, `hacol`, `hbcol`. -/
theorem dro_sound_compiled (pro : ConeProg K) (exps : List (ConeProg K × List ℕ))
    (E : K → K → K → Prop) (hE : ExpPair E)
    (hEsc : ∀ t a b c : K, 0 ≤ t → E a b c → E (t * a) (t * b) (t * c))
    (hst : ∀ i j, pro.lp.a i j ≠ 0 → pro.st i j = true)
    (hqp : ∀ q ∈ pro.qmat, ∀ j ∈ q, j < pro.lp.nc)
    (hxl : ∀ e ∈ pro.xmat, e.length = 3) (hxp : ∀ e ∈ pro.xmat, ∀ j ∈ e, j < pro.lp.nc)
    (hqe : ∀ k < exps.length, ∀ q ∈ (blk exps k).qmat, ∀ j ∈ q, j < (blk exps k).lp.nc)
    (hxle : ∀ k < exps.length, ∀ e ∈ (blk exps k).xmat, e.length = 3)
    (hxe : ∀ k < exps.length, ∀ e ∈ (blk exps k).xmat, ∀ j ∈ e, j < (blk exps k).lp.nc)
    (hidx : ∀ k < exps.length, ∀ s ∈ idx exps k, s < pro.lp.nc)
    (hlay : (mixSupport pro exps).rowsRemoved = false)
    (S nz nd : ℕ) (acol : ℕ → ℕ) (bcol : ℕ → ℕ → ℕ)
    (hS : S ≤ pro.lp.nc) (hnz : ∀ k < exps.length, nz ≤ (blk exps k).lp.nc)
    (hacol : ∀ s < S, acol s < nd) (hbcol : ∀ k < exps.length, ∀ j < nz, bcol k j < nd)
    (v : ℕ → K)
    (hv : ((droRow pro exps S nz nd acol bcol).leToRc (mixSupport pro exps).coneDual).prog.Feas E v)
    (π : ℕ → K) (ν : ℕ → ℕ → K) (hπ : pro.Feas E π)
    (hν : ∀ k < exps.length, (blk exps k).Feas E (ν k))
    (ht : ∀ k < exps.length, 0 ≤ evProb exps k π) :
    ∑ s ∈ range S, v (acol s) * π s
      + ∑ k ∈ range exps.length, ∑ j ∈ range nz, v (bcol k j) * (evProb exps k π * ν k j) ≤ 0 := by
  have hwf := mix_wf pro exps hst hqp hqe
  have hζ := mixSupport_lift pro exps E π ν hEsc hqp hxl hxp hqe hxle hxe hidx hπ hν ht
  have hrc := rc_sound_gen (mixSupport pro exps) E hE hwf (fun _ => rfl)
    (droRow pro exps S nz nd acol bcol)
    (by show colEnd pro exps ≤ colEnd pro exps + 3 * (xsrc pro exps).length; omega)
    (by intro h; rw [hlay] at h; cases h)
    (fun _ => mix_xq_disjoint pro exps hqp hqe) v hv 0 (by show 0 < 1; omega)
    (liftPoint pro exps π ν) hζ
  rw [droRow_eval pro exps S nz nd acol bcol hS hnz hacol hbcol] at hrc
  have e1 : ∑ s ∈ range S, v (acol s) * liftPoint pro exps π ν s
      = ∑ s ∈ range S, v (acol s) * π s := by
    apply Finset.sum_congr rfl; intro s hs
    rw [liftPoint_pro pro exps π ν s (lt_of_lt_of_le (Finset.mem_range.mp hs) hS)]
  have e2 : ∑ k ∈ range exps.length, ∑ j ∈ range nz,
        v (bcol k j) * liftPoint pro exps π ν (colOff pro exps k + j)
      = ∑ k ∈ range exps.length, ∑ j ∈ range nz, v (bcol k j) * (evProb exps k π * ν k j) := by
    apply Finset.sum_congr rfl; intro k hk
    apply Finset.sum_congr rfl; intro j hj
    have hk' := Finset.mem_range.mp hk
    rw [liftPoint_blk pro exps π ν k hk' j (lt_of_lt_of_le (Finset.mem_range.mp hj) (hnz k hk'))]
  rw [e1, e2] at hrc
  exact hrc

/-- **End to end**: the compiled first-stage row (feasible at `v`), the scenario rows (H2) with
the multipliers read off `v`, and an admissible distribution — scenario probabilities `π` feasible
for the probability program, conditional expectation operators `Es s` on the supports, and for
every event `k` a point `ν k` of the `k`-th expectation program (exponential cones included) whose first `nz` coordinates are
the conditional mean given the event (`hμ`: `t_k·ν_{k,j} = Σ_{s ∈ E_k} π_s·E_s[z_j]`) — give
`Σ_s π_s·E_s[f_s] ≤ 0`.  Events are `Ev k s := s ∈ idx exps k`. -/
theorem dro_sound_end_to_end (pro : ConeProg K) (exps : List (ConeProg K × List ℕ))
    (E : K → K → K → Prop) (hE : ExpPair E)
    (hEsc : ∀ t a b c : K, 0 ≤ t → E a b c → E (t * a) (t * b) (t * c))
    (hst : ∀ i j, pro.lp.a i j ≠ 0 → pro.st i j = true)
    (hqp : ∀ q ∈ pro.qmat, ∀ j ∈ q, j < pro.lp.nc)
    (hxl : ∀ e ∈ pro.xmat, e.length = 3) (hxp : ∀ e ∈ pro.xmat, ∀ j ∈ e, j < pro.lp.nc)
    (hqe : ∀ k < exps.length, ∀ q ∈ (blk exps k).qmat, ∀ j ∈ q, j < (blk exps k).lp.nc)
    (hxle : ∀ k < exps.length, ∀ e ∈ (blk exps k).xmat, e.length = 3)
    (hxe : ∀ k < exps.length, ∀ e ∈ (blk exps k).xmat, ∀ j ∈ e, j < (blk exps k).lp.nc)
    (hidx : ∀ k < exps.length, ∀ s ∈ idx exps k, s < pro.lp.nc)
    (hlay : (mixSupport pro exps).rowsRemoved = false)
    (S nz nd : ℕ) (acol : ℕ → ℕ) (bcol : ℕ → ℕ → ℕ)
    (hS : S ≤ pro.lp.nc) (hnz : ∀ k < exps.length, nz ≤ (blk exps k).lp.nc)
    (hacol : ∀ s < S, acol s < nd) (hbcol : ∀ k < exps.length, ∀ j < nz, bcol k j < nd)
    (v : ℕ → K)
    (hv : ((droRow pro exps S nz nd acol bcol).leToRc (mixSupport pro exps).coneDual).prog.Feas E v)
    -- the distribution
    (π : ℕ → K) (hπ : pro.Feas E π) (hπ0 : ∀ s < S, 0 ≤ π s)
    (Z : ℕ → (ℕ → K) → Prop) (Es : ℕ → ((ℕ → K) → K) → K)
    (hEs : ∀ s < S, CondExp (Z s) (Es s))
    (ν : ℕ → ℕ → K) (hν : ∀ k < exps.length, (blk exps k).Feas E (ν k))
    (ht : ∀ k < exps.length, 0 ≤ evProb exps k π)
    (hμ : ∀ k < exps.length, ∀ j < nz, evProb exps k π * ν k j
        = ∑ s ∈ range S, if s ∈ idx exps k then π s * Es s (fun z => z j) else 0)
    -- the scenario rows
    (f : ℕ → (ℕ → K) → K)
    (H2 : ∀ s < S, ∀ z, Z s z →
      f s z ≤ v (acol s) + ∑ k ∈ range exps.length,
        if s ∈ idx exps k then ∑ j ∈ range nz, v (bcol k j) * z j else 0) :
    ∑ s ∈ range S, π s * Es s (f s) ≤ 0 := by
  have h1 := dro_sound_compiled pro exps E hE hEsc hst hqp hxl hxp hqe hxle hxe hidx hlay S nz nd
    acol bcol
    hS hnz hacol hbcol v hv π ν hπ hν ht
  apply dro_sound S exps.length nz Z Es hEs f (fun s => v (acol s)) (fun k j => v (bcol k j))
    (fun k s => s ∈ idx exps k) π hπ0 H2
  have e : ∑ k ∈ range exps.length, ∑ j ∈ range nz, v (bcol k j) * (evProb exps k π * ν k j)
      = ∑ k ∈ range exps.length, ∑ j ∈ range nz, v (bcol k j) *
          (∑ s ∈ range S, if s ∈ idx exps k then π s * Es s (fun z => z j) else 0) := by
    apply Finset.sum_congr rfl; intro k hk
    apply Finset.sum_congr rfl; intro j hj
    rw [hμ k (Finset.mem_range.mp hk) j (Finset.mem_range.mp hj)]
  rw [e] at h1
  exact h1


/-! ### Examples -/

/-! #### `mixSupport_lift`: two scenarios, a norm-ball expectation set on the whole sample space
and a lower bound on the event `{1}` -/

/-- probability program of `p ≥ 0, p_0 + p_1 = 1` (rows `-p_0 ≤ 0`, `-p_1 ≤ 0`, `p_0 + p_1 = 1`) -/
def exPro2 : ConeProg ℚ :=
  { lp := { nr := 3, nc := 2
            a := fun i j => if i = 2 then 1 else if i = j then -1 else 0
            b := fun i => if i = 2 then 1 else 0
            eq := fun i => decide (i = 2)
            ub := fun _ => none, lb := fun _ => none, c := fun _ => 1 }
    st := fun i j => decide (i = 2 ∨ i = j), qmat := [], xmat := [] }

/-- expectation program of `norm(E(z), 2) <= 1` for one random component: columns
`[z, left, right]`, rows `z - left = 0`, `right ≤ 1`, `-right ≤ 0`, cone `[right, left]` -/
def exBall : ConeProg ℚ :=
  { lp := { nr := 3, nc := 3
            a := fun i j => if i = 0 then (if j = 0 then 1 else if j = 1 then -1 else 0)
                            else if i = 1 then (if j = 2 then 1 else 0)
                            else (if j = 2 then -1 else 0)
            b := fun i => if i = 1 then 1 else 0
            eq := fun i => decide (i = 0)
            ub := fun _ => none, lb := fun _ => none, c := fun _ => 1 }
    st := fun _ _ => true, qmat := [[2, 1]], xmat := [] }

/-- expectation program of `E(z) >= 1/2`: one column, row `-z ≤ -1/2` -/
def exLow : ConeProg ℚ :=
  { lp := { nr := 1, nc := 1, a := fun _ _ => -1, b := fun _ => -1/2, eq := fun _ => false
            ub := fun _ => none, lb := fun _ => none, c := fun _ => 1 }
    st := fun _ _ => true, qmat := [], xmat := [] }

def exExps2 : List (ConeProg ℚ × List ℕ) := [(exBall, [0, 1]), (exLow, [1])]

/-- `π = (1/4, 3/4)`; conditional means `ν_0 = (1/2; lifting 1/2, 1)`, `ν_1 = (2/3)` -/
def exPi : ℕ → ℚ := fun s => if s = 0 then 1/4 else 3/4
def exNu : ℕ → ℕ → ℚ := fun k j => if k = 0 then (if j = 2 then 1 else 1/2) else 2/3

/-- shape of the mixed support: `2 + 3 + 1` columns, `3 + 3 + 1` rows, the cone of block 0 shifted
by the block offset `2` -/
example : (mixSupport exPro2 exExps2).lp.nc = 6 ∧ (mixSupport exPro2 exExps2).lp.nr = 7 ∧
    (mixSupport exPro2 exExps2).qmat = [[4, 3]] ∧ (mixSupport exPro2 exExps2).xmat = [] := by
  decide

/-- the lifted point `[1/4, 3/4 | 1·(1/2, 1/2, 1) | 3/4·(2/3)]` is feasible for the mixed support -/
example : (mixSupport exPro2 exExps2).Feas (fun _ _ _ => False) (liftPoint exPro2 exExps2 exPi exNu) := by
  apply mixSupport_lift
  · intro _ _ _ _ _ h; exact h
  · intro q hq; simp [exPro2] at hq
  · intro e he; simp [exPro2] at he
  · intro e he; simp [exPro2] at he
  · intro k hk q hq j hj
    have : k = 0 ∨ k = 1 := by simp [exExps2] at hk; omega
    rcases this with rfl | rfl
    · have : q = [2, 1] := by simpa [blk, exExps2, exBall] using hq
      subst this
      have : j = 2 ∨ j = 1 := by simpa using hj
      show j < 3
      omega
    · simp [blk, exExps2, exLow] at hq
  · intro k hk e he
    have : k = 0 ∨ k = 1 := by simp [exExps2] at hk; omega
    rcases this with rfl | rfl
    · simp [blk, exExps2, exBall] at he
    · simp [blk, exExps2, exLow] at he
  · intro k hk e he
    have : k = 0 ∨ k = 1 := by simp [exExps2] at hk; omega
    rcases this with rfl | rfl
    · simp [blk, exExps2, exBall] at he
    · simp [blk, exExps2, exLow] at he
  · intro k hk s hs
    have : k = 0 ∨ k = 1 := by simp [exExps2] at hk; omega
    show s < 2
    rcases this with rfl | rfl
    · have : s = 0 ∨ s = 1 := by simpa [idx, exExps2] using hs
      omega
    · have : s = 1 := by simpa [idx, exExps2] using hs
      omega
  · refine ⟨⟨?_, fun _ _ => trivial, fun _ _ => trivial⟩, ?_, ?_⟩
    · intro i hi
      have hi' : i < 3 := hi
      have : i = 0 ∨ i = 1 ∨ i = 2 := by omega
      rcases this with rfl | rfl | rfl <;>
        norm_num [LinProg.row, exPro2, exPi, Finset.sum_range_succ]
    · intro q hq; simp [exPro2] at hq
    · intro e he; simp [exPro2] at he
  · intro k hk
    have : k = 0 ∨ k = 1 := by simp [exExps2] at hk; omega
    rcases this with rfl | rfl
    · refine ⟨⟨?_, fun _ _ => trivial, fun _ _ => trivial⟩, ?_, ?_⟩
      · intro i hi
        have hi' : i < 3 := hi
        have : i = 0 ∨ i = 1 ∨ i = 2 := by omega
        rcases this with rfl | rfl | rfl <;>
          norm_num [LinProg.row, blk, exExps2, exBall, exNu, Finset.sum_range_succ]
      · intro q hq
        have : q = [2, 1] := by simpa [blk, exExps2, exBall] using hq
        subst this
        norm_num [socMem, exNu]
      · intro e he; simp [blk, exExps2, exBall] at he
    · refine ⟨⟨?_, fun _ _ => trivial, fun _ _ => trivial⟩, ?_, ?_⟩
      · intro i hi
        have hi' : i < 1 := hi
        have : i = 0 := by omega
        subst this
        norm_num [LinProg.row, blk, exExps2, exLow, exNu, Finset.sum_range_succ]
      · intro q hq; simp [blk, exExps2, exLow] at hq
      · intro e he; simp [blk, exExps2, exLow] at he
  · intro k hk
    have : k = 0 ∨ k = 1 := by simp [exExps2] at hk; omega
    rcases this with rfl | rfl <;> norm_num [evProb, idx, exExps2, exPi]


/-! #### `mixSupport_lift` with a forwarded exponential cone: two scenarios, `exp(E(z)) <= 2` on the
event `{1}`, over `ℝ` with the real closed exponential cone -/

/-- probability program of `p ≥ 0, p_0 + p_1 = 1` over any field (as `exPro2`) -/
def exProG (F : Type) [Field F] : ConeProg F :=
  { lp := { nr := 3, nc := 2
            a := fun i j => if i = 2 then 1 else if i = j then -1 else 0
            b := fun i => if i = 2 then 1 else 0
            eq := fun i => decide (i = 2)
            ub := fun _ => none, lb := fun _ => none, c := fun _ => 1 }
    st := fun i j => decide (i = 2 ∨ i = j), qmat := [], xmat := [] }

/-- expectation program of `rso.exp(E(z)) <= 2` for one random component, as
`exp_model.do_math(obj=False)` emits it: columns `[z, a0, a1, a2]`, rows `a0 - z = 0`, `a1 ≤ 2`,
`a2 = 1`, exponential cone `[a0, a1, a2]` (`a2·exp(a0/a2) ≤ a1`) -/
def exExpoG (F : Type) [Field F] : ConeProg F :=
  { lp := { nr := 3, nc := 4
            a := fun i j => if i = 0 then (if j = 0 then -1 else if j = 1 then 1 else 0)
                            else if i = 1 then (if j = 2 then 1 else 0)
                            else (if j = 3 then 1 else 0)
            b := fun i => if i = 0 then 0 else if i = 1 then 2 else 1
            eq := fun i => decide (i ≠ 1)
            ub := fun _ => none, lb := fun _ => none, c := fun _ => 1 }
    st := fun _ _ => true, qmat := [], xmat := [[1, 2, 3]] }

def exExpsX (F : Type) [Field F] : List (ConeProg F × List ℕ) := [(exExpoG F, [1])]

/-- shape of the mixed support (as `mix_support(primal=True)` returns it for
`fset.iloc[[1]].exptset(rso.exp(E(z)) <= 2)`, `S = 2`): `2 + 4` columns and `3 + 3` rows, then three
auxiliary columns `6 7 8` and three copy rows for the forwarded cone, whose source columns are
`[1, 2, 3]` shifted by the block offset `2`; senses of the copy rows `== <= ==` -/
example : (mixSupport (exProG ℚ) (exExpsX ℚ)).lp.nc = 9 ∧ (mixSupport (exProG ℚ) (exExpsX ℚ)).lp.nr = 9 ∧
    (mixSupport (exProG ℚ) (exExpsX ℚ)).qmat = [] ∧
    (mixSupport (exProG ℚ) (exExpsX ℚ)).xmat = [[6, 7, 8]] ∧
    xsrc (exProG ℚ) (exExpsX ℚ) = [[3, 4, 5]] ∧
    ((List.range 9).map (mixSupport (exProG ℚ) (exExpsX ℚ)).lp.eq)
      = [false, false, true, true, false, true, true, false, true] := by
  decide

/-- `π = (1/4, 3/4)`; `ν_0 = (z, a0, a1, a2) = (0, 0, 1, 1)`: `1·exp(0/1) = 1 ≤ 1 ≤ 2` -/
noncomputable def exPiR : ℕ → ℝ := fun s => if s = 0 then 1/4 else 3/4
noncomputable def exNuR : ℕ → ℕ → ℝ := fun _ j => if j < 2 then 0 else 1

/-- `ν_0` is feasible for the expectation program, exponential cone included -/
lemma exNuR_feas : ∀ k < (exExpsX ℝ).length, (blk (exExpsX ℝ) k).Feas realExpCone (exNuR k) := by
  intro k hk
  have : k = 0 := by simp [exExpsX] at hk; omega
  subst this
  refine ⟨⟨?_, fun _ _ => trivial, fun _ _ => trivial⟩, ?_, ?_⟩
  · intro i hi
    have hi' : i < 3 := hi
    have : i = 0 ∨ i = 1 ∨ i = 2 := by omega
    rcases this with rfl | rfl | rfl <;>
      norm_num [LinProg.row, blk, exExpsX, exExpoG, exNuR, Finset.sum_range_succ]
  · intro q hq; simp [blk, exExpsX, exExpoG] at hq
  · intro e he
    have : e = [1, 2, 3] := by simpa [blk, exExpsX, exExpoG] using he
    subst this
    left
    norm_num [exNuR]

/-- the lifted point `[1/4, 3/4 | 3/4·(0, 0, 1, 1) | 0, 3/4, 3/4]` is feasible for the mixed
support over `ℝ`, the forwarded exponential cone included (scaling closure of the real cone:
`realExpCone_scaleClosed`) -/
theorem exLiftR_feas : (mixSupport (exProG ℝ) (exExpsX ℝ)).Feas realExpCone
    (liftPoint (exProG ℝ) (exExpsX ℝ) exPiR exNuR) := by
  apply mixSupport_lift _ _ _ _ _ realExpCone_scaleClosed
  · intro q hq; simp [exProG] at hq
  · intro e he; simp [exProG] at he
  · intro e he; simp [exProG] at he
  · intro k hk q hq
    have : k = 0 := by simp [exExpsX] at hk; omega
    subst this
    simp [blk, exExpsX, exExpoG] at hq
  · intro k hk e he
    have : k = 0 := by simp [exExpsX] at hk; omega
    subst this
    have : e = [1, 2, 3] := by simpa [blk, exExpsX, exExpoG] using he
    subst this; rfl
  · intro k hk e he j hj
    have : k = 0 := by simp [exExpsX] at hk; omega
    subst this
    have : e = [1, 2, 3] := by simpa [blk, exExpsX, exExpoG] using he
    subst this
    have : j = 1 ∨ j = 2 ∨ j = 3 := by simpa using hj
    show j < 4
    omega
  · intro k hk s hs
    have : k = 0 := by simp [exExpsX] at hk; omega
    subst this
    have : s = 1 := by simpa [idx, exExpsX] using hs
    show s < 2
    omega
  · refine ⟨⟨?_, fun _ _ => trivial, fun _ _ => trivial⟩, ?_, ?_⟩
    · intro i hi
      have hi' : i < 3 := hi
      have : i = 0 ∨ i = 1 ∨ i = 2 := by omega
      rcases this with rfl | rfl | rfl <;>
        norm_num [LinProg.row, exProG, exPiR, Finset.sum_range_succ]
    · intro q hq; simp [exProG] at hq
    · intro e he; simp [exProG] at he
  · exact exNuR_feas
  · intro k hk
    have : k = 0 := by simp [exExpsX] at hk; omega
    subst this
    norm_num [evProb, idx, exExpsX, exPiR]

/-- what the forwarded cone says at the lifted point: the auxiliary columns `6 7 8` carry
`t·(a0, a1, a2) = (0, 3/4, 3/4)`, a point of the real exponential cone -/
example : realExpCone (liftPoint (exProG ℝ) (exExpsX ℝ) exPiR exNuR 6)
    (liftPoint (exProG ℝ) (exExpsX ℝ) exPiR exNuR 7)
    (liftPoint (exProG ℝ) (exExpsX ℝ) exPiR exNuR 8) :=
  exLiftR_feas.exp [6, 7, 8] (by decide)

/-- … and with a point violating the cone (`a1 = 1/2 < 1·exp(0)`) the hypothesis of
`mixSupport_lift` fails: the expectation program's exponential cone is no longer ignored -/
example : ¬ (blk (exExpsX ℝ) 0).Feas realExpCone (fun j => if j < 2 then 0 else if j = 2 then 1/2 else 1) := by
  intro h
  have := h.exp [1, 2, 3] (by simp [blk, exExpsX, exExpoG])
  rcases this with ⟨_, h2⟩ | ⟨h2, _⟩
  · norm_num at h2
  · norm_num at h2


/-! #### `dro_sound`: two scenarios, one event (the whole sample space), one random component,
support `0 ≤ z ≤ 2`, integrand `f_s(z) = z - 1` -/

def exZ : ℕ → (ℕ → ℚ) → Prop := fun _ z => 0 ≤ z 0 ∧ z 0 ≤ 2
/-- scenario 0: `z ∈ {0, 1}` with weights `1/2, 1/2`; scenario 1: `z = 1` -/
def exW : ℕ → ℕ → ℚ := fun s i => if s = 0 then 1/2 else (if i = 0 then 1 else 0)
def exPt : ℕ → ℕ → ℕ → ℚ := fun s i _ => if s = 0 then (i : ℚ) else 1
def exEs : ℕ → ((ℕ → ℚ) → ℚ) → ℚ := fun s => finExp 2 (exW s) (exPt s)
def exF : ℕ → (ℕ → ℚ) → ℚ := fun _ z => z 0 - 1
def exP : ℕ → ℚ := fun _ => 1/2

/-- the finitely supported conditional distributions are conditional expectation operators -/
lemma exEs_condExp : ∀ s < 2, CondExp (exZ s) (exEs s) := by
  intro s hs
  have hs' : s = 0 ∨ s = 1 := by omega
  apply finExp_isCondExp
  · intro i hi
    have hi' : i = 0 ∨ i = 1 := by omega
    rcases hs' with rfl | rfl <;> rcases hi' with rfl | rfl <;> norm_num [exW]
  · rcases hs' with rfl | rfl <;> norm_num [exW, Finset.sum_range_succ]
  · intro i hi
    have hi' : i = 0 ∨ i = 1 := by omega
    rcases hs' with rfl | rfl <;> rcases hi' with rfl | rfl <;> norm_num [exZ, exPt]

/-- with `α = (-1, -1)`, `β = 1`: (H2) holds with equality, (H1) reads `-1 + 3/4 ≤ 0`, and
`dro_sound` yields `Σ_s p_s E_s[z - 1] = -1/4 ≤ 0` -/
example : ∑ s ∈ range 2, exP s * exEs s (exF s) ≤ 0 := by
  apply dro_sound 2 1 1 exZ exEs exEs_condExp exF (fun _ => -1) (fun _ _ => 1) (fun _ _ => True)
    exP (by intro s _; norm_num [exP])
  · intro s _ z _
    simp [exF, Finset.sum_range_succ]
  · norm_num [exP, exEs, finExp, exW, exPt, Finset.sum_range_succ]

/-- the value the theorem bounds, computed directly -/
example : ∑ s ∈ range 2, exP s * exEs s (exF s) = -1/4 := by
  norm_num [exP, exEs, exF, finExp, exW, exPt, Finset.sum_range_succ]


/-! #### `dro_sound_compiled`: one scenario (`p_0 = 1`), one expectation set `E(z) == 2` -/

/-- probability program of `p ≥ 0, p_0 = 1` (rows `-p_0 ≤ 0`, `p_0 = 1`) -/
def exPro1 : ConeProg ℚ :=
  { lp := { nr := 2, nc := 1
            a := fun i _ => if i = 0 then -1 else 1
            b := fun i => if i = 0 then 0 else 1
            eq := fun i => decide (i = 1)
            ub := fun _ => none, lb := fun _ => none, c := fun _ => 1 }
    st := fun _ _ => true, qmat := [], xmat := [] }

/-- expectation program of `E(z) == 2` -/
def exMean : ConeProg ℚ :=
  { lp := { nr := 1, nc := 1, a := fun _ _ => 1, b := fun _ => 2, eq := fun _ => true
            ub := fun _ => none, lb := fun _ => none, c := fun _ => 1 }
    st := fun _ _ => true, qmat := [], xmat := [] }

def exExps1 : List (ConeProg ℚ × List ℕ) := [(exMean, [0])]

/-- the mixed support: columns `[p_0 | μ]`, rows `-p_0 ≤ 0`, `p_0 = 1`, `μ - 2 p_0 = 0` -/
def exMix : ConeProg ℚ := mixSupport exPro1 exExps1

/-- the first-stage row `α·p_0 + β·μ ≤ 0` with `α` = decision column 0, `β` = decision column 1 -/
def exRow : RoRows ℚ := droRow exPro1 exExps1 1 1 2 (fun _ => 0) (fun _ _ => 1)

/-- `α = -2`, `β = 1`, multipliers `(0, 0, -1)` -/
def exV : ℕ → ℚ := fun c => if c = 0 then -2 else if c = 1 then 1 else if c = 4 then -1 else 0

lemma exMix_a20 : exMix.lp.a 2 0 = -2 := by
  have h := mixA_blk exPro1 exExps1 0 (by decide) 0 (by decide) 0
  have e : rowOff exPro1 exExps1 0 + 0 = 2 := by decide
  rw [e] at h
  show mixA exPro1 exExps1 2 0 = -2
  rw [h]
  norm_num [exPro1, exExps1, exMean, idx, blk]

lemma exS_nc : exMix.coneDual.lp.nc = 3 := by decide
lemma exS_nr : exMix.coneDual.lp.nr = 2 := by decide
lemma exS_c0 : exMix.coneDual.lp.c 0 = 0 := by decide
lemma exS_c1 : exMix.coneDual.lp.c 1 = -1 := by decide
lemma exS_c2 : exMix.coneDual.lp.c 2 = 0 := by decide
lemma exS_a00 : exMix.coneDual.lp.a 0 0 = -1 := by decide
lemma exS_a01 : exMix.coneDual.lp.a 0 1 = 1 := by decide
lemma exS_a02 : exMix.coneDual.lp.a 0 2 = -2 := exMix_a20
lemma exS_a10 : exMix.coneDual.lp.a 1 0 = 0 := by decide
lemma exS_a11 : exMix.coneDual.lp.a 1 1 = 0 := by decide
lemma exS_a12 : exMix.coneDual.lp.a 1 2 = 1 := by decide
lemma exS_b0 : exMix.coneDual.lp.b 0 = 1 := by decide
lemma exS_b1 : exMix.coneDual.lp.b 1 = 1 := by decide
lemma exS_eq0 : exMix.coneDual.lp.eq 0 = true := by decide
lemma exS_eq1 : exMix.coneDual.lp.eq 1 = true := by decide
lemma exS_ub0 : exMix.coneDual.lp.ub 0 = some 0 := by decide
lemma exS_ub1 : exMix.coneDual.lp.ub 1 = none := by decide
lemma exS_ub2 : exMix.coneDual.lp.ub 2 = none := by decide
lemma exS_lb : ∀ i, exMix.coneDual.lp.lb i = none := by intro i; rfl
lemma exS_q : exMix.coneDual.qmat = [] := by decide
lemma exS_x : exMix.coneDual.xmat = [] := by decide
lemma exNum : exRow.numRand exMix.coneDual = 2 := by decide
lemma exRl00 : ∀ d, exRow.Rl 0 0 d = if d = 0 then 1 else 0 := by
  intro d
  have : droCol exPro1 exExps1 1 1 (fun _ => 0) (fun _ _ => 1) 0 = some 0 := by decide
  show (if droCol exPro1 exExps1 1 1 (fun _ => 0) (fun _ _ => 1) 0 = some d then (1:ℚ) else 0) = _
  rw [this]
  by_cases h : d = 0
  · subst h; simp
  · have : ¬ (some 0 = some d) := fun hh => h (Option.some.inj hh).symm
    simp [h, this]
lemma exRl01 : ∀ d, exRow.Rl 0 1 d = if d = 1 then 1 else 0 := by
  intro d
  have : droCol exPro1 exExps1 1 1 (fun _ => 0) (fun _ _ => 1) 1 = some 1 := by decide
  show (if droCol exPro1 exExps1 1 1 (fun _ => 0) (fun _ _ => 1) 1 = some d then (1:ℚ) else 0) = _
  rw [this]
  by_cases h : d = 1
  · subst h; simp
  · have : ¬ (some 1 = some d) := fun hh => h (Option.some.inj hh).symm
    simp [h, this]

/-- the compiled first-stage row (`-Y_1 ≤ 0`, `α - Y_0 + Y_1 - 2Y_2 = 0`, `β + Y_2 = 0`, `Y_0 ≤ 0`)
is feasible at `exV` -/
lemma ex_feas : (exRow.leToRc exMix.coneDual).prog.Feas (fun _ _ _ => False) exV := by
  have hnr : (exRow.leToRc exMix.coneDual).prog.lp.nr = 3 := by
    rw [leToRc_nr, exNum, exS_nr]; rfl
  have hnc : (exRow.leToRc exMix.coneDual).prog.lp.nc = 5 := by
    rw [leToRc_nc, exS_nc]; rfl
  refine ⟨⟨?_, ?_, ?_⟩, ?_, ?_⟩
  · intro i hi
    rw [hnr] at hi
    obtain rfl | rfl | rfl : i = 0 ∨ i = 1 ∨ i = 2 := by omega
    · have h := leToRc_row1 exRow exMix.coneDual 0 (by decide) exV
      rw [h, leToRc_b1 _ _ 0 (by decide), leToRc_eq1 _ _ 0 (by decide), exS_nc]
      simp [Finset.sum_range_succ, exS_c0, exS_c1, exS_c2, exRow, droRow, exV, ycol, exS_nc]
    · have h := leToRc_row2 exRow exMix.coneDual 0 (by decide) 0 (by decide) exV
      have hb := leToRc_b2 exRow exMix.coneDual 0 (by decide) 0 (by decide)
      have he := leToRc_eq2 exRow exMix.coneDual 0 (by decide) 0 (by decide)
      rw [exNum] at h hb he
      have e1 : exRow.m + (0 * 2 + 0) = 1 := rfl
      rw [e1] at h hb he
      rw [h, hb, he, exS_eq0, exS_nc]
      have hnd : exRow.nd = 2 := rfl
      have hrc : exRow.Rc 0 0 = 0 := rfl
      rw [hnd, hrc]
      simp [Finset.sum_range_succ, exRl00, exS_a00, exS_a01, exS_a02, exS_b0, exV, ycol, exS_nc, hnd]
    · have h := leToRc_row2 exRow exMix.coneDual 0 (by decide) 1 (by decide) exV
      have hb := leToRc_b2 exRow exMix.coneDual 0 (by decide) 1 (by decide)
      have he := leToRc_eq2 exRow exMix.coneDual 0 (by decide) 1 (by decide)
      rw [exNum] at h hb he
      have e1 : exRow.m + (0 * 2 + 1) = 2 := rfl
      rw [e1] at h hb he
      rw [h, hb, he, exS_eq1, exS_nc]
      have hnd : exRow.nd = 2 := rfl
      have hrc : exRow.Rc 0 1 = 0 := rfl
      rw [hnd, hrc]
      simp [Finset.sum_range_succ, exRl01, exS_a10, exS_a11, exS_a12, exS_b1, exV, ycol, exS_nc, hnd]
  · intro j hj
    rw [hnc] at hj
    obtain rfl | rfl | rfl | rfl | rfl : j = 0 ∨ j = 1 ∨ j = 2 ∨ j = 3 ∨ j = 4 := by omega
    · simp [leToRc, LinProg.leUb, exRow, droRow]
    · simp [leToRc, LinProg.leUb, exRow, droRow]
    · simp [leToRc, LinProg.leUb, exRow, droRow, exS_nc, exS_ub0, exV]
    · simp [leToRc, LinProg.leUb, exRow, droRow, exS_nc, exS_ub1, exV]
    · simp [leToRc, LinProg.leUb, exRow, droRow, exS_nc, exS_ub2, exV]
  · intro j hj
    simp [leToRc, LinProg.geLb, exS_lb]
  · intro q hq
    simp [leToRc, exS_q] at hq
  · intro e he
    simp [leToRc, exS_x] at he

lemma exPro1_hst : ∀ i j, exPro1.lp.a i j ≠ 0 → exPro1.st i j = true := fun _ _ _ => rfl
lemma exPro1_hqp : ∀ q ∈ exPro1.qmat, ∀ j ∈ q, j < exPro1.lp.nc := by
  intro q hq; simp [exPro1] at hq
lemma exPro1_hxl : ∀ e ∈ exPro1.xmat, e.length = 3 := by intro e he; simp [exPro1] at he
lemma exPro1_hxp : ∀ e ∈ exPro1.xmat, ∀ j ∈ e, j < exPro1.lp.nc := by
  intro e he; simp [exPro1] at he
lemma exExps1_hqe : ∀ k < exExps1.length, ∀ q ∈ (blk exExps1 k).qmat, ∀ j ∈ q,
    j < (blk exExps1 k).lp.nc := by
  intro k hk q hq
  have : k = 0 := by simp [exExps1] at hk; omega
  subst this
  simp [blk, exExps1, exMean] at hq
lemma exExps1_hxle : ∀ k < exExps1.length, ∀ e ∈ (blk exExps1 k).xmat, e.length = 3 := by
  intro k hk e he
  have : k = 0 := by simp [exExps1] at hk; omega
  subst this
  simp [blk, exExps1, exMean] at he
lemma exExps1_hxe : ∀ k < exExps1.length, ∀ e ∈ (blk exExps1 k).xmat, ∀ j ∈ e,
    j < (blk exExps1 k).lp.nc := by
  intro k hk e he
  have : k = 0 := by simp [exExps1] at hk; omega
  subst this
  simp [blk, exExps1, exMean] at he
lemma exExps1_hidx : ∀ k < exExps1.length, ∀ s ∈ idx exExps1 k, s < exPro1.lp.nc := by
  intro k hk s hs
  have : k = 0 := by simp [exExps1] at hk; omega
  subst this
  have : s = 0 := by simpa [idx, exExps1] using hs
  subst this
  decide

/-- `dro_sound_compiled` on the instance: at every admissible `(π, ν)` the first-stage inequality
`-2·π_0 + 1·(t_0·ν_{0,0}) ≤ 0` holds (with equality at the only admissible point `π_0 = 1`,
`ν_{0,0} = 2`: the multipliers `α = -2`, `β = 1` are tight) -/
example (π : ℕ → ℚ) (ν : ℕ → ℕ → ℚ) (hπ : exPro1.Feas (fun _ _ _ => False) π)
    (hν : ∀ k < exExps1.length, (blk exExps1 k).Feas (fun _ _ _ => False) (ν k))
    (ht : ∀ k < exExps1.length, 0 ≤ evProb exExps1 k π) :
    -2 * π 0 + 1 * (evProb exExps1 0 π * ν 0 0) ≤ 0 := by
  have h := dro_sound_compiled exPro1 exExps1 (fun _ _ _ => False) (fun _ _ _ _ _ _ h _ => h.elim)
    (fun _ _ _ _ _ h => h) exPro1_hst exPro1_hqp exPro1_hxl exPro1_hxp exExps1_hqe exExps1_hxle
    exExps1_hxe exExps1_hidx (by decide)
    1 1 2 (fun _ => 0) (fun _ _ => 1) (by decide)
    (by intro k hk; have : k = 0 := by simp [exExps1] at hk; omega
        subst this; decide)
    (by intro s _; decide) (by intro k _ j _; decide) exV ex_feas π ν hπ hν ht
  have hl : exExps1.length = 1 := rfl
  rw [hl] at h
  simpa [Finset.sum_range_succ, exV] using h

/-- the admissible point of the instance: `π_0 = 1`, `ν_{0,0} = 2` -/
example : exPro1.Feas (fun _ _ _ => False) (fun _ => 1) ∧
    (blk exExps1 0).Feas (fun _ _ _ => False) (fun _ => 2) := by
  refine ⟨⟨⟨?_, fun _ _ => trivial, fun _ _ => trivial⟩, ?_, ?_⟩,
    ⟨⟨?_, fun _ _ => trivial, fun _ _ => trivial⟩, ?_, ?_⟩⟩
  · intro i hi
    have hi' : i < 2 := hi
    have : i = 0 ∨ i = 1 := by omega
    rcases this with rfl | rfl <;> norm_num [LinProg.row, exPro1, Finset.sum_range_succ]
  · intro q hq; simp [exPro1] at hq
  · intro e he; simp [exPro1] at he
  · intro i hi
    have hi' : i < 1 := hi
    have : i = 0 := by omega
    subst this
    norm_num [LinProg.row, blk, exExps1, exMean, Finset.sum_range_succ]
  · intro q hq; simp [blk, exExps1, exMean] at hq
  · intro e he; simp [blk, exExps1, exMean] at he

/-- `dro_sound_end_to_end` on the instance: support `Z = {z_0 = 2}`, the point mass at `2` as
conditional distribution, integrand `f(z) = z_0 - 2` (scenario row `z_0 - 2 ≤ α + β z_0` holds
with `α = -2`, `β = 1`); the chain compiled row → (H1) → expected value gives `E[f] ≤ 0` -/
example : ∑ s ∈ range 1, (fun _ => (1:ℚ)) s *
    (fun _ => finExp 1 (fun _ => (1:ℚ)) (fun _ _ => (2:ℚ))) s ((fun _ z => z 0 - 2) s) ≤ 0 := by
  apply dro_sound_end_to_end exPro1 exExps1 (fun _ _ _ => False) (fun _ _ _ _ _ _ h _ => h.elim)
    (fun _ _ _ _ _ h => h) exPro1_hst exPro1_hqp exPro1_hxl exPro1_hxp exExps1_hqe exExps1_hxle
    exExps1_hxe exExps1_hidx (by decide)
    1 1 2 (fun _ => 0) (fun _ _ => 1) (by decide)
    (by intro k hk; have : k = 0 := by simp [exExps1] at hk; omega
        subst this; decide)
    (by intro s _; decide) (by intro k _ j _; decide) exV ex_feas (fun _ => 1)
    (Z := fun _ z => z 0 = 2) (ν := fun _ _ => 2)
  · -- π feasible for the probability program
    refine ⟨⟨?_, fun _ _ => trivial, fun _ _ => trivial⟩, ?_, ?_⟩
    · intro i hi
      have hi' : i < 2 := hi
      have : i = 0 ∨ i = 1 := by omega
      rcases this with rfl | rfl <;> norm_num [LinProg.row, exPro1, Finset.sum_range_succ]
    · intro q hq; simp [exPro1] at hq
    · intro e he; simp [exPro1] at he
  · intro s _; norm_num
  · intro s _
    exact finExp_isCondExp _ 1 _ _ (by intro i _; norm_num) (by simp) (by intro i _; rfl)
  · intro k hk
    have : k = 0 := by simp [exExps1] at hk; omega
    subst this
    refine ⟨⟨?_, fun _ _ => trivial, fun _ _ => trivial⟩, ?_, ?_⟩
    · intro i hi
      have hi' : i < 1 := hi
      have : i = 0 := by omega
      subst this
      norm_num [LinProg.row, blk, exExps1, exMean, Finset.sum_range_succ]
    · intro q hq; simp [blk, exExps1, exMean] at hq
    · intro e he; simp [blk, exExps1, exMean] at he
  · intro k hk
    have : k = 0 := by simp [exExps1] at hk; omega
    subst this
    norm_num [evProb, idx, exExps1]
  · intro k hk j hj
    have : k = 0 := by simp [exExps1] at hk; omega
    subst this
    have : j = 0 := by omega
    subst this
    norm_num [evProb, idx, exExps1, finExp, Finset.sum_range_succ]
  · intro s hs z hz
    have : s = 0 := by omega
    subst this
    have hl : exExps1.length = 1 := rfl
    rw [hl]
    simp [Finset.sum_range_succ, exV, idx, exExps1]


end RsomeV.C03
