namespace RsomeV.C03
end RsomeV.C03
