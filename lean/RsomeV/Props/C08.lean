import RsomeV.L.LpDualWeak
import RsomeV.L.LpDualStrong
import RsomeV.L.ConeDualWeak
import RsomeV.L.ExpCone

/-! # C08 — `do_math(primal=False)` is a true dual

Property theorems about the order-faithful model of the three `do_math(primal=False)` layers
(`LinProg.dual`, `ConeProg.socDual`, `ConeProg.coneDual`).  Helper lemmas live in `RsomeV/L/`.
The model is tied to rsome's code by the correspondence check of `harness/props/c08.py`. -/

namespace RsomeV.C08
open Finset RsomeV
variable {K : Type} [Field K] [LinearOrder K] [IsStrictOrderedRing K]

/-- **LP weak duality** of the model of `lp.Model.do_math(primal=False)`, for every bound pattern per
variable (free, `≥0`, `≤0`, finite lower, finite upper, both, fixed and the overlaps the code's index
tests create): the value `-(dual objective)` of every dual-feasible `y` is below the objective of every
primal-feasible `x`. -/
theorem lp_dual_weak (P : LinProg K) (x y : ℕ → K) (hx : P.Feas x) (hy : P.dual.Feas y) :
    - P.dual.obj y ≤ P.obj x := by
  have h := LinProg.dual_weak P x y hx hy
  have : P.dual.obj y = - ∑ i ∈ range P.augNr, P.augB i * y i := by
    simp [LinProg.obj, LinProg.dual, Finset.sum_neg_distrib]
  rw [this]; simpa using h

/-- non-vacuity: `min x₀ s.t. x₀ ≥ 1` written with a finite lower bound; the dual point `y = (-1)`
is feasible for the model's dual and attains the primal optimum `1`. -/
example : let P : LinProg ℚ := { nr := 0, nc := 1, a := fun _ _ => 0, b := fun _ => 0, eq := fun _ => false,
                                 ub := fun _ => none, lb := fun _ => some 1, c := fun _ => 1 }
    P.augNr = 1 ∧ P.dual.obj (fun _ => -1) = -1 := by
  decide +kernel

/-- **LP strong duality (no gap, dual attainment)**: every lower bound `γ` of the primal objective over
a non-empty primal feasible set is matched by a dual-feasible point — Farkas' lemma, proved by
Fourier–Motzkin elimination in `RsomeV/L/Farkas.lean`, over every linear ordered field. -/
theorem lp_dual_strong (P : LinProg K) (γ : K) (hfeas : ∃ x, P.Feas x)
    (hbd : ∀ x, P.Feas x → γ ≤ P.obj x) :
    ∃ y, P.dual.Feas y ∧ γ ≤ - P.dual.obj y :=
  LinProg.dual_strong P γ hfeas hbd

/-- **optimal values are negatives of each other**: if the primal attains its optimum at `xs`, the
model's dual attains the value `-(dual objective) = P.obj xs`, and no dual point does better. -/
theorem lp_dual_value (P : LinProg K) (xs : ℕ → K) (hxs : P.Feas xs)
    (hopt : ∀ x, P.Feas x → P.obj xs ≤ P.obj x) :
    ∃ y, P.dual.Feas y ∧ - P.dual.obj y = P.obj xs ∧
      ∀ y', P.dual.Feas y' → - P.dual.obj y' ≤ - P.dual.obj y :=
  LinProg.dual_strong_attained P xs hxs hopt

/-- **SOC weak duality, general layout** (one extra dual column per cone position). -/
theorem soc_dual_weak (P : ConeProg K) (E : K → K → K → Prop) (hwf : P.WF)
    (x w : ℕ → K) (hx : P.Feas E x) (hw : P.socDual2.Feas E w) :
    - P.socDual2.lp.obj w ≤ P.lp.obj x :=
  ConeProg.socDual2_weak P E hwf x w hx hw

/-- **SOC weak duality, compact layout**: under the test `compactOk` the (repaired) code performs —
every cone column is a `±1` (head: `+1`) column stored in one row of its own — and zero cost on cone
columns (true of every program formulated with `obj=True`, where only the epigraph column is costed). -/
theorem soc_layout1_weak (P : ConeProg K) (E : K → K → K → Prop) (hwf : P.WF)
    (hok : P.compactOk = true) (hc : ∀ q ∈ P.qmat, ∀ j ∈ q, P.lp.c j = 0)
    (x w : ℕ → K) (hx : P.Feas E x) (hw : P.socDual1.Feas E w) :
    - P.socDual1.lp.obj w ≤ P.lp.obj x :=
  ConeProg.socDual1_weak P E hwf hok hc x w hx hw

/-- **Weak duality of the whole model of `gcp.Model.do_math(primal=False)`**: LP layer, whichever
SOC layout the code selects, and the exponential-cone block, for any cone predicate `E` with the
exponential-cone pairing property. -/
theorem cone_dual_weak (P : ConeProg K) (E : K → K → K → Prop) (hE : ExpPair E) (hwf : P.WF)
    (hc  : P.rowsRemoved = true → ∀ q ∈ P.qmat, ∀ j ∈ q, P.lp.c j = 0)
    (hxq : P.rowsRemoved = true → ∀ e ∈ P.xmat, ∀ j ∈ e, j ∉ P.eye)
    (x w : ℕ → K) (hx : P.Feas E x) (hw : P.coneDual.Feas E w) :
    - P.coneDual.lp.obj w ≤ P.lp.obj x :=
  ConeProg.coneDual_weak P E hE hwf hc hxq x w hx hw

/-- the instance the solvers see: over `ℝ` with the closed exponential cone
`{a₂·exp(a₀/a₂) ≤ a₁, a₂ > 0} ∪ {a₂ = 0, a₀ ≤ 0, a₁ ≥ 0}` -/
theorem exp_dual_weak (P : ConeProg ℝ) (hwf : P.WF)
    (hc  : P.rowsRemoved = true → ∀ q ∈ P.qmat, ∀ j ∈ q, P.lp.c j = 0)
    (hxq : P.rowsRemoved = true → ∀ e ∈ P.xmat, ∀ j ∈ e, j ∉ P.eye)
    (x w : ℕ → ℝ) (hx : P.Feas realExpCone x) (hw : P.coneDual.Feas realExpCone w) :
    - P.coneDual.lp.obj w ≤ P.lp.obj x :=
  ConeProg.coneDual_weak P realExpCone realExpCone_pair hwf hc hxq x w hx hw

end RsomeV.C08
