import RsomeV.L.LpDualWeak

/-! # C08 — `do_math(primal=False)` is a true dual

Property theorems (helper lemmas live in `RsomeV/L/`). -/

namespace RsomeV.C08
open Finset RsomeV
variable {K : Type} [Field K] [LinearOrder K] [IsStrictOrderedRing K]

/-- **LP weak duality of the model of `lp.Model.do_math(primal=False)`**, for every bound
pattern per variable (free, `≥0`, `≤0`, finite lower, finite upper, both, fixed and the overlaps
the code's index tests create): every dual-feasible `y` bounds every primal-feasible `x`.
The dual's objective is `min (-augB)·y`, so this reads `-(dual objective) ≤ primal objective`. -/
theorem lp_dual_weak (P : LinProg K) (x y : ℕ → K) (hx : P.Feas x) (hy : P.dual.Feas y) :
    - P.dual.obj y ≤ P.obj x := by
  have h := LinProg.dual_weak P x y hx hy
  have : P.dual.obj y = - ∑ i ∈ range P.augNr, P.augB i * y i := by
    simp [LinProg.obj, LinProg.dual, Finset.sum_neg_distrib]
  rw [this]; simpa using h

end RsomeV.C08
