import RsomeV.M.AffTri
import RsomeV.Props.C05Expr

/-! C05 (triangles, trace, filled diagonal): `Affine.tril(k)`, `Affine.triu(k)`, `Affine.trace()` and
`Affine.diag(k, fill=True)` build the affine arrays whose values are NumPy's `np.tril`, `np.triu`, `np.trace`
and "the `k`-th diagonal kept, zeros elsewhere".

Model: `RsomeV/M/AffTri.lean`, tied to the real code by `test_aff_tri.py` (`linear` / `const` compared entry by
entry with the driver op `aff_tri`).  Positions are flat row-major: entry `(i, j)` of an `m × n` array is position
`i * n + j`. -/

namespace RsomeV.C05Tri
open List RsomeV.Nd RsomeV.AffE

variable {K : Type} [CommRing K]

/-! ## 0. masks -/

/-- a masked array evaluates to the masked value: the row of `linear` AND the entry of `const` are zero outside
`keep`, both are the operand's inside -/
theorem eval_mask (a : AffArr K) (keep : ℕ → Bool) (x : ℕ → K) (p : ℕ) :
    (a.mask keep).eval x p = if keep p then a.eval x p else 0 := by
  unfold AffArr.mask AffArr.eval
  by_cases h : keep p <;> simp [h]

theorem mask_shape (a : AffArr K) (keep : ℕ → Bool) : (a.mask keep).shape = a.shape := rfl
theorem mask_ncols (a : AffArr K) (keep : ℕ → Bool) : (a.mask keep).ncols = a.ncols := rfl

/-- masking twice with the same mask is masking once (equality of the arrays, not only of the values) -/
theorem mask_mask (a : AffArr K) (keep : ℕ → Bool) : (a.mask keep).mask keep = a.mask keep := by
  unfold AffArr.mask
  congr 1
  · funext p c; by_cases h : keep p <;> simp [h]
  · funext p; by_cases h : keep p <;> simp [h]

theorem trilKeep_pos {n i j : ℕ} (hj : j < n) (k : Int) :
    trilKeep n k (i * n + j) = decide ((j : Int) - (i : Int) ≤ k) := by
  unfold trilKeep
  rw [mul_add_div hj, mul_add_mod hj]

theorem triuKeep_pos {n i j : ℕ} (hj : j < n) (k : Int) :
    triuKeep n k (i * n + j) = decide (k ≤ (j : Int) - (i : Int)) := by
  unfold triuKeep
  rw [mul_add_div hj, mul_add_mod hj]

/-- inside the array the positions of `idx_row, idx_col` are those with `j - i = k` -/
theorem diagKeep_pos {m n i j : ℕ} (hi : i < m) (hj : j < n) (k : Int) :
    diagKeep m n k (i * n + j) = decide ((j : Int) - (i : Int) = k) := by
  unfold diagKeep
  rw [decide_eq_decide, mem_diagIdx]
  constructor
  · rintro ⟨i', j', _, hj', hk, he⟩
    obtain ⟨rfl, rfl⟩ := mul_add_inj hj hj' he
    exact hk
  · intro hk
    exact ⟨i, j, hi, hj, hk, rfl⟩

/-! ## 1. acceptance and shapes: exactly the 2-D arrays, the shape is kept -/

theorem tril_some {a : AffArr K} {m n : ℕ} (hs : a.shape = [m, n]) (k : Int) :
    a.tril k = some (a.mask (trilKeep n k)) := by
  unfold AffArr.tril; rw [hs]

theorem triu_some {a : AffArr K} {m n : ℕ} (hs : a.shape = [m, n]) (k : Int) :
    a.triu k = some (a.mask (triuKeep n k)) := by
  unfold AffArr.triu; rw [hs]

theorem diagFill_some {a : AffArr K} {m n : ℕ} (hs : a.shape = [m, n]) (k : Int) :
    a.diagFill k = some (a.mask (diagKeep m n k)) := by
  unfold AffArr.diagFill; rw [hs]

theorem length_two {s : List ℕ} : s.length = 2 ↔ ∃ m n, s = [m, n] := by
  constructor
  · intro h
    match s, h with
    | [m, n], _ => exact ⟨m, n, rfl⟩
  · rintro ⟨m, n, rfl⟩; rfl

/-- `tril` raises exactly for the arrays that are not 2-D (any `k`, any `m × n`, also non-square) -/
theorem tril_isSome_iff (a : AffArr K) (k : Int) : (a.tril k).isSome ↔ a.shape.length = 2 := by
  rw [length_two]
  constructor
  · intro h
    unfold AffArr.tril at h
    split at h
    · rename_i m n hs; exact ⟨m, n, hs⟩
    · simp at h
  · rintro ⟨m, n, hs⟩; rw [tril_some hs]; rfl

theorem triu_isSome_iff (a : AffArr K) (k : Int) : (a.triu k).isSome ↔ a.shape.length = 2 := by
  rw [length_two]
  constructor
  · intro h
    unfold AffArr.triu at h
    split at h
    · rename_i m n hs; exact ⟨m, n, hs⟩
    · simp at h
  · rintro ⟨m, n, hs⟩; rw [triu_some hs]; rfl

/-- `diag(k, fill=True)` raises exactly for the arrays that are not 2-D; a `k` outside the array is accepted -/
theorem diagFill_isSome_iff (a : AffArr K) (k : Int) : (a.diagFill k).isSome ↔ a.shape.length = 2 := by
  rw [length_two]
  constructor
  · intro h
    unfold AffArr.diagFill at h
    split at h
    · rename_i m n hs; exact ⟨m, n, hs⟩
    · simp at h
  · rintro ⟨m, n, hs⟩; rw [diagFill_some hs]; rfl

/-- `trace` is defined exactly on the (non-empty) 2-D arrays, square or not -/
theorem trace_isSome_iff (a : AffArr K) : a.trace.isSome ↔ ∃ m n, a.shape = [m, n] ∧ 0 < m ∧ 0 < n := by
  unfold AffArr.trace AffArr.diag
  constructor
  · intro h
    split at h
    · rename_i m n hs
      refine ⟨m, n, hs, ?_⟩
      rw [Option.isSome_map, Option.isSome_map] at h
      unfold nonEmpty at h
      split at h
      · simp at h
      · rename_i hz
        simp only [size, length_diagIdx] at hz
        omega
    · simp at h
  · rintro ⟨m, n, hs, hm, hn⟩
    rw [hs]
    simp only [Option.isSome_map]
    unfold nonEmpty
    have : size [(diagIdx m n 0).length] ≠ 0 := by
      simp only [size, length_diagIdx]; omega
    rw [if_neg this]; rfl

theorem tril_shape {a b : AffArr K} {k : Int} (h : a.tril k = some b) : b.shape = a.shape ∧ b.ncols = a.ncols := by
  unfold AffArr.tril at h
  split at h
  · cases h; exact ⟨rfl, rfl⟩
  · cases h

theorem triu_shape {a b : AffArr K} {k : Int} (h : a.triu k = some b) : b.shape = a.shape ∧ b.ncols = a.ncols := by
  unfold AffArr.triu at h
  split at h
  · cases h; exact ⟨rfl, rfl⟩
  · cases h

theorem diagFill_shape {a b : AffArr K} {k : Int} (h : a.diagFill k = some b) :
    b.shape = a.shape ∧ b.ncols = a.ncols := by
  unfold AffArr.diagFill at h
  split at h
  · cases h; exact ⟨rfl, rfl⟩
  · cases h

/-- the trace is a 0-d array (one row of `linear`) -/
theorem trace_shape {a b : AffArr K} (h : a.trace = some b) : b.shape = [] ∧ b.ncols = a.ncols := by
  unfold AffArr.trace at h
  obtain ⟨d, hd, rfl⟩ := Option.map_eq_some_iff.1 h
  refine ⟨rfl, ?_⟩
  unfold AffArr.diag at hd
  split at hd
  · obtain ⟨t, _, rfl⟩ := Option.map_eq_some_iff.1 hd; rfl
  · cases hd

/-! ## 2. values -/

/-- **tril.**  For every array `a` of shape `[m, n]` (square or not), integer `k`, point `x` and position
`(i, j)` with `j < n`: the entry of `a.tril(k)` is the entry of `a` if `j - i ≤ k` and `0` otherwise. -/
theorem tril_eval {a b : AffArr K} {m n : ℕ} (hs : a.shape = [m, n]) {k : Int} (h : a.tril k = some b)
    (x : ℕ → K) (i j : ℕ) (hj : j < n) :
    b.eval x (i * n + j) = if (j : Int) - (i : Int) ≤ k then a.eval x (i * n + j) else 0 := by
  rw [tril_some hs] at h; cases h
  rw [eval_mask, trilKeep_pos hj]; simp

/-- **triu.**  The entry `(i, j)` of `a.triu(k)` is the entry of `a` if `j - i ≥ k` and `0` otherwise. -/
theorem triu_eval {a b : AffArr K} {m n : ℕ} (hs : a.shape = [m, n]) {k : Int} (h : a.triu k = some b)
    (x : ℕ → K) (i j : ℕ) (hj : j < n) :
    b.eval x (i * n + j) = if (j : Int) - (i : Int) ≥ k then a.eval x (i * n + j) else 0 := by
  rw [triu_some hs] at h; cases h
  rw [eval_mask, triuKeep_pos hj]; simp

/-- **diag(k, fill=True).**  The entry `(i, j)` (inside the array) is the entry of `a` on the `k`-th diagonal
(`j - i = k`) and `0` elsewhere; for a `k` outside the array the result is the zero matrix. -/
theorem diagFill_eval {a b : AffArr K} {m n : ℕ} (hs : a.shape = [m, n]) {k : Int} (h : a.diagFill k = some b)
    (x : ℕ → K) (i j : ℕ) (hi : i < m) (hj : j < n) :
    b.eval x (i * n + j) = if (j : Int) - (i : Int) = k then a.eval x (i * n + j) else 0 := by
  rw [diagFill_some hs] at h; cases h
  rw [eval_mask, diagKeep_pos hi hj]; simp

/-- the same three statements for the stored data: row `i * n + j` of `linear` and entry `i * n + j` of `const` are
the operand's or zero (so the result does not depend on `x` being a point: it is the masked affine FORM) -/
theorem tril_rows {a b : AffArr K} {m n : ℕ} (hs : a.shape = [m, n]) {k : Int} (h : a.tril k = some b)
    (i j : ℕ) (hj : j < n) :
    (∀ c, b.coef (i * n + j) c = if (j : Int) - (i : Int) ≤ k then a.coef (i * n + j) c else 0) ∧
    b.cst (i * n + j) = if (j : Int) - (i : Int) ≤ k then a.cst (i * n + j) else 0 := by
  rw [tril_some hs] at h; cases h
  simp [AffArr.mask, trilKeep_pos hj]

theorem triu_rows {a b : AffArr K} {m n : ℕ} (hs : a.shape = [m, n]) {k : Int} (h : a.triu k = some b)
    (i j : ℕ) (hj : j < n) :
    (∀ c, b.coef (i * n + j) c = if (j : Int) - (i : Int) ≥ k then a.coef (i * n + j) c else 0) ∧
    b.cst (i * n + j) = if (j : Int) - (i : Int) ≥ k then a.cst (i * n + j) else 0 := by
  rw [triu_some hs] at h; cases h
  simp [AffArr.mask, triuKeep_pos hj]

theorem diagFill_rows {a b : AffArr K} {m n : ℕ} (hs : a.shape = [m, n]) {k : Int} (h : a.diagFill k = some b)
    (i j : ℕ) (hi : i < m) (hj : j < n) :
    (∀ c, b.coef (i * n + j) c = if (j : Int) - (i : Int) = k then a.coef (i * n + j) c else 0) ∧
    b.cst (i * n + j) = if (j : Int) - (i : Int) = k then a.cst (i * n + j) else 0 := by
  rw [diagFill_some hs] at h; cases h
  simp [AffArr.mask, diagKeep_pos hi hj]

/-- the kept diagonal is the diagonal `diag(k)` reads: at the `t`-th position of `np.diag(., k)` the filled array
has the operand's entry (`diag(diag(a, k, fill=True), k) = diag(a, k)`) -/
theorem diagFill_on_diag {a b : AffArr K} {m n : ℕ} (hs : a.shape = [m, n]) {k : Int} (h : a.diagFill k = some b)
    (x : ℕ → K) (t : ℕ) (ht : t < (diagIdx m n k).length) :
    b.eval x ((diagIdx m n k).getD t 0) = a.eval x ((diagIdx m n k).getD t 0) := by
  rw [diagFill_some hs] at h; cases h
  rw [eval_mask]
  have : (diagIdx m n k).getD t 0 ∈ diagIdx m n k := by
    rw [List.getD_eq_getElem?_getD, List.getElem?_eq_getElem ht, Option.getD_some]; exact List.getElem_mem ht
  rw [diagKeep, decide_eq_true this, if_pos rfl]

theorem sum_map_range (f : ℕ → K) (d : ℕ) : ((List.range d).map f).sum = ∑ i ∈ Finset.range d, f i := by
  induction d with
  | zero => simp
  | succ d ih => rw [List.range_succ, List.map_append, List.sum_append, ih, Finset.sum_range_succ]; simp

/-- **trace.**  For an array of shape `[m, n]` the trace is the 0-d array whose value is
`Σ_{i < min m n} a[i, i]`: for a NON-SQUARE array the code adds up the `min(m, n)` entries of the main diagonal
(as `np.trace` does), it does not raise. -/
theorem trace_eval {a b : AffArr K} {m n : ℕ} (hs : a.shape = [m, n]) (h : a.trace = some b) (x : ℕ → K) (p : ℕ) :
    b.eval x p = ∑ i ∈ Finset.range (min m n), a.eval x (i * n + i) := by
  unfold AffArr.trace AffArr.diag at h
  rw [hs] at h
  obtain ⟨d, hd, rfl⟩ := Option.map_eq_some_iff.1 h
  obtain ⟨t, ht, rfl⟩ := Option.map_eq_some_iff.1 hd
  obtain ⟨rfl, _⟩ := nonEmpty_some ht
  simp only [AffArr.sumAll, AffArr.eval, AffArr.gather]
  have e := eval_sum a x ((List.range (size [(diagIdx m n 0).length])).map fun i => (diagIdx m n 0).getD i 0)
  simp only [List.map_map] at e
  have e' : (∑ c ∈ Finset.range a.ncols,
        ((List.range (size [(diagIdx m n 0).length])).map fun j => a.coef ((diagIdx m n 0).getD j 0) c).sum * x c) +
      ((List.range (size [(diagIdx m n 0).length])).map fun j => a.cst ((diagIdx m n 0).getD j 0)).sum =
      ((List.range (size [(diagIdx m n 0).length])).map
        (a.eval x ∘ fun i => (diagIdx m n 0).getD i 0)).sum := e
  rw [e']
  have hl : size [(diagIdx m n 0).length] = min m n := by
    simp only [size, length_diagIdx]; simp
  rw [hl, sum_map_range]
  refine Finset.sum_congr rfl fun i hi => ?_
  have hi' : i < min m n := Finset.mem_range.1 hi
  have hlen : i < (diagIdx m n 0).length := by rw [length_diagIdx]; simpa using hi'
  have : (diagIdx m n 0).getD i 0 = i * n + i := by
    rw [List.getD_eq_getElem?_getD, List.getElem?_eq_getElem hlen, Option.getD_some]
    have := diagIdx_eq m n 0
    simp only [neg_zero, Int.toNat_zero, Nat.add_zero] at this
    rw [List.getElem_of_eq this]
    simp
  simp only [Function.comp, this, AffArr.eval]

/-! ## 3. algebra -/

/-- every position is kept by exactly one of `tril(k)` and `triu(k+1)` -/
theorem keep_split (n : ℕ) (k : Int) (p : ℕ) : trilKeep n k p = !triuKeep n (k + 1) p := by
  unfold trilKeep triuKeep
  by_cases h : ((p % n : ℕ) : Int) - ((p / n : ℕ) : Int) ≤ k
  · have : ¬ (k + 1 ≤ ((p % n : ℕ) : Int) - ((p / n : ℕ) : Int)) := by omega
    rw [decide_eq_true h, decide_eq_false this]; rfl
  · have : k + 1 ≤ ((p % n : ℕ) : Int) - ((p / n : ℕ) : Int) := by omega
    rw [decide_eq_false h, decide_eq_true this]; rfl

/-- **`tril(k) + triu(k+1) = a`** as values, at every position and every point -/
theorem tril_add_triu_eval {a t u : AffArr K} {k : Int} (ht : a.tril k = some t) (hu : a.triu (k + 1) = some u)
    (x : ℕ → K) (p : ℕ) : t.eval x p + u.eval x p = a.eval x p := by
  unfold AffArr.tril at ht
  unfold AffArr.triu at hu
  split at ht
  · rename_i m n hs
    rw [hs] at hu
    cases ht; cases hu
    rw [eval_mask, eval_mask, keep_split]
    by_cases h : triuKeep n (k + 1) p <;> simp [h]
  · cases ht

/-- **`tril(k) + triu(k+1) = a`** for the arrays rsome builds: `Affine.__add__` of the two parts succeeds, has the
shape and the columns of `a`, and inside the array its rows of `linear` and entries of `const` are those of `a` -/
theorem tril_add_triu {a t u : AffArr K} {m n : ℕ} (hs : a.shape = [m, n]) {k : Int} (ht : a.tril k = some t)
    (hu : a.triu (k + 1) = some u) :
    ∃ s, t.add u = some s ∧ s.shape = [m, n] ∧ s.ncols = a.ncols ∧
      ∀ p, p < m * n → (∀ c, s.coef p c = a.coef p c) ∧ s.cst p = a.cst p ∧ ∀ x, s.eval x p = a.eval x p := by
  rw [tril_some hs] at ht; rw [triu_some hs] at hu
  cases ht; cases hu
  unfold AffArr.add
  simp only [mask_shape, hs, broadcastShapes_self, Option.map_some]
  refine ⟨_, rfl, rfl, rfl, fun p hp => ?_⟩
  have hp' : p < size [m, n] := by simpa [size] using hp
  have hc : ∀ c, (if trilKeep n k p then a.coef p c else 0) + (if triuKeep n (k + 1) p then a.coef p c else 0) =
      a.coef p c := fun c => by
    rw [keep_split]; by_cases h : triuKeep n (k + 1) p <;> simp [h]
  have hk : (if trilKeep n k p then a.cst p else 0) + (if triuKeep n (k + 1) p then a.cst p else 0) = a.cst p := by
    rw [keep_split]; by_cases h : triuKeep n (k + 1) p <;> simp [h]
  refine ⟨fun c => ?_, ?_, fun x => ?_⟩
  · simp only [AffArr.mask, if_true]; exact hc c
  · simp only [AffArr.mask, bcastFlat_self hp']; exact hk
  · simp only [AffArr.eval, AffArr.mask, if_true, bcastFlat_self hp', hc, hk]

/-- **idempotence**: `tril(k)` of `a.tril(k)` is `a.tril(k)` (the same `linear`, the same `const`) -/
theorem tril_idem {a t : AffArr K} {k : Int} (h : a.tril k = some t) : t.tril k = some t := by
  unfold AffArr.tril at h
  split at h
  · rename_i m n hs
    cases h
    rw [tril_some (m := m) (n := n) (by rw [mask_shape, hs]), mask_mask]
  · cases h

theorem triu_idem {a t : AffArr K} {k : Int} (h : a.triu k = some t) : t.triu k = some t := by
  unfold AffArr.triu at h
  split at h
  · rename_i m n hs
    cases h
    rw [triu_some (m := m) (n := n) (by rw [mask_shape, hs]), mask_mask]
  · cases h

theorem diagFill_idem {a t : AffArr K} {k : Int} (h : a.diagFill k = some t) : t.diagFill k = some t := by
  unfold AffArr.diagFill at h
  split at h
  · rename_i m n hs
    cases h
    rw [diagFill_some (m := m) (n := n) (by rw [mask_shape, hs]), mask_mask]
  · cases h

theorem ite_ite_diag {α : Type} [Zero α] (d k : Int) (v : α) :
    (if d ≤ k then (if d ≥ k then v else 0) else 0) = if d = k then v else 0 := by
  by_cases hC : d = k
  · rw [if_pos (by omega), if_pos (by omega), if_pos hC]
  · by_cases hA : d ≤ k
    · rw [if_pos hA, if_neg (by omega), if_neg hC]
    · rw [if_neg hA, if_neg hC]

/-- `tril(k)` of `triu(k)` is `diag(k, fill=True)`: the same rows of `linear` and entries of `const` inside the
array -/
theorem tril_triu_eq_diagFill {a u t d : AffArr K} {m n : ℕ} (hs : a.shape = [m, n]) {k : Int}
    (hu : a.triu k = some u) (ht : u.tril k = some t) (hd : a.diagFill k = some d) (i j : ℕ) (hi : i < m)
    (hj : j < n) :
    (∀ c, t.coef (i * n + j) c = d.coef (i * n + j) c) ∧ t.cst (i * n + j) = d.cst (i * n + j) := by
  have hus := (triu_shape hu).1.trans hs
  obtain ⟨t1, t2⟩ := tril_rows hus ht i j hj
  obtain ⟨u1, u2⟩ := triu_rows hs hu i j hj
  obtain ⟨d1, d2⟩ := diagFill_rows hs hd i j hi hj
  refine ⟨fun c => ?_, ?_⟩
  · rw [t1, u1, d1, ite_ite_diag]
  · rw [t2, u2, d2, ite_ite_diag]

/-- the trace only sees the main diagonal: `trace(tril(a, k)) = trace(a)` for `k ≥ 0`, `trace(triu(a, k)) =
trace(a)` for `k ≤ 0`, `trace(diag(a, 0, fill=True)) = trace(a)`, as values -/
theorem trace_tril {a t b b' : AffArr K} {m n : ℕ} (hs : a.shape = [m, n]) {k : Int} (hk : 0 ≤ k)
    (ht : a.tril k = some t) (hb : a.trace = some b) (hb' : t.trace = some b') (x : ℕ → K) (p : ℕ) :
    b'.eval x p = b.eval x p := by
  rw [trace_eval ((tril_shape ht).1.trans hs) hb', trace_eval hs hb]
  refine Finset.sum_congr rfl fun i hi => ?_
  have hi' : i < min m n := Finset.mem_range.1 hi
  rw [tril_eval hs ht x i i (by omega)]
  simp [hk]

theorem trace_triu {a t b b' : AffArr K} {m n : ℕ} (hs : a.shape = [m, n]) {k : Int} (hk : k ≤ 0)
    (ht : a.triu k = some t) (hb : a.trace = some b) (hb' : t.trace = some b') (x : ℕ → K) (p : ℕ) :
    b'.eval x p = b.eval x p := by
  rw [trace_eval ((triu_shape ht).1.trans hs) hb', trace_eval hs hb]
  refine Finset.sum_congr rfl fun i hi => ?_
  have hi' : i < min m n := Finset.mem_range.1 hi
  rw [triu_eval hs ht x i i (by omega)]
  simp [hk]

theorem trace_diagFill {a t b b' : AffArr K} {m n : ℕ} (hs : a.shape = [m, n])
    (ht : a.diagFill 0 = some t) (hb : a.trace = some b) (hb' : t.trace = some b') (x : ℕ → K) (p : ℕ) :
    b'.eval x p = b.eval x p := by
  rw [trace_eval ((diagFill_shape ht).1.trans hs) hb', trace_eval hs hb]
  refine Finset.sum_congr rfl fun i hi => ?_
  have hi' : i < min m n := Finset.mem_range.1 hi
  rw [diagFill_eval hs ht x i i (by omega) (by omega)]
  simp

/-! ## 4. the NumPy meaning, sequences of operations, and the expressions of `RsomeV/M/AffExpr.lean` -/

section Rep
variable {x : ℕ → K} {n : ℕ}

theorem rep_mask {a : AffArr K} {v : Val K} (ha : Rep x n a v) (keep : ℕ → Bool) :
    Rep x n (a.mask keep) (a.shape, fun p => if keep p then v.2 p else 0) := by
  obtain ⟨hn, _, hv⟩ := ha
  refine ⟨hn, rfl, fun p hp => ?_⟩
  rw [eval_mask]
  by_cases h : keep p
  · simp only [h, if_true]; exact hv p hp
  · simp [h]

/-- one operation: if the code accepts, NumPy's operation on the value array is defined and the result of the code
represents it -/
theorem rep_post {a b : AffArr K} {v : Val K} (ha : Rep x n a v) (p : Post) (h : p.apply a = some b) :
    ∃ w, p.denote v = some w ∧ Rep x n b w := by
  have hsh := ha.2.1
  cases p with
  | tril k =>
    simp only [Post.apply, AffArr.tril] at h
    split at h
    · rename_i m c hs
      cases h
      refine ⟨_, ?_, rep_mask ha _⟩
      simp only [Post.denote, Val.tril, hsh, hs]
    · cases h
  | triu k =>
    simp only [Post.apply, AffArr.triu] at h
    split at h
    · rename_i m c hs
      cases h
      refine ⟨_, ?_, rep_mask ha _⟩
      simp only [Post.denote, Val.triu, hsh, hs]
    · cases h
  | diagFill k =>
    simp only [Post.apply, AffArr.diagFill] at h
    split at h
    · rename_i m c hs
      cases h
      refine ⟨_, ?_, rep_mask ha _⟩
      simp only [Post.denote, Val.diagFill, hsh, hs]
    · cases h
  | trace =>
    simp only [Post.apply, AffArr.trace] at h
    obtain ⟨d, hd, rfl⟩ := Option.map_eq_some_iff.1 h
    obtain ⟨w, hw, hrep⟩ := rep_diag ha hd
    exact ⟨_, by simp only [Post.denote, Val.trace, hw, Option.map_some], rep_sumAll hrep⟩

/-- a sequence of operations -/
theorem rep_posts (ps : List Post) : ∀ {a b : AffArr K} {v : Val K}, Rep x n a v → applyPosts a ps = some b →
    ∃ w, denotePosts v ps = some w ∧ Rep x n b w := by
  induction ps with
  | nil =>
    intro a b v ha h
    simp only [applyPosts, List.foldlM_nil] at h
    cases h
    exact ⟨v, rfl, ha⟩
  | cons p ps ih =>
    intro a b v ha h
    simp only [applyPosts, List.foldlM_cons] at h
    obtain ⟨a1, h1, h2⟩ := Option.bind_eq_some_iff.1 h
    obtain ⟨w1, hw1, hr1⟩ := rep_post ha p h1
    obtain ⟨w, hw, hr⟩ := ih hr1 h2
    refine ⟨w, ?_, hr⟩
    simp only [denotePosts, List.foldlM_cons, hw1]
    exact hw

/-- the code accepts an operation exactly when NumPy's operation is defined -/
theorem post_isSome_iff {a : AffArr K} {v : Val K} (ha : Rep x n a v) (p : Post) :
    (p.apply a).isSome ↔ (p.denote v).isSome := by
  have hsh := ha.2.1
  cases p with
  | tril k => simp only [Post.apply, Post.denote, AffArr.tril, Val.tril, hsh]; split <;> simp
  | triu k => simp only [Post.apply, Post.denote, AffArr.triu, Val.triu, hsh]; split <;> simp
  | diagFill k => simp only [Post.apply, Post.denote, AffArr.diagFill, Val.diagFill, hsh]; split <;> simp
  | trace =>
    simp only [Post.apply, Post.denote, AffArr.trace, Val.trace, AffArr.diag, Val.diag, hsh, Option.isSome_map]
    split <;> simp

end Rep

/-- **What the driver op `aff_tri` computes is NumPy's value.**  If the expression `e` compiles (model with `n`
columns) and the post operations `ps` are all accepted, giving the affine array `arr`, then NumPy's value of `e`
at any point `x` followed by NumPy's `tril / triu / trace / k-th diagonal` is defined, has the shape of `arr`, and
at every position inside the array it is `Σ_c linear[p, c] * x[c] + const[p]`. -/
theorem aff_tri_correct (n : ℕ) (e : Expr K) (ps : List Post) (arr : AffArr K)
    (h : (e.compile n).bind (fun a => applyPosts a ps) = some arr) (x : ℕ → K) :
    ∃ v : ℕ → K, (e.denote x).bind (fun w => denotePosts w ps) = some (arr.shape, v) ∧
      ∀ p, p < size arr.shape → v p = arr.eval x p := by
  obtain ⟨a, ha, hps⟩ := Option.bind_eq_some_iff.1 h
  obtain ⟨v0, hv0, hrep0⟩ := C05Expr.compile_rep x n e a ha
  obtain ⟨⟨s, v⟩, hw, _, hs, hk⟩ := rep_posts ps hrep0 hps
  simp only at hs
  subst hs
  exact ⟨v, by rw [hv0]; exact hw, hk⟩

/-! ## 5. concrete arrays -/

/-- the 2×3 array `x + [[10, 20, 30], [40, 50, 60]]` for a block `x` in columns 0..5 -/
def exA : AffArr ℤ :=
  { shape := [2, 3], ncols := 6, coef := fun p c => if c = p then 1 else 0
    cst := fun p => [10, 20, 30, 40, 50, 60].getD p 0 }

/-- shape, the rows of `linear`, `const` -/
def dump (a : AffArr ℤ) : List ℕ × List (List ℤ × ℤ) :=
  (a.shape, (List.range (size a.shape)).map fun p => ((List.range a.ncols).map (a.coef p), a.cst p))

set_option maxRecDepth 100000 in
/-- `tril(exA)`: entries `(0,1)`, `(0,2)`, `(1,2)` are zeroed (rows and constants), the others are untouched -/
example : (exA.tril 0).map dump = some ([2, 3],
    [([1, 0, 0, 0, 0, 0], 10), ([0, 0, 0, 0, 0, 0], 0), ([0, 0, 0, 0, 0, 0], 0),
     ([0, 0, 0, 1, 0, 0], 40), ([0, 0, 0, 0, 1, 0], 50), ([0, 0, 0, 0, 0, 0], 0)]) := by decide

set_option maxRecDepth 100000 in
/-- `triu(exA, 1)`: the complement of `tril(exA, 0)` -/
example : (exA.triu 1).map dump = some ([2, 3],
    [([0, 0, 0, 0, 0, 0], 0), ([0, 1, 0, 0, 0, 0], 20), ([0, 0, 1, 0, 0, 0], 30),
     ([0, 0, 0, 0, 0, 0], 0), ([0, 0, 0, 0, 0, 0], 0), ([0, 0, 0, 0, 0, 1], 60)]) := by decide

set_option maxRecDepth 100000 in
/-- `triu(exA, -1)` keeps everything, `tril(exA, -2)` nothing -/
example : (exA.triu (-1)).map dump = some (dump exA) ∧
    (exA.tril (-2)).map dump = some ([2, 3], List.replicate 6 ([0, 0, 0, 0, 0, 0], 0)) := by decide

set_option maxRecDepth 100000 in
/-- `trace(exA)` of the NON-SQUARE array: `x[0,0] + x[1,1] + 60` -/
example : exA.trace.map dump = some ([], [([1, 0, 0, 0, 1, 0], 60)]) := by decide

set_option maxRecDepth 100000 in
/-- `diag(exA, 1, fill=True)` keeps `(0,1)` and `(1,2)`; `diag(exA, 3, fill=True)` is the zero matrix (no error) -/
example : (exA.diagFill 1).map dump = some ([2, 3],
    [([0, 0, 0, 0, 0, 0], 0), ([0, 1, 0, 0, 0, 0], 20), ([0, 0, 0, 0, 0, 0], 0),
     ([0, 0, 0, 0, 0, 0], 0), ([0, 0, 0, 0, 0, 0], 0), ([0, 0, 0, 0, 0, 1], 60)]) ∧
    (exA.diagFill 3).map dump = some ([2, 3], List.replicate 6 ([0, 0, 0, 0, 0, 0], 0)) := by decide

set_option maxRecDepth 100000 in
/-- sequences: `trace(tril(exA, -1))` is `0`; after `trace` the array is 0-d and every further operation raises;
1-D and 3-D operands raise -/
example : (applyPosts exA [.tril (-1), .trace]).map dump = some ([], [([0, 0, 0, 0, 0, 0], 0)]) ∧
    (applyPosts exA [.trace, .tril 0]).isSome = false ∧
    (({ exA with shape := [6] } : AffArr ℤ).tril 0).isSome = false ∧
    (({ exA with shape := [1, 2, 3] } : AffArr ℤ).diagFill 0).isSome = false ∧
    (({ exA with shape := [6] } : AffArr ℤ).trace).isSome = false := by decide

end RsomeV.C05Tri
