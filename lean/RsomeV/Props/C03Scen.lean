import RsomeV.M.RoToRoc
import RsomeV.L.RoToRoc
import RsomeV.L.DroRows
import RsomeV.Props.C01
import Mathlib.Tactic.Linarith
import Mathlib.Tactic.Ring
import Mathlib.Tactic.NormNum

/-! C03 (scenario-wise constraints) — soundness of the items `dro.Model.ro_to_roc` emits.

`RoToRoc.roToRoc` (`M/RoToRoc.lean`) is the order-faithful, differential-tested (`test_ro_to_roc.py`)
model of the list `ro_to_roc(constr)` returns for a robust (`DecRoConstr`) or linear
(`DecLinConstr`) constraint of a dro model: per scenario `s` the constraint with the decision rule of
scenario `s` substituted, as an `RoConstr` carrying `.forall(support)` (compiled later by
`ro.Model.do_math` with `le_to_rc` over the conic dual of that support program) or — when no random part
is left — as a plain `LinConstr`; equalities are split into two inequalities (all scenarios of the left
half, then all of the right half), unless the constraint is linear and no decision adapts affinely.

Theorems:
1. `RoToRoc.subst_eval` (`L/RoToRoc.lean`)  the substitution lemma: the substituted row at `(v, z)` is the
   original row at the rule values `x_s(v, z)`;
2. `item_sound`     one successfully produced item: feasibility of its compiled form ⇒ the (half)
   constraint holds at `x_s(v, z)` on the whole attached support (via `C01.rc_sound`);
3. `ro_to_roc_sound`  the composition over the returned list: every scenario, every point of its
   support, `<=` rows hold, `==` rows hold with equality. -/

set_option linter.unusedSectionVars false
set_option linter.unusedSimpArgs false
set_option linter.unusedVariables false

namespace RsomeV.C03Scen
open Finset RsomeV ConeProg RoRows RoToRoc Dro

variable {K : Type} [Field K] [LinearOrder K] [IsStrictOrderedRing K]

/-- the hypotheses of `C01.rc_sound` on a support program `P` (`sup_model.do_math(obj=False)` of the
set's constraints; lifting columns behind the `nz` random components) -/
structure SuppWF (P : ConeProg K) (nz : ℕ) : Prop where
  wf   : P.WF
  ones : ∀ j, P.lp.c j = 1
  hnz  : nz ≤ P.lp.nc
  hq   : ∀ q ∈ P.qmat, ∀ j ∈ q, nz ≤ j
  hxq  : P.rowsRemoved = true → ∀ e ∈ P.xmat, ∀ j ∈ e, j ∉ P.eye

/-- what "the compiled fragment of the item is feasible at `v`" means: an `RoConstr` item is compiled
with `le_to_rc` over the conic dual of its support program; a `LinConstr` item is the rows themselves -/
def Item.FeasAt (E : K → K → K → Prop) (Pz : Tag → ConeProg K) (v : ℕ → K) (it : Item K) : Prop :=
  match it.tag with
  | some t => (it.row.leToRc (Pz t).coneDual).prog.Feas E v
  | none => ∀ n < it.row.m,
      if it.eq = true then it.row.eval n v (fun _ => 0) = 0 else it.row.eval n v (fun _ => 0) ≤ 0

/-- `z` lies in the support attached to scenario `s` (no condition when no set is attached: then the
items have no random part) -/
def InSupp (E : K → K → K → Prop) (Pz : Tag → ConeProg K) (amb : AmbSel) (nz s : ℕ) (z : ℕ → K) : Prop :=
  ∀ t, tagFor amb s = some t → suppOf (Pz t) E nz z

/-! ### 1. One item -/

/-- **Soundness of one item.**  If the loop body of `ro_to_roc` succeeds for scenario `s` of the (half)
constraint with expression `R` (over the vt_model's columns) and the compiled item is feasible at `v`,
then at every `z` of the attached support the expression at the rule values `x_s(v, z)` is `≤ 0`
(`= 0` for a `LinConstr` item of sense 1). -/
theorem item_sound (E : K → K → K → Prop) (hE : ExpPair E)
    (C : Constr K) (r : Rule) (amb : AmbSel) (nd h : ℕ) (eq : Bool) (R : RoRows K) (s : ℕ)
    (it : Item K) (hit : itemOf C r amb nd h eq R s = .ok it)
    (hnv : r.nv = R.nd) (hcc : ∀ d < r.nv, r.cc s d < nd)
    (hlc : ∀ d < r.nv, ∀ j < R.nz, r.mask d j = true → r.lcol s d j < nd)
    (hprod : ∀ n, ∀ j < R.nz, ∀ d < r.nv, R.Rl n j d ≠ 0 → ∀ j' < R.nz, r.mask d j' = false)
    (Pz : Tag → ConeProg K) (hP : ∀ t, tagFor amb s = some t → SuppWF (Pz t) R.nz)
    (v : ℕ → K) (hv : Item.FeasAt E Pz v it)
    (z : ℕ → K) (hz : InSupp E Pz amb R.nz s z) (n : ℕ) (hn : n < R.m) :
    (it.tag = none ∧ if eq = true then R.eval n (r.x R.nz s v z) z = 0
                     else R.eval n (r.x R.nz s v z) z ≤ 0)
    ∨ (it.tag ≠ none ∧ R.eval n (r.x R.nz s v z) z ≤ 0) := by
  obtain ⟨_, hrow, heq, hcase⟩ := itemOf_ok C r amb nd h eq R s it hit
  have hsub := subst_eval r s nd R hnv hcc hlc n (hprod n) v z
  unfold Item.FeasAt at hv
  rcases hcase with ⟨htag, hzero⟩ | ⟨htag, hne, _⟩
  · left
    refine ⟨htag, ?_⟩
    rw [htag] at hv
    simp only at hv
    have hv' := hv n (by rw [hrow]; exact hn)
    rw [heq, hrow, eval_of_randZero _ hzero n hn v (fun _ => 0) z, hsub] at hv'
    exact hv'
  · right
    refine ⟨hne, ?_⟩
    cases ht : tagFor amb s with
    | none => rw [ht] at htag; exact absurd htag hne
    | some t =>
      rw [ht] at htag
      rw [htag] at hv
      simp only at hv
      obtain ⟨ζ, hζ, hζz⟩ := hz t ht
      have hw := hP t ht
      rw [hrow] at hv
      have hrc := C01.rc_sound (Pz t) E hE hw.wf hw.ones (substRow r s nd R) hw.hnz hw.hq hw.hxq v hv n
        hn ζ hζ
      rw [RoRows.eval_congr (substRow r s nd R) n v ζ z hζz, hsub] at hrc
      exact hrc

/-! ### 2. The whole list -/

/-- under a rule without dependencies a linear expression keeps no random part -/
lemma substRow_detPart_randZero (r : Rule) (s nd : ℕ) (R : RoRows K)
    (hm : ∀ d < r.nv, ∀ j < R.nz, r.mask d j = false) :
    (substRow r s nd R.detPart).randZero = true := by
  rw [randZero_iff]
  intro n _ j hj
  refine ⟨rfl, ?_⟩
  intro c _
  show (∑ d ∈ range r.nv, if r.cc s d = c then (0:K) else 0) +
    (∑ d ∈ range r.nv, if r.mask d j = true ∧ r.lcol s d j = c then R.al n d else 0) = 0
  have h1 : (∑ d ∈ range r.nv, if r.cc s d = c then (0:K) else 0) = 0 := by
    apply Finset.sum_eq_zero; intro d _; split_ifs <;> rfl
  have h2 : (∑ d ∈ range r.nv, if r.mask d j = true ∧ r.lcol s d j = c then R.al n d else 0) = 0 := by
    apply Finset.sum_eq_zero
    intro d hd
    rw [hm d (Finset.mem_range.mp hd) j hj]
    simp
  rw [h1, h2, add_zero]

lemma isRo_false (r : Rule) (nz : ℕ) (h : r.isRo nz = false) :
    ∀ d < r.nv, ∀ j < nz, r.mask d j = false := by
  intro d hd j hj
  by_contra hm
  have hm' : r.mask d j = true := by
    cases hh : r.mask d j
    · exact absurd hh hm
    · rfl
  have : r.isRo nz = true := by
    unfold Rule.isRo
    rw [List.any_eq_true]
    refine ⟨d, List.mem_range.mpr hd, ?_⟩
    rw [List.any_eq_true]
    exact ⟨j, List.mem_range.mpr hj, hm'⟩
  rw [this] at h
  cases h

/-- **Soundness of `ro_to_roc`.**

Let `items` be the list the model of `dro.Model.ro_to_roc(constr)` returns (no exception) for the
constraint `C` — `C.orig … <= 0` or `== 0`, bi-affine over the vt_model's decision columns and the
random components —, the decision rules `r` (`rule_var()`), `S` scenarios and the set selection `amb`.
If one assignment `v` of the ro_model's columns (decision-rule coefficients and the multipliers
`le_to_rc` adds) is feasible for the compiled form of **every** item — `it.row.leToRc (Pz t).coneDual` for
an `RoConstr` item carrying the support program `Pz t`, the rows themselves for a `LinConstr` item —,
then for **every scenario `s`** and **every realisation `z` in the support attached to scenario `s`**
the ORIGINAL constraint holds at the decisions `x_s(z) = r.x … s v z` obtained by evaluating the rules
at `(v, z)`: `≤ 0` for an inequality, `= 0` for an equality.

Hypotheses, all explicit:
* `hnv`   the constraint is written over the vt_model's `num_var` columns;
* `hcc`, `hlc`  the rule's columns exist when the items are compiled (`nd h s` = padding width);
* `hrst`  `rst` covers the structural pattern of the random coefficients (`raf_linear.indices`);
* `hP`    the hypotheses of `C01.rc_sound` for every support program that is attached. -/
theorem ro_to_roc_sound (E : K → K → K → Prop) (hE : ExpPair E)
    (C : Constr K) (r : Rule) (S : ℕ) (amb : AmbSel) (nd : ℕ → ℕ → ℕ)
    (items : List (Item K)) (hok : roToRoc C r S amb nd = .ok items)
    (hnv : r.nv = C.rows.nd)
    (hcc : ∀ h, ∀ s < S, ∀ d < r.nv, r.cc s d < nd h s)
    (hlc : ∀ h, ∀ s < S, ∀ d < r.nv, ∀ j < C.rows.nz, r.mask d j = true → r.lcol s d j < nd h s)
    (hrst : ∀ n j d, C.rows.Rl n j d ≠ 0 → C.rst d = true)
    (Pz : Tag → ConeProg K)
    (hP : ∀ s < S, ∀ t, tagFor amb s = some t → SuppWF (Pz t) C.rows.nz)
    (v : ℕ → K) (hv : ∀ it ∈ items, Item.FeasAt E Pz v it) :
    ∀ s < S, ∀ z, InSupp E Pz amb C.rows.nz s z → ∀ n < C.rows.m,
      if C.eq = true then C.orig.eval n (r.x C.rows.nz s v z) z = 0
      else C.orig.eval n (r.x C.rows.nz s v z) z ≤ 0 := by
  intro s hs z hz n hn
  -- shape of the original expression
  have hO : C.orig.nd = C.rows.nd ∧ C.orig.nz = C.rows.nz ∧ C.orig.m = C.rows.m := by
    unfold Constr.orig; cases C.kind <;> exact ⟨rfl, rfl, rfl⟩
  obtain ⟨hOnd, hOnz, hOm⟩ := hO
  -- no random × adaptive product once the loop body did not raise
  have hprod : rejects C r = false →
      ∀ n, ∀ j < C.orig.nz, ∀ d < r.nv, C.orig.Rl n j d ≠ 0 → ∀ j' < C.orig.nz, r.mask d j' = false := by
    intro hrej n j hj d hd hne j' hj'
    cases hk : C.kind with
    | lin =>
      exfalso; apply hne
      unfold Constr.orig; rw [hk]; rfl
    | ro =>
      have hne' : C.rows.Rl n j d ≠ 0 := by
        have : C.orig = C.rows := by unfold Constr.orig; rw [hk]
        rw [this] at hne; exact hne
      exact not_rejects C r hk hrej d hd (hrst n j d hne') j' (by rw [← hOnz]; exact hj')
  have hprodN : rejects C r = false →
      ∀ n, ∀ j < C.orig.negate.nz, ∀ d < r.nv, C.orig.negate.Rl n j d ≠ 0 →
        ∀ j' < C.orig.negate.nz, r.mask d j' = false := by
    intro hrej n j hj d hd hne j' hj'
    apply hprod hrej n j hj d hd _ j' hj'
    intro h0; apply hne
    show - C.orig.Rl n j d = 0
    rw [h0, neg_zero]
  have hz' : InSupp E Pz amb C.orig.nz s z := by rw [hOnz]; exact hz
  have hP' : ∀ t, tagFor amb s = some t → SuppWF (Pz t) C.orig.nz := by
    rw [hOnz]; exact hP s hs
  unfold roToRoc at hok
  cases hsp : splits C r
  · -- not split: one item per scenario, sense kept
    rw [hsp] at hok
    simp only [Bool.false_eq_true, if_false] at hok
    obtain ⟨it, hmem, hit⟩ := half_ok C r S amb nd 0 C.eq C.orig items hok s hs
    have hrej := (itemOf_ok C r amb (nd 0 s) 0 C.eq C.orig s it hit).1
    have hI := item_sound E hE C r amb (nd 0 s) 0 C.eq C.orig s it hit (by rw [hOnd]; exact hnv)
      (hcc 0 s hs) (by rw [hOnz]; exact hlc 0 s hs) (hprod hrej) Pz hP' v (hv it hmem) z hz' n
      (by rw [hOm]; exact hn)
    rw [hOnz] at hI
    rcases hI with ⟨_, hI⟩ | ⟨htag, hI⟩
    · exact hI
    · cases heq : C.eq
      · simp only [Bool.false_eq_true, if_false]; exact hI
      · -- an equality that is not split is linear under a rule without dependencies: no `RoConstr` item
        exfalso
        unfold splits at hsp
        rw [heq] at hsp
        simp only [Bool.true_and, Bool.or_eq_false_iff] at hsp
        obtain ⟨hk, hro⟩ := hsp
        have hk' : C.kind = .lin := by
          cases hkk : C.kind
          · rw [hkk] at hk; simp at hk
          · rfl
        have horig : C.orig = C.rows.detPart := by unfold Constr.orig; rw [hk']
        have hzero : (substRow r s (nd 0 s) C.orig).randZero = true := by
          rw [horig]
          exact substRow_detPart_randZero r s (nd 0 s) C.rows (isRo_false r C.rows.nz hro)
        obtain ⟨_, _, _, hc⟩ := itemOf_ok C r amb (nd 0 s) 0 C.eq C.orig s it hit
        rcases hc with ⟨h0, _⟩ | ⟨_, _, hfalse⟩
        · exact htag h0
        · rw [hzero] at hfalse; cases hfalse
  · -- split: the left half and the right half, both `<= 0`
    rw [hsp] at hok
    simp only [if_true] at hok
    have heq : C.eq = true := by
      unfold splits at hsp
      rw [Bool.and_eq_true] at hsp
      exact hsp.1
    cases hl : half C r S amb nd 0 false C.orig with
    | error e => rw [hl] at hok; cases hok
    | ok l =>
      rw [hl] at hok
      cases hl' : half C r S amb nd 1 false C.orig.negate with
      | error e => rw [hl'] at hok; cases hok
      | ok l' =>
        rw [hl'] at hok
        simp only at hok
        have hitems : items = l ++ l' := by
          injection hok with h'; exact h'.symm
        obtain ⟨it, hmem, hit⟩ := half_ok C r S amb nd 0 false C.orig l hl s hs
        obtain ⟨it', hmem', hit'⟩ := half_ok C r S amb nd 1 false C.orig.negate l' hl' s hs
        have hrej := (itemOf_ok C r amb (nd 0 s) 0 false C.orig s it hit).1
        have hI := item_sound E hE C r amb (nd 0 s) 0 false C.orig s it hit (by rw [hOnd]; exact hnv)
          (hcc 0 s hs) (by rw [hOnz]; exact hlc 0 s hs) (hprod hrej) Pz hP' v
          (hv it (by rw [hitems]; exact List.mem_append_left _ hmem)) z hz' n (by rw [hOm]; exact hn)
        have hI' := item_sound E hE C r amb (nd 1 s) 1 false C.orig.negate s it' hit'
          (by show r.nv = C.orig.nd; rw [hOnd]; exact hnv)
          (hcc 1 s hs) (by show ∀ d < r.nv, ∀ j < C.orig.nz, _; rw [hOnz]; exact hlc 1 s hs)
          (hprodN hrej) Pz hP' v
          (hv it' (by rw [hitems]; exact List.mem_append_right _ hmem')) z hz' n
          (by show n < C.orig.m; rw [hOm]; exact hn)
        have h1 : C.orig.eval n (r.x C.rows.nz s v z) z ≤ 0 := by
          rw [hOnz] at hI
          rcases hI with ⟨_, hI⟩ | ⟨_, hI⟩
          · simpa using hI
          · exact hI
        have h2 : - C.orig.eval n (r.x C.rows.nz s v z) z ≤ 0 := by
          have hnz' : C.orig.negate.nz = C.rows.nz := hOnz
          rw [hnz', eval_negate] at hI'
          rcases hI' with ⟨_, hI'⟩ | ⟨_, hI'⟩
          · simpa using hI'
          · exact hI'
        rw [heq]
        simp only [if_true]
        linarith

/-! ### Example: one scenario, support `0 ≤ z ≤ 2`, constraint `x·z + w ≤ 4` with `w` affinely adaptive

`m = dro.Model(1)`, `z = m.rvar()`, `x = m.dvar()`, `w = m.dvar()`, `w.adapt(z)`, default support
`0 ≤ z ≤ 2` (the support program `C01.exPz`).  The vt_model has the columns `t` (epigraph), `x`, `w`;
`rule_var()` allocates `var_const` = ro_model columns 1–3 and `var_linear` = column 4 (the coefficient
of `w` on `z`): `t ↦ v₁`, `x ↦ v₂`, `w ↦ v₃ + v₄·z`.  The robust constraint `x·z + w - 4 <= 0` becomes the
single item `(v₂ + v₄)·z + v₃ - 4 <= 0  ∀ z ∈ [0, 2]`, compiled with one multiplier (column 5):
`v₃ - 2·Y ≤ 4`, `v₂ + v₄ + Y ≤ 0`, `Y ≤ 0`.  At `x = 2`, `w(z) = 2 - z` (`v₃ = 2`, `v₄ = -1`), `Y = -1`
it is feasible, and the theorem yields `x·z + w(z) - 4 = z - 2 ≤ 0` on the whole support. -/

/-- the decisions as `rule_var` sees them: `t`, `x` static, `w` depending on `z` -/
def exDecs : List Partition.DecM :=
  [⟨1, [[0]], [[false]]⟩, ⟨1, [[0]], [[false]]⟩, ⟨1, [[0]], [[true]]⟩]

/-- the rule tables (those `Rule.ofDecs 1 1 exDecs` computes, see the `example` below) -/
def exRule : Rule :=
  { nv := 3, cc := fun _ d => d + 1, mask := fun d j => d == 2 && j == 0, lcol := fun _ _ _ => 4 }

example : (Rule.ofDecs 1 1 exDecs).nv = exRule.nv
    ∧ (∀ d < 3, (Rule.ofDecs 1 1 exDecs).cc 0 d = exRule.cc 0 d)
    ∧ (∀ d < 3, (Rule.ofDecs 1 1 exDecs).mask d 0 = exRule.mask d 0)
    ∧ (Rule.ofDecs 1 1 exDecs).lcol 0 2 0 = exRule.lcol 0 2 0
    ∧ ruleWidth 1 exDecs = 5 := by decide

/-- `x·z + w - 4 <= 0` over the vt columns `t, x, w` -/
def exC : Constr ℚ :=
  { kind := .ro, eq := false
    rows := { nd := 3, m := 1, nz := 1
              Rl := fun _ _ d => if d = 1 then 1 else 0, Rc := fun _ _ => 0
              al := fun _ d => if d = 2 then 1 else 0, ac := fun _ => -4 }
    rst := fun d => d == 1 }

/-- the substituted row of scenario 0, padded to 5 columns -/
def exRow : RoRows ℚ := substRow exRule 0 5 exC.orig

def exItem : Item ℚ := { h := 0, s := 0, tag := some (.dflt 0), eq := false, row := exRow }

/-- `x = 2` (column 2), `w = 2 - z` (columns 3, 4), multiplier `Y = -1` (column 5) -/
def exV : ℕ → ℚ := fun c => if c = 2 then 2 else if c = 3 then 2 else if c = 4 then -1
  else if c = 5 then -1 else 0

lemma exRow_Rl (d : ℕ) : exRow.Rl 0 0 d = (if d = 2 then 1 else 0) + (if d = 4 then 1 else 0) := by
  show (∑ d' ∈ range 3, if d' + 1 = d then (if d' = 1 then (1:ℚ) else 0) else 0) +
    (∑ d' ∈ range 3, if (d' == 2 && 0 == 0) = true ∧ 4 = d then (if d' = 2 then (1:ℚ) else 0) else 0) = _
  simp only [Finset.sum_range_succ, Finset.sum_range_zero]
  have e1 : (2 = d) = (d = 2) := propext ⟨Eq.symm, Eq.symm⟩
  have e2 : (4 = d) = (d = 4) := propext ⟨Eq.symm, Eq.symm⟩
  simp [e1, e2]
lemma exRow_Rc : exRow.Rc 0 0 = 0 := rfl
lemma exRow_al (d : ℕ) : exRow.al 0 d = if d = 3 then 1 else 0 := by
  show (∑ d' ∈ range 3, if d' + 1 = d then (if d' = 2 then (1:ℚ) else 0) else 0) = _
  simp only [Finset.sum_range_succ, Finset.sum_range_zero]
  have e1 : (3 = d) = (d = 3) := propext ⟨Eq.symm, Eq.symm⟩
  simp [e1]
lemma exRow_ac : exRow.ac 0 = -4 := rfl
lemma exRow_nd : exRow.nd = 5 := rfl
lemma exRow_m : exRow.m = 1 := rfl
lemma exRow_nz : exRow.nz = 1 := rfl
lemma exNum : exRow.numRand C01.exPz.coneDual = 1 := by
  unfold RoRows.numRand; rw [exRow_nz, C01.exS_nr]; rfl

lemma ex_rejects : rejects exC exRule = false := by decide

lemma ex_randZero : exRow.randZero = false := by
  cases h : exRow.randZero
  · rfl
  · exfalso
    rw [randZero_iff] at h
    have := (h 0 (by decide) 0 (by decide)).2 2 (by decide)
    rw [exRow_Rl] at this
    norm_num at this

/-- the loop body produces the item -/
lemma ex_item : itemOf exC exRule .dflt 5 0 false exC.orig 0 = .ok exItem := by
  unfold itemOf
  rw [ex_rejects]
  simp only [Bool.false_eq_true, if_false]
  have h : (substRow exRule 0 5 exC.orig).randZero = false := ex_randZero
  rw [h]
  rfl

/-- the model returns exactly this item -/
lemma ex_ok : roToRoc exC exRule 1 .dflt (fun _ _ => 5) = .ok [exItem] := by
  have hs : splits exC exRule = false := rfl
  unfold roToRoc
  rw [hs]
  simp only [Bool.false_eq_true, if_false]
  show collect [itemOf exC exRule .dflt 5 0 false exC.orig 0] = _
  rw [ex_item]
  rfl

/-- the compiled item (`v₃ - 2Y ≤ 4`, `v₂ + v₄ + Y ≤ 0`, `Y ≤ 0`; `Y` = column 5) is feasible at `exV` -/
lemma ex_feas : (exRow.leToRc C01.exPz.coneDual).prog.Feas (fun _ _ _ => False) exV := by
  have hnr : (exRow.leToRc C01.exPz.coneDual).prog.lp.nr = 2 := by
    rw [leToRc_nr, exNum, C01.exS_nr, exRow_m]
    have : exRow.n4 C01.exPz.coneDual = 0 := by
      unfold RoRows.n4 RoRows.latePresent
      rw [exNum, exRow_nz]; simp
    rw [this]
  have hnc : (exRow.leToRc C01.exPz.coneDual).prog.lp.nc = 6 := by
    rw [leToRc_nc, C01.exS_nc, exRow_nd, exRow_m]
  refine ⟨⟨?_, ?_, ?_⟩, ?_, ?_⟩
  · intro i hi
    rw [hnr] at hi
    obtain rfl | rfl : i = 0 ∨ i = 1 := by omega
    · have h := leToRc_row1 exRow C01.exPz.coneDual 0 (by rw [exRow_m]; omega) exV
      rw [h, leToRc_b1 _ _ 0 (by rw [exRow_m]; omega), leToRc_eq1 _ _ 0 (by rw [exRow_m]; omega),
        C01.exS_nc, exRow_nd, exRow_ac]
      simp [Finset.sum_range_succ, exRow_al, C01.exS_c, exV, ycol, C01.exS_nc, exRow_nd]
      norm_num
    · have h := leToRc_row2 exRow C01.exPz.coneDual 0 (by rw [exRow_m]; omega) 0
        (by rw [exNum]; omega) exV
      have hb := leToRc_b2 exRow C01.exPz.coneDual 0 (by rw [exRow_m]; omega) 0
        (by rw [exNum]; omega)
      have he := leToRc_eq2 exRow C01.exPz.coneDual 0 (by rw [exRow_m]; omega) 0
        (by rw [exNum]; omega)
      rw [exNum, exRow_m] at h hb he
      have e1 : 1 + (0 * 1 + 0) = 1 := rfl
      rw [e1] at h hb he
      rw [h, hb, he, C01.exS_eq, C01.exS_nc, exRow_nd, exRow_Rc]
      simp [Finset.sum_range_succ, exRow_Rl, C01.exS_a, C01.exS_b, exV, ycol, C01.exS_nc, exRow_nd]
      norm_num
  · intro j hj
    rw [hnc] at hj
    have hub : ∀ c, (exRow.leToRc C01.exPz.coneDual).prog.lp.ub c
        = if (5 ≤ c ∧ c < 6) ∧ C01.exPz.coneDual.lp.ub ((c - 5) % 1) = some 0 then some 0 else none := by
      intro c
      simp [leToRc, exRow_nd, exRow_m, C01.exS_nc]
    unfold LinProg.leUb
    rw [hub]
    obtain rfl | rfl | rfl | rfl | rfl | rfl : j = 0 ∨ j = 1 ∨ j = 2 ∨ j = 3 ∨ j = 4 ∨ j = 5 := by omega
    all_goals simp [C01.exS_ub, exV]
  · intro j hj
    have hlb : ∀ c, (exRow.leToRc C01.exPz.coneDual).prog.lp.lb c = none := by
      intro c
      simp [leToRc, C01.exS_nc, C01.exS_lb, Nat.mod_one]
    unfold LinProg.geLb
    rw [hlb]
    trivial
  · intro q hq
    simp [leToRc, C01.exS_q] at hq
  · intro e he
    simp [leToRc, C01.exS_x] at he

lemma exPz_suppWF : SuppWF C01.exPz 1 where
  wf := C01.exPz_wf
  ones := fun _ => rfl
  hnz := le_refl _
  hq := by intro q hq; simp [C01.exPz] at hq
  hxq := by intro _ e he; simp [C01.exPz] at he

/-- **`ro_to_roc_sound` on the instance**: all hypotheses hold, so on the whole support `0 ≤ z ≤ 2` the
original constraint holds at the rule values `x = 2`, `w(z) = 2 - z` -/
theorem ex_sound (z : ℕ → ℚ) (hz : suppOf C01.exPz (fun _ _ _ => False) 1 z) :
    exC.orig.eval 0 (exRule.x 1 0 exV z) z ≤ 0 := by
  have h := ro_to_roc_sound (fun _ _ _ => False) (fun _ _ _ _ _ _ h _ => h.elim) exC exRule 1 .dflt
    (fun _ _ => 5) [exItem] ex_ok rfl
    (by intro _ s _ d hd; show d + 1 < 5; have : d < 3 := hd; omega)
    (by intro _ s _ d _ j _ _; show 4 < 5; omega)
    (by intro n j d hne
        show (d == 1) = true
        have : d = 1 := by
          by_contra hd
          apply hne
          show (if d = 1 then (1:ℚ) else 0) = 0
          rw [if_neg hd]
        simp [this])
    (fun _ => C01.exPz) (fun _ _ _ _ => exPz_suppWF) exV
    (by intro it hit
        have : it = exItem := by simpa using hit
        subst this
        exact ex_feas)
    0 (by decide) z (fun _ _ => hz) 0 (by decide)
  have heq : exC.eq = false := rfl
  simp only [heq, Bool.false_eq_true, if_false] at h
  exact h

/-- the value the theorem bounds: `x·z + w(z) - 4 = 2z + (2 - z) - 4 = z - 2` -/
example (z : ℕ → ℚ) : exC.orig.eval 0 (exRule.x 1 0 exV z) z = z 0 - 2 := by
  unfold RoRows.eval Constr.orig Rule.x
  simp [exC, exRule, exV, Finset.sum_range_succ]
  ring


end RsomeV.C03Scen
