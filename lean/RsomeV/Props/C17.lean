import RsomeV.Gen.Guards
import RsomeV.Props.C09

/-! # C17 — misuse fails loudly and models do not interfere with each other -/

namespace RsomeV.C17
open RsomeV.Gen RsomeV.State

/-- is there, in the guard table extracted from the source, a `raise` of class `exc` in `modl.cls.fn` whose enclosing
conditions mention all of `names`? -/
def hasGuard (modl cls fn exc : String) (names : List String) : Bool :=
  guards.any fun g => g.modl == modl && g.cls == cls && g.fn == fn && g.exc == exc && names.all (g.names.contains ·)

/-- the misuse patterns of the property and the guard each one needs: (module, class, function, exception, names in the test) -/
def required : List (String × String × String × String × List String) := [
  -- constraints / variables / sets of another model
  ("ro", "Model", "st", "ValueError", ["model", "rc_model"]),
  ("ro", "Model", "st", "ValueError", ["dec_model", "rc_model", "rand_model", "sup_model"]),
  ("ro", "Model", "st", "TypeError", ["constr"]),
  ("ro", "Model", "minmax", "ValueError", ["model", "sup_model"]),
  ("ro", "Model", "maxmin", "ValueError", ["model", "sup_model"]),
  ("lp", "RoConstr", "forall", "ValueError", ["model", "sup_model"]),
  ("dro", "Model", "st", "ValueError", ["model", "vt_model"]),
  ("dro", "Model", "st", "ValueError", ["dec_model", "vt_model", "rand_model", "sup_model"]),
  ("dro", "Model", "st", "TypeError", ["constr"]),
  ("lp", "Scen", "suppset", "ValueError", ["model", "sup_model"]),
  ("lp", "Scen", "exptset", "ValueError", ["model", "exp_model"]),
  ("dro", "Ambiguity", "probset", "ValueError", ["model", "pro_model"]),
  ("lp", "DecRoConstr", "forall", "ValueError", ["model", "rand_model"]),
  ("math", "", "maxof", "ValueError", ["model", "this_model", "top"]),
  -- (guards added by the repairs c46f067 / 4400c91 / e826511: foreign pieces, ambiguity sets, scenarios, atom operands)
  ("dro", "Model", "st", "ValueError", ["piece", "model", "vt_model"]),
  ("dro", "Model", "st", "ValueError", ["piece", "dec_model", "rand_model", "vt_model", "sup_model"]),
  ("dro", "Model", "minsup", "ValueError", ["ambset", "model"]),
  ("dro", "Model", "maxinf", "ValueError", ["ambset", "model"]),
  ("lp", "DecLinConstr", "forall", "ValueError", ["ambset", "model", "top"]),
  ("lp", "DecVar", "evtadapt", "ValueError", ["ambset", "dro_model", "model"]),
  ("lp", "Convex", "__add__", "ValueError", ["model", "other"]),
  ("lp", "DecAffine", "expcone", "ValueError", ["model", "x", "Vars"]),
  ("lp", "DecAffine", "expcone", "ValueError", ["model", "z", "Vars"]),
  -- (guards added by a later repair: solved rules / expressions evaluated at or queried for a foreign random variable)
  ("lp", "RoAffine", "__call__", "ValueError", ["rvar", "model", "rand_model"]),
  ("lp", "DecRoAffine", "__call__", "ValueError", ["rvar", "model", "rand_model"]),
  ("lp", "DecVar", "get", "ValueError", ["rvar", "model", "sup_model"]),
  ("lp", "DecRule", "get", "ValueError", ["rvar", "model", "sup_model"]),
  -- an objective cannot be redefined; objective expressions must be scalar
  ("ro", "Model", "min", "SyntaxError", ["obj"]), ("ro", "Model", "max", "SyntaxError", ["obj"]),
  ("ro", "Model", "minmax", "SyntaxError", ["obj"]), ("ro", "Model", "maxmin", "SyntaxError", ["obj"]),
  ("dro", "Model", "min", "SyntaxError", ["obj"]), ("dro", "Model", "max", "SyntaxError", ["obj"]),
  ("dro", "Model", "minsup", "SyntaxError", ["obj"]), ("dro", "Model", "maxinf", "SyntaxError", ["obj"]),
  ("ro", "Model", "min", "ValueError", ["size"]), ("ro", "Model", "max", "ValueError", ["size"]),
  ("ro", "Model", "minmax", "ValueError", ["size"]), ("ro", "Model", "maxmin", "ValueError", ["size"]),
  ("dro", "Model", "min", "ValueError", ["size"]), ("dro", "Model", "max", "ValueError", ["size"]),
  ("dro", "Model", "minsup", "ValueError", ["size"]), ("dro", "Model", "maxinf", "ValueError", ["size"]),
  -- results of an unsolved or failed model cannot be read
  ("ro", "Model", "get", "RuntimeError", ["solution"]), ("ro", "Model", "get", "RuntimeError", ["isnan", "objval"]),
  ("dro", "Model", "get", "RuntimeError", ["solution"]), ("dro", "Model", "get", "RuntimeError", ["isnan", "objval"]),
  ("lp", "Vars", "get", "RuntimeError", ["solution"]), ("lp", "Vars", "get", "RuntimeError", ["isnan", "objval"]),
  ("lp", "DecVar", "get", "RuntimeError", ["solution"]), ("lp", "DecVar", "get", "RuntimeError", ["isnan", "objval"]),
  ("lp", "DecRule", "get", "RuntimeError", ["solution"]), ("lp", "DecRule", "get", "RuntimeError", ["isnan", "objval"]),
  ("lp", "LinConstr", "dual", "RuntimeError", ["solution"]), ("lp", "Bounds", "dual", "RuntimeError", ["solution"]),
  -- an ambiguity set cannot be created after constraints exist
  ("dro", "Model", "ambiguity", "SyntaxError", ["all_constr"])
]

/-- **`guards_present`**: every misuse pattern the property lists has, in the current source (table regenerated on every
run), a guard of the expected exception class in the method that receives the foreign or premature object. -/
theorem guards_present : ∀ r ∈ required, hasGuard r.1 r.2.1 r.2.2.1 r.2.2.2.1 r.2.2.2.2 = true := by
  decide +kernel

/-- the objective-redefinition guard tests `obj is not None` (a guard on truthiness would let `min(0)` be redefined): the
names of the condition are exactly `obj` and `self` -/
theorem redefinition_guard_is_identity_test :
    ∀ g ∈ guards, g.exc = "SyntaxError" → g.fn ∈ ["min", "max", "minmax", "maxmin", "minsup", "maxinf"] → g.names = ["obj", "self"] := by
  decide +kernel

/-! ### non-interference: two models are two separate states -/

variable {C F : Type}

/-- an operation addressed to one of two models -/
inductive Which | A | B

def step2 (form : List C → F) (s : Scratch C F × Scratch C F) (w : Which) (op : Op C) : Scratch C F × Scratch C F :=
  match w with
  | .A => (step form s.1 op, s.2)
  | .B => (s.1, step form s.2 op)

/-- **`frame`**: an operation on model B leaves model A's state — hence every later answer of A — unchanged. -/
theorem frame (form : List C → F) (s : Scratch C F × Scratch C F) (op : Op C) :
    (step2 form s .B op).1 = s.1 ∧ (doMath form (step2 form s .B op).1).1 = (doMath form s.1).1 := by
  exact ⟨rfl, rfl⟩

/-- **`frame_run`**: for any interleaving of operations on A and B, A ends in the state it reaches on its own operations alone -/
theorem frame_run (form : List C → F) (s : Scratch C F × Scratch C F) (ops : List (Which × Op C)) :
    (ops.foldl (fun st o => step2 form st o.1 o.2) s).1 =
      ((ops.filterMap fun o => match o.1 with | .A => some o.2 | .B => none).foldl (step form) s.1) := by
  induction ops generalizing s with
  | nil => rfl
  | cons o ops ih =>
    obtain ⟨w, op⟩ := o
    cases w with
    | A => simp only [List.foldl_cons, List.filterMap_cons]; rw [ih]; rfl
    | B => simp only [List.foldl_cons, List.filterMap_cons]; rw [ih]; rfl

end RsomeV.C17
