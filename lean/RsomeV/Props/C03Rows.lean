import RsomeV.M.DroRows
import RsomeV.L.DroRows
import RsomeV.Props.C01
import RsomeV.Props.C03
import Mathlib.Tactic.Linarith
import Mathlib.Tactic.Ring
import Mathlib.Tactic.NormNum

/-! C03 (rows) — the rows `dro.Model.dro_to_roc` emits, and the composition of their compiled forms.

`Dro.droToRoc` (`M/DroRows.lean`) is the order-faithful, differential-tested (`test_dro_rows.py`)
model of the list `dro_to_roc` returns for one row of an expectation constraint
`E(max_l piece_l) <= 0`:

* `first`  — the first-stage row `alpha @ p + Σ_k mu_k @ beta[:, k] <= 0` over the lifted support, which
  the code compiles at once with `le_to_rc(mix_support(primal=False))`;
* `second` — for every scenario `s` and piece `l` the row
  `piece_{s,l}(x, z) - alpha[s] - Σ_{k ∋ s} beta[:, k]·z <= 0` with `.forall(sup_constr[s])` (compiled later
  by `ro.Model.do_math` with `le_to_rc` over the conic dual of scenario `s`'s support program), or a
  plain `LinConstr` when no random part is present.

Theorems:
1. `first_stage_is_droRow`  the first-stage row of the model *is* `Dro.droRow` with the column layout
   `alpha[s] ↦ acol0 + s`, `beta[j, k] ↦ acol0 + S + j·nE + k`, and these columns exist when the row
   is compiled;
2. `second_stage_gives_H2`  feasibility of the compiled second-stage items ⇒ hypothesis (H2) of
   `C03.dro_sound` (via `C01.rc_sound`);
3. `dro_rows_sound`         the composition: feasibility of *all* compiled items at one assignment `v`
   ⇒ `Σ_s π_s · E_s[max_l piece_{s,l}(v, z̃)] ≤ 0` for every admissible distribution
   (via `C03.dro_sound_end_to_end`). -/

set_option linter.unusedSectionVars false
set_option linter.unusedSimpArgs false
set_option linter.unusedVariables false

namespace RsomeV.C03Rows
open Finset RsomeV ConeProg RoRows Dro

variable {K : Type} [Field K] [LinearOrder K] [IsStrictOrderedRing K]

/-- the integrand of scenario `s`: the largest piece (under the scenario's decision rule) -/
def pwMax (I : DroIn K) (hnp : 0 < I.np) (s : ℕ) (v z : ℕ → K) : K :=
  (range I.np).sup' ⟨0, mem_range.mpr hnp⟩ fun l => I.pieceVal s l v z

/-! ### 1. The first stage -/

/-- **The first-stage row is `droRow`** with `acol s = acol0 + s`, `bcol k j = acol0 + S + j·nE + k`
(`beta` of shape `(num_rand, num_event)`, row-major), over `firstNd = acol0 + S + num_rand·nE`
decision columns; every multiplier column lies below `firstNd` (the shape hypotheses `hacol`,
`hbcol` of `C03.dro_sound_compiled`). -/
theorem first_stage_is_droRow (pro : ConeProg K) (exps : List (ConeProg K × List ℕ)) (I : DroIn K)
    (nd2 : ℕ → ℕ → ℕ) :
    (droToRoc pro exps I nd2).first
        = droRow pro exps I.S I.nrand (I.firstNd exps.length) I.acol (I.bcol exps.length)
    ∧ (∀ s < I.S, I.acol s < I.firstNd exps.length)
    ∧ (∀ k < exps.length, ∀ j < I.nrand, I.bcol exps.length k j < I.firstNd exps.length) :=
  ⟨rfl, fun s hs => acol_lt I s hs exps.length, fun k hk j hj => bcol_lt I exps.length k j hk hj⟩

/-! ### 2. The second stage -/

/-- **(H2) from the compiled second-stage items.**  `Pz s` is the support program of scenario `s`
(`sup_model.do_math(obj=False)` for `sup_constr[s]`, lifting columns behind the `nrand` random
components); the item `(s, l)` is compiled with `le_to_rc` over `(Pz s).coneDual` (what
`.forall(sup_constr[s])` stores).  If `v` is feasible for every compiled item — for a `LinConstr`
item: the row itself holds —, then on the support of scenario `s`
`max_l piece_{s,l}(v, z) ≤ α_s + Σ_{k ∋ s} Σ_j β_{k,j} z_j` with `α_s = v (acol s)`,
`β_{k,j} = v (bcol k j)`.

Hypotheses:
* `hnd2`   the columns of `alpha`, `beta` exist when item `(s, l)` is compiled;
* `hRl`, `hal`  the pieces mention only columns created before `alpha` (`acol0`);
* `hlin`   a `LinConstr` item has no random part in its piece (the code emits a `LinConstr` only if
           the piece is a `DecLinConstr` and the rule is not a `RoAffine`);
* `hwfZ`, `honesZ`, `hnzZ`, `hqZ`, `hxqZ`  the hypotheses of `C01.rc_sound` for every scenario
  support. -/
theorem second_stage_gives_H2 (pro : ConeProg K) (exps : List (ConeProg K × List ℕ))
    (E : K → K → K → Prop) (hE : ExpPair E)
    (I : DroIn K) (nd2 : ℕ → ℕ → ℕ) (hnp : 0 < I.np)
    (hnd2 : ∀ s < I.S, ∀ l < I.np, I.firstNd exps.length ≤ nd2 s l)
    (hRl : ∀ s l j d, I.acol0 ≤ d → I.Rl s l j d = 0)
    (hal : ∀ s l d, I.acol0 ≤ d → I.al s l d = 0)
    (hlin : ∀ s l, isLin exps I s l = true → ∀ j, (∀ d, I.Rl s l j d = 0) ∧ I.Rc s l j = 0)
    (Pz : ℕ → ConeProg K) (hwfZ : ∀ s < I.S, (Pz s).WF)
    (honesZ : ∀ s < I.S, ∀ j, (Pz s).lp.c j = 1)
    (hnzZ : ∀ s < I.S, I.nrand ≤ (Pz s).lp.nc)
    (hqZ : ∀ s < I.S, ∀ q ∈ (Pz s).qmat, ∀ j ∈ q, I.nrand ≤ j)
    (hxqZ : ∀ s < I.S, (Pz s).rowsRemoved = true → ∀ e ∈ (Pz s).xmat, ∀ j ∈ e, j ∉ (Pz s).eye)
    (v : ℕ → K)
    (hv2 : ∀ r ∈ (droToRoc pro exps I nd2).second,
      if r.lin = true then r.row.eval 0 v (fun _ => 0) ≤ 0
      else (r.row.leToRc (Pz r.s).coneDual).prog.Feas E v) :
    ∀ s < I.S, ∀ z, suppOf (Pz s) E I.nrand z →
      pwMax I hnp s v z ≤ v (I.acol s) + ∑ k ∈ range exps.length,
        if s ∈ idx exps k then ∑ j ∈ range I.nrand, v (I.bcol exps.length k j) * z j else 0 := by
  intro s hs z hz
  obtain ⟨ζ, hζ, hζz⟩ := hz
  unfold pwMax
  apply Finset.sup'_le
  intro l hl
  have hl' := Finset.mem_range.mp hl
  have hmem := mem_second pro exps I nd2 s l hs hl'
  have h2 := hv2 _ hmem
  simp only at h2
  cases hb : isLin exps I s l
  · -- an `RoConstr` item: `C01.rc_sound` over the scenario's support
    rw [hb] at h2
    simp only [Bool.false_eq_true, if_false] at h2
    have hnz' : (row2 exps I (nd2 s l) s l).nz = I.nrand := by
      unfold row2; rw [hb]; rfl
    have hm' : (row2 exps I (nd2 s l) s l).m = 1 := by
      unfold row2; rw [hb]; rfl
    have hrc := C01.rc_sound (Pz s) E hE (hwfZ s hs) (honesZ s hs) (row2 exps I (nd2 s l) s l)
      (by rw [hnz']; exact hnzZ s hs) (by rw [hnz']; exact hqZ s hs) (hxqZ s hs) v h2 0
      (by rw [hm']; omega) ζ hζ
    rw [RoRows.eval_congr _ 0 v ζ z (by rw [hnz']; exact hζz),
      row2_eval_ro exps I s l hs (nd2 s l) (hnd2 s hs l hl') hb (hRl s l) (hal s l) v z] at hrc
    linarith
  · -- a `LinConstr` item
    rw [hb] at h2
    simp only [if_true] at h2
    rw [row2_eval_lin exps I s l hs (nd2 s l) (hnd2 s hs l hl') hb (hlin s l hb) (hal s l) v z] at h2
    linarith

/-! ### 3. The composition -/

/-- **Soundness of the rows of `dro_to_roc`, end to end.**

Let `O = droToRoc pro exps I nd2` be the model of the list `dro_to_roc` returns for one row of an
expectation constraint `E(max_l piece_l) <= 0` (`pro`, `exps`: the probability program and the
expectation programs with their events, the inputs of `mix_support`; `I`: the pieces after rule
substitution).  If one assignment `v` (decisions, `alpha`, `beta`, and the multipliers `le_to_rc`
adds) is feasible
* for the compiled first-stage row `O.first.leToRc (mixSupport pro exps).coneDual`, and
* for every compiled second-stage item `r.row.leToRc (Pz r.s).coneDual` (`Pz s` the support program
  of scenario `s`; a `LinConstr` item holds as it stands),
then for every admissible distribution — scenario probabilities `π` feasible for the probability
program, conditional expectation operators `Es s` on the scenario supports, and conditional means
`ν k` of every event feasible for the expectation programs (`hμ` ties them to `π`, `Es`) —

  `Σ_s π_s · E_s[ max_l piece_{s,l}(v, z̃) ] ≤ 0`.

Hypotheses, all explicit: those of `C03.dro_sound_end_to_end` on the ambiguity set (`hE` … `hlay`,
`hS`, `hnz`; the shape hypotheses `hacol`, `hbcol` are *proved* from the column layout), those of
`second_stage_gives_H2` on the pieces and the scenario supports, and the distribution. -/
theorem dro_rows_sound (pro : ConeProg K) (exps : List (ConeProg K × List ℕ))
    (E : K → K → K → Prop) (hE : ExpPair E)
    (hEsc : ∀ t a b c : K, 0 ≤ t → E a b c → E (t * a) (t * b) (t * c))
    (hst : ∀ i j, pro.lp.a i j ≠ 0 → pro.st i j = true)
    (hqp : ∀ q ∈ pro.qmat, ∀ j ∈ q, j < pro.lp.nc)
    (hxl : ∀ e ∈ pro.xmat, e.length = 3) (hxp : ∀ e ∈ pro.xmat, ∀ j ∈ e, j < pro.lp.nc)
    (hqe : ∀ k < exps.length, ∀ q ∈ (blk exps k).qmat, ∀ j ∈ q, j < (blk exps k).lp.nc)
    (hxle : ∀ k < exps.length, ∀ e ∈ (blk exps k).xmat, e.length = 3)
    (hxe : ∀ k < exps.length, ∀ e ∈ (blk exps k).xmat, ∀ j ∈ e, j < (blk exps k).lp.nc)
    (hidx : ∀ k < exps.length, ∀ s ∈ idx exps k, s < pro.lp.nc)
    (hlay : (mixSupport pro exps).rowsRemoved = false)
    -- the constraint row
    (I : DroIn K) (nd2 : ℕ → ℕ → ℕ) (hnp : 0 < I.np)
    (hS : I.S ≤ pro.lp.nc) (hnz : ∀ k < exps.length, I.nrand ≤ (blk exps k).lp.nc)
    (hnd2 : ∀ s < I.S, ∀ l < I.np, I.firstNd exps.length ≤ nd2 s l)
    (hRl : ∀ s l j d, I.acol0 ≤ d → I.Rl s l j d = 0)
    (hal : ∀ s l d, I.acol0 ≤ d → I.al s l d = 0)
    (hlin : ∀ s l, isLin exps I s l = true → ∀ j, (∀ d, I.Rl s l j d = 0) ∧ I.Rc s l j = 0)
    -- the scenario supports
    (Pz : ℕ → ConeProg K) (hwfZ : ∀ s < I.S, (Pz s).WF)
    (honesZ : ∀ s < I.S, ∀ j, (Pz s).lp.c j = 1)
    (hnzZ : ∀ s < I.S, I.nrand ≤ (Pz s).lp.nc)
    (hqZ : ∀ s < I.S, ∀ q ∈ (Pz s).qmat, ∀ j ∈ q, I.nrand ≤ j)
    (hxqZ : ∀ s < I.S, (Pz s).rowsRemoved = true → ∀ e ∈ (Pz s).xmat, ∀ j ∈ e, j ∉ (Pz s).eye)
    -- one assignment feasible for everything the code emits
    (v : ℕ → K)
    (hv1 : ((droToRoc pro exps I nd2).first.leToRc (mixSupport pro exps).coneDual).prog.Feas E v)
    (hv2 : ∀ r ∈ (droToRoc pro exps I nd2).second,
      if r.lin = true then r.row.eval 0 v (fun _ => 0) ≤ 0
      else (r.row.leToRc (Pz r.s).coneDual).prog.Feas E v)
    -- the distribution
    (π : ℕ → K) (hπ : pro.Feas E π) (hπ0 : ∀ s < I.S, 0 ≤ π s)
    (Es : ℕ → ((ℕ → K) → K) → K)
    (hEs : ∀ s < I.S, CondExp (suppOf (Pz s) E I.nrand) (Es s))
    (ν : ℕ → ℕ → K) (hν : ∀ k < exps.length, (blk exps k).Feas E (ν k))
    (ht : ∀ k < exps.length, 0 ≤ evProb exps k π)
    (hμ : ∀ k < exps.length, ∀ j < I.nrand, evProb exps k π * ν k j
        = ∑ s ∈ range I.S, if s ∈ idx exps k then π s * Es s (fun z => z j) else 0) :
    ∑ s ∈ range I.S, π s * Es s (fun z => pwMax I hnp s v z) ≤ 0 := by
  have H2 := second_stage_gives_H2 pro exps E hE I nd2 hnp hnd2 hRl hal hlin Pz hwfZ honesZ hnzZ hqZ
    hxqZ v hv2
  exact C03.dro_sound_end_to_end pro exps E hE hEsc hst hqp hxl hxp hqe hxle hxe hidx hlay
    I.S I.nrand (I.firstNd exps.length) I.acol (I.bcol exps.length) hS hnz
    (fun s hs => acol_lt I s hs exps.length) (fun k hk j hj => bcol_lt I exps.length k j hk hj)
    v hv1 π hπ hπ0 (fun s => suppOf (Pz s) E I.nrand) Es hEs ν hν ht hμ
    (fun s z => pwMax I hnp s v z) H2

/-! ### Example: one scenario, `E(z̃) == 2`, support `0 ≤ z ≤ 2`, constraint `E(z̃ - 2) <= 0`

The ambiguity set is that of the `dro_sound_compiled` example of `Props/C03.lean` (`p_0 = 1`,
`E(z) == 2`), the support program that of the `rc_sound` example of `Props/C01.lean`.  There is no
decision column before `alpha` (`acol0 = 0`): `alpha` is column 0, `beta` column 1, the multipliers
of the compiled first-stage row are columns 2–4 and the multiplier of the compiled second-stage
row column 5.  With `α = -2`, `β = 1` the second-stage row `(z - 2) - α - β z <= 0` reads `0 <= 0`. -/

/-- the piece `z - 2` (no decision), one scenario, one random component -/
def exI : DroIn ℚ :=
  { S := 1, nrand := 1, acol0 := 0, np := 1, rand := fun _ => true, ruleRo := false
    Rl := fun _ _ _ _ => 0, Rc := fun _ _ _ => 1, al := fun _ _ _ => 0, ac := fun _ _ => -2 }

/-- the model of the list `dro_to_roc` returns; second-stage items padded to 5 columns -/
def exOut : DroOut ℚ := droToRoc C03.exPro1 C03.exExps1 exI (fun _ _ => 5)

/-- the only second-stage item -/
def exRow2 : RoRows ℚ := row2 C03.exExps1 exI 5 0 0

example : exOut.second.length = 1 := by
  rw [exOut, second_length]; rfl

/-- the first-stage row is the row `exRow` of `Props/C03.lean` -/
lemma exOut_first : exOut.first = C03.exRow := by
  show droRow C03.exPro1 C03.exExps1 1 1 2 exI.acol (exI.bcol 1) = _
  apply droRow_congr
  · intro s hs
    have : s = 0 := by omega
    subst this; rfl
  · intro k hk o ho
    have hk' : k < 1 := hk
    have : k = 0 := by omega
    subst this
    have : o = 0 := by omega
    subst this; rfl

lemma exIsLin : isLin C03.exExps1 exI 0 0 = false := by decide

/-- coefficient of `z`: `-β` (column 1) and the constant `1`; deterministic part `-α - 2` -/
lemma exRow2_Rl (d : ℕ) : exRow2.Rl 0 0 d = if d = 1 then -1 else 0 := by
  unfold exRow2 row2
  rw [exIsLin]
  simp only [Bool.false_eq_true, if_false]
  unfold betaCoef
  have hl : C03.exExps1.length = 1 := rfl
  have h0 : 0 ∈ idx C03.exExps1 0 := by decide
  have hb : exI.bcol 1 0 0 = 1 := rfl
  rw [hl, Finset.sum_range_one, hb]
  simp only [h0, true_and]
  show (0:ℚ) - _ = _
  by_cases h : d = 1
  · simp [h]
  · simp [h]
lemma exRow2_Rc : exRow2.Rc 0 0 = 1 := by
  unfold exRow2 row2; rw [exIsLin]; rfl
lemma exRow2_al (d : ℕ) : exRow2.al 0 d = if d = 0 then -1 else 0 := by
  unfold exRow2 row2
  rw [exIsLin]
  simp [exI, DroIn.acol]
  by_cases h : d = 0
  · simp [h]
  · simp [h]
lemma exRow2_ac : exRow2.ac 0 = -2 := by
  unfold exRow2 row2; rw [exIsLin]; rfl
lemma exRow2_nd : exRow2.nd = 5 := by
  unfold exRow2 row2; rw [exIsLin]; rfl
lemma exRow2_m : exRow2.m = 1 := by
  unfold exRow2 row2; rw [exIsLin]; rfl
lemma exRow2_nz : exRow2.nz = 1 := by
  unfold exRow2 row2; rw [exIsLin]; rfl
lemma exNum2 : exRow2.numRand C01.exPz.coneDual = 1 := by
  unfold RoRows.numRand; rw [exRow2_nz, C01.exS_nr]; rfl

/-- the compiled second-stage item (`-α - 2Y ≤ 2`, `-β + Y ≤ -1`, `Y ≤ 0`; `Y` = column 5) is feasible
at the assignment `exV` of `Props/C03.lean` (`α = -2`, `β = 1`, `Y = 0`) -/
lemma ex_feas2 : (exRow2.leToRc C01.exPz.coneDual).prog.Feas (fun _ _ _ => False) C03.exV := by
  have hnr : (exRow2.leToRc C01.exPz.coneDual).prog.lp.nr = 2 := by
    rw [leToRc_nr, exNum2, C01.exS_nr, exRow2_m]
    have : exRow2.n4 C01.exPz.coneDual = 0 := by
      unfold RoRows.n4 RoRows.latePresent
      rw [exNum2, exRow2_nz]; simp
    rw [this]
  have hnc : (exRow2.leToRc C01.exPz.coneDual).prog.lp.nc = 6 := by
    rw [leToRc_nc, C01.exS_nc, exRow2_nd, exRow2_m]
  refine ⟨⟨?_, ?_, ?_⟩, ?_, ?_⟩
  · intro i hi
    rw [hnr] at hi
    obtain rfl | rfl : i = 0 ∨ i = 1 := by omega
    · have h := leToRc_row1 exRow2 C01.exPz.coneDual 0 (by rw [exRow2_m]; omega) C03.exV
      rw [h, leToRc_b1 _ _ 0 (by rw [exRow2_m]; omega), leToRc_eq1 _ _ 0 (by rw [exRow2_m]; omega),
        C01.exS_nc, exRow2_nd, exRow2_ac]
      simp [Finset.sum_range_succ, exRow2_al, C01.exS_c, C03.exV, ycol, C01.exS_nc, exRow2_nd]
    · have h := leToRc_row2 exRow2 C01.exPz.coneDual 0 (by rw [exRow2_m]; omega) 0
        (by rw [exNum2]; omega) C03.exV
      have hb := leToRc_b2 exRow2 C01.exPz.coneDual 0 (by rw [exRow2_m]; omega) 0
        (by rw [exNum2]; omega)
      have he := leToRc_eq2 exRow2 C01.exPz.coneDual 0 (by rw [exRow2_m]; omega) 0
        (by rw [exNum2]; omega)
      rw [exNum2, exRow2_m] at h hb he
      have e1 : 1 + (0 * 1 + 0) = 1 := rfl
      rw [e1] at h hb he
      rw [h, hb, he, C01.exS_eq, C01.exS_nc, exRow2_nd, exRow2_Rc]
      simp [Finset.sum_range_succ, exRow2_Rl, C01.exS_a, C01.exS_b, C03.exV, ycol, C01.exS_nc,
        exRow2_nd]
  · intro j hj
    rw [hnc] at hj
    have hub : ∀ c, (exRow2.leToRc C01.exPz.coneDual).prog.lp.ub c
        = if (5 ≤ c ∧ c < 6) ∧ C01.exPz.coneDual.lp.ub ((c - 5) % 1) = some 0 then some 0 else none := by
      intro c
      simp [leToRc, exRow2_nd, exRow2_m, C01.exS_nc]
    unfold LinProg.leUb
    rw [hub]
    obtain rfl | rfl | rfl | rfl | rfl | rfl : j = 0 ∨ j = 1 ∨ j = 2 ∨ j = 3 ∨ j = 4 ∨ j = 5 := by omega
    all_goals simp [C01.exS_ub, C03.exV]
  · intro j hj
    have hlb : ∀ c, (exRow2.leToRc C01.exPz.coneDual).prog.lp.lb c = none := by
      intro c
      simp [leToRc, C01.exS_nc, C01.exS_lb, Nat.mod_one]
    unfold LinProg.geLb
    rw [hlb]
    trivial
  · intro q hq
    simp [leToRc, C01.exS_q] at hq
  · intro e he
    simp [leToRc, C01.exS_x] at he

/-- the point mass at `z = 2` is a conditional expectation operator on the support `0 ≤ z ≤ 2` -/
lemma exEs_condExp : CondExp (suppOf C01.exPz (fun _ _ _ => False) 1)
    (finExp 1 (fun _ => (1:ℚ)) (fun _ _ => (2:ℚ))) := by
  apply C03.finExp_isCondExp
  · intro i _; norm_num
  · simp
  · intro i _
    refine ⟨fun _ => 2, ⟨⟨?_, ?_, ?_⟩, ?_, ?_⟩, fun _ _ => rfl⟩
    · intro r hr; exact absurd hr (by simp [C01.exPz])
    · intro j hj
      have : j = 0 := by
        have : j < 1 := hj
        omega
      subst this
      simp [LinProg.leUb, C01.exPz]
    · intro j hj
      have : j = 0 := by
        have : j < 1 := hj
        omega
      subst this
      simp [LinProg.geLb, C01.exPz]
    · intro q hq; simp [C01.exPz] at hq
    · intro e he; simp [C01.exPz] at he

/-- **`dro_rows_sound` on the instance**: the compiled first-stage row (`C03.ex_feas`) and the compiled
second-stage item (`ex_feas2`) are feasible at `exV`, so for the admissible distribution
`π_0 = 1`, `z̃ = 2` almost surely: `E[max{z̃ - 2}] ≤ 0`. -/
example : ∑ s ∈ range exI.S, (fun _ => (1:ℚ)) s *
    (fun _ => finExp 1 (fun _ => (1:ℚ)) (fun _ _ => (2:ℚ))) s
      (fun z => pwMax exI (by decide) s C03.exV z) ≤ 0 := by
  apply dro_rows_sound C03.exPro1 C03.exExps1 (fun _ _ _ => False) (fun _ _ _ _ _ _ h _ => h.elim)
    (fun _ _ _ _ _ h => h) C03.exPro1_hst C03.exPro1_hqp C03.exPro1_hxl C03.exPro1_hxp
    C03.exExps1_hqe C03.exExps1_hxle C03.exExps1_hxe C03.exExps1_hidx (by decide)
    exI (fun _ _ => 5) (by decide) (by decide)
    (by intro k hk; have : k = 0 := by simp [C03.exExps1] at hk; omega
        subst this; decide)
    (by intro s _ l _; decide)
    (by intro s l j d _; rfl) (by intro s l d _; rfl)
    (by intro s l h; exfalso
        have : isLin C03.exExps1 exI s l = false := by
          unfold isLin; simp [exI]
        rw [this] at h; cases h)
    (fun _ => C01.exPz) (fun _ _ => C01.exPz_wf) (fun _ _ _ => rfl) (fun _ _ => le_refl _)
    (by intro s _ q hq; simp [C01.exPz] at hq) (by intro s _ _ e he; simp [C01.exPz] at he)
    C03.exV
    (by rw [show (droToRoc C03.exPro1 C03.exExps1 exI (fun _ _ => 5)).first = C03.exRow from exOut_first]
        exact C03.ex_feas)
    (by
      intro r hr
      have hr' : r = { s := 0, l := 0, lin := isLin C03.exExps1 exI 0 0, row := exRow2 } := by
        have : (droToRoc C03.exPro1 C03.exExps1 exI (fun _ _ => 5)).second
            = [{ s := 0, l := 0, lin := isLin C03.exExps1 exI 0 0, row := exRow2 }] := rfl
        rw [this] at hr
        simpa using hr
      subst hr'
      simp only [exIsLin, Bool.false_eq_true, if_false]
      exact ex_feas2)
    (fun _ => 1) (ν := fun _ _ => 2)
  · -- π feasible for the probability program
    refine ⟨⟨?_, fun _ _ => trivial, fun _ _ => trivial⟩, ?_, ?_⟩
    · intro i hi
      have hi' : i < 2 := hi
      have : i = 0 ∨ i = 1 := by omega
      rcases this with rfl | rfl <;> norm_num [LinProg.row, C03.exPro1, Finset.sum_range_succ]
    · intro q hq; simp [C03.exPro1] at hq
    · intro e he; simp [C03.exPro1] at he
  · intro s _; norm_num
  · intro s _; exact exEs_condExp
  · intro k hk
    have : k = 0 := by simp [C03.exExps1] at hk; omega
    subst this
    refine ⟨⟨?_, fun _ _ => trivial, fun _ _ => trivial⟩, ?_, ?_⟩
    · intro i hi
      have hi' : i < 1 := hi
      have : i = 0 := by omega
      subst this
      norm_num [LinProg.row, blk, C03.exExps1, C03.exMean, Finset.sum_range_succ]
    · intro q hq; simp [blk, C03.exExps1, C03.exMean] at hq
    · intro e he; simp [blk, C03.exExps1, C03.exMean] at he
  · intro k hk
    have : k = 0 := by simp [C03.exExps1] at hk; omega
    subst this
    norm_num [evProb, idx, C03.exExps1]
  · intro k hk j hj
    have : k = 0 := by simp [C03.exExps1] at hk; omega
    subst this
    have hj' : j < 1 := hj
    have : j = 0 := by omega
    subst this
    have hS : exI.S = 1 := rfl
    rw [hS]
    norm_num [evProb, idx, C03.exExps1, finExp, Finset.sum_range_succ]

/-- the value the theorem bounds: `1 · (2 - 2) = 0` (the bound is tight) -/
example : pwMax exI (by decide) 0 C03.exV (fun _ => 2) = 0 := by
  unfold pwMax
  simp [exI, DroIn.pieceVal, Finset.sum_range_succ]


end RsomeV.C03Rows
