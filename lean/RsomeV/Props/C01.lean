import RsomeV.M.Robust
import RsomeV.L.ConeDualWeak
import RsomeV.L.RobustSound
import Mathlib.Tactic.Linarith
import Mathlib.Tactic.Ring
import Mathlib.Tactic.NormNum

/-! C01 — safety of the robust counterpart: the model `RoRows.leToRc` of `RoConstr.le_to_rc`
applied to the model `ConeProg.coneDual` of the support's conic dual is a *sufficient* condition
for the uncertain rows to hold at every point of the support. -/

set_option linter.unusedSectionVars false
set_option linter.unusedSimpArgs false
set_option linter.unusedVariables false

namespace RsomeV.C01
open Finset RsomeV ConeProg RoRows

variable {K : Type} [Field K] [LinearOrder K] [IsStrictOrderedRing K]

/-- **Safety of the robust counterpart** (model of `RoConstr.le_to_rc` over the model of the
support's conic dual): every assignment `v` (decisions and multipliers) feasible for the
counterpart fragment satisfies uncertain row `n` at every point `ζ` of the (lifted) support
program — for every support (any bound pattern, equalities, inequalities, lifted norm rows,
second-order and exponential cones), every coefficient and every `ζ`.

No hypothesis was added to the requested statement; the suggested hypothesis `hx` (exponential
cones sit on lifted columns) is not needed and was dropped. -/
theorem rc_sound (Pz : ConeProg K) (E : K → K → K → Prop) (hE : ExpPair E) (hwf : Pz.WF)
    (hones : ∀ j, Pz.lp.c j = 1)                 -- the support program is formulated with obj=False
    (R : RoRows K) (hnz : R.nz ≤ Pz.lp.nc)       -- every random component of the rows is a column of the support program
    (hq : ∀ q ∈ Pz.qmat, ∀ j ∈ q, R.nz ≤ j)      -- second-order cones sit on lifted columns
    (hxq : Pz.rowsRemoved = true → ∀ e ∈ Pz.xmat, ∀ j ∈ e, j ∉ Pz.eye)
    (v : ℕ → K) (hv : (R.leToRc Pz.coneDual).prog.Feas E v)
    (n : ℕ) (hn : n < R.m) (ζ : ℕ → K) (hζ : Pz.Feas E ζ) :
    R.eval n v ζ ≤ 0 := by
  set S := Pz.coneDual with hS
  -- the cost that makes the support program's objective the uncertain part of row `n`
  set c' : ℕ → K := fun j => if j < R.nz then - R.coef n j v else 0 with hc'
  have hnr : R.nz ≤ S.lp.nr := le_coneDual_nr Pz R.nz hnz hq
  have hnum : R.numRand S = R.nz := by unfold numRand; exact Nat.min_eq_left hnr
  -- the multipliers of row `n` are feasible for the conic dual of the re-costed support program
  have hy : (Pz.withCost c').coneDual.Feas E (fun i => v (R.ycol S n i)) := by
    rw [coneDual_withCost]
    apply leToRc_extract R S E (coneDual_ub Pz) (coneDual_lb Pz) (coneDual_xlen Pz) v hv n hn
    intro j hj
    rw [hnum, hS, coneDual_b]
    unfold dualRhs
    by_cases h : j < R.nz
    · rw [if_pos h, rowIdx_lt Pz R.nz hnz hq j h, hones]
      simp only [hc', h, if_true]
      split_ifs <;> ring
    · have := rowIdx_ge Pz R.nz hnz hq j (by omega) hj
      rw [if_neg h]
      simp only [hc', show ¬ Pz.rowIdx j < R.nz by omega, if_false]
      split_ifs <;> simp
  have hwf' : (Pz.withCost c').WF := ⟨hwf.qlt, hwf.xlen, hwf.xlt, hwf.xnotneg, hwf.stcov⟩
  have hζ' : (Pz.withCost c').Feas E ζ := ⟨⟨hζ.lin.rows, hζ.lin.ubs, hζ.lin.lbs⟩, hζ.soc, hζ.exp⟩
  have hcz : (Pz.withCost c').rowsRemoved = true →
      ∀ q ∈ (Pz.withCost c').qmat, ∀ j ∈ q, (Pz.withCost c').lp.c j = 0 := by
    intro _ q hq' j hj
    have := hq q hq' j hj
    show c' j = 0
    simp only [hc', show ¬ j < R.nz by omega, if_false]
  have hweak := coneDual_weak (Pz.withCost c') E hE hwf' hcz hxq ζ _ hζ' hy
  -- dual objective = objective of `S` at the multipliers (cost and width do not depend on `c'`)
  have hobjS : (Pz.withCost c').coneDual.lp.obj (fun i => v (R.ycol S n i))
      = ∑ i ∈ range S.lp.nc, S.lp.c i * v (R.ycol S n i) := by
    rw [coneDual_withCost]; rfl
  -- primal objective = minus the uncertain part of the row
  have hobjP : (Pz.withCost c').lp.obj ζ = - ∑ j ∈ range R.nz, R.coef n j v * ζ j := by
    show ∑ j ∈ range Pz.lp.nc, c' j * ζ j = _
    obtain ⟨k, hk⟩ := Nat.exists_eq_add_of_le hnz
    rw [hk, Finset.sum_range_add, ← Finset.sum_neg_distrib]
    have h0 : ∑ x ∈ range k, c' (R.nz + x) * ζ (R.nz + x) = 0 := by
      apply Finset.sum_eq_zero; intro x _
      simp only [hc', show ¬ R.nz + x < R.nz by omega, if_false, zero_mul]
    rw [h0, add_zero]
    apply Finset.sum_congr rfl; intro j hj
    simp only [hc', Finset.mem_range.mp hj, if_true]; ring
  -- row (1) of the counterpart
  have hrow1 := hv.lin.rows n (by rw [leToRc_nr]; omega)
  rw [leToRc_row1 R S n hn, leToRc_b1 R S n hn, leToRc_eq1 R S n hn] at hrow1
  simp only [Bool.false_eq_true, if_false] at hrow1
  rw [hobjS, hobjP] at hweak
  unfold RoRows.eval
  unfold coef at hweak
  linarith

/-! #### The hypotheses of `rc_sound` are satisfiable: interval support `0 ≤ z ≤ 2`, row `x·z - 4 ≤ 0`

The support program has one column (`lb = 0`, `ub = 2`), no rows, no cones; its dual has one
row `y ≤ 1` and one multiplier column `y ≤ 0` with cost `-2`.  The counterpart of the row
`x·z - 4 ≤ 0` is `-2·Y ≤ 4`, `x + Y ≤ 0`, `Y ≤ 0`; it is feasible at `x = 2`, `Y = -2` (the bounded
multiplier is active in the sense that `Y < 0`), and `rc_sound` then yields `2·ζ - 4 ≤ 0` on the
whole interval. -/

/-- support program of the interval `0 ≤ z ≤ 2` (formulated with `obj=False`) -/
def exPz : ConeProg ℚ :=
  { lp := { nr := 0, nc := 1, a := fun _ _ => 0, b := fun _ => 0, eq := fun _ => false,
            ub := fun j => if j = 0 then some 2 else none,
            lb := fun j => if j = 0 then some 0 else none, c := fun _ => 1 }
    st := fun _ _ => false, qmat := [], xmat := [] }

/-- the uncertain row `x·z - 4 ≤ 0` over one decision column -/
def exR : RoRows ℚ :=
  { nd := 1, m := 1, nz := 1, Rl := fun _ _ _ => 1, Rc := fun _ _ => 0, al := fun _ _ => 0,
    ac := fun _ => -4 }

/-- decision `x = 2`, multiplier `Y = -2` -/
def exV : ℕ → ℚ := fun c => if c = 0 then 2 else -2

lemma exPz_wf : exPz.WF where
  qlt := by intro q hq; simp [exPz] at hq
  xlen := by intro e he; simp [exPz] at he
  xlt := by intro e he; simp [exPz] at he
  xnotneg := by intro e he; simp [exPz] at he
  stcov := by intro i j h; exact absurd rfl h

lemma exS_nc : exPz.coneDual.lp.nc = 1 := by decide
lemma exS_nr : exPz.coneDual.lp.nr = 1 := by decide
lemma exS_c : exPz.coneDual.lp.c 0 = -2 := by decide
lemma exS_a : exPz.coneDual.lp.a 0 0 = 1 := by decide
lemma exS_b : exPz.coneDual.lp.b 0 = 1 := by decide
lemma exS_eq : exPz.coneDual.lp.eq 0 = false := by decide
lemma exS_ub : exPz.coneDual.lp.ub 0 = some 0 := by decide
lemma exS_lb : exPz.coneDual.lp.lb 0 = none := by decide
lemma exS_q : exPz.coneDual.qmat = [] := by decide
lemma exS_x : exPz.coneDual.xmat = [] := by decide
lemma exNum : exR.numRand exPz.coneDual = 1 := by decide


/-- the counterpart fragment is feasible at `x = 2`, `Y = -2` -/
lemma ex_feas : (exR.leToRc exPz.coneDual).prog.Feas (fun _ _ _ => False) exV := by
  have hnr : (exR.leToRc exPz.coneDual).prog.lp.nr = 2 := by
    rw [leToRc_nr, exNum, exS_nr]; rfl
  have hnc : (exR.leToRc exPz.coneDual).prog.lp.nc = 2 := by
    rw [leToRc_nc, exS_nc]; rfl
  refine ⟨⟨?_, ?_, ?_⟩, ?_, ?_⟩
  · intro i hi
    rw [hnr] at hi
    obtain rfl | rfl : i = 0 ∨ i = 1 := by omega
    · have h := leToRc_row1 exR exPz.coneDual 0 (by decide) exV
      rw [h, leToRc_b1 _ _ 0 (by decide), leToRc_eq1 _ _ 0 (by decide), exS_nc]
      simp [exS_c, exR, exV, ycol, exS_nc]
      norm_num
    · have h := leToRc_row2 exR exPz.coneDual 0 (by decide) 0 (by decide) exV
      have hb := leToRc_b2 exR exPz.coneDual 0 (by decide) 0 (by decide)
      have he := leToRc_eq2 exR exPz.coneDual 0 (by decide) 0 (by decide)
      rw [exNum] at h hb he
      have e1 : exR.m + (0 * 1 + 0) = 1 := rfl
      rw [e1] at h hb he
      rw [h, hb, he, exS_eq, exS_nc]
      simp [exS_a, exS_b, exR, exV, ycol, exS_nc]
  · intro j hj
    rw [hnc] at hj
    obtain rfl | rfl : j = 0 ∨ j = 1 := by omega
    · simp [leToRc, LinProg.leUb, exR]
    · simp [leToRc, LinProg.leUb, exR, exS_nc, exS_ub, exV]
  · intro j hj
    rw [hnc] at hj
    obtain rfl | rfl : j = 0 ∨ j = 1 := by omega
    · simp [leToRc, LinProg.geLb, exR]
    · simp [leToRc, LinProg.geLb, exR, exS_nc, exS_lb, exV]
  · intro q hq
    simp [leToRc, exS_q] at hq
  · intro e he
    simp [leToRc, exS_x] at he

/-- all hypotheses of `rc_sound` hold for the instance -/
example :
    exPz.WF ∧ (∀ j, exPz.lp.c j = 1) ∧ exR.nz ≤ exPz.lp.nc ∧
    (∀ q ∈ exPz.qmat, ∀ j ∈ q, exR.nz ≤ j) ∧
    (exPz.rowsRemoved = true → ∀ e ∈ exPz.xmat, ∀ j ∈ e, j ∉ exPz.eye) ∧
    (exR.leToRc exPz.coneDual).prog.Feas (fun _ _ _ => False) exV := by
  refine ⟨exPz_wf, fun _ => rfl, le_refl _, ?_, ?_, ?_⟩
  · intro q hq; simp [exPz] at hq
  · intro _ e he; simp [exPz] at he
  · exact ex_feas

/-- and `rc_sound` gives the robust guarantee `2·ζ - 4 ≤ 0` on the whole interval -/
example (ζ : ℕ → ℚ) (hζ : exPz.Feas (fun _ _ _ => False) ζ) : exR.eval 0 exV ζ ≤ 0 :=
  rc_sound exPz _ (fun _ _ _ _ _ _ h _ => h.elim) exPz_wf (fun _ => rfl) exR (le_refl _)
    (by intro q hq; simp [exPz] at hq) (by intro _ e he; simp [exPz] at he) exV ex_feas 0
    (by decide) ζ hζ

/-! #### Random variables declared after the set ("late" random variables)

`RoConstr.le_to_rc` takes `num_rand = min(raffine.shape[1], support.linear.shape[0])`.  When random
variables are declared after `forall()` / `minmax()` formulated the set, the rows have more random
components than the support program has columns (`R.nz > Pz.lp.nc`): the support program does not
know — hence does not restrict — the components `j ≥ Pz.lp.nc`.  The code appends
`raffine[:, num_rand:] == 0` (block (4) of the model), which makes the counterpart safe for
*every* value of those components. -/

/-- **Safety of the robust counterpart without `hnz`** (random variables declared after the set
allowed, `R.nz` arbitrary): every assignment `v` feasible for the counterpart fragment satisfies
uncertain row `n` at every realisation `ζ` whose first `Pz.lp.nc` components form a point `ζ₀` of
the (lifted) support program — the components `j ≥ Pz.lp.nc` of `ζ` are arbitrary (unrestricted
random variables).

Structural hypotheses replacing `hnz`/`hq` of `rc_sound`: `k` is the number of genuine random
components the support program knows (its leading columns; the lifted columns follow):
* `hk`    : `k ≤ Pz.lp.nc`;
* `hq`    : in the compact dual layout the second-order cones sit on columns `≥ k`;
* `hlift` : the rows do not depend on the lifted columns `k ≤ j < Pz.lp.nc` (their coefficients are
  structurally zero — users cannot address lifted columns; `raffine` merely has columns for them
  when the row was built after the set was formulated).
Nothing is assumed about `R.nz`.  With `k = R.nz ≤ Pz.lp.nc` this is `rc_sound` (`hlift` is vacuous),
with `k = min R.nz Pz.lp.nc` it is `rc_sound_late'` below. -/
theorem rc_sound_late (Pz : ConeProg K) (E : K → K → K → Prop) (hE : ExpPair E) (hwf : Pz.WF)
    (hones : ∀ j, Pz.lp.c j = 1)
    (R : RoRows K)
    (k : ℕ) (hk : k ≤ Pz.lp.nc)
    (hq : Pz.rowsRemoved = true → ∀ q ∈ Pz.qmat, ∀ j ∈ q, k ≤ j)
    (hlift : ∀ n < R.m, ∀ j, k ≤ j → j < Pz.lp.nc → j < R.nz →
      R.Rc n j = 0 ∧ ∀ d < R.nd, R.Rl n j d = 0)
    (hxq : Pz.rowsRemoved = true → ∀ e ∈ Pz.xmat, ∀ j ∈ e, j ∉ Pz.eye)
    (v : ℕ → K) (hv : (R.leToRc Pz.coneDual).prog.Feas E v)
    (n : ℕ) (hn : n < R.m)
    (ζ₀ : ℕ → K) (hζ₀ : Pz.Feas E ζ₀)
    (ζ : ℕ → K) (hζ : ∀ j < Pz.lp.nc, ζ j = ζ₀ j) :
    R.eval n v ζ ≤ 0 := by
  set S := Pz.coneDual with hS
  set k₀ := min R.nz k with hk₀
  have hk₀k : k₀ ≤ k := Nat.min_le_right _ _
  have hk₀z : k₀ ≤ R.nz := Nat.min_le_left _ _
  set c' : ℕ → K := fun j => if j < k₀ then - R.coef n j v else 0 with hc'
  -- layout facts
  have hkS : k ≤ S.lp.nr := by
    by_cases hr : Pz.rowsRemoved = true
    · exact le_coneDual_nr Pz k hk (hq hr)
    · rw [hS, coneDual_nr, if_neg hr]; exact hk
  have hSle : S.lp.nr ≤ Pz.lp.nc := coneDual_nr_le Pz
  have hlt : ∀ j < k, Pz.rowIdx j = j := by
    intro j hj
    by_cases hr : Pz.rowsRemoved = true
    · exact rowIdx_lt Pz k hk (hq hr) j hj
    · unfold rowIdx; rw [if_neg hr]
  have hge : ∀ r, k ≤ r → r < S.lp.nr → k ≤ Pz.rowIdx r := by
    intro r hr1 hr2
    by_cases hr : Pz.rowsRemoved = true
    · exact rowIdx_ge Pz k hk (hq hr) r hr1 hr2
    · unfold rowIdx; rw [if_neg hr]; exact hr1
  have hnumz : R.numRand S ≤ R.nz := Nat.min_le_left _ _
  have hnumS : R.numRand S ≤ S.lp.nr := Nat.min_le_right _ _
  -- the coefficients of the lifted columns vanish structurally, those of the late columns by block (4)
  have hcoef0 : ∀ j, k ≤ j → j < Pz.lp.nc → j < R.nz → R.coef n j v = 0 := by
    intro j h1 h2 h3
    obtain ⟨hc, hl⟩ := hlift n hn j h1 h2 h3
    unfold coef
    rw [hc, add_zero]
    apply Finset.sum_eq_zero; intro d hd
    rw [hl d (Finset.mem_range.mp hd), zero_mul]
  have hlate : ∀ j, Pz.lp.nc ≤ j → j < R.nz → R.coef n j v = 0 := fun j h1 h2 =>
    leToRc_late_zero R S E v hv n hn j (by omega) h2
  have hb : S.lp.b = Pz.dualRhs Pz.lp.c := coneDual_b Pz
  -- the multipliers of row `n` are feasible for the conic dual of the re-costed support program
  have hy : (Pz.withCost c').coneDual.Feas E (fun i => v (R.ycol S n i)) := by
    rw [coneDual_withCost]
    apply leToRc_extract R S E (coneDual_ub Pz) (coneDual_lb Pz) (coneDual_xlen Pz) v hv n hn
    intro j hj
    rw [hb]
    unfold dualRhs
    by_cases h : j < k₀
    · have hjk : j < k := by omega
      have hjn : j < R.numRand S := by
        unfold numRand; exact lt_min (by omega) (by omega)
      rw [if_pos hjn, hlt j hjk, hones]
      simp only [hc', h, if_true]
      split_ifs <;> ring
    · have hidx : ¬ Pz.rowIdx j < k₀ := by
        by_cases hjk : j < k
        · rw [hlt j hjk]; exact h
        · have := hge j (by omega) hj
          omega
      simp only [hc', hidx, if_false]
      by_cases hjn : j < R.numRand S
      · rw [if_pos hjn]
        have hkj : k ≤ j := by
          by_contra hkj
          exact h (lt_min (by omega) (by omega))
        rw [hcoef0 j hkj (by omega) (by omega)]
        split_ifs <;> simp
      · rw [if_neg hjn]
        split_ifs <;> simp
  have hwf' : (Pz.withCost c').WF := ⟨hwf.qlt, hwf.xlen, hwf.xlt, hwf.xnotneg, hwf.stcov⟩
  have hζ' : (Pz.withCost c').Feas E ζ₀ :=
    ⟨⟨hζ₀.lin.rows, hζ₀.lin.ubs, hζ₀.lin.lbs⟩, hζ₀.soc, hζ₀.exp⟩
  have hcz : (Pz.withCost c').rowsRemoved = true →
      ∀ q ∈ (Pz.withCost c').qmat, ∀ j ∈ q, (Pz.withCost c').lp.c j = 0 := by
    intro hr q hq' j hj
    have := hq hr q hq' j hj
    show c' j = 0
    simp only [hc', show ¬ j < k₀ by omega, if_false]
  have hweak := coneDual_weak (Pz.withCost c') E hE hwf' hcz hxq ζ₀ _ hζ' hy
  have hobjS : (Pz.withCost c').coneDual.lp.obj (fun i => v (R.ycol S n i))
      = ∑ i ∈ range S.lp.nc, S.lp.c i * v (R.ycol S n i) := by
    rw [coneDual_withCost]; rfl
  -- primal objective at `ζ₀` = minus the uncertain part of the row at `ζ`
  have hobjP : (Pz.withCost c').lp.obj ζ₀ = - ∑ j ∈ range R.nz, R.coef n j v * ζ j := by
    show ∑ j ∈ range Pz.lp.nc, c' j * ζ₀ j = _
    rw [sum_range_tail_zero k₀ Pz.lp.nc (by omega) (fun j => c' j * ζ₀ j)
        (fun j => - (R.coef n j v * ζ₀ j))
        (by intro j hj; simp only [hc', hj, if_true]; ring)
        (by intro j h1 _; simp only [hc', show ¬ j < k₀ by omega, if_false, zero_mul]),
      sum_range_tail_zero k₀ R.nz hk₀z (fun j => R.coef n j v * ζ j)
        (fun j => R.coef n j v * ζ₀ j)
        (by intro j hj; show R.coef n j v * ζ j = R.coef n j v * ζ₀ j; rw [hζ j (by omega)])
        (by
          intro j h1 h2
          have hkj : k ≤ j := by
            by_contra hkj
            exact absurd (lt_min h2 (by omega) : j < min R.nz k) (by omega)
          show R.coef n j v * ζ j = 0
          by_cases hjc : j < Pz.lp.nc
          · rw [hcoef0 j hkj hjc h2, zero_mul]
          · rw [hlate j (by omega) h2, zero_mul]),
      Finset.sum_neg_distrib]
  have hrow1 := hv.lin.rows n (by rw [leToRc_nr]; omega)
  rw [leToRc_row1 R S n hn, leToRc_b1 R S n hn, leToRc_eq1 R S n hn] at hrow1
  simp only [Bool.false_eq_true, if_false] at hrow1
  rw [hobjS, hobjP] at hweak
  unfold RoRows.eval
  unfold coef at hweak
  linarith

/-- `rc_sound_late` in the form closest to `rc_sound`: with `nz₀ = min R.nz Pz.lp.nc` (the random
components of the rows that the support program knows), the cones sit on columns `≥ nz₀`; the
realisation `ζ` is any vector whose first `Pz.lp.nc` components are feasible for `Pz`.
(`Pz.Feas E ζ` reads `ζ` on the columns `< Pz.lp.nc` only when `Pz.WF`, so this says: the late
components of `ζ` are arbitrary.) -/
theorem rc_sound_late' (Pz : ConeProg K) (E : K → K → K → Prop) (hE : ExpPair E) (hwf : Pz.WF)
    (hones : ∀ j, Pz.lp.c j = 1)
    (R : RoRows K)
    (hq : ∀ q ∈ Pz.qmat, ∀ j ∈ q, min R.nz Pz.lp.nc ≤ j)
    (hxq : Pz.rowsRemoved = true → ∀ e ∈ Pz.xmat, ∀ j ∈ e, j ∉ Pz.eye)
    (v : ℕ → K) (hv : (R.leToRc Pz.coneDual).prog.Feas E v)
    (n : ℕ) (hn : n < R.m)
    (ζ₀ : ℕ → K) (hζ₀ : Pz.Feas E ζ₀)
    (ζ : ℕ → K) (hζ : ∀ j < Pz.lp.nc, ζ j = ζ₀ j) :
    R.eval n v ζ ≤ 0 :=
  rc_sound_late Pz E hE hwf hones R (min R.nz Pz.lp.nc) (Nat.min_le_right _ _) (fun _ => hq)
    (by intro n _ j h1 h2 h3; exact absurd (lt_min h3 h2) (by omega)) hxq v hv n hn ζ₀ hζ₀ ζ hζ

/-- `rc_sound` is the instance `k = R.nz ≤ Pz.lp.nc`, `ζ = ζ₀` of `rc_sound_late` -/
example (Pz : ConeProg K) (E : K → K → K → Prop) (hE : ExpPair E) (hwf : Pz.WF)
    (hones : ∀ j, Pz.lp.c j = 1) (R : RoRows K) (hnz : R.nz ≤ Pz.lp.nc)
    (hq : ∀ q ∈ Pz.qmat, ∀ j ∈ q, R.nz ≤ j)
    (hxq : Pz.rowsRemoved = true → ∀ e ∈ Pz.xmat, ∀ j ∈ e, j ∉ Pz.eye)
    (v : ℕ → K) (hv : (R.leToRc Pz.coneDual).prog.Feas E v)
    (n : ℕ) (hn : n < R.m) (ζ : ℕ → K) (hζ : Pz.Feas E ζ) : R.eval n v ζ ≤ 0 :=
  rc_sound_late Pz E hE hwf hones R R.nz hnz (fun _ => hq)
    (by intro n _ j h1 _ h3; omega) hxq v hv n hn ζ hζ ζ (fun _ _ => rfl)

/-! #### The hypotheses of `rc_sound_late` are satisfiable with a late random variable and block (4)
present: interval support `0 ≤ z ≤ 2`, random variable `u` declared after the set, row
`x·z + (w - 2)·u - 4 ≤ 0`

Here `R.nz = 2 = Pz.lp.nc + 1`; `num_rand = 1`; the late coefficient `(w - 2)` is decision dependent
with a non-zero constant, so block (4) is present (`n4 = 1`): the counterpart is `-2·Y ≤ 4`,
`x + Y ≤ 0`, `w = 2`, `Y ≤ 0`.  It is feasible at `x = 2`, `w = 2`, `Y = -2`, and `rc_sound_late`
yields `2·ζ_z + (2 - 2)·ζ_u - 4 ≤ 0` for every `ζ_z` in the interval and *every* `ζ_u`. -/

/-- the uncertain row `x·z + (w - 2)·u - 4 ≤ 0` over the decision columns `x`, `w` and the random
components `z` (known to the support program) and `u` (declared after the set) -/
def exRL : RoRows ℚ :=
  { nd := 2, m := 1, nz := 2
    Rl := fun _ j d => if j = 0 ∧ d = 0 then 1 else if j = 1 ∧ d = 1 then 1 else 0
    Rc := fun _ j => if j = 1 then -2 else 0
    al := fun _ _ => 0, ac := fun _ => -4 }

/-- decisions `x = 2`, `w = 2`, multiplier `Y = -2` -/
def exVL : ℕ → ℚ := fun c => if c = 2 then -2 else 2

lemma exNumL : exRL.numRand exPz.coneDual = 1 := by decide
lemma exLateP : exRL.latePresent exPz.coneDual = true := by decide
/-- block (4) is present -/
lemma exN4 : (exRL.leToRc exPz.coneDual).n4 = 1 := by
  show exRL.n4 exPz.coneDual = 1
  rw [n4_present _ _ exLateP, exNumL]; rfl

lemma exL_feas : (exRL.leToRc exPz.coneDual).prog.Feas (fun _ _ _ => False) exVL := by
  have hnr : (exRL.leToRc exPz.coneDual).prog.lp.nr = 3 := by
    rw [leToRc_nr, exNumL, exS_nr, n4_present _ _ exLateP, exNumL]; rfl
  have hnc : (exRL.leToRc exPz.coneDual).prog.lp.nc = 3 := by
    rw [leToRc_nc, exS_nc]; rfl
  refine ⟨⟨?_, ?_, ?_⟩, ?_, ?_⟩
  · intro i hi
    rw [hnr] at hi
    obtain rfl | rfl | rfl : i = 0 ∨ i = 1 ∨ i = 2 := by omega
    · have h := leToRc_row1 exRL exPz.coneDual 0 (by decide) exVL
      rw [h, leToRc_b1 _ _ 0 (by decide), leToRc_eq1 _ _ 0 (by decide), exS_nc]
      simp [exS_c, exRL, exVL, ycol, exS_nc]
      norm_num
    · have h := leToRc_row2 exRL exPz.coneDual 0 (by decide) 0 (by decide) exVL
      have hb := leToRc_b2 exRL exPz.coneDual 0 (by decide) 0 (by decide)
      have he := leToRc_eq2 exRL exPz.coneDual 0 (by decide) 0 (by decide)
      rw [exNumL] at h hb he
      have e1 : exRL.m + (0 * 1 + 0) = 1 := rfl
      rw [e1] at h hb he
      rw [h, hb, he, exS_eq, exS_nc]
      simp [exS_a, exS_b, exRL, exVL, ycol, exS_nc, Finset.sum_range_succ]
    · have hk : 0 < exRL.nz - exRL.numRand exPz.coneDual := by rw [exNumL]; decide
      have h := leToRc_row4 exRL exPz.coneDual 0 (by decide) 0 hk exVL
      have hb := leToRc_b4 exRL exPz.coneDual 0 (by decide) 0 hk
      have he := leToRc_eq4 exRL exPz.coneDual 0 (by decide) 0 hk
      rw [exNumL, exS_nr] at h hb he
      have e1 : exRL.m + exRL.m * 1 + exRL.m * (1 - 1) + (0 * (exRL.nz - 1) + 0) = 2 := rfl
      rw [e1] at h hb he
      rw [h, hb, he]
      simp [exRL, exVL, Finset.sum_range_succ]
  · intro j hj
    rw [hnc] at hj
    obtain rfl | rfl | rfl : j = 0 ∨ j = 1 ∨ j = 2 := by omega
    · simp [leToRc, LinProg.leUb, exRL]
    · simp [leToRc, LinProg.leUb, exRL]
    · simp [leToRc, LinProg.leUb, exRL, exS_nc, exS_ub, exVL]
  · intro j hj
    rw [hnc] at hj
    obtain rfl | rfl | rfl : j = 0 ∨ j = 1 ∨ j = 2 := by omega
    · simp [leToRc, LinProg.geLb, exRL]
    · simp [leToRc, LinProg.geLb, exRL]
    · simp [leToRc, LinProg.geLb, exRL, exS_nc, exS_lb, exVL]
  · intro q hq
    simp [leToRc, exS_q] at hq
  · intro e he
    simp [leToRc, exS_x] at he

/-- all hypotheses of `rc_sound_late` (with `k = 1`) hold for the instance, which has one more
random component than the support program has columns, and block (4) is present -/
example :
    exPz.WF ∧ (∀ j, exPz.lp.c j = 1) ∧ exRL.nz = exPz.lp.nc + 1 ∧ 1 ≤ exPz.lp.nc ∧
    (exPz.rowsRemoved = true → ∀ q ∈ exPz.qmat, ∀ j ∈ q, 1 ≤ j) ∧
    (∀ n < exRL.m, ∀ j, 1 ≤ j → j < exPz.lp.nc → j < exRL.nz →
      exRL.Rc n j = 0 ∧ ∀ d < exRL.nd, exRL.Rl n j d = 0) ∧
    (exPz.rowsRemoved = true → ∀ e ∈ exPz.xmat, ∀ j ∈ e, j ∉ exPz.eye) ∧
    (exRL.leToRc exPz.coneDual).n4 = 1 ∧
    (exRL.leToRc exPz.coneDual).prog.Feas (fun _ _ _ => False) exVL := by
  refine ⟨exPz_wf, fun _ => rfl, rfl, le_refl _, ?_, ?_, ?_, exN4, exL_feas⟩
  · intro _ q hq; simp [exPz] at hq
  · intro n _ j h1 h2 _
    have : exPz.lp.nc = 1 := rfl
    omega
  · intro _ e he; simp [exPz] at he

/-- and `rc_sound_late` gives the robust guarantee `2·ζ_z + (2 - 2)·ζ_u - 4 ≤ 0` for every `ζ_z`
in the interval and every value `t` of the late random variable -/
example (ζ₀ : ℕ → ℚ) (hζ₀ : exPz.Feas (fun _ _ _ => False) ζ₀) (t : ℚ) :
    exRL.eval 0 exVL (fun j => if j = 1 then t else ζ₀ j) ≤ 0 :=
  rc_sound_late exPz _ (fun _ _ _ _ _ _ h _ => h.elim) exPz_wf (fun _ => rfl) exRL 1 (le_refl _)
    (by intro _ q hq; simp [exPz] at hq)
    (by intro n _ j h1 h2 _; have : exPz.lp.nc = 1 := rfl; omega)
    (by intro _ e he; simp [exPz] at he) exVL exL_feas 0 (by decide) ζ₀ hζ₀ _
    (by intro j hj; have : exPz.lp.nc = 1 := rfl; rw [if_neg (by omega)])

/-- the late coefficient matters: at `w = 3` (same `x`, `Y`) the row fails for large `ζ_u`, and
indeed the fragment is then infeasible (block (4) demands `w = 2`) -/
example : ¬ (exRL.leToRc exPz.coneDual).prog.Feas (fun _ _ _ => False)
    (fun c => if c = 2 then -2 else if c = 1 then 3 else 2) := by
  intro hv
  have h := leToRc_late_zero exRL exPz.coneDual _ _ hv 0 (by decide) 1
    (by rw [exNumL]) (by decide)
  simp [coef, exRL, Finset.sum_range_succ] at h
  norm_num at h

/-! #### Robust equalities -/

/-- negation of a block of rows (what `ro.Model.st` builds for the second half of an `==`
constraint) -/
def negRows (R : RoRows K) : RoRows K :=
  { R with Rl := fun n j d => - R.Rl n j d, Rc := fun n j => - R.Rc n j,
           al := fun n d => - R.al n d, ac := fun n => - R.ac n }

theorem eval_negRows (R : RoRows K) (n : ℕ) (v ζ : ℕ → K) :
    (negRows R).eval n v ζ = - R.eval n v ζ := by
  show (∑ j ∈ range R.nz, ((∑ d ∈ range R.nd, - R.Rl n j d * v d) + - R.Rc n j) * ζ j) +
      ((∑ d ∈ range R.nd, - R.al n d * v d) + - R.ac n)
    = - ((∑ j ∈ range R.nz, ((∑ d ∈ range R.nd, R.Rl n j d * v d) + R.Rc n j) * ζ j) +
      ((∑ d ∈ range R.nd, R.al n d * v d) + R.ac n))
  have h1 : ∀ j, ((∑ d ∈ range R.nd, - R.Rl n j d * v d) + - R.Rc n j) * ζ j
      = - (((∑ d ∈ range R.nd, R.Rl n j d * v d) + R.Rc n j) * ζ j) := by
    intro j
    simp only [neg_mul, Finset.sum_neg_distrib]
    ring
  have h2 : ∑ d ∈ range R.nd, - R.al n d * v d = - ∑ d ∈ range R.nd, R.al n d * v d := by
    simp only [neg_mul, Finset.sum_neg_distrib]
  rw [Finset.sum_congr rfl (fun j _ => h1 j), Finset.sum_neg_distrib, h2]
  ring

/-- **Robust equality**: if the counterparts of a block of rows and of its negation both hold at
`v`, row `n` holds with equality at every point of the support.

`R'` is `R` re-based on a larger number `nd` of decision columns (the second call of `le_to_rc`
happens after the first allocated its multipliers, so its multiplier columns start further right
and the coefficient arrays are padded); `hm'`, `hnz'` and `hsame` state that it denotes the same
block of rows (same number of rows and of random components, same value of row `n` at `v`). -/
theorem rc_sound_eq (Pz : ConeProg K) (E : K → K → K → Prop) (hE : ExpPair E) (hwf : Pz.WF)
    (hones : ∀ j, Pz.lp.c j = 1)
    (R R' : RoRows K) (hm' : R'.m = R.m) (hnz' : R'.nz = R.nz) (hnz : R.nz ≤ Pz.lp.nc)
    (hq : ∀ q ∈ Pz.qmat, ∀ j ∈ q, R.nz ≤ j)
    (hxq : Pz.rowsRemoved = true → ∀ e ∈ Pz.xmat, ∀ j ∈ e, j ∉ Pz.eye)
    (v : ℕ → K) (hv : (R.leToRc Pz.coneDual).prog.Feas E v)
    (hv' : ((negRows R').leToRc Pz.coneDual).prog.Feas E v)
    (n : ℕ) (hn : n < R.m) (hsame : ∀ ζ, R'.eval n v ζ = R.eval n v ζ)
    (ζ : ℕ → K) (hζ : Pz.Feas E ζ) :
    R.eval n v ζ = 0 := by
  have h1 := rc_sound Pz E hE hwf hones R hnz hq hxq v hv n hn ζ hζ
  have h2 := rc_sound Pz E hE hwf hones (negRows R') (by show R'.nz ≤ _; rw [hnz']; exact hnz)
    (by intro q hq' j hj; show R'.nz ≤ j; rw [hnz']; exact hq q hq' j hj) hxq v hv' n
    (by show n < R'.m; rw [hm']; exact hn) ζ hζ
  rw [eval_negRows, hsame] at h2
  linarith

/-- `rc_sound_eq` with `R' = R` (both counterparts built over the same decision columns) -/
theorem rc_sound_eq' (Pz : ConeProg K) (E : K → K → K → Prop) (hE : ExpPair E) (hwf : Pz.WF)
    (hones : ∀ j, Pz.lp.c j = 1)
    (R : RoRows K) (hnz : R.nz ≤ Pz.lp.nc)
    (hq : ∀ q ∈ Pz.qmat, ∀ j ∈ q, R.nz ≤ j)
    (hxq : Pz.rowsRemoved = true → ∀ e ∈ Pz.xmat, ∀ j ∈ e, j ∉ Pz.eye)
    (v : ℕ → K) (hv : (R.leToRc Pz.coneDual).prog.Feas E v)
    (hv' : ((negRows R).leToRc Pz.coneDual).prog.Feas E v)
    (n : ℕ) (hn : n < R.m) (ζ : ℕ → K) (hζ : Pz.Feas E ζ) :
    R.eval n v ζ = 0 :=
  rc_sound_eq Pz E hE hwf hones R R rfl rfl hnz hq hxq v hv hv' n hn (fun _ => rfl) ζ hζ


end RsomeV.C01
