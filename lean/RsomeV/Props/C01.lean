import RsomeV.M.Robust
import RsomeV.L.ConeDualWeak
import RsomeV.L.RobustSound
import Mathlib.Tactic.Linarith
import Mathlib.Tactic.Ring
import Mathlib.Tactic.NormNum

/-! C01 — safety of the robust counterpart: the model `RoRows.leToRc` of `RoConstr.le_to_rc`
applied to the model `ConeProg.coneDual` of the support's conic dual is a *sufficient* condition
for the uncertain rows to hold at every point of the support. -/

set_option linter.unusedSectionVars false
set_option linter.unusedSimpArgs false
set_option linter.unusedVariables false

namespace RsomeV.C01
open Finset RsomeV ConeProg RoRows

variable {K : Type} [Field K] [LinearOrder K] [IsStrictOrderedRing K]

/-- **Safety of the robust counterpart** (model of `RoConstr.le_to_rc` over the model of the
support's conic dual): every assignment `v` (decisions and multipliers) feasible for the
counterpart fragment satisfies uncertain row `n` at every point `ζ` of the (lifted) support
program — for every support (any bound pattern, equalities, inequalities, lifted norm rows,
second-order and exponential cones), every coefficient and every `ζ`.

No hypothesis was added to the requested statement; the suggested hypothesis `hx` (exponential
cones sit on lifted columns) is not needed and was dropped. -/
theorem rc_sound (Pz : ConeProg K) (E : K → K → K → Prop) (hE : ExpPair E) (hwf : Pz.WF)
    (hones : ∀ j, Pz.lp.c j = 1)                 -- the support program is formulated with obj=False
    (R : RoRows K) (hnz : R.nz ≤ Pz.lp.nc)       -- every random component of the rows is a column of the support program
    (hq : ∀ q ∈ Pz.qmat, ∀ j ∈ q, R.nz ≤ j)      -- second-order cones sit on lifted columns
    (hxq : Pz.rowsRemoved = true → ∀ e ∈ Pz.xmat, ∀ j ∈ e, j ∉ Pz.eye)
    (v : ℕ → K) (hv : (R.leToRc Pz.coneDual).prog.Feas E v)
    (n : ℕ) (hn : n < R.m) (ζ : ℕ → K) (hζ : Pz.Feas E ζ) :
    R.eval n v ζ ≤ 0 := by
  set S := Pz.coneDual with hS
  -- the cost that makes the support program's objective the uncertain part of row `n`
  set c' : ℕ → K := fun j => if j < R.nz then - R.coef n j v else 0 with hc'
  have hnr : R.nz ≤ S.lp.nr := le_coneDual_nr Pz R.nz hnz hq
  have hnum : R.numRand S = R.nz := by unfold numRand; exact Nat.min_eq_left hnr
  -- the multipliers of row `n` are feasible for the conic dual of the re-costed support program
  have hy : (Pz.withCost c').coneDual.Feas E (fun i => v (R.ycol S n i)) := by
    rw [coneDual_withCost]
    apply leToRc_extract R S E (coneDual_ub Pz) (coneDual_lb Pz) (coneDual_xlen Pz) v hv n hn
    intro j hj
    rw [hnum, hS, coneDual_b]
    unfold dualRhs
    by_cases h : j < R.nz
    · rw [if_pos h, rowIdx_lt Pz R.nz hnz hq j h, hones]
      simp only [hc', h, if_true]
      split_ifs <;> ring
    · have := rowIdx_ge Pz R.nz hnz hq j (by omega) hj
      rw [if_neg h]
      simp only [hc', show ¬ Pz.rowIdx j < R.nz by omega, if_false]
      split_ifs <;> simp
  have hwf' : (Pz.withCost c').WF := ⟨hwf.qlt, hwf.xlen, hwf.xlt, hwf.xnotneg, hwf.stcov⟩
  have hζ' : (Pz.withCost c').Feas E ζ := ⟨⟨hζ.lin.rows, hζ.lin.ubs, hζ.lin.lbs⟩, hζ.soc, hζ.exp⟩
  have hcz : (Pz.withCost c').rowsRemoved = true →
      ∀ q ∈ (Pz.withCost c').qmat, ∀ j ∈ q, (Pz.withCost c').lp.c j = 0 := by
    intro _ q hq' j hj
    have := hq q hq' j hj
    show c' j = 0
    simp only [hc', show ¬ j < R.nz by omega, if_false]
  have hweak := coneDual_weak (Pz.withCost c') E hE hwf' hcz hxq ζ _ hζ' hy
  -- dual objective = objective of `S` at the multipliers (cost and width do not depend on `c'`)
  have hobjS : (Pz.withCost c').coneDual.lp.obj (fun i => v (R.ycol S n i))
      = ∑ i ∈ range S.lp.nc, S.lp.c i * v (R.ycol S n i) := by
    rw [coneDual_withCost]; rfl
  -- primal objective = minus the uncertain part of the row
  have hobjP : (Pz.withCost c').lp.obj ζ = - ∑ j ∈ range R.nz, R.coef n j v * ζ j := by
    show ∑ j ∈ range Pz.lp.nc, c' j * ζ j = _
    obtain ⟨k, hk⟩ := Nat.exists_eq_add_of_le hnz
    rw [hk, Finset.sum_range_add, ← Finset.sum_neg_distrib]
    have h0 : ∑ x ∈ range k, c' (R.nz + x) * ζ (R.nz + x) = 0 := by
      apply Finset.sum_eq_zero; intro x _
      simp only [hc', show ¬ R.nz + x < R.nz by omega, if_false, zero_mul]
    rw [h0, add_zero]
    apply Finset.sum_congr rfl; intro j hj
    simp only [hc', Finset.mem_range.mp hj, if_true]; ring
  -- row (1) of the counterpart
  have hrow1 := hv.lin.rows n (by rw [leToRc_nr]; omega)
  rw [leToRc_row1 R S n hn, leToRc_b1 R S n hn, leToRc_eq1 R S n hn] at hrow1
  simp only [Bool.false_eq_true, if_false] at hrow1
  rw [hobjS, hobjP] at hweak
  unfold RoRows.eval
  unfold coef at hweak
  linarith

/-! #### The hypotheses of `rc_sound` are satisfiable: interval support `0 ≤ z ≤ 2`, row `x·z - 4 ≤ 0`

The support program has one column (`lb = 0`, `ub = 2`), no rows, no cones; its dual has one
row `y ≤ 1` and one multiplier column `y ≤ 0` with cost `-2`.  The counterpart of the row
`x·z - 4 ≤ 0` is `-2·Y ≤ 4`, `x + Y ≤ 0`, `Y ≤ 0`; it is feasible at `x = 2`, `Y = -2` (the bounded
multiplier is active in the sense that `Y < 0`), and `rc_sound` then yields `2·ζ - 4 ≤ 0` on the
whole interval. -/

/-- support program of the interval `0 ≤ z ≤ 2` (formulated with `obj=False`) -/
def exPz : ConeProg ℚ :=
  { lp := { nr := 0, nc := 1, a := fun _ _ => 0, b := fun _ => 0, eq := fun _ => false,
            ub := fun j => if j = 0 then some 2 else none,
            lb := fun j => if j = 0 then some 0 else none, c := fun _ => 1 }
    st := fun _ _ => false, qmat := [], xmat := [] }

/-- the uncertain row `x·z - 4 ≤ 0` over one decision column -/
def exR : RoRows ℚ :=
  { nd := 1, m := 1, nz := 1, Rl := fun _ _ _ => 1, Rc := fun _ _ => 0, al := fun _ _ => 0,
    ac := fun _ => -4 }

/-- decision `x = 2`, multiplier `Y = -2` -/
def exV : ℕ → ℚ := fun c => if c = 0 then 2 else -2

lemma exPz_wf : exPz.WF where
  qlt := by intro q hq; simp [exPz] at hq
  xlen := by intro e he; simp [exPz] at he
  xlt := by intro e he; simp [exPz] at he
  xnotneg := by intro e he; simp [exPz] at he
  stcov := by intro i j h; exact absurd rfl h

lemma exS_nc : exPz.coneDual.lp.nc = 1 := by decide
lemma exS_nr : exPz.coneDual.lp.nr = 1 := by decide
lemma exS_c : exPz.coneDual.lp.c 0 = -2 := by decide
lemma exS_a : exPz.coneDual.lp.a 0 0 = 1 := by decide
lemma exS_b : exPz.coneDual.lp.b 0 = 1 := by decide
lemma exS_eq : exPz.coneDual.lp.eq 0 = false := by decide
lemma exS_ub : exPz.coneDual.lp.ub 0 = some 0 := by decide
lemma exS_lb : exPz.coneDual.lp.lb 0 = none := by decide
lemma exS_q : exPz.coneDual.qmat = [] := by decide
lemma exS_x : exPz.coneDual.xmat = [] := by decide
lemma exNum : exR.numRand exPz.coneDual = 1 := by decide


/-- the counterpart fragment is feasible at `x = 2`, `Y = -2` -/
lemma ex_feas : (exR.leToRc exPz.coneDual).prog.Feas (fun _ _ _ => False) exV := by
  have hnr : (exR.leToRc exPz.coneDual).prog.lp.nr = 2 := by
    rw [leToRc_nr, exNum, exS_nr]; rfl
  have hnc : (exR.leToRc exPz.coneDual).prog.lp.nc = 2 := by
    rw [leToRc_nc, exS_nc]; rfl
  refine ⟨⟨?_, ?_, ?_⟩, ?_, ?_⟩
  · intro i hi
    rw [hnr] at hi
    obtain rfl | rfl : i = 0 ∨ i = 1 := by omega
    · have h := leToRc_row1 exR exPz.coneDual 0 (by decide) exV
      rw [h, leToRc_b1 _ _ 0 (by decide), leToRc_eq1 _ _ 0 (by decide), exS_nc]
      simp [exS_c, exR, exV, ycol, exS_nc]
      norm_num
    · have h := leToRc_row2 exR exPz.coneDual 0 (by decide) 0 (by decide) exV
      have hb := leToRc_b2 exR exPz.coneDual 0 (by decide) 0 (by decide)
      have he := leToRc_eq2 exR exPz.coneDual 0 (by decide) 0 (by decide)
      rw [exNum] at h hb he
      have e1 : exR.m + (0 * 1 + 0) = 1 := rfl
      rw [e1] at h hb he
      rw [h, hb, he, exS_eq, exS_nc]
      simp [exS_a, exS_b, exR, exV, ycol, exS_nc]
  · intro j hj
    rw [hnc] at hj
    obtain rfl | rfl : j = 0 ∨ j = 1 := by omega
    · simp [leToRc, LinProg.leUb, exR]
    · simp [leToRc, LinProg.leUb, exR, exS_nc, exS_ub, exV]
  · intro j hj
    rw [hnc] at hj
    obtain rfl | rfl : j = 0 ∨ j = 1 := by omega
    · simp [leToRc, LinProg.geLb, exR]
    · simp [leToRc, LinProg.geLb, exR, exS_nc, exS_lb, exV]
  · intro q hq
    simp [leToRc, exS_q] at hq
  · intro e he
    simp [leToRc, exS_x] at he

/-- all hypotheses of `rc_sound` hold for the instance -/
example :
    exPz.WF ∧ (∀ j, exPz.lp.c j = 1) ∧ exR.nz ≤ exPz.lp.nc ∧
    (∀ q ∈ exPz.qmat, ∀ j ∈ q, exR.nz ≤ j) ∧
    (exPz.rowsRemoved = true → ∀ e ∈ exPz.xmat, ∀ j ∈ e, j ∉ exPz.eye) ∧
    (exR.leToRc exPz.coneDual).prog.Feas (fun _ _ _ => False) exV := by
  refine ⟨exPz_wf, fun _ => rfl, le_refl _, ?_, ?_, ?_⟩
  · intro q hq; simp [exPz] at hq
  · intro _ e he; simp [exPz] at he
  · exact ex_feas

/-- and `rc_sound` gives the robust guarantee `2·ζ - 4 ≤ 0` on the whole interval -/
example (ζ : ℕ → ℚ) (hζ : exPz.Feas (fun _ _ _ => False) ζ) : exR.eval 0 exV ζ ≤ 0 :=
  rc_sound exPz _ (fun _ _ _ _ _ _ h _ => h.elim) exPz_wf (fun _ => rfl) exR (le_refl _)
    (by intro q hq; simp [exPz] at hq) (by intro _ e he; simp [exPz] at he) exV ex_feas 0
    (by decide) ζ hζ

/-! #### Robust equalities -/

/-- negation of a block of rows (what `ro.Model.st` builds for the second half of an `==`
constraint) -/
def negRows (R : RoRows K) : RoRows K :=
  { R with Rl := fun n j d => - R.Rl n j d, Rc := fun n j => - R.Rc n j,
           al := fun n d => - R.al n d, ac := fun n => - R.ac n }

theorem eval_negRows (R : RoRows K) (n : ℕ) (v ζ : ℕ → K) :
    (negRows R).eval n v ζ = - R.eval n v ζ := by
  show (∑ j ∈ range R.nz, ((∑ d ∈ range R.nd, - R.Rl n j d * v d) + - R.Rc n j) * ζ j) +
      ((∑ d ∈ range R.nd, - R.al n d * v d) + - R.ac n)
    = - ((∑ j ∈ range R.nz, ((∑ d ∈ range R.nd, R.Rl n j d * v d) + R.Rc n j) * ζ j) +
      ((∑ d ∈ range R.nd, R.al n d * v d) + R.ac n))
  have h1 : ∀ j, ((∑ d ∈ range R.nd, - R.Rl n j d * v d) + - R.Rc n j) * ζ j
      = - (((∑ d ∈ range R.nd, R.Rl n j d * v d) + R.Rc n j) * ζ j) := by
    intro j
    simp only [neg_mul, Finset.sum_neg_distrib]
    ring
  have h2 : ∑ d ∈ range R.nd, - R.al n d * v d = - ∑ d ∈ range R.nd, R.al n d * v d := by
    simp only [neg_mul, Finset.sum_neg_distrib]
  rw [Finset.sum_congr rfl (fun j _ => h1 j), Finset.sum_neg_distrib, h2]
  ring

/-- **Robust equality**: if the counterparts of a block of rows and of its negation both hold at
`v`, row `n` holds with equality at every point of the support.

`R'` is `R` re-based on a larger number `nd` of decision columns (the second call of `le_to_rc`
happens after the first allocated its multipliers, so its multiplier columns start further right
and the coefficient arrays are padded); `hm'`, `hnz'` and `hsame` state that it denotes the same
block of rows (same number of rows and of random components, same value of row `n` at `v`). -/
theorem rc_sound_eq (Pz : ConeProg K) (E : K → K → K → Prop) (hE : ExpPair E) (hwf : Pz.WF)
    (hones : ∀ j, Pz.lp.c j = 1)
    (R R' : RoRows K) (hm' : R'.m = R.m) (hnz' : R'.nz = R.nz) (hnz : R.nz ≤ Pz.lp.nc)
    (hq : ∀ q ∈ Pz.qmat, ∀ j ∈ q, R.nz ≤ j)
    (hxq : Pz.rowsRemoved = true → ∀ e ∈ Pz.xmat, ∀ j ∈ e, j ∉ Pz.eye)
    (v : ℕ → K) (hv : (R.leToRc Pz.coneDual).prog.Feas E v)
    (hv' : ((negRows R').leToRc Pz.coneDual).prog.Feas E v)
    (n : ℕ) (hn : n < R.m) (hsame : ∀ ζ, R'.eval n v ζ = R.eval n v ζ)
    (ζ : ℕ → K) (hζ : Pz.Feas E ζ) :
    R.eval n v ζ = 0 := by
  have h1 := rc_sound Pz E hE hwf hones R hnz hq hxq v hv n hn ζ hζ
  have h2 := rc_sound Pz E hE hwf hones (negRows R') (by show R'.nz ≤ _; rw [hnz']; exact hnz)
    (by intro q hq' j hj; show R'.nz ≤ j; rw [hnz']; exact hq q hq' j hj) hxq v hv' n
    (by show n < R'.m; rw [hm']; exact hn) ζ hζ
  rw [eval_negRows, hsame] at h2
  linarith

/-- `rc_sound_eq` with `R' = R` (both counterparts built over the same decision columns) -/
theorem rc_sound_eq' (Pz : ConeProg K) (E : K → K → K → Prop) (hE : ExpPair E) (hwf : Pz.WF)
    (hones : ∀ j, Pz.lp.c j = 1)
    (R : RoRows K) (hnz : R.nz ≤ Pz.lp.nc)
    (hq : ∀ q ∈ Pz.qmat, ∀ j ∈ q, R.nz ≤ j)
    (hxq : Pz.rowsRemoved = true → ∀ e ∈ Pz.xmat, ∀ j ∈ e, j ∉ Pz.eye)
    (v : ℕ → K) (hv : (R.leToRc Pz.coneDual).prog.Feas E v)
    (hv' : ((negRows R).leToRc Pz.coneDual).prog.Feas E v)
    (n : ℕ) (hn : n < R.m) (ζ : ℕ → K) (hζ : Pz.Feas E ζ) :
    R.eval n v ζ = 0 :=
  rc_sound_eq Pz E hE hwf hones R R rfl rfl hnz hq hxq v hv hv' n hn (fun _ => rfl) ζ hζ


end RsomeV.C01
