import RsomeV.M.Robust
namespace RsomeV.C01
end RsomeV.C01
