import RsomeV.L.ConicStrongExp
import RsomeV.L.ConicStrongExpFin
import RsomeV.L.ConicStrongExpDual
import RsomeV.Props.C02
import RsomeV.Props.C08

/-! # C08 (exponential cones) — `do_math(primal=False)` is a *strong* dual under a Slater condition

`RsomeV.C08.exp_dual_weak` proves weak duality of the model `ConeProg.coneDual` of
`gcp.Model.do_math(primal=False)` for programs with exponential cones.  Here **strong duality with
dual attainment** is proved for `K = ℝ` under a Slater condition (a feasible point strictly inside
every second-order cone and every exponential cone), extending `RsomeV.C02Conic.coneDual_strong`
(second-order cones only) to programs with `xmat ≠ []`.  The new mathematics:

* the strict exponential cone `realExpStrict` is open, stable under positive scaling and absorbs
  the closed cone under addition (`exp_strict_cone_laws`), so the abstract conic Lagrangian theorem
  `ConicStrong.conic_lagrange` (geometric Hahn-Banach) applies to products of exponential cones;
* the **dual cone of the exponential cone** (`exp_cone_dual`, `exp_cone_selfdual_iff`): a linear
  functional is non-negative on `realExpCone` iff it is rsome's pairing `ExpPair` with a point of
  `realExpCone` - the converse of `realExpCone_pair`;
* the transport to the model: the exponential block that `coneDual` appends to the second-order
  layer contributes, in every dual row, exactly the multipliers scattered to the primal column that
  the row carries (`ConeProg.expBlk_scatter`).

Consequences: `hgap_exp_slater` discharges the hypothesis `hgap` of
`RsomeV.C02.rc_exact_conic_partial` for supports with exponential cones, and
`rc_exact_exp_slater` is the exactness of the robust counterpart for such supports (e.g.
Kullback-Leibler balls, `exKL` below).  Helper lemmas: `RsomeV/L/ConicStrongExp*.lean`. -/

set_option linter.unusedSectionVars false
set_option linter.unusedSimpArgs false
set_option linter.unusedVariables false

namespace RsomeV.C08Exp
open Finset RsomeV ConeProg RoRows

/-! ### The exponential cone and its dual -/

/-- **Dual cone of the exponential cone** (rsome's coordinates `a2 * exp (a0 / a2) ≤ a1`).  Every
linear functional `(c0, c1, c2)` that is non-negative on the closed exponential cone is the pairing
`-u2 * a0 + u1 * a1 - (u0 + u2) * a2` (the one realised by the three dual columns
`gcp.Model.do_math(primal=False)` appends per cone) with a point `u` of the closed exponential
cone, namely `u = (c0 - c2, c1, -c0)`. -/
theorem exp_cone_dual (c0 c1 c2 : ℝ)
    (h : ∀ a0 a1 a2 : ℝ, realExpCone a0 a1 a2 → 0 ≤ c0 * a0 + c1 * a1 + c2 * a2) :
    ∃ u0 u1 u2 : ℝ, realExpCone u0 u1 u2 ∧ c0 = -u2 ∧ c1 = u1 ∧ c2 = -(u0 + u2) :=
  expCone_dual_exists c0 c1 c2 h

/-- **characterisation of the dual cone**: `(c0, c1, c2)` is non-negative on the exponential cone
iff `(c0 - c2, c1, -c0)` is a point of the exponential cone (`→` is new, `←` is
`realExpCone_pair`) -/
theorem exp_cone_selfdual_iff (c0 c1 c2 : ℝ) :
    (∀ a0 a1 a2 : ℝ, realExpCone a0 a1 a2 → 0 ≤ c0 * a0 + c1 * a1 + c2 * a2) ↔
      realExpCone (c0 - c2) c1 (-c0) :=
  expCone_selfdual_iff c0 c1 c2

/-- the same, read from the multiplier: `u` is a point of the exponential cone iff its `ExpPair`
pairing is non-negative on the whole cone (so `ExpPair realExpCone` is sharp: no larger set of
multipliers has the pairing property) -/
theorem exp_cone_iff_pairing (u0 u1 u2 : ℝ) :
    realExpCone u0 u1 u2 ↔
      ∀ a0 a1 a2 : ℝ, realExpCone a0 a1 a2 → 0 ≤ -u2 * a0 + u1 * a1 - (u0 + u2) * a2 :=
  realExpCone_iff_pair u0 u1 u2

/-- non-vacuity: the functional `a1 - a0 - a2` (i.e. `exp t ≥ 1 + t`) is non-negative on the cone;
its multiplier is `u = (0, 1, 1)`, on the boundary `u2 * exp (u0 / u2) = u1` -/
example : ∀ a0 a1 a2 : ℝ, realExpCone a0 a1 a2 → 0 ≤ (-1) * a0 + 1 * a1 + (-1) * a2 := by
  refine (exp_cone_selfdual_iff (-1) 1 (-1)).mpr (Or.inl ⟨by norm_num, ?_⟩)
  norm_num

/-- a functional that is *not* in the dual cone: `a1 - a0 - 2 * a2` (multiplier `(1, 1, 1)`,
and `1 * exp (1 / 1) > 1`) takes a negative value somewhere on the cone -/
example : ¬ ∀ a0 a1 a2 : ℝ, realExpCone a0 a1 a2 → 0 ≤ (-1) * a0 + 1 * a1 + (-2) * a2 := by
  rw [exp_cone_selfdual_iff]
  rintro (⟨_, h⟩ | ⟨h, _⟩)
  · norm_num at h
  · norm_num at h

/-- **cone laws of the strict exponential cone** (what `ConicStrong.conic_lagrange` needs), for the
product of `m` cones on the triples of `Fin (3 * m) → ℝ`: the strict part is open, contained in
the cone, stable under positive scaling, and `K + Ki ⊆ Ki`. -/
theorem exp_strict_cone_laws (m : ℕ) :
    IsOpen (expProdStrict m) ∧ expProdStrict m ⊆ expProd m ∧
    (∀ u ∈ expProdStrict m, ∀ t : ℝ, 0 < t → t • u ∈ expProdStrict m) ∧
    (∀ u ∈ expProd m, ∀ v ∈ expProdStrict m, u + v ∈ expProdStrict m) :=
  ⟨isOpen_expProdStrict m, expProdStrict_subset m, expProdStrict_smul m, expProd_add_strict m⟩

/-- the scalar facts behind it -/
theorem exp_strict_scalar_laws :
    (∀ t a0 a1 a2 : ℝ, 0 < t → realExpStrict a0 a1 a2 → realExpStrict (t * a0) (t * a1) (t * a2)) ∧
    (∀ a0 a1 a2 b0 b1 b2 : ℝ, realExpCone a0 a1 a2 → realExpStrict b0 b1 b2 →
      realExpStrict (a0 + b0) (a1 + b1) (a2 + b2)) ∧
    (∀ a0 a1 a2 b0 b1 b2 : ℝ, realExpCone a0 a1 a2 → realExpCone b0 b1 b2 →
      realExpCone (a0 + b0) (a1 + b1) (a2 + b2)) :=
  ⟨fun t a0 a1 a2 ht h => realExpStrict_smul t a0 a1 a2 ht h,
   realExpCone_add_strict, realExpCone_add⟩

/-! ### Strong duality, matrix form -/

/-- **Conic strong duality with dual attainment in matrix form, with exponential cones**
(independent of the model of rsome's programs).  Primal:
`sup { ⟪c, ζ⟫ : A ζ ≤ b, F ζ = g, ζ[q] ∈ SOC (q ∈ qs), ζ[e] ∈ EXP (e ∈ xs) }` over
`ζ : Fin n → ℝ`; exponential cones are index triples `e = [e₀, e₁, e₂]` in rsome's order
(`ζ[e₂] * exp (ζ[e₀] / ζ[e₂]) ≤ ζ[e₁]`).  Slater: some `ζ0` satisfies the rows and is strictly
inside every cone.  If `γ` bounds the objective on the feasible set, there are multipliers
`lam ≥ 0`, `mu`, `s` in the product of second-order cones and `u` in the product of exponential
cones (triple `3k, 3k+1, 3k+2` of `u` for the `k`-th cone) with
`Aᵀ lam + Fᵀ mu - scatter s - expScatter xs u = c` and `⟪b, lam⟫ + ⟪g, mu⟫ ≤ γ`, where
`expScatter xs u j = Σ_k [e_k0 = j] (-u_k2) + [e_k1 = j] u_k1 + [e_k2 = j] (-(u_k0 + u_k2))`. -/
theorem conic_strong_duality_exp {n p r : ℕ}
    (A : Fin p → Fin n → ℝ) (b : Fin p → ℝ) (F : Fin r → Fin n → ℝ) (g : Fin r → ℝ)
    (qs : List (List ℕ)) (hqs : ∀ q ∈ qs, ∀ j ∈ q, j < n)
    (xs : List (List ℕ)) (hxl : ∀ e ∈ xs, e.length = 3) (hxs : ∀ e ∈ xs, ∀ j ∈ e, j < n)
    (c : Fin n → ℝ) (γ : ℝ)
    (hslater : ∃ ζ0 : Fin n → ℝ, (∀ i, ∑ j, A i j * ζ0 j ≤ b i) ∧ (∀ i, ∑ j, F i j * ζ0 j = g i) ∧
        (∀ q ∈ qs, socStrict (extF ζ0) q) ∧
        ∀ e ∈ xs, realExpStrict (extF ζ0 (e.getD 0 0)) (extF ζ0 (e.getD 1 0)) (extF ζ0 (e.getD 2 0)))
    (hbd : ∀ ζ : Fin n → ℝ, (∀ i, ∑ j, A i j * ζ j ≤ b i) → (∀ i, ∑ j, F i j * ζ j = g i) →
        (∀ q ∈ qs, socMem (extF ζ) q) →
        (∀ e ∈ xs, realExpCone (extF ζ (e.getD 0 0)) (extF ζ (e.getD 1 0)) (extF ζ (e.getD 2 0))) →
        ∑ j, c j * ζ j ≤ γ) :
    ∃ (lam : Fin p → ℝ) (mu : Fin r → ℝ) (s u : ℕ → ℝ),
      (∀ i, 0 ≤ lam i) ∧ (∀ bl ∈ qBlocks qs 0, socMem s bl) ∧
      (∀ k < xs.length, realExpCone (u (3 * k)) (u (3 * k + 1)) (u (3 * k + 2))) ∧
      (∀ j : Fin n, ∑ i, lam i * A i j + ∑ i, mu i * F i j
          - ∑ k ∈ range qs.flatten.length, (if qs.flatten.getD k 0 = j.val then s k else 0)
          - expScatter xs u j.val = c j) ∧
      ∑ i, lam i * b i + ∑ i, mu i * g i ≤ γ :=
  conic_strong_duality_exp_fin A b F g qs hqs xs hxl hxs c γ hslater hbd

/-! ### Strong duality for the model of `gcp.Model.do_math(primal=False)` -/

/-- **Conic strong duality (exponential and second-order cones, Slater point) for the model of
`do_math(primal=False)`.**  `P` is a well-formed conic program of the development; `x0` is
feasible, strictly inside every second-order cone (`socStrict`) and strictly inside every
exponential cone (`ExpStrictAt`: `0 < a2 ∧ a2 * exp (a0 / a2) < a1` on each triple of `P.xmat`);
`γ` is a lower bound of the objective on the feasible set.  Then `P.coneDual` — the layout that
the second-order layer selects, with the exponential block appended — has a feasible point whose
value `- obj y` is at least `γ` (no duality gap, dual attained).

Hypotheses used only when the compact layout is selected (`P.rowsRemoved = true`, which requires
second-order cones): `hc`, `htail` (see `C02Conic.coneDual_strong`) and `hxq` (no exponential-cone
column is a second-order-cone column, as in weak duality `C08.exp_dual_weak`).  For programs
without second-order cones all three are vacuous. -/
theorem cone_dual_strong_exp (P : ConeProg ℝ) (hwf : P.WF)
    (hc : P.rowsRemoved = true → ∀ q ∈ P.qmat, ∀ j ∈ q, P.lp.c j = 0)
    (htail : P.rowsRemoved = true → ∀ q ∈ P.qmat, ∀ j ∈ q.tail, P.lp.isFree j = true)
    (hxq : P.rowsRemoved = true → ∀ e ∈ P.xmat, ∀ j ∈ e, j ∉ P.eye)
    (x0 : ℕ → ℝ) (hx0 : P.Feas realExpCone x0) (hs : ∀ q ∈ P.qmat, socStrict x0 q)
    (hxs : P.ExpStrictAt x0)
    (γ : ℝ) (hbd : ∀ x, P.Feas realExpCone x → γ ≤ P.lp.obj x) :
    ∃ y, P.coneDual.Feas realExpCone y ∧ γ ≤ - P.coneDual.lp.obj y :=
  coneDual_strong_exp P hwf hc htail hxq x0 hx0 hs hxs γ hbd

/-- the special case without second-order cones: only well-formedness and the Slater point -/
theorem cone_dual_strong_exp_only (P : ConeProg ℝ) (hwf : P.WF) (hq : P.qmat = [])
    (x0 : ℕ → ℝ) (hx0 : P.Feas realExpCone x0) (hxs : P.ExpStrictAt x0)
    (γ : ℝ) (hbd : ∀ x, P.Feas realExpCone x → γ ≤ P.lp.obj x) :
    ∃ y, P.coneDual.Feas realExpCone y ∧ γ ≤ - P.coneDual.lp.obj y := by
  have hrr : P.rowsRemoved = false := by simp [rowsRemoved, hq]
  apply coneDual_strong_exp P hwf _ _ _ x0 hx0 _ hxs γ hbd
  · intro h; rw [hrr] at h; exact Bool.noConfusion h
  · intro h; rw [hrr] at h; exact Bool.noConfusion h
  · intro h; rw [hrr] at h; exact Bool.noConfusion h
  · intro q hq'; rw [hq] at hq'; simp at hq'

/-- **optimal values coincide**: under the hypotheses of `cone_dual_strong_exp`, if the primal
optimum is attained at `xs` then the dual optimum is attained with the same value, and no dual
point does better (`C08.exp_dual_weak`). -/
theorem cone_dual_strong_exp_attained (P : ConeProg ℝ) (hwf : P.WF)
    (hc : P.rowsRemoved = true → ∀ q ∈ P.qmat, ∀ j ∈ q, P.lp.c j = 0)
    (htail : P.rowsRemoved = true → ∀ q ∈ P.qmat, ∀ j ∈ q.tail, P.lp.isFree j = true)
    (hxq : P.rowsRemoved = true → ∀ e ∈ P.xmat, ∀ j ∈ e, j ∉ P.eye)
    (x0 : ℕ → ℝ) (hx0 : P.Feas realExpCone x0) (hs : ∀ q ∈ P.qmat, socStrict x0 q)
    (hxs : P.ExpStrictAt x0)
    (xs : ℕ → ℝ) (hfs : P.Feas realExpCone xs)
    (hopt : ∀ x, P.Feas realExpCone x → P.lp.obj xs ≤ P.lp.obj x) :
    ∃ y, P.coneDual.Feas realExpCone y ∧ - P.coneDual.lp.obj y = P.lp.obj xs ∧
      ∀ y', P.coneDual.Feas realExpCone y' → - P.coneDual.lp.obj y' ≤ - P.coneDual.lp.obj y := by
  obtain ⟨y, hy, hge⟩ := cone_dual_strong_exp P hwf hc htail hxq x0 hx0 hs hxs (P.lp.obj xs) hopt
  have hweak : ∀ y', P.coneDual.Feas realExpCone y' → - P.coneDual.lp.obj y' ≤ P.lp.obj xs :=
    fun y' hy' => C08.exp_dual_weak P hwf hc hxq xs y' hfs hy'
  have heq : - P.coneDual.lp.obj y = P.lp.obj xs := le_antisymm (hweak y hy) hge
  exact ⟨y, hy, heq, fun y' hy' => by rw [heq]; exact hweak y' hy'⟩

/-! ### Robust counterparts over supports with exponential cones -/

/-- **The hypothesis `hgap` of `C02.rc_exact_conic_partial`, proved** for supports with
exponential cones (and possibly second-order cones) that have a Slater point: whenever row `n`
holds on the whole support, the conic dual of the support program re-costed with (minus) the
uncertain part of row `n` has a feasible point whose value covers the deterministic part of the
row.  (Exponential cones may sit on any columns, also on the random variables themselves.) -/
theorem hgap_exp_slater (Pz : ConeProg ℝ) (hwf : Pz.WF)
    (R : RoRows ℝ) (hnz : R.nz ≤ Pz.lp.nc)
    (hq : ∀ q ∈ Pz.qmat, ∀ j ∈ q, R.nz ≤ j)
    (htail : Pz.rowsRemoved = true → ∀ q ∈ Pz.qmat, ∀ j ∈ q.tail, Pz.lp.isFree j = true)
    (hxq : Pz.rowsRemoved = true → ∀ e ∈ Pz.xmat, ∀ j ∈ e, j ∉ Pz.eye)
    (hslater : ∃ ζ0, Pz.Feas realExpCone ζ0 ∧ (∀ q ∈ Pz.qmat, socStrict ζ0 q) ∧ Pz.ExpStrictAt ζ0)
    (x : ℕ → ℝ) :
    ∀ n < R.m, (∀ ζ, Pz.Feas realExpCone ζ → R.eval n x ζ ≤ 0) →
      ∃ y, (Pz.withCost (R.rowCost n x)).coneDual.Feas realExpCone y ∧
        R.detPart n x ≤ - (Pz.withCost (R.rowCost n x)).coneDual.lp.obj y := by
  intro n hn hsemi
  obtain ⟨ζ0, hζ0, hs, hxs⟩ := hslater
  set P' := Pz.withCost (R.rowCost n x) with hP'
  have hwf' : P'.WF := ⟨hwf.qlt, hwf.xlen, hwf.xlt, hwf.xnotneg, hwf.stcov⟩
  have hfe : ∀ ζ, P'.Feas realExpCone ζ ↔ Pz.Feas realExpCone ζ := fun ζ =>
    ⟨fun h => ⟨⟨h.lin.rows, h.lin.ubs, h.lin.lbs⟩, h.soc, h.exp⟩,
     fun h => ⟨⟨h.lin.rows, h.lin.ubs, h.lin.lbs⟩, h.soc, h.exp⟩⟩
  have hrr : P'.rowsRemoved = Pz.rowsRemoved := rfl
  apply coneDual_strong_exp P' hwf'
  · intro _ q hq' j hj
    show R.rowCost n x j = 0
    have := hq q hq' j hj
    simp only [rowCost, show ¬ j < R.nz by omega, if_false]
  · intro h q hq' j hj
    rw [hrr] at h
    exact htail h q hq' j hj
  · intro h e he j hj
    rw [hrr] at h
    exact hxq h e he j hj
  · exact (hfe ζ0).mpr hζ0
  · exact hs
  · exact hxs
  · intro ζ hζ
    have h := hsemi ζ ((hfe ζ).mp hζ)
    rw [R.eval_eq] at h
    rw [hP', R.obj_rowCost Pz hnz n x ζ]
    linarith

/-- **Exactness of the robust counterpart for supports with exponential cones, under a Slater
condition** (`K = ℝ`, the real closed exponential cone).  `Pz` is the support program (rows,
bounds, second-order and exponential cones), formulated with `obj=False` (`hones`); the uncertain
rows `R` read only the first `R.nz` columns of `Pz`; second-order cones sit on later (lifted /
auxiliary) columns (`hq`).  If the support has a point `ζ0` that is strictly inside every
second-order cone and every exponential cone (`hslater`; rows and bounds need not be strict), then
the projection of the feasible set of the counterpart `R.leToRc Pz.coneDual` on the decision columns
is *exactly* the set of decisions that satisfy the uncertain rows on the whole support.

`→` is `C01.rc_sound` (weak duality), `←` is `cone_dual_strong_exp` through
`C02.rc_exact_conic_partial`, whose hypothesis `hgap` is discharged by `hgap_exp_slater`.
`htail`, `hxq` matter only when the compact second-order layout is selected. -/
theorem rc_exact_exp_slater (Pz : ConeProg ℝ) (hwf : Pz.WF)
    (hones : ∀ j, Pz.lp.c j = 1)
    (R : RoRows ℝ) (hnz : R.nz ≤ Pz.lp.nc)
    (hq : ∀ q ∈ Pz.qmat, ∀ j ∈ q, R.nz ≤ j)
    (htail : Pz.rowsRemoved = true → ∀ q ∈ Pz.qmat, ∀ j ∈ q.tail, Pz.lp.isFree j = true)
    (hxq : Pz.rowsRemoved = true → ∀ e ∈ Pz.xmat, ∀ j ∈ e, j ∉ Pz.eye)
    (hslater : ∃ ζ0, Pz.Feas realExpCone ζ0 ∧ (∀ q ∈ Pz.qmat, socStrict ζ0 q) ∧ Pz.ExpStrictAt ζ0)
    (x : ℕ → ℝ) :
    (∃ v' : ℕ → ℝ, (∀ d < R.nd, v' d = x d) ∧
        (R.leToRc Pz.coneDual).prog.Feas realExpCone v') ↔
      (∀ n < R.m, ∀ ζ, Pz.Feas realExpCone ζ → R.eval n x ζ ≤ 0) :=
  C02.rc_exact_conic_partial Pz realExpCone realExpCone_pair hwf hones R hnz hq hxq x
    (hgap_exp_slater Pz hwf R hnz hq htail hxq hslater x)

/-! ### Example 1: `min t  s.t.  exp(x) ≤ t, x = 0`

The program below is, entry by entry, what `gcp.Model.do_math(primal=True)` stores for
`x = m.dvar(); t = m.dvar(); m.min(t); m.st(rso.exp(x) <= t); m.st(x == 0)`:
columns `t₀ x t a₀ a₁ a₂` (`t₀` the epigraph column of the objective, `a` the three auxiliary
columns of the cone), rows `x = 0`, `a₀ - x = 0`, `a₁ - t ≤ 0`, `a₂ = 1`, `t - t₀ ≤ 0`, cone
`[3, 4, 5]`, cost `t₀`. -/

/-- `min t s.t. exp(x) ≤ t, x = 0` in rsome's encoding -/
noncomputable def exMin : ConeProg ℝ :=
  { lp := { nr := 5, nc := 6
            a := fun i j =>
              if i = 0 ∧ j = 1 then 1
              else if i = 1 ∧ j = 1 then -1 else if i = 1 ∧ j = 3 then 1
              else if i = 2 ∧ j = 2 then -1 else if i = 2 ∧ j = 4 then 1
              else if i = 3 ∧ j = 5 then 1
              else if i = 4 ∧ j = 0 then -1 else if i = 4 ∧ j = 2 then 1 else 0
            b := fun i => if i = 3 then 1 else 0
            eq := fun i => decide (i = 0 ∨ i = 1 ∨ i = 3)
            ub := fun _ => none
            lb := fun _ => none
            c := fun j => if j = 0 then 1 else 0 }
    st := fun i j => decide ((i = 0 ∧ j = 1) ∨ (i = 1 ∧ (j = 1 ∨ j = 3)) ∨ (i = 2 ∧ (j = 2 ∨ j = 4))
      ∨ (i = 3 ∧ j = 5) ∨ (i = 4 ∧ (j = 0 ∨ j = 2)))
    qmat := [], xmat := [[3, 4, 5]] }

lemma exMin_wf : exMin.WF where
  qlt := by intro q hq; simp [exMin] at hq
  xlen := by
    intro e he
    simp only [exMin, List.mem_singleton] at he
    subst he; rfl
  xlt := by
    intro e he j hj
    simp only [exMin, List.mem_singleton] at he
    subst he
    simp only [List.mem_cons, List.not_mem_nil, or_false] at hj
    show j < 6
    omega
  xnotneg := by intro e he j hj; simp [LinProg.isNeg, exMin]
  stcov := by
    intro i j h
    simp only [exMin] at h ⊢
    by_contra hst
    apply h
    simp only [decide_eq_true_eq] at hst
    split_ifs <;> first | rfl | (exfalso; apply hst; omega)

lemma exMin_row (i : ℕ) (ζ : ℕ → ℝ) :
    exMin.lp.row i ζ = if i = 0 then ζ 1 else if i = 1 then ζ 3 - ζ 1 else if i = 2 then ζ 4 - ζ 2
      else if i = 3 then ζ 5 else if i = 4 then ζ 2 - ζ 0 else 0 := by
  simp only [LinProg.row, exMin, Finset.sum_range_succ, Finset.sum_range_zero]
  by_cases h0 : i = 0
  · subst h0; norm_num
  by_cases h1 : i = 1
  · subst h1; norm_num; ring
  by_cases h2 : i = 2
  · subst h2; norm_num; ring
  by_cases h3 : i = 3
  · subst h3; norm_num
  by_cases h4 : i = 4
  · subst h4; norm_num; ring
  · simp [h0, h1, h2, h3, h4]

lemma exMin_feas_iff (ζ : ℕ → ℝ) :
    exMin.Feas realExpCone ζ ↔
      ζ 1 = 0 ∧ ζ 3 = ζ 1 ∧ ζ 4 ≤ ζ 2 ∧ ζ 5 = 1 ∧ ζ 2 ≤ ζ 0 ∧ realExpCone (ζ 3) (ζ 4) (ζ 5) := by
  constructor
  · intro h
    have r0 := h.lin.rows 0 (by show 0 < 5; omega)
    have r1 := h.lin.rows 1 (by show 1 < 5; omega)
    have r2 := h.lin.rows 2 (by show 2 < 5; omega)
    have r3 := h.lin.rows 3 (by show 3 < 5; omega)
    have r4 := h.lin.rows 4 (by show 4 < 5; omega)
    rw [exMin_row] at r0 r1 r2 r3 r4
    simp [exMin] at r0 r1 r2 r3 r4
    have hx := h.exp [3, 4, 5] (by simp [exMin])
    simp at hx
    exact ⟨r0, by linarith, by linarith, r3, by linarith, hx⟩
  · rintro ⟨h0, h1, h2, h3, h4, h5⟩
    refine ⟨⟨?_, ?_, ?_⟩, ?_, ?_⟩
    · intro i hi
      have hi' : i < 5 := hi
      rw [exMin_row]
      interval_cases i <;> simp [exMin] <;> linarith
    · intro j _; trivial
    · intro j _; trivial
    · intro q hq; simp [exMin] at hq
    · intro e he
      simp only [exMin, List.mem_singleton] at he
      subst he
      simpa using h5

lemma exMin_obj (ζ : ℕ → ℝ) : exMin.lp.obj ζ = ζ 0 := by
  simp [LinProg.obj, exMin, Finset.sum_range_succ]

/-- the point `t₀ = t = a₁ = 2`, `x = a₀ = 0`, `a₂ = 1`: feasible and strictly inside the cone
(`1 * exp (0 / 1) = 1 < 2`) -/
noncomputable def exMinPt : ℕ → ℝ := fun j =>
  if j = 0 then 2 else if j = 2 then 2 else if j = 4 then 2 else if j = 5 then 1 else 0

lemma exMin_slater : exMin.Feas realExpCone exMinPt ∧ exMin.ExpStrictAt exMinPt := by
  have hstrict : realExpStrict (exMinPt 3) (exMinPt 4) (exMinPt 5) := by
    simp [exMinPt, realExpStrict]
  refine ⟨(exMin_feas_iff exMinPt).mpr ⟨?_, ?_, ?_, ?_, ?_, hstrict.mem⟩, ?_⟩
  · simp [exMinPt]
  · simp [exMinPt]
  · simp [exMinPt]
  · simp [exMinPt]
  · simp [exMinPt]
  · intro e he
    simp only [exMin, List.mem_singleton] at he
    subst he
    simpa using hstrict

/-- the optimal value is at least `1`: `1 = exp 0 ≤ a₁ ≤ t ≤ t₀` -/
lemma exMin_bound : ∀ ζ, exMin.Feas realExpCone ζ → 1 ≤ exMin.lp.obj ζ := by
  intro ζ hζ
  obtain ⟨h0, h1, h2, h3, h4, h5⟩ := (exMin_feas_iff ζ).mp hζ
  rw [exMin_obj]
  rcases h5 with ⟨_, h5⟩ | ⟨h5, _⟩
  · rw [h3, h1, h0] at h5
    simp at h5
    linarith
  · rw [h3] at h5; norm_num at h5

/-- the optimum `1` is attained at `t₀ = t = a₁ = 1`, `x = a₀ = 0`, `a₂ = 1` (on the boundary of
the cone) -/
noncomputable def exMinOpt : ℕ → ℝ := fun j =>
  if j = 0 then 1 else if j = 2 then 1 else if j = 4 then 1 else if j = 5 then 1 else 0

lemma exMinOpt_feas : exMin.Feas realExpCone exMinOpt := by
  refine (exMin_feas_iff exMinOpt).mpr ⟨?_, ?_, ?_, ?_, ?_, Or.inl ⟨?_, ?_⟩⟩ <;> simp [exMinOpt]

/-- **all hypotheses of `cone_dual_strong_exp` are satisfiable**: for `min t s.t. exp(x) ≤ t, x = 0`
the model of the code's dual has a feasible point of value exactly `1`, the primal optimum, and no
dual point does better -/
example : ∃ y, exMin.coneDual.Feas realExpCone y ∧ - exMin.coneDual.lp.obj y = 1 ∧
    ∀ y', exMin.coneDual.Feas realExpCone y' → - exMin.coneDual.lp.obj y' ≤ - exMin.coneDual.lp.obj y := by
  have hrr : exMin.rowsRemoved = false := by simp [rowsRemoved, exMin]
  have hobj : exMin.lp.obj exMinOpt = 1 := by rw [exMin_obj]; simp [exMinOpt]
  have h := cone_dual_strong_exp_attained exMin exMin_wf
    (by intro h; rw [hrr] at h; exact Bool.noConfusion h)
    (by intro h; rw [hrr] at h; exact Bool.noConfusion h)
    (by intro h; rw [hrr] at h; exact Bool.noConfusion h)
    exMinPt exMin_slater.1 (by intro q hq; simp [exMin] at hq) exMin_slater.2
    exMinOpt exMinOpt_feas (by intro ζ hζ; rw [hobj]; exact exMin_bound ζ hζ)
  rw [hobj] at h
  exact h

/-! ### Example 2: a Kullback-Leibler ball as support

The support program below is, entry by entry, what rsome's `ro.Model` stores for
`(p[0]*x + p[1] - 4 <= 0).forall(p.sum() == 1, p >= 0, rso.kldiv(p, [0.5, 0.5], 0.1))` with
`p = m.rvar(2)` (`m.sup_model.do_math(primal=True, obj=False)`): columns `p₀ p₁ k₀ k₁` and two
triples `a₀ a₁ a₂`, `a₀' a₁' a₂'`; rows `p₀ + p₁ = 1`, `k₀ + k₁ ≤ 1/10`, `2 k₀ + a₀ = 0`, `a₁ ≤ 1`,
`a₂ - 2 p₀ = 0`, `2 k₁ + a₀' = 0`, `a₁' ≤ 1`, `a₂' - 2 p₁ = 0`; bounds `p ≥ 0`; cones `[4, 5, 6]`,
`[7, 8, 9]` (`2 pₛ * exp (-kₛ / pₛ) ≤ 1`, i.e. `pₛ log (pₛ / (1/2)) ≤ kₛ`); all-ones cost. -/

/-- support program of the Kullback-Leibler ball `KL(p ‖ (1/2, 1/2)) ≤ 1/10`, rsome's encoding -/
noncomputable def exKL : ConeProg ℝ :=
  { lp := { nr := 8, nc := 10
            a := fun i j =>
              if i = 0 ∧ (j = 0 ∨ j = 1) then 1
              else if i = 1 ∧ (j = 2 ∨ j = 3) then 1
              else if i = 2 ∧ j = 2 then 2 else if i = 2 ∧ j = 4 then 1
              else if i = 3 ∧ j = 5 then 1
              else if i = 4 ∧ j = 0 then -2 else if i = 4 ∧ j = 6 then 1
              else if i = 5 ∧ j = 3 then 2 else if i = 5 ∧ j = 7 then 1
              else if i = 6 ∧ j = 8 then 1
              else if i = 7 ∧ j = 1 then -2 else if i = 7 ∧ j = 9 then 1 else 0
            b := fun i => if i = 0 then 1 else if i = 1 then 1 / 10 else if i = 3 then 1
              else if i = 6 then 1 else 0
            eq := fun i => decide (i = 0 ∨ i = 2 ∨ i = 4 ∨ i = 5 ∨ i = 7)
            ub := fun _ => none
            lb := fun j => if j < 2 then some 0 else none
            c := fun _ => 1 }
    st := fun i j => decide ((i = 0 ∧ (j = 0 ∨ j = 1)) ∨ (i = 1 ∧ (j = 2 ∨ j = 3))
      ∨ (i = 2 ∧ (j = 2 ∨ j = 4)) ∨ (i = 3 ∧ j = 5) ∨ (i = 4 ∧ (j = 0 ∨ j = 6))
      ∨ (i = 5 ∧ (j = 3 ∨ j = 7)) ∨ (i = 6 ∧ j = 8) ∨ (i = 7 ∧ (j = 1 ∨ j = 9)))
    qmat := [], xmat := [[4, 5, 6], [7, 8, 9]] }

/-- the uncertain row `x·p₀ + p₁ - 4 ≤ 0` over one decision column -/
noncomputable def exKLRow : RoRows ℝ :=
  { nd := 1, m := 1, nz := 2
    Rl := fun _ j _ => if j = 0 then 1 else 0
    Rc := fun _ j => if j = 1 then 1 else 0
    al := fun _ _ => 0, ac := fun _ => -4 }

lemma exKL_wf : exKL.WF where
  qlt := by intro q hq; simp [exKL] at hq
  xlen := by
    intro e he
    simp only [exKL, List.mem_cons, List.not_mem_nil, or_false] at he
    rcases he with rfl | rfl <;> rfl
  xlt := by
    intro e he j hj
    simp only [exKL, List.mem_cons, List.not_mem_nil, or_false] at he
    show j < 10
    rcases he with rfl | rfl <;>
      (simp only [List.mem_cons, List.not_mem_nil, or_false] at hj; omega)
  xnotneg := by intro e he j hj; simp [LinProg.isNeg, exKL]
  stcov := by
    intro i j h
    simp only [exKL] at h ⊢
    by_contra hst
    apply h
    simp only [decide_eq_true_eq] at hst
    repeat (rw [if_neg (by omega)])

/-- the centre `p = (1/2, 1/2)` with `k = (1/20, 1/20)`, `a = a' = (-1/10, 1, 1)`: feasible and
strictly inside both cones (`1 * exp (-1/10) < 1`) -/
noncomputable def exKLPt : ℕ → ℝ := fun j =>
  if j = 0 then 1 / 2 else if j = 1 then 1 / 2 else if j = 2 then 1 / 20 else if j = 3 then 1 / 20
  else if j = 4 then -1 / 10 else if j = 5 then 1 else if j = 6 then 1
  else if j = 7 then -1 / 10 else if j = 8 then 1 else if j = 9 then 1 else 0

lemma exKL_strict : realExpStrict (-1 / 10 : ℝ) 1 1 := by
  refine ⟨one_pos, ?_⟩
  rw [one_mul, div_one]
  exact Real.exp_lt_one_iff.mpr (by norm_num)

lemma exKL_slater : ∃ ζ0, exKL.Feas realExpCone ζ0 ∧ (∀ q ∈ exKL.qmat, socStrict ζ0 q) ∧
    exKL.ExpStrictAt ζ0 := by
  have hx : exKL.ExpStrictAt exKLPt := by
    intro e he
    simp only [exKL, List.mem_cons, List.not_mem_nil, or_false] at he
    rcases he with rfl | rfl
    · simpa [exKLPt] using exKL_strict
    · simpa [exKLPt] using exKL_strict
  refine ⟨exKLPt, ⟨⟨?_, ?_, ?_⟩, ?_, fun e he => (hx e he).mem⟩, ?_, hx⟩
  · intro i hi
    have hi' : i < 8 := hi
    interval_cases i <;>
      simp [LinProg.row, exKL, exKLPt, Finset.sum_range_succ] <;> norm_num
  · intro j _; trivial
  · intro j hj
    show LinProg.geLb (exKLPt j) (if j < 2 then some 0 else none)
    split_ifs with h
    · show (0 : ℝ) ≤ exKLPt j
      have : j = 0 ∨ j = 1 := by omega
      rcases this with rfl | rfl <;> simp [exKLPt]
    · trivial
  · intro q hq; simp [exKL] at hq
  · intro q hq; simp [exKL] at hq

/-- **all hypotheses of `rc_exact_exp_slater` hold** for the Kullback-Leibler ball and the row
`x·p₀ + p₁ - 4 ≤ 0`, so the counterpart rsome builds from the conic dual of the support is exact at
every decision `x` -/
example (x : ℕ → ℝ) :
    (∃ v' : ℕ → ℝ, (∀ d < exKLRow.nd, v' d = x d) ∧
        (exKLRow.leToRc exKL.coneDual).prog.Feas realExpCone v') ↔
      (∀ n < exKLRow.m, ∀ ζ, exKL.Feas realExpCone ζ → exKLRow.eval n x ζ ≤ 0) := by
  have hrr : exKL.rowsRemoved = false := by simp [rowsRemoved, exKL]
  exact rc_exact_exp_slater exKL exKL_wf (fun _ => rfl) exKLRow (by show 2 ≤ 10; omega)
    (by intro q hq; simp [exKL] at hq)
    (by intro h; rw [hrr] at h; exact Bool.noConfusion h)
    (by intro h; rw [hrr] at h; exact Bool.noConfusion h)
    exKL_slater x

/-- the decision `x = 2` satisfies the row on the whole ball (`2 p₀ + p₁ ≤ 2 < 4` on the simplex),
hence multipliers exist that make the counterpart feasible at `x = 2`: the conic dual of the inner
problem `max {2 p₀ + p₁ : p ∈ KL-ball}` is attained without gap -/
example : ∃ v' : ℕ → ℝ, (∀ d < exKLRow.nd, v' d = 2) ∧
    (exKLRow.leToRc exKL.coneDual).prog.Feas realExpCone v' := by
  have hrr : exKL.rowsRemoved = false := by simp [rowsRemoved, exKL]
  refine (rc_exact_exp_slater exKL exKL_wf (fun _ => rfl) exKLRow (by show 2 ≤ 10; omega)
    (by intro q hq; simp [exKL] at hq)
    (by intro h; rw [hrr] at h; exact Bool.noConfusion h)
    (by intro h; rw [hrr] at h; exact Bool.noConfusion h)
    exKL_slater (fun _ => 2)).mpr ?_
  intro n hn ζ hζ
  have hn0 : n = 0 := by change n < 1 at hn; omega
  subst hn0
  have r0 := hζ.lin.rows 0 (by show 0 < 8; omega)
  have l0 := hζ.lin.lbs 0 (by show 0 < 10; omega)
  have l1 := hζ.lin.lbs 1 (by show 1 < 10; omega)
  simp [LinProg.row, exKL, Finset.sum_range_succ] at r0
  simp [exKL, LinProg.geLb] at l0 l1
  simp [RoRows.eval, exKLRow, Finset.sum_range_succ]
  linarith

end RsomeV.C08Exp
