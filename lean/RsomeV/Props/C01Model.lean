import RsomeV.M.RoModel
import RsomeV.L.RoModel
import RsomeV.L.ExpCone
import RsomeV.Props.C01
import Mathlib.Tactic.Linarith
import Mathlib.Tactic.Ring
import Mathlib.Tactic.NormNum

/-! C01, whole-program form — the program `ro.Model.do_math()` compiles (model `roModel`,
`RsomeV/M/RoModel.lean`: all robust constraints compiled in order with their own or the default
support, multiplier blocks numbered in compilation order, deterministic rows and bounds in
between, bounds folded, cones re-indexed / routed through auxiliary columns, the objective as a
last robust constraint or as the epigraph row) implies the semi-infinite model the user wrote:
at every point of the compiled program every robust row holds at every realisation of its set,
and every deterministic row and bound holds. -/

set_option linter.unusedSectionVars false
set_option linter.unusedSimpArgs false
set_option linter.unusedVariables false

namespace RsomeV.C01Model
open Finset RsomeV ConeProg RoRows

variable {K : Type} [Field K] [LinearOrder K] [IsStrictOrderedRing K]

/-- well-formedness of an exported model: robust rows mention decision columns only; a `Bounds`
object addresses decision columns, repeated indices carry equal values (true of every object the
comparison operators of rsome build) -/
structure WF (M : RoSpec K) : Prop where
  rob : ∀ R S, CItem.rob R S ∈ M.blocks → R.nd ≤ M.nd
  bnd : ∀ b, CItem.bnd b ∈ M.blocks → b.Consistent ∧ ∀ p ∈ b.entries, p.1 < M.nd

/-- the user's part of a solution vector: the decision columns -/
def userPart (M : RoSpec K) (x : ℕ → K) : ℕ → K := fun d => if d < M.nd then x d else 0

lemma nd_le_nc (M : RoSpec K) : M.nd ≤ (roModel M).lp.nc :=
  le_trans (le_endCol M.nd M.blocks) (Nat.le_add_right _ _)

/-- the `Bounds` objects of the stacked program are consistent and address its columns -/
lemma bounds_wf (M : RoSpec K) (hwf : WF M) :
    (∀ b ∈ asmBounds M.placed, b.Consistent) ∧
    (∀ b ∈ asmBounds M.placed, ∀ p ∈ b.entries, p.1 < endCol M.nd M.blocks + 3 * (asmX M.placed).length) := by
  have key : ∀ b ∈ asmBounds M.placed,
      b.Consistent ∧ ∀ p ∈ b.entries, p.1 < endCol M.nd M.blocks := by
    intro b hb
    obtain ⟨it, hit, hbit⟩ := List.mem_flatMap.mp hb
    cases it with
    | det nr a b' eq => simp [PItem.bounds] at hbit
    | bnd b' =>
      simp only [PItem.bounds, List.mem_cons, List.not_mem_nil, or_false] at hbit
      subst hbit
      obtain ⟨h1, h2⟩ := hwf.bnd b ((mem_place_bnd M.nd b M.blocks M.nd).mp hit)
      exact ⟨h1, fun p hp => lt_of_lt_of_le (h2 p hp) (le_endCol _ _)⟩
    | frag R' S' =>
      have hle := (placed_frag M.nd R' S' M.blocks M.nd hit).2
      exact ⟨R'.rcBounds_consistent S' b hbit,
        fun p hp => lt_of_lt_of_le (R'.rcBounds_entries S' b hbit p hp).2 hle⟩
  exact ⟨fun b hb => (key b hb).1, fun b hb p hp => lt_of_lt_of_le ((key b hb).2 p hp) (Nat.le_add_right _ _)⟩

/-- **Every compiled fragment is a sub-family of the whole program**: a point `x` of the program
`ro.Model.do_math()` returns is a point of the list of constraints `le_to_rc` returned for the
robust block `(R, S)` (compiled when the model had `cur ≥ nd` columns). -/
theorem block_feas (M : RoSpec K) (hwf : WF M) (E : K → K → K → Prop) (hmono : ExpMono E)
    (x : ℕ → K) (hx : (roModel M).Feas E x)
    (R : RoRows K) (S : ConeProg K) (hmem : CItem.rob R S ∈ M.blocks)
    (hSx : ∀ e ∈ S.xmat, e.length = 3 ∧ ∀ i ∈ e, i < S.lp.nc) :
    ∃ cur, M.nd ≤ cur ∧ ((R.rebase cur).leToRc S).prog.Feas E x := by
  obtain ⟨c, h1, h2, h3⟩ := mem_place_rob M.nd R S M.blocks hmem M.nd
  obtain ⟨hc, hN⟩ := bounds_wf M hwf
  exact ⟨c, h1, frag_feas (endCol M.nd M.blocks) M.placed M.objRow E x hmono hx hc hN
    (R.rebase c) S h3 h2 hSx⟩

/-- **Whole-program safety of the robust counterpart** (`ro.Model.do_math()`): let `x` be feasible
for the compiled program `roModel M`.  Then

1. for every robust block `(R, S)` of the model (a user constraint with its own or the default
   support, one half of a robust equality, the constraint `vars[0] >= sign*obj` of an uncertain
   objective, one piece of a piecewise objective) whose support `S` is the conic dual of a
   support program `Pz` — under the hypotheses of `C01.rc_sound` —, every row `n < R.m` holds at
   every realisation `ζ` of `Pz`, at the user's decision columns of `x`;
2. every deterministic row holds at the decision columns of `x`;
3. every bound holds.

`E` is the exponential cone: `ExpPair` is what weak conic duality needs, `ExpMono` what the
auxiliary-column encoding `aux[1] <= expr2` of an `ExpConstr` needs; the real exponential cone
has both (`realExpCone_pair`, `realExpCone_mono`). -/
theorem ro_model_sound (M : RoSpec K) (hwf : WF M) (E : K → K → K → Prop) (hE : ExpPair E)
    (hmono : ExpMono E) (x : ℕ → K) (hx : (roModel M).Feas E x) :
    (∀ R S, CItem.rob R S ∈ M.blocks →
      ∀ Pz : ConeProg K, S = Pz.coneDual → Pz.WF → (∀ j, Pz.lp.c j = 1) → R.nz ≤ Pz.lp.nc →
        (∀ q ∈ Pz.qmat, ∀ j ∈ q, R.nz ≤ j) →
        (Pz.rowsRemoved = true → ∀ e ∈ Pz.xmat, ∀ j ∈ e, j ∉ Pz.eye) →
        ∀ n < R.m, ∀ ζ, Pz.Feas E ζ → R.eval n (userPart M x) ζ ≤ 0) ∧
    (∀ nr a b eq, CItem.det nr a b eq ∈ M.blocks → ∀ i < nr,
        if eq i then ∑ d ∈ range M.nd, a i d * x d = b i else ∑ d ∈ range M.nd, a i d * x d ≤ b i) ∧
    (∀ bd, CItem.bnd bd ∈ M.blocks → ∀ p ∈ bd.entries,
        if bd.upper then x p.1 ≤ p.2 else p.2 ≤ x p.1) := by
  refine ⟨?_, ?_, ?_⟩
  · intro R S hmem Pz hS hPwf hones hnz hq hxq n hn ζ hζ
    subst hS
    obtain ⟨cur, hcur, hfeas⟩ := block_feas M hwf E hmono x hx R _ hmem (coneDual_xmat_wf Pz)
    have hnd := hwf.rob R _ hmem
    have h := C01.rc_sound Pz E hE hPwf hones (R.rebase cur) hnz hq hxq x hfeas n hn ζ hζ
    rw [eval_rebase R cur (le_trans hnd hcur)] at h
    rw [eval_congr R n (userPart M x) x ζ
      (fun d hd => by simp only [userPart]; rw [if_pos (by omega)])]
    exact h
  · intro nr a b eq hmem i hi
    have hp := mem_place_det M.nd nr a b eq M.blocks hmem M.nd
    have hr : (⟨fun c => if c < M.nd then a i c else 0, b i, eq i⟩ : PRow K)
        ∈ asmRows0 (endCol M.nd M.blocks) M.placed M.objRow := by
      unfold asmRows0
      apply List.mem_append_left
      apply List.mem_append_left
      refine List.mem_flatMap.mpr ⟨_, hp, ?_⟩
      exact List.mem_map.mpr ⟨i, List.mem_range.mpr hi, rfl⟩
    have h := assemble_rows _ _ _ E x hx _ hr
    simp only [PRow.ok] at h
    have hs : ∑ j ∈ range (endCol M.nd M.blocks + 3 * (asmX M.placed).length),
        (if j < M.nd then a i j else 0) * x j = ∑ d ∈ range M.nd, a i d * x d :=
      sum_range_tail_zero M.nd _ (nd_le_nc M) (fun j => (if j < M.nd then a i j else 0) * x j)
        (fun d => a i d * x d) (fun d hd => by simp only [if_pos hd])
        (fun d hd _ => by simp only [if_neg (show ¬ d < M.nd by omega), zero_mul])
    rw [hs] at h
    exact h
  · intro bd hmem p hp
    obtain ⟨hc, hN⟩ := bounds_wf M hwf
    exact assemble_bounds _ _ _ E x hx hc hN bd
      (List.mem_flatMap.mpr ⟨_, (mem_place_bnd M.nd bd M.blocks M.nd).mpr hmem, by simp [PItem.bounds]⟩) p hp

/-- `ro_model_sound` for random variables declared after the set was formulated (the rows have
more random components than the support program has columns; block (4) of `le_to_rc`): under the
hypotheses of `C01.rc_sound_late'` every robust row holds at every realisation `ζ` whose first
`Pz.lp.nc` components form a point `ζ₀` of the support program — the late components are
arbitrary. -/
theorem ro_model_sound_late (M : RoSpec K) (hwf : WF M) (E : K → K → K → Prop) (hE : ExpPair E)
    (hmono : ExpMono E) (x : ℕ → K) (hx : (roModel M).Feas E x)
    (R : RoRows K) (S : ConeProg K) (hmem : CItem.rob R S ∈ M.blocks)
    (Pz : ConeProg K) (hS : S = Pz.coneDual) (hPwf : Pz.WF) (hones : ∀ j, Pz.lp.c j = 1)
    (hq : ∀ q ∈ Pz.qmat, ∀ j ∈ q, min R.nz Pz.lp.nc ≤ j)
    (hxq : Pz.rowsRemoved = true → ∀ e ∈ Pz.xmat, ∀ j ∈ e, j ∉ Pz.eye)
    (n : ℕ) (hn : n < R.m) (ζ₀ : ℕ → K) (hζ₀ : Pz.Feas E ζ₀)
    (ζ : ℕ → K) (hζ : ∀ j < Pz.lp.nc, ζ j = ζ₀ j) :
    R.eval n (userPart M x) ζ ≤ 0 := by
  subst hS
  obtain ⟨cur, hcur, hfeas⟩ := block_feas M hwf E hmono x hx R _ hmem (coneDual_xmat_wf Pz)
  have hnd := hwf.rob R _ hmem
  have h := C01.rc_sound_late' Pz E hE hPwf hones (R.rebase cur) hq hxq x hfeas n hn ζ₀ hζ₀ ζ hζ
  rw [eval_rebase R cur (le_trans hnd hcur)] at h
  rw [eval_congr R n (userPart M x) x ζ
    (fun d hd => by simp only [userPart]; rw [if_pos (by omega)])]
  exact h

/-! #### What the blocks are -/

/-- a user constraint with its own support is a block -/
lemma rob_own_mem (M : RoSpec K) (R : RoRows K) (S : ConeProg K) (h : RoItem.rob R (some S) ∈ M.items) :
    CItem.rob R S ∈ M.blocks :=
  List.mem_flatMap.mpr ⟨_, List.mem_append_left _ h, by simp [RoItem.resolve]⟩

/-- a user constraint without own support is a block with the default support (`obj_support`) -/
lemma rob_default_mem (M : RoSpec K) (R : RoRows K) (S0 : ConeProg K) (hS0 : M.S0 = some S0)
    (h : RoItem.rob R none ∈ M.items) : CItem.rob R S0 ∈ M.blocks :=
  List.mem_flatMap.mpr ⟨_, List.mem_append_left _ h, by simp [RoItem.resolve, hS0]⟩

/-- a robust equality contributes the rows and their negation -/
lemma robEq_mem (M : RoSpec K) (R : RoRows K) (S : ConeProg K) (h : RoItem.robEq R (some S) ∈ M.items) :
    CItem.rob R S ∈ M.blocks ∧ CItem.rob R.neg S ∈ M.blocks :=
  ⟨List.mem_flatMap.mpr ⟨_, List.mem_append_left _ h, by simp [RoItem.resolve]⟩,
   List.mem_flatMap.mpr ⟨_, List.mem_append_left _ h, by simp [RoItem.resolve]⟩⟩

lemma robEq_default_mem (M : RoSpec K) (R : RoRows K) (S0 : ConeProg K) (hS0 : M.S0 = some S0)
    (h : RoItem.robEq R none ∈ M.items) :
    CItem.rob R S0 ∈ M.blocks ∧ CItem.rob R.neg S0 ∈ M.blocks :=
  ⟨List.mem_flatMap.mpr ⟨_, List.mem_append_left _ h, by simp [RoItem.resolve, hS0]⟩,
   List.mem_flatMap.mpr ⟨_, List.mem_append_left _ h, by simp [RoItem.resolve, hS0]⟩⟩

/-- an uncertain objective is the block `sign*obj - x_0 <= 0` with the default support -/
lemma obj_mem (M : RoSpec K) (s : K) (R : RoRows K) (S0 : ConeProg K) (hS0 : M.S0 = some S0)
    (h : M.obj = .roaffine s R) : CItem.rob (R.epi s) S0 ∈ M.blocks :=
  List.mem_flatMap.mpr ⟨RoItem.rob (R.epi s) none,
    List.mem_append_right _ (by rw [h]; simp [RoObj.moreRoc]), by simp [RoItem.resolve, hS0]⟩

/-- a bi-affine piece of a piecewise objective is the block `piece - x_0 <= 0` -/
lemma piece_mem (M : RoSpec K) (ps : List (ObjPiece K)) (R : RoRows K) (S0 : ConeProg K)
    (hS0 : M.S0 = some S0) (h : M.obj = .piecewise ps) (hp : ObjPiece.ro R ∈ ps) :
    CItem.rob (R.epi 1) S0 ∈ M.blocks :=
  List.mem_flatMap.mpr ⟨RoItem.rob (R.epi 1) none,
    List.mem_append_right _ (by rw [h]; exact List.mem_map.mpr ⟨_, hp, rfl⟩),
    by simp [RoItem.resolve, hS0]⟩

theorem eval_neg (R : RoRows K) (n : ℕ) (v ζ : ℕ → K) : R.neg.eval n v ζ = - R.eval n v ζ :=
  C01.eval_negRows R n v ζ

/-- **Robust equalities**: at a point of the compiled program a robust equality with support
`Pz.coneDual` holds with equality at every realisation of `Pz`. -/
theorem ro_model_sound_eq (M : RoSpec K) (hwf : WF M) (E : K → K → K → Prop) (hE : ExpPair E)
    (hmono : ExpMono E) (x : ℕ → K) (hx : (roModel M).Feas E x)
    (R : RoRows K) (Pz : ConeProg K) (h : RoItem.robEq R (some Pz.coneDual) ∈ M.items)
    (hPwf : Pz.WF) (hones : ∀ j, Pz.lp.c j = 1) (hnz : R.nz ≤ Pz.lp.nc)
    (hq : ∀ q ∈ Pz.qmat, ∀ j ∈ q, R.nz ≤ j)
    (hxq : Pz.rowsRemoved = true → ∀ e ∈ Pz.xmat, ∀ j ∈ e, j ∉ Pz.eye)
    (n : ℕ) (hn : n < R.m) (ζ : ℕ → K) (hζ : Pz.Feas E ζ) :
    R.eval n (userPart M x) ζ = 0 := by
  obtain ⟨h1, h2⟩ := robEq_mem M R _ h
  have hs := (ro_model_sound M hwf E hE hmono x hx).1
  have a1 := hs R _ h1 Pz rfl hPwf hones hnz hq hxq n hn ζ hζ
  have a2 := hs R.neg _ h2 Pz rfl hPwf hones hnz hq hxq n hn ζ hζ
  rw [eval_neg] at a2
  linarith

/-- **Uncertain objective** (`minmax` / `maxmin`): at a point of the compiled program the epigraph
column bounds `sign * obj` at every realisation of the default set. -/
theorem ro_model_sound_obj (M : RoSpec K) (hwf : WF M) (E : K → K → K → Prop) (hE : ExpPair E)
    (hmono : ExpMono E) (x : ℕ → K) (hx : (roModel M).Feas E x)
    (s : K) (R : RoRows K) (Pz : ConeProg K) (hS0 : M.S0 = some Pz.coneDual)
    (hobj : M.obj = .roaffine s R) (h0 : 0 < R.nd)
    (hPwf : Pz.WF) (hones : ∀ j, Pz.lp.c j = 1) (hnz : R.nz ≤ Pz.lp.nc)
    (hq : ∀ q ∈ Pz.qmat, ∀ j ∈ q, R.nz ≤ j)
    (hxq : Pz.rowsRemoved = true → ∀ e ∈ Pz.xmat, ∀ j ∈ e, j ∉ Pz.eye)
    (n : ℕ) (hn : n < R.m) (ζ : ℕ → K) (hζ : Pz.Feas E ζ) :
    s * R.eval n (userPart M x) ζ ≤ x 0 := by
  have hm := obj_mem M s R _ hS0 hobj
  have h := (ro_model_sound M hwf E hE hmono x hx).1 (R.epi s) _ hm Pz rfl hPwf hones hnz hq hxq n hn ζ hζ
  have hnd : R.nd ≤ M.nd := hwf.rob (R.epi s) _ hm
  rw [eval_epi R s h0] at h
  have : userPart M x 0 = x 0 := by simp only [userPart]; rw [if_pos (by omega)]
  rw [this] at h
  linarith

/-- **Plain objective** (`min` / `max`, or a deterministic objective under `minmax`): the epigraph
row `sign*(c·x + c0) <= x_0` holds. -/
theorem ro_model_sound_obj_plain (M : RoSpec K) (E : K → K → K → Prop) (x : ℕ → K)
    (hx : (roModel M).Feas E x) (s : K) (c : ℕ → K) (c0 : K) (hobj : M.obj = .affine s c c0)
    (h0 : 0 < M.nd) :
    s * (∑ d ∈ range M.nd, c d * x d + c0) ≤ x 0 := by
  have hr : (⟨fun d => if d < M.nd then s * c d + (if d = 0 then -1 else 0) else 0, - (s * c0), false⟩ : PRow K)
      ∈ asmRows0 (endCol M.nd M.blocks) M.placed M.objRow := by
    unfold asmRows0
    apply List.mem_append_right
    simp only [RoSpec.objRow, hobj, RoObj.objRow, List.map_cons, List.map_nil, List.mem_cons,
      List.not_mem_nil, or_false]
  have h := assemble_rows _ _ _ E x hx _ hr
  simp only [PRow.ok, Bool.false_eq_true, if_false] at h
  have hs : ∑ j ∈ range (endCol M.nd M.blocks + 3 * (asmX M.placed).length),
      (if j < M.nd then s * c j + (if j = 0 then (-1 : K) else 0) else 0) * x j
      = ∑ d ∈ range M.nd, (s * c d + (if d = 0 then (-1 : K) else 0)) * x d :=
    sum_range_tail_zero M.nd _ (nd_le_nc M)
      (fun j => (if j < M.nd then s * c j + (if j = 0 then (-1 : K) else 0) else 0) * x j)
      (fun d => (s * c d + (if d = 0 then (-1 : K) else 0)) * x d) (fun d hd => by simp only [if_pos hd])
      (fun d hd _ => by simp only [if_neg (show ¬ d < M.nd by omega), zero_mul])
  rw [hs] at h
  have e : ∀ d, (s * c d + (if d = 0 then (-1 : K) else 0)) * x d
      = s * (c d * x d) + (if d = 0 then (-1 : K) else 0) * x d := fun d => by ring
  rw [Finset.sum_congr rfl (fun d _ => e d), Finset.sum_add_distrib, ← Finset.mul_sum,
    sum_unit_mul M.nd 0 h0 (-1) x] at h
  linarith

/-! #### The exponential cone of the reals has the two properties assumed of `E` -/

theorem realExpCone_mono : ExpMono realExpCone := by
  intro a0 a1 a1' a2 h hle
  rcases h with ⟨h2, h⟩ | ⟨h2, h0, h1⟩
  · exact Or.inl ⟨h2, le_trans h hle⟩
  · exact Or.inr ⟨h2, h0, le_trans h1 hle⟩

/-- `ro_model_sound` (robust rows) over the reals with the real exponential cone -/
example (M : RoSpec ℝ) (hwf : WF M) (x : ℕ → ℝ) (hx : (roModel M).Feas realExpCone x)
    (R : RoRows ℝ) (Pz : ConeProg ℝ) (hmem : CItem.rob R Pz.coneDual ∈ M.blocks)
    (hPwf : Pz.WF) (hones : ∀ j, Pz.lp.c j = 1) (hnz : R.nz ≤ Pz.lp.nc)
    (hq : ∀ q ∈ Pz.qmat, ∀ j ∈ q, R.nz ≤ j)
    (hxq : Pz.rowsRemoved = true → ∀ e ∈ Pz.xmat, ∀ j ∈ e, j ∉ Pz.eye)
    (n : ℕ) (hn : n < R.m) (ζ : ℕ → ℝ) (hζ : Pz.Feas realExpCone ζ) :
    R.eval n (userPart M x) ζ ≤ 0 :=
  (ro_model_sound M hwf realExpCone realExpCone_pair realExpCone_mono x hx).1 R _ hmem Pz rfl hPwf
    hones hnz hq hxq n hn ζ hζ

/-! #### A concrete model: two robust blocks (one with its own set, one with the default set), one
deterministic row, a plain objective

`min -x  s.t.  x·z - 4 ≤ 0 ∀ z ∈ [0,2] (own set),  x ≤ 3,  z - x - 1 ≤ 0 ∀ z ∈ [0,2] (default set)`.
Columns of `rc_model`: `0` the epigraph column `t`, `1` the decision `x`; the compiled program has
the multiplier columns `2` (first block) and `3` (second block) and six rows:
`-2·Y1 ≤ 4`, `x + Y1 ≤ 0`, `x ≤ 3`, `-x - 2·Y2 ≤ 1`, `Y2 ≤ -1`, `-x - t ≤ 0`, bounds `Y1, Y2 ≤ 0`.
It is feasible at `t = -2`, `x = 2`, `Y1 = -2`, `Y2 = -1`, and `ro_model_sound` yields
`2·ζ - 4 ≤ 0` and `ζ - 2 - 1 ≤ 0` on the whole interval, `x ≤ 3`, and `-x ≤ t`. -/

/-- `x·z - 4 ≤ 0` over the columns `(t, x)` -/
def exR1 : RoRows ℚ :=
  { nd := 2, m := 1, nz := 1, Rl := fun _ _ d => if d = 1 then 1 else 0, Rc := fun _ _ => 0,
    al := fun _ _ => 0, ac := fun _ => -4 }

/-- `z - x - 1 ≤ 0` over the columns `(t, x)` -/
def exR2 : RoRows ℚ :=
  { nd := 2, m := 1, nz := 1, Rl := fun _ _ _ => 0, Rc := fun _ _ => 1,
    al := fun _ d => if d = 1 then -1 else 0, ac := fun _ => -1 }

def exM : RoSpec ℚ :=
  { nd := 2, vars := [("C", 1), ("C", 1)]
    items := [.rob exR1 (some C01.exPz.coneDual),
              .det 1 (fun _ d => if d = 1 then 1 else 0) (fun _ => 3) (fun _ => false),
              .rob exR2 none]
    obj := .affine 1 (fun d => if d = 1 then -1 else 0) 0
    S0 := some C01.exPz.coneDual }

/-- `t = -2`, `x = 2`, `Y1 = -2`, `Y2 = -1` -/
def exX : ℕ → ℚ := fun c => if c = 0 then -2 else if c = 1 then 2 else if c = 2 then -2 else -1

lemma exM_blocks : exM.blocks =
    [.rob exR1 C01.exPz.coneDual,
     .det 1 (fun _ d => if d = 1 then 1 else 0) (fun _ => 3) (fun _ => false),
     .rob exR2 C01.exPz.coneDual] := rfl

lemma exM_wf : WF exM where
  rob := by
    intro R S h
    rw [exM_blocks] at h
    simp only [List.mem_cons, CItem.rob.injEq, reduceCtorEq, List.not_mem_nil, or_false, false_or] at h
    rcases h with ⟨rfl, _⟩ | ⟨rfl, _⟩ <;> exact le_refl _
  bnd := by
    intro b h
    rw [exM_blocks] at h
    simp at h

instance (v : ℚ) (o : Option ℚ) : Decidable (LinProg.leUb v o) := by
  cases o <;> unfold LinProg.leUb <;> infer_instance
instance (v : ℚ) (o : Option ℚ) : Decidable (LinProg.geLb v o) := by
  cases o <;> unfold LinProg.geLb <;> infer_instance

lemma exM_nr : (roModel exM).lp.nr = 6 := by decide
lemma exM_nc : (roModel exM).lp.nc = 4 := by decide

/-- the compiled program is feasible at `exX` -/
lemma exM_feas : (roModel exM).Feas (fun _ _ _ => False) exX := by
  refine ⟨⟨?_, ?_, ?_⟩, ?_, ?_⟩
  · decide +kernel
  · decide +kernel
  · decide +kernel
  · intro q hq
    have : (roModel exM).qmat = [] := by decide
    rw [this] at hq; simp at hq
  · intro e he
    have : (roModel exM).xmat = [] := by decide
    rw [this] at he; simp at he

/-- all hypotheses of `ro_model_sound` hold for the instance (non-vacuity) -/
example :
    WF exM ∧ ExpPair (fun _ _ _ : ℚ => False) ∧ ExpMono (fun _ _ _ : ℚ => False) ∧
    (roModel exM).Feas (fun _ _ _ => False) exX ∧
    CItem.rob exR1 C01.exPz.coneDual ∈ exM.blocks ∧ CItem.rob exR2 C01.exPz.coneDual ∈ exM.blocks ∧
    C01.exPz.WF ∧ (∀ j, C01.exPz.lp.c j = 1) ∧ exR1.nz ≤ C01.exPz.lp.nc ∧ exR2.nz ≤ C01.exPz.lp.nc :=
  ⟨exM_wf, fun _ _ _ _ _ _ h _ => h.elim, fun _ _ _ _ h _ => h.elim, exM_feas,
   by rw [exM_blocks]; simp, by rw [exM_blocks]; simp, C01.exPz_wf, fun _ => rfl, le_refl _, le_refl _⟩

/-- and `ro_model_sound` gives the semi-infinite model at the decision columns of `exX`:
both robust rows on the whole interval, the deterministic row, and (plain objective) the
epigraph row -/
example (ζ : ℕ → ℚ) (hζ : C01.exPz.Feas (fun _ _ _ => False) ζ) :
    exR1.eval 0 (userPart exM exX) ζ ≤ 0 ∧ exR2.eval 0 (userPart exM exX) ζ ≤ 0 ∧
    (∑ d ∈ range 2, (if d = 1 then (1 : ℚ) else 0) * exX d ≤ 3) ∧
    (1 : ℚ) * (∑ d ∈ range 2, (if d = 1 then (-1 : ℚ) else 0) * exX d + 0) ≤ exX 0 := by
  have hs := ro_model_sound exM exM_wf _ (fun _ _ _ _ _ _ h _ => h.elim) (fun _ _ _ _ h _ => h.elim)
    exX exM_feas
  have hq : ∀ q ∈ C01.exPz.qmat, ∀ j ∈ q, 1 ≤ j := by intro q hq; simp [C01.exPz] at hq
  have hxq : C01.exPz.rowsRemoved = true → ∀ e ∈ C01.exPz.xmat, ∀ j ∈ e, j ∉ C01.exPz.eye := by
    intro _ e he; simp [C01.exPz] at he
  refine ⟨?_, ?_, ?_, ?_⟩
  · exact hs.1 exR1 _ (by rw [exM_blocks]; simp) C01.exPz rfl C01.exPz_wf (fun _ => rfl) (le_refl _)
      hq hxq 0 (by decide) ζ hζ
  · exact hs.1 exR2 _ (by rw [exM_blocks]; simp) C01.exPz rfl C01.exPz_wf (fun _ => rfl) (le_refl _)
      hq hxq 0 (by decide) ζ hζ
  · have := hs.2.1 1 _ _ _ (by rw [exM_blocks]; simp :
      CItem.det 1 (fun _ d => if d = 1 then (1 : ℚ) else 0) (fun _ => 3) (fun _ => false) ∈ exM.blocks) 0 (by decide)
    simpa [exM] using this
  · exact ro_model_sound_obj_plain exM _ exX exM_feas 1 _ 0 rfl (by decide)

/-- the multiplier of the second block matters: with `Y2 = 0` (same `t`, `x`, `Y1`) the compiled
program is infeasible (its row `Y2 ≤ -1` fails) -/
example : ¬ (roModel exM).Feas (fun _ _ _ => False)
    (fun c => if c = 0 then -2 else if c = 1 then 2 else if c = 2 then -2 else 0) := by
  intro h
  have := h.lin.rows 4 (by decide)
  revert this
  decide +kernel

end RsomeV.C01Model
