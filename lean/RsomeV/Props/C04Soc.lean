import RsomeV.L.DroExactSoc
import RsomeV.Props.C04Compiled

/-! C04 (conic ambiguity sets) — exactness of the event-wise DRO reformulation *as compiled* for
ambiguity sets whose lifted support `Dro.mixSupport` contains second-order cones, and for scenario
supports with second-order cones, over `ℝ`, from conic strong duality
(`RsomeV/Props/C02Conic.lean`) and Hahn–Banach separation.

The norm / sum-of-squares pieces of the probability set and of the expectation sets enter the
lifted support `Ambiguity.mix_support` as second-order cones on lifting columns *inside* the block
of their program (`RsomeV/M/Dro.lean`); the supports of the scenarios do not enter the lifted
support, they are the supports of the scenario rows.

See the summary at the end of the file for what is proved and what remains open. -/

set_option linter.unusedSectionVars false
set_option linter.unusedSimpArgs false
set_option linter.unusedVariables false

namespace RsomeV.C04Soc
open Finset RsomeV ConeProg RoRows Dro RsomeV.C04 RsomeV.C04.Mix

/-! ### 0. The layout of the conic dual of a mixed support -/

section layout
variable {K : Type} [Field K] [LinearOrder K] [IsStrictOrderedRing K]

/-- a list with two distinct members is not a singleton -/
lemma length_ne_one_of_two {α : Type} (l : List α) (a b : α) (ha : a ∈ l) (hb : b ∈ l)
    (hab : a ≠ b) : l.length ≠ 1 := by
  intro h
  obtain ⟨c, rfl⟩ := List.length_eq_one_iff.mp h
  simp only [List.mem_singleton] at ha hb
  exact hab (ha.trans hb.symm)

/-- **The general layout is selected as soon as one cone column is stored in two rows.**
`socp.Model.do_math(primal=False)` takes the compact layout only if every cone column is stored in
exactly one row. -/
lemma rowsRemoved_false_of_two_rows (P : ConeProg K) (j : ℕ) (hj : j ∈ P.eye) (r1 r2 : ℕ)
    (h1 : r1 < P.lp.nr) (h2 : r2 < P.lp.nr) (hne : r1 ≠ r2)
    (hs1 : P.st r1 j = true) (hs2 : P.st r2 j = true) : P.rowsRemoved = false := by
  have hmem : ∀ r, r < P.lp.nr → P.st r j = true → r ∈ P.rowStored j := by
    intro r hr hs
    unfold rowStored
    rw [List.mem_filter]
    refine ⟨List.mem_range.mpr (by unfold LinProg.augNr; omega), ?_⟩
    unfold augSt
    rw [if_pos hr]; exact hs
  have hlen : (P.rowStored j).length ≠ 1 :=
    length_ne_one_of_two _ r1 r2 (hmem r1 h1 hs1) (hmem r2 h2 hs2) hne
  have hall : (P.eye.all fun j => (P.rowStored j).length == 1) = false := by
    rw [List.all_eq_false]
    exact ⟨j, hj, by simpa using hlen⟩
  unfold rowsRemoved compactOk
  simp only [hall, Bool.false_and, Bool.and_false]

/-- **The conic dual of a mixed support takes the general layout** as soon as some cone column of
some expectation program has two non-zeros in its program — true of the norm atoms as `rsome`
emits them: the head `t` of the cone of `norm(E(z)) <= c` appears in the rows `t <= c` and
`-t <= 0`. -/
theorem mix_rowsRemoved_false (pro : ConeProg K) (exps : List (ConeProg K × List ℕ))
    (k : ℕ) (hk : k < exps.length) (q : List ℕ) (hq : q ∈ (blk exps k).qmat) (j : ℕ) (hj : j ∈ q)
    (hjc : j < (blk exps k).lp.nc)
    (r1 r2 : ℕ) (h1 : r1 < (blk exps k).lp.nr) (h2 : r2 < (blk exps k).lp.nr) (hne : r1 ≠ r2)
    (ha1 : (blk exps k).lp.a r1 j ≠ 0) (ha2 : (blk exps k).lp.a r2 j ≠ 0) :
    (mixSupport pro exps).rowsRemoved = false := by
  have hcol : colOff pro exps k + j ∈ (mixSupport pro exps).eye := by
    unfold ConeProg.eye
    rw [List.mem_flatten]
    refine ⟨q.map fun j => j + colOff pro exps k,
      (mem_mix_qmat pro exps _).mpr (Or.inr ⟨k, hk, q, hq, rfl⟩), ?_⟩
    rw [List.mem_map]
    exact ⟨j, hj, by omega⟩
  have hst : ∀ r, r < (blk exps k).lp.nr → (blk exps k).lp.a r j ≠ 0 →
      (mixSupport pro exps).st (rowOff pro exps k + r) (colOff pro exps k + j) = true := by
    intro r hr ha
    have hnr : ¬ rowOff pro exps k + r < pro.lp.nr := by unfold rowOff; omega
    show (if rowOff pro exps k + r < pro.lp.nr then _ else
      decide (mixA pro exps (rowOff pro exps k + r) (colOff pro exps k + j) ≠ 0)) = true
    rw [if_neg hnr, mixA_blk pro exps k hk r hr,
      if_neg (by have := pro_nc_le_colOff pro exps k; omega), if_pos ⟨by omega, by omega⟩,
      Nat.add_sub_cancel_left]
    exact decide_eq_true ha
  have hlt : ∀ r, r < (blk exps k).lp.nr → rowOff pro exps k + r < (mixSupport pro exps).lp.nr := by
    intro r hr
    have := rowOff_add_le pro exps k hk
    rw [mix_nr]; omega
  exact rowsRemoved_false_of_two_rows _ _ hcol (rowOff pro exps k + r1) (rowOff pro exps k + r2)
    (hlt r1 h1) (hlt r2 h2) (by omega) (hst r1 h1 ha1) (hst r2 h2 ha2)

/-- the same for a cone of the probability program (e.g. `norm(p - p0) <= r`): one of its columns
is stored in two rows of `pro` -/
theorem mix_rowsRemoved_false_pro (pro : ConeProg K) (exps : List (ConeProg K × List ℕ))
    (q : List ℕ) (hq : q ∈ pro.qmat) (j : ℕ) (hj : j ∈ q) (hjc : j < pro.lp.nc)
    (r1 r2 : ℕ) (h1 : r1 < pro.lp.nr) (h2 : r2 < pro.lp.nr) (hne : r1 ≠ r2)
    (hs1 : pro.st r1 j = true) (hs2 : pro.st r2 j = true) :
    (mixSupport pro exps).rowsRemoved = false := by
  have hcol : j ∈ (mixSupport pro exps).eye := by
    unfold ConeProg.eye
    rw [List.mem_flatten]
    exact ⟨q, (mem_mix_qmat pro exps _).mpr (Or.inl hq), hj⟩
  have hst : ∀ r, r < pro.lp.nr → pro.st r j = true → (mixSupport pro exps).st r j = true := by
    intro r hr hs
    show (if r < pro.lp.nr then (decide (j < pro.lp.nc) && pro.st r j) else _) = true
    rw [if_pos hr, hs]
    simp [hjc]
  have hlt : ∀ r, r < pro.lp.nr → r < (mixSupport pro exps).lp.nr := by
    intro r hr
    have := pro_nr_le_rowEnd pro exps
    rw [mix_nr]; omega
  exact rowsRemoved_false_of_two_rows _ _ hcol r1 r2 (hlt r1 h1) (hlt r2 h2) hne
    (hst r1 h1 hs1) (hst r2 h2 hs2)

end layout

/-! ### 1. The compiled first-stage row over a lifted support with second-order cones -/

/-- **The compiled first-stage row is exactly (H1∀) for ambiguity sets with second-order cones,
under a Slater condition on the lifted support** (conic counterpart of `C04.dro_exact_compiled`,
`K = ℝ`).

`pro` = the probability program, `exps` = the expectation programs with their scenario lists (as in
`C03.mixSupport_lift`); they may contain second-order cones (norm / sum-of-squares pieces) but no
exponential cones (`hxp`, `hxe`).  `Pz = mixSupport pro exps` is the model of
`Ambiguity.mix_support`; its cones are those of `pro` and of the expectation programs, shifted to
their block.  `x` fixes the decision columns (`nd` of them; the multipliers `α_s = x (acol s)`,
`β_{k,j} = x (bcol k j)` are among them).  Then the `le_to_rc` fragment of the first-stage row over
the conic dual of the lifted support has a feasible completion of `x` **iff**
`Σ_s α_s·ζ_s + Σ_k Σ_j β_{k,j}·ζ_{colOff k + j} ≤ 0` at every point `ζ` of the lifted support.

Hypotheses, and where they come from:
* `hst`, `hqp`, `hqe` — well-formedness of the inputs (the stored pattern of `pro` covers its
  non-zeros, cone index lists in range); they give `Pz.WF` (`mix_wf`), proved from the definition of
  `mixSupport`;
* `hlay : Pz.rowsRemoved = false` — the conic dual of the lifted support takes the *general*
  layout.  A decidable property of the user's data; it is *proved* by `mix_rowsRemoved_false` as
  soon as one cone column has two non-zeros in its expectation program (norm atoms as `rsome` emits
  them).  It cannot be dropped: the cones of a lifted support sit inside the blocks, *before*
  coefficient-carrying columns of later blocks, and in the compact layout `le_to_rc` would pair the
  coefficients with the wrong dual rows (see `C03.dro_sound_compiled`).  In the general layout
  neither the position hypothesis `hq` nor the free-tail hypothesis `htail` of
  `C02Conic.rc_exact_soc_slater` is needed (`rc_exact_soc_slater_lay`);
* `hslater` — a point of the lifted support strictly inside every second-order cone (the
  polyhedral rows need not be strict; `nb_hslater` is an instance — `C03.mixSupport_lift` produces
  points of the lifted support from admissible probabilities / conditional means, strictness in the
  cones is then a matter of the data).  It replaces `hne` of `dro_exact_compiled`; it is what conic
  strong duality (`C02Conic.coneDual_strong`) needs;
* the shape of the row: `hS`, `hnz`, `hacol`, `hbcol`.

`→`: weak conic duality (`C01.rc_sound_late`); `←`: conic strong duality with dual attainment. -/
theorem dro_exact_compiled_soc (pro : ConeProg ℝ) (exps : List (ConeProg ℝ × List ℕ))
    (E : ℝ → ℝ → ℝ → Prop)
    (hst : ∀ i j, pro.lp.a i j ≠ 0 → pro.st i j = true)
    (hqp : ∀ q ∈ pro.qmat, ∀ j ∈ q, j < pro.lp.nc) (hxp : pro.xmat = [])
    (hqe : ∀ k < exps.length, ∀ q ∈ (blk exps k).qmat, ∀ j ∈ q, j < (blk exps k).lp.nc)
    (hxe : ∀ k < exps.length, (blk exps k).xmat = [])
    (hlay : (mixSupport pro exps).rowsRemoved = false)
    (S nz nd : ℕ) (acol : ℕ → ℕ) (bcol : ℕ → ℕ → ℕ)
    (hS : S ≤ pro.lp.nc) (hnz : ∀ k < exps.length, nz ≤ (blk exps k).lp.nc)
    (hacol : ∀ s < S, acol s < nd) (hbcol : ∀ k < exps.length, ∀ j < nz, bcol k j < nd)
    (hslater : ∃ ζ0, (mixSupport pro exps).Feas E ζ0 ∧
      ∀ q ∈ (mixSupport pro exps).qmat, socStrict ζ0 q)
    (x : ℕ → ℝ) :
    (∃ v' : ℕ → ℝ, (∀ d < nd, v' d = x d) ∧
      ((droRow pro exps S nz nd acol bcol).leToRc (mixSupport pro exps).coneDual).prog.Feas E v')
    ↔ (∀ ζ, (mixSupport pro exps).Feas E ζ →
        ∑ s ∈ range S, x (acol s) * ζ s
          + ∑ k ∈ range exps.length, ∑ j ∈ range nz,
              x (bcol k j) * ζ (colOff pro exps k + j) ≤ 0) := by
  have hwf := mix_wf pro exps hst hqp hqe
  have hex := rc_exact_soc_slater_lay (mixSupport pro exps) E hwf
    (mix_xmat_nil pro exps hxp hxe) (fun _ => rfl) (droRow pro exps S nz nd acol bcol)
    (by show colEnd pro exps ≤ colEnd pro exps + 3 * (xsrc pro exps).length; omega)
    (by intro h; rw [hlay] at h; cases h) (by intro h; rw [hlay] at h; cases h) hslater x
  have hm : (droRow pro exps S nz nd acol bcol).m = 1 := rfl
  have hd : (droRow pro exps S nz nd acol bcol).nd = nd := rfl
  rw [hm, hd] at hex
  rw [hex]
  constructor
  · intro hall ζ hζ
    have := hall 0 (by omega) ζ hζ
    rw [droRow_eval pro exps S nz nd acol bcol hS hnz hacol hbcol] at this
    exact this
  · intro hall n hn ζ hζ
    have hn0 : n = 0 := by omega
    subst hn0
    rw [droRow_eval pro exps S nz nd acol bcol hS hnz hacol hbcol]
    exact hall ζ hζ

/-! ### 2. Second stage, polytope supports: completeness on vertices for a conic lifted set -/

/-- **Completeness of the event-wise reformulation (vertex form) for a lifted set with second-order
cones.**  As `C04.dro_complete_vertex_lift`, the lifted ambiguity set being
`AdmL g h N ζ ∧ ∀ q ∈ qs, socMem ζ q` — finitely many rows over the `N` columns `ζ` (probabilities at
`pc s`, scaled means at `mc k j`, lifting columns) and second-order cones on index lists `qs` of
these columns.  Feasibility is strengthened to a *Slater condition*: some admissible vertex
distribution induces a lifted point strictly inside every cone (`hslater`; the rows need not be
strict).  If moreover every admissible vertex distribution has expected integrand `≤ 0`, there are
multipliers `α`, `β` with (H2v) at every vertex and (H1∀) at every point of the lifted set.

This generalises the Farkas / vertex argument of `C04.dro_complete_vertex` to conic ambiguity sets:
`farkas_eq_pairing_soc` (conic Lagrangian duality `ConicStrong.conic_lagrange` + self-duality of the
second-order cone + Farkas on the polyhedral part) replaces `farkas_eq_pairing`. -/
theorem dro_complete_vertex_lift_soc (S nE nz nV N : ℕ) (vtx : ℕ → ℕ → ℕ → ℝ)
    (Ev : ℕ → ℕ → Prop) [∀ k s, Decidable (Ev k s)] (pc : ℕ → ℕ) (mc : ℕ → ℕ → ℕ)
    {ι : Type} [Fintype ι] (g : ι → ℕ → ℝ) (h : ι → ℝ)
    (qs : List (List ℕ)) (hqs : ∀ q ∈ qs, ∀ j ∈ q, j < N)
    (hpc : ∀ s < S, pc s < N) (hmc : ∀ k < nE, ∀ j < nz, mc k j < N)
    (fv : ℕ → ℕ → ℝ)
    (hslater : ∃ (w : ℕ → ℕ → ℝ) (ζ : ℕ → ℝ), (∀ s < S, ∀ i < nV, 0 ≤ w s i) ∧ AdmL g h N ζ ∧
      (∀ q ∈ qs, socStrict ζ q) ∧ Induces S nE nz nV vtx Ev pc mc w ζ)
    (hworst : ∀ (w : ℕ → ℕ → ℝ) (ζ : ℕ → ℝ), (∀ s < S, ∀ i < nV, 0 ≤ w s i) → AdmL g h N ζ →
      (∀ q ∈ qs, socMem ζ q) → Induces S nE nz nV vtx Ev pc mc w ζ →
      ∑ s ∈ range S, ∑ i ∈ range nV, w s i * fv s i ≤ 0) :
    ∃ (α : ℕ → ℝ) (β : ℕ → ℕ → ℝ),
      (∀ s < S, ∀ i < nV, fv s i ≤ α s + ∑ k ∈ range nE,
        if Ev k s then ∑ j ∈ range nz, β k j * vtx s i j else 0) ∧
      (∀ ζ, AdmL g h N ζ → (∀ q ∈ qs, socMem ζ q) →
        ∑ s ∈ range S, α s * ζ (pc s)
          + ∑ k ∈ range nE, ∑ j ∈ range nz, β k j * ζ (mc k j) ≤ 0) :=
  dro_complete_vertex_lift_soc_core S nE nz nV N vtx Ev pc mc g h qs hqs hpc hmc fv hslater hworst

/-- for a program without exponential cones, feasibility is the finite row system
`LinProg.sysA / sysB` plus the second-order cones -/
theorem feas_iff_admL_soc {K : Type} [Field K] [LinearOrder K] [IsStrictOrderedRing K]
    (P : ConeProg K) (E : K → K → K → Prop) (hx : P.xmat = []) (ζ : ℕ → K) :
    P.Feas E ζ ↔ (AdmL P.lp.sysA P.lp.sysB P.lp.nc ζ ∧ ∀ q ∈ P.qmat, socMem ζ q) := by
  constructor
  · intro hζ
    exact ⟨(P.lp.sys_rows_iff ζ).mpr (P.lp.sys_of_feas ζ hζ.lin), hζ.soc⟩
  · rintro ⟨hA, hq⟩
    have hl := P.lp.feas_of_sys ζ ((P.lp.sys_rows_iff ζ).mp hA)
    exact ⟨hl, hq, by intro e he'; rw [hx] at he'; simp at he'⟩

/-- **Exactness of the compiled event-wise reformulation: ambiguity set with second-order cones,
polytope supports** (conic counterpart of `C04.dro_exact_end_to_end`, `K = ℝ`).

Ambiguity set: probability program `pro`, expectation programs `exps` with their scenario lists,
with second-order cones but no exponential cones; `Pz = mixSupport pro exps`; events are
`Ev k s := s ∈ idx exps k`.  Supports: the hulls of `nV` vertices `vtx s i` per scenario;
integrands `f s` vertex-convex.  Slater condition (`hslater`): some vertex distribution `w ≥ 0` is
admissible through a point `ζ` of `Pz` that is strictly inside every cone of `Pz` (it replaces both
`hfeas` of `dro_exact_end_to_end` and `hslater` of `dro_exact_compiled_soc`).

Then the following are equivalent:
* there is an assignment `v` such that the compiled first-stage row (`le_to_rc` of `droRow` over
  `Pz.coneDual`) is feasible at `v` and the scenario rows (H2) hold on every hull with
  `α_s = v (acol s)`, `β_{k,j} = v (bcol k j)`;
* every admissible vertex distribution has expected integrand `≤ 0` (by `C04.dro_sup_is_vertex_sup`
  this is `sup_{P ∈ F} E_P[f] ≤ 0` over all distributions carried by the hulls).

`→`: `dro_exact_compiled_soc` and `vertex_sound`; `←`: `dro_complete_vertex_lift_soc`, `hull_row`,
`dro_exact_compiled_soc`. -/
theorem dro_exact_end_to_end_soc (pro : ConeProg ℝ) (exps : List (ConeProg ℝ × List ℕ))
    (E : ℝ → ℝ → ℝ → Prop)
    (hst : ∀ i j, pro.lp.a i j ≠ 0 → pro.st i j = true)
    (hqp : ∀ q ∈ pro.qmat, ∀ j ∈ q, j < pro.lp.nc) (hxp : pro.xmat = [])
    (hqe : ∀ k < exps.length, ∀ q ∈ (blk exps k).qmat, ∀ j ∈ q, j < (blk exps k).lp.nc)
    (hxe : ∀ k < exps.length, (blk exps k).xmat = [])
    (hlay : (mixSupport pro exps).rowsRemoved = false)
    (S nz nd : ℕ) (acol : ℕ → ℕ) (bcol : ℕ → ℕ → ℕ)
    (hS : S ≤ pro.lp.nc) (hnz : ∀ k < exps.length, nz ≤ (blk exps k).lp.nc)
    (hacol : ∀ s < S, acol s < nd) (hbcol : ∀ k < exps.length, ∀ j < nz, bcol k j < nd)
    (hcols : ∀ (α : ℕ → ℝ) (β : ℕ → ℕ → ℝ), ∃ x : ℕ → ℝ, (∀ s < S, x (acol s) = α s) ∧
      (∀ k < exps.length, ∀ j < nz, x (bcol k j) = β k j))
    (nV : ℕ) (vtx : ℕ → ℕ → ℕ → ℝ) (f : ℕ → (ℕ → ℝ) → ℝ)
    (hconv : ∀ s < S, VtxConvex nz nV (vtx s) (f s))
    (hslater : ∃ (w : ℕ → ℕ → ℝ) (ζ : ℕ → ℝ), (∀ s < S, ∀ i < nV, 0 ≤ w s i) ∧
      (mixSupport pro exps).Feas E ζ ∧ (∀ q ∈ (mixSupport pro exps).qmat, socStrict ζ q) ∧
      Induces S exps.length nz nV vtx (fun k s => s ∈ idx exps k) (fun s => s)
        (fun k j => colOff pro exps k + j) w ζ) :
    (∃ v : ℕ → ℝ,
      ((droRow pro exps S nz nd acol bcol).leToRc (mixSupport pro exps).coneDual).prog.Feas E v ∧
      (∀ s < S, ∀ z, Hull nz nV (vtx s) z →
        f s z ≤ v (acol s) + ∑ k ∈ range exps.length,
          if s ∈ idx exps k then ∑ j ∈ range nz, v (bcol k j) * z j else 0))
    ↔ (∀ (w : ℕ → ℕ → ℝ) (ζ : ℕ → ℝ), (∀ s < S, ∀ i < nV, 0 ≤ w s i) →
        (mixSupport pro exps).Feas E ζ →
        Induces S exps.length nz nV vtx (fun k s => s ∈ idx exps k) (fun s => s)
          (fun k j => colOff pro exps k + j) w ζ →
        ∑ s ∈ range S, ∑ i ∈ range nV, w s i * f s (vtx s i) ≤ 0) := by
  have hsl : ∃ ζ0, (mixSupport pro exps).Feas E ζ0 ∧
      ∀ q ∈ (mixSupport pro exps).qmat, socStrict ζ0 q := by
    obtain ⟨w, ζ, _, hζ, hs, _⟩ := hslater; exact ⟨ζ, hζ, hs⟩
  have hx := mix_xmat_nil pro exps hxp hxe
  have hwf := mix_wf pro exps hst hqp hqe
  constructor
  · rintro ⟨v, hv, H2⟩ w ζ hw hζ hind
    have H1 := (dro_exact_compiled_soc pro exps E hst hqp hxp hqe hxe hlay S nz nd acol bcol hS hnz
      hacol hbcol hsl v).mp ⟨v, fun _ _ => rfl, hv⟩ ζ hζ
    apply vertex_sound S exps.length nz nV vtx (fun k s => s ∈ idx exps k)
      (fun s i => f s (vtx s i)) (fun s => v (acol s)) (fun k j => v (bcol k j)) w hw
      (fun s hs i hi => H2 s hs _ (vtx_mem_hull nz nV (vtx s) i hi))
    have e1 : ∑ s ∈ range S, v (acol s) * pOf nV w s = ∑ s ∈ range S, v (acol s) * ζ s := by
      apply Finset.sum_congr rfl; intro s hs
      rw [hind.1 s (Finset.mem_range.mp hs)]
    have e2 : ∑ k ∈ range exps.length, ∑ j ∈ range nz,
          v (bcol k j) * muOf S nV vtx (fun k s => s ∈ idx exps k) w k j
        = ∑ k ∈ range exps.length, ∑ j ∈ range nz, v (bcol k j) * ζ (colOff pro exps k + j) := by
      apply Finset.sum_congr rfl; intro k hk
      apply Finset.sum_congr rfl; intro j hj
      rw [hind.2 k (Finset.mem_range.mp hk) j (Finset.mem_range.mp hj)]
    rw [e1, e2]
    exact H1
  · intro hworst
    obtain ⟨α, β, H2v, H1⟩ := dro_complete_vertex_lift_soc S exps.length nz nV
      (mixSupport pro exps).lp.nc vtx (fun k s => s ∈ idx exps k) (fun s => s)
      (fun k j => colOff pro exps k + j) (mixSupport pro exps).lp.sysA (mixSupport pro exps).lp.sysB
      (mixSupport pro exps).qmat hwf.qlt
      (by
        intro s hs
        have := pro_nc_le_colEnd pro exps
        show s < colEnd pro exps + 3 * (xsrc pro exps).length
        omega)
      (by
        intro k hk j hj
        have := colOff_add_le pro exps k hk
        have := hnz k hk
        show colOff pro exps k + j < colEnd pro exps + 3 * (xsrc pro exps).length
        omega)
      (fun s i => f s (vtx s i))
      (by
        obtain ⟨w, ζ, hw, hζ, hs, hind⟩ := hslater
        exact ⟨w, ζ, hw, ((feas_iff_admL_soc _ E hx ζ).mp hζ).1, hs, hind⟩)
      (fun w ζ hw hζ hc hind => hworst w ζ hw ((feas_iff_admL_soc _ E hx ζ).mpr ⟨hζ, hc⟩) hind)
    obtain ⟨x, hxa, hxb⟩ := hcols α β
    obtain ⟨v, hvd, hv⟩ := (dro_exact_compiled_soc pro exps E hst hqp hxp hqe hxe hlay S nz nd acol
      bcol hS hnz hacol hbcol hsl x).mpr (by
        intro ζ hζ
        obtain ⟨hA, hc⟩ := (feas_iff_admL_soc _ E hx ζ).mp hζ
        have := H1 ζ hA hc
        have e1 : ∑ s ∈ range S, x (acol s) * ζ s = ∑ s ∈ range S, α s * ζ s := by
          apply Finset.sum_congr rfl; intro s hs
          rw [hxa s (Finset.mem_range.mp hs)]
        have e2 : ∑ k ∈ range exps.length, ∑ j ∈ range nz,
              x (bcol k j) * ζ (colOff pro exps k + j)
            = ∑ k ∈ range exps.length, ∑ j ∈ range nz, β k j * ζ (colOff pro exps k + j) := by
          apply Finset.sum_congr rfl; intro k hk
          apply Finset.sum_congr rfl; intro j hj
          rw [hxb k (Finset.mem_range.mp hk) j (Finset.mem_range.mp hj)]
        rw [e1, e2]
        exact this)
    refine ⟨v, hv, ?_⟩
    intro s hs z hz
    have h2 := hull_row exps.length nz nV (vtx s) (f s) (hconv s hs) (α s)
      (fun k => s ∈ idx exps k) β (H2v s hs) z hz
    have e1 : v (acol s) = α s := by rw [hvd _ (hacol s hs), hxa s hs]
    have e2 : ∑ k ∈ range exps.length,
          (if s ∈ idx exps k then ∑ j ∈ range nz, v (bcol k j) * z j else 0)
        = ∑ k ∈ range exps.length,
          (if s ∈ idx exps k then ∑ j ∈ range nz, β k j * z j else 0) := by
      apply Finset.sum_congr rfl; intro k hk
      have hk' := Finset.mem_range.mp hk
      by_cases hm : s ∈ idx exps k
      · rw [if_pos hm, if_pos hm]
        apply Finset.sum_congr rfl; intro j hj
        have hj' := Finset.mem_range.mp hj
        rw [hvd _ (hbcol k hk' j hj'), hxb k hk' j hj']
      · rw [if_neg hm, if_neg hm]
    rw [e1, e2]
    exact h2

/-! ### 3. Second stage, arbitrary supports: finitely supported distributions -/

/-- **Completeness of the event-wise reformulation for arbitrary supports and an arbitrary convex
lifted set.**  The passage from "worst case over all distributions `≤ 0`" to multipliers, without
polyhedrality: supports `Z s` are arbitrary sets (balls, conic sets, …), the lifted ambiguity set `A`
is an arbitrary *convex* set of lifted points `ζ` (e.g. `(mixSupport pro exps).Feas`, second-order
cones included), integrands `f s` are arbitrary functions.

Distributions are finitely supported: `nA` atoms `atoms s i` per scenario with weights `w s i ≥ 0`,
atoms of positive weight in `Z s` (`AtomsIn`); `ζ` carries their probabilities `pOf` at the columns
`pc s` and their scaled means `muOf` at the columns `mc k j` (`Induces`).

`hworst`: every admissible pair (distribution, lifted point) has expected integrand `≤ 0`.
`hslater` (*interior condition on the moments*, the Slater condition of the generalised moment
problem): for some `ε > 0`, every perturbation `u` of the `S + nE·nz` link rows with `|u_l| ≤ ε` is
still realised by some distribution and some point of `A` (`InducesOff`: `ζ(pc s) = pOf w s + u_s`,
`ζ(mc k j) = muOf w k j + u_{S + k·nz + j}`).  It cannot be dropped in general (for moments on the
boundary of the moment cone the dual need not be attained).

Then there are multipliers `α`, `β` with the scenario rows (H2) on every support and the
first-stage row (H1∀) on the whole lifted set.

Proof (`dro_complete_atoms_core`): the set of (offsets, values below the expected integrand) of
the admissible pairs is convex (mixtures of distributions), has non-empty interior by `hslater`
(the `ℓ¹`-ball spanned by the offsets `0, ±ε·e_l`, below the least of their values) and misses the
origin by `hworst`; geometric Hahn–Banach (`sep_normalised`) gives a supporting functional whose
value coefficient is positive; its coefficients on the link rows are `α`, `β`: the zero
distribution gives (H1∀), a large mass on one atom gives (H2). -/
theorem dro_complete_atoms (S nE nz : ℕ) (Ev : ℕ → ℕ → Prop) [∀ k s, Decidable (Ev k s)]
    (pc : ℕ → ℕ) (mc : ℕ → ℕ → ℕ)
    (Z : ℕ → (ℕ → ℝ) → Prop) (A : Set (ℕ → ℝ)) (hA : Convex ℝ A) (f : ℕ → (ℕ → ℝ) → ℝ)
    (hslater : ∃ ε : ℝ, 0 < ε ∧ ∀ u : ℕ → ℝ, (∀ l < S + nE * nz, |u l| ≤ ε) →
      ∃ (nA : ℕ) (atoms : ℕ → ℕ → ℕ → ℝ) (w : ℕ → ℕ → ℝ) (ζ : ℕ → ℝ),
        AtomsIn S nA Z atoms w ∧ ζ ∈ A ∧ InducesOff S nE nz Ev pc mc nA atoms w ζ u)
    (hworst : ∀ (nA : ℕ) (atoms : ℕ → ℕ → ℕ → ℝ) (w : ℕ → ℕ → ℝ) (ζ : ℕ → ℝ),
      AtomsIn S nA Z atoms w → ζ ∈ A → Induces S nE nz nA atoms Ev pc mc w ζ →
      valOf S nA atoms w f ≤ 0) :
    ∃ (α : ℕ → ℝ) (β : ℕ → ℕ → ℝ),
      (∀ s < S, ∀ z, Z s z → f s z ≤ α s + ∑ k ∈ range nE,
        if Ev k s then ∑ j ∈ range nz, β k j * z j else 0) ∧
      (∀ ζ ∈ A, ∑ s ∈ range S, α s * ζ (pc s)
          + ∑ k ∈ range nE, ∑ j ∈ range nz, β k j * ζ (mc k j) ≤ 0) :=
  dro_complete_atoms_core S nE nz Ev pc mc Z A hA f hslater
    (fun nA atoms w ζ hat hζ hind =>
      hworst nA atoms w ζ hat hζ ((inducesOff_zero_iff S nE nz Ev pc mc nA atoms w ζ).mp hind))

/-- **Exactness of the event-wise reformulation for arbitrary supports and a convex lifted set**:
under the interior condition on the moments, multipliers with (H2) on the supports and (H1∀) on the
lifted set exist **iff** every finitely supported distribution of the ambiguity set has expected
integrand `≤ 0`.  `→`: `atoms_sound`; `←`: `dro_complete_atoms`. -/
theorem dro_exact_atoms (S nE nz : ℕ) (Ev : ℕ → ℕ → Prop) [∀ k s, Decidable (Ev k s)]
    (pc : ℕ → ℕ) (mc : ℕ → ℕ → ℕ)
    (Z : ℕ → (ℕ → ℝ) → Prop) (A : Set (ℕ → ℝ)) (hA : Convex ℝ A) (f : ℕ → (ℕ → ℝ) → ℝ)
    (hslater : ∃ ε : ℝ, 0 < ε ∧ ∀ u : ℕ → ℝ, (∀ l < S + nE * nz, |u l| ≤ ε) →
      ∃ (nA : ℕ) (atoms : ℕ → ℕ → ℕ → ℝ) (w : ℕ → ℕ → ℝ) (ζ : ℕ → ℝ),
        AtomsIn S nA Z atoms w ∧ ζ ∈ A ∧ InducesOff S nE nz Ev pc mc nA atoms w ζ u) :
    (∃ (α : ℕ → ℝ) (β : ℕ → ℕ → ℝ),
      (∀ s < S, ∀ z, Z s z → f s z ≤ α s + ∑ k ∈ range nE,
        if Ev k s then ∑ j ∈ range nz, β k j * z j else 0) ∧
      (∀ ζ ∈ A, ∑ s ∈ range S, α s * ζ (pc s)
          + ∑ k ∈ range nE, ∑ j ∈ range nz, β k j * ζ (mc k j) ≤ 0))
    ↔ (∀ (nA : ℕ) (atoms : ℕ → ℕ → ℕ → ℝ) (w : ℕ → ℕ → ℝ) (ζ : ℕ → ℝ),
        AtomsIn S nA Z atoms w → ζ ∈ A → Induces S nE nz nA atoms Ev pc mc w ζ →
        valOf S nA atoms w f ≤ 0) := by
  constructor
  · rintro ⟨α, β, H2, H1⟩ nA atoms w ζ hat hζ hind
    exact atoms_sound S nE nz Ev pc mc Z f α β H2 nA atoms w ζ hat hind (H1 ζ hζ)
  · intro hworst
    exact dro_complete_atoms S nE nz Ev pc mc Z A hA f hslater hworst

/-! ### 4. End to end: conic ambiguity set, conic supports -/

/-- **Exactness of the compiled event-wise reformulation: ambiguity set with second-order cones,
scenario supports with second-order cones** (`K = ℝ`; no exponential cones).

* Ambiguity set: probability program `pro`, expectation programs `exps` with their scenario lists;
  `Pz = mixSupport pro exps` is the model of `Ambiguity.mix_support`; events
  `Ev k s := s ∈ idx exps k`; hypotheses as in `dro_exact_compiled_soc` (`hst hqp hxp hqe hxe hlay`,
  shape of the first-stage row, `hcols`: the multiplier columns can be assigned independently).
* Scenario `s` has the support program `sup s` (what `sup_model.do_math(primal=True, obj=False)`
  returns for `sup_constr[s]`: the `nz` random components first, then lifting columns; second-order
  cones allowed) and the block of uncertain rows `R2 s` that `dro_to_roc` compiles with
  `.forall(sup_constr[s])` (one row per piece of the integrand).  `hrow` says what the block
  expresses: at any assignment `v`, all rows hold at `ζ` iff
  `f s ζ ≤ v (acol s) + Σ_{k : s ∈ E_k} Σ_j v (bcol k j)·ζ_j` (for a maximum of affine pieces: one
  row `piece_l - α_s - Σ β·z ≤ 0` per piece).  `hwf2 hx2 hones2 hnz2 hq2 htail2 hsl2` are the
  hypotheses of `rc_exact_soc_slater_lay` for every scenario (well-formedness, no exponential
  cones, `obj=False`, the rows read columns of the support program, cones behind them and free
  tails *if* the compact layout is selected, a point strictly inside the cones of the support).
* Distributions: finitely supported, atoms of positive weight in the (lifted) support
  `(sup s).Feas E` (`AtomsIn`), integrands `f s` arbitrary functions of the lifted realisation.
* Slater conditions: `hslater` for the lifted support (a point strictly inside its cones — conic
  strong duality for the first-stage row) and `hmom`, the interior condition on the moments of
  `dro_complete_atoms` (dual attainment of the generalised moment problem).

Then the system `dro_to_roc` emits — the compiled first-stage row over `Pz.coneDual` and, for every
scenario, the compiled scenario rows over `(sup s).coneDual`, each fragment with its own multiplier
columns behind the decision columns — is feasible **iff** every finitely supported distribution of
the ambiguity set has expected integrand `≤ 0`, i.e. `sup_{P ∈ F} E_P[f] ≤ 0`.

`→`: `dro_exact_compiled_soc`, `rc_exact_soc_slater_lay` (weak duality) and `atoms_sound`;
`←`: `dro_complete_atoms` (Hahn–Banach), then `dro_exact_compiled_soc` and
`rc_exact_soc_slater_lay` (conic strong duality with attainment). -/
theorem dro_exact_end_to_end_conic (pro : ConeProg ℝ) (exps : List (ConeProg ℝ × List ℕ))
    (E : ℝ → ℝ → ℝ → Prop)
    (hst : ∀ i j, pro.lp.a i j ≠ 0 → pro.st i j = true)
    (hqp : ∀ q ∈ pro.qmat, ∀ j ∈ q, j < pro.lp.nc) (hxp : pro.xmat = [])
    (hqe : ∀ k < exps.length, ∀ q ∈ (blk exps k).qmat, ∀ j ∈ q, j < (blk exps k).lp.nc)
    (hxe : ∀ k < exps.length, (blk exps k).xmat = [])
    (hlay : (mixSupport pro exps).rowsRemoved = false)
    (S nz nd : ℕ) (acol : ℕ → ℕ) (bcol : ℕ → ℕ → ℕ)
    (hS : S ≤ pro.lp.nc) (hnz : ∀ k < exps.length, nz ≤ (blk exps k).lp.nc)
    (hacol : ∀ s < S, acol s < nd) (hbcol : ∀ k < exps.length, ∀ j < nz, bcol k j < nd)
    (hcols : ∀ (α : ℕ → ℝ) (β : ℕ → ℕ → ℝ), ∃ x : ℕ → ℝ, (∀ s < S, x (acol s) = α s) ∧
      (∀ k < exps.length, ∀ j < nz, x (bcol k j) = β k j))
    (hslater : ∃ ζ0, (mixSupport pro exps).Feas E ζ0 ∧
      ∀ q ∈ (mixSupport pro exps).qmat, socStrict ζ0 q)
    -- the scenarios
    (sup : ℕ → ConeProg ℝ) (R2 : ℕ → RoRows ℝ) (f : ℕ → (ℕ → ℝ) → ℝ)
    (hwf2 : ∀ s < S, (sup s).WF) (hx2 : ∀ s < S, (sup s).xmat = [])
    (hones2 : ∀ s < S, ∀ j, (sup s).lp.c j = 1)
    (hnz2 : ∀ s < S, (R2 s).nz ≤ (sup s).lp.nc)
    (hq2 : ∀ s < S, (sup s).rowsRemoved = true → ∀ q ∈ (sup s).qmat, ∀ j ∈ q, (R2 s).nz ≤ j)
    (htail2 : ∀ s < S, (sup s).rowsRemoved = true →
      ∀ q ∈ (sup s).qmat, ∀ j ∈ q.tail, (sup s).lp.isFree j = true)
    (hsl2 : ∀ s < S, ∃ ζ0, (sup s).Feas E ζ0 ∧ ∀ q ∈ (sup s).qmat, socStrict ζ0 q)
    (hrow : ∀ s < S, ∀ (v ζ : ℕ → ℝ), (∀ n < (R2 s).m, (R2 s).eval n v ζ ≤ 0) ↔
      f s ζ ≤ v (acol s) + ∑ k ∈ range exps.length,
        if s ∈ idx exps k then ∑ j ∈ range nz, v (bcol k j) * ζ j else 0)
    -- the interior condition on the moments
    (hmom : ∃ ε : ℝ, 0 < ε ∧ ∀ u : ℕ → ℝ, (∀ l < S + exps.length * nz, |u l| ≤ ε) →
      ∃ (nA : ℕ) (atoms : ℕ → ℕ → ℕ → ℝ) (w : ℕ → ℕ → ℝ) (ζ : ℕ → ℝ),
        AtomsIn S nA (fun s => (sup s).Feas E) atoms w ∧ (mixSupport pro exps).Feas E ζ ∧
        InducesOff S exps.length nz (fun k s => s ∈ idx exps k) (fun s => s)
          (fun k j => colOff pro exps k + j) nA atoms w ζ u) :
    (∃ v : ℕ → ℝ,
      (∃ v1 : ℕ → ℝ, (∀ d < nd, v1 d = v d) ∧
        ((droRow pro exps S nz nd acol bcol).leToRc (mixSupport pro exps).coneDual).prog.Feas E v1) ∧
      (∀ s < S, ∃ v2 : ℕ → ℝ, (∀ d < (R2 s).nd, v2 d = v d) ∧
        ((R2 s).leToRc (sup s).coneDual).prog.Feas E v2))
    ↔ (∀ (nA : ℕ) (atoms : ℕ → ℕ → ℕ → ℝ) (w : ℕ → ℕ → ℝ) (ζ : ℕ → ℝ),
        AtomsIn S nA (fun s => (sup s).Feas E) atoms w → (mixSupport pro exps).Feas E ζ →
        Induces S exps.length nz nA atoms (fun k s => s ∈ idx exps k) (fun s => s)
          (fun k j => colOff pro exps k + j) w ζ →
        valOf S nA atoms w f ≤ 0) := by
  have hfirst := fun x => dro_exact_compiled_soc pro exps E hst hqp hxp hqe hxe hlay S nz nd acol
    bcol hS hnz hacol hbcol hslater x
  have hsecond := fun s (hs : s < S) x => rc_exact_soc_slater_lay (sup s) E (hwf2 s hs) (hx2 s hs)
    (hones2 s hs) (R2 s) (hnz2 s hs) (hq2 s hs) (htail2 s hs) (hsl2 s hs) x
  constructor
  · rintro ⟨v, h1, h2⟩ nA atoms w ζ hat hζ hind
    have H1 := (hfirst v).mp h1 ζ hζ
    apply atoms_sound S exps.length nz (fun k s => s ∈ idx exps k) (fun s => s)
      (fun k j => colOff pro exps k + j) (fun s => (sup s).Feas E) f
      (fun s => v (acol s)) (fun k j => v (bcol k j)) _ nA atoms w ζ hat hind H1
    intro s hs z hz
    exact (hrow s hs v z).mp (fun n hn => (hsecond s hs v).mp (h2 s hs) n hn z hz)
  · intro hworst
    obtain ⟨α, β, H2, H1⟩ := dro_complete_atoms S exps.length nz (fun k s => s ∈ idx exps k)
      (fun s => s) (fun k j => colOff pro exps k + j) (fun s => (sup s).Feas E)
      {ζ | (mixSupport pro exps).Feas E ζ}
      (ConeProg.feas_convex _ E (mix_xmat_nil pro exps hxp hxe)) f hmom hworst
    obtain ⟨x, hxa, hxb⟩ := hcols α β
    have e1 : ∀ ζ : ℕ → ℝ, ∑ s ∈ range S, x (acol s) * ζ s = ∑ s ∈ range S, α s * ζ s := by
      intro ζ
      apply Finset.sum_congr rfl; intro s hs
      rw [hxa s (Finset.mem_range.mp hs)]
    have e2 : ∀ (k : ℕ) (z : ℕ → ℝ), k < exps.length →
        ∑ j ∈ range nz, x (bcol k j) * z j = ∑ j ∈ range nz, β k j * z j := by
      intro k z hk
      apply Finset.sum_congr rfl; intro j hj
      rw [hxb k hk j (Finset.mem_range.mp hj)]
    refine ⟨x, (hfirst x).mpr ?_, fun s hs => (hsecond s hs x).mpr ?_⟩
    · intro ζ hζ
      have := H1 ζ hζ
      rw [e1 ζ]
      have e3 : ∑ k ∈ range exps.length, ∑ j ∈ range nz, x (bcol k j) * ζ (colOff pro exps k + j)
          = ∑ k ∈ range exps.length, ∑ j ∈ range nz, β k j * ζ (colOff pro exps k + j) := by
        apply Finset.sum_congr rfl; intro k hk
        exact e2 k (fun j => ζ (colOff pro exps k + j)) (Finset.mem_range.mp hk)
      rw [e3]
      exact this
    · intro n hn ζ hζ
      have h := H2 s hs ζ hζ
      have e3 : ∑ k ∈ range exps.length,
            (if s ∈ idx exps k then ∑ j ∈ range nz, x (bcol k j) * ζ j else 0)
          = ∑ k ∈ range exps.length,
            (if s ∈ idx exps k then ∑ j ∈ range nz, β k j * ζ j else 0) := by
        apply Finset.sum_congr rfl; intro k hk
        by_cases hm : s ∈ idx exps k
        · rw [if_pos hm, if_pos hm]; exact e2 k ζ (Finset.mem_range.mp hk)
        · rw [if_neg hm, if_neg hm]
      exact (hrow s hs x ζ).mpr (by rw [hxa s hs, e3]; exact h) n hn

/-! ### 5. Example: one scenario, support = Euclidean unit ball in the plane, `E(z)` in a box

`rsome`: `m = dro.Model(1); z = m.rvar(2); fset = m.ambiguity();
fset.suppset(rso.norm(z) <= 1); fset.exptset(E(z) <= 0.5, E(z) >= -0.5)`.

* `pro_model.do_math(obj=False)`: one column `p`, rows `-p ≤ 0`, `p = 1` (`bxPro`);
* `exp_model.do_math(obj=False)`: columns `z₀ z₁`, rows `z₀ ≤ 1/2`, `z₁ ≤ 1/2`, `-z₀ ≤ 1/2`,
  `-z₁ ≤ 1/2` (`bxBox`), on the event `{0}`;
* `mix_support(primal=True)`: columns `[p | μ₀ μ₁]`, rows `-p ≤ 0`, `p = 1`, `μ₀ - p/2 ≤ 0`,
  `μ₁ - p/2 ≤ 0`, `-μ₀ - p/2 ≤ 0`, `-μ₁ - p/2 ≤ 0`, no cones (checked against the code);
* `sup_model.do_math(primal=True, obj=False)` for the scenario: `C02Conic.exBall` (columns
  `z₀ z₁ u₀ u₁ t`, rows `z₀ - u₀ = 0`, `z₁ - u₁ = 0`, `t ≤ 1`, bound `t ≥ 0`, cone `[t; u₀, u₁]`);
  `socp.Model.do_math(primal=False)` selects the compact layout for it;
* integrand `f(z) = z₀ + z₁ - c`; decision columns `α = v 0`, `β₀ = v 1`, `β₁ = v 2`; the scenario
  row is `z₀ + z₁ - c - α - β₀ z₀ - β₁ z₁ ≤ 0` (`bxRow c`). -/

/-- probability program of `p ≥ 0, p_0 = 1` -/
noncomputable def bxPro : ConeProg ℝ :=
  { lp := { nr := 2, nc := 1
            a := fun i _ => if i = 0 then -1 else 1
            b := fun i => if i = 0 then 0 else 1
            eq := fun i => decide (i = 1)
            ub := fun _ => none, lb := fun _ => none, c := fun _ => 1 }
    st := fun _ _ => true, qmat := [], xmat := [] }

/-- expectation program of `-1/2 ≤ E(z) ≤ 1/2` in two components -/
noncomputable def bxBox : ConeProg ℝ :=
  { lp := { nr := 4, nc := 2
            a := fun i j => if i = 0 ∧ j = 0 then 1 else if i = 1 ∧ j = 1 then 1
              else if i = 2 ∧ j = 0 then -1 else if i = 3 ∧ j = 1 then -1 else 0
            b := fun _ => 1 / 2
            eq := fun _ => false
            ub := fun _ => none, lb := fun _ => none, c := fun _ => 1 }
    st := fun _ _ => true, qmat := [], xmat := [] }

noncomputable def bxExps : List (ConeProg ℝ × List ℕ) := [(bxBox, [0])]

/-- the scenario row `z₀ + z₁ - c - α - β₀ z₀ - β₁ z₁ ≤ 0` over the decision columns `α β₀ β₁` -/
noncomputable def bxRow (c : ℝ) : RoRows ℝ :=
  { nd := 3, m := 1, nz := 2
    Rl := fun _ j d => if d = 1 + j then -1 else 0
    Rc := fun _ _ => 1
    al := fun _ d => if d = 0 then -1 else 0
    ac := fun _ => -c }

/-- the integrand -/
noncomputable def bxF (c : ℝ) : ℕ → (ℕ → ℝ) → ℝ := fun _ z => z 0 + z 1 - c

lemma bx_len : bxExps.length = 1 := rfl
lemma bx_blk : blk bxExps 0 = bxBox := rfl
lemma bx_idx : idx bxExps 0 = [0] := rfl
lemma bx_colOff : colOff bxPro bxExps 0 = 1 := rfl

lemma bx_hxe : ∀ k < bxExps.length, (blk bxExps k).xmat = [] := by
  intro k hk
  have : k = 0 := by rw [bx_len] at hk; omega
  subst this; rfl
lemma bx_hqe : ∀ k < bxExps.length, ∀ q ∈ (blk bxExps k).qmat, ∀ j ∈ q,
    j < (blk bxExps k).lp.nc := by
  intro k hk q hq
  have : k = 0 := by rw [bx_len] at hk; omega
  subst this
  simp [bx_blk, bxBox] at hq
lemma bx_hnz : ∀ k < bxExps.length, 2 ≤ (blk bxExps k).lp.nc := by
  intro k hk
  have : k = 0 := by rw [bx_len] at hk; omega
  subst this; exact le_refl _

lemma bx_qmat : (mixSupport bxPro bxExps).qmat = [] :=
  mix_qmat_nil bxPro bxExps rfl (by
    intro k hk
    have : k = 0 := by rw [bx_len] at hk; omega
    subst this; rfl)

lemma bx_hlay : (mixSupport bxPro bxExps).rowsRemoved = false := by
  unfold rowsRemoved; rw [bx_qmat]; rfl

/-- the points of the lifted support: `p = 1`, `|μ_j| ≤ p/2` -/
lemma bx_mix_feas_iff (E : ℝ → ℝ → ℝ → Prop) (ζ : ℕ → ℝ) :
    (mixSupport bxPro bxExps).Feas E ζ ↔
      (ζ 0 = 1 ∧ ζ 1 ≤ 1 / 2 ∧ ζ 2 ≤ 1 / 2 ∧ -(1 / 2) ≤ ζ 1 ∧ -(1 / 2) ≤ ζ 2) := by
  rw [mix_feas_iff bxPro bxExps rfl bx_hxe E ζ, bx_qmat]
  constructor
  · rintro ⟨h1, h2, _⟩
    have a1 := h1 1 (by show 1 < 2; omega)
    have b0 := h2 0 (by rw [bx_len]; omega) 0 (by show 0 < 4; omega)
    have b1 := h2 0 (by rw [bx_len]; omega) 1 (by show 1 < 4; omega)
    have b2 := h2 0 (by rw [bx_len]; omega) 2 (by show 2 < 4; omega)
    have b3 := h2 0 (by rw [bx_len]; omega) 3 (by show 3 < 4; omega)
    simp [bxPro, Finset.sum_range_succ] at a1
    simp only [bx_blk, bx_idx, bx_colOff] at b0 b1 b2 b3
    simp [bxPro, bxBox, Finset.sum_range_succ] at b0 b1 b2 b3
    refine ⟨a1, by linarith, by linarith, by linarith, by linarith⟩
  · rintro ⟨h0, h1, h2, h3, h4⟩
    refine ⟨?_, ?_, by intro q hq; simp at hq⟩
    · intro i hi
      have hi' : i < 2 := hi
      obtain rfl | rfl : i = 0 ∨ i = 1 := by omega
      · simp [bxPro, Finset.sum_range_succ]; linarith
      · simp [bxPro, Finset.sum_range_succ]; exact h0
    · intro k hk r hr
      have : k = 0 := by rw [bx_len] at hk; omega
      subst this
      have hr' : r < 4 := hr
      obtain rfl | rfl | rfl | rfl : r = 0 ∨ r = 1 ∨ r = 2 ∨ r = 3 := by omega
      all_goals
        simp only [bx_blk, bx_idx, bx_colOff]
        simp [bxPro, bxBox, Finset.sum_range_succ]
        linarith

lemma bx_hslater (E : ℝ → ℝ → ℝ → Prop) : ∃ ζ0, (mixSupport bxPro bxExps).Feas E ζ0 ∧
    ∀ q ∈ (mixSupport bxPro bxExps).qmat, socStrict ζ0 q := by
  refine ⟨fun j => if j = 0 then 1 else 0, (bx_mix_feas_iff E _).mpr (by norm_num), ?_⟩
  intro q hq; rw [bx_qmat] at hq; simp at hq

lemma bx_hcols : ∀ (α : ℕ → ℝ) (β : ℕ → ℕ → ℝ), ∃ x : ℕ → ℝ,
    (∀ s < 1, x ((fun _ => 0) s) = α s) ∧
    (∀ k < bxExps.length, ∀ j < 2, x ((fun _ j => 1 + j) k j) = β k j) := by
  intro α β
  refine ⟨fun d => if d = 0 then α 0 else β 0 (d - 1), ?_, ?_⟩
  · intro s hs
    have : s = 0 := by omega
    subst this; simp
  · intro k hk j hj
    have : k = 0 := by rw [bx_len] at hk; omega
    subst this
    show (if 1 + j = 0 then α 0 else β 0 (1 + j - 1)) = β 0 j
    rw [if_neg (by omega), Nat.add_sub_cancel_left]

/-- the scenario row block expresses (H2) for the integrand `z₀ + z₁ - c` -/
lemma bx_hrow (c : ℝ) : ∀ s < 1, ∀ (v ζ : ℕ → ℝ),
    (∀ n < (bxRow c).m, (bxRow c).eval n v ζ ≤ 0) ↔
      bxF c s ζ ≤ v ((fun _ => 0) s) + ∑ k ∈ range bxExps.length,
        if s ∈ idx bxExps k then ∑ j ∈ range 2, v ((fun _ j => 1 + j) k j) * ζ j else 0 := by
  intro s hs v ζ
  have hs0 : s = 0 := by omega
  subst hs0
  have hev : (bxRow c).eval 0 v ζ = (1 - v 1) * ζ 0 + (1 - v 2) * ζ 1 - v 0 - c := by
    simp [RoRows.eval, bxRow, Finset.sum_range_succ]
    ring
  have hrhs : v 0 + ∑ k ∈ range bxExps.length,
      (if 0 ∈ idx bxExps k then ∑ j ∈ range 2, v (1 + j) * ζ j else 0)
      = v 0 + (v 1 * ζ 0 + v 2 * ζ 1) := by
    rw [bx_len]
    simp [bx_idx, Finset.sum_range_succ]
  show _ ↔ ζ 0 + ζ 1 - c ≤ v 0 + ∑ k ∈ range bxExps.length,
      (if 0 ∈ idx bxExps k then ∑ j ∈ range 2, v (1 + j) * ζ j else 0)
  rw [hrhs]
  constructor
  · intro h
    have := h 0 (by show 0 < 1; omega)
    rw [hev] at this
    linarith
  · intro h n hn
    have hn0 : n = 0 := by change n < 1 at hn; omega
    subst hn0
    rw [hev]; linarith

/-- the interior condition on the moments: every small perturbation `u` of the three link rows
(`p`, `μ₀`, `μ₁`) is realised by the mass `1 - u₀` on the centre of the ball and the lifted point
`(1, u₁, u₂)` -/
lemma bx_hmom (E : ℝ → ℝ → ℝ → Prop) :
    ∃ ε : ℝ, 0 < ε ∧ ∀ u : ℕ → ℝ, (∀ l < 1 + bxExps.length * 2, |u l| ≤ ε) →
      ∃ (nA : ℕ) (atoms : ℕ → ℕ → ℕ → ℝ) (w : ℕ → ℕ → ℝ) (ζ : ℕ → ℝ),
        AtomsIn 1 nA (fun _ => C02Conic.exBall.Feas E) atoms w ∧
        (mixSupport bxPro bxExps).Feas E ζ ∧
        InducesOff 1 bxExps.length 2 (fun k s => s ∈ idx bxExps k) (fun s => s)
          (fun k j => colOff bxPro bxExps k + j) nA atoms w ζ u := by
  refine ⟨1 / 4, by norm_num, ?_⟩
  intro u hu
  rw [bx_len] at hu
  have h0 := abs_le.mp (hu 0 (by omega))
  have h1 := abs_le.mp (hu 1 (by omega))
  have h2 := abs_le.mp (hu 2 (by omega))
  refine ⟨1, fun _ _ => C02Conic.exCentre, fun _ _ => 1 - u 0,
    fun j => if j = 0 then 1 else if j = 1 then u 1 else u 2, ?_, ?_, ?_, ?_⟩
  · intro s _ i _
    refine ⟨by linarith, fun _ => ?_⟩
    apply (C02Conic.exBall_feas_iff E C02Conic.exCentre).mpr
    simp [C02Conic.exCentre]; norm_num
  · apply (bx_mix_feas_iff E _).mpr
    simp
    refine ⟨by linarith, by linarith, by linarith, by linarith⟩
  · intro s hs
    have : s = 0 := by omega
    subst this
    simp [pOf]
  · intro k hk j hj
    have hk0 : k = 0 := by rw [bx_len] at hk; omega
    subst hk0
    have hj' : j = 0 ∨ j = 1 := by omega
    rcases hj' with rfl | rfl <;>
      · simp only [bx_idx, bx_colOff]
        simp [muOf, C02Conic.exCentre]

/-- **`dro_exact_end_to_end_conic` on the instance: all hypotheses are discharged.**  For every `c`:
the system emitted by `dro_to_roc` (compiled first-stage row over the conic dual of the lifted
support, compiled scenario row over the conic dual — compact layout — of the ball) is feasible iff
every finitely supported distribution on the ball with mean in the box has `E[z₀ + z₁ - c] ≤ 0`. -/
theorem bx_exact (E : ℝ → ℝ → ℝ → Prop) (c : ℝ) :
    (∃ v : ℕ → ℝ,
      (∃ v1 : ℕ → ℝ, (∀ d < 3, v1 d = v d) ∧
        ((droRow bxPro bxExps 1 2 3 (fun _ => 0) (fun _ j => 1 + j)).leToRc
          (mixSupport bxPro bxExps).coneDual).prog.Feas E v1) ∧
      (∀ s < 1, ∃ v2 : ℕ → ℝ, (∀ d < (bxRow c).nd, v2 d = v d) ∧
        ((bxRow c).leToRc C02Conic.exBall.coneDual).prog.Feas E v2))
    ↔ (∀ (nA : ℕ) (atoms : ℕ → ℕ → ℕ → ℝ) (w : ℕ → ℕ → ℝ) (ζ : ℕ → ℝ),
        AtomsIn 1 nA (fun _ => C02Conic.exBall.Feas E) atoms w →
        (mixSupport bxPro bxExps).Feas E ζ →
        Induces 1 bxExps.length 2 nA atoms (fun k s => s ∈ idx bxExps k) (fun s => s)
          (fun k j => colOff bxPro bxExps k + j) w ζ →
        valOf 1 nA atoms w (bxF c) ≤ 0) :=
  dro_exact_end_to_end_conic bxPro bxExps E (fun _ _ _ => rfl)
    (by intro q hq; simp [bxPro] at hq) rfl bx_hqe bx_hxe bx_hlay
    1 2 3 (fun _ => 0) (fun _ j => 1 + j) (le_refl _) bx_hnz
    (by intro s _; show 0 < 3; omega) (by intro k _ j hj; show 1 + j < 3; omega) bx_hcols
    (bx_hslater E)
    (fun _ => C02Conic.exBall) (fun _ => bxRow c) (bxF c)
    (fun _ _ => C02Conic.exBall_wf) (fun _ _ => rfl) (fun _ _ _ => rfl)
    (fun _ _ => by show 2 ≤ 5; omega)
    (by
      intro s _ _ q hq j hj
      simp only [C02Conic.exBall, List.mem_singleton] at hq
      subst hq
      simp only [List.mem_cons, List.not_mem_nil, or_false] at hj
      show 2 ≤ j
      omega)
    (fun _ _ _ => C02Conic.exBall_tail) (fun _ _ => C02Conic.exBall_slater E)
    (bx_hrow c) (bx_hmom E)

/-- the expected integrand in terms of the induced probability and scaled means -/
lemma bx_val (c : ℝ) (nA : ℕ) (atoms : ℕ → ℕ → ℕ → ℝ) (w : ℕ → ℕ → ℝ) (ζ : ℕ → ℝ)
    (hind : Induces 1 bxExps.length 2 nA atoms (fun k s => s ∈ idx bxExps k) (fun s => s)
      (fun k j => colOff bxPro bxExps k + j) w ζ) :
    valOf 1 nA atoms w (bxF c) = ζ 1 + ζ 2 - c * ζ 0 := by
  have h0 := hind.1 0 (by omega)
  have h1 := hind.2 0 (by rw [bx_len]; omega) 0 (by omega)
  have h2 := hind.2 0 (by rw [bx_len]; omega) 1 (by omega)
  simp only [bx_colOff] at h0 h1 h2
  have e1 : muOf 1 nA atoms (fun k s => s ∈ idx bxExps k) w 0 0
      = ∑ i ∈ range nA, w 0 i * atoms 0 i 0 := by
    simp [muOf, bx_idx]
  have e2 : muOf 1 nA atoms (fun k s => s ∈ idx bxExps k) w 0 1
      = ∑ i ∈ range nA, w 0 i * atoms 0 i 1 := by
    simp [muOf, bx_idx]
  rw [h0, h1, h2, e1, e2]
  unfold valOf pOf bxF
  simp only [Finset.sum_range_one]
  rw [Finset.mul_sum, ← Finset.sum_add_distrib, ← Finset.sum_sub_distrib]
  apply Finset.sum_congr rfl; intro i _; ring

/-- `c = 1` (worst case `E[z₀ + z₁] = 1/2 + 1/2`): the worst-case expectation is `≤ 0`, hence
multipliers exist that make the whole compiled system feasible — conic strong duality is attained
for the inner maximisation over the ball -/
example (E : ℝ → ℝ → ℝ → Prop) : ∃ v : ℕ → ℝ,
    (∃ v1 : ℕ → ℝ, (∀ d < 3, v1 d = v d) ∧
      ((droRow bxPro bxExps 1 2 3 (fun _ => 0) (fun _ j => 1 + j)).leToRc
        (mixSupport bxPro bxExps).coneDual).prog.Feas E v1) ∧
    (∀ s < 1, ∃ v2 : ℕ → ℝ, (∀ d < (bxRow 1).nd, v2 d = v d) ∧
      ((bxRow 1).leToRc C02Conic.exBall.coneDual).prog.Feas E v2) := by
  apply (bx_exact E 1).mpr
  intro nA atoms w ζ _ hζ hind
  rw [bx_val 1 nA atoms w ζ hind]
  obtain ⟨h0, h1, h2, _, _⟩ := (bx_mix_feas_iff E ζ).mp hζ
  linarith

/-- the unit mass at `z = (1/2, 1/2)` (lifted: `u = z`, `t = 1`) and the lifted point it induces -/
noncomputable def bxAt : ℕ → ℕ → ℕ → ℝ := fun _ _ j => if j = 4 then 1 else 1 / 2
noncomputable def bxW1 : ℕ → ℕ → ℝ := fun _ _ => 1
noncomputable def bxZ : ℕ → ℝ := fun j => if j = 0 then 1 else 1 / 2

lemma bx_ind1 : Induces 1 bxExps.length 2 1 bxAt (fun k s => s ∈ idx bxExps k) (fun s => s)
    (fun k j => colOff bxPro bxExps k + j) bxW1 bxZ := by
  refine ⟨fun s hs => ?_, fun k hk j hj => ?_⟩
  · have : s = 0 := by omega
    subst this
    simp [pOf, bxW1, bxZ]
  · have hk0 : k = 0 := by rw [bx_len] at hk; omega
    subst hk0
    have hj' : j = 0 ∨ j = 1 := by omega
    rcases hj' with rfl | rfl <;>
      · simp only [bx_idx, bx_colOff]
        simp [muOf, bxW1, bxZ, bxAt, bx_idx]

/-- `c = 1/2`: the unit mass at `z = (1/2, 1/2)` (a point of the ball, mean in the box) has
expected integrand `1/2 > 0`, hence the compiled system is infeasible -/
example (E : ℝ → ℝ → ℝ → Prop) : ¬ ∃ v : ℕ → ℝ,
    (∃ v1 : ℕ → ℝ, (∀ d < 3, v1 d = v d) ∧
      ((droRow bxPro bxExps 1 2 3 (fun _ => 0) (fun _ j => 1 + j)).leToRc
        (mixSupport bxPro bxExps).coneDual).prog.Feas E v1) ∧
    (∀ s < 1, ∃ v2 : ℕ → ℝ, (∀ d < (bxRow (1 / 2)).nd, v2 d = v d) ∧
      ((bxRow (1 / 2)).leToRc C02Conic.exBall.coneDual).prog.Feas E v2) := by
  intro hex
  have h := (bx_exact E (1 / 2)).mp hex 1 bxAt bxW1 bxZ
    (by
      intro s _ i _
      refine ⟨by norm_num [bxW1], fun _ => ?_⟩
      apply (C02Conic.exBall_feas_iff E _).mpr
      norm_num [bxAt])
    ((bx_mix_feas_iff E _).mpr (by norm_num [bxZ])) bx_ind1
  rw [bx_val (1 / 2) 1 _ _ _ bx_ind1] at h
  norm_num [bxZ] at h

/-! ### 6. Example: a second-order cone inside the lifted support (`norm(E(z)) <= 1/2`)

`rsome`: `fset.exptset(rso.norm(E(z)) <= 0.5)` with `z = m.rvar(2)`, one scenario.
`exp_model.do_math(obj=False)`: columns `z₀ z₁ u₀ u₁ t`, rows `z₀ - u₀ = 0`, `z₁ - u₁ = 0`,
`t ≤ 1/2`, `-t ≤ 0`, cone `[t; u₀, u₁]` (`nbBall`); `mix_support(primal=True)`: columns
`[p | μ₀ μ₁ u₀ u₁ t]`, rows `-p ≤ 0`, `p = 1`, `μ₀ - u₀ = 0`, `μ₁ - u₁ = 0`, `t - p/2 ≤ 0`, `-t ≤ 0`,
cone `[5, 3, 4]` (checked against the code; `mix_support(primal=False)` has 6 rows: the general
layout, because the head `t` is stored in two rows).  Supports (for the end-to-end statement): the
square `[-1, 1]²` by its four vertices; integrand `z₀ + z₁ - c`. -/

/-- expectation program of `norm(E(z), 2) <= 1/2` in two components, as `rsome` emits it -/
noncomputable def nbBall : ConeProg ℝ :=
  { lp := { nr := 4, nc := 5
            a := fun i j => if i = 0 ∧ j = 0 then 1 else if i = 0 ∧ j = 2 then -1
              else if i = 1 ∧ j = 1 then 1 else if i = 1 ∧ j = 3 then -1
              else if i = 2 ∧ j = 4 then 1 else if i = 3 ∧ j = 4 then -1 else 0
            b := fun i => if i = 2 then 1 / 2 else 0
            eq := fun i => decide (i < 2)
            ub := fun _ => none, lb := fun _ => none, c := fun _ => 1 }
    st := fun _ _ => true, qmat := [[4, 2, 3]], xmat := [] }

noncomputable def nbExps : List (ConeProg ℝ × List ℕ) := [(nbBall, [0])]

lemma nb_len : nbExps.length = 1 := rfl
lemma nb_blk : blk nbExps 0 = nbBall := rfl
lemma nb_idx : idx nbExps 0 = [0] := rfl
lemma nb_colOff : colOff bxPro nbExps 0 = 1 := rfl
lemma nb_qmat : (mixSupport bxPro nbExps).qmat = [[5, 3, 4]] := rfl

lemma nb_hxe : ∀ k < nbExps.length, (blk nbExps k).xmat = [] := by
  intro k hk
  have : k = 0 := by rw [nb_len] at hk; omega
  subst this; rfl
lemma nb_hqe : ∀ k < nbExps.length, ∀ q ∈ (blk nbExps k).qmat, ∀ j ∈ q,
    j < (blk nbExps k).lp.nc := by
  intro k hk q hq j hj
  have : k = 0 := by rw [nb_len] at hk; omega
  subst this
  have hq' : q = [4, 2, 3] := by simpa [nb_blk, nbBall] using hq
  subst hq'
  simp only [List.mem_cons, List.not_mem_nil, or_false] at hj
  show j < 5
  omega
lemma nb_hnz : ∀ k < nbExps.length, 2 ≤ (blk nbExps k).lp.nc := by
  intro k hk
  have : k = 0 := by rw [nb_len] at hk; omega
  subst this; show 2 ≤ 5; omega

/-- the conic dual of the lifted support takes the general layout: the head column `t` of the cone
has two non-zeros (rows `t ≤ 1/2` and `-t ≤ 0`) -/
lemma nb_hlay : (mixSupport bxPro nbExps).rowsRemoved = false :=
  mix_rowsRemoved_false bxPro nbExps 0 (by rw [nb_len]; omega) [4, 2, 3]
    (by simp [nb_blk, nbBall]) 4 (by simp) (by show 4 < 5; omega) 2 3
    (by show 2 < 4; omega) (by show 3 < 4; omega) (by omega)
    (by simp [nb_blk, nbBall]) (by simp [nb_blk, nbBall])

/-- the points of the lifted support: `p = 1`, `u = μ`, `‖u‖₂ ≤ t ≤ p/2` -/
lemma nb_mix_feas_iff (E : ℝ → ℝ → ℝ → Prop) (ζ : ℕ → ℝ) :
    (mixSupport bxPro nbExps).Feas E ζ ↔
      (ζ 0 = 1 ∧ ζ 1 = ζ 3 ∧ ζ 2 = ζ 4 ∧ ζ 5 ≤ 1 / 2 ∧ 0 ≤ ζ 5 ∧ ζ 3 ^ 2 + ζ 4 ^ 2 ≤ ζ 5 ^ 2) := by
  rw [mix_feas_iff bxPro nbExps rfl nb_hxe E ζ, nb_qmat]
  constructor
  · rintro ⟨h1, h2, h3⟩
    have a1 := h1 1 (by show 1 < 2; omega)
    have b0 := h2 0 (by rw [nb_len]; omega) 0 (by show 0 < 4; omega)
    have b1 := h2 0 (by rw [nb_len]; omega) 1 (by show 1 < 4; omega)
    have b2 := h2 0 (by rw [nb_len]; omega) 2 (by show 2 < 4; omega)
    have hs := h3 [5, 3, 4] (by simp)
    simp [bxPro, Finset.sum_range_succ] at a1
    simp only [nb_blk, nb_idx, nb_colOff] at b0 b1 b2
    simp [bxPro, nbBall, Finset.sum_range_succ] at b0 b1 b2
    simp [socMem] at hs
    refine ⟨a1, by linarith, by linarith, by linarith, hs.1, by linarith [hs.2]⟩
  · rintro ⟨h0, h1, h2, h3, h4, h5⟩
    refine ⟨?_, ?_, ?_⟩
    · intro i hi
      have hi' : i < 2 := hi
      obtain rfl | rfl : i = 0 ∨ i = 1 := by omega
      · simp [bxPro, Finset.sum_range_succ]; linarith
      · simp [bxPro, Finset.sum_range_succ]; exact h0
    · intro k hk r hr
      have : k = 0 := by rw [nb_len] at hk; omega
      subst this
      have hr' : r < 4 := hr
      obtain rfl | rfl | rfl | rfl : r = 0 ∨ r = 1 ∨ r = 2 ∨ r = 3 := by omega
      all_goals
        simp only [nb_blk, nb_idx, nb_colOff]
        simp [bxPro, nbBall, Finset.sum_range_succ]
        linarith
    · intro q hq
      simp only [List.mem_singleton] at hq
      subst hq
      simp [socMem]
      exact ⟨h4, by linarith⟩

/-- the Slater point of the lifted support: `p = 1`, `μ = u = 0`, `t = 1/4` -/
noncomputable def nbZ0 : ℕ → ℝ := fun j => if j = 0 then 1 else if j = 5 then 1 / 4 else 0

lemma nb_hslater (E : ℝ → ℝ → ℝ → Prop) : ∃ ζ0, (mixSupport bxPro nbExps).Feas E ζ0 ∧
    ∀ q ∈ (mixSupport bxPro nbExps).qmat, socStrict ζ0 q := by
  refine ⟨nbZ0, (nb_mix_feas_iff E _).mpr (by norm_num [nbZ0]), ?_⟩
  intro q hq
  rw [nb_qmat] at hq
  simp only [List.mem_singleton] at hq
  subst hq
  simp [socStrict, nbZ0]

/-- **`dro_exact_compiled_soc` on the instance: all hypotheses are discharged.**  At every decision
`x` (`α = x 0`, `β₀ = x 1`, `β₁ = x 2`) the compiled first-stage row over the conic dual of the lifted
support (general layout, one second-order cone) has a feasible completion iff
`α·p + β₀·μ₀ + β₁·μ₁ ≤ 0` at every point of the lifted support. -/
theorem nb_compiled_exact (E : ℝ → ℝ → ℝ → Prop) (x : ℕ → ℝ) :
    (∃ v' : ℕ → ℝ, (∀ d < 3, v' d = x d) ∧
      ((droRow bxPro nbExps 1 2 3 (fun _ => 0) (fun _ j => 1 + j)).leToRc
        (mixSupport bxPro nbExps).coneDual).prog.Feas E v')
    ↔ (∀ ζ, (mixSupport bxPro nbExps).Feas E ζ →
        ∑ s ∈ range 1, x ((fun _ => 0) s) * ζ s
          + ∑ k ∈ range nbExps.length, ∑ j ∈ range 2,
              x ((fun _ j => 1 + j) k j) * ζ (colOff bxPro nbExps k + j) ≤ 0) :=
  dro_exact_compiled_soc bxPro nbExps E (fun _ _ _ => rfl)
    (by intro q hq; simp [bxPro] at hq) rfl nb_hqe nb_hxe nb_hlay
    1 2 3 (fun _ => 0) (fun _ j => 1 + j) (le_refl _) nb_hnz
    (by intro s _; show 0 < 3; omega) (by intro k _ j hj; show 1 + j < 3; omega)
    (nb_hslater E) x

/-- e.g. `α = -1`, `β = (1, 1)`: `-p + μ₀ + μ₁ ≤ 0` holds on the lifted support
(`μ₀ + μ₁ ≤ √2·‖μ‖₂ ≤ √2/2 < 1`), hence dual multipliers — a point of the dual second-order cone
among them — exist that make the compiled row feasible -/
example (E : ℝ → ℝ → ℝ → Prop) : ∃ v' : ℕ → ℝ,
    (∀ d < 3, v' d = (fun d => if d = 0 then (-1 : ℝ) else 1) d) ∧
    ((droRow bxPro nbExps 1 2 3 (fun _ => 0) (fun _ j => 1 + j)).leToRc
      (mixSupport bxPro nbExps).coneDual).prog.Feas E v' := by
  apply (nb_compiled_exact E _).mpr
  intro ζ hζ
  obtain ⟨h0, h1, h2, h3, h4, h5⟩ := (nb_mix_feas_iff E ζ).mp hζ
  rw [nb_len]
  simp only [Finset.sum_range_succ, Finset.sum_range_zero, nb_colOff]
  norm_num
  rw [h0, h1, h2]
  nlinarith [sq_nonneg (ζ 3 - ζ 4), sq_nonneg (ζ 3 + ζ 4 - 1), sq_nonneg (ζ 5 - 1 / 2)]

/-- vertices of the square `[-1, 1]²`: `(-1,-1)`, `(1,-1)`, `(-1,1)`, `(1,1)` -/
noncomputable def sqVtx : ℕ → ℕ → ℕ → ℝ := fun _ i j =>
  if j = 0 then (if i = 0 ∨ i = 2 then -1 else 1) else (if i < 2 then -1 else 1)

/-- the integrand `z₀ + z₁ - c`, written as an affine piece -/
noncomputable def sqF (c : ℝ) : ℕ → (ℕ → ℝ) → ℝ := fun _ z => -c + ∑ j ∈ range 2, (1 : ℝ) * z j

/-- the uniform distribution on the four vertices -/
noncomputable def sqW0 : ℕ → ℕ → ℝ := fun _ _ => 1 / 4

lemma sq_induces (w : ℕ → ℕ → ℝ) (ζ : ℕ → ℝ) :
    Induces 1 nbExps.length 2 4 sqVtx (fun k s => s ∈ idx nbExps k) (fun s => s)
      (fun k j => colOff bxPro nbExps k + j) w ζ ↔
      (ζ 0 = w 0 0 + w 0 1 + w 0 2 + w 0 3 ∧ ζ 1 = - w 0 0 + w 0 1 - w 0 2 + w 0 3 ∧
        ζ 2 = - w 0 0 - w 0 1 + w 0 2 + w 0 3) := by
  have e0 : pOf 4 w 0 = w 0 0 + w 0 1 + w 0 2 + w 0 3 := by
    simp [pOf, Finset.sum_range_succ]
  have e1 : muOf 1 4 sqVtx (fun k s => s ∈ idx nbExps k) w 0 0
      = - w 0 0 + w 0 1 - w 0 2 + w 0 3 := by
    simp [muOf, nb_idx, sqVtx, Finset.sum_range_succ]; ring
  have e2 : muOf 1 4 sqVtx (fun k s => s ∈ idx nbExps k) w 0 1
      = - w 0 0 - w 0 1 + w 0 2 + w 0 3 := by
    simp [muOf, nb_idx, sqVtx, Finset.sum_range_succ]; ring
  rw [nb_len]
  constructor
  · rintro ⟨h1, h2⟩
    have a := h1 0 (by omega)
    have b := h2 0 (by omega) 0 (by omega)
    have c := h2 0 (by omega) 1 (by omega)
    simp only [nb_colOff] at a b c
    rw [e0] at a
    rw [e1] at b
    rw [e2] at c
    exact ⟨a, b, c⟩
  · rintro ⟨a, b, c⟩
    refine ⟨fun s hs => ?_, fun k hk j hj => ?_⟩
    · have : s = 0 := by omega
      subst this; rw [e0]; exact a
    · have : k = 0 := by omega
      subst this
      have hj' : j = 0 ∨ j = 1 := by omega
      rcases hj' with rfl | rfl
      · simp only [nb_colOff]; rw [e1]; exact b
      · simp only [nb_colOff]; rw [e2]; exact c

lemma sq_hslater (E : ℝ → ℝ → ℝ → Prop) :
    ∃ (w : ℕ → ℕ → ℝ) (ζ : ℕ → ℝ), (∀ s < 1, ∀ i < 4, 0 ≤ w s i) ∧
      (mixSupport bxPro nbExps).Feas E ζ ∧ (∀ q ∈ (mixSupport bxPro nbExps).qmat, socStrict ζ q) ∧
      Induces 1 nbExps.length 2 4 sqVtx (fun k s => s ∈ idx nbExps k) (fun s => s)
        (fun k j => colOff bxPro nbExps k + j) w ζ := by
  refine ⟨sqW0, nbZ0, ?_, (nb_mix_feas_iff E _).mpr (by norm_num [nbZ0]), ?_,
    (sq_induces _ _).mpr (by norm_num [sqW0, nbZ0])⟩
  · intro s _ i _; norm_num [sqW0]
  · intro q hq
    rw [nb_qmat] at hq
    simp only [List.mem_singleton] at hq
    subst hq
    simp [socStrict, nbZ0]

lemma sq_hcols : ∀ (α : ℕ → ℝ) (β : ℕ → ℕ → ℝ), ∃ x : ℕ → ℝ,
    (∀ s < 1, x ((fun _ => 0) s) = α s) ∧
    (∀ k < nbExps.length, ∀ j < 2, x ((fun _ j => 1 + j) k j) = β k j) := by
  intro α β
  refine ⟨fun d => if d = 0 then α 0 else β 0 (d - 1), ?_, ?_⟩
  · intro s hs
    have : s = 0 := by omega
    subst this; simp
  · intro k hk j hj
    have : k = 0 := by rw [nb_len] at hk; omega
    subst this
    show (if 1 + j = 0 then α 0 else β 0 (1 + j - 1)) = β 0 j
    rw [if_neg (by omega), Nat.add_sub_cancel_left]

/-- **`dro_exact_end_to_end_soc` on the instance: all hypotheses are discharged** (ambiguity set
`‖E z‖₂ ≤ 1/2`, support the square `[-1, 1]²`, integrand `z₀ + z₁ - c`) -/
theorem sq_exact (E : ℝ → ℝ → ℝ → Prop) (c : ℝ) :
    (∃ v : ℕ → ℝ,
      ((droRow bxPro nbExps 1 2 3 (fun _ => 0) (fun _ j => 1 + j)).leToRc
        (mixSupport bxPro nbExps).coneDual).prog.Feas E v ∧
      (∀ s < 1, ∀ z, Hull 2 4 (sqVtx s) z →
        sqF c s z ≤ v ((fun _ => 0) s) + ∑ k ∈ range nbExps.length,
          if s ∈ idx nbExps k then ∑ j ∈ range 2, v ((fun _ j => 1 + j) k j) * z j else 0))
    ↔ (∀ (w : ℕ → ℕ → ℝ) (ζ : ℕ → ℝ), (∀ s < 1, ∀ i < 4, 0 ≤ w s i) →
        (mixSupport bxPro nbExps).Feas E ζ →
        Induces 1 nbExps.length 2 4 sqVtx (fun k s => s ∈ idx nbExps k) (fun s => s)
          (fun k j => colOff bxPro nbExps k + j) w ζ →
        ∑ s ∈ range 1, ∑ i ∈ range 4, w s i * sqF c s (sqVtx s i) ≤ 0) :=
  dro_exact_end_to_end_soc bxPro nbExps E (fun _ _ _ => rfl)
    (by intro q hq; simp [bxPro] at hq) rfl nb_hqe nb_hxe nb_hlay
    1 2 3 (fun _ => 0) (fun _ j => 1 + j) (le_refl _) nb_hnz
    (by intro s _; show 0 < 3; omega) (by intro k _ j hj; show 1 + j < 3; omega) sq_hcols
    4 sqVtx (sqF c) (fun s _ => vtxConvex_affine 2 4 (sqVtx s) (-c) (fun _ => 1))
    (sq_hslater E)

/-- `c = 1`: every admissible vertex distribution has `E[z₀ + z₁ - 1] = μ₀ + μ₁ - p ≤ √2/2 - 1 < 0`,
hence the compiled first-stage row and the scenario rows on the square are simultaneously
feasible -/
example (E : ℝ → ℝ → ℝ → Prop) : ∃ v : ℕ → ℝ,
    ((droRow bxPro nbExps 1 2 3 (fun _ => 0) (fun _ j => 1 + j)).leToRc
      (mixSupport bxPro nbExps).coneDual).prog.Feas E v ∧
    (∀ s < 1, ∀ z, Hull 2 4 (sqVtx s) z →
      sqF 1 s z ≤ v ((fun _ => 0) s) + ∑ k ∈ range nbExps.length,
        if s ∈ idx nbExps k then ∑ j ∈ range 2, v ((fun _ j => 1 + j) k j) * z j else 0) := by
  apply (sq_exact E 1).mpr
  intro w ζ hw hζ hind
  obtain ⟨h0, h1, h2, h3, h4, h5⟩ := (nb_mix_feas_iff E ζ).mp hζ
  obtain ⟨i0, i1, i2⟩ := (sq_induces w ζ).mp hind
  have hv : ∑ s ∈ range 1, ∑ i ∈ range 4, w s i * sqF 1 s (sqVtx s i) = ζ 1 + ζ 2 - ζ 0 := by
    rw [i0, i1, i2]
    simp [sqF, sqVtx, Finset.sum_range_succ]
    ring
  rw [hv, h0, h1, h2]
  nlinarith [sq_nonneg (ζ 3 - ζ 4), sq_nonneg (ζ 3 + ζ 4 - 1), sq_nonneg (ζ 5 - 1 / 2)]

/-! ### Summary

**Proved** (`K = ℝ`, second-order cones, no exponential cones):
* `dro_exact_compiled_soc` — the compiled first-stage row over the conic dual of a lifted support
  with second-order cones is feasible at the decisions iff (H1∀) holds on the whole lifted support,
  under a Slater point of the lifted support (strict in the cones only) and the general dual layout
  (`hlay`, proved from the data by `mix_rowsRemoved_false` / `mix_rowsRemoved_false_pro`).  The side
  conditions of `C02Conic.rc_exact_soc_slater` are discharged from the definition of `mixSupport`
  (`mix_wf`, `mix_xmat_nil`, `hnz`) or shown unnecessary in the general layout (`hq`, `htail`:
  `rc_exact_soc_slater_lay`).
* `dro_complete_vertex_lift_soc`, `dro_exact_end_to_end_soc` — polytope supports (vertex form): the
  Farkas / vertex argument generalised to conic lifted sets by conic Lagrangian duality
  (`farkas_eq_pairing_soc`); only the cones need a strict point.
* `dro_complete_atoms`, `dro_exact_atoms` — arbitrary supports, arbitrary convex lifted set,
  arbitrary integrands, finitely supported distributions: worst case `≤ 0` ⇒ multipliers, by
  Hahn–Banach, under the interior condition on the moments.
* `dro_exact_end_to_end_conic` — conic lifted support and conic scenario supports: the compiled
  system (first-stage row and scenario rows, `rc_exact_soc_slater_lay` per scenario support) is
  feasible iff the worst case over all finitely supported distributions is `≤ 0`.
* Instances with all hypotheses discharged: `bx_exact` (one scenario, support = Euclidean unit ball
  in the plane as `rsome` writes it — compact dual layout —, `E(z)` in a box), `nb_compiled_exact`
  and `sq_exact` (expectation set `‖E z‖₂ ≤ 1/2`: a cone inside the lifted support, general layout).

**Open / not covered**:
* exponential cones (entropy / KL pieces) in the ambiguity set or in the supports (`hxp`, `hxe`,
  `hx2`): conic strong duality is proved for second-order cones only;
* a lifted support whose conic dual takes the *compact* layout (`hlay` fails): not covered, and by
  the remark in `C03.dro_sound_compiled` the compiled row would then pair coefficients with the wrong
  dual rows (the differential tests never produce this case);
* for non-polytope supports dual attainment in the second stage needs the interior condition on the
  moments `hmom`; whether it can be weakened (it is not needed for polytope supports, see
  `dro_exact_end_to_end_soc`) and what happens for moments on the boundary of the moment cone is not
  analysed;
* "all distributions" are the finitely supported ones.  For arbitrary distributions (abstract
  conditional expectations `CondExp`) soundness is `C03.dro_sound`; it is not restated here because
  `RsomeV/Props/C03.lean` and `RsomeV/Props/C02.lean` cannot be imported together.  Given the
  multipliers produced here, `C03.dro_sound` bounds the expectation under every such distribution;
* `hrow` (the scenario row block expresses (H2) for the integrand) is a hypothesis on the block
  `R2 s`; for the order-faithful model `Dro.row2` of `dro_to_roc` it is `row2_eval_ro` of
  `RsomeV/L/DroRows.lean` (C03 side).  As in `C04.dro_exact_end_to_end` the integrand is fixed
  (decisions other than the multipliers are folded into its coefficients) and every compiled
  fragment has its own multiplier columns behind the decision columns. -/

end RsomeV.C04Soc
