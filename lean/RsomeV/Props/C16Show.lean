import RsomeV.M.ShowTable
import RsomeV.L.ShowTable

/-! # C16 — the `show()` table determines the program

Model: `RsomeV/M/ShowTable.lean` (`Table`, `Cell`, `showlc`, `showqc`, `showec`, `showConic`, `showTable`,
`readTable`, `toData`, `NoRaise`, `Distinct`); helper lemmas: `RsomeV/L/ShowTable.lean`; differential test
against the real `LinProg.show` / `SOCProg.show` / `GCProg.show` DataFrames, cell by cell: `test_show.py`
(driver op `show_table`).

What the table keeps and what it loses:
* kept — every coefficient of every linear row (the dense row: all `nc` columns), its sense and
  right-hand side, the objective, both bounds and the type of every column; for `SOCProg` / `GCProg` also every second-order cone as *head + multiset of the other members*, every exponential cone as its
  three members in order;
* lost — the CSR pattern (an explicitly stored `0.0` and a missing entry both show as `0.0`:
  `showTable_st`); the *order* of the non-head members of a second-order cone (`tail_order_lost`; the
  cone `‖x_tail‖ ≤ x_head` is the same set); and, for cones that mention a column twice (never built by
  rsome itself, excluded by `Distinct`), which member is which (`head_in_tail_lost`, `exp_duplicate_lost`);
* `LinProg.show()` (repaired in the code: it used to be `showlc()` alone) lists objective, rows, bounds and types. -/

namespace RsomeV.C16Show
open RsomeV.ShowTable

variable (P : ConeProg ℚ)

/-! ## the rows of each class -/

/-- the rows of `SOCProg.show()` / `GCProg.show()` whose label starts with `t` -/
theorem cls_conic (t : List Char) (e : Bool) (vt : List String) :
    cls t (showConic P e vt).rows =
      ((if ['O', 'b'] = t then [(objRow P).2] else []) ++
        ((if ['L', 'C'] = t then (lcRows P).map (·.2) else []) ++
          ((if ['Q', 'C'] = t then (qcRows P).map (·.2) else []) ++
            ((if e then (if ['E', 'C'] = t then (ecRows P).map (·.2) else []) else []) ++
              ((if ['U', 'B'] = t then [(ubRow P).2] else []) ++
                ((if ['L', 'B'] = t then [(lbRow P).2] else []) ++
                  (if ['T', 'y'] = t then [(typeRow vt).2] else []))))))).map
        (List.map (fillCell "-")) := by
  rw [showConic_rows, cls_fill, cls_cons, cls_append, cls_block _ _ _ (tag_lcRows P), cls_append,
    cls_block _ _ _ (tag_qcRows P), cls_append, cls_cons, cls_cons, cls_cons, cls_nil, tag_obj, tag_ub,
    tag_lb, tag_type, List.append_nil]
  cases e
  · simp [cls_nil]
  · simp [cls_block _ _ _ (tag_ecRows P)]

theorem map_snd_mapIdx {α β : Type} (g : ℕ → String) (h : α → β) (l : List α) :
    (l.mapIdx fun k q => (g k, h q)).map (·.2) = l.map h := by
  induction l generalizing g with
  | nil => rfl
  | cons a l ih =>
    rw [List.mapIdx_cons, List.map_cons, List.map_cons]
    exact congrArg _ (ih fun i => g (i + 1))

/-! ## the blocks, read back -/

theorem read_narrow_nums (f : ℕ → ℚ) (l : List ℕ) :
    (xCells ((((l.map fun j => Cell.num (f j)) ++ [Cell.nan, Cell.nan])).map (fillCell "-"))).map Cell.toRat
      = l.map f := by
  rw [List.map_append, fill_nums]
  show (xCells (_ ++ [Cell.str "-", Cell.str "-"])).map _ = _
  rw [xCells_append2, toRat_nums]

theorem read_narrow_bounds (neg : Bool) (f : ℕ → Option ℚ) (l : List ℕ) :
    (xCells ((((l.map fun j => boundCell neg (f j)) ++ [Cell.nan, Cell.nan])).map (fillCell "-"))).map
      Cell.toBound = l.map f := by
  rw [List.map_append, fill_bounds]
  show (xCells (_ ++ [Cell.str "-", Cell.str "-"])).map _ = _
  rw [xCells_append2, toBound_ub]

theorem read_narrow_strs (l : List String) :
    (xCells (((l.map Cell.str) ++ [Cell.nan, Cell.nan]).map (fillCell "-"))).map Cell.toStr = l := by
  rw [List.map_append, fill_strs]
  show (xCells (_ ++ [Cell.str "-", Cell.str "-"])).map _ = _
  rw [xCells_append2, toStr_strs]

/-- the `LC` block read back (with or without `fillna`) -/
theorem read_lcRows (fill : Bool) :
    (((lcRows P).map (·.2)).map fun cs => readLc (if fill then cs.map (fillCell "-") else cs)) =
      (List.range P.lp.nr).map fun i => ((List.range P.lp.nc).map (P.lp.a i), P.lp.eq i, P.lp.b i) := by
  simp only [lcRows, List.map_map]
  apply List.map_congr_left
  intro i _
  have hs : ∀ b : Bool, decide (Cell.str (if b then "==" else "<=") = Cell.str "==") = b := by decide
  cases fill
  · simp only [Function.comp, Bool.false_eq_true, if_false]
    rw [readLc_append2, toRat_nums, hs]; rfl
  · simp only [Function.comp, if_true]
    rw [List.map_append, fill_nums]
    show readLc (_ ++ [Cell.str _, Cell.num _]) = _
    rw [readLc_append2, toRat_nums, hs]; rfl

/-- the `QC` block read back -/
theorem read_qcRows (hne : ∀ q ∈ P.qmat, q ≠ []) (hlt : ∀ q ∈ P.qmat, ∀ j ∈ q, j < P.lp.nc)
    (hd : ∀ q ∈ P.qmat, ∀ h ∈ q.head?, h ∉ q.tail) :
    (((qcRows P).map (·.2)).map fun cs => readQc (cs.map (fillCell "-"))) =
      P.qmat.map (normCone P.lp.nc) := by
  unfold qcRows
  rw [map_snd_mapIdx, List.map_map]
  apply List.map_congr_left
  intro q hq
  cases q with
  | nil => exact absurd rfl (hne _ hq)
  | cons h t =>
    exact readQc_row P.lp.nc h t (hlt _ hq h (List.mem_cons_self ..)) (hd _ hq h rfl)

/-- the `EC` block read back -/
theorem read_ecRows (hlen : ∀ x ∈ P.xmat, x.length = 3) (hlt : ∀ x ∈ P.xmat, ∀ j ∈ x, j < P.lp.nc)
    (hd : ∀ x ∈ P.xmat, x.Nodup) :
    (((ecRows P).map (·.2)).map fun cs => readEc (cs.map (fillCell "-"))) = P.xmat := by
  unfold ecRows
  rw [map_snd_mapIdx, List.map_map]
  conv_rhs => rw [← List.map_id P.xmat]
  apply List.map_congr_left
  intro x hx
  match x, hlen x hx, hlt x hx, hd x hx with
  | [a, b, c], _, hl, hn =>
    have hn' : a ≠ b ∧ a ≠ c ∧ b ≠ c := by
      simp only [List.nodup_cons, List.mem_cons, List.not_mem_nil, or_false, not_or] at hn
      exact ⟨hn.1.1, hn.1.2, hn.2.1⟩
    exact readEc_row P.lp.nc a b c (hl a (by simp)) (hl b (by simp)) (hl c (by simp)) hn'.1 hn'.2.1 hn'.2.2

/-! ## the round trip -/

/-- `toData` of a `LinProg` object: that of the same program, without cones, as a `SOCProg` -/
theorem toData_lin (vt : List String) : toData P .lin vt = toData (linOnly P) .soc vt := by
  simp [toData, linOnly]

/-- the round trip for `SOCProg.show()` (`e = false`) and `GCProg.show()` (`e = true`) -/
theorem show_roundtrip_conic (e : Bool) (vt : List String) (hr : NoRaise P vt) (hd : Distinct P) :
    readTable ((showConic P e vt)) = toData P (if e then .gcp else .soc) vt := by
  have hlc := read_lcRows P true
  simp only [if_true] at hlc
  have hqc := read_qcRows P hr.q_ne hr.q_lt hd.q_head
  have hec := read_ecRows P hr.x_len hr.x_lt hd.x_nodup
  have hobj := read_narrow_nums P.lp.c (List.range P.lp.nc)
  have hub := read_narrow_bounds false P.lp.ub (List.range P.lp.nc)
  have hlb := read_narrow_bounds true P.lp.lb (List.range P.lp.nc)
  have hty := read_narrow_strs vt
  cases e
  · simp [readTable, rowsOf_eq, cls_conic, toData, List.map_map, Function.comp_def, objRow, ubRow, lbRow,
      typeRow, narrowRow] at hlc hqc hobj hub hlb hty ⊢
    simp [hlc, hqc, hobj, hub, hlb, hty]
  · simp [readTable, rowsOf_eq, cls_conic, toData, List.map_map, Function.comp_def, objRow, ubRow, lbRow,
      typeRow, narrowRow] at hlc hqc hec hobj hub hlb hty ⊢
    simp [hlc, hqc, hec, hobj, hub, hlb, hty]

/-- **`show_roundtrip_lin`**: `LinProg.show()` lists the objective row, every dense row with its sense and
right-hand side, both bounds and the type of every column, and all of it is read back.  Only hypothesis: one
type letter per column (otherwise `show()` raises). -/
theorem show_roundtrip_lin (vt : List String) (hl : vt.length = P.lp.nc) :
    readTable (showTable P .lin vt) = toData P .lin vt := by
  rw [toData_lin]
  exact show_roundtrip_conic (linOnly P) false vt
    ⟨hl, by simp [linOnly], by simp [linOnly], by simp [linOnly], by simp [linOnly]⟩
    ⟨by simp [linOnly], by simp [linOnly]⟩

/-- **`show_roundtrip`**: reading the DataFrame returned by `formula.show()` gives back the program
restricted to its stored data (`toData`): every row's dense coefficients, sense and right-hand side; for
the conic classes also the objective, the bounds, the types, every second-order cone (head, then the other
members ascending) and every exponential cone (its three members in order).
Hypotheses: `show()` does not raise (`NoRaise`) and no cone mentions a column twice ambiguously
(`Distinct`). -/
theorem show_roundtrip (k : Kind) (vt : List String) (hr : NoRaise P vt) (hd : Distinct P) :
    readTable (showTable P k vt) = toData P k vt := by
  cases k
  · exact show_roundtrip_lin P vt hr.len_vt
  · exact show_roundtrip_conic P false vt hr hd
  · exact show_roundtrip_conic P true vt hr hd

/-- **`show_injective`**: equal tables, equal content. -/
theorem show_injective (P P' : ConeProg ℚ) (k k' : Kind) (vt vt' : List String)
    (hr : NoRaise P vt) (hd : Distinct P) (hr' : NoRaise P' vt') (hd' : Distinct P')
    (h : showTable P k vt = showTable P' k' vt') : toData P k vt = toData P' k' vt' := by
  rw [← show_roundtrip P k vt hr hd, h, show_roundtrip P' k' vt' hr' hd']

/-! ## what `toData` fixes -/

/-- equal linear parts of `toData`: the same number of rows; and, if the number of columns is the same,
the same dense coefficients, senses and right-hand sides -/
theorem rows_determine (P P' : ConeProg ℚ) (k k' : Kind) (vt vt' : List String)
    (h : toData P k vt = toData P' k' vt') (hn : P.lp.nc = P'.lp.nc) :
    P.lp.nr = P'.lp.nr ∧ (∀ i < P.lp.nr, ∀ j < P.lp.nc, P.lp.a i j = P'.lp.a i j) ∧
    (∀ i < P.lp.nr, P.lp.eq i = P'.lp.eq i) ∧ (∀ i < P.lp.nr, P.lp.b i = P'.lp.b i) := by
  have hrows := congrArg ShowData.rows h
  simp only [toData] at hrows
  have hnr := map_range_len _ _ _ _ hrows
  rw [← hnr, ← hn] at hrows
  have hall := map_range_inj _ _ _ hrows
  refine ⟨hnr, fun i hi j hj => ?_, fun i hi => ?_, fun i hi => ?_⟩
  · exact map_range_inj _ _ _ (congrArg Prod.fst (hall i hi)) j hj
  · exact congrArg (fun x => x.2.1) (hall i hi)
  · exact congrArg (fun x => x.2.2) (hall i hi)

/-- **`toData_determines`** (conic classes): equal content means the same shape, the same dense
coefficients, senses, right-hand sides, objective, bounds, type letters, the same second-order cones up to
the order of their non-head members, and (for `GCProg`) the same exponential cones. -/
theorem toData_determines (P P' : ConeProg ℚ) (k : Kind) (hk : k ≠ .lin) (vt vt' : List String)
    (h : toData P k vt = toData P' k vt') :
    P.lp.nc = P'.lp.nc ∧ P.lp.nr = P'.lp.nr ∧
    (∀ i < P.lp.nr, ∀ j < P.lp.nc, P.lp.a i j = P'.lp.a i j) ∧
    (∀ i < P.lp.nr, P.lp.eq i = P'.lp.eq i) ∧ (∀ i < P.lp.nr, P.lp.b i = P'.lp.b i) ∧
    (∀ j < P.lp.nc, P.lp.c j = P'.lp.c j) ∧
    (∀ j < P.lp.nc, P.lp.ub j = P'.lp.ub j) ∧ (∀ j < P.lp.nc, P.lp.lb j = P'.lp.lb j) ∧
    vt = vt' ∧ P.qmat.map (normCone P.lp.nc) = P'.qmat.map (normCone P'.lp.nc) ∧
    (k = .gcp → P.xmat = P'.xmat) := by
  have hobj := congrArg ShowData.obj h
  have hub := congrArg ShowData.ub h
  have hlb := congrArg ShowData.lb h
  have hvt := congrArg ShowData.vtype h
  have hq := congrArg ShowData.qcones h
  have hx := congrArg ShowData.xcones h
  simp only [toData, hk, if_false, Option.some.injEq] at hobj hub hlb hvt hq
  have hn := map_range_len _ _ _ _ hobj
  obtain ⟨r1, r2, r3, r4⟩ := rows_determine P P' k k vt vt' h hn
  rw [← hn] at hobj hub hlb
  refine ⟨hn, r1, r2, r3, r4, map_range_inj _ _ _ hobj, map_range_inj _ _ _ hub, map_range_inj _ _ _ hlb,
    hvt, hq, fun hg => ?_⟩
  simpa [toData, hg] using hx

/-- **`show_determines`**: the table determines the program.  Two formula objects of the same conic class
(`SOCProg` / `GCProg`) with the same `show()` table have the same shape, the same dense rows, senses,
right-hand sides, objective, bounds and types, the same second-order cones up to the order of the non-head
members, and the same exponential cones. -/
theorem show_determines (P P' : ConeProg ℚ) (k : Kind) (hk : k ≠ .lin) (vt vt' : List String)
    (hr : NoRaise P vt) (hd : Distinct P) (hr' : NoRaise P' vt') (hd' : Distinct P')
    (h : showTable P k vt = showTable P' k vt') :
    P.lp.nc = P'.lp.nc ∧ P.lp.nr = P'.lp.nr ∧
    (∀ i < P.lp.nr, ∀ j < P.lp.nc, P.lp.a i j = P'.lp.a i j) ∧
    (∀ i < P.lp.nr, P.lp.eq i = P'.lp.eq i) ∧ (∀ i < P.lp.nr, P.lp.b i = P'.lp.b i) ∧
    (∀ j < P.lp.nc, P.lp.c j = P'.lp.c j) ∧
    (∀ j < P.lp.nc, P.lp.ub j = P'.lp.ub j) ∧ (∀ j < P.lp.nc, P.lp.lb j = P'.lp.lb j) ∧
    vt = vt' ∧ P.qmat.map (normCone P.lp.nc) = P'.qmat.map (normCone P'.lp.nc) ∧
    (k = .gcp → P.xmat = P'.xmat) :=
  toData_determines P P' k hk vt vt' (show_injective P P' k k vt vt' hr hd hr' hd' h)

/-- **`show_determines_lin`**: the table of a `LinProg` object determines it: shape, dense rows, senses,
right-hand sides, objective, bounds and types (a `LinProg` has no cones). -/
theorem show_determines_lin (P P' : ConeProg ℚ) (vt vt' : List String)
    (hl : vt.length = P.lp.nc) (hl' : vt'.length = P'.lp.nc)
    (h : showTable P .lin vt = showTable P' .lin vt') :
    P.lp.nc = P'.lp.nc ∧ P.lp.nr = P'.lp.nr ∧
    (∀ i < P.lp.nr, ∀ j < P.lp.nc, P.lp.a i j = P'.lp.a i j) ∧
    (∀ i < P.lp.nr, P.lp.eq i = P'.lp.eq i) ∧ (∀ i < P.lp.nr, P.lp.b i = P'.lp.b i) ∧
    (∀ j < P.lp.nc, P.lp.c j = P'.lp.c j) ∧
    (∀ j < P.lp.nc, P.lp.ub j = P'.lp.ub j) ∧ (∀ j < P.lp.nc, P.lp.lb j = P'.lp.lb j) ∧ vt = vt' := by
  have hd : toData P .lin vt = toData P' .lin vt' := by
    rw [← show_roundtrip_lin P vt hl, h, show_roundtrip_lin P' vt' hl']
  have hobj := congrArg ShowData.obj hd
  have hub := congrArg ShowData.ub hd
  have hlb := congrArg ShowData.lb hd
  have hvt := congrArg ShowData.vtype hd
  simp only [toData, Option.some.injEq] at hobj hub hlb hvt
  have hn := map_range_len _ _ _ _ hobj
  obtain ⟨r1, r2, r3, r4⟩ := rows_determine P P' .lin .lin vt vt' hd hn
  rw [← hn] at hobj hub hlb
  exact ⟨hn, r1, r2, r3, r4, map_range_inj _ _ _ hobj, map_range_inj _ _ _ hub, map_range_inj _ _ _ hlb, hvt⟩

/-- cones whose non-head members are listed in ascending order (what rsome's own pipeline produces:
consecutive auxiliary columns) are shown as they are … -/
theorem map_normCone_eq_self (hlt : ∀ q ∈ P.qmat, ∀ j ∈ q, j < P.lp.nc)
    (hs : ∀ q ∈ P.qmat, q.tail.Pairwise (· ≤ ·)) : P.qmat.map (normCone P.lp.nc) = P.qmat := by
  conv_rhs => rw [← List.map_id P.qmat]
  apply List.map_congr_left
  intro q hq
  exact normCone_eq_self _ q (hlt q hq) (hs q hq)

/-- … so for such programs the table determines the member lists of every second-order cone, in order. -/
theorem show_determines_cones (P P' : ConeProg ℚ) (k : Kind) (hk : k ≠ .lin) (vt vt' : List String)
    (hr : NoRaise P vt) (hd : Distinct P) (hr' : NoRaise P' vt') (hd' : Distinct P')
    (hs : ∀ q ∈ P.qmat, q.tail.Pairwise (· ≤ ·)) (hs' : ∀ q ∈ P'.qmat, q.tail.Pairwise (· ≤ ·))
    (h : showTable P k vt = showTable P' k vt') : P.qmat = P'.qmat := by
  have := (show_determines P P' k hk vt vt' hr hd hr' hd' h).2.2.2.2.2.2.2.2.2.1
  rwa [map_normCone_eq_self P hr.q_lt hs, map_normCone_eq_self P' hr'.q_lt hs'] at this

/-- in general the non-head members are read back as a permutation (the same multiset of columns) -/
theorem normCone_perm (n : ℕ) (q : List ℕ) (h : ∀ j ∈ q, j < n) : (normCone n q).Perm q := by
  cases q with
  | nil => simp [normCone, countSort]
  | cons a t =>
    have := countSort_perm n t fun j hj => h j (List.mem_cons_of_mem _ hj)
    simpa [normCone] using this

/-! ## what is not in the table -/

/-- the CSR pattern (explicit zeros versus missing entries) is not shown -/
theorem showTable_st (s : ℕ → ℕ → Bool) (k : Kind) (vt : List String) :
    showTable { P with st := s } k vt = showTable P k vt := rfl

/-! ## a concrete program: two second-order cones of different sizes and an exponential cone -/

/-- `min x1 - x4`, rows `x1 - 2 x2 + 0.5 x5 <= 3`, `x3 + x4 == 0`, cones `x2² + x3² ≤ x1²`, `x5² ≤ x4²`,
exponential cone `(x5, x2, x1)`, types `C I C C B` -/
def exP : ConeProg ℚ where
  lp := { nr := 2, nc := 5
          a := fun i j => (([[1, -2, 0, 0, 1/2], [0, 0, 1, 1, 0]] : List (List ℚ)).getD i []).getD j 0
          b := fun i => ([3, 0] : List ℚ).getD i 0
          eq := fun i => ([false, true] : List Bool).getD i false
          ub := fun j => ([none, some 4, none, none, some 1] : List (Option ℚ)).getD j none
          lb := fun j => ([some 0, none, none, some (-1), some 0] : List (Option ℚ)).getD j none
          c := fun j => ([1, 0, 0, -1, 0] : List ℚ).getD j 0 }
  st := fun _ _ => true
  qmat := [[0, 1, 2], [3, 4]]
  xmat := [[4, 1, 0]]

def exVt : List String := ["C", "I", "C", "C", "B"]

example : NoRaise exP exVt := by decide +kernel
example : Distinct exP := by decide +kernel

/-- the DataFrame of `GCProg.show()` for `exP`, cell for cell -/
example : showTable exP .gcp exVt =
    ⟨["x1", "x2", "x3", "x4", "x5", "sense", "constant"],
     [("Obj", [.num 1, .num 0, .num 0, .num (-1), .num 0, .str "-", .str "-"]),
      ("LC1", [.num 1, .num (-2), .num 0, .num 0, .num (1/2), .str "<=", .num 3]),
      ("LC2", [.num 0, .num 0, .num 1, .num 1, .num 0, .str "==", .num 0]),
      ("QC1", [.num (-1), .num 1, .num 1, .num 0, .num 0, .str "<=", .num 0]),
      ("QC2", [.num 0, .num 0, .num 0, .num (-1), .num 1, .str "<=", .num 0]),
      ("EC1", [.num 3, .num 2, .num 0, .num 0, .num 1, .str "-", .str "-"]),
      ("UB", [.inf false, .num 4, .inf false, .inf false, .num 1, .str "-", .str "-"]),
      ("LB", [.num 0, .inf true, .inf true, .num (-1), .num 0, .str "-", .str "-"]),
      ("Type", [.str "C", .str "I", .str "C", .str "C", .str "B", .str "-", .str "-"])]⟩ := by decide +kernel

/-- … and read back: both cones (sizes 3 and 2) and the exponential cone with their members in order -/
example : readTable (showTable exP .gcp exVt) =
    { obj := some [1, 0, 0, -1, 0]
      rows := [([1, -2, 0, 0, 1/2], false, 3), ([0, 0, 1, 1, 0], true, 0)]
      qcones := [[0, 1, 2], [3, 4]]
      xcones := [[4, 1, 0]]
      ub := some [none, some 4, none, none, some 1]
      lb := some [some 0, none, none, some (-1), some 0]
      vtype := some ["C", "I", "C", "C", "B"] } := by decide +kernel

example : readTable (showTable exP .gcp exVt) = toData exP .gcp exVt :=
  show_roundtrip exP .gcp exVt (by decide) (by decide)

/-- `LinProg.show()` shows the objective, the rows, the bounds and the types (a `LinProg` has no cones) -/
example : readTable (showTable exP .lin exVt) =
    { obj := some [1, 0, 0, -1, 0], rows := [([1, -2, 0, 0, 1/2], false, 3), ([0, 0, 1, 1, 0], true, 0)],
      qcones := [], xcones := [],
      ub := some [none, some 4, none, none, some 1]
      lb := some [some 0, none, none, some (-1), some 0]
      vtype := some ["C", "I", "C", "C", "B"] } := by decide +kernel

/-- the order of the non-head members of a second-order cone is lost -/
theorem tail_order_lost :
    let Q : ConeProg ℚ := { exP with qmat := [[0, 2, 1], [3, 4]] }
    Q.qmat ≠ exP.qmat ∧ NoRaise Q exVt ∧ Distinct Q ∧ showTable Q .gcp exVt = showTable exP .gcp exVt := by
  decide +kernel

/-- without `Distinct` (head among the other members) different cones give the same row -/
theorem head_in_tail_lost :
    let Q : ConeProg ℚ := { exP with qmat := [[0, 0]] }
    let Q' : ConeProg ℚ := { exP with qmat := [[1, 1]] }
    Q.qmat ≠ Q'.qmat ∧ showTable Q .gcp exVt = showTable Q' .gcp exVt := by
  decide +kernel

/-- without `Distinct` (an exponential cone with a repeated column) different cones give the same row -/
theorem exp_duplicate_lost :
    let Q : ConeProg ℚ := { exP with xmat := [[0, 0, 1]] }
    let Q' : ConeProg ℚ := { exP with xmat := [[1, 1, 0]] }
    Q.xmat ≠ Q'.xmat ∧ showTable Q .gcp exVt = showTable Q' .gcp exVt := by
  decide +kernel

end RsomeV.C16Show
