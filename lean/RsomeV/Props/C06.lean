import RsomeV.Props.AtomsSoc
import RsomeV.Props.AtomsExp
import RsomeV.Gen.Atoms
import RsomeV.Gen.Dispatch

/-! # C06 — every accepted constraint and the objective are enforced as written

Per-atom soundness theorems live in `RsomeV/Props/AtomsSoc.lean` (A, M, I, E, S, Q, rsocone) and
`RsomeV/Props/AtomsExp.lean` (X, L, P, F, perspective X/L, KL); this file adds the routing theorem over the
tables extracted from the source on every run. -/

namespace RsomeV.C06
open RsomeV.Gen

/-- first matching route of an `if … xtype in '<letters>' … else` chain -/
def route (rs : List (List Char × String)) (x : Char) : Option String :=
  (rs.find? fun r => r.1.contains x || r.1 == ['*']).map (·.2)

/-- does a consumer loop of layer `L` that iterates over list `t` have a branch for xtype `x`? -/
def handledIn (L : Layer) (t : String) (x : Char) : Bool :=
  L.loops.any fun l => l.1.contains t && l.2.contains x

/-- constraint position: `st()` of the front-end layer routes by xtype, delegating with `super().st` to the
parent layers; the list finally chosen must be consumed, in that layer's `do_math`, by a loop with a branch
for the xtype.  `ls` lists the layers front-end first. -/
def constrHandled : List Layer → Char → Bool
  | [], _ => false
  | L :: rest, x =>
    match route L.st x with
    | some "super" => constrHandled rest x
    | some "raise" => false
    | some t => handledIn L t x
    | none => false

/-- objective position: every layer's `do_math` builds the epigraph constraint `vars[0] - sign·obj ≥ 0` and
routes it by xtype; it is enforced if some layer routes it to a list one of its loops handles. -/
def objHandled (ls : List Layer) (x : Char) : Bool :=
  ls.any fun L => match route L.obj x with
    | some t => handledIn L t x
    | none => false

/-- **`dispatch_total`** ("never silently dropped"): for every atom the constructors in `rsome/lp.py` can
produce (table `Gen.atomTable`, regenerated from the source on every run), both in constraint position and
in objective position the xtype is routed to a list that a consumer loop of the same `do_math` has a branch
for — in the routing tables extracted from `lp/socp/gcp.Model.st` and `do_math` on every run. -/
theorem dispatch_total :
    ∀ e ∈ atomTable, constrHandled layers.reverse e.xtype = true ∧ objHandled layers e.xtype = true := by
  decide

/-- the extraction found the three layers, in inheritance order -/
theorem layers_found : layers.map (·.name) = ["lp", "socp", "gcp"] := by decide

/-- before the repair of defect F6 the objective route of the gcp layer was `XLPF`: the p-norm atom `'N'`
(exponential-cone method) then had no handled route in objective position. -/
theorem legacy_N_objective_dropped :
    let legacy : List Layer := layers.map fun L =>
      if L.name = "gcp" then { L with obj := [(['X', 'L', 'P', 'F'], "more_others"), (['O', 'D'], "more_det")] } else L
    objHandled legacy 'N' = false ∧ objHandled layers 'N' = true := by
  decide

end RsomeV.C06
