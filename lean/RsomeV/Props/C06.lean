namespace RsomeV.C06
end RsomeV.C06
