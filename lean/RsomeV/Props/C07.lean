namespace RsomeV.C07
end RsomeV.C07
