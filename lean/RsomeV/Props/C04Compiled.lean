import RsomeV.M.Dro
import RsomeV.L.DroExact
import RsomeV.L.DroMixLp
import RsomeV.L.LpDualStrong
import RsomeV.Props.C02
import Mathlib.Tactic.Linarith
import Mathlib.Tactic.Ring
import Mathlib.Tactic.NormNum

/-! C04 (continued) — exactness of the event-wise DRO reformulation *as compiled*: the composition
of the vertex/LP-duality argument (`RsomeV/L/DroExact.lean`, `RsomeV/Props/C04.lean`) with the
exactness of the robust counterpart for LP-class supports (`C02.rc_exact_lp`), for the model
`Dro.mixSupport` of `Ambiguity.mix_support` and the first-stage row `Dro.droRow` of
`dro.Model.dro_to_roc`.

This is a separate module because `RsomeV/Props/C02.lean` and `RsomeV/Props/C03.lean` cannot be
imported together (`RsomeV/L/RobustComplete.lean` and `RsomeV/L/DroSound.lean` both declare
`RsomeV.socMem_congr`); it imports C02 and re-proves the few facts about `mixSupport`/`droRow` it
needs (`RsomeV/L/DroMixLp.lean`, copies of lemmas of `RsomeV/L/DroSound.lean`).  The objects
(`mixSupport`, `droRow`, `colOff`, `blk`, `idx` of `RsomeV/M/Dro.lean`, `leToRc`, `coneDual`) are
the same as in `C03.dro_sound_compiled`.

Contents:
* `dro_complete_vertex_lift`  completeness on vertices for a lifted set with lifting columns;
* `dro_exact_compiled`        compiled first-stage row feasible ⇔ (H1∀) over `mixSupport.Feas`;
* `dro_exact_end_to_end`      compiled first-stage row ∧ scenario rows on the hulls feasible ⇔ the
                              worst-case expectation over the vertex distributions is `≤ 0`. -/

set_option linter.unusedSectionVars false
set_option linter.unusedSimpArgs false
set_option linter.unusedVariables false

namespace RsomeV.C04
open Finset RsomeV ConeProg RoRows Dro RsomeV.C04.Mix

variable {K : Type} [Field K] [LinearOrder K] [IsStrictOrderedRing K]

/-! ### Completeness on vertices with lifting columns -/

/-- **Completeness of the event-wise reformulation (vertex form, lifted set with lifting
columns).**  As `C04.dro_complete_vertex`, but the lifted ambiguity set is a row system
`AdmL g h N` over `N` columns `ζ` of which the column `pc s` carries the probability of scenario
`s` and the column `mc k j` the scaled mean `μ_{k,j}`; the other columns are lifting columns
(free).  A vertex distribution `w` is *admissible* if some point `ζ` of the lifted set carries the
pair it induces (`Induces`).  If some vertex distribution is admissible and every admissible one has
expected integrand `≤ 0`, there are multipliers with (H2v) at every vertex and
(H1∀) `Σ_s α_s·ζ_{pc s} + Σ_k Σ_j β_{k,j}·ζ_{mc k j} ≤ 0` at every point `ζ` of the lifted set.

For `mix_support`: `N` = number of columns, `pc s = s`, `mc k j = colOff k + j`.
Proof: Farkas with equality rows (`farkas_eq_pairing`, from `affine_farkas_cols`) for the system in
`[w | ζ]` with the rows of the lifted set, `-w ≤ 0`, and the link rows
`ζ_{pc s} = Σ_i w s i`, `ζ_{mc k j} = Σ_{s ∈ E_k} Σ_i w s i·vtx s i j`; `α`, `β` are minus the
multipliers of the link rows. -/
theorem dro_complete_vertex_lift (S nE nz nV N : ℕ) (vtx : ℕ → ℕ → ℕ → K)
    (Ev : ℕ → ℕ → Prop) [∀ k s, Decidable (Ev k s)] (pc : ℕ → ℕ) (mc : ℕ → ℕ → ℕ)
    {ι : Type} [Fintype ι] (g : ι → ℕ → K) (h : ι → K)
    (hpc : ∀ s < S, pc s < N) (hmc : ∀ k < nE, ∀ j < nz, mc k j < N)
    (fv : ℕ → ℕ → K)
    (hfeas : ∃ (w : ℕ → ℕ → K) (ζ : ℕ → K), (∀ s < S, ∀ i < nV, 0 ≤ w s i) ∧ AdmL g h N ζ ∧
      Induces S nE nz nV vtx Ev pc mc w ζ)
    (hworst : ∀ (w : ℕ → ℕ → K) (ζ : ℕ → K), (∀ s < S, ∀ i < nV, 0 ≤ w s i) → AdmL g h N ζ →
      Induces S nE nz nV vtx Ev pc mc w ζ →
      ∑ s ∈ range S, ∑ i ∈ range nV, w s i * fv s i ≤ 0) :
    ∃ (α : ℕ → K) (β : ℕ → ℕ → K),
      (∀ s < S, ∀ i < nV, fv s i ≤ α s + ∑ k ∈ range nE,
        if Ev k s then ∑ j ∈ range nz, β k j * vtx s i j else 0) ∧
      (∀ ζ, AdmL g h N ζ →
        ∑ s ∈ range S, α s * ζ (pc s)
          + ∑ k ∈ range nE, ∑ j ∈ range nz, β k j * ζ (mc k j) ≤ 0) :=
  dro_complete_vertex_lift_core S nE nz nV N vtx Ev pc mc g h hpc hmc fv hfeas hworst

/-- for a program without cones, feasibility is the finite row system `LinProg.sysA / sysB`
(`RsomeV/L/LpDualStrong.lean`: the rows, the reversed equality rows and the sign bounds) -/
theorem feas_iff_admL (P : ConeProg K) (E : K → K → K → Prop) (hq : P.qmat = []) (hx : P.xmat = [])
    (ζ : ℕ → K) : P.Feas E ζ ↔ AdmL P.lp.sysA P.lp.sysB P.lp.nc ζ := by
  constructor
  · intro hζ
    exact (P.lp.sys_rows_iff ζ).mpr (P.lp.sys_of_feas ζ hζ.lin)
  · intro hA
    have hl := P.lp.feas_of_sys ζ ((P.lp.sys_rows_iff ζ).mp hA)
    exact ⟨hl, by intro q hq'; rw [hq] at hq'; simp at hq',
      by intro e he'; rw [hx] at he'; simp at he'⟩

/-! ### 6. The compiled first-stage row

`C03.dro_sound_compiled` shows: compiled first-stage row feasible ⇒ (H1) at every lifted point.
For LP-class ambiguity sets (`pro` and every expectation program without cones) the converse
holds as well, by `C02.rc_exact_lp` applied to `Pz = mixSupport pro exps` and the row
`droRow pro exps S nz nd acol bcol`: the row is feasible (for some values of the dual
multipliers, the decision columns being fixed at `x`) **iff** (H1∀) holds with `α_s = x (acol s)`,
`β_{k,j} = x (bcol k j)` at *every* point `ζ` of the mixed support (`p_s = ζ_s`,
`μ_{k,j} = ζ_{colOff k + j}`).

Relation to the row form of `C04.dro_complete_vertex`: `(mixSupport pro exps).Feas` is a finite
system of linear rows in `ζ = [p | block 1 | block 2 | …]` where block `k` consists of the `nz`
scaled means `μ_k` followed by the lifting columns of the `k`-th expectation program (norm atoms).
The variant `dro_complete_vertex_lift` takes the lifted set over *all* these columns
(`AdmL`), so no projection on `(p, μ)` is needed; `feas_iff_admL` identifies `Feas` with `AdmL` for
the row system `LinProg.sysA / sysB` of the program, and `dro_exact_end_to_end` chains
everything. -/

/-- no second-order cones in the mixed support of cone-free inputs -/
lemma mix_qmat_nil (pro : ConeProg K) (exps : List (ConeProg K × List ℕ))
    (hqp : pro.qmat = []) (hqe : ∀ k < exps.length, (blk exps k).qmat = []) :
    (mixSupport pro exps).qmat = [] := by
  apply List.eq_nil_iff_forall_not_mem.mpr
  intro q hq
  rcases (mem_mix_qmat pro exps q).mp hq with h | ⟨k, hk, q', hq', _⟩
  · rw [hqp] at h; simp at h
  · rw [hqe k hk] at hq'; simp at hq'

/-- no exponential cones in the mixed support of cone-free inputs -/
lemma mix_xmat_nil (pro : ConeProg K) (exps : List (ConeProg K × List ℕ))
    (hxp : pro.xmat = []) (hxe : ∀ k < exps.length, (blk exps k).xmat = []) :
    (mixSupport pro exps).xmat = [] := by
  have hsrc : xsrc pro exps = [] := by
    apply List.eq_nil_iff_forall_not_mem.mpr
    intro e he
    rcases (mem_xsrc pro exps e).mp he with h | ⟨k, hk, e', he', _⟩
    · rw [hxp] at h; simp at h
    · rw [hxe k hk] at he'; simp at he'
  apply List.eq_nil_iff_forall_not_mem.mpr
  intro e he
  obtain ⟨i, hi, _⟩ := (mem_mix_xmat pro exps e).mp he
  rw [hsrc] at hi
  simp at hi

/-- **The compiled first-stage row is exactly (H1∀)** for LP-class ambiguity sets.

`pro` = the probability program, `exps` = the expectation programs with their scenario lists (as in
`C03.mixSupport_lift`), all without cones (`hqp hxp hqe hxe`); `hst` = the stored pattern of
`pro` covers its non-zeros; the mixed support is non-empty (`hne`; by `C03.mixSupport_lift` any
admissible probabilities/means give a point).  `x` fixes the decision columns (`nd` of them; the
multipliers `α_s = x (acol s)`, `β_{k,j} = x (bcol k j)` are among them).  Then the `le_to_rc`
fragment of the first-stage row over the conic dual of the mixed support has a feasible completion
of `x` **iff** `Σ_s α_s·ζ_s + Σ_k Σ_j β_{k,j}·ζ_{colOff k + j} ≤ 0` at every point `ζ` of the mixed
support. -/
theorem dro_exact_compiled (pro : ConeProg K) (exps : List (ConeProg K × List ℕ))
    (E : K → K → K → Prop)
    (hst : ∀ i j, pro.lp.a i j ≠ 0 → pro.st i j = true)
    (hqp : pro.qmat = []) (hxp : pro.xmat = [])
    (hqe : ∀ k < exps.length, (blk exps k).qmat = [])
    (hxe : ∀ k < exps.length, (blk exps k).xmat = [])
    (S nz nd : ℕ) (acol : ℕ → ℕ) (bcol : ℕ → ℕ → ℕ)
    (hS : S ≤ pro.lp.nc) (hnz : ∀ k < exps.length, nz ≤ (blk exps k).lp.nc)
    (hacol : ∀ s < S, acol s < nd) (hbcol : ∀ k < exps.length, ∀ j < nz, bcol k j < nd)
    (hne : ∃ ζ, (mixSupport pro exps).Feas E ζ)
    (x : ℕ → K) :
    (∃ v' : ℕ → K, (∀ d < nd, v' d = x d) ∧
      ((droRow pro exps S nz nd acol bcol).leToRc (mixSupport pro exps).coneDual).prog.Feas E v')
    ↔ (∀ ζ, (mixSupport pro exps).Feas E ζ →
        ∑ s ∈ range S, x (acol s) * ζ s
          + ∑ k ∈ range exps.length, ∑ j ∈ range nz,
              x (bcol k j) * ζ (colOff pro exps k + j) ≤ 0) := by
  have hwf := mix_wf pro exps hst (by intro q hq; rw [hqp] at hq; simp at hq)
    (by intro k hk q hq; rw [hqe k hk] at hq; simp at hq)
  have hex := C02.rc_exact_lp (mixSupport pro exps) E hwf (mix_qmat_nil pro exps hqp hqe)
    (mix_xmat_nil pro exps hxp hxe) (fun _ => rfl) (droRow pro exps S nz nd acol bcol)
    (by show colEnd pro exps ≤ colEnd pro exps + 3 * (xsrc pro exps).length; omega) hne x
  have hm : (droRow pro exps S nz nd acol bcol).m = 1 := rfl
  have hd : (droRow pro exps S nz nd acol bcol).nd = nd := rfl
  rw [hm, hd] at hex
  rw [hex]
  constructor
  · intro hall ζ hζ
    have := hall 0 (by omega) ζ hζ
    rw [droRow_eval pro exps S nz nd acol bcol hS hnz hacol hbcol] at this
    exact this
  · intro hall n hn ζ hζ
    have hn0 : n = 0 := by omega
    subst hn0
    rw [droRow_eval pro exps S nz nd acol bcol hS hnz hacol hbcol]
    exact hall ζ hζ


/-! ### End to end -/

/-- the standard layout of the multiplier columns — `α_s` at column `a0 + s`, `β_{k,j}` at column
`b0 + k·nz + j` behind them — can hold any values -/
lemma cols_std (S nz a0 b0 : ℕ) (hab : a0 + S ≤ b0) (α : ℕ → K) (β : ℕ → ℕ → K) :
    ∃ x : ℕ → K, (∀ s < S, x (a0 + s) = α s) ∧
      (∀ k j, j < nz → x (b0 + (k * nz + j)) = β k j) := by
  refine ⟨fun d => if d < b0 then α (d - a0) else β ((d - b0) / nz) ((d - b0) % nz), ?_, ?_⟩
  · intro s hs
    show (if a0 + s < b0 then α (a0 + s - a0) else _) = _
    rw [if_pos (by omega), Nat.add_sub_cancel_left]
  · intro k j hj
    obtain ⟨e1, e2⟩ := flat_div_mod nz k j hj
    show (if b0 + (k * nz + j) < b0 then _ else
      β ((b0 + (k * nz + j) - b0) / nz) ((b0 + (k * nz + j) - b0) % nz)) = _
    rw [if_neg (by omega), Nat.add_sub_cancel_left, e1, e2]

/-- **Exactness of the compiled event-wise reformulation (LP-class ambiguity set, polytope
supports).**

Ambiguity set: probability program `pro`, expectation programs `exps` with their scenario lists,
all without cones; `Pz = mixSupport pro exps` is the model of `Ambiguity.mix_support`; events are
`Ev k s := s ∈ idx exps k`.  Supports: the hulls of `nV` vertices `vtx s i` per scenario; integrands
`f s` vertex-convex (`VtxConvex`; maxima of affine pieces are, `C04.maxAffine_convex`).  A vertex
distribution `w ≥ 0` is *admissible* if some point `ζ` of `Pz` carries its probabilities in the
columns `s < S` and its scaled means in the columns `colOff k + j` (`Induces`); some vertex
distribution is admissible (`hfeas`).  `hcols`: the multiplier columns `acol s`, `bcol k j` can be
assigned independently (they are distinct decision columns — `cols_std` for the standard layout).

Then the following are equivalent:
* there is an assignment `v` of the decision/multiplier/dual columns such that the compiled
  first-stage row (`le_to_rc` of `droRow` over `Pz.coneDual`) is feasible at `v` and the scenario
  rows (H2) hold on every hull with `α_s = v (acol s)`, `β_{k,j} = v (bcol k j)` — i.e. the
  constraint system `dro_to_roc` emits is feasible (the scenario rows are in turn equivalent to
  their compiled form by `C02.rc_exact_lp` over the support of the scenario);
* every admissible vertex distribution has expected integrand `≤ 0` — i.e. (by
  `C04.dro_sup_is_vertex_sup`) `sup_{P ∈ F} E_P[f] ≤ 0` over all distributions of the ambiguity
  set carried by the hulls.

Applied to the epigraph form `f - t` this says that the optimal value reported for the
reformulation equals the true worst-case expectation.  `→`: `C01.rc_sound` (inside
`dro_exact_compiled`) and `vertex_sound`; `←`: `dro_complete_vertex_lift`, `hull_row`,
`C02.rc_complete_lp` (inside `dro_exact_compiled`). -/
theorem dro_exact_end_to_end (pro : ConeProg K) (exps : List (ConeProg K × List ℕ))
    (E : K → K → K → Prop)
    (hst : ∀ i j, pro.lp.a i j ≠ 0 → pro.st i j = true)
    (hqp : pro.qmat = []) (hxp : pro.xmat = [])
    (hqe : ∀ k < exps.length, (blk exps k).qmat = [])
    (hxe : ∀ k < exps.length, (blk exps k).xmat = [])
    (S nz nd : ℕ) (acol : ℕ → ℕ) (bcol : ℕ → ℕ → ℕ)
    (hS : S ≤ pro.lp.nc) (hnz : ∀ k < exps.length, nz ≤ (blk exps k).lp.nc)
    (hacol : ∀ s < S, acol s < nd) (hbcol : ∀ k < exps.length, ∀ j < nz, bcol k j < nd)
    (hcols : ∀ (α : ℕ → K) (β : ℕ → ℕ → K), ∃ x : ℕ → K, (∀ s < S, x (acol s) = α s) ∧
      (∀ k < exps.length, ∀ j < nz, x (bcol k j) = β k j))
    (nV : ℕ) (vtx : ℕ → ℕ → ℕ → K) (f : ℕ → (ℕ → K) → K)
    (hconv : ∀ s < S, VtxConvex nz nV (vtx s) (f s))
    (hfeas : ∃ (w : ℕ → ℕ → K) (ζ : ℕ → K), (∀ s < S, ∀ i < nV, 0 ≤ w s i) ∧
      (mixSupport pro exps).Feas E ζ ∧
      Induces S exps.length nz nV vtx (fun k s => s ∈ idx exps k) (fun s => s)
        (fun k j => colOff pro exps k + j) w ζ) :
    (∃ v : ℕ → K,
      ((droRow pro exps S nz nd acol bcol).leToRc (mixSupport pro exps).coneDual).prog.Feas E v ∧
      (∀ s < S, ∀ z, Hull nz nV (vtx s) z →
        f s z ≤ v (acol s) + ∑ k ∈ range exps.length,
          if s ∈ idx exps k then ∑ j ∈ range nz, v (bcol k j) * z j else 0))
    ↔ (∀ (w : ℕ → ℕ → K) (ζ : ℕ → K), (∀ s < S, ∀ i < nV, 0 ≤ w s i) →
        (mixSupport pro exps).Feas E ζ →
        Induces S exps.length nz nV vtx (fun k s => s ∈ idx exps k) (fun s => s)
          (fun k j => colOff pro exps k + j) w ζ →
        ∑ s ∈ range S, ∑ i ∈ range nV, w s i * f s (vtx s i) ≤ 0) := by
  have hne : ∃ ζ, (mixSupport pro exps).Feas E ζ := by
    obtain ⟨w, ζ, _, hζ, _⟩ := hfeas; exact ⟨ζ, hζ⟩
  have hq := mix_qmat_nil pro exps hqp hqe
  have hx := mix_xmat_nil pro exps hxp hxe
  constructor
  · rintro ⟨v, hv, H2⟩ w ζ hw hζ hind
    have H1 := (dro_exact_compiled pro exps E hst hqp hxp hqe hxe S nz nd acol bcol hS hnz hacol
      hbcol hne v).mp ⟨v, fun _ _ => rfl, hv⟩ ζ hζ
    apply vertex_sound S exps.length nz nV vtx (fun k s => s ∈ idx exps k)
      (fun s i => f s (vtx s i)) (fun s => v (acol s)) (fun k j => v (bcol k j)) w hw
      (fun s hs i hi => H2 s hs _ (vtx_mem_hull nz nV (vtx s) i hi))
    have e1 : ∑ s ∈ range S, v (acol s) * pOf nV w s = ∑ s ∈ range S, v (acol s) * ζ s := by
      apply Finset.sum_congr rfl; intro s hs
      rw [hind.1 s (Finset.mem_range.mp hs)]
    have e2 : ∑ k ∈ range exps.length, ∑ j ∈ range nz,
          v (bcol k j) * muOf S nV vtx (fun k s => s ∈ idx exps k) w k j
        = ∑ k ∈ range exps.length, ∑ j ∈ range nz, v (bcol k j) * ζ (colOff pro exps k + j) := by
      apply Finset.sum_congr rfl; intro k hk
      apply Finset.sum_congr rfl; intro j hj
      rw [hind.2 k (Finset.mem_range.mp hk) j (Finset.mem_range.mp hj)]
    rw [e1, e2]
    exact H1
  · intro hworst
    obtain ⟨α, β, H2v, H1⟩ := dro_complete_vertex_lift S exps.length nz nV
      (mixSupport pro exps).lp.nc vtx (fun k s => s ∈ idx exps k) (fun s => s)
      (fun k j => colOff pro exps k + j) (mixSupport pro exps).lp.sysA (mixSupport pro exps).lp.sysB
      (by
        intro s hs
        have := pro_nc_le_colEnd pro exps
        show s < colEnd pro exps + 3 * (xsrc pro exps).length
        omega)
      (by
        intro k hk j hj
        have := colOff_add_le pro exps k hk
        have := hnz k hk
        show colOff pro exps k + j < colEnd pro exps + 3 * (xsrc pro exps).length
        omega)
      (fun s i => f s (vtx s i))
      (by
        obtain ⟨w, ζ, hw, hζ, hind⟩ := hfeas
        exact ⟨w, ζ, hw, (feas_iff_admL _ E hq hx ζ).mp hζ, hind⟩)
      (fun w ζ hw hζ hind => hworst w ζ hw ((feas_iff_admL _ E hq hx ζ).mpr hζ) hind)
    obtain ⟨x, hxa, hxb⟩ := hcols α β
    obtain ⟨v, hvd, hv⟩ := (dro_exact_compiled pro exps E hst hqp hxp hqe hxe S nz nd acol bcol hS
      hnz hacol hbcol hne x).mpr (by
        intro ζ hζ
        have := H1 ζ ((feas_iff_admL _ E hq hx ζ).mp hζ)
        have e1 : ∑ s ∈ range S, x (acol s) * ζ s = ∑ s ∈ range S, α s * ζ s := by
          apply Finset.sum_congr rfl; intro s hs
          rw [hxa s (Finset.mem_range.mp hs)]
        have e2 : ∑ k ∈ range exps.length, ∑ j ∈ range nz,
              x (bcol k j) * ζ (colOff pro exps k + j)
            = ∑ k ∈ range exps.length, ∑ j ∈ range nz, β k j * ζ (colOff pro exps k + j) := by
          apply Finset.sum_congr rfl; intro k hk
          apply Finset.sum_congr rfl; intro j hj
          rw [hxb k (Finset.mem_range.mp hk) j (Finset.mem_range.mp hj)]
        rw [e1, e2]
        exact this)
    refine ⟨v, hv, ?_⟩
    intro s hs z hz
    have h2 := hull_row exps.length nz nV (vtx s) (f s) (hconv s hs) (α s)
      (fun k => s ∈ idx exps k) β (H2v s hs) z hz
    have e1 : v (acol s) = α s := by rw [hvd _ (hacol s hs), hxa s hs]
    have e2 : ∑ k ∈ range exps.length,
          (if s ∈ idx exps k then ∑ j ∈ range nz, v (bcol k j) * z j else 0)
        = ∑ k ∈ range exps.length,
          (if s ∈ idx exps k then ∑ j ∈ range nz, β k j * z j else 0) := by
      apply Finset.sum_congr rfl; intro k hk
      have hk' := Finset.mem_range.mp hk
      by_cases hm : s ∈ idx exps k
      · rw [if_pos hm, if_pos hm]
        apply Finset.sum_congr rfl; intro j hj
        have hj' := Finset.mem_range.mp hj
        rw [hvd _ (hbcol k hk' j hj'), hxb k hk' j hj']
      · rw [if_neg hm, if_neg hm]
    rw [e1, e2]
    exact h2

/-! ### Example over `ℚ`: the instance of `RsomeV/Props/C04.lean`, section 5, through the model of the code

One scenario (`p_0 = 1`), one expectation set `-1/2 ≤ E(z) ≤ 1/2` on the whole sample space,
support `[-1, 1]`, integrand `|z| + z - c`; multiplier columns `α = v 0`, `β = v 1`. -/

/-- probability program of `p ≥ 0, p_0 = 1` (rows `-p_0 ≤ 0`, `p_0 = 1`) -/
def cxPro : ConeProg ℚ :=
  { lp := { nr := 2, nc := 1
            a := fun i _ => if i = 0 then -1 else 1
            b := fun i => if i = 0 then 0 else 1
            eq := fun i => decide (i = 1)
            ub := fun _ => none, lb := fun _ => none, c := fun _ => 1 }
    st := fun _ _ => true, qmat := [], xmat := [] }

/-- expectation program of `-1/2 ≤ E(z) ≤ 1/2` (rows `z ≤ 1/2`, `-z ≤ 1/2`) -/
def cxBnd : ConeProg ℚ :=
  { lp := { nr := 2, nc := 1
            a := fun i _ => if i = 0 then 1 else -1
            b := fun _ => 1/2
            eq := fun _ => false
            ub := fun _ => none, lb := fun _ => none, c := fun _ => 1 }
    st := fun _ _ => true, qmat := [], xmat := [] }

def cxExps : List (ConeProg ℚ × List ℕ) := [(cxBnd, [0])]

/-- the mixed support: columns `[p_0 | μ]`, rows `-p_0 ≤ 0`, `p_0 = 1`, `μ - p_0/2 ≤ 0`,
`-μ - p_0/2 ≤ 0` -/
def cxMix : ConeProg ℚ := mixSupport cxPro cxExps

lemma cxMix_nc : cxMix.lp.nc = 2 := by decide
lemma cxMix_nr : cxMix.lp.nr = 4 := by decide

lemma cxMix_row (ζ : ℕ → ℚ) :
    cxMix.lp.row 0 ζ = - ζ 0 ∧ cxMix.lp.row 1 ζ = ζ 0 ∧
    cxMix.lp.row 2 ζ = ζ 1 - 1/2 * ζ 0 ∧ cxMix.lp.row 3 ζ = - ζ 1 - 1/2 * ζ 0 := by
  have hk : (0:ℕ) < cxExps.length := by decide
  have e2 : rowOff cxPro cxExps 0 + 0 = 2 := by decide
  have e3 : rowOff cxPro cxExps 0 + 1 = 3 := by decide
  have b2 := mixA_blk cxPro cxExps 0 hk 0 (by decide)
  have b3 := mixA_blk cxPro cxExps 0 hk 1 (by decide)
  rw [e2] at b2
  rw [e3] at b3
  have hc : colOff cxPro cxExps 0 = 1 := by decide
  refine ⟨?_, ?_, ?_, ?_⟩
  · unfold LinProg.row; rw [cxMix_nc]
    show ∑ j ∈ range 2, mixA cxPro cxExps 0 j * ζ j = _
    simp only [mixA_pro cxPro cxExps 0 (by decide)]
    simp [Finset.sum_range_succ, cxPro]
  · unfold LinProg.row; rw [cxMix_nc]
    show ∑ j ∈ range 2, mixA cxPro cxExps 1 j * ζ j = _
    simp only [mixA_pro cxPro cxExps 1 (by decide)]
    simp [Finset.sum_range_succ, cxPro]
  · unfold LinProg.row; rw [cxMix_nc]
    show ∑ j ∈ range 2, mixA cxPro cxExps 2 j * ζ j = _
    simp only [b2, hc]
    simp [Finset.sum_range_succ, cxPro, cxExps, cxBnd, idx, blk]
    ring
  · unfold LinProg.row; rw [cxMix_nc]
    show ∑ j ∈ range 2, mixA cxPro cxExps 3 j * ζ j = _
    simp only [b3, hc]
    simp [Finset.sum_range_succ, cxPro, cxExps, cxBnd, idx, blk]
    ring


lemma cxMix_feas_iff (ζ : ℕ → ℚ) :
    cxMix.Feas (fun _ _ _ => False) ζ ↔
      (0 ≤ ζ 0 ∧ ζ 0 = 1 ∧ ζ 1 - 1/2 * ζ 0 ≤ 0 ∧ - ζ 1 - 1/2 * ζ 0 ≤ 0) := by
  obtain ⟨r0, r1, r2, r3⟩ := cxMix_row ζ
  have q0 : cxMix.lp.eq 0 = false := by decide
  have q1 : cxMix.lp.eq 1 = true := by decide
  have q2 : cxMix.lp.eq 2 = false := by decide
  have q3 : cxMix.lp.eq 3 = false := by decide
  have b0 : cxMix.lp.b 0 = 0 := by decide
  have b1 : cxMix.lp.b 1 = 1 := by decide
  have b2 : cxMix.lp.b 2 = 0 := by decide
  have b3 : cxMix.lp.b 3 = 0 := by decide
  constructor
  · intro hζ
    have h0 := hζ.lin.rows 0 (by rw [cxMix_nr]; norm_num)
    have h1 := hζ.lin.rows 1 (by rw [cxMix_nr]; norm_num)
    have h2 := hζ.lin.rows 2 (by rw [cxMix_nr]; norm_num)
    have h3 := hζ.lin.rows 3 (by rw [cxMix_nr]; norm_num)
    rw [q0, r0, b0] at h0
    rw [q1, r1, b1] at h1
    rw [q2, r2, b2] at h2
    rw [q3, r3, b3] at h3
    simp only [Bool.false_eq_true, if_false, if_true] at h0 h1 h2 h3
    exact ⟨by linarith, h1, h2, h3⟩
  · rintro ⟨h0, h1, h2, h3⟩
    refine ⟨⟨?_, fun _ _ => trivial, fun _ _ => trivial⟩, ?_, ?_⟩
    · intro i hi
      rw [cxMix_nr] at hi
      obtain rfl | rfl | rfl | rfl : i = 0 ∨ i = 1 ∨ i = 2 ∨ i = 3 := by omega
      · rw [q0, r0, b0]; simp only [Bool.false_eq_true, if_false]; linarith
      · rw [q1, r1, b1]; simp only [if_true]; exact h1
      · rw [q2, r2, b2]; simp only [Bool.false_eq_true, if_false]; exact h2
      · rw [q3, r3, b3]; simp only [Bool.false_eq_true, if_false]; exact h3
    · intro q hq
      have : cxMix.qmat = [] := by decide
      rw [this] at hq; simp at hq
    · intro e he
      have : cxMix.xmat = [] := by decide
      rw [this] at he; simp at he

lemma cx_hqe : ∀ k < cxExps.length, (blk cxExps k).qmat = [] := by
  intro k hk
  have : k = 0 := by simp [cxExps] at hk; omega
  subst this; rfl
lemma cx_hxe : ∀ k < cxExps.length, (blk cxExps k).xmat = [] := by
  intro k hk
  have : k = 0 := by simp [cxExps] at hk; omega
  subst this; rfl
lemma cx_hnz : ∀ k < cxExps.length, 1 ≤ (blk cxExps k).lp.nc := by
  intro k hk
  have : k = 0 := by simp [cxExps] at hk; omega
  subst this; decide
lemma cx_hcols : ∀ (α : ℕ → ℚ) (β : ℕ → ℕ → ℚ), ∃ x : ℕ → ℚ,
    (∀ s < 1, x ((fun _ => 0) s) = α s) ∧
    (∀ k < cxExps.length, ∀ j < 1, x ((fun _ _ => 1) k j) = β k j) := by
  intro α β
  refine ⟨fun d => if d = 0 then α 0 else β 0 0, ?_, ?_⟩
  · intro s hs
    have : s = 0 := by omega
    subst this; simp
  · intro k hk j hj
    have : k = 0 := by simp [cxExps] at hk; omega
    subst this
    have : j = 0 := by omega
    subst this; simp

/-- what `Induces` says on the instance -/
lemma cx_induces (w : ℕ → ℕ → ℚ) (ζ : ℕ → ℚ) :
    Induces 1 cxExps.length 1 2 exVtx (fun k s => s ∈ idx cxExps k) (fun s => s)
      (fun k j => colOff cxPro cxExps k + j) w ζ ↔
      (ζ 0 = w 0 0 + w 0 1 ∧ ζ 1 = - w 0 0 + w 0 1) := by
  have hl : cxExps.length = 1 := rfl
  have hc : colOff cxPro cxExps 0 + 0 = 1 := by decide
  have hm : (0:ℕ) ∈ idx cxExps 0 := by decide
  have e1 : pOf 2 w 0 = w 0 0 + w 0 1 := by simp [pOf, Finset.sum_range_succ]
  have e2 : muOf 1 2 exVtx (fun k s => s ∈ idx cxExps k) w 0 0 = - w 0 0 + w 0 1 := by
    simp [muOf, Finset.sum_range_succ, hm, exVtx]
  rw [hl]
  constructor
  · rintro ⟨h1, h2⟩
    have a := h1 0 (by norm_num)
    have b := h2 0 (by norm_num) 0 (by norm_num)
    beta_reduce at a b
    rw [hc] at b
    rw [e1] at a
    rw [e2] at b
    exact ⟨a, b⟩
  · rintro ⟨a, b⟩
    refine ⟨fun s hs => ?_, fun k hk j hj => ?_⟩
    · have : s = 0 := by omega
      subst this; rw [e1]; exact a
    · have : k = 0 := by omega
      subst this
      have : j = 0 := by omega
      subst this
      beta_reduce
      rw [hc, e2]; exact b

lemma cx_feas : ∃ (w : ℕ → ℕ → ℚ) (ζ : ℕ → ℚ), (∀ s < 1, ∀ i < 2, 0 ≤ w s i) ∧
    (mixSupport cxPro cxExps).Feas (fun _ _ _ => False) ζ ∧
    Induces 1 cxExps.length 1 2 exVtx (fun k s => s ∈ idx cxExps k) (fun s => s)
      (fun k j => colOff cxPro cxExps k + j) w ζ := by
  refine ⟨exW, fun c => if c = 0 then 1 else 1/2, ?_, (cxMix_feas_iff _).mpr ?_,
    (cx_induces _ _).mpr ?_⟩
  · intro s _ i _; unfold exW; split_ifs <;> norm_num
  · norm_num
  · norm_num [exW]

/-- **Non-vacuity of `dro_exact_end_to_end`** (`c = 3/2`, worst case `0`): all hypotheses hold on
the instance, the worst case over the admissible vertex distributions is `≤ 0`, hence the compiled
first-stage row and the scenario rows on `[-1, 1]` are simultaneously feasible -/
example : ∃ v : ℕ → ℚ,
    ((droRow cxPro cxExps 1 1 2 (fun _ => 0) (fun _ _ => 1)).leToRc
      (mixSupport cxPro cxExps).coneDual).prog.Feas (fun _ _ _ => False) v ∧
    (∀ s < 1, ∀ z, Hull 1 2 (exVtx s) z →
      exF (3/2) s z ≤ v 0 + ∑ k ∈ range cxExps.length,
        if s ∈ idx cxExps k then ∑ j ∈ range 1, v 1 * z j else 0) := by
  apply (dro_exact_end_to_end cxPro cxExps (fun _ _ _ => False) (fun _ _ _ => rfl) rfl rfl cx_hqe
    cx_hxe 1 1 2 (fun _ => 0) (fun _ _ => 1) (by decide) cx_hnz (by intro s _; norm_num)
    (by intro k _ j _; norm_num) cx_hcols 2 exVtx (exF (3/2)) (exF_convex (3/2)) cx_feas).mpr
  intro w ζ hw hζ hind
  obtain ⟨_, z1, z2, _⟩ := (cxMix_feas_iff ζ).mp hζ
  obtain ⟨i1, i2⟩ := (cx_induces w ζ).mp hind
  simp only [Finset.sum_range_succ, Finset.sum_range_zero, zero_add, exF_v0, exF_v1]
  linarith

/-- `c = 1` (worst case `1/2 > 0`): the compiled system is infeasible -/
example : ¬ ∃ v : ℕ → ℚ,
    ((droRow cxPro cxExps 1 1 2 (fun _ => 0) (fun _ _ => 1)).leToRc
      (mixSupport cxPro cxExps).coneDual).prog.Feas (fun _ _ _ => False) v ∧
    (∀ s < 1, ∀ z, Hull 1 2 (exVtx s) z →
      exF 1 s z ≤ v 0 + ∑ k ∈ range cxExps.length,
        if s ∈ idx cxExps k then ∑ j ∈ range 1, v 1 * z j else 0) := by
  intro hex
  have h := (dro_exact_end_to_end cxPro cxExps (fun _ _ _ => False) (fun _ _ _ => rfl) rfl rfl
    cx_hqe cx_hxe 1 1 2 (fun _ => 0) (fun _ _ => 1) (by decide) cx_hnz (by intro s _; norm_num)
    (by intro k _ j _; norm_num) cx_hcols 2 exVtx (exF 1) (exF_convex 1) cx_feas).mp hex
    exW (fun c => if c = 0 then 1 else 1/2)
    (by intro s _ i _; unfold exW; split_ifs <;> norm_num)
    ((cxMix_feas_iff _).mpr (by norm_num))
    ((cx_induces _ _).mpr (by norm_num [exW]))
  simp only [Finset.sum_range_succ, Finset.sum_range_zero, zero_add, exF_v0, exF_v1] at h
  norm_num [exW] at h

end RsomeV.C04
