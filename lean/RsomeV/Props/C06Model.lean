import RsomeV.L.DetModel
import RsomeV.Props.AtomsSoc
import RsomeV.Props.AtomsExp
import RsomeV.Props.IPCone
import Mathlib.Tactic.IntervalCases
import Mathlib.Tactic.NormNum

/-! # The whole deterministic formulation `do_math()` : several atoms, rows, bounds, an objective

Model: `RsomeV/M/DetModel.lean` (`detModel D` = the program `gcp / socp / lp .Model.do_math()` returns for
the description `D`: user columns with their types, the ordered list of objects passed to `st` — rows,
`Bounds`, atoms of every xtype the per-atom models cover — and an affine or atom objective), tied to
rsome's code by `test_det_model.py` (entry-by-entry comparison of `nr nc a b eq ub lb c vtype qmat xmat`
with the real `do_math()` on random models built through `ro.Model`, `gcp.Model`, `socp.Model`,
`lp.Model`).

Theorems (over `ℝ`, `realExpCone` the closed exponential cone):

* `det_model_sound`   : every feasible point `v` of `detModel D` satisfies — on the user columns —
  every row, every bound, every atom inequality `k·f(Ain·x+bin) + (Aout·x+bout) ≤ 0` and the epigraph
  inequality of the objective (`D.Sem v`; all of these only read the columns `< D.ncols`);
* `det_model_complete`: every user point `x` with `D.Sem x` extends to a feasible `v` with the same
  user columns (in particular the same epigraph column, i.e. the same objective value `P.lp.obj v = x 0`).

Further: `det_model_total` (a well-formed description always compiles: the `detModel D = some P`
hypotheses are satisfiable), `det_model_cols` (`P.lp.obj v = v 0`), `det_vtype` / `det_vtype_length`
(the `vtype` string is the user's letters followed by one `C` per auxiliary column), and concrete
instances at the end (row + bound + 2-norm atom + exp atom; the doubled rows of an `abs` objective;
an objective atom the model class silently ignores).

Both main theorems are obtained by COMPOSING the per-atom theorems of `Props/AtomsSoc.lean` (`abs_sound`, … on the
stand-alone program of the atom re-read at its column offset), `Props/IPCone.lean`
(`pnorm_stdform_sound`, … : the stand-alone program at the offset is rebuilt from / projected to the
whole model by `IPC.std_feas_of_whole`, `IPC.whole_of_std_feas`) and `Props/AtomsExp.lean`
(`encodeAtoms_sound` / `encodeAtoms_complete` for the whole gcp layer), by induction over the lists of
constraints of every layer (`foldl_addSoc_*`, `ipcLoop_*`, `addPend_*` in `L/DetModel.lean`): the
auxiliary blocks are column-disjoint, every recorded row / bound / cone only mentions columns created
before it (`St.WF`).

Well-formedness hypotheses (`Desc.WF`): at least the epigraph column; rows, bounds and atom data only
mention user columns; repeated indices of one `Bounds` object carry equal values; stored multipliers of
A / M / I / C atoms are `≥ 0` (rsome stores `abs(k)`), exp-type atoms satisfy `AExp.Atom.Ok`; valid
tower parameters; every atom is of a kind the model class `D.top` handles (`DAtom.layer ≤ D.top`:
e.g. `socp.Model` silently IGNORES an exp-type objective, `lp.Model` an `E` objective — outside the
hypothesis the emitted program does not constrain the epigraph column at all).
Completeness additionally needs integer degree for `G` (`pnorm` with a rational degree `a/b`: only
soundness, the per-atom completeness theorem is relative to the root-free system). -/

set_option linter.unusedSectionVars false
set_option linter.unusedSimpArgs false
set_option linter.unusedVariables false

namespace RsomeV.C06Model
open Finset RsomeV RsomeV.Det

/-! ## semantics of the atoms (the right-hand sides of the per-atom theorems) -/

section Soc
variable {K : Type} [Field K] [LinearOrder K] [IsStrictOrderedRing K]

/-- the user's inequality `k·f(Ain·x+bin) + (Aout·x+bout) ≤ 0` of an A / M / I / E / S / Q atom,
root-free (`A.k` is the stored multiplier: for S, Q the square root of the user's factor) -/
def socSem (xt : XType) (A : AtomIn K) (v : ℕ → K) : Prop :=
  match xt with
  | .A => ∀ i < A.r, A.k * |A.inv v i| + A.outv v i ≤ 0
  | .M => A.k * ∑ i ∈ range A.r, |A.inv v i| + A.outv v 0 ≤ 0
  | .I => ∀ i < A.r, A.k * |A.inv v i| + A.outv v 0 ≤ 0
  | .E => A.outv v 0 ≤ 0 ∧ ∑ i ∈ range A.r, (A.k * A.inv v i) ^ 2 ≤ A.outv v 0 ^ 2
  | .S => ∀ i < A.r, (A.k * A.inv v i) ^ 2 + A.outv v i ≤ 0
  | .Q => ∑ i ∈ range A.r, (A.k * A.inv v i) ^ 2 + A.outv v 0 ≤ 0

/-- the six `…_sound` theorems of `Props/AtomsSoc.lean` -/
theorem soc_sound (xt : XType) (A : AtomIn K) (hk : xt ∈ [XType.A, .M, .I] → 0 ≤ A.k)
    (Ex : K → K → K → Prop) (w : ℕ → K) (h : (encodeAtom xt A).prog.Feas Ex w) : socSem xt A w := by
  cases xt
  · exact AtomsSoc.abs_sound A (hk (by simp)) Ex w h
  · exact AtomsSoc.norm1_sound A (hk (by simp)) Ex w h
  · exact AtomsSoc.norminf_sound A (hk (by simp)) Ex w h
  · exact AtomsSoc.norm2_sound A Ex w h
  · exact AtomsSoc.square_sound A Ex w h
  · exact AtomsSoc.sumsqr_sound A Ex w h

/-- the six `…_complete` theorems of `Props/AtomsSoc.lean` -/
theorem soc_complete (xt : XType) (A : AtomIn K) (hk : xt ∈ [XType.A, .M, .I] → 0 ≤ A.k)
    (Ex : K → K → K → Prop) (v : ℕ → K) (h : socSem xt A v) :
    ∃ w, (∀ j < A.n, w j = v j) ∧ (encodeAtom xt A).prog.Feas Ex w := by
  cases xt
  · exact AtomsSoc.abs_complete A (hk (by simp)) Ex v h
  · exact AtomsSoc.norm1_complete A (hk (by simp)) Ex v h
  · exact AtomsSoc.norminf_complete A (hk (by simp)) Ex v h
  · exact AtomsSoc.norm2_complete A Ex v h
  · exact AtomsSoc.square_complete A Ex v h
  · exact AtomsSoc.sumsqr_complete A Ex v h

/-- re-reading the atom over more columns does not change its meaning -/
lemma socSem_at (xt : XType) (A : AtomIn K) (b : ℕ) (hb : A.n ≤ b) (v : ℕ → K) :
    socSem xt (A.at b) v ↔ socSem xt A v := by
  cases xt <;> simp only [socSem, at_inv A b hb, at_outv A b hb, at_k, at_r]

/-- the meaning only reads the user columns -/
lemma socSem_congr (xt : XType) (A : AtomIn K) (w v : ℕ → K) (h : ∀ j < A.n, w j = v j) :
    socSem xt A w ↔ socSem xt A v := by
  cases xt <;> simp only [socSem, A.inv_congr w v h, A.outv_congr w v h]

end Soc

/-! ### G / T / C -/

/-- the user's inequality of a G / T / C atom in terms of the values `inV j` of `affine_in`, `outV i` of
`affine_out` (`len` = size of `affine_in`), in the root-free forms of `Props/IPCone.lean`:
* 'G' integer degree `p = c+1` (`β = [1, c]`): `0 ≤ -out ∧ Σ_j |k·in_j|^p ≤ (-out)^p`;
  rational degree `(b+c)/b` (`β = [b, c]`, `b ≠ 1`): the same with real powers;
* 'T': for every element `(idx, p, q)`: `0 ≤ -out_i/k ∧ |in_idx|^p ≤ (-out_i/k)^q`;
* 'C': `in_i ≥ 0` and `out ≤ 0 ∨ out^Σβ ≤ k^Σβ·Π in_i^β_i`. -/
noncomputable def ipcSemV (k : ℝ) (len : ℕ) (inV outV : ℕ → ℝ) : IPC.Params → Prop
  | .g [b, c] =>
    if b = 1 then 0 ≤ -(outV 0) ∧ ∑ j ∈ range len, |k * inV j| ^ (c + 1) ≤ (-(outV 0)) ^ (c + 1)
    else 0 ≤ -(outV 0) ∧
      ∑ j ∈ range len, |k * inV j| ^ (((b + c : ℕ) : ℝ) / b) ≤ (-(outV 0)) ^ (((b + c : ℕ) : ℝ) / b)
  | .g _ => True
  | .t items => ∀ (i : ℕ) (hi : i < items.length),
      0 ≤ -(1 / k * outV i) ∧ |inV items[i].1| ^ items[i].2.1 ≤ (-(1 / k * outV i)) ^ items[i].2.2
  | .c β => (∀ i < β.length, 0 ≤ inV i) ∧
      (outV 0 ≤ 0 ∨ (outV 0) ^ β.sum ≤ k ^ β.sum * ∏ i ∈ range β.length, (inV i) ^ β.getD i 0)

/-- … read on the `n` user columns of the point `v` -/
noncomputable def ipcSem (n : ℕ) (a : IpcAtom ℝ) (v : ℕ → ℝ) : Prop :=
  ipcSemV a.1 a.2.1.length (fun j => (a.2.1.getD j (IPC.Aff.const 0)).ev n v)
    (fun i => (a.2.2.1.getD i (IPC.Aff.const 0)).ev n v) a.2.2.2

/-- the stored multiplier of a 'C' atom is `≥ 0` (rsome stores `abs(k)`) -/
def ipcK (a : IpcAtom ℝ) : Prop :=
  match a.2.2.2 with
  | .c _ => 0 ≤ a.1
  | _ => True

/-- 'G' with an integer degree -/
def ipcInt (a : IpcAtom ℝ) : Prop :=
  match a.2.2.2 with
  | .g β => ∃ c, β = [1, c]
  | _ => True

/-- the meaning only reads the user columns, whatever the number of columns it is read on -/
lemma ipcSem_congr {n b : ℕ} {a : IpcAtom ℝ} (hok : IpcOK n a) (hb : n ≤ b) {v v' : ℕ → ℝ}
    (hv : ∀ j < n, v' j = v j) : ipcSem b a v ↔ ipcSem n a v' := by
  have e1 : (fun j => (a.2.1.getD j (IPC.Aff.const 0)).ev b v) =
      fun j => (a.2.1.getD j (IPC.Aff.const 0)).ev n v' := by
    funext j; exact IPC.ev_N (IPC.getD_userOnly hok.1 j) hb le_rfl hv
  have e2 : (fun i => (a.2.2.1.getD i (IPC.Aff.const 0)).ev b v) =
      fun i => (a.2.2.1.getD i (IPC.Aff.const 0)).ev n v' := by
    funext j; exact IPC.ev_N (IPC.getD_userOnly hok.2.1 j) hb le_rfl hv
  simp only [ipcSem, e1, e2]

/-- the `…_stdform_sound` theorems of `Props/IPCone.lean` -/
theorem ipc_sound (b : ℕ) (a : IpcAtom ℝ) (hok : IpcOK b a) (hk : ipcK a) {P : ConeProg ℝ}
    (h : IPC.atomEncode b a.1 a.2.1 a.2.2.1 a.2.2.2 = some P) (E : ℝ → ℝ → ℝ → Prop) (v : ℕ → ℝ)
    (hf : P.Feas E v) : ipcSem b a v := by
  obtain ⟨k, ain, aout, pr⟩ := a
  obtain ⟨hin, hout, hpr⟩ := hok
  cases pr with
  | g β =>
    obtain ⟨hne, hpos⟩ := hpr
    rcases β with _ | ⟨b', _ | ⟨c, _ | ⟨d, t⟩⟩⟩
    · simp [ipcSem, ipcSemV]
    · simp [ipcSem, ipcSemV]
    · have hb' : 1 ≤ b' := hpos b' (by simp)
      have hc : 1 ≤ c := hpos c (by simp)
      simp only [ipcSem, ipcSemV]
      by_cases h1 : b' = 1
      · subst h1
        rw [if_pos rfl]
        exact IPC.pnorm_stdform_sound (p := c + 1) (by omega) hin hout h E v hf
      · rw [if_neg h1]
        exact IPC.pnorm_stdform_sound_real hb' hc hin hout h E v hf
    · simp [ipcSem, ipcSemV]
  | t items =>
    simp only [ipcSem, ipcSemV]
    intro i hi
    exact IPC.power_stdform_sound hin hout hpr h E v hf i hi
  | c β =>
    obtain ⟨hne, hpos⟩ := hpr
    have hk' : 0 ≤ k := hk
    obtain ⟨s1, s2⟩ := IPC.gmean_stdform_sound hk' hne hpos hin hout h E v hf
    simp only [ipcSem, ipcSemV]
    refine ⟨s1, ?_⟩
    rcases le_or_gt ((aout.getD 0 (IPC.Aff.const 0)).ev b v) 0 with h0 | h0
    · exact Or.inl h0
    · exact Or.inr (s2 (le_of_lt h0))

/-- the `…_stdform_complete` theorems of `Props/IPCone.lean` ('G': integer degree) -/
theorem ipc_complete (b : ℕ) (a : IpcAtom ℝ) (hok : IpcOK b a) (hk : ipcK a) (hint : ipcInt a)
    {P : ConeProg ℝ} (h : IPC.atomEncode b a.1 a.2.1 a.2.2.1 a.2.2.2 = some P)
    (E : ℝ → ℝ → ℝ → Prop) (v0 : ℕ → ℝ) (hs : ipcSem b a v0) :
    ∃ v : ℕ → ℝ, (∀ j < b, v j = v0 j) ∧ P.Feas E v := by
  obtain ⟨k, ain, aout, pr⟩ := a
  obtain ⟨hin, hout, hpr⟩ := hok
  cases pr with
  | g β =>
    obtain ⟨hne, hpos⟩ := hpr
    obtain ⟨c, rfl⟩ := hint
    have hc : 1 ≤ c := hpos c (by simp)
    simp only [ipcSem, ipcSemV, if_true] at hs
    exact IPC.pnorm_stdform_complete (p := c + 1) (by omega) hin hout h E v0 hs.1 hs.2
  | t items =>
    simp only [ipcSem, ipcSemV] at hs
    exact IPC.power_stdform_complete hin hout hpr h E v0 hs
  | c β =>
    obtain ⟨hne, hpos⟩ := hpr
    have hk' : 0 ≤ k := hk
    simp only [ipcSem, ipcSemV] at hs
    exact IPC.gmean_stdform_complete hk' hne hpos hin hout h E v0 hs.1 hs.2

/-! ## semantics and well-formedness of a description -/

/-- the user's inequality of an atom, read on the `n` user columns of `v` -/
noncomputable def _root_.RsomeV.Det.DAtom.Sem (n : ℕ) (v : ℕ → ℝ) : DAtom ℝ → Prop
  | .soc xt A => socSem xt A v
  | .ipc k ain aout pr => ipcSem n (k, ain, aout, pr) v
  | .exp a => a.Sem n v

/-- the lowest model class that acts on the atom: 0 `lp.Model` (A, M, I), 1 `socp.Model`
(E, S, Q, G, T, C), 2 `gcp.Model` (exp-type) -/
def _root_.RsomeV.Det.DAtom.layer : DAtom ℝ → ℕ
  | .soc xt _ => if xt ∈ [XType.A, .M, .I] then 0 else 1
  | .ipc _ _ _ _ => 1
  | .exp _ => 2

/-- side conditions of the per-atom theorems -/
def _root_.RsomeV.Det.DAtom.WF (n : ℕ) : DAtom ℝ → Prop
  | .soc xt A => A.n = n ∧ (xt ∈ [XType.A, .M, .I] → 0 ≤ A.k)
  | .ipc k ain aout pr => IpcOK n (k, ain, aout, pr) ∧ ipcK (k, ain, aout, pr)
  | .exp a => a.Ok n

/-- 'G' atoms have an integer degree (needed for completeness only) -/
def _root_.RsomeV.Det.DAtom.IntDeg : DAtom ℝ → Prop
  | .ipc k ain aout pr => ipcInt (k, ain, aout, pr)
  | _ => True

/-- what one object passed to `st` demands of the user point -/
noncomputable def _root_.RsomeV.Det.Item.Sem (n : ℕ) (v : ℕ → ℝ) : Item ℝ → Prop
  | .row r => r.Holds n v
  | .bound b => ∀ p ∈ b.entries, if b.upper then v p.1 ≤ p.2 else p.2 ≤ v p.1
  | .atom a => a.Sem n v

/-- the epigraph inequality `sign * objective ≤ t` (`t` = column 0); for an atom objective it is the
inequality of the atom with `affine_out` replaced by `sign * affine_out - t` -/
noncomputable def _root_.RsomeV.Det.Desc.objSem (D : Desc ℝ) (x : ℕ → ℝ) : Prop :=
  match D.obj with
  | .none => True
  | .affine sg lin c => sg * (∑ j ∈ range D.ncols, lin j * x j + c) ≤ x 0
  | .atom sg a => (a.epi sg).Sem D.ncols x

/-- **the user's model at the point `x`**: every row, bound and atom inequality, and the objective
bound; only the columns `< D.ncols` of `x` are read -/
noncomputable def _root_.RsomeV.Det.Desc.Sem (D : Desc ℝ) (x : ℕ → ℝ) : Prop :=
  (∀ it ∈ D.items, it.Sem D.ncols x) ∧ D.objSem x

/-- **well-formedness of a description** -/
structure _root_.RsomeV.Det.Desc.WF (D : Desc ℝ) : Prop where
  /-- the epigraph column exists -/
  ncols : 1 ≤ D.ncols
  /-- rows only mention user columns -/
  rows : ∀ r ∈ D.linRows, ∀ j, D.ncols ≤ j → r.lin j = 0
  /-- repeated indices inside one `Bounds` object carry equal values -/
  bcons : ∀ b ∈ D.userBounds, b.Consistent
  /-- bounds address user columns -/
  bidx : ∀ b ∈ D.userBounds, ∀ p ∈ b.entries, p.1 < D.ncols
  /-- every atom (the objective constraint included) satisfies the side conditions of its per-atom
  theorem and is of a kind the model class acts on -/
  atoms : ∀ a ∈ D.atoms ++ D.objAtom, a.WF D.ncols ∧ a.layer ≤ D.top
  /-- an affine objective only mentions user columns -/
  objLin : ∀ r ∈ D.objRows, ∀ j, D.ncols ≤ j → r.lin j = 0

/-! ### routing -/

section Routing
variable {D : Desc ℝ}

lemma expOf_eq_some {d : DAtom ℝ} {a : AExp.Atom ℝ} : expOf d = some a ↔ d = .exp a := by
  cases d <;> simp [expOf]

lemma ipcOf_eq_some {d : DAtom ℝ} {a : IpcAtom ℝ} :
    ipcOf d = some a ↔ d = .ipc a.1 a.2.1 a.2.2.1 a.2.2.2 := by
  obtain ⟨k, ain, aout, pr⟩ := a
  cases d <;> simp [ipcOf]

lemma socOf_eq_some {xts : List XType} {d : DAtom ℝ} {p : XType × AtomIn ℝ} :
    socOf xts d = some p ↔ d = .soc p.1 p.2 ∧ p.1 ∈ xts := by
  obtain ⟨xt, A⟩ := p
  cases d with
  | soc xt' A' =>
    simp only [socOf]
    by_cases h : xt' ∈ xts
    · rw [if_pos h]
      simp only [Option.some.injEq, Prod.mk.injEq, DAtom.soc.injEq]
      constructor
      · rintro ⟨rfl, rfl⟩; exact ⟨⟨rfl, rfl⟩, h⟩
      · rintro ⟨⟨rfl, rfl⟩, _⟩; exact ⟨rfl, rfl⟩
    · rw [if_neg h]
      simp only [DAtom.soc.injEq, false_iff, not_and, reduceCtorEq]
      rintro ⟨rfl, rfl⟩; exact h
  | ipc _ _ _ _ => simp [socOf]
  | exp _ => simp [socOf]

lemma mem_expAtoms_sub {a : AExp.Atom ℝ} (h : a ∈ D.expAtoms) :
    DAtom.exp a ∈ D.atoms ++ D.objAtom := by
  simp only [Desc.expAtoms, List.mem_append] at h ⊢
  rcases h with h | h
  · obtain ⟨d, hd, he⟩ := List.mem_filterMap.mp h
    rw [expOf_eq_some] at he; subst he; exact Or.inl hd
  · split_ifs at h
    · obtain ⟨d, hd, he⟩ := List.mem_filterMap.mp h
      rw [expOf_eq_some] at he; subst he; exact Or.inr hd
    · simp at h

lemma mem_expAtoms_of {a : AExp.Atom ℝ} (h : DAtom.exp a ∈ D.atoms ++ D.objAtom)
    (hl : (DAtom.exp a).layer ≤ D.top) : a ∈ D.expAtoms := by
  have htop : 2 ≤ D.top := hl
  simp only [Desc.expAtoms, List.mem_append, if_pos htop]
  rcases List.mem_append.mp h with h | h
  · exact Or.inl (List.mem_filterMap.mpr ⟨_, h, expOf_eq_some.mpr rfl⟩)
  · exact Or.inr (List.mem_filterMap.mpr ⟨_, h, expOf_eq_some.mpr rfl⟩)

lemma mem_ipcAtoms_sub {a : IpcAtom ℝ} (h : a ∈ D.ipcAtoms) :
    DAtom.ipc a.1 a.2.1 a.2.2.1 a.2.2.2 ∈ D.atoms ++ D.objAtom := by
  simp only [Desc.ipcAtoms, List.mem_append] at h ⊢
  rcases h with h | h
  · obtain ⟨d, hd, he⟩ := List.mem_filterMap.mp h
    rw [ipcOf_eq_some] at he; subst he; exact Or.inl hd
  · split_ifs at h
    · obtain ⟨d, hd, he⟩ := List.mem_filterMap.mp h
      rw [ipcOf_eq_some] at he; subst he; exact Or.inr hd
    · simp at h

lemma mem_ipcAtoms_of {a : IpcAtom ℝ} (h : DAtom.ipc a.1 a.2.1 a.2.2.1 a.2.2.2 ∈ D.atoms ++ D.objAtom)
    (hl : (DAtom.ipc a.1 a.2.1 a.2.2.1 a.2.2.2).layer ≤ D.top) : a ∈ D.ipcAtoms := by
  have htop : 1 ≤ D.top := hl
  simp only [Desc.ipcAtoms, List.mem_append, if_pos htop]
  rcases List.mem_append.mp h with h | h
  · exact Or.inl (List.mem_filterMap.mpr ⟨_, h, ipcOf_eq_some.mpr rfl⟩)
  · exact Or.inr (List.mem_filterMap.mpr ⟨_, h, ipcOf_eq_some.mpr rfl⟩)

lemma mem_cvxAtoms_sub {p : XType × AtomIn ℝ} (h : p ∈ D.cvxAtoms) :
    DAtom.soc p.1 p.2 ∈ D.atoms ++ D.objAtom := by
  simp only [Desc.cvxAtoms, List.mem_append] at h ⊢
  rcases h with h | h
  · obtain ⟨d, hd, he⟩ := List.mem_filterMap.mp h
    obtain ⟨rfl, _⟩ := socOf_eq_some.mp he
    exact Or.inl hd
  · split_ifs at h
    · obtain ⟨d, hd, he⟩ := List.mem_filterMap.mp h
      obtain ⟨rfl, _⟩ := socOf_eq_some.mp he
      exact Or.inr hd
    · simp at h

lemma mem_pwsAtoms_sub {p : XType × AtomIn ℝ} (h : p ∈ D.pwsAtoms) :
    DAtom.soc p.1 p.2 ∈ D.atoms ++ D.objAtom := by
  simp only [Desc.pwsAtoms, ← List.filterMap_append] at h
  obtain ⟨d, hd, he⟩ := List.mem_filterMap.mp h
  obtain ⟨rfl, _⟩ := socOf_eq_some.mp he
  exact hd

/-- every A / M / I / E / S / Q atom the model class acts on is encoded by the socp or the lp layer -/
lemma soc_covered {xt : XType} {A : AtomIn ℝ} (h : DAtom.soc xt A ∈ D.atoms ++ D.objAtom)
    (hl : (DAtom.soc xt A).layer ≤ D.top) : (xt, A) ∈ D.cvxAtoms ∨ (xt, A) ∈ D.pwsAtoms := by
  by_cases hx : xt ∈ [XType.A, .M, .I]
  · right
    simp only [Desc.pwsAtoms, ← List.filterMap_append]
    exact List.mem_filterMap.mpr ⟨_, h, socOf_eq_some.mpr ⟨rfl, hx⟩⟩
  · left
    have hx' : xt ∈ [XType.E, .S, .Q] := by cases xt <;> simp at hx ⊢
    have hx'' : xt ∈ [XType.E, .S, .Q, .A] := by cases xt <;> simp at hx ⊢
    have htop : 1 ≤ D.top := by simpa [DAtom.layer, hx] using hl
    simp only [Desc.cvxAtoms, List.mem_append]
    rcases List.mem_append.mp h with h | h
    · exact Or.inl (List.mem_filterMap.mpr ⟨_, h, socOf_eq_some.mpr ⟨rfl, hx'⟩⟩)
    · right
      rw [if_pos htop]
      exact List.mem_filterMap.mpr ⟨_, h, socOf_eq_some.mpr ⟨rfl, hx''⟩⟩

lemma sem_items_iff (n : ℕ) (x : ℕ → ℝ) :
    (∀ it ∈ D.items, it.Sem n x) ↔
      (∀ r ∈ D.linRows, r.Holds n x) ∧
      (∀ b ∈ D.userBounds, ∀ p ∈ b.entries, if b.upper then x p.1 ≤ p.2 else p.2 ≤ x p.1) ∧
      (∀ a ∈ D.atoms, a.Sem n x) := by
  constructor
  · intro h
    refine ⟨fun r hr => ?_, fun b hb => ?_, fun a ha => ?_⟩
    · obtain ⟨it, hit, he⟩ := List.mem_filterMap.mp hr
      cases it <;> simp at he
      subst he; exact h _ hit
    · obtain ⟨it, hit, he⟩ := List.mem_filterMap.mp hb
      cases it <;> simp at he
      subst he; exact h _ hit
    · obtain ⟨it, hit, he⟩ := List.mem_filterMap.mp ha
      cases it <;> simp at he
      subst he; exact h _ hit
  · rintro ⟨h1, h2, h3⟩ it hit
    cases it with
    | row r => exact h1 r (List.mem_filterMap.mpr ⟨_, hit, rfl⟩)
    | bound b => exact h2 b (List.mem_filterMap.mpr ⟨_, hit, rfl⟩)
    | atom a => exact h3 a (List.mem_filterMap.mpr ⟨_, hit, rfl⟩)

/-- the objective bound in terms of the objective row / the objective constraint -/
lemma objSem_iff (hn : 1 ≤ D.ncols) (x : ℕ → ℝ) :
    D.objSem x ↔ (∀ r ∈ D.objRows, r.Holds D.ncols x) ∧ ∀ a ∈ D.objAtom, a.Sem D.ncols x := by
  unfold Desc.objSem Desc.objRows Desc.objAtom
  cases D.obj with
  | none => simp
  | affine sg lin c =>
    have e : ∑ j ∈ range D.ncols, (sg * lin j - if j = 0 then 1 else 0) * x j =
        sg * ∑ j ∈ range D.ncols, lin j * x j - x 0 := by
      simp only [sub_mul, Finset.sum_sub_distrib, mul_assoc, ← Finset.mul_sum, ite_mul, one_mul,
        zero_mul]
      rw [Finset.sum_ite_eq' (range D.ncols) 0]
      simp [show 0 < D.ncols by omega]
    simp only [List.forall_mem_singleton, AExp.ERow.Holds, Bool.false_eq_true, if_false, e,
      List.not_mem_nil, false_imp_iff, implies_true, and_true]
    constructor <;> intro h <;> linarith
  | atom sg a => simp

end Routing

/-! ### the objective constraint of an A / M / I / E / S / Q objective, spelled out -/

/-- `affine_out` of the objective constraint: `sign * affine_out - t` -/
def epiIn (sg : ℝ) (A : AtomIn ℝ) : AtomIn ℝ :=
  { A with aout := fun i j => sg * A.aout i j - (if j = 0 then 1 else 0)
           bout := fun i => sg * A.bout i }

lemma epi_soc (sg : ℝ) (xt : XType) (A : AtomIn ℝ) :
    (DAtom.soc xt A).epi sg = .soc xt (epiIn sg A) := rfl

lemma epiIn_inv (sg : ℝ) (A : AtomIn ℝ) (v : ℕ → ℝ) (i : ℕ) : (epiIn sg A).inv v i = A.inv v i := rfl

/-- the objective bound of e.g. `min k·‖Ain·x+bin‖₁ + out(x)` is `k·‖Ain·x+bin‖₁ + (out(x) - t) ≤ 0` -/
lemma epiIn_outv (sg : ℝ) (A : AtomIn ℝ) (hn : 0 < A.n) (v : ℕ → ℝ) (i : ℕ) :
    (epiIn sg A).outv v i = sg * A.outv v i - v 0 := by
  simp only [AtomIn.outv, epiIn, sub_mul, Finset.sum_sub_distrib, mul_assoc, ← Finset.mul_sum,
    ite_mul, one_mul, zero_mul]
  rw [Finset.sum_ite_eq' (range A.n) 0]
  simp only [Finset.mem_range, hn, if_true]
  ring

/-! ## the layers -/

section Layers
variable (D : Desc ℝ)

lemma exps_ok (hwf : D.WF) : ∀ a ∈ D.expAtoms, a.Ok D.ncols :=
  fun a ha => (hwf.atoms _ (mem_expAtoms_sub ha)).1

lemma exps_wf (hwf : D.WF) : D.exps.WF :=
  AExp.encodeAtoms_wf D.ncols D.expAtoms
    (fun a ha b hb => AExp.frag_wf D.ncols b hb a (exps_ok D hwf a ha).wfReq)

lemma expNc_eq : D.expNc = D.exps.nc := rfl

lemma ncols_le_expNc : D.ncols ≤ D.expNc :=
  le_trans (AExp.encodeAtoms_base_ge D.ncols D.expAtoms) D.exps.base_le_nc

lemma ipcs_ok (hwf : D.WF) : ∀ a ∈ D.ipcAtoms, IpcOK D.ncols a :=
  fun a ha => (hwf.atoms _ (mem_ipcAtoms_sub ha)).1.1

/-- the states of `Desc.tail`, named -/
noncomputable def s2 (l : ℕ) (rows : List (IPC.Row ℝ)) : St ℝ := ⟨l, D.exps.allRows ++ rows.map ofIpcRow, [], []⟩
noncomputable def s3 (l : ℕ) (rows : List (IPC.Row ℝ)) : St ℝ := D.cvxAtoms.foldl St.addSoc (s2 D l rows)
noncomputable def s4 (l : ℕ) (rows : List (IPC.Row ℝ)) (pend : List (IPC.Pend ℝ)) : St ℝ := (s3 D l rows).addPend pend
noncomputable def s5 (l : ℕ) (rows : List (IPC.Row ℝ)) (pend : List (IPC.Pend ℝ)) : St ℝ :=
  { s4 D l rows pend with rows := (s4 D l rows pend).rows ++ D.objRows }

lemma tail_eq (l : ℕ) (rows : List (IPC.Row ℝ)) (pend : List (IPC.Pend ℝ)) :
    D.tail l rows pend = D.pwsAtoms.foldl St.addSoc (s5 D l rows pend) := rfl

/-- bookkeeping of one run of the socp and lp layers: column counts only grow, every state is
well formed -/
lemma tail_facts (hwf : D.WF) {l : ℕ} {rows : List (IPC.Row ℝ)} {pend : List (IPC.Pend ℝ)}
    (hl : ipcLoop D.expNc D.ipcAtoms = some (l, rows, pend)) :
    D.expNc ≤ l ∧ l ≤ (s3 D l rows).last ∧ (s3 D l rows).last ≤ (s4 D l rows pend).last ∧
    (s4 D l rows pend).last ≤ (D.tail l rows pend).last ∧
    (s2 D l rows).WF ∧ (s3 D l rows).WF ∧ (s4 D l rows pend).WF ∧ (s5 D l rows pend).WF ∧
    (D.tail l rows pend).WF ∧ (∀ p ∈ pend, p.Supp (s3 D l rows).last) := by
  obtain ⟨h1, h2, h3⟩ := ipcLoop_supp D.ncols D.ipcAtoms D.expNc l rows pend (ncols_le_expNc D)
    (ipcs_ok D hwf) hl
  have l3 : l ≤ (s3 D l rows).last := foldl_addSoc_last_le D.cvxAtoms (s2 D l rows)
  have l4 : (s3 D l rows).last ≤ (s4 D l rows pend).last := addPend_last_le _ pend
  have l6 : (s5 D l rows pend).last ≤ (D.tail l rows pend).last := by
    rw [tail_eq]; exact foldl_addSoc_last_le D.pwsAtoms _
  have w2 : (s2 D l rows).WF := by
    refine ⟨?_, by simp [s2], by simp [s2], by simp [s2]⟩
    intro r hr j hj
    simp only [s2] at hr hj
    rcases List.mem_append.mp hr with hr | hr
    · exact D.exps.allRows_supp (exps_wf D hwf) r hr j (le_trans h1 hj)
    · obtain ⟨ρ, hρ, rfl⟩ := List.mem_map.mp hr
      exact h2 ρ hρ j hj
  have w3 : (s3 D l rows).WF := foldl_addSoc_wf _ _ w2
  have hs : ∀ p ∈ pend, p.Supp (s3 D l rows).last := fun p hp => IPC.Pend.supp_mono (h3 p hp) l3
  have w4 : (s4 D l rows pend).WF := addPend_wf _ pend w3 hs
  have w5 : (s5 D l rows pend).WF := by
    refine ⟨?_, w4.bcons, w4.bidx, w4.qmat⟩
    intro r hr j hj
    rcases List.mem_append.mp hr with hr | hr
    · exact w4.rows r hr j hj
    · have hj' : (s4 D l rows pend).last ≤ j := hj
      exact hwf.objLin r hr j (by have := ncols_le_expNc D; omega)
  have w6 : (D.tail l rows pend).WF := by rw [tail_eq]; exact foldl_addSoc_wf _ _ w5
  exact ⟨h1, l3, l4, l6, w2, w3, w4, w5, w6, hs⟩

end Layers

/-! ## the main theorems -/

/-- the shape of `compile` -/
lemma compile_some {D : Desc ℝ} {P : ConeProg ℝ} (h : detModel D = some P) :
    ∃ l rows pend, ipcLoop D.expNc D.ipcAtoms = some (l, rows, pend) ∧
      P = (Asm.prog { nc := (D.tail l rows pend).last
                      rows := D.linRows ++ (D.tail l rows pend).rows
                      bounds := D.userBounds ++ (D.tail l rows pend).bounds
                      qmat := (D.tail l rows pend).qmat
                      xmat := D.exps.prog.xmat }) := by
  unfold detModel compile at h
  cases hl : ipcLoop D.expNc D.ipcAtoms with
  | none => rw [hl] at h; simp at h
  | some res =>
    obtain ⟨l, rows, pend⟩ := res
    rw [hl] at h
    simp only [Option.map_some, Option.some.injEq] at h
    exact ⟨l, rows, pend, rfl, h.symm⟩

/-- feasibility of the compiled program = the final state of the socp / lp layers is satisfied, the
user's rows and bounds hold, the exponential-cone triples are members -/
lemma compiled_feas_iff (D : Desc ℝ) (hwf : D.WF) {l : ℕ} {rows : List (IPC.Row ℝ)}
    {pend : List (IPC.Pend ℝ)} (hl : ipcLoop D.expNc D.ipcAtoms = some (l, rows, pend))
    (v : ℕ → ℝ) :
    (Asm.prog { nc := (D.tail l rows pend).last
                rows := D.linRows ++ (D.tail l rows pend).rows
                bounds := D.userBounds ++ (D.tail l rows pend).bounds
                qmat := (D.tail l rows pend).qmat
                xmat := D.exps.prog.xmat }).Feas realExpCone v ↔
      (∀ r ∈ D.linRows, r.Holds (D.tail l rows pend).last v) ∧
      (∀ b ∈ D.userBounds, ∀ p ∈ b.entries, if b.upper then v p.1 ≤ p.2 else p.2 ≤ v p.1) ∧
      (D.tail l rows pend).Sat (D.tail l rows pend).last v ∧
      (∀ e ∈ D.exps.prog.xmat, realExpCone (v (e.getD 0 0)) (v (e.getD 1 0)) (v (e.getD 2 0))) := by
  obtain ⟨h1, l3, l4, l6, _, _, _, _, w6, _⟩ := tail_facts D hwf hl
  have hnc : D.ncols ≤ (D.tail l rows pend).last := by have := ncols_le_expNc D; omega
  rw [Asm.feas_iff]
  · simp only [List.forall_mem_append]
    constructor
    · rintro ⟨⟨a1, a2⟩, ⟨b1, b2⟩, c, d⟩
      exact ⟨a1, b1, ⟨a2, b2, c⟩, d⟩
    · rintro ⟨a1, b1, ⟨a2, b2, c⟩, d⟩
      exact ⟨⟨a1, a2⟩, ⟨b1, b2⟩, c, d⟩
  · intro b hb
    rcases List.mem_append.mp hb with hb | hb
    · exact hwf.bcons b hb
    · exact w6.bcons b hb
  · intro b hb p hp
    rcases List.mem_append.mp hb with hb | hb
    · exact lt_of_lt_of_le (hwf.bidx b hb p hp) hnc
    · exact w6.bidx b hb p hp

/-- **Soundness of the whole deterministic formulation.**  If `v` is feasible for the program
`do_math()` returns (`detModel D`, cone = the closed exponential cone), then the user columns of `v`
satisfy every row, every bound, the inequality `k·f(Ain·x+bin) + (Aout·x+bout) ≤ 0` of every atom
(`DAtom.Sem`: the statements of the per-atom theorems) and the objective bound `sign·obj(x) ≤ t`. -/
theorem det_model_sound (D : Desc ℝ) (hwf : D.WF) {P : ConeProg ℝ} (h : detModel D = some P)
    (v : ℕ → ℝ) (hf : P.Feas realExpCone v) : D.Sem v := by
  obtain ⟨l, rows, pend, hl, rfl⟩ := compile_some h
  obtain ⟨h1, l3, l4, l6, w2, w3, w4, w5, w6, hsupp⟩ := tail_facts D hwf hl
  obtain ⟨hrows, hbnd, hsat, hexp⟩ := (compiled_feas_iff D hwf hl v).1 hf
  set N := (D.tail l rows pend).last with hN
  have hn : D.ncols ≤ D.expNc := ncols_le_expNc D
  -- lp layer
  rw [tail_eq] at hsat
  obtain ⟨hsat5, hpws⟩ := foldl_addSoc_sound realExpCone N v D.pwsAtoms (s5 D l rows pend)
    (by rw [hN, tail_eq]) hsat
  -- the objective row
  have hsat4 : (s4 D l rows pend).Sat N v :=
    ⟨fun r hr => hsat5.rows r (List.mem_append_left _ hr), hsat5.bnd, hsat5.soc⟩
  have hobjrows : ∀ r ∈ D.objRows, r.Holds N v := fun r hr => hsat5.rows r (List.mem_append_right _ hr)
  -- tower constraints
  obtain ⟨hsat3, hpend⟩ := addPend_sound N v (s3 D l rows) pend
    (by show (s4 D l rows pend).last ≤ N; omega) hsat4
  -- socp layer, second loop
  obtain ⟨hsat2, hcvx⟩ := foldl_addSoc_sound realExpCone N v D.cvxAtoms (s2 D l rows)
    (by show (s3 D l rows).last ≤ N; omega) hsat3
  -- socp layer, first loop
  have hipcrows : ∀ r ∈ rows, r.holds N v := fun r hr =>
    hsat2.rows (ofIpcRow r) (List.mem_append_right _ (List.mem_map.mpr ⟨r, hr, rfl⟩))
  obtain ⟨_, hipc⟩ := ipcLoop_sound realExpCone N D.ncols v D.ipcAtoms D.expNc l rows pend hn
    (ipcs_ok D hwf) hl (by omega) hipcrows hpend
  -- gcp layer
  have hexpfeas : D.exps.prog.Feas realExpCone v := by
    rw [AExp.ExpEnc.feas_iff_rows]
    refine ⟨fun r hr => ?_, hexp⟩
    have := hsat2.rows r (List.mem_append_left _ hr)
    exact (AExp.ERow.holds_congr (D.exps.allRows_supp (exps_wf D hwf) r hr)
      (by rw [← expNc_eq]; omega) le_rfl (fun _ _ => rfl)).1 this
  have hexps := AExp.encodeAtoms_sound' D.ncols D.expAtoms (exps_ok D hwf) v hexpfeas
  -- every atom, by kind
  have hatoms : ∀ d ∈ D.atoms ++ D.objAtom, d.Sem D.ncols v := by
    intro d hd
    obtain ⟨hdwf, hdl⟩ := hwf.atoms d hd
    cases d with
    | soc xt A =>
      obtain ⟨hAn, hk⟩ := hdwf
      have key : ∀ b, D.ncols ≤ b → (encodeAtom xt (A.at b)).prog.Feas realExpCone v →
          socSem xt A v := fun b hb hfe =>
        (socSem_at xt A b (by omega) v).1 (soc_sound xt (A.at b) hk realExpCone v hfe)
      rcases soc_covered hd hdl with hm | hm
      · obtain ⟨b, hb, hfe⟩ := hcvx _ hm
        exact key b (by have : l ≤ b := hb; omega) hfe
      · obtain ⟨b, hb, hfe⟩ := hpws _ hm
        have hb' : (s4 D l rows pend).last ≤ b := hb
        exact key b (by omega) hfe
    | ipc k ain aout pr =>
      obtain ⟨b', P, v', hb', hP, hv', hfe⟩ := hipc (k, ain, aout, pr) (mem_ipcAtoms_of hd hdl)
      have hok' := hdwf.1.mono hb'
      have := ipc_sound b' (k, ain, aout, pr) hok' hdwf.2 hP realExpCone v' hfe
      exact (ipcSem_congr hdwf.1 hb' (fun j hj => (hv' j (by omega)).symm)).1 this
    | exp a => exact hexps a (mem_expAtoms_of hd hdl)
  refine ⟨(sem_items_iff D.ncols v).2 ⟨fun r hr => ?_, hbnd,
    fun a ha => hatoms a (List.mem_append_left _ ha)⟩, (objSem_iff hwf.ncols v).2 ⟨fun r hr => ?_,
    fun a ha => hatoms a (List.mem_append_right _ ha)⟩⟩
  · exact (AExp.ERow.holds_congr (hwf.rows r hr) (by omega) le_rfl (fun _ _ => rfl)).1 (hrows r hr)
  · exact (AExp.ERow.holds_congr (hwf.objLin r hr) (by omega) le_rfl (fun _ _ => rfl)).1
      (hobjrows r hr)

/-- **Completeness of the whole deterministic formulation.**  Every user point `x` that satisfies all
rows, bounds, atom inequalities and the objective bound extends to a feasible point `v` of the program
`do_math()` returns: `v` has the same user columns — in particular the same epigraph column, so the
same objective value `P.lp.obj v = x 0`; integrality of the user columns is therefore preserved, all
other columns are continuous (`detVtype`).  ('G' atoms: integer degree.) -/
theorem det_model_complete (D : Desc ℝ) (hwf : D.WF) (hint : ∀ a ∈ D.atoms ++ D.objAtom, a.IntDeg)
    {P : ConeProg ℝ} (h : detModel D = some P) (x : ℕ → ℝ) (hx : D.Sem x) :
    ∃ v : ℕ → ℝ, (∀ j < D.ncols, v j = x j) ∧ P.Feas realExpCone v ∧ P.lp.obj v = x 0 := by
  obtain ⟨l, rows, pend, hl, rfl⟩ := compile_some h
  obtain ⟨h1, l3, l4, l6, w2, w3, w4, w5, w6, hsupp⟩ := tail_facts D hwf hl
  set N := (D.tail l rows pend).last with hN
  have hn : D.ncols ≤ D.expNc := ncols_le_expNc D
  obtain ⟨hitems, hobj⟩ := hx
  obtain ⟨xrows, xbnd, xatoms⟩ := (sem_items_iff D.ncols x).1 hitems
  obtain ⟨xobjrows, xobjatoms⟩ := (objSem_iff hwf.ncols x).1 hobj
  have xall : ∀ d ∈ D.atoms ++ D.objAtom, d.Sem D.ncols x := by
    intro d hd
    rcases List.mem_append.mp hd with hd | hd
    · exact xatoms d hd
    · exact xobjatoms d hd
  -- per-atom completion at an arbitrary offset
  have hsoc : ∀ p : XType × AtomIn ℝ, DAtom.soc p.1 p.2 ∈ D.atoms ++ D.objAtom → ∀ b, D.ncols ≤ b →
      ∀ w0 : ℕ → ℝ, (∀ j < D.ncols, w0 j = x j) →
      ∃ w', (∀ j < b, w' j = w0 j) ∧ (encodeAtom p.1 (p.2.at b)).prog.Feas realExpCone w' := by
    rintro ⟨xt, A⟩ hd b hb w0 hw0
    obtain ⟨⟨hAn, hk⟩, _⟩ := hwf.atoms _ hd
    have hAn : A.n = D.ncols := hAn
    have hk : xt ∈ [XType.A, .M, .I] → 0 ≤ A.k := hk
    have hs : socSem xt A x := xall _ hd
    have hs0 : socSem xt A w0 := (socSem_congr xt A w0 x (by rw [hAn]; exact hw0)).2 hs
    have hsb : socSem xt (A.at b) w0 := (socSem_at xt A b (by omega) w0).2 hs0
    exact soc_complete xt (A.at b) hk realExpCone w0 hsb
  have hipc : ∀ a ∈ D.ipcAtoms, ∀ b, D.ncols ≤ b → ∀ P,
      IPC.atomEncode b a.1 a.2.1 a.2.2.1 a.2.2.2 = some P → ∀ w0 : ℕ → ℝ,
      (∀ j < D.ncols, w0 j = x j) → ∃ u : ℕ → ℝ, (∀ j < b, u j = w0 j) ∧ P.Feas realExpCone u := by
    rintro ⟨k, ain, aout, pr⟩ ha b hb P hP w0 hw0
    have hd := mem_ipcAtoms_sub ha
    obtain ⟨⟨hok, hk⟩, _⟩ := hwf.atoms _ hd
    have hs : ipcSem D.ncols (k, ain, aout, pr) x := xall _ hd
    have hsb : ipcSem b (k, ain, aout, pr) w0 :=
      (ipcSem_congr hok hb (fun j hj => (hw0 j hj).symm)).2 hs
    exact ipc_complete b (k, ain, aout, pr) (hok.mono hb) hk (hint _ hd) hP realExpCone w0 hsb
  -- gcp layer
  obtain ⟨u1, hu1, hf1⟩ := AExp.encodeAtoms_complete' D.ncols D.expAtoms (exps_ok D hwf) x
    (fun a ha => xall _ (mem_expAtoms_sub ha))
  obtain ⟨e1rows, e1x⟩ := (AExp.ExpEnc.feas_iff_rows _ _ _).1 hf1
  -- socp layer, first loop
  obtain ⟨_, _, _, u2, hu2, r2, p2⟩ := ipcLoop_complete realExpCone N D.ncols x D.ipcAtoms hipc
    D.expNc l rows pend u1 hn (ipcs_ok D hwf) hl (by omega) hu1
  have hu2x : ∀ j < D.ncols, u2 j = x j := fun j hj => by rw [hu2 j (by omega), hu1 j hj]
  have sat2 : (s2 D l rows).Sat N u2 := by
    refine ⟨?_, by simp [s2], by simp [s2]⟩
    intro r hr
    simp only [s2] at hr
    rcases List.mem_append.mp hr with hr | hr
    · exact (AExp.ERow.holds_congr (D.exps.allRows_supp (exps_wf D hwf) r hr) le_rfl
        (by rw [← expNc_eq]; omega) (fun j hj => (hu2 j (by rw [expNc_eq]; exact hj)).symm)).1
        (e1rows r hr)
    · obtain ⟨ρ, hρ, rfl⟩ := List.mem_map.mp hr
      exact r2 ρ hρ
  -- socp layer, second loop
  obtain ⟨u3, hu3, sat3⟩ := foldl_addSoc_complete realExpCone N D.ncols x D.cvxAtoms
    (fun p hp => hsoc p (mem_cvxAtoms_sub hp)) (s2 D l rows) u2 w2 (by show D.ncols ≤ l; omega)
    (by show (s3 D l rows).last ≤ N; omega) hu2x sat2
  have hu3' : ∀ j < l, u3 j = u2 j := hu3
  have hu3x : ∀ j < D.ncols, u3 j = x j := fun j hj => by rw [hu3' j (by omega), hu2x j hj]
  obtain ⟨_, _, hps⟩ := ipcLoop_supp D.ncols D.ipcAtoms D.expNc l rows pend hn (ipcs_ok D hwf) hl
  have p3 : ∀ p ∈ pend, p.holds N u3 := fun p hp => IPC.Pend.holds_congr (hps p hp) N hu3' (p2 p hp)
  obtain ⟨u4, hu4, sat4, _⟩ := addPend_complete N (s3 D l rows) pend u3 w3 hsupp
    (by show (s4 D l rows pend).last ≤ N; omega) sat3 p3
  have hu4x : ∀ j < D.ncols, u4 j = x j := fun j hj => by rw [hu4 j (by omega), hu3x j hj]
  -- the objective row
  have sat5 : (s5 D l rows pend).Sat N u4 := by
    refine ⟨?_, sat4.bnd, sat4.soc⟩
    intro r hr
    rcases List.mem_append.mp hr with hr | hr
    · exact sat4.rows r hr
    · exact (AExp.ERow.holds_congr (hwf.objLin r hr) le_rfl (by omega)
        (fun j hj => (hu4x j hj).symm)).1 (xobjrows r hr)
  -- lp layer
  obtain ⟨u6, hu6, sat6⟩ := foldl_addSoc_complete realExpCone N D.ncols x D.pwsAtoms
    (fun p hp => hsoc p (mem_pwsAtoms_sub hp)) (s5 D l rows pend) u4 w5
    (by show D.ncols ≤ (s4 D l rows pend).last; omega) (by rw [← tail_eq]) hu4x sat5
  have hu6' : ∀ j < (s4 D l rows pend).last, u6 j = u4 j := hu6
  have hu6x : ∀ j < D.ncols, u6 j = x j := fun j hj => by rw [hu6' j (by omega), hu4x j hj]
  have hu6e : ∀ j < D.expNc, u6 j = u1 j := fun j hj => by
    rw [hu6' j (by omega), hu4 j (by omega), hu3' j (by omega), hu2 j hj]
  refine ⟨u6, hu6x, (compiled_feas_iff D hwf hl u6).2 ⟨fun r hr => ?_, fun b hb p hp => ?_, ?_,
    fun e he => ?_⟩, ?_⟩
  · exact (AExp.ERow.holds_congr (hwf.rows r hr) le_rfl (by omega)
      (fun j hj => (hu6x j hj).symm)).1 (xrows r hr)
  · rw [hu6x p.1 (hwf.bidx b hb p hp)]
    exact xbnd b hb p hp
  · rw [tail_eq]; exact sat6
  · obtain ⟨q0, q1, q2⟩ := D.exps.xmat_lt e he
    rw [hu6e _ (by rw [expNc_eq]; exact q0), hu6e _ (by rw [expNc_eq]; exact q1),
      hu6e _ (by rw [expNc_eq]; exact q2)]
    exact e1x e he
  · rw [Asm.obj_eq _ (by show 0 < (D.tail l rows pend).last; have := hwf.ncols; omega)]
    exact hu6x 0 (by have := hwf.ncols; omega)

/-- **The model returns a program** for every well-formed description (the towers of all G / T / C
constraints can be built): the hypotheses `detModel D = some P` of the two theorems are satisfiable. -/
theorem det_model_total (D : Desc ℝ) (hwf : D.WF) : ∃ P, detModel D = some P := by
  obtain ⟨⟨l, rows, pend⟩, hl⟩ := ipcLoop_isSome D.ipcAtoms D.expNc
    (fun a ha => (ipcs_ok D hwf a ha).2.2)
  cases hc : compile D with
  | none => simp [compile, hl] at hc
  | some A => exact ⟨A.prog, by simp [detModel, hc]⟩

/-- the program has at least the user's columns; column 0 carries the objective -/
theorem det_model_cols (D : Desc ℝ) (hwf : D.WF) {P : ConeProg ℝ} (h : detModel D = some P) :
    D.ncols ≤ P.lp.nc ∧ ∀ v : ℕ → ℝ, P.lp.obj v = v 0 := by
  obtain ⟨l, rows, pend, hl, rfl⟩ := compile_some h
  obtain ⟨h1, l3, l4, l6, _⟩ := tail_facts D hwf hl
  have hn := ncols_le_expNc D
  have hnc : D.ncols ≤ (D.tail l rows pend).last := by omega
  exact ⟨hnc, fun v => Asm.obj_eq _ (by show 0 < (D.tail l rows pend).last; have := hwf.ncols; omega) v⟩

/-- **the `vtype` string**: the user's letters followed by one `C` per auxiliary column — every
auxiliary column is continuous, so integrality only concerns the user columns, which
`det_model_complete` leaves untouched -/
theorem det_vtype (D : Desc ℝ) {P : ConeProg ℝ} (h : detModel D = some P) :
    detVtype D = some (vtypeVector D.userVars ++ List.replicate (P.lp.nc - D.ncols) 'C') := by
  unfold detModel at h
  obtain ⟨A, hA, rfl⟩ := Option.map_eq_some_iff.mp h
  simp only [detVtype, hA, Option.map_some, vtypeVector_aux]
  rfl

/-- … of the right length when the declared variables are consistent (`Model.dvar` enforces it) -/
theorem det_vtype_length (D : Desc ℝ) (hwf : D.WF)
    (hv : ∀ u ∈ D.userVars, u.1.length = 1 ∨ u.1.length = u.2)
    (hs : (D.userVars.map Prod.snd).sum = D.ncols) {P : ConeProg ℝ} (h : detModel D = some P) :
    ∃ vt, detVtype D = some vt ∧ vt.length = P.lp.nc := by
  refine ⟨_, det_vtype D h, ?_⟩
  rw [List.length_append, AtomsSoc.vtypeVector_length _ hv, hs, List.length_replicate]
  have := (det_model_cols D hwf h).1
  omega

/-! ## a concrete instance

Columns `t, x₁, x₂` of a `gcp.Model`; `st`: the row `x₁ + x₂ ≤ 2`, the bound `x₂ ≥ 0`, the
second-order-cone atom `‖(x₁, x₂)‖₂ - 2 ≤ 0` and the exponential-cone atom `exp(x₁) - 3 ≤ 0`;
objective `min x₂`. -/

section Example
variable (K : Type) [Field K] [LinearOrder K] [IsStrictOrderedRing K]

/-- `‖(x₁, x₂)‖₂ - 2 ≤ 0` -/
def exE : AtomIn K where
  n := 3
  r := 2
  k := 1
  ain := fun i j => if j = i + 1 then 1 else 0
  bin := fun _ => 0
  aout := fun _ _ => 0
  bout := fun _ => -2

/-- `exp(x₁) - 3 ≤ 0` -/
def exX : AExp.CvxReq K :=
  ⟨1, [AExp.Aff.ofRow 3 (fun j => if j = 1 then 1 else 0) 0], [AExp.Aff.ofRow 3 (fun _ => 0) (-3)], [1], [1]⟩

def exD : Desc K where
  top := 2
  ncols := 3
  userVars := [("C", 1), ("C", 2)]
  items := [.row ⟨fun j => if j = 1 ∨ j = 2 then 1 else 0, 2, false⟩,
            .bound ⟨false, [(2, 0)]⟩,
            .atom (.soc .E (exE K)),
            .atom (.exp (.exp (exX K)))]
  obj := .affine 1 (fun j => if j = 2 then 1 else 0) 0

end Example

/-- the compiled program: 8 rows (the user's row, 3 rows of the exponential cone, 3 rows of the
2-norm encoding, the objective row) and 9 columns (3 + cone triple `3,4,5` + `aux_left` `6,7` +
`aux_right` `8`): the gcp layer comes first although the 2-norm was stated first -/
example : (detModel (exD ℚ)).map (fun P => (P.lp.nr, P.lp.nc, P.qmat, P.xmat)) =
    some (8, 9, [[8, 6, 7]], [[3, 4, 5]]) := by
  decide +kernel

/-- `min |x₁|` on the columns `t, x₁`, on a model of class `top` -/
def exObjA (K : Type) [Field K] [LinearOrder K] [IsStrictOrderedRing K] (top : ℕ) : Desc K where
  top := top
  ncols := 2
  userVars := [("C", 1), ("C", 1)]
  items := []
  obj := .atom 1 (.soc .A ⟨2, 1, 1, fun _ j => if j = 1 then 1 else 0, fun _ => 0, fun _ _ => 0, fun _ => 0⟩)

/-- an `abs` objective: `lp.Model` emits its two rows once, `socp.Model` / `gcp.Model` (hence
`ro.Model`) emit them TWICE (once in the second loop of `socp.do_math`, once in `lp.do_math`) — a
harmless redundancy of the real code that the model reproduces -/
example : ((detModel (exObjA ℚ 0)).map fun P => (P.lp.nr, P.lp.nc)) = some (2, 2) ∧
    ((detModel (exObjA ℚ 1)).map fun P => (P.lp.nr, P.lp.nc)) = some (4, 2) ∧
    ((detModel (exObjA ℚ 2)).map fun P => (P.lp.nr, P.lp.nc)) = some (4, 2) := by
  decide +kernel

/-- `min exp(x₁)` on the columns `t, x₁`, on a model of class `top` -/
def exObjX (K : Type) [Field K] [LinearOrder K] [IsStrictOrderedRing K] (top : ℕ) : Desc K where
  top := top
  ncols := 2
  userVars := [("C", 1), ("C", 1)]
  items := []
  obj := .atom 1 (.exp (.exp ⟨1, [AExp.Aff.ofRow 2 (fun j => if j = 1 then 1 else 0) 0],
    [AExp.Aff.ofRow 2 (fun _ => 0) 0], [], []⟩))

/-- an objective atom of a layer the model class does not have is SILENTLY IGNORED by the real code
(`min` / `max` accept every `Convex`; `st` would raise for the same atom in constraint position):
on a `gcp.Model` `min exp(x₁)` gives the three cone rows on five columns, on a `socp.Model` only the
placeholder row `0 == 0` on the two user columns — the epigraph column `t` is unconstrained and the
problem `min t` unbounded.  Hypothesis `DAtom.layer ≤ D.top` of `Desc.WF` excludes exactly this.
(`ro.Model` / `dro.Model` always compile through a `gcp.Model`.) -/
example : ((detModel (exObjX ℚ 2)).map fun P => (P.lp.nr, P.lp.nc, P.xmat)) = some (3, 5, [[2, 3, 4]]) ∧
    ((detModel (exObjX ℚ 1)).map fun P => (P.lp.nr, P.lp.nc, P.xmat)) = some (1, 2, []) := by
  decide +kernel

lemma exX_pairs : (exX ℝ).pairs = [[0, 0]] := by
  show AExp.bcastIdx [[1], [1]] = [[0, 0]]
  decide

lemma exX_wf : (exX ℝ).WF 3 := by
  constructor <;> intro e he <;> simp [exX] at he <;> subst he <;> exact AExp.Aff.suppLt_ofRow _ _ _

lemma exX_in (v : ℕ → ℝ) : (exX ℝ).inVal 3 v 0 = v 1 := by
  simp [AExp.CvxReq.inVal, AExp.CvxReq.inAt, exX, AExp.Aff.eval, AExp.Aff.ofRow, Finset.sum_range_succ]

lemma exX_out (v : ℕ → ℝ) : (exX ℝ).outVal 3 v 0 = -3 := by
  simp [AExp.CvxReq.outVal, exX, AExp.Aff.eval, AExp.Aff.ofRow]

lemma exD_atoms : (exD ℝ).atoms = [.soc .E (exE ℝ), .exp (.exp (exX ℝ))] := by
  simp [Desc.atoms, exD]

lemma exD_wf : (exD ℝ).WF := by
  refine ⟨by simp [exD], ?_, ?_, ?_, ?_, ?_⟩
  · simp only [Desc.linRows, exD, List.filterMap_cons, List.filterMap_nil, List.forall_mem_singleton]
    intro j hj
    rw [if_neg (by omega)]
  · simp only [Desc.userBounds, exD, List.filterMap_cons, List.filterMap_nil, List.forall_mem_singleton]
    exact consistent_const _ 0 (by simp)
  · simp [Desc.userBounds, exD]
  · rw [exD_atoms]
    simp only [Desc.objAtom, exD, List.append_nil, List.forall_mem_cons, List.not_mem_nil,
      false_imp_iff, implies_true, and_true]
    refine ⟨⟨⟨rfl, by simp⟩, by simp [DAtom.layer]⟩, ⟨⟨exX_wf, by simp [exX]⟩, by simp [DAtom.layer]⟩⟩
  · simp only [Desc.objRows, exD, List.forall_mem_singleton]
    intro j hj
    rw [if_neg (by omega), if_neg (by omega)]
    ring

/-- the user's model of the instance, spelled out -/
lemma exD_sem (v : ℕ → ℝ) : (exD ℝ).Sem v ↔
    v 1 + v 2 ≤ 2 ∧ 0 ≤ v 2 ∧ v 1 ^ 2 + v 2 ^ 2 ≤ 4 ∧ Real.exp (v 1) ≤ 3 ∧ v 2 ≤ v 0 := by
  have hi0 : (exE ℝ).inv v 0 = v 1 := by simp [AtomIn.inv, exE, Finset.sum_range_succ]
  have hi1 : (exE ℝ).inv v 1 = v 2 := by simp [AtomIn.inv, exE, Finset.sum_range_succ]
  have ho : (exE ℝ).outv v 0 = -2 := by simp [AtomIn.outv, exE]
  have hr : (exE ℝ).r = 2 := rfl
  have hk : (exE ℝ).k = 1 := rfl
  have hm : (exX ℝ).mult = 1 := rfl
  unfold Desc.Sem
  rw [sem_items_iff, exD_atoms]
  have e1 : (exD ℝ).linRows = [⟨fun j => if j = 1 ∨ j = 2 then 1 else 0, 2, false⟩] := by
    simp [Desc.linRows, exD]
  have e2 : (exD ℝ).userBounds = [⟨false, [(2, 0)]⟩] := by simp [Desc.userBounds, exD]
  have e3 : (exD ℝ).ncols = 3 := rfl
  rw [e1, e2, e3]
  simp only [List.forall_mem_singleton, List.forall_mem_cons, List.not_mem_nil, false_imp_iff,
    implies_true, and_true, AExp.ERow.Holds, Bool.false_eq_true, if_false, DAtom.Sem, socSem,
    AExp.Atom.Sem, exX_pairs, List.getD_cons_zero, List.getD_cons_succ, exX_in, exX_out, hm, hr,
    hk, Finset.sum_range_succ, Finset.sum_range_zero, hi0, hi1, ho, Desc.objSem, exD]
  norm_num
  constructor
  · rintro ⟨⟨h1, h2, h3, h4⟩, h5⟩
    exact ⟨h1, h2, by linarith, by linarith, h5⟩
  · rintro ⟨h1, h2, h3, h4, h5⟩
    exact ⟨⟨h1, h2, by linarith, by linarith⟩, h5⟩

/-- every feasible point of the compiled program satisfies the user's model … -/
example (P : ConeProg ℝ) (h : detModel (exD ℝ) = some P) (v : ℕ → ℝ) (hf : P.Feas realExpCone v) :
    v 1 + v 2 ≤ 2 ∧ 0 ≤ v 2 ∧ v 1 ^ 2 + v 2 ^ 2 ≤ 4 ∧ Real.exp (v 1) ≤ 3 ∧ v 2 ≤ v 0 :=
  (exD_sem v).1 (det_model_sound (exD ℝ) exD_wf h v hf)

/-- … so `(x₁, x₂) = (2, 1)` (`‖x‖² = 5 > 4`) is cut off whatever the auxiliary columns are … -/
example (P : ConeProg ℝ) (h : detModel (exD ℝ) = some P) (v : ℕ → ℝ) (h1 : v 1 = 2) (h2 : v 2 = 1) :
    ¬ P.Feas realExpCone v := fun hf => by
  have := ((exD_sem v).1 (det_model_sound (exD ℝ) exD_wf h v hf)).2.2.1
  rw [h1, h2] at this
  norm_num at this

/-- … and the user point `(t, x₁, x₂) = (1, 0, 1)` extends to a feasible point of the compiled
program with objective value `1` -/
example : ∃ P, detModel (exD ℝ) = some P ∧ ∃ v : ℕ → ℝ, v 0 = 1 ∧ v 1 = 0 ∧ v 2 = 1 ∧
    P.Feas realExpCone v ∧ P.lp.obj v = 1 := by
  obtain ⟨P, hP⟩ := det_model_total (exD ℝ) exD_wf
  obtain ⟨v, hv, hf, ho⟩ := det_model_complete (exD ℝ) exD_wf (by
      rw [exD_atoms]
      simp [Desc.objAtom, exD, DAtom.IntDeg]) hP
    (fun j => if j = 1 then 0 else 1) ((exD_sem _).2 (by norm_num))
  have e3 : (exD ℝ).ncols = 3 := rfl
  rw [e3] at hv
  refine ⟨P, hP, v, ?_, ?_, ?_, hf, ?_⟩
  · rw [hv 0 (by norm_num)]; simp
  · rw [hv 1 (by norm_num)]; simp
  · rw [hv 2 (by norm_num)]; simp
  · rw [ho]; simp

end RsomeV.C06Model
