import RsomeV.M.Dro
import RsomeV.L.DroSound
import RsomeV.L.DroExact
import RsomeV.L.DroExactDist
import RsomeV.Props.C03
import Mathlib.Tactic.Linarith
import Mathlib.Tactic.Ring
import Mathlib.Tactic.NormNum
import Mathlib.Tactic.FinCases

/-! C04 — EXACTNESS of the event-wise DRO reformulation (`dro.Model.dro_to_roc`, rsome/dro.py).

`C03.dro_sound` shows that the reformulation is *safe*: multipliers `α_s` (one per scenario — in
the code the columns that multiply the scenario probabilities in the first-stage row) and
`β_{k,j}` (one vector per expectation set / event — the columns that multiply the scaled means)
with

* (H2) `f_s(z) ≤ α_s + Σ_{k : s ∈ E_k} β_k·z` on the support `Z_s` of every scenario, and
* (H1∀) `Σ_s α_s p_s + Σ_k β_k·μ_k ≤ 0` for every `(p, μ)` of the lifted ambiguity set

certify `sup_{P ∈ F} E_P[f] ≤ 0`.  This file proves the **converse** for polytope supports
(given by their vertices) and a polyhedral lifted set: if the worst-case expectation is `≤ 0` then
such multipliers exist — finite LP duality (`affine_farkas_cols`, `RsomeV/L/LpDualStrong.lean`,
proved from `farkas`).  Together: the constraint the code emits is feasible *iff* the
distributionally robust constraint holds, hence the reported optimum equals the true inf-sup.

Contents (helper lemmas in `RsomeV/L/DroExact.lean`, `RsomeV/L/DroExactDist.lean`):
1. `dro_complete_vertex`    worst case over vertex distributions `≤ 0` ⇒ `∃ α β`, (H2) at the
                            vertices ∧ (H1∀);
2. `hull_of_vertices`       (H2) at the vertices ⇒ (H2) on the hull, for vertex-convex integrands
                            (`maxAffine_convex`: maxima of affine pieces are);
3. `dro_exact_vertex`       the iff;
4. `dro_sup_is_vertex_sup`  the bound then holds for *every* distribution carried by the hulls
                            (abstract conditional expectations), and every vertex distribution
                            is one (`vertex_dist_is_dist`) — the two suprema coincide;
5. examples over `ℚ` (`|z| + z - c` on `[-1, 1]`, mean in `[-1/2, 1/2]`): multipliers exist for
   `c = 3/2` (worst case `0`), none exist for `c = 1` (worst case `1/2`).

The composition with the compiled rows (`C02.rc_exact_lp`) is in `RsomeV/Props/C04Compiled.lean`
(`dro_complete_vertex_lift`, `dro_exact_compiled`, `dro_exact_end_to_end`): it is a separate module
because `RsomeV/Props/C02.lean` and `RsomeV/Props/C03.lean` cannot be imported together
(`RsomeV/L/RobustComplete.lean` and `RsomeV/L/DroSound.lean` both declare `RsomeV.socMem_congr`);
this file imports C03 (for `CondExp` and `dro_sound`), that one imports C02.

What is **not** covered: supports that are not polytopes and ambiguity sets with cones (they need
conic strong duality; `C02.rc_exact_conic_partial` is relative to a no-gap hypothesis). -/

set_option linter.unusedSectionVars false
set_option linter.unusedSimpArgs false
set_option linter.unusedVariables false

namespace RsomeV.C04
open Finset RsomeV ConeProg RoRows Dro

variable {K : Type} [Field K] [LinearOrder K] [IsStrictOrderedRing K]

/-! ### 1. Completeness on vertex distributions -/

/-- **Completeness of the event-wise reformulation (vertex form).**

Data: `S` scenarios, `nE` events `Ev k` (event `k` contains scenario `s` iff `Ev k s`), `nz` random
components, `nV` vertices per scenario (`vtx s i j` = component `j` of vertex `i` of the support of
scenario `s`; a scenario with fewer vertices repeats one), `fv s i` = value of the integrand of
scenario `s` at vertex `i`.  The lifted ambiguity set is `Adm gp gm h S nE nz` — finitely many rows
`Σ_s gp r s·p_s + Σ_k Σ_j gm r k j·μ_{k,j} ≤ h r` in the scenario probabilities `p` and the scaled
means `μ_k = Σ_{s ∈ E_k} p_s·E_s[z̃]` (the projection of `Ambiguity.mix_support` on these
columns).  A *vertex distribution* is a weight `w s i ≥ 0` on vertex `i` of scenario `s`; it
induces `pOf w s = Σ_i w s i` and `muOf w k j = Σ_{s ∈ E_k} Σ_i w s i·vtx s i j`.

If (feasibility) some vertex distribution induces an admissible `(p, μ)`, and (worst case `≤ 0`)
every vertex distribution that induces an admissible `(p, μ)` has expected integrand
`Σ_s Σ_i w s i·fv s i ≤ 0`, then there are multipliers with
* (H2v) `fv s i ≤ α s + Σ_{k : Ev k s} Σ_j β k j·vtx s i j` at every vertex, and
* (H1∀) `Σ_s α s·p s + Σ_k Σ_j β k j·μ k j ≤ 0` at every admissible `(p, μ)`.

Mapping to `dro_to_roc`: `α` = the decision columns multiplying the probabilities in the
first-stage row, `β` = those multiplying the scaled means; (H1∀) is what the compiled first-stage
row expresses (`dro_exact_compiled` in `RsomeV/Props/C04Compiled.lean`, from `C02.rc_exact_lp`), (H2v) + `hull_of_vertices` is what
the compiled scenario rows express (`C02.rc_exact_lp` over the support of the scenario).

Proof: `affine_farkas_cols` for the system in the flattened weights `w_{s·nV+i}` whose rows are the
rows of the lifted set composed with `w ↦ (pOf w, muOf w)` and `-w ≤ 0`; with the multipliers
`y_r ≥ 0` of the former, `α s = Σ_r y_r·gp r s` and `β k j = Σ_r y_r·gm r k j`. -/
theorem dro_complete_vertex (S nE nz nV : ℕ) (vtx : ℕ → ℕ → ℕ → K)
    (Ev : ℕ → ℕ → Prop) [∀ k s, Decidable (Ev k s)]
    {ι : Type} [Fintype ι] (gp : ι → ℕ → K) (gm : ι → ℕ → ℕ → K) (h : ι → K)
    (fv : ℕ → ℕ → K)
    (hfeas : ∃ w : ℕ → ℕ → K, (∀ s < S, ∀ i < nV, 0 ≤ w s i) ∧
      Adm gp gm h S nE nz (pOf nV w) (muOf S nV vtx Ev w))
    (hworst : ∀ w : ℕ → ℕ → K, (∀ s < S, ∀ i < nV, 0 ≤ w s i) →
      Adm gp gm h S nE nz (pOf nV w) (muOf S nV vtx Ev w) →
      ∑ s ∈ range S, ∑ i ∈ range nV, w s i * fv s i ≤ 0) :
    ∃ (α : ℕ → K) (β : ℕ → ℕ → K),
      (∀ s < S, ∀ i < nV, fv s i ≤ α s + ∑ k ∈ range nE,
        if Ev k s then ∑ j ∈ range nz, β k j * vtx s i j else 0) ∧
      (∀ p μ, Adm gp gm h S nE nz p μ →
        ∑ s ∈ range S, α s * p s + ∑ k ∈ range nE, ∑ j ∈ range nz, β k j * μ k j ≤ 0) :=
  dro_complete_vertex_core S nE nz nV vtx Ev gp gm h fv hfeas hworst

/-! ### 2. From the vertices to the hull -/

/-- **Maxima of affine pieces are vertex-convex**: `f z = max_{l ≤ L} (a l + Σ_{j<nz} b l j·z j)`
(a `Finset.sup'` over the `L + 1` pieces; the piecewise-linear integrands `rsome` accepts in
`E(...)`: `maxof`, `abs`, affine) satisfies the chord inequality over any vertex family. -/
theorem maxAffine_convex (nz nV L : ℕ) (vtx : ℕ → ℕ → K) (a : ℕ → K) (b : ℕ → ℕ → K) :
    VtxConvex nz nV vtx
      (fun z => (range (L + 1)).sup' nonempty_range_add_one
        (fun l => a l + ∑ j ∈ range nz, b l j * z j)) :=
  vtxConvex_sup' nz nV vtx (range (L + 1)) nonempty_range_add_one
    (fun l z => a l + ∑ j ∈ range nz, b l j * z j)
    (fun l _ => vtxConvex_affine nz nV vtx (a l) (b l))

/-- the same for the binary `max` of two affine pieces (e.g. `|z_0| = max(z_0, -z_0)`) -/
theorem maxAffine2_convex (nz nV : ℕ) (vtx : ℕ → ℕ → K) (a a' : K) (b b' : ℕ → K) :
    VtxConvex nz nV vtx
      (fun z => max (a + ∑ j ∈ range nz, b j * z j) (a' + ∑ j ∈ range nz, b' j * z j)) :=
  vtxConvex_max nz nV vtx _ _ (vtxConvex_affine nz nV vtx a b) (vtxConvex_affine nz nV vtx a' b')

/-- the chord inequality in the form "convex along vertex combinations" plus "`f` reads the
components `j < nz` only" is `VtxConvex` -/
theorem vtxConvex_of_convex (nz nV : ℕ) (vtx : ℕ → ℕ → K) (f : (ℕ → K) → K)
    (hconv : ∀ lam : ℕ → K, (∀ i < nV, 0 ≤ lam i) → ∑ i ∈ range nV, lam i = 1 →
      f (fun j => ∑ i ∈ range nV, lam i * vtx i j) ≤ ∑ i ∈ range nV, lam i * f (vtx i))
    (hloc : ∀ z z' : ℕ → K, (∀ j < nz, z j = z' j) → f z = f z') :
    VtxConvex nz nV vtx f :=
  vtxConvex_of_convex_local nz nV vtx f hconv hloc

/-- **Scenario rows at the vertices give the scenario rows on the hull.**  If the integrand `f s`
of every scenario is vertex-convex (`VtxConvex`: at a point whose components `j < nz` are
`Σ_i λ_i·vtx s i` the value is `≤ Σ_i λ_i·f s (vtx s i)`), then (H2v) with
`fv s i = f s (vtx s i)` implies (H2) on `Hull nz nV (vtx s)` (the points whose components
`j < nz` are a convex combination of the vertices) — the support `Z s` of `C03.dro_sound`.
In the code the scenario rows are compiled for the whole support (`C02.rc_exact_lp`); for a
polytope support this is the same statement. -/
theorem hull_of_vertices (S nE nz nV : ℕ) (vtx : ℕ → ℕ → ℕ → K)
    (Ev : ℕ → ℕ → Prop) [∀ k s, Decidable (Ev k s)]
    (f : ℕ → (ℕ → K) → K) (hconv : ∀ s < S, VtxConvex nz nV (vtx s) (f s))
    (α : ℕ → K) (β : ℕ → ℕ → K)
    (H2v : ∀ s < S, ∀ i < nV, f s (vtx s i) ≤ α s + ∑ k ∈ range nE,
        if Ev k s then ∑ j ∈ range nz, β k j * vtx s i j else 0) :
    ∀ s < S, ∀ z, Hull nz nV (vtx s) z →
      f s z ≤ α s + ∑ k ∈ range nE, if Ev k s then ∑ j ∈ range nz, β k j * z j else 0 := by
  intro s hs z hz
  exact hull_row nE nz nV (vtx s) (f s) (hconv s hs) (α s) (fun k => Ev k s) β (H2v s hs) z hz

/-! ### 3. Exactness -/

/-- **Exactness of the event-wise reformulation for polytope supports and polyhedral lifted
sets.**  Under feasibility (some vertex distribution induces an admissible `(p, μ)`) and for
vertex-convex integrands:
multipliers `α, β` with (H2) on the hulls and (H1∀) exist **iff** every vertex distribution that
induces an admissible `(p, μ)` has expected integrand `≤ 0`.

`→` is a direct computation (`vertex_sound`: weight (H2) at the vertices by `w s i ≥ 0`, sum,
regroup into `Σ_s α_s·pOf w s + Σ_k β_k·muOf w k`, apply (H1∀) at the induced pair) — it is
also the instance `Es s = finExp` of `C03.dro_sound`, see `dro_sup_is_vertex_sup`;
`←` is `dro_complete_vertex` followed by `hull_of_vertices`.  (Feasibility is used by `←` only.) -/
theorem dro_exact_vertex (S nE nz nV : ℕ) (vtx : ℕ → ℕ → ℕ → K)
    (Ev : ℕ → ℕ → Prop) [∀ k s, Decidable (Ev k s)]
    {ι : Type} [Fintype ι] (gp : ι → ℕ → K) (gm : ι → ℕ → ℕ → K) (h : ι → K)
    (f : ℕ → (ℕ → K) → K) (hconv : ∀ s < S, VtxConvex nz nV (vtx s) (f s))
    (hfeas : ∃ w : ℕ → ℕ → K, (∀ s < S, ∀ i < nV, 0 ≤ w s i) ∧
      Adm gp gm h S nE nz (pOf nV w) (muOf S nV vtx Ev w)) :
    (∃ (α : ℕ → K) (β : ℕ → ℕ → K),
      (∀ s < S, ∀ z, Hull nz nV (vtx s) z →
        f s z ≤ α s + ∑ k ∈ range nE, if Ev k s then ∑ j ∈ range nz, β k j * z j else 0) ∧
      (∀ p μ, Adm gp gm h S nE nz p μ →
        ∑ s ∈ range S, α s * p s + ∑ k ∈ range nE, ∑ j ∈ range nz, β k j * μ k j ≤ 0))
    ↔ (∀ w : ℕ → ℕ → K, (∀ s < S, ∀ i < nV, 0 ≤ w s i) →
        Adm gp gm h S nE nz (pOf nV w) (muOf S nV vtx Ev w) →
        ∑ s ∈ range S, ∑ i ∈ range nV, w s i * f s (vtx s i) ≤ 0) := by
  constructor
  · rintro ⟨α, β, H2, H1⟩ w hw hadm
    exact vertex_sound S nE nz nV vtx Ev (fun s i => f s (vtx s i)) α β w hw
      (fun s hs i hi => H2 s hs _ (vtx_mem_hull nz nV (vtx s) i hi)) (H1 _ _ hadm)
  · intro hworst
    obtain ⟨α, β, H2v, H1⟩ := dro_complete_vertex S nE nz nV vtx Ev gp gm h
      (fun s i => f s (vtx s i)) hfeas hworst
    exact ⟨α, β, hull_of_vertices S nE nz nV vtx Ev f hconv α β H2v, H1⟩

/-! ### 4. All distributions on the hulls -/

/-- **The supremum over all distributions carried by the polytopes is the supremum over vertex
distributions.**  If every vertex distribution inducing an admissible `(p, μ)` has expected
integrand `≤ 0` (the right-hand side of `dro_exact_vertex`), then so has *every* distribution:
scenario probabilities `p ≥ 0` and conditional expectation operators `Es s` on the hulls
(`CondExp`, `RsomeV/L/DroSound.lean`) whose probabilities and scaled means
`μ k j = Σ_{s ∈ E_k} p s·E_s[z_j]` are admissible.  (`dro_exact_vertex` `←`, then
`C03.dro_sound`.)  The reverse inequality of the two suprema is `vertex_dist_is_dist`: vertex
distributions are among these distributions. -/
theorem dro_sup_is_vertex_sup (S nE nz nV : ℕ) (vtx : ℕ → ℕ → ℕ → K)
    (Ev : ℕ → ℕ → Prop) [∀ k s, Decidable (Ev k s)]
    {ι : Type} [Fintype ι] (gp : ι → ℕ → K) (gm : ι → ℕ → ℕ → K) (h : ι → K)
    (f : ℕ → (ℕ → K) → K) (hconv : ∀ s < S, VtxConvex nz nV (vtx s) (f s))
    (hfeas : ∃ w : ℕ → ℕ → K, (∀ s < S, ∀ i < nV, 0 ≤ w s i) ∧
      Adm gp gm h S nE nz (pOf nV w) (muOf S nV vtx Ev w))
    (hworst : ∀ w : ℕ → ℕ → K, (∀ s < S, ∀ i < nV, 0 ≤ w s i) →
        Adm gp gm h S nE nz (pOf nV w) (muOf S nV vtx Ev w) →
        ∑ s ∈ range S, ∑ i ∈ range nV, w s i * f s (vtx s i) ≤ 0)
    (Es : ℕ → ((ℕ → K) → K) → K) (hEs : ∀ s < S, CondExp (Hull nz nV (vtx s)) (Es s))
    (p : ℕ → K) (hp : ∀ s < S, 0 ≤ p s)
    (hadm : Adm gp gm h S nE nz p
      (fun k j => ∑ s ∈ range S, if Ev k s then p s * Es s (fun z => z j) else 0)) :
    ∑ s ∈ range S, p s * Es s (f s) ≤ 0 := by
  obtain ⟨α, β, H2, H1⟩ :=
    (dro_exact_vertex S nE nz nV vtx Ev gp gm h f hconv hfeas).mpr hworst
  exact C03.dro_sound S nE nz (fun s => Hull nz nV (vtx s)) Es hEs f α β Ev p hp H2
    (H1 p _ hadm)

/-- **Vertex distributions are distributions on the hulls**: for weights `w ≥ 0` (and at least one
vertex per scenario) the operators `vtxEs nV vtx w s` (weights `w s i / p s` on the vertices of
scenario `s`, `p s = pOf w s`) are conditional expectation operators on the hulls, the expected
integrand is `Σ_s p s·E_s[g s] = Σ_s Σ_i w s i·g s (vtx s i)` for every family `g`, and the scaled
means are `muOf w`. -/
theorem vertex_dist_is_dist (S nz nV : ℕ) (hV : 0 < nV) (vtx : ℕ → ℕ → ℕ → K)
    (Ev : ℕ → ℕ → Prop) [∀ k s, Decidable (Ev k s)]
    (w : ℕ → ℕ → K) (hw : ∀ s < S, ∀ i < nV, 0 ≤ w s i) :
    (∀ s < S, CondExp (Hull nz nV (vtx s)) (vtxEs nV vtx w s)) ∧
    (∀ s < S, 0 ≤ pOf nV w s) ∧
    (∀ g : ℕ → (ℕ → K) → K, ∑ s ∈ range S, pOf nV w s * vtxEs nV vtx w s (g s)
        = ∑ s ∈ range S, ∑ i ∈ range nV, w s i * g s (vtx s i)) ∧
    (∀ k j, (∑ s ∈ range S,
        if Ev k s then pOf nV w s * vtxEs nV vtx w s (fun z => z j) else 0)
        = muOf S nV vtx Ev w k j) := by
  refine ⟨fun s hs => vtxEs_condExp nz nV hV vtx w s (hw s hs),
    fun s hs => pOf_nonneg nV w s (hw s hs), ?_, ?_⟩
  · intro g
    apply Finset.sum_congr rfl; intro s hs
    exact vtxEs_eval nV vtx w s (hw s (Finset.mem_range.mp hs)) (g s)
  · intro k j
    unfold muOf
    apply Finset.sum_congr rfl; intro s hs
    by_cases hk : Ev k s
    · rw [if_pos hk, if_pos hk]
      exact vtxEs_eval nV vtx w s (hw s (Finset.mem_range.mp hs)) (fun z => z j)
    · rw [if_neg hk, if_neg hk]

/-! ### 5. Examples over `ℚ`

One scenario, one event (the whole sample space), one random component with support `[-1, 1]`
(vertices `-1` and `1`), lifted set `p = 1`, `-p/2 ≤ μ ≤ p/2` (mean in `[-1/2, 1/2]`), integrand
`f(z) = |z| + z - c = max(z, -z) + z - c`.  The worst case puts weight `3/4` on `1` and `1/4` on
`-1`: `sup E[f] = 3/2 - c`. -/

/-- rows `p ≤ 1`, `-p ≤ -1`, `μ - p/2 ≤ 0`, `-μ - p/2 ≤ 0` -/
def exGp : Fin 4 → ℕ → ℚ := fun r _ => if r.val = 0 then 1 else if r.val = 1 then -1 else -1/2
def exGm : Fin 4 → ℕ → ℕ → ℚ := fun r _ _ => if r.val = 2 then 1 else if r.val = 3 then -1 else 0
def exH : Fin 4 → ℚ := fun r => if r.val = 0 then 1 else if r.val = 1 then -1 else 0

/-- what admissibility of the pair induced by `w` says -/
lemma ex_adm_iff (w : ℕ → ℕ → ℚ) :
    Adm exGp exGm exH 1 1 1 (pOf 2 w) (muOf 1 2 exVtx (fun _ _ => True) w) ↔
      (w 0 0 + w 0 1 = 1 ∧ w 0 1 - w 0 0 ≤ 1/2 ∧ -(1/2) ≤ w 0 1 - w 0 0) := by
  constructor
  · intro hA
    have r0 := hA 0
    have r1 := hA 1
    have r2 := hA 2
    have r3 := hA 3
    simp [exGp, exGm, exH, pOf, muOf, exVtx, Finset.sum_range_succ] at r0 r1 r2 r3
    refine ⟨by linarith, by linarith, by linarith⟩
  · rintro ⟨a, b, c⟩ r
    fin_cases r <;>
      simp [exGp, exGm, exH, pOf, muOf, exVtx, Finset.sum_range_succ] <;> linarith

/-- feasibility: the worst-case distribution induces `p = 1`, `μ = 1/2` -/
lemma ex_feas : ∃ w : ℕ → ℕ → ℚ, (∀ s < 1, ∀ i < 2, 0 ≤ w s i) ∧
    Adm exGp exGm exH 1 1 1 (pOf 2 w) (muOf 1 2 exVtx (fun _ _ => True) w) := by
  refine ⟨exW, ?_, (ex_adm_iff exW).mpr ?_⟩
  · intro s _ i _; unfold exW; split_ifs <;> norm_num
  · norm_num [exW]

/-- for `c = 3/2` the worst case over the vertex distributions is `≤ 0` … -/
lemma ex_worst : ∀ w : ℕ → ℕ → ℚ, (∀ s < 1, ∀ i < 2, 0 ≤ w s i) →
    Adm exGp exGm exH 1 1 1 (pOf 2 w) (muOf 1 2 exVtx (fun _ _ => True) w) →
    ∑ s ∈ range 1, ∑ i ∈ range 2, w s i * exF (3/2) s (exVtx s i) ≤ 0 := by
  intro w hw hadm
  obtain ⟨a, b, c⟩ := (ex_adm_iff w).mp hadm
  simp only [Finset.sum_range_succ, Finset.sum_range_zero, zero_add, exF_v0, exF_v1]
  linarith

/-- … so `dro_complete_vertex` provides multipliers (non-vacuity of its hypotheses) … -/
example : ∃ (α : ℕ → ℚ) (β : ℕ → ℕ → ℚ),
    (∀ s < 1, ∀ i < 2, exF (3/2) s (exVtx s i) ≤ α s + ∑ k ∈ range 1,
      if True then ∑ j ∈ range 1, β k j * exVtx s i j else 0) ∧
    (∀ p μ, Adm exGp exGm exH 1 1 1 p μ →
      ∑ s ∈ range 1, α s * p s + ∑ k ∈ range 1, ∑ j ∈ range 1, β k j * μ k j ≤ 0) :=
  dro_complete_vertex 1 1 1 2 exVtx (fun _ _ => True) exGp exGm exH
    (fun s i => exF (3/2) s (exVtx s i)) ex_feas ex_worst

/-- … and `dro_exact_vertex` gives them on the whole interval … -/
example : ∃ (α : ℕ → ℚ) (β : ℕ → ℕ → ℚ),
    (∀ s < 1, ∀ z, Hull 1 2 (exVtx s) z → exF (3/2) s z ≤ α s + ∑ k ∈ range 1,
      if True then ∑ j ∈ range 1, β k j * z j else 0) ∧
    (∀ p μ, Adm exGp exGm exH 1 1 1 p μ →
      ∑ s ∈ range 1, α s * p s + ∑ k ∈ range 1, ∑ j ∈ range 1, β k j * μ k j ≤ 0) :=
  (dro_exact_vertex 1 1 1 2 exVtx (fun _ _ => True) exGp exGm exH (exF (3/2))
    (exF_convex (3/2)) ex_feas).mpr ex_worst

/-- … explicitly `α = -1/2`, `β = 1` (the tangent `z - 1/2` of `|z| + z - 3/2` through the two
vertices; `α·p + β·μ = -1/2 + μ ≤ 0` is tight at the worst-case mean `μ = 1/2`) -/
example :
    (∀ s < 1, ∀ i < 2, exF (3/2) s (exVtx s i) ≤ (fun _ => (-1/2 : ℚ)) s + ∑ k ∈ range 1,
      if True then ∑ j ∈ range 1, (fun _ _ => (1:ℚ)) k j * exVtx s i j else 0) ∧
    (∀ p μ, Adm exGp exGm exH 1 1 1 p μ →
      ∑ s ∈ range 1, (fun _ => (-1/2 : ℚ)) s * p s
        + ∑ k ∈ range 1, ∑ j ∈ range 1, (fun _ _ => (1:ℚ)) k j * μ k j ≤ 0) := by
  constructor
  · intro s _ i hi
    have : i = 0 ∨ i = 1 := by omega
    rcases this with rfl | rfl
    · rw [exF_v0]; simp [exVtx]; norm_num
    · rw [exF_v1]; simp [exVtx]; norm_num
  · intro p μ hA
    have r0 := hA 0
    have r2 := hA 2
    simp [exGp, exGm, exH, Finset.sum_range_succ] at r0 r2
    simp [Finset.sum_range_succ]
    linarith

/-- for `c = 1` the worst case is `1/2 > 0` (attained by `exW`) and **no** multipliers exist:
the reformulated constraint is infeasible exactly when the robust constraint fails -/
example : ¬ ∃ (α : ℕ → ℚ) (β : ℕ → ℕ → ℚ),
    (∀ s < 1, ∀ z, Hull 1 2 (exVtx s) z → exF 1 s z ≤ α s + ∑ k ∈ range 1,
      if True then ∑ j ∈ range 1, β k j * z j else 0) ∧
    (∀ p μ, Adm exGp exGm exH 1 1 1 p μ →
      ∑ s ∈ range 1, α s * p s + ∑ k ∈ range 1, ∑ j ∈ range 1, β k j * μ k j ≤ 0) := by
  intro hex
  have h := (dro_exact_vertex 1 1 1 2 exVtx (fun _ _ => True) exGp exGm exH (exF 1)
    (exF_convex 1) ex_feas).mp hex exW
    (by intro s _ i _; unfold exW; split_ifs <;> norm_num)
    ((ex_adm_iff exW).mpr (by norm_num [exW]))
  simp only [Finset.sum_range_succ, Finset.sum_range_zero, zero_add, exF_v0, exF_v1] at h
  norm_num [exW] at h

/-- `maxAffine_convex` instantiated: `|z_0|` as the maximum of the pieces `z_0` and `-z_0` -/
example : VtxConvex 1 2 (exVtx 0)
    (fun z => (range (1 + 1)).sup' nonempty_range_add_one
      (fun l => (fun _ => (0:ℚ)) l + ∑ j ∈ range 1, (fun l _ => if l = 0 then (1:ℚ) else -1) l j * z j)) :=
  maxAffine_convex 1 2 1 (exVtx 0) (fun _ => 0) (fun l _ => if l = 0 then 1 else -1)

end RsomeV.C04
