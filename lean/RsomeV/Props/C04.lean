namespace RsomeV.C04
end RsomeV.C04
