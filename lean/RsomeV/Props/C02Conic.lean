import RsomeV.L.ConicStrongDual
import RsomeV.L.ConicStrongFin
import RsomeV.L.ConicStrongGap
import RsomeV.Props.C02

/-! C02 (conic supports) — exactness of the robust counterpart for supports with second-order
cones, from a Slater condition.

`RsomeV.C02.rc_exact_conic_partial` proves exactness of the model `RoRows.leToRc` of
`RoConstr.le_to_rc` *relative to* the hypothesis `hgap` (no duality gap + dual attainment of the
inner maximisation of every row over the support).  Here `hgap` is **proved** for `K = ℝ`, supports
with second-order cones and no exponential cones, under a *partial Slater condition*: the support
has a point that satisfies every second-order cone strictly (the polyhedral constraints need not be
strict).  The proof is conic strong duality:

* `RsomeV.ConicStrong.conic_lagrange` (`RsomeV/L/ConicStrong.lean`): abstract conic Lagrangian
  duality with a Slater point, from the geometric Hahn–Banach theorem of Mathlib;
* `RsomeV.ConeProg.soc_multiplier` (`RsomeV/L/ConicStrongMult.lean`) its instance for the
  second-order cones of a `ConeProg ℝ` (self-duality of the product cone:
  `RsomeV.prodCone_dual`, `RsomeV/L/ConicStrongSoc.lean`);
* `RsomeV.ConeProg.coneDual_strong_soc` (`RsomeV/L/ConicStrongDual.lean`): the multiplier is
  combined with LP strong duality (`LinProg.dual_strong`) and assembled into a feasible point of
  `coneDual`, for each of the layouts `socDual` may choose (no cones, compact, general);
* `RsomeV.soc_strong_duality_fin` (`RsomeV/L/ConicStrongFin.lean`): the same duality theorem in
  plain matrix form over `Fin n → ℝ` (independent of the program model). -/

set_option linter.unusedSectionVars false
set_option linter.unusedSimpArgs false
set_option linter.unusedVariables false

namespace RsomeV.C02Conic
open Finset RsomeV ConeProg RoRows

/-- **Conic strong duality with dual attainment in matrix form** (independent of the model of
rsome's programs).  Primal: `sup { ⟪c, ζ⟫ : A ζ ≤ b, F ζ = g, ζ[q] ∈ SOC for q ∈ qs }` over
`ζ : Fin n → ℝ`; the cones are index lists (head first, they may overlap), coordinates in no cone
are free.  Partial Slater: some `ζ0` satisfies the rows and is strictly inside every cone.  If `γ`
bounds the objective on the feasible set, there are multipliers `lam ≥ 0`, `mu` and `s` in the
(self-dual) product of second-order cones — one entry per position of `qs.flatten`, laid out on
the consecutive blocks `qBlocks qs 0` — such that `Aᵀ lam + Fᵀ mu - scatter s = c` and
`⟪b, lam⟫ + ⟪g, mu⟫ ≤ γ`. -/
theorem soc_strong_duality {n p r : ℕ}
    (A : Fin p → Fin n → ℝ) (b : Fin p → ℝ) (F : Fin r → Fin n → ℝ) (g : Fin r → ℝ)
    (qs : List (List ℕ)) (hqs : ∀ q ∈ qs, ∀ j ∈ q, j < n)
    (c : Fin n → ℝ) (γ : ℝ)
    (hslater : ∃ ζ0 : Fin n → ℝ, (∀ i, ∑ j, A i j * ζ0 j ≤ b i) ∧ (∀ i, ∑ j, F i j * ζ0 j = g i) ∧
        ∀ q ∈ qs, socStrict (extF ζ0) q)
    (hbd : ∀ ζ : Fin n → ℝ, (∀ i, ∑ j, A i j * ζ j ≤ b i) → (∀ i, ∑ j, F i j * ζ j = g i) →
        (∀ q ∈ qs, socMem (extF ζ) q) → ∑ j, c j * ζ j ≤ γ) :
    ∃ (lam : Fin p → ℝ) (mu : Fin r → ℝ) (s : ℕ → ℝ),
      (∀ i, 0 ≤ lam i) ∧ (∀ bl ∈ qBlocks qs 0, socMem s bl) ∧
      (∀ j : Fin n, ∑ i, lam i * A i j + ∑ i, mu i * F i j
          - ∑ k ∈ range qs.flatten.length, (if qs.flatten.getD k 0 = j.val then s k else 0) = c j) ∧
      ∑ i, lam i * b i + ∑ i, mu i * g i ≤ γ :=
  soc_strong_duality_fin A b F g qs hqs c γ hslater hbd

/-- **Conic strong duality (second-order cones, partial Slater) for the model of
`do_math(primal=False)`.**  `P` is a well-formed conic program of the development without
exponential cones; `x0` is feasible and strictly inside every second-order cone
(`socStrict`: head `>` Euclidean norm of the tail, stated without square roots); `γ` is a lower
bound of the objective on the feasible set.  Then `P.coneDual` — compact or general layout,
whichever the code selects — has a feasible point whose value `- obj y` is at least `γ`
(no duality gap, dual attained).

Hypotheses used only when the compact layout is selected (`P.rowsRemoved = true`):
`hc` (cone columns carry no cost; same as in weak duality `ConeProg.coneDual_weak`) and the added
`htail` (the tail columns of the cones have no sign bound, i.e. `isFree`: true of the auxiliary
columns `socp.Model.do_math` creates; the compact layout substitutes the dual rows of cone columns
away, which loses the slack of a sign-bounded tail column and can open a gap). -/
theorem coneDual_strong (P : ConeProg ℝ) (E : ℝ → ℝ → ℝ → Prop) (hwf : P.WF)
    (hx : P.xmat = [])
    (hc : P.rowsRemoved = true → ∀ q ∈ P.qmat, ∀ j ∈ q, P.lp.c j = 0)
    (htail : P.rowsRemoved = true → ∀ q ∈ P.qmat, ∀ j ∈ q.tail, P.lp.isFree j = true)
    (x0 : ℕ → ℝ) (hx0 : P.Feas E x0) (hs : ∀ q ∈ P.qmat, socStrict x0 q)
    (γ : ℝ) (hbd : ∀ x, P.Feas E x → γ ≤ P.lp.obj x) :
    ∃ y, P.coneDual.Feas E y ∧ γ ≤ - P.coneDual.lp.obj y :=
  coneDual_strong_soc P E hwf hx hc htail x0 hx0 hs γ hbd

/-- Under the same hypotheses, if the primal optimum is attained at `xs` then the dual optimum is
attained with the same value (needs the pairing property of `E` only formally: there are no
exponential cones). -/
theorem coneDual_strong_attained (P : ConeProg ℝ) (E : ℝ → ℝ → ℝ → Prop) (hE : ExpPair E)
    (hwf : P.WF) (hx : P.xmat = [])
    (hc : P.rowsRemoved = true → ∀ q ∈ P.qmat, ∀ j ∈ q, P.lp.c j = 0)
    (htail : P.rowsRemoved = true → ∀ q ∈ P.qmat, ∀ j ∈ q.tail, P.lp.isFree j = true)
    (x0 : ℕ → ℝ) (hx0 : P.Feas E x0) (hs : ∀ q ∈ P.qmat, socStrict x0 q)
    (xs : ℕ → ℝ) (hxs : P.Feas E xs) (hopt : ∀ x, P.Feas E x → P.lp.obj xs ≤ P.lp.obj x) :
    ∃ y, P.coneDual.Feas E y ∧ - P.coneDual.lp.obj y = P.lp.obj xs ∧
      ∀ y', P.coneDual.Feas E y' → - P.coneDual.lp.obj y' ≤ - P.coneDual.lp.obj y := by
  obtain ⟨y, hy, hge⟩ := coneDual_strong P E hwf hx hc htail x0 hx0 hs (P.lp.obj xs) hopt
  have hweak : ∀ y', P.coneDual.Feas E y' → - P.coneDual.lp.obj y' ≤ P.lp.obj xs := by
    intro y' hy'
    exact coneDual_weak P E hE hwf hc
      (by intro _ e he; rw [hx] at he; simp at he) xs y' hxs hy'
  have heq : - P.coneDual.lp.obj y = P.lp.obj xs := le_antisymm (hweak y hy) hge
  exact ⟨y, hy, heq, fun y' hy' => by rw [heq]; exact hweak y' hy'⟩

/-- **`htail` cannot be dropped from `coneDual_strong`.**  There is a well-formed program without
exponential cones, with zero cost on its cone columns, a Slater point and objective bounded below by
`0` on the feasible set, for which `coneDual` (it selects the compact layout) has *no* feasible point
of value `≥ 0`.  The witness `ConicGap.exGap` (`RsomeV/L/ConicStrongGap.lean`: columns `h t z`, rows
`h = 1`, `t + z = 0`, bound `t ≥ 0`, cone `[h; t]`, objective `min -z`) violates only `htail`: the
tail column `t` of its cone has the sign bound `t ≥ 0`. -/
theorem compact_layout_needs_free_tails (E : ℝ → ℝ → ℝ → Prop) :
    ∃ P : ConeProg ℝ, P.WF ∧ P.xmat = [] ∧ P.rowsRemoved = true ∧
      (∀ q ∈ P.qmat, ∀ j ∈ q, P.lp.c j = 0) ∧
      (∃ x0, P.Feas E x0 ∧ ∀ q ∈ P.qmat, socStrict x0 q) ∧
      (∀ x, P.Feas E x → 0 ≤ P.lp.obj x) ∧
      ¬ ∃ y, P.coneDual.Feas E y ∧ 0 ≤ - P.coneDual.lp.obj y := by
  obtain ⟨h1, h2, h3, h4, h5, h6⟩ := ConicGap.compact_needs_free_tails E
  refine ⟨ConicGap.exGap, h1, h2, ?_, h3, h4, h5, h6⟩
  have hq : ¬ (ConicGap.exGap.qmat.isEmpty = true) := by simp [ConicGap.exGap]
  simp [rowsRemoved, ConicGap.exGap_compact, hq]

/-- the contrast: on the same program with a denser stored pattern (`ConicGap.exGap2`) the test
`compactOk` fails, the general layout is selected, and `coneDual_strong` (no `htail` needed) yields a
dual point that attains the primal optimum `0` -/
example (E : ℝ → ℝ → ℝ → Prop) :
    ConicGap.exGap2.rowsRemoved = false ∧
    ∃ y, ConicGap.exGap2.coneDual.Feas E y ∧ 0 ≤ - ConicGap.exGap2.coneDual.lp.obj y :=
  ⟨ConicGap.exGap2_not_compact, ConicGap.general_layout_no_gap E⟩

/-- **The hypothesis `hgap` of `C02.rc_exact_conic_partial`, proved** for supports with
second-order cones (no exponential cones) that have a Slater point: whenever row `n` holds on the
whole support, the conic dual of the support program re-costed with (minus) the uncertain part of
row `n` has a feasible point whose value covers the deterministic part of the row. -/
theorem hgap_soc_slater (Pz : ConeProg ℝ) (E : ℝ → ℝ → ℝ → Prop) (hwf : Pz.WF)
    (hx : Pz.xmat = [])
    (R : RoRows ℝ) (hnz : R.nz ≤ Pz.lp.nc)
    (hq : ∀ q ∈ Pz.qmat, ∀ j ∈ q, R.nz ≤ j)
    (htail : Pz.rowsRemoved = true → ∀ q ∈ Pz.qmat, ∀ j ∈ q.tail, Pz.lp.isFree j = true)
    (hslater : ∃ ζ0, Pz.Feas E ζ0 ∧ ∀ q ∈ Pz.qmat, socStrict ζ0 q)
    (x : ℕ → ℝ) :
    ∀ n < R.m, (∀ ζ, Pz.Feas E ζ → R.eval n x ζ ≤ 0) →
      ∃ y, (Pz.withCost (R.rowCost n x)).coneDual.Feas E y ∧
        R.detPart n x ≤ - (Pz.withCost (R.rowCost n x)).coneDual.lp.obj y := by
  intro n hn hsemi
  obtain ⟨ζ0, hζ0, hs⟩ := hslater
  set P' := Pz.withCost (R.rowCost n x) with hP'
  have hwf' : P'.WF := ⟨hwf.qlt, hwf.xlen, hwf.xlt, hwf.xnotneg, hwf.stcov⟩
  have hfe : ∀ ζ, P'.Feas E ζ ↔ Pz.Feas E ζ := fun ζ =>
    ⟨fun h => ⟨⟨h.lin.rows, h.lin.ubs, h.lin.lbs⟩, h.soc, h.exp⟩,
     fun h => ⟨⟨h.lin.rows, h.lin.ubs, h.lin.lbs⟩, h.soc, h.exp⟩⟩
  apply coneDual_strong P' E hwf' hx
  · intro _ q hq' j hj
    show R.rowCost n x j = 0
    have := hq q hq' j hj
    simp only [rowCost, show ¬ j < R.nz by omega, if_false]
  · intro hrr q hq' j hj
    exact htail hrr q hq' j hj
  · exact (hfe ζ0).mpr hζ0
  · exact hs
  · intro ζ hζ
    have h := hsemi ζ ((hfe ζ).mp hζ)
    rw [R.eval_eq] at h
    rw [hP', R.obj_rowCost Pz hnz n x ζ]
    linarith

/-- **Exactness of the robust counterpart for supports with second-order cones, under a Slater
condition** (`K = ℝ`).  `Pz` is the support program (second-order cones, no exponential cones),
formulated with `obj=False` (`hones`); the uncertain rows `R` read only the first `R.nz` columns
of `Pz`, the cones sit on later (lifted / auxiliary) columns (`hnz`, `hq`).  If the support has a
point `ζ0` that satisfies every second-order cone *strictly* (`hslater`; rows and bounds need not
be strict), then the projection of the feasible set of the counterpart `R.leToRc Pz.coneDual` on
the decision columns is *exactly* the set of decisions that satisfy the uncertain rows on the whole
support.

`→` is `C01.rc_sound` (weak duality); `←` is conic strong duality (`coneDual_strong`) through
`C02.rc_complete_of_dual`.  `E` (the exponential-cone predicate) is arbitrary: neither program has
exponential cones.  `htail` is needed only when the compact dual layout is selected, see
`coneDual_strong`. -/
theorem rc_exact_soc_slater (Pz : ConeProg ℝ) (E : ℝ → ℝ → ℝ → Prop) (hwf : Pz.WF)
    (hx : Pz.xmat = [])
    (hones : ∀ j, Pz.lp.c j = 1)
    (R : RoRows ℝ) (hnz : R.nz ≤ Pz.lp.nc)
    (hq : ∀ q ∈ Pz.qmat, ∀ j ∈ q, R.nz ≤ j)
    (htail : Pz.rowsRemoved = true → ∀ q ∈ Pz.qmat, ∀ j ∈ q.tail, Pz.lp.isFree j = true)
    (hslater : ∃ ζ0, Pz.Feas E ζ0 ∧ ∀ q ∈ Pz.qmat, socStrict ζ0 q)
    (x : ℕ → ℝ) :
    (∃ v' : ℕ → ℝ, (∀ d < R.nd, v' d = x d) ∧ (R.leToRc Pz.coneDual).prog.Feas E v') ↔
      (∀ n < R.m, ∀ ζ, Pz.Feas E ζ → R.eval n x ζ ≤ 0) := by
  constructor
  · rintro ⟨v', hd, hv⟩ n hn ζ hζ
    have hcx : Pz.coneDual.xmat = [] := by
      have : Pz.coneDual = Pz.socDual := by
        unfold coneDual; rw [if_pos (by rw [hx]; rfl)]
      rw [this, socDual_xmat]
    have hxm : (R.leToRc Pz.coneDual).prog.xmat = [] := by
      simp [leToRc, hcx]
    have hv0 : (R.leToRc Pz.coneDual).prog.Feas (fun _ _ _ => False) v' :=
      ⟨hv.lin, hv.soc, by intro e he; rw [hxm] at he; simp at he⟩
    have hζ0 : Pz.Feas (fun _ _ _ => False) ζ :=
      ⟨hζ.lin, hζ.soc, by intro e he; rw [hx] at he; simp at he⟩
    have h := C01.rc_sound Pz (fun _ _ _ => False) (fun _ _ _ _ _ _ h _ => h.elim) hwf hones R hnz
      hq (by intro _ e he; rw [hx] at he; simp at he) v' hv0 n hn ζ hζ0
    rw [R.eval_congr n x v' ζ (fun d hd' => (hd d hd').symm)]
    exact h
  · intro hsemi
    exact C02.rc_complete_of_dual Pz E hones R hnz hq x
      (fun n hn => hgap_soc_slater Pz E hwf hx R hnz hq htail hslater x n hn (hsemi n hn))

/-- **Exactness for supports with second-order cones under a Slater condition, late random
variables allowed** (no `hnz`; conic counterpart of `C02.rc_exact_late_lp`): the semi-infinite rows
quantify over every `ζ` whose first `Pz.lp.nc` components are a point of the support program; the
later components (random variables declared after the set) are unrestricted, and the counterpart
contains block (4).  `→` is `C01.rc_sound_late'`, `←` is conic strong duality through
`C02.rc_complete_of_dual_late`. -/
theorem rc_exact_late_soc_slater (Pz : ConeProg ℝ) (E : ℝ → ℝ → ℝ → Prop) (hwf : Pz.WF)
    (hx : Pz.xmat = [])
    (hones : ∀ j, Pz.lp.c j = 1)
    (R : RoRows ℝ)
    (hq : ∀ q ∈ Pz.qmat, ∀ j ∈ q, min R.nz Pz.lp.nc ≤ j)
    (htail : Pz.rowsRemoved = true → ∀ q ∈ Pz.qmat, ∀ j ∈ q.tail, Pz.lp.isFree j = true)
    (hslater : ∃ ζ0, Pz.Feas E ζ0 ∧ ∀ q ∈ Pz.qmat, socStrict ζ0 q)
    (x : ℕ → ℝ) :
    (∃ v' : ℕ → ℝ, (∀ d < R.nd, v' d = x d) ∧ (R.leToRc Pz.coneDual).prog.Feas E v') ↔
      (∀ n < R.m, ∀ ζ₀, Pz.Feas E ζ₀ → ∀ ζ : ℕ → ℝ, (∀ j < Pz.lp.nc, ζ j = ζ₀ j) →
        R.eval n x ζ ≤ 0) := by
  constructor
  · rintro ⟨v', hd, hv⟩ n hn ζ₀ hζ₀ ζ hζ
    have hcx : Pz.coneDual.xmat = [] := by
      have : Pz.coneDual = Pz.socDual := by
        unfold coneDual; rw [if_pos (by rw [hx]; rfl)]
      rw [this, socDual_xmat]
    have hxm : (R.leToRc Pz.coneDual).prog.xmat = [] := by
      simp [leToRc, hcx]
    have hv0 : (R.leToRc Pz.coneDual).prog.Feas (fun _ _ _ => False) v' :=
      ⟨hv.lin, hv.soc, by intro e he; rw [hxm] at he; simp at he⟩
    have hζ0 : Pz.Feas (fun _ _ _ => False) ζ₀ :=
      ⟨hζ₀.lin, hζ₀.soc, by intro e he; rw [hx] at he; simp at he⟩
    have h := C01.rc_sound_late' Pz (fun _ _ _ => False) (fun _ _ _ _ _ _ h _ => h.elim) hwf hones R
      hq (by intro _ e he; rw [hx] at he; simp at he) v' hv0 n hn ζ₀ hζ0 ζ hζ
    rw [R.eval_congr n x v' ζ (fun d hd' => (hd d hd').symm)]
    exact h
  · intro hsemi
    obtain ⟨ζ0, hζ0, hs⟩ := hslater
    -- the late components are unrestricted, so their coefficients vanish
    have h4 : ∀ n < R.m, ∀ j, Pz.lp.nc ≤ j → j < R.nz → R.coef n j x = 0 := by
      intro n hn j h1 h2
      by_contra hc
      set A := R.eval n x ζ0 with hA
      have h := hsemi n hn ζ0 hζ0 (fun i => if i = j then ζ0 i + (1 - A) / R.coef n j x else ζ0 i)
        (by intro i hi; rw [if_neg (by omega)])
      rw [R.eval_bump n x ζ0 j h2, mul_div_cancel₀ _ hc] at h
      linarith
    apply C02.rc_complete_of_dual_late Pz E hones R hq x h4
    intro n hn
    set R₀ := R.trunc (min R.nz Pz.lp.nc) with hR₀
    have hnz₀ : R₀.nz ≤ Pz.lp.nc := Nat.min_le_right _ _
    have hgap := hgap_soc_slater Pz E hwf hx R₀ hnz₀ hq htail ⟨ζ0, hζ0, hs⟩ x n hn
    apply hgap
    intro ζ hζ
    have h := hsemi n hn ζ hζ ζ (fun _ _ => rfl)
    rw [R.eval_eq] at h
    rw [R₀.eval_eq]
    have hsum : ∑ j ∈ range R.nz, R.coef n j x * ζ j
        = ∑ j ∈ range R₀.nz, R₀.coef n j x * ζ j := by
      apply sum_range_tail_zero (min R.nz Pz.lp.nc) R.nz (Nat.min_le_left _ _)
      · intro j _; rfl
      · intro j h1 h2
        show R.coef n j x * ζ j = 0
        rw [h4 n hn j (by omega) h2, zero_mul]
    rw [← hsum]
    exact h

/-- the same statement obtained literally by discharging `hgap` in
`C02.rc_exact_conic_partial` (this needs the formal pairing hypothesis `ExpPair E`) -/
theorem rc_exact_soc_slater' (Pz : ConeProg ℝ) (E : ℝ → ℝ → ℝ → Prop) (hE : ExpPair E)
    (hwf : Pz.WF) (hx : Pz.xmat = [])
    (hones : ∀ j, Pz.lp.c j = 1)
    (R : RoRows ℝ) (hnz : R.nz ≤ Pz.lp.nc)
    (hq : ∀ q ∈ Pz.qmat, ∀ j ∈ q, R.nz ≤ j)
    (htail : Pz.rowsRemoved = true → ∀ q ∈ Pz.qmat, ∀ j ∈ q.tail, Pz.lp.isFree j = true)
    (hslater : ∃ ζ0, Pz.Feas E ζ0 ∧ ∀ q ∈ Pz.qmat, socStrict ζ0 q)
    (x : ℕ → ℝ) :
    (∃ v' : ℕ → ℝ, (∀ d < R.nd, v' d = x d) ∧ (R.leToRc Pz.coneDual).prog.Feas E v') ↔
      (∀ n < R.m, ∀ ζ, Pz.Feas E ζ → R.eval n x ζ ≤ 0) :=
  C02.rc_exact_conic_partial Pz E hE hwf hones R hnz hq
    (by intro _ e he; rw [hx] at he; simp at he) x
    (hgap_soc_slater Pz E hwf hx R hnz hq htail hslater x)


/-! #### The hypotheses are satisfiable: the unit ball `‖z‖₂ ≤ 1` in the plane

The support program below is, entry by entry, what rsome 's `ro.Model` stores for
`(z[0]*x + 2*z[1] - 4 <= 0).forall(rso.norm(z) <= 1)` with `z = m.rvar(2)`
(`m.sup_model.do_math(primal=True, obj=False)`): columns `z₀ z₁ u₀ u₁ t`, rows `z₀ - u₀ = 0`,
`z₁ - u₁ = 0`, `t ≤ 1`, bound `t ≥ 0`, cone `[t; u₀, u₁]`, all-ones cost.  For this program
`socp.Model.do_math(primal=False)` selects the compact layout. -/

/-- support program of the unit ball in the plane, in rsome's encoding -/
noncomputable def exBall : ConeProg ℝ :=
  { lp := { nr := 3, nc := 5
            a := fun i j =>
              if i = 0 ∧ j = 0 then 1 else if i = 0 ∧ j = 2 then -1
              else if i = 1 ∧ j = 1 then 1 else if i = 1 ∧ j = 3 then -1
              else if i = 2 ∧ j = 4 then 1 else 0
            b := fun i => if i = 2 then 1 else 0
            eq := fun i => decide (i < 2)
            ub := fun _ => none
            lb := fun j => if j = 4 then some 0 else none
            c := fun _ => 1 }
    st := fun i j => decide ((i = 0 ∧ (j = 0 ∨ j = 2)) ∨ (i = 1 ∧ (j = 1 ∨ j = 3)) ∨ (i = 2 ∧ j = 4))
    qmat := [[4, 2, 3]], xmat := [] }

/-- the uncertain row `x·z₀ + 2·z₁ - 4 ≤ 0` over one decision column -/
noncomputable def exRow : RoRows ℝ :=
  { nd := 1, m := 1, nz := 2
    Rl := fun _ j _ => if j = 0 then 1 else 0
    Rc := fun _ j => if j = 1 then 2 else 0
    al := fun _ _ => 0, ac := fun _ => -4 }

lemma exBall_wf : exBall.WF where
  qlt := by
    intro q hq j hj
    simp only [exBall, List.mem_singleton] at hq
    subst hq
    simp only [List.mem_cons, List.not_mem_nil, or_false] at hj
    show j < 5
    omega
  xlen := by intro e he; simp [exBall] at he
  xlt := by intro e he; simp [exBall] at he
  xnotneg := by intro e he; simp [exBall] at he
  stcov := by
    intro i j h
    simp only [exBall] at h ⊢
    by_contra hst
    apply h
    simp only [decide_eq_true_eq] at hst
    split_ifs <;> first | rfl | (exfalso; apply hst; omega)

/-- the centre of the ball with `t = 1/2`: feasible, and strictly inside the cone -/
noncomputable def exCentre : ℕ → ℝ := fun j => if j = 4 then 1 / 2 else 0

lemma exBall_row (i : ℕ) (ζ : ℕ → ℝ) :
    exBall.lp.row i ζ = if i = 0 then ζ 0 - ζ 2 else if i = 1 then ζ 1 - ζ 3
      else if i = 2 then ζ 4 else 0 := by
  simp only [LinProg.row, exBall, Finset.sum_range_succ, Finset.sum_range_zero]
  by_cases h0 : i = 0
  · subst h0; norm_num; ring
  by_cases h1 : i = 1
  · subst h1; norm_num; ring
  by_cases h2 : i = 2
  · subst h2; norm_num
  · simp [h0, h1, h2]

lemma exBall_feas_iff (E : ℝ → ℝ → ℝ → Prop) (ζ : ℕ → ℝ) :
    exBall.Feas E ζ ↔ ζ 0 = ζ 2 ∧ ζ 1 = ζ 3 ∧ ζ 4 ≤ 1 ∧ 0 ≤ ζ 4 ∧ ζ 2 ^ 2 + ζ 3 ^ 2 ≤ ζ 4 ^ 2 := by
  constructor
  · intro h
    have r0 := h.lin.rows 0 (by show 0 < 3; omega)
    have r1 := h.lin.rows 1 (by show 1 < 3; omega)
    have r2 := h.lin.rows 2 (by show 2 < 3; omega)
    rw [exBall_row] at r0 r1 r2
    simp [exBall] at r0 r1 r2
    have hs := h.soc [4, 2, 3] (by simp [exBall])
    simp [socMem] at hs
    refine ⟨by linarith, by linarith, r2, hs.1, by linarith [hs.2]⟩
  · rintro ⟨h0, h1, h2, h3, h4⟩
    refine ⟨⟨?_, ?_, ?_⟩, ?_, ?_⟩
    · intro i hi
      have hi' : i < 3 := hi
      rw [exBall_row]
      interval_cases i <;> simp [exBall] <;> linarith
    · intro j _; trivial
    · intro j _
      show LinProg.geLb (ζ j) (if j = 4 then some 0 else none)
      split_ifs with hj
      · subst hj; exact h3
      · trivial
    · intro q hq
      simp only [exBall, List.mem_singleton] at hq
      subst hq
      simp [socMem]
      exact ⟨h3, by linarith⟩
    · intro e he; simp [exBall] at he

lemma exBall_slater (E : ℝ → ℝ → ℝ → Prop) :
    ∃ ζ0, exBall.Feas E ζ0 ∧ ∀ q ∈ exBall.qmat, socStrict ζ0 q := by
  refine ⟨exCentre, (exBall_feas_iff E exCentre).mpr ?_, ?_⟩
  · simp [exCentre]; norm_num
  · intro q hq
    simp only [exBall, List.mem_singleton] at hq
    subst hq
    simp [socStrict, exCentre]

lemma exBall_tail : ∀ q ∈ exBall.qmat, ∀ j ∈ q.tail, exBall.lp.isFree j = true := by
  intro q hq j hj
  simp only [exBall, List.mem_singleton] at hq
  subst hq
  simp only [List.tail_cons, List.mem_cons, List.not_mem_nil, or_false] at hj
  rcases hj with rfl | rfl <;> simp [LinProg.isFree, exBall]

/-! `socp.Model.do_math(primal=False)` selects the compact layout for `exBall` -/

lemma exBall_idxUb : exBall.lp.idxUb = [] := by
  simp [LinProg.idxUb, exBall]
lemma exBall_idxLb : exBall.lp.idxLb = [] := by
  simp [LinProg.idxLb, exBall, List.range_succ]
lemma exBall_idxFx : exBall.lp.idxFx = [] := by
  simp [LinProg.idxFx, exBall]
lemma exBall_augNr : exBall.lp.augNr = 3 := by
  simp [LinProg.augNr, exBall_idxUb, exBall_idxLb, exBall_idxFx]; rfl

lemma exBall_rs (j : ℕ) : exBall.rowStored j = (List.range 3).filter fun i => exBall.st i j := by
  rw [rowStored, exBall_augNr]
  apply List.filter_congr
  intro i hi
  have : i < exBall.lp.nr := List.mem_range.mp hi
  simp only [augSt, this, if_true]

lemma exBall_rs4 : exBall.rowStored 4 = [2] := by
  rw [exBall_rs]; simp [exBall, List.range_succ]
lemma exBall_rs2 : exBall.rowStored 2 = [0] := by
  rw [exBall_rs]; simp [exBall, List.range_succ]
lemma exBall_rs3 : exBall.rowStored 3 = [1] := by
  rw [exBall_rs]; simp [exBall, List.range_succ]

lemma exBall_dual_a (j i : ℕ) (hi : i < 3) : exBall.lp.dual.a j i = exBall.lp.a i j := by
  have h1 : exBall.lp.isNeg j = false := by simp [LinProg.isNeg, exBall]
  have h2 : i < exBall.lp.nr := hi
  simp only [LinProg.dual, h1, LinProg.augA, h2, if_true]
  simp

/-- the example exercises the compact layout (as the real code does on this support) -/
lemma exBall_rowsRemoved : exBall.rowsRemoved = true := by
  have hq : exBall.qmat = [[4, 2, 3]] := rfl
  have he : exBall.eye = [4, 2, 3] := rfl
  simp only [rowsRemoved, compactOk, he, hq]
  simp [exBall_rs4, exBall_rs2, exBall_rs3, exBall_dual_a]
  simp [exBall]

/-- all hypotheses of `rc_exact_soc_slater` hold for the unit ball and the row
`x·z₀ + 2·z₁ - 4 ≤ 0`, so the counterpart is exact at every decision `x` -/
example (E : ℝ → ℝ → ℝ → Prop) (x : ℕ → ℝ) :
    (∃ v' : ℕ → ℝ, (∀ d < exRow.nd, v' d = x d) ∧ (exRow.leToRc exBall.coneDual).prog.Feas E v') ↔
      (∀ n < exRow.m, ∀ ζ, exBall.Feas E ζ → exRow.eval n x ζ ≤ 0) :=
  rc_exact_soc_slater exBall E exBall_wf rfl (fun _ => rfl) exRow (by show 2 ≤ 5; omega)
    (by
      intro q hq j hj
      simp only [exBall, List.mem_singleton] at hq
      subst hq
      simp only [List.mem_cons, List.not_mem_nil, or_false] at hj
      show 2 ≤ j
      omega)
    (fun _ => exBall_tail) (exBall_slater E) x

/-- the decision `x = 2` satisfies the row on the whole ball (Cauchy-Schwarz:
`2·z₀ + 2·z₁ ≤ √8 < 4`) -/
lemma exRow_semi (E : ℝ → ℝ → ℝ → Prop) :
    ∀ n < exRow.m, ∀ ζ, exBall.Feas E ζ → exRow.eval n (fun _ => 2) ζ ≤ 0 := by
  intro n hn ζ hζ
  obtain ⟨h0, h1, h2, h3, h4⟩ := (exBall_feas_iff E ζ).mp hζ
  have hn0 : n = 0 := by change n < 1 at hn; omega
  subst hn0
  simp [RoRows.eval, exRow, Finset.sum_range_succ]
  rw [h0, h1]
  nlinarith [sq_nonneg (ζ 2 - ζ 3), sq_nonneg (ζ 2 + ζ 3 - 2)]

/-- hence multipliers exist that make the counterpart feasible at `x = 2`: the conic dual of the
inner problem `max {2·z₀ + 2·z₁ : ‖z‖₂ ≤ 1}` is attained without gap -/
example (E : ℝ → ℝ → ℝ → Prop) :
    ∃ v' : ℕ → ℝ, (∀ d < exRow.nd, v' d = 2) ∧ (exRow.leToRc exBall.coneDual).prog.Feas E v' :=
  (rc_exact_soc_slater exBall E exBall_wf rfl (fun _ => rfl) exRow (by show 2 ≤ 5; omega)
    (by
      intro q hq j hj
      simp only [exBall, List.mem_singleton] at hq
      subst hq
      simp only [List.mem_cons, List.not_mem_nil, or_false] at hj
      show 2 ≤ j
      omega)
    (fun _ => exBall_tail) (exBall_slater E) (fun _ => 2)).mpr (exRow_semi E)

end RsomeV.C02Conic
