import RsomeV.Gen.Mutations
import RsomeV.Props.C09

/-! # C19 — formulation is deterministic and leaves user data untouched

Determinism is by construction in the pure models (`formulate`, `coneDual`, `leToRc`, … are functions); what is proved
here is (a) that no in-place write in the source targets caller-supplied data, over the table of write sites regenerated
from the source on every run, and (b) cache stability (from the C09 state machine). -/

namespace RsomeV.C19
open RsomeV.Gen RsomeV.State

/-- the classified in-place writes whose target is rooted at a parameter of the enclosing function.  Each is either the
zero-padding (`resize` to more columns) of the internal sparse linear map of an expression object, a bookkeeping attribute of a
constraint object, or a write to a name that shadows a parameter after being rebound to an internal array. -/
def classified : List (MutSite × String) := [
  (⟨"lp", "Affine", "concat", "call.resize", "other", "other.linear"⟩, "zero-padding of an expression's internal linear map"),
  (⟨"lp", "Model", "st", "assign", "constr", "constr.index"⟩, "bookkeeping attribute of the constraint object"),
  (⟨"socp", "Model", "do_math", "assign", "obj", "obj[lbz_index]"⟩, "`obj` is rebound to the freshly built dual objective before the write"),
  (⟨"subroutines", "", "add_linear", "call.resize", "left", "left"⟩, "zero-padding of an internal linear map"),
  (⟨"subroutines", "", "add_linear", "call.resize", "right", "right"⟩, "zero-padding of an internal linear map")
]

/-- **`mutations_safe`**: every in-place write site of `rsome/*.py` whose target is rooted at a function parameter (the only
way formulation code could modify caller-supplied arrays) is one of the classified, harmless sites — none writes into numeric
data supplied by the user.  A new site (e.g. an augmented assignment on a matrix argument) makes this theorem fail. -/
theorem mutations_safe : ∀ s ∈ mutSites, s ∈ classified.map (·.1) := by
  decide +kernel

/-- and every classified site still exists (the whitelist carries no stale entry) -/
theorem classified_all_present : ∀ c ∈ classified, c.1 ∈ mutSites := by
  decide +kernel

variable {C F : Type}

/-- **`cache_stable`**: formulating repeatedly without new declarations returns the same program (corollary of the C09
state-machine invariant) — after any history. -/
theorem cache_stable (form : List C → F) (ops : List (Op C)) :
    let s := run form (init : Scratch C F) ops
    let s1 := (doMath form s).2
    (doMath form s1).1 = (doMath form s).1 ∧ (doMath form (doMath form s1).2).1 = (doMath form s).1 := by
  intro s s1
  have h := C09.history_independent form ops
  have h' := C09.history_independent form (ops ++ [Op.doMath])
  have e1 : run form (init : Scratch C F) (ops ++ [Op.doMath]) = s1 := by
    simp [run, List.foldl_append, step, s1, s]
  rw [e1] at h'
  exact ⟨h.2, h'.2.trans h.2⟩

/-- determinism of the pure models, stated once: a model function applied to equal declarations gives equal programs -/
theorem deterministic (form : List C → F) (d1 d2 : List C) (h : d1 = d2) : form d1 = form d2 := by rw [h]

end RsomeV.C19
