import RsomeV.M.Curv
import RsomeV.Gen.Atoms
import Mathlib.Tactic.Linarith
import Mathlib.Tactic.Ring
import Mathlib.Tactic.NormNum
import Mathlib.Algebra.Order.Ring.Abs

/-! # C10 — only convex uses of convex/concave expressions are accepted

Theorems about the model `RsomeV/M/Curv.lean` of rsome's sign/multiplier calculus, and about the
atom table extracted from `rsome/lp.py` on every run (`RsomeV/Gen/Atoms.lean`). -/

namespace RsomeV.C10
open RsomeV.Curv
variable {K : Type} [Field K] [LinearOrder K] [IsStrictOrderedRing K]

lemma sgn_mul_abs (k : K) : sgn k * |k| = k := by
  unfold sgn
  split_ifs with h1 h2
  · rw [abs_of_pos h1]; ring
  · rw [abs_of_neg h2]; ring
  · have : k = 0 := le_antisymm (not_lt.mp h1) (not_lt.mp h2)
    simp [this]

lemma sgn_cases (k : K) : sgn k = 1 ∨ sgn k = -1 ∨ sgn k = 0 := by
  unfold sgn; split_ifs <;> simp

/-- every single operation acts on the record exactly as on the value it stands for -/
theorem apply_denote (r : Rec K) (op : Op K) (F : K) :
    val (apply r op) F = applyVal (val r F) op := by
  cases op with
  | neg => simp [apply, neg, val, applyVal]; ring
  | scale k =>
    simp only [apply, scale, val, applyVal]
    have h := sgn_mul_abs k
    calc sgn k * r.sign * (r.mult * |k|) * F + k * r.out
        = (sgn k * |k|) * (r.sign * r.mult * F) + k * r.out := by ring
      _ = k * (r.sign * r.mult * F + r.out) := by rw [h]; ring
  | add c => simp [apply, addC, val, applyVal]; ring
  | sub c => simp [apply, subC, addC, val, applyVal]; ring
  | rsub c => simp [apply, rsubC, addC, neg, val, applyVal]; ring

/-- **`calc_denote`**: after any chain of negations, scalings by positive, negative *or zero* scalars
and additions/subtractions on either side, the record denotes exactly the written expression. -/
theorem calc_denote (r : Rec K) (ops : List (Op K)) (F : K) :
    val (run r ops) F = runVal (val r F) ops := by
  induction ops generalizing r with
  | nil => rfl
  | cons op ops ih =>
    simp only [run, runVal, List.foldl_cons] at *
    rw [ih (apply r op), apply_denote]

/-- invariant of reachable records -/
def Inv (r : Rec K) : Prop :=
  0 ≤ r.mult ∧ (r.sign = 1 ∨ r.sign = -1 ∨ r.sign = 0) ∧ (r.sign = 0 ↔ r.mult = 0)

theorem inv_atom (q : Bool) (s : K) (hs : s = 1 ∨ s = -1) : Inv (atom q s) := by
  refine ⟨by simp [atom], ?_, ?_⟩
  · rcases hs with h | h <;> simp [atom, h]
  · rcases hs with h | h <;> simp [atom, h]

theorem inv_apply (r : Rec K) (op : Op K) (h : Inv r) : Inv (apply r op) := by
  obtain ⟨hm, hs, hz⟩ := h
  cases op with
  | neg =>
    refine ⟨hm, ?_, ?_⟩
    · rcases hs with h | h | h <;> simp [apply, neg, h]
    · simp only [apply, neg, neg_eq_zero]; exact hz
  | scale k =>
    refine ⟨mul_nonneg hm (abs_nonneg k), ?_, ?_⟩
    · simp only [apply, scale]
      rcases sgn_cases k with hk | hk | hk <;> rcases hs with h | h | h <;> simp [hk, h]
    · simp only [apply, scale]
      by_cases hk : k = 0
      · subst hk; simp [sgn]
      · have hk' : sgn k ≠ 0 := by
          unfold sgn; split_ifs with h1 h2
          · norm_num
          · norm_num
          · exact absurd (le_antisymm (not_lt.mp h1) (not_lt.mp h2)) hk
        have ha : |k| ≠ 0 := abs_ne_zero.mpr hk
        constructor
        · intro h
          have : r.sign = 0 := by
            rcases mul_eq_zero.mp h with h' | h'
            · exact absurd h' hk'
            · exact h'
          rw [hz.mp this]; ring
        · intro h
          have : r.mult = 0 := by
            rcases mul_eq_zero.mp h with h' | h'
            · exact h'
            · exact absurd h' ha
          rw [hz.mpr this]; ring
  | add c => exact ⟨hm, hs, hz⟩
  | sub c => exact ⟨hm, hs, hz⟩
  | rsub c =>
    refine ⟨hm, ?_, ?_⟩
    · rcases hs with h | h | h <;> simp [apply, rsubC, addC, neg, h]
    · simp only [apply, rsubC, addC, neg, neg_eq_zero]; exact hz

theorem inv_run (r : Rec K) (ops : List (Op K)) (h : Inv r) : Inv (run r ops) := by
  induction ops generalizing r with
  | nil => exact h
  | cons op ops ih => simp only [run, List.foldl_cons] at *; exact ih _ (inv_apply r op h)

/-- the written left-hand side of `e <= c`, as a function of the value `F` of the convex base
function of the atom (whose own sign is `s`): it is `runVal (s·F) ops - c` -/
def written (s : K) (ops : List (Op K)) (c : K) (F : K) : K := runVal (s * 1 * F + 0) ops - c

/-- **`accept_convex`**: for every atom (convex `s = 1` or concave `s = -1`), every chain `ops` and
every right-hand side, `e <= c` is accepted **iff** the written left-hand side is non-decreasing in
the convex base function — i.e. exactly the convex orientation — and the accepted constraint record
`multiplier·f + affine_out ≤ 0` then *is* the written inequality. -/
theorem accept_convex (q : Bool) (s : K) (hs : s = 1 ∨ s = -1) (ops : List (Op K)) (c : K) :
    let r := run (atom q s) ops
    ((le r c).1 = .accept ↔ ∀ F₁ F₂ : K, F₁ ≤ F₂ → written s ops c F₁ ≤ written s ops c F₂) ∧
    ((le r c).1 = .accept → ∀ F, constrVal (le r c).2 F = written s ops c F) ∧
    ((le r c).1 ≠ .accept → (le r c).1 = .valueError) := by
  intro r
  have hinv : Inv r := inv_run _ ops (inv_atom q s hs)
  obtain ⟨hm, hsg, hz⟩ := hinv
  have hw : ∀ F, written s ops c F = r.sign * r.mult * F + r.out - c := by
    intro F
    have := calc_denote (atom q s) ops F
    simp only [written]
    have h0 : val (atom q s) F = s * 1 * F + 0 := by simp [val, atom]
    rw [← h0, ← this]; rfl
  have hl : (le r c).2 = subC r c := rfl
  have hsign : (subC r c).sign = r.sign := rfl
  have hmult : (subC r c).mult = r.mult := rfl
  have hout : (subC r c).out = r.out + -c := rfl
  refine ⟨?_, ?_, ?_⟩
  · constructor
    · intro hacc F₁ F₂ hF
      have hne : r.sign ≠ -1 := by
        intro h; simp [le, hsign, h] at hacc
      rw [hw, hw]
      have hcoef : 0 ≤ r.sign * r.mult := by
        rcases hsg with h | h | h
        · rw [h]; simpa using hm
        · exact absurd h hne
        · rw [h]; simp
      nlinarith [mul_le_mul_of_nonneg_left hF hcoef]
    · intro hmono
      by_contra hrej
      have hneg : r.sign = -1 := by
        by_contra h; apply hrej; simp [le, hsign, h]
      have hmpos : 0 < r.mult := by
        rcases lt_or_eq_of_le hm with h | h
        · exact h
        · exfalso
          have : r.sign = 0 := hz.mpr h.symm
          rw [hneg] at this; norm_num at this
      have := hmono 0 1 (by norm_num)
      rw [hw, hw, hneg] at this
      nlinarith
  · intro hacc F
    have hne : r.sign ≠ -1 := by
      intro h; simp [le, hsign, h] at hacc
    rw [hw, hl]
    simp only [constrVal, hmult, hout]
    rcases hsg with h | h | h
    · rw [h]; ring
    · exact absurd h hne
    · rw [h, hz.mp h]; ring
  · intro hna
    simp only [le, hsign] at *
    split_ifs at * with h
    · rfl
    · exact absurd rfl hna

/-- the same for `e >= c` (`right = c - e`): accepted iff the written right-hand side `c - e` is
non-decreasing in the convex base function, i.e. `e` itself is used on its concave side. -/
theorem accept_concave (q : Bool) (s : K) (hs : s = 1 ∨ s = -1) (ops : List (Op K)) (c : K) :
    let r := run (atom q s) ops
    ((ge r c).1 = .accept ↔ ∀ F₁ F₂ : K, F₁ ≤ F₂ → written s (ops ++ [.rsub c]) 0 F₁ ≤ written s (ops ++ [.rsub c]) 0 F₂) := by
  intro r
  have h := (accept_convex q s hs (ops ++ [.rsub c]) 0).1
  have hr : run (atom q s) (ops ++ [.rsub c]) = rsubC r c := by
    simp [run, List.foldl_append, apply, r]
  have : (ge r c).1 = (le (rsubC r c) 0).1 := by
    simp [ge, le, subC, addC]
  rw [this, ← hr]
  exact h

/-- non-vacuity / sanity: `2·norm(x) - 3 <= 5` is accepted, `-(norm(x)) <= 1` is rejected, and
`0·exp(x) <= 1` is accepted with multiplier `0` (the record F9 concerns). -/
example : (le (run (atom false (1 : ℚ)) [.scale 2, .sub 3]) 5).1 = .accept := by decide +kernel
example : (le (run (atom false (1 : ℚ)) [.neg]) 1).1 = .valueError := by decide +kernel
example : let v := le (run (atom false (1 : ℚ)) [.scale 0]) 1
    v.1 = .accept ∧ v.2.sign = 0 ∧ v.2.mult = 0 ∧ v.2.out = -1 := by decide +kernel

/-! ### piecewise expressions -/

lemma lmax_map_add (l : List K) (hl : l ≠ []) (c : K) : lmax (l.map (· + c)) = lmax l + c := by
  induction l with
  | nil => exact absurd rfl hl
  | cons a as ih =>
    cases as with
    | nil => simp [lmax]
    | cons b bs =>
      have := ih (by simp)
      simp only [List.map_cons, lmax] at *
      rw [this, max_add_add_right]

lemma lmax_map_mul (l : List K) (hl : l ≠ []) (a : K) (ha : 0 ≤ a) : lmax (l.map (· * a)) = lmax l * a := by
  induction l with
  | nil => exact absurd rfl hl
  | cons x xs ih =>
    cases xs with
    | nil => simp [lmax]
    | cons b bs =>
      have := ih (by simp)
      simp only [List.map_cons, lmax] at *
      rw [this, max_mul_of_nonneg _ _ ha]

lemma sgn1_mul_abs (k : K) : sgn1 k * |k| = k := by
  unfold sgn1
  split_ifs with h
  · simp [h]
  · exact sgn_mul_abs k

lemma sgn1_cases (k : K) : sgn1 k = 1 ∨ sgn1 k = -1 := by
  unfold sgn1 sgn
  split_ifs with h h1 h2
  · left; rfl
  · left; rfl
  · right; rfl
  · exact absurd (le_antisymm (not_lt.mp h1) (not_lt.mp h2)) h

/-- **piecewise calculus (`pw_denote`)**: for *every* chain — scalings by positive, negative and zero
scalars, negations, additions and subtractions on either side — the piecewise record
`sign·max(pieces)` denotes the written expression.  (Before the repair of defect F9 this held only for
non-zero scalings: `0·maxof(1,2) + 5` was recorded as `0·max(0,0)`.) -/
theorem pw_denote (p : PW K) (hp : p.pieces ≠ []) (hs : p.sign = 1 ∨ p.sign = -1)
    (ops : List (Op K)) :
    (p.run ops).val = runVal p.val ops := by
  induction ops generalizing p with
  | nil => rfl
  | cons op ops ih =>
    simp only [PW.run, runVal, List.foldl_cons] at *
    have hss : p.sign * p.sign = 1 := by rcases hs with h | h <;> rw [h] <;> norm_num
    have key : (p.apply op).pieces ≠ [] ∧ ((p.apply op).sign = 1 ∨ (p.apply op).sign = -1) ∧
        (p.apply op).val = applyVal p.val op := by
      cases op with
      | neg =>
        refine ⟨hp, ?_, ?_⟩
        · rcases hs with h | h <;> simp [PW.apply, PW.neg, h]
        · simp [PW.apply, PW.neg, PW.val, applyVal]
      | scale k =>
        refine ⟨by simpa [PW.apply, PW.scale] using hp, ?_, ?_⟩
        · simp only [PW.apply, PW.scale]
          rcases sgn1_cases k with h | h <;> rcases hs with h' | h' <;> simp [h, h']
        · simp only [PW.apply, PW.scale, PW.val, applyVal]
          rw [lmax_map_mul _ hp _ (abs_nonneg k)]
          have := sgn1_mul_abs k
          calc p.sign * sgn1 k * (lmax p.pieces * |k|) = (sgn1 k * |k|) * (p.sign * lmax p.pieces) := by ring
            _ = k * (p.sign * lmax p.pieces) := by rw [this]
      | add c =>
        refine ⟨by simpa [PW.apply, PW.addC] using hp, by simpa [PW.apply, PW.addC] using hs, ?_⟩
        simp only [PW.apply, PW.addC, PW.val, applyVal]
        rw [lmax_map_add _ hp]
        calc p.sign * (lmax p.pieces + c * p.sign) = p.sign * lmax p.pieces + c * (p.sign * p.sign) := by ring
          _ = p.sign * lmax p.pieces + c := by rw [hss]; ring
      | sub c =>
        refine ⟨by simpa [PW.apply, PW.addC] using hp, by simpa [PW.apply, PW.addC] using hs, ?_⟩
        simp only [PW.apply, PW.addC, PW.val, applyVal]
        rw [lmax_map_add _ hp]
        calc p.sign * (lmax p.pieces + -c * p.sign) = p.sign * lmax p.pieces - c * (p.sign * p.sign) := by ring
          _ = p.sign * lmax p.pieces - c := by rw [hss]; ring
      | rsub c =>
        refine ⟨by simpa [PW.apply, PW.addC, PW.neg] using hp, ?_, ?_⟩
        · rcases hs with h | h <;> simp [PW.apply, PW.addC, PW.neg, h]
        · simp only [PW.apply, PW.addC, PW.neg, PW.val, applyVal]
          rw [lmax_map_add _ hp]
          calc -p.sign * (lmax p.pieces + c * -p.sign) = c * (p.sign * p.sign) - p.sign * lmax p.pieces := by ring
            _ = c - p.sign * lmax p.pieces := by rw [hss]; ring
    rw [ih (p.apply op) key.1 key.2.1, key.2.2]

/-- the former counterexample of F9, now an instance of the theorem: `0·maxof(1,2) + 5 = 5` -/
theorem pw_zero_scale_keeps_offset :
    ((PW.maxof [(1 : ℚ), 2]).run [.scale 0, .add 5]).val = 5 := by
  decide +kernel

/-- a piecewise term is accepted on the convex side only: `maxof(..) <= c` yes, `minof(..) <= c` no -/
example : (PW.maxof [(1 : ℚ), 2]).sign ≠ -1 ∧ (PW.minof [(1 : ℚ), 2]).sign = -1 := by decide +kernel

/-! ### the atom table extracted from the source -/

/-- curvature of each atom letter as mathematics has it: `true` = the atom function itself is convex,
`false` = concave.  (`'A' |x|`, `'M' ‖x‖₁`, `'I' ‖x‖∞`, `'E' ‖x‖₂`, `'G'/'N'` p-norm, `'S'` squares,
`'Q'` sum of squares, `'T' |x|^(p/q)`, `'X'` exp, `'F'` softplus, `'K'` KL divergence are convex;
`'L'` log, `'P'` entropy, `'C'` geometric mean, `'D'` root-determinant, `'O'` log-determinant are concave.) -/
def trueConvex : Char → Option Bool
  | 'A' | 'M' | 'I' | 'E' | 'G' | 'N' | 'S' | 'Q' | 'T' | 'X' | 'F' | 'K' => some true
  | 'L' | 'P' | 'C' | 'D' | 'O' => some false
  | _ => none

/-- **`atoms_signed_right`**: every `Convex(…, '<x>', ±1, …)` / `PerspConvex(…)` construction found in
`rsome/lp.py` by the extractor starts with the sign of the atom's true curvature. -/
theorem atoms_signed_right :
    ∀ e ∈ Gen.atomTable, trueConvex e.xtype = some (decide (e.sign = 1)) ∧ (e.sign = 1 ∨ e.sign = -1) := by
  decide +kernel

/-- **`mul_classes_right`**: the letters `Convex.__mul__` scales by `|k|^(1/2)` are exactly the atoms
homogeneous of degree two, and every letter an atom constructor can produce is in one of the two classes. -/
theorem mul_classes_right :
    Gen.mulSqrtClass = ['S', 'Q'] ∧
    ∀ e ∈ Gen.atomTable, e.xtype ∈ Gen.mulAbsClass ∨ e.xtype ∈ Gen.mulSqrtClass := by
  decide +kernel

end RsomeV.C10
