import RsomeV.M.State
import RsomeV.Gen.Reset

/-! # C09 — sets and expressions do not leak: results are independent of build history -/

namespace RsomeV.C09
open RsomeV.State

variable {C F : Type}

theorem foldl_st_items (s : Scratch C F) (cs : List C) : (cs.foldl st s).items = s.items ++ cs := by
  induction cs generalizing s with
  | nil => simp
  | cons c cs ih => simp [List.foldl_cons, ih, st]

theorem foldl_st_dirty (s : Scratch C F) (cs : List C) (h : s.dirty = true) : (cs.foldl st s).dirty = true := by
  induction cs generalizing s with
  | nil => simpa
  | cons c cs ih => simp only [List.foldl_cons]; exact ih _ rfl

/-- **`scratch_independent`**: whatever was formulated or cached before — any state `s` of the shared scratch
model — formulating the set `cs` returns the formulation of exactly `cs`: no constraint of an earlier set, no stale
cache. -/
theorem scratch_independent (form : List C → F) (s : Scratch C F) (cs : List C) :
    (formulateSet form s cs).1 = form cs := by
  unfold formulateSet doMath
  have hd : (cs.foldl st (reset s)).dirty = true := foldl_st_dirty _ cs rfl
  have hi : (cs.foldl st (reset s)).items = cs := by rw [foldl_st_items]; simp [reset]
  rw [hd]; simp [hi]

/-- `doMath` always answers for the current lists when the cache is coherent, and keeps it coherent -/
theorem doMath_correct (form : List C → F) (s : Scratch C F) (h : Coherent form s) :
    (doMath form s).1 = form s.items ∧ Coherent form (doMath form s).2 ∧ (doMath form s).2.items = s.items := by
  unfold doMath
  cases hd : s.dirty with
  | true => exact ⟨rfl, fun _ => rfl, rfl⟩
  | false =>
    have hcache := h hd
    rw [hcache]
    exact ⟨rfl, fun _ => hcache, rfl⟩

theorem coherent_init (form : List C → F) : Coherent form (init : Scratch C F) := by
  intro h; simp [init] at h

theorem coherent_step (form : List C → F) (s : Scratch C F) (op : Op C) (h : Coherent form s) :
    Coherent form (step form s op) := by
  cases op with
  | st c => intro hd; simp [step, st] at hd
  | reset => intro hd; simp [step, reset] at hd
  | doMath => exact (doMath_correct form s h).2.1
  | set cs =>
    simp only [step, formulateSet]
    have hc : Coherent form (cs.foldl st (reset s)) := by
      intro hd; rw [foldl_st_dirty _ cs rfl] at hd; exact absurd hd (by simp)
    exact (doMath_correct form _ hc).2.1

/-- **`cache_coherent` / `history_independent`**: after *any* history of `st`, `reset`, `do_math` and set
formulations, `do_math` returns the formulation of the constraints currently declared — the same as building
them from scratch — and repeated `do_math` calls return the same program. -/
theorem history_independent (form : List C → F) (ops : List (Op C)) :
    let s := run form (init : Scratch C F) ops
    (doMath form s).1 = form s.items ∧ (doMath form (doMath form s).2).1 = (doMath form s).1 := by
  intro s
  have hco : Coherent form s := by
    show Coherent form (run form init ops)
    unfold run
    have : ∀ (s0 : Scratch C F), Coherent form s0 → Coherent form (ops.foldl (step form) s0) := by
      induction ops with
      | nil => intro s0 h; exact h
      | cons op ops ih => intro s0 h; simp only [List.foldl_cons]; exact ih _ (coherent_step form s0 op h)
    exact this _ (coherent_init form)
  obtain ⟨h1, h2, h3⟩ := doMath_correct form s hco
  refine ⟨h1, ?_⟩
  have := (doMath_correct form _ h2).1
  rw [this, h3, h1]

/-- the declared constraints after a history are exactly those `st()` was called with since the last `reset` -/
theorem items_after_set (form : List C → F) (s : Scratch C F) (cs : List C) :
    (formulateSet form s cs).2.items = cs := by
  unfold formulateSet
  have hc : Coherent form (cs.foldl st (reset s)) := by
    intro hd; rw [foldl_st_dirty _ cs rfl] at hd; exact absurd hd (by simp)
  rw [(doMath_correct form _ hc).2.2, foldl_st_items]; simp [reset]

/-- **the pre-repair protocol leaks** (defect F4): with a `reset()` that keeps some kinds of constraints (p-norm
pieces in `ip_constr`) the set formulated after another one contains the earlier piece; and a set with no
constraints returns the previous set's cached dual. -/
theorem legacy_reset_leaks :
    let form : List Nat → List Nat := id
    let leak : Nat → Bool := fun c => c ≥ 100                     -- constraints of a kind the old reset() did not clear
    let s1 := (legacyFormulateSet leak form (init : Scratch Nat (List Nat)) [1, 100]).2
    (legacyFormulateSet leak form s1 [2]).1 = [100, 2] ∧          -- the earlier p-norm piece is still there
    (legacyFormulateSet leak form (legacyFormulateSet (fun _ => false) form init [1, 5]).2 []).1 = [1, 5] := by
  decide

/-! ### the extracted `reset()` / `st()` tables -/

/-- **`reset_covers_st`** (over the tables regenerated from the source on every run): in every model layer
that defines `reset()`, every list `st()` can append to — through its own code or inherited `super().st` — is
emptied by `reset()`, and both dirty flags are set. -/
theorem reset_covers_st :
    ∀ layer ∈ Gen.resetLists, ∀ stl ∈ Gen.stLists, stl.1 = layer.1 →
      (∀ l ∈ stl.2, l ∈ layer.2) ∧
      (∀ fl ∈ Gen.resetFlags, fl.1 = layer.1 → "pupdate" ∈ fl.2 ∧ "dupdate" ∈ fl.2) := by
  decide

/-- the layers used as scratch models (`socp`, `gcp`) do define `reset()` -/
theorem reset_defined : (Gen.resetLists.map (·.1)) = ["socp", "gcp"] ∧ (Gen.resetFlags.map (·.1)) = ["socp", "gcp"] := by
  decide

end RsomeV.C09
