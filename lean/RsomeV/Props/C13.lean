import RsomeV.M.Partition
import RsomeV.L.PartitionLemmas

/-! C13: the event-wise adaptation bookkeeping keeps a partition of the scenarios, the final
partition consists of exactly the declared events, re-declarations are rejected, `comb_set` is the
common refinement, `rule_var` shares columns exactly inside an event, and the affine-adaptation
mask is what `affadapt` was told.  Proof details are in `RsomeV/L/PartitionLemmas.lean`. -/

namespace RsomeV.C13
open RsomeV.Partition

/-- `es` partitions the scenarios `0..S-1`: every scenario lies in exactly one event -/
def IsPartition (es : Events) (S : Nat) : Prop := es.flatten.Perm (List.range S)

/-- run a sequence of `adapt` calls from the initial state, stopping at the first error -/
def run (S : Nat) (calls : List (List Nat)) : Except Err EvState :=
  calls.foldl (fun acc ev => match acc with
    | .error e => .error e
    | .ok st => evtadapt st ev) (.ok (EvState.init S))

/-- `run` is the fold of the helper `runStep` of the lemma file -/
theorem run_eq (S : Nat) (calls : List (List Nat)) :
    run S calls = calls.foldl runStep (.ok (EvState.init S)) := rfl

/-- scenarios `s` and `t` lie in a common event of `es` -/
def sameEvent (es : Events) (s t : Nat) : Prop := ∃ e ∈ es, s ∈ e ∧ t ∈ e

instance (es : Events) (S : Nat) : Decidable (IsPartition es S) := by
  unfold IsPartition; infer_instance

example : IsPartition [[2], [0, 1]] 3 := by decide
example : run 4 [[0, 1], [3]] = .ok ⟨[[2], [0, 1], [3]], true⟩ := rfl
example : run 3 [[0, 1], [1]] = .error .keyError := rfl
example : sameEvent [[2], [0, 1]] 0 1 := ⟨[0, 1], by decide, by decide, by decide⟩

theorem IsPartition.nodup {es : Events} {S : Nat} (h : IsPartition es S) : es.flatten.Nodup :=
  (List.Perm.nodup_iff h).2 List.nodup_range

theorem IsPartition.mem_iff {es : Events} {S : Nat} (h : IsPartition es S) {s : Nat} :
    s ∈ es.flatten ↔ s < S := by
  rw [List.Perm.mem_iff h, List.mem_range]

/-! ## 1. one `adapt` call keeps a partition -/

/-- an empty list of scenarios is not an event: the call is refused (`ValueError`) from every state -/
theorem evtadapt_rejects_empty (st : EvState) : evtadapt st [] = .error .valueError := rfl

/-- **C13.1** A successful `evtadapt` call turns a partition of the scenarios `0..S-1` into a
partition of `0..S-1` (nothing is lost or duplicated, whatever the state's `rest` flag is). -/
theorem evtadapt_partition {st st' : EvState} {ev : List Nat} {S : Nat}
    (hp : IsPartition st.events S) (h : evtadapt st ev = .ok st') : IsPartition st'.events S := by
  unfold IsPartition at *
  obtain ⟨_, h⟩ := evtadapt_ok_ne h
  unfold evtadaptCore at h
  split at h
  · cases h
  · rename_i hd tl hev
    rw [hev] at hp
    split at h
    · cases h
    · split at h
      · cases h
      · rename_i hd' hrm
        have hperm := removeAll_perm hrm
        have key : (hd' ++ tl.flatten ++ ev).Perm (List.range S) := by
          refine List.Perm.trans ?_ hp
          simp only [List.flatten_cons]
          refine List.Perm.trans ?_ (List.Perm.append_right _ hperm.symm)
          rw [List.append_assoc, List.append_assoc]
          exact List.Perm.append_left _ List.perm_append_comm
        split at h
        · rename_i hemp
          have : hd' = [] := by simpa using hemp
          subst this
          cases h
          simpa using key
        · cases h
          simpa using key

example : evtadapt (EvState.init 3) [0, 1] = .ok ⟨[[2], [0, 1]], true⟩ := rfl
example : IsPartition [[2], [0, 1]] 3 :=
  evtadapt_partition (st := EvState.init 3) (ev := [0, 1]) (by decide) rfl

/-! ## 2. the final partition is exactly the declared events -/

/-- **C13.2** One value per *declared* event, whatever the order of the calls.  If every call is
non-empty and the run succeeds, then no scenario was declared twice, every declared scenario is a
known one (`< S`), and the final event list consists of exactly the declared events in call order,
preceded by the event of the never-declared scenarios (in increasing order) if there are any.

Hypothesis added to the task's statement: `0 < S ∨ calls ≠ []`.  Counterexample without it:
`S = 0`, `calls = []` gives `run 0 [] = .ok ⟨[[]], true⟩`, i.e. events `[[]]`, not `[]`.
(With `S = 0` every non-empty call fails, so this is the only excluded case.)
The conclusion also records the final `rest` flag. -/
theorem run_events {S : Nat} {calls : List (List Nat)} {st : EvState}
    (hS : 0 < S ∨ calls ≠ []) (hne : ∀ c ∈ calls, c ≠ []) (h : run S calls = .ok st) :
    calls.flatten.Nodup ∧ (∀ s ∈ calls.flatten, s < S) ∧
    st.events = (let r := (List.range S).filter (fun s => !(calls.flatten.contains s))
                 if r.isEmpty then calls else r :: calls) ∧
    st.rest = !((List.range S).filter (fun s => !(calls.flatten.contains s))).isEmpty := by
  rw [run_eq] at h
  have inv : RunInv S calls st := by simpa using runInv_foldl (runInv_init S) hne h
  refine ⟨inv.nodup, inv.lt, ?_⟩
  have hshape := inv.shape
  show st.events = (if (remainder S calls).isEmpty then calls else remainder S calls :: calls) ∧
    st.rest = !(remainder S calls).isEmpty
  cases hr : st.rest with
  | false =>
    rw [hr] at hshape
    obtain ⟨h1, h2, _⟩ := hshape
    simp [h1, h2]
  | true =>
    rw [hr] at hshape
    simp only [if_true] at hshape
    obtain ⟨h1, h2⟩ := hshape
    have hrne : remainder S calls ≠ [] := by
      rcases h2 with h2 | h2
      · subst h2
        rcases hS with hS | hS
        · intro h0
          have : (0 : Nat) ∈ remainder S [] := mem_remainder.2 ⟨hS, by simp⟩
          rw [h0] at this
          cases this
        · exact absurd rfl hS
      · exact h2
    have : (remainder S calls).isEmpty = false := by simpa using hrne
    simp [h1, this]

example : run 5 [[3, 1], [4]] = .ok ⟨[[0, 2], [3, 1], [4]], true⟩ := rfl
example : [[3, 1], [4]].flatten.Nodup :=
  (run_events (S := 5) (calls := [[3, 1], [4]]) (.inl (by decide)) (by decide) rfl).1
example : run 3 [[2], [0, 1]] = .ok ⟨[[2], [0, 1]], false⟩ := rfl
/-- the excluded corner case -/
example : run 0 [] = .ok ⟨[[]], true⟩ := rfl

/-! ## 3. re-declaration is rejected -/

/-- **C13.3** After any successful run of non-empty calls, a further call that names an already
declared scenario, an unknown scenario (`≥ S`), or the same scenario twice raises `KeyError`. -/
theorem evtadapt_rejects_redeclared {S : Nat} {calls : List (List Nat)} {st : EvState}
    {ev : List Nat} (hne : ∀ c ∈ calls, c ≠ []) (h : run S calls = .ok st)
    (hbad : (∃ s ∈ ev, s ∈ calls.flatten ∨ S ≤ s) ∨ ¬ ev.Nodup) :
    evtadapt st ev = .error .keyError := by
  rw [run_eq] at h
  have inv : RunInv S calls st := by simpa using runInv_foldl (runInv_init S) hne h
  exact runInv_rejects inv hbad

example : evtadapt ⟨[[2], [0, 1]], true⟩ [2, 1] = .error .keyError :=
  evtadapt_rejects_redeclared (S := 3) (calls := [[0, 1]]) (by decide) rfl
    (.inl ⟨1, by decide, .inl (by decide)⟩)
example : evtadapt ⟨[[2], [0, 1]], true⟩ [2, 2] = .error .keyError := rfl
example : evtadapt ⟨[[2], [0, 1]], true⟩ [3] = .error .keyError := rfl
example : evtadapt ⟨[[2], [0, 1]], false⟩ [2] = .error .keyError := rfl

/-! ## 4. `comb_set` is the common refinement -/

/-- `combSet` is the grouping fold with the pair of event indices as key -/
theorem combSet_eq (p q : Events) :
    combSet p q = ((List.range (p.map List.length).sum).foldl
      (groupStep fun s => (eventOf p s, eventOf q s)) []).map (·.2) := rfl

/-- **C13.4** For two partitions of the same scenarios `0..n-1`, `combSet p q` is again a partition
and two scenarios share an event of it iff they share an event of `p` and an event of `q`
(coarsest common refinement). -/
theorem combSet_refines {p q : Events} {n : Nat} (hp : IsPartition p n) (hq : IsPartition q n) :
    IsPartition (combSet p q) n ∧
    ∀ s t, s < n → t < n →
      (sameEvent (combSet p q) s t ↔ sameEvent p s t ∧ sameEvent q s t) := by
  have hn : (p.map List.length).sum = n := by
    rw [← List.length_flatten, List.Perm.length_eq hp, List.length_range]
  have inv : GInv (fun s => (eventOf p s, eventOf q s)) (List.range n)
      ((List.range n).foldl (groupStep fun s => (eventOf p s, eventOf q s)) []) := by
    simpa using gInv_foldl (l := List.range n) (gInv_nil fun s => (eventOf p s, eventOf q s))
  rw [combSet_eq, hn]
  refine ⟨inv.perm, ?_⟩
  intro s t hs ht
  unfold sameEvent
  rw [gInv_same inv (List.mem_range.2 hs) (List.mem_range.2 ht), Prod.mk.injEq,
    eventOf_eq_iff_same hp.nodup (hp.mem_iff.2 hs) (hp.mem_iff.2 ht),
    eventOf_eq_iff_same hq.nodup (hq.mem_iff.2 hs) (hq.mem_iff.2 ht)]

example : combSet [[2], [0, 1, 3]] [[0, 2], [1], [3]] = [[0], [1], [2], [3]] := by decide
example : IsPartition (combSet [[2], [0, 1, 3]] [[0, 2], [1], [3]]) 4 :=
  (combSet_refines (p := [[2], [0, 1, 3]]) (q := [[0, 2], [1], [3]]) (by decide) (by decide)).1
example : combSet [[0, 1], [2, 3]] [[3], [0, 1, 2]] = [[0, 1], [2], [3]] := by decide

/-! ## 5. `rule_var`: columns are shared exactly inside an event -/

/-- **C13.5a** Decision `k` (non-empty array, events partition `0..S-1`) uses the same columns of
`var_const` in scenarios `s` and `t` iff `s` and `t` lie in the same declared event. -/
theorem rule_var_shares {ds : List Dec} {k S s t : Nat} (hk : k < ds.length)
    (hp : IsPartition ds[k].events S) (hsz : 0 < ds[k].size) (hs : s < S) (ht : t < S) :
    constCols ds k s = constCols ds k t ↔ sameEvent ds[k].events s t := by
  unfold sameEvent
  rw [← eventOf_getD_eq_iff_same hp.nodup (hp.mem_iff.2 hs) (hp.mem_iff.2 ht)]
  unfold constCols
  rw [List.getElem?_eq_getElem hk]
  simp only
  constructor
  · intro h
    have h0 := List.map_inj_left.1 h 0 (List.mem_range.2 hsz)
    have h1 : ds[k].size * (eventOf ds[k].events s).getD 0
        = ds[k].size * (eventOf ds[k].events t).getD 0 := by omega
    exact Nat.eq_of_mul_eq_mul_left hsz h1
  · intro h
    rw [h]

/-- three decisions over 3 scenarios used in the examples below -/
def exDs : List Dec := [⟨2, [[2], [0, 1]]⟩, ⟨1, [[0, 1, 2]]⟩, ⟨3, [[0], [1, 2]]⟩]

example : constCols exDs 0 0 = [2, 3] ∧ constCols exDs 0 1 = [2, 3] ∧ constCols exDs 0 2 = [0, 1] := by
  decide
example : constCols exDs 0 0 = constCols exDs 0 1 :=
  (rule_var_shares (ds := exDs) (k := 0) (S := 3) (by decide) (by decide) (by decide) (by decide)
    (by decide)).2 ⟨[0, 1], by decide, by decide, by decide⟩

/-- **C13.5b** Different decisions never share a column, whatever the scenarios. -/
theorem rule_var_disjoint {ds : List Dec} {k k' S s t : Nat} (hk : k < ds.length)
    (hk' : k' < ds.length) (hkk : k ≠ k') (hp : IsPartition ds[k].events S)
    (hp' : IsPartition ds[k'].events S) (hs : s < S) (ht : t < S) :
    ∀ x, x ∈ constCols ds k s → x ∉ constCols ds k' t := by
  intro x hx hx'
  have some_s : (eventOf ds[k].events s).isSome := by
    obtain ⟨i, _, _, h⟩ := eventOf_of_mem_flatten hp.nodup (hp.mem_iff.2 hs)
    simp [h]
  have some_t : (eventOf ds[k'].events t).isSome := by
    obtain ⟨i, _, _, h⟩ := eventOf_of_mem_flatten hp'.nodup (hp'.mem_iff.2 ht)
    simp [h]
  have b := constCols_bounds hk some_s hx
  have b' := constCols_bounds hk' some_t hx'
  rcases Nat.lt_or_gt_of_ne hkk with hlt | hlt
  · have := roFirst_mono ds (show _ + 1 ≤ _ from hlt)
    omega
  · have := roFirst_mono ds (show _ + 1 ≤ _ from hlt)
    omega

example : constCols exDs 2 1 = [8, 9, 10] ∧ scenCols exDs 1 = [2, 3, 4, 8, 9, 10] := by decide
example : ∀ x, x ∈ constCols exDs 0 1 → x ∉ constCols exDs 2 0 :=
  rule_var_disjoint (ds := exDs) (S := 3) (by decide) (by decide) (by decide) (by decide)
    (by decide) (by decide) (by decide)

/-! ## 6. the dependency mask is respected -/

/-- **C13.6a** For a rectangular mask, dependency `(i, j)` has a coefficient column iff it was
declared in the mask.  (Holds for every `i`; for `i ≥ m.length` both sides are false.) -/
theorem mask_respected {m : Mask} {nrand i j : Nat} (hrect : ∀ row ∈ m, row.length = nrand)
    (hj : j < nrand) :
    (coefRank m nrand i j).isSome ↔ (m.getD i []).getD j false = true := by
  unfold coefRank
  rw [List.isSome_idxOf?, mem_nzRows, flatten_getD_rect hrect i hj]

/-- a `2 × 3` mask used in the examples below -/
def exMask : Mask := [[false, true, false], [true, false, true]]

example : nzRows exMask = [1, 3, 5] ∧ coefRank exMask 3 1 2 = some 2 ∧ coefRank exMask 3 1 1 = none := by
  decide
example : (coefRank exMask 3 1 2).isSome :=
  (mask_respected (m := exMask) (nrand := 3) (by decide) (by decide)).2 rfl

/-- **C13.6b** `coefRank` is injective on declared pairs: two pairs with the same coefficient
column are the same pair. -/
theorem coefRank_injective {m : Mask} {nrand i j i' j' r : Nat} (hj : j < nrand)
    (hj' : j' < nrand) (h : coefRank m nrand i j = some r) (h' : coefRank m nrand i' j' = some r) :
    i = i' ∧ j = j' := by
  unfold coefRank at h h'
  obtain ⟨hr, e, _⟩ := List.idxOf?_eq_some_iff.1 h
  obtain ⟨_, e', _⟩ := List.idxOf?_eq_some_iff.1 h'
  exact mul_add_inj hj hj' (e.symm.trans e')

example : coefRank exMask 3 0 1 = some 0 ∧ coefRank exMask 3 1 0 = some 1 := by decide

/-- **C13.6c** the coefficient columns are the ranks `0 .. numDep-1` -/
theorem coefRank_lt {m : Mask} {nrand i j r : Nat} (h : coefRank m nrand i j = some r) :
    r < (nzRows m).length := by
  unfold coefRank at h
  exact (List.idxOf?_eq_some_iff.1 h).1

example : (nzRows exMask).length = 3 ∧ coefRank exMask 3 1 2 = some 2 := by decide

/-! ## 7. `affadapt` rejects re-declaration and sets exactly the requested entries -/

/-- **C13.7a** A successful `affadapt` means: the decision is not integer, none of the requested
pairs was set before, the shape of the mask is unchanged, and every (in-range) entry of the new
mask is the old entry OR-ed with membership of its position in `decIdx × randIdx`. -/
theorem affadapt_ok {isInt : Bool} {m m' : Mask} {di ri : List Nat}
    (h : affadapt isInt m di ri = .ok m') :
    isInt = false ∧
    (∀ i ∈ di, ∀ j ∈ ri, (m.getD i []).getD j false = false) ∧
    m'.length = m.length ∧ (∀ i, (m'.getD i []).length = (m.getD i []).length) ∧
    ∀ i j, i < m.length → j < (m.getD i []).length →
      (m'.getD i []).getD j false = ((m.getD i []).getD j false || (di.contains i && ri.contains j)) := by
  rw [affadapt_eq] at h
  split at h
  · cases h
  · rename_i hint
    split at h
    · cases h
    · rename_i hno
      cases h
      refine ⟨by simpa using hint, ?_, setMask_length m di ri, setMask_row_length m di ri,
        fun i j hi hj => setMask_entry m di ri hi hj⟩
      intro i hi j hj
      cases hv : (m.getD i []).getD j false with
      | false => rfl
      | true => exact absurd ⟨i, hi, j, hj, hv⟩ hno

example : affadapt false [[false, true, false], [false, false, false]] [0, 1] [0, 2]
    = .ok [[true, true, true], [true, false, true]] := rfl

/-- **C13.7** the same for a rectangular mask, entries addressed by `i < m.length`, `j < nrand` -/
theorem affadapt_rejects_redeclared {isInt : Bool} {m m' : Mask} {di ri : List Nat} {nrand : Nat}
    (hrect : ∀ row ∈ m, row.length = nrand) (h : affadapt isInt m di ri = .ok m') :
    isInt = false ∧
    (∀ i ∈ di, ∀ j ∈ ri, (m.getD i []).getD j false = false) ∧
    m'.length = m.length ∧ (∀ row ∈ m', row.length = nrand) ∧
    ∀ i j, i < m.length → j < nrand →
      (m'.getD i []).getD j false = ((m.getD i []).getD j false || (di.contains i && ri.contains j)) := by
  obtain ⟨h1, h2, h3, h4, h5⟩ := affadapt_ok h
  have hrow : ∀ i, i < m.length → (m.getD i []).length = nrand := by
    intro i hi
    rw [List.getD_eq_getElem?_getD, List.getElem?_eq_getElem hi]
    exact hrect _ (List.getElem_mem hi)
  refine ⟨h1, h2, h3, ?_, fun i j hi hj => h5 i j hi (by rw [hrow i hi]; exact hj)⟩
  intro row hrow'
  obtain ⟨i, hi, rfl⟩ := List.getElem_of_mem hrow'
  have := h4 i
  rw [List.getD_eq_getElem?_getD, List.getElem?_eq_getElem hi] at this
  simp only [Option.getD_some] at this
  rw [this]
  exact hrow i (h3 ▸ hi)

example : ∀ row ∈ [[true, true, true], [true, false, true]], row.length = 3 :=
  (affadapt_rejects_redeclared (isInt := false) (m := [[false, true, false], [false, false, false]])
    (di := [0, 1]) (ri := [0, 2]) (nrand := 3) (by decide) rfl).2.2.2.1

/-- **C13.7b** Re-declaring an already set pair is a `RuntimeError` (continuous decision). -/
theorem affadapt_redeclared_error {m : Mask} {di ri : List Nat} {i j : Nat} (hi : i ∈ di)
    (hj : j ∈ ri) (hset : (m.getD i []).getD j false = true) :
    affadapt false m di ri = .error .runtimeError := by
  rw [affadapt_eq]
  simp only [Bool.false_eq_true, if_false]
  rw [if_pos ⟨i, hi, j, hj, hset⟩]

example : affadapt false [[false, true, false], [false, false, false]] [0] [1]
    = .error .runtimeError :=
  affadapt_redeclared_error (i := 0) (j := 1) (by decide) (by decide) rfl

/-- **C13.7c** Affine adaptation of an integer decision is a `ValueError`. -/
theorem affadapt_int_error (m : Mask) (di ri : List Nat) :
    affadapt true m di ri = .error .valueError := by
  rw [affadapt_eq]
  simp

example : affadapt true [[false, true, false], [false, false, false]] [1] [1]
    = .error .valueError := rfl

end RsomeV.C13
