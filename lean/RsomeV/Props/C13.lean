import RsomeV.M.Partition
namespace RsomeV.C13
end RsomeV.C13
