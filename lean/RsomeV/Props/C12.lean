import RsomeV.M.Readback
import RsomeV.Props.C13

/-! # C12 — solution queries return the right numbers for the right objects -/

namespace RsomeV.C12
open RsomeV.Partition RsomeV.Readback

/-- **`get_reads_allocated`**: for every family of decisions, every partition and every order of `adapt`
calls, the solver-vector positions `DecVar.get()` reads for the entry labelled with scenario `s` are exactly
the columns `rule_var` allocated to that decision in scenario `s` (`constCols`, model of C13). -/
theorem get_reads_allocated (ds : List Dec) (k s : Nat) : getIdx ds k s = constCols ds k s := by
  unfold getIdx constCols eventIdx
  cases ds[k]? with
  | none => rfl
  | some d =>
    simp only
    apply List.map_congr_left
    intro i _
    rw [Nat.mul_comm]

example : getIdx [⟨1, [[0, 1, 2]]⟩, ⟨2, [[0, 2], [1]]⟩] 1 1 = [3, 4] := by decide

/-- **`get_label_is_scenario`**: two scenarios get the same block of values iff they are in the same
declared event (so per-scenario results are labelled with the scenario they belong to, and scenarios of
one event agree). -/
theorem get_label_is_scenario (ds : List Dec) (k S s t : Nat) (hk : k < ds.length)
    (hp : C13.IsPartition ds[k].events S) (hsz : 0 < ds[k].size) (hs : s < S) (ht : t < S) :
    getIdx ds k s = getIdx ds k t ↔ C13.sameEvent ds[k].events s t := by
  rw [get_reads_allocated, get_reads_allocated]
  exact C13.rule_var_shares hk hp hsz hs ht

/-- **`call_and_get_agree`**: `x()` evaluates the rule stored by `rule_var` (columns `constCols`) and
`x.get()` reads `getIdx`; both read the same positions, for every scenario. -/
theorem call_and_get_agree (ds : List Dec) (k : Nat) : ∀ s, getIdx ds k s = constCols ds k s :=
  fun s => get_reads_allocated ds k s

/-- the pre-repair labelling (defect F12) is wrong exactly as observed: with events declared out of
order (`x.adapt(3); x.adapt([1,2])` on four scenarios) the entry labelled `1` read the block of scenario `3`. -/
theorem legacy_labels_wrong :
    let ds : List Dec := [⟨1, [[0], [3], [1, 2]]⟩]
    legacyGetIdx ds 0 1 = getIdx ds 0 3 ∧ legacyGetIdx ds 0 1 ≠ getIdx ds 0 1 := by
  decide

/-- **`objective_sense`**: `model.get()` is the user's objective in the user's sense: with `sign = -1` for
`max` the solver minimises `-obj`, and `get()` returns `sign * objval`. -/
theorem objective_sense (sign objval userObj : Int) (hs : sign = 1 ∨ sign = -1)
    (h : objval = sign * userObj) : modelGet sign objval = userObj := by
  unfold modelGet
  rcases hs with h1 | h1 <;> subst h1 <;> subst h <;> simp

/-- `Vars.get` / `VarSub.get` read exactly the variable's own positions -/
theorem varIdx_spec (first size i : Nat) (hi : i < size) : (varIdx first size)[i]? = some (first + i) := by
  simp [varIdx, hi]

theorem subIdx_spec (first : Nat) (indices : List Nat) (i : Nat) (hi : i < indices.length) :
    (subIdx first indices)[i]? = some (first + indices[i]) := by
  simp [subIdx, hi]

end RsomeV.C12
