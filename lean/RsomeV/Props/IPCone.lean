import RsomeV.L.IPConeLemmas
import RsomeV.L.IPConeAtoms
import RsomeV.L.IPConeEncSound
import RsomeV.L.IPConeEncComplete

/-! # The `IPCone` tower and the atoms built on it (xtypes 'G', 'T', 'C')

Property theorems about
* the order-faithful model `RsomeV/M/IPCone.lean` of rsome's `IPCone.to_pot / split / to_soc`
  (rsome/lp.py, class `IPCone`), tied to the code by `test_ipcone.py` (every weight vector with
  `Σβ ≤ 12`, length `≤ 4`: abs rows, cones, creation order, aux flags and the trace of recursive `split`
  calls agree with the real `to_soc()`);
* the value-level systems `PnormEnc`, `PowerEnc`, `GmeanEnc` of the branches 'G', 'T', 'C' of
  `socp.Model.do_math`;
* the executable standard-form model `RsomeV/M/IPConeEnc.lean` (`atomEncode`, driver op
  "atom_encode") of the same branches, tied to the code by `test_atoms_ipcone.py` (the complete program
  `do_math()` returns — rows, senses, bounds, objective, cones — entry by entry).

Helper lemmas: `RsomeV/L/IPConeLemmas.lean` (tower), `RsomeV/L/IPConeVars.lean` (variables mentioned),
`RsomeV/L/IPConeAtoms.lean` (value-level systems, roots in `ℝ`), `RsomeV/L/IPConeEncSound.lean` and
`RsomeV/L/IPConeEncComplete.lean` (standard form ⇄ value-level systems). -/

namespace RsomeV.IPC
open Finset
variable {K : Type} [Field K] [LinearOrder K] [IsStrictOrderedRing K]

/-! ## Termination of `split` -/

/-- **`split` terminates** on every weight vector `to_soc` hands to it (at least two weights, all `≥ 1`,
total a power of two `2^(m+1)`): there is one result that every fuel `≥ m+1` (recursion depth) returns —
the result does not depend on the fuel. -/
theorem split_terminates {β : List ℕ} {m : ℕ} (l : Var) (R : List Var) (n : ℕ) (hw : WF β)
    (hs : β.sum = 2 ^ (m + 1)) :
    ∃ res, ∀ f, m + 1 ≤ f → splitF f l R β n = some res := by
  obtain ⟨res, hres⟩ := splitF_isSome (m + 1) m l R β n hw hs le_rfl
  exact ⟨res, fun f hf => splitF_mono hf hres⟩

/-- more fuel never changes a returned result -/
theorem split_fuel_mono {f f' : ℕ} (hf : f ≤ f') {l : Var} {R : List Var} {β : List ℕ} {n : ℕ}
    {res : SplitRes} (h : splitF f l R β n = some res) : splitF f' l R β n = some res :=
  splitF_mono hf h

/-- **precondition**: on a singleton weight vector `split` never returns (`[b] → [b - b//2] → …` never
becomes a pair; Python: `RecursionError`), whatever the fuel.  `to_soc` guards this case
(`len(self.beta) == 1`). -/
theorem split_singleton_diverges (f : ℕ) (l r : Var) (b n : ℕ) : splitF f l [r] [b] n = none :=
  splitF_singleton f l r b n

/-- `to_soc` always returns on a non-empty vector of positive weights (the fuel `pot (Σβ)` it is run
with in the model is enough). -/
theorem toSoc_isSome {β : List ℕ} (hne : β ≠ []) (hpos : ∀ b ∈ β, 1 ≤ b) : ∃ out, toSoc β = some out :=
  toSoc_some hne hpos

/-- **`to_soc` never calls `split` on a singleton**: every weight vector in the trace of (recursive)
`split` calls has at least two entries, all `≥ 1`, and a power-of-two total `≥ 2`. -/
theorem toSoc_never_splits_singleton {β : List ℕ} {out : SocOut} (hne : β ≠ [])
    (hpos : ∀ b ∈ β, 1 ≤ b) (h : toSoc β = some out) :
    ∀ c ∈ out.calls, 2 ≤ c.length ∧ (∀ b ∈ c, 1 ≤ b) ∧ ∃ k, c.sum = 2 ^ (k + 1) := by
  by_cases h1 : β.length = 1
  · obtain ⟨b, rfl⟩ := List.length_eq_one_iff.mp h1
    rw [toSoc_singleton] at h
    obtain rfl := Option.some.inj h
    intro c hc; simp at hc
  · have hw := wf_of hne hpos h1
    obtain ⟨m, hm, hcase⟩ := toSoc_eq hw
    intro c hc
    rcases hcase with ⟨hx, r, hr, ht⟩ | ⟨he, r, hr, ht⟩
    · rw [ht] at h; obtain rfl := Option.some.inj h
      obtain ⟨hw', hs'⟩ := wf_pad hw hx
      obtain ⟨⟨a1, a2⟩, a3⟩ := split_calls _ m _ _ _ _ r hr hw' (hs'.trans hm) c hc
      exact ⟨a1, a2, a3⟩
    · rw [ht] at h; obtain rfl := Option.some.inj h
      obtain ⟨⟨a1, a2⟩, a3⟩ := split_calls _ m _ _ _ _ r hr hw (he.trans hm) c hc
      exact ⟨a1, a2, a3⟩

/-- the trace for `β = [2,1,2]` (degree 5, padded to 8 with weight 3 on `s`) -/
example : (toSoc [2, 1, 2]).map (·.calls) =
    some [[2, 1, 2, 3], [2, 1, 1], [1, 1], [1, 3], [1, 1]] := by decide

/-! ## Soundness and completeness of `to_soc` -/

/-- `left.rsocone(u, v)` is formulated as the second-order cone `‖((u-v)/2, left)‖ ≤ (u+v)/2`
(`affine_in = [(y-z)/2, left]`, `affine_out = -(y+z)/2`); this is the rotated cone `RCone.holds`. -/
theorem rcone_iff_soc (x u v : K) :
    (x ^ 2 ≤ u * v ∧ 0 ≤ u ∧ 0 ≤ v) ↔
      (0 ≤ (u + v) / 2 ∧ ((u - v) / 2) ^ 2 + x ^ 2 ≤ ((u + v) / 2) ^ 2) := by
  have hid : ((u + v) / 2) ^ 2 - ((u - v) / 2) ^ 2 = u * v := by ring
  constructor
  · rintro ⟨h1, h2, h3⟩
    exact ⟨by linarith, by linarith⟩
  · rintro ⟨h1, h2⟩
    have huv : x ^ 2 ≤ u * v := by linarith
    have hnn : 0 ≤ u * v := le_trans (sq_nonneg x) huv
    have hu : 0 ≤ u := by
      by_contra hneg
      have hu' : u < 0 := lt_of_not_ge hneg
      have hv' : 0 < v := by linarith
      have : u * v < 0 := mul_neg_of_neg_of_pos hu' hv'
      linarith
    have hv : 0 ≤ v := by
      by_contra hneg
      have hv' : v < 0 := lt_of_not_ge hneg
      have hu' : 0 < u := by linarith
      have : u * v < 0 := mul_neg_of_pos_of_neg hu' hv'
      linarith
    exact ⟨huv, hu, hv⟩

/-- **soundness of `IPCone(x, r, β).to_soc()`**, over every linear ordered field, integer powers only:
if the returned constraints (the `|x| ≤ s` row of `to_pot`, all rotated cones) hold for *some* values of
the created variables, then `r_i ≥ 0` for all `i` and `|x|^(Σβ) ≤ Π r_i^β_i`. -/
theorem ipcone_sound (ρ : Var → K) {β : List ℕ} {out : SocOut} (hne : β ≠ [])
    (hpos : ∀ b ∈ β, 1 ≤ b) (h : toSoc β = some out) (hh : out.holds ρ) :
    (∀ i < β.length, 0 ≤ ρ (.r i)) ∧
      |ρ .x| ^ β.sum ≤ ∏ i ∈ range β.length, ρ (.r i) ^ β.getD i 0 := by
  have := toSoc_sound ρ hne hpos h hh
  rwa [prodPow_rvars] at this

/-- concrete instance: `IPCone(x, (r0, r1), [2, 1])` (degree 3, padded to 4) gives `|x|³ ≤ r0²·r1` -/
example (ρ : Var → ℚ) (out : SocOut) (h : toSoc [2, 1] = some out) (hh : out.holds ρ) :
    0 ≤ ρ (.r 0) ∧ 0 ≤ ρ (.r 1) ∧ |ρ .x| ^ 3 ≤ ρ (.r 0) ^ 2 * ρ (.r 1) := by
  obtain ⟨h1, h2⟩ := ipcone_sound ρ (by simp) (by decide) h hh
  refine ⟨h1 0 (by simp), h1 1 (by simp), ?_⟩
  simpa [Finset.prod_range_succ] using h2

/-- the constraints of that instance: `|x| ≤ a0`, `a0² ≤ a1·r0`, `a1² ≤ r1·a0` -/
example : toSoc [2, 1] = some ⟨true, [(.x, .aux 0)],
    [⟨.aux 0, .aux 1, .r 0⟩, ⟨.aux 1, .r 1, .aux 0⟩], [true, true], [[2, 1, 1], [1, 1]]⟩ := by decide

/-- **completeness of `to_soc`** in every ordered field with roots of non-negative elements: if
`r ≥ 0` and `|x|^(Σβ) ≤ Π r_i^β_i` then the created variables can be given values (the user variables
keep theirs) that satisfy every returned constraint. -/
theorem ipcone_complete_of_roots (hroot : HasRoots K) (ρ : Var → K) {β : List ℕ} {out : SocOut}
    (hne : β ≠ []) (hpos : ∀ b ∈ β, 1 ≤ b) (h : toSoc β = some out)
    (hnn : ∀ i < β.length, 0 ≤ ρ (.r i))
    (hpw : |ρ .x| ^ β.sum ≤ ∏ i ∈ range β.length, ρ (.r i) ^ β.getD i 0) :
    ∃ ρ' : Var → K, ρ' .x = ρ .x ∧ (∀ i, ρ' (.r i) = ρ (.r i)) ∧ out.holds ρ' :=
  toSoc_complete hroot ρ hne hpos h hnn (by rw [prodPow_rvars]; exact hpw)

/-- **completeness of `to_soc` over `ℝ`** -/
theorem ipcone_complete (ρ : Var → ℝ) {β : List ℕ} {out : SocOut}
    (hne : β ≠ []) (hpos : ∀ b ∈ β, 1 ≤ b) (h : toSoc β = some out)
    (hnn : ∀ i < β.length, 0 ≤ ρ (.r i))
    (hpw : |ρ .x| ^ β.sum ≤ ∏ i ∈ range β.length, ρ (.r i) ^ β.getD i 0) :
    ∃ ρ' : Var → ℝ, ρ' .x = ρ .x ∧ (∀ i, ρ' (.r i) = ρ (.r i)) ∧ out.holds ρ' :=
  ipcone_complete_of_roots real_hasRoots ρ hne hpos h hnn hpw

/-- concrete instance over `ℝ`: `x = 2, r = (2, 2)`, `β = [2,1]` : `8 ≤ 8`, the tower is satisfiable -/
example (out : SocOut) (h : toSoc [2, 1] = some out) :
    ∃ ρ' : Var → ℝ, ρ' .x = 2 ∧ ρ' (.r 0) = 2 ∧ ρ' (.r 1) = 2 ∧ out.holds ρ' := by
  obtain ⟨ρ', h1, h2, h3⟩ := ipcone_complete (fun _ => (2 : ℝ)) (by simp) (by decide) h
    (fun _ _ => by norm_num) (by simp [Finset.prod_range_succ]; norm_num)
  exact ⟨ρ', h1, h2 0, h2 1, h3⟩

/-! ## xtype 'G' : `pnorm(degree)` with the second-order-cone method -/

/-- **p-norm, integer degree `p ≥ 2`**: the rows and towers `do_math` builds for
`k·‖in‖_p + out ≤ 0` (`y = k·in`, `o = out`) imply `0 ≤ -o` and `Σ_j |y_j|^p ≤ (-o)^p`,
i.e. `‖k·in‖_p ≤ -out`. -/
theorem pnorm_soc_sound {p n : ℕ} (hp : 2 ≤ p) {y : ℕ → K} {o : K} {t : ℕ → K} {w : K}
    (h : PnormEnc [1, p - 1] n y o t w) :
    0 ≤ -o ∧ ∑ j ∈ range n, |y j| ^ p ≤ (-o) ^ p :=
  pnorm_int_sound hp h

/-- **p-norm, rational degree `a/b`** (`β = [b, a-b]`, written `[b, c]`), root-free form over every
ordered field: the auxiliary values certify `|y_j|^(b+c) ≤ t_j^b·W^c`, `t ≥ 0`, `Σ t_j ≤ W`
with `W = -o` — the defining system of `‖y‖_{(b+c)/b} ≤ W`. -/
theorem pnorm_soc_sound_frac {b c n : ℕ} (hb : 1 ≤ b) (hc : 1 ≤ c) {y : ℕ → K} {o : K}
    {t : ℕ → K} {w : K} (h : PnormEnc [b, c] n y o t w) :
    0 ≤ -o ∧ (∀ j < n, 0 ≤ t j ∧ |y j| ^ (b + c) ≤ t j ^ b * (-o) ^ c) ∧
      ∑ j ∈ range n, t j ≤ -o := by
  obtain ⟨hw, hwo, key, hsum⟩ := pnorm_enc_sound hb hc h
  refine ⟨le_trans hw hwo, ?_, le_trans hsum hwo⟩
  intro j hj
  obtain ⟨h1, h2⟩ := key j hj
  exact ⟨h1, le_trans h2 (mul_le_mul_of_nonneg_left (pow_le_pow_left₀ hw hwo c) (pow_nonneg h1 b))⟩

/-- **p-norm, rational degree over `ℝ`**: `Σ_j |y_j|^((b+c)/b) ≤ (-o)^((b+c)/b)` and `0 ≤ -o`. -/
theorem pnorm_soc_sound_real {b c n : ℕ} (hb : 1 ≤ b) (hc : 1 ≤ c) {y : ℕ → ℝ} {o : ℝ}
    {t : ℕ → ℝ} {w : ℝ} (h : PnormEnc [b, c] n y o t w) :
    0 ≤ -o ∧ ∑ j ∈ range n, |y j| ^ (((b + c : ℕ) : ℝ) / b) ≤ (-o) ^ (((b + c : ℕ) : ℝ) / b) :=
  pnorm_frac_sound_real hb hc h

/-- **p-norm, integer degree, completeness over `ℝ`**: if `0 ≤ -o` and `Σ_j |y_j|^p ≤ (-o)^p` the rows
and towers are satisfiable. -/
theorem pnorm_soc_complete {p n : ℕ} (hp : 2 ≤ p) {y : ℕ → ℝ} {o : ℝ} (ho : 0 ≤ -o)
    (hs : ∑ j ∈ range n, |y j| ^ p ≤ (-o) ^ p) :
    ∃ (t : ℕ → ℝ) (w : ℝ), PnormEnc [1, p - 1] n y o t w :=
  pnorm_int_complete real_hasRoots hp ho hs

/-- concrete instance: `‖(y0, y1)‖_3 + o ≤ 0` encoded ⇒ `|y0|³ + |y1|³ ≤ (-o)³` -/
example (y : ℕ → ℚ) (o : ℚ) (t : ℕ → ℚ) (w : ℚ)
    (h : PnormEnc [1, 2] 2 y o t w) : |y 0| ^ 3 + |y 1| ^ 3 ≤ (-o) ^ 3 := by
  have := (pnorm_soc_sound (p := 3) (by norm_num) h).2
  simpa [Finset.sum_range_succ] using this

/-! ## xtype 'T' : `power(p, q)` = `|·|^(p/q)` -/

/-- **power**: the rows `do_math` builds for one entry of `mult·|x|^(p/q) + out ≤ 0` (`o = out/mult`)
imply `0 ≤ -o` and `|x|^p ≤ (-o)^q`, i.e. `|x|^(p/q) ≤ -out/mult`. -/
theorem power_sound {p q : ℕ} (hq : 1 ≤ q) (hpq : q ≤ p) {x o t one : K}
    (h : PowerEnc p q x o t one) : 0 ≤ -o ∧ |x| ^ p ≤ (-o) ^ q :=
  power_enc_sound hq hpq h

/-- **power, completeness over `ℝ`** -/
theorem power_complete {p q : ℕ} (hq : 1 ≤ q) (hpq : q ≤ p) {x o : ℝ} (ho : 0 ≤ -o)
    (hx : |x| ^ p ≤ (-o) ^ q) : ∃ (t one : ℝ), PowerEnc p q x o t one :=
  power_enc_complete real_hasRoots hq hpq ho hx

/-- concrete instance: `|x|^(3/2) + o ≤ 0` encoded ⇒ `|x|³ ≤ o²` and `o ≤ 0` -/
example (x o t one : ℚ) (h : PowerEnc 3 2 x o t one) : o ≤ 0 ∧ |x| ^ 3 ≤ o ^ 2 := by
  obtain ⟨h1, h2⟩ := power_sound (by norm_num) (by norm_num) h
  exact ⟨by linarith, by simpa using h2⟩

/-! ## xtype 'C' : `gmean(β)` (concave; the constraint is `out ≤ k·gmean(in)`) -/

/-- **geometric mean**: the row and tower `do_math` builds for `-k·gmean(in) + out ≤ 0` imply
`in_i ≥ 0` and, when `out ≥ 0`, `out^d ≤ k^d·Π in_i^β_i` (`d = Σβ`), i.e. `out ≤ k·(Π in_i^β_i)^(1/d)`. -/
theorem gmean_sound {β : List ℕ} (hne : β ≠ []) (hpos : ∀ b ∈ β, 1 ≤ b) {k o a : K} (hk : 0 ≤ k)
    {inp : ℕ → K} (h : GmeanEnc β k o inp a) :
    (∀ i < β.length, 0 ≤ inp i) ∧
      (0 ≤ o → o ^ β.sum ≤ k ^ β.sum * ∏ i ∈ range β.length, inp i ^ β.getD i 0) :=
  gmean_enc_sound hne hpos hk h

/-- **geometric mean, completeness over `ℝ`** -/
theorem gmean_complete {β : List ℕ} (hne : β ≠ []) (hpos : ∀ b ∈ β, 1 ≤ b) {k o : ℝ} (hk : 0 ≤ k)
    {inp : ℕ → ℝ} (hnn : ∀ i < β.length, 0 ≤ inp i)
    (h : o ≤ 0 ∨ o ^ β.sum ≤ k ^ β.sum * ∏ i ∈ range β.length, inp i ^ β.getD i 0) :
    ∃ a : ℝ, GmeanEnc β k o inp a :=
  gmean_enc_complete real_hasRoots hne hpos hk hnn h

/-- concrete instance: `o ≤ gmean(in0, in1, in2)` encoded ⇒ `o³ ≤ in0·in1·in2` when `o ≥ 0` -/
example (o a : ℚ) (inp : ℕ → ℚ) (h : GmeanEnc [1, 1, 1] 1 o inp a) (ho : 0 ≤ o) :
    o ^ 3 ≤ inp 0 * inp 1 * inp 2 := by
  have := (gmean_sound (by simp) (by decide) zero_le_one h).2 ho
  simpa [Finset.prod_range_succ] using this

/-! ## The standard form of `do_math()` (executable model `atomEncode`, op "atom_encode")

`atomEncode ncols k ain aout params` is the conic program `do_math()` returns for the single constraint
`k·f(Ain·x+bin) + (Aout·x+bout) ≤ 0` on a fresh model (compared entry by entry with the real code by
`test_atoms_ipcone.py`).  `Aff.ev ncols v a` evaluates an affine expression on the user columns of the
assignment `v`; `Aff.UserOnly ncols a` says the expression only mentions user columns. -/

/-- **'G' standard form, sound** (integer degree `p ≥ 2`): every assignment feasible for the encoding
satisfies `‖k·(Ain·x+bin)‖_p + (Aout·x+bout) ≤ 0`, in the root-free form
`0 ≤ -out ∧ Σ_j |k·in_j|^p ≤ (-out)^p`. -/
theorem pnorm_stdform_sound {ncols p : ℕ} (hp : 2 ≤ p) {k : K} {ain aout : List (Aff K)}
    (hin : ∀ a ∈ ain, a.UserOnly ncols) (hout : ∀ a ∈ aout, a.UserOnly ncols) {P : ConeProg K}
    (h : atomEncode ncols k ain aout (.g [1, p - 1]) = some P) (E : K → K → K → Prop) (v : ℕ → K)
    (hf : P.Feas E v) :
    0 ≤ -((aout.getD 0 (Aff.const 0)).ev ncols v) ∧
      ∑ j ∈ range ain.length, |k * (ain.getD j (Aff.const 0)).ev ncols v| ^ p ≤
        (-((aout.getD 0 (Aff.const 0)).ev ncols v)) ^ p :=
  g_stdform_sound hp hin hout h E v hf

/-- **'G' standard form, sound, rational degree `(b+c)/b` over `ℝ`** (`β = [b, c] = [b, a-b]`). -/
theorem pnorm_stdform_sound_real {ncols b c : ℕ} (hb : 1 ≤ b) (hc : 1 ≤ c) {k : ℝ}
    {ain aout : List (Aff ℝ)}
    (hin : ∀ a ∈ ain, a.UserOnly ncols) (hout : ∀ a ∈ aout, a.UserOnly ncols) {P : ConeProg ℝ}
    (h : atomEncode ncols k ain aout (.g [b, c]) = some P) (E : ℝ → ℝ → ℝ → Prop) (v : ℕ → ℝ)
    (hf : P.Feas E v) :
    0 ≤ -((aout.getD 0 (Aff.const 0)).ev ncols v) ∧
      ∑ j ∈ range ain.length, |k * (ain.getD j (Aff.const 0)).ev ncols v| ^ (((b + c : ℕ) : ℝ) / b) ≤
        (-((aout.getD 0 (Aff.const 0)).ev ncols v)) ^ (((b + c : ℕ) : ℝ) / b) :=
  g_stdform_sound_real hb hc hin hout h E v hf

/-- **'T' standard form, sound**: for every element `i = (idx, p, q)` of the broadcast,
`0 ≤ -out_i/k ∧ |in_idx|^p ≤ (-out_i/k)^q`, i.e. `k·|in_idx|^(p/q) + out_i ≤ 0` (`k > 0`). -/
theorem power_stdform_sound {ncols : ℕ} {k : K} {ain aout : List (Aff K)} {items : List (ℕ × ℕ × ℕ)}
    (hin : ∀ a ∈ ain, a.UserOnly ncols) (hout : ∀ a ∈ aout, a.UserOnly ncols)
    (hpq : ∀ it ∈ items, 1 ≤ it.2.2 ∧ it.2.2 ≤ it.2.1) {P : ConeProg K}
    (h : atomEncode ncols k ain aout (.t items) = some P) (E : K → K → K → Prop) (v : ℕ → K)
    (hf : P.Feas E v) (i : ℕ) (hi : i < items.length) :
    0 ≤ -(1 / k * (aout.getD i (Aff.const 0)).ev ncols v) ∧
      |(ain.getD items[i].1 (Aff.const 0)).ev ncols v| ^ items[i].2.1 ≤
        (-(1 / k * (aout.getD i (Aff.const 0)).ev ncols v)) ^ items[i].2.2 :=
  t_stdform_sound hin hout hpq h E v hf i hi

/-- **'C' standard form, sound**: `in_i ≥ 0` and `out ≤ k·gmean_β(in)` in root-free form. -/
theorem gmean_stdform_sound {ncols : ℕ} {k : K} (hk : 0 ≤ k) {ain aout : List (Aff K)} {β : List ℕ}
    (hne : β ≠ []) (hpos : ∀ b ∈ β, 1 ≤ b)
    (hin : ∀ a ∈ ain, a.UserOnly ncols) (hout : ∀ a ∈ aout, a.UserOnly ncols) {P : ConeProg K}
    (h : atomEncode ncols k ain aout (.c β) = some P) (E : K → K → K → Prop) (v : ℕ → K)
    (hf : P.Feas E v) :
    (∀ i < β.length, 0 ≤ (ain.getD i (Aff.const 0)).ev ncols v) ∧
      (0 ≤ (aout.getD 0 (Aff.const 0)).ev ncols v →
        ((aout.getD 0 (Aff.const 0)).ev ncols v) ^ β.sum ≤
          k ^ β.sum * ∏ i ∈ range β.length, ((ain.getD i (Aff.const 0)).ev ncols v) ^ β.getD i 0) :=
  c_stdform_sound hk hne hpos hin hout h E v hf

/-- the model returns a program for every valid parameter set -/
theorem atomEncode_total (ncols : ℕ) (k : K) (ain aout : List (Aff K)) :
    (∀ b c, 1 ≤ b → 1 ≤ c → ∃ P, atomEncode ncols k ain aout (.g [b, c]) = some P) ∧
    (∀ items, (∀ it ∈ items, 1 ≤ it.2.2 ∧ it.2.2 ≤ it.2.1) →
      ∃ P, atomEncode ncols k ain aout (.t items) = some P) ∧
    (∀ β, β ≠ [] → (∀ b ∈ β, 1 ≤ b) → ∃ P, atomEncode ncols k ain aout (.c β) = some P) :=
  ⟨fun _ _ hb hc => atomEncode_isSome_g ncols k ain aout hb hc,
   fun _ h => atomEncode_isSome_t ncols k ain aout h,
   fun _ hne hpos => atomEncode_isSome_c ncols k ain aout hne hpos⟩

/-- **'G' standard form, complete** (integer degree, over `ℝ`): if the user's inequality holds at the
user columns of `v0`, some assignment with the same user columns is feasible for the encoding. -/
theorem pnorm_stdform_complete {ncols p : ℕ} (hp : 2 ≤ p) {k : ℝ} {ain aout : List (Aff ℝ)}
    (hin : ∀ a ∈ ain, a.UserOnly ncols) (hout : ∀ a ∈ aout, a.UserOnly ncols) {P : ConeProg ℝ}
    (h : atomEncode ncols k ain aout (.g [1, p - 1]) = some P) (E : ℝ → ℝ → ℝ → Prop) (v0 : ℕ → ℝ)
    (ho : 0 ≤ -((aout.getD 0 (Aff.const 0)).ev ncols v0))
    (hs : ∑ j ∈ range ain.length, |k * (ain.getD j (Aff.const 0)).ev ncols v0| ^ p ≤
        (-((aout.getD 0 (Aff.const 0)).ev ncols v0)) ^ p) :
    ∃ v : ℕ → ℝ, (∀ j < ncols, v j = v0 j) ∧ P.Feas E v := by
  obtain ⟨t, w, henc⟩ := pnorm_int_complete real_hasRoots hp ho hs
  exact g_stdform_complete_of_enc (le_refl 1) (by omega) hin hout h E v0 henc

/-- **'G' standard form, complete relative to the value-level system** (any weights `[b, c]`, any
ordered field): a solution `t, w` of the root-free system `PnormEnc` extends to a feasible point. -/
theorem pnorm_stdform_complete_of_enc {ncols b c : ℕ} (hb : 1 ≤ b) (hc : 1 ≤ c) {k : K}
    {ain aout : List (Aff K)}
    (hin : ∀ a ∈ ain, a.UserOnly ncols) (hout : ∀ a ∈ aout, a.UserOnly ncols) {P : ConeProg K}
    (h : atomEncode ncols k ain aout (.g [b, c]) = some P) (E : K → K → K → Prop) (v0 : ℕ → K)
    {t : ℕ → K} {w : K}
    (henc : PnormEnc [b, c] ain.length (fun j => k * (ain.getD j (Aff.const 0)).ev ncols v0)
      ((aout.getD 0 (Aff.const 0)).ev ncols v0) t w) :
    ∃ v : ℕ → K, (∀ j < ncols, v j = v0 j) ∧ P.Feas E v :=
  g_stdform_complete_of_enc hb hc hin hout h E v0 henc

/-- **'T' standard form, complete** (over `ℝ`). -/
theorem power_stdform_complete {ncols : ℕ} {k : ℝ} {ain aout : List (Aff ℝ)}
    {items : List (ℕ × ℕ × ℕ)}
    (hin : ∀ a ∈ ain, a.UserOnly ncols) (hout : ∀ a ∈ aout, a.UserOnly ncols)
    (hpq : ∀ it ∈ items, 1 ≤ it.2.2 ∧ it.2.2 ≤ it.2.1) {P : ConeProg ℝ}
    (h : atomEncode ncols k ain aout (.t items) = some P) (E : ℝ → ℝ → ℝ → Prop) (v0 : ℕ → ℝ)
    (hu : ∀ (i : ℕ) (hi : i < items.length),
      0 ≤ -(1 / k * (aout.getD i (Aff.const 0)).ev ncols v0) ∧
      |(ain.getD items[i].1 (Aff.const 0)).ev ncols v0| ^ items[i].2.1 ≤
        (-(1 / k * (aout.getD i (Aff.const 0)).ev ncols v0)) ^ items[i].2.2) :
    ∃ v : ℕ → ℝ, (∀ j < ncols, v j = v0 j) ∧ P.Feas E v := by
  apply t_stdform_complete_of_enc hin hout hpq h E v0
    (t := fun i => -(1 / k * (aout.getD i (Aff.const 0)).ev ncols v0)) (one := fun _ => 1)
  intro i hi
  obtain ⟨q1, q2⟩ := hpq _ (List.getElem_mem hi)
  exact power_enc_complete' real_hasRoots q1 q2 (hu i hi).1 (hu i hi).2

/-- **'C' standard form, complete** (over `ℝ`). -/
theorem gmean_stdform_complete {ncols : ℕ} {k : ℝ} (hk : 0 ≤ k) {ain aout : List (Aff ℝ)}
    {β : List ℕ} (hne : β ≠ []) (hpos : ∀ b ∈ β, 1 ≤ b)
    (hin : ∀ a ∈ ain, a.UserOnly ncols) (hout : ∀ a ∈ aout, a.UserOnly ncols) {P : ConeProg ℝ}
    (h : atomEncode ncols k ain aout (.c β) = some P) (E : ℝ → ℝ → ℝ → Prop) (v0 : ℕ → ℝ)
    (hnn : ∀ i < β.length, 0 ≤ (ain.getD i (Aff.const 0)).ev ncols v0)
    (hu : (aout.getD 0 (Aff.const 0)).ev ncols v0 ≤ 0 ∨
      ((aout.getD 0 (Aff.const 0)).ev ncols v0) ^ β.sum ≤
        k ^ β.sum * ∏ i ∈ range β.length, ((ain.getD i (Aff.const 0)).ev ncols v0) ^ β.getD i 0) :
    ∃ v : ℕ → ℝ, (∀ j < ncols, v j = v0 j) ∧ P.Feas E v := by
  obtain ⟨a, henc⟩ := gmean_enc_complete real_hasRoots hne hpos hk hnn hu
  exact c_stdform_complete_of_enc hne hpos hin hout h E v0 henc

/-- shape of the standard form of `gmean((x1, x2), [2, 1]) >= x3` (4 user columns incl. the epigraph
column): rows = 1 (`aux·k + out ≤ 0`) + 2 (`|aux| ≤ s`) + 3 per cone = 9; columns = 4 + `aux` + the pad
variable `s` + one tower variable + 3 per cone = 13; cones `[aux_right, aux_left0, aux_left1]` -/
example : (atomEncode (K := ℚ) 4 1 [Aff.col 1, Aff.col 2] [Aff.col 3] (.c [2, 1])).map
    (fun P => (P.lp.nr, P.lp.nc, P.qmat)) = some (9, 13, [[9, 7, 8], [12, 10, 11]]) := by
  decide +kernel

end RsomeV.IPC
