import RsomeV.M.RobustStray
import RsomeV.Props.C01
import Mathlib.Tactic.Linarith
import Mathlib.Tactic.Ring
import Mathlib.Tactic.NormNum

/-! C01 (stray random variables) — safety of the repaired robust counterpart `RoRows.leToRcK`
(model of `RoConstr.le_to_rc` with the block `raffine[:, known:num_rand] == 0`) WITHOUT the
hypothesis `hlift` of `C01.rc_sound_late`. -/

set_option linter.unusedSectionVars false
set_option linter.unusedSimpArgs false
set_option linter.unusedVariables false

namespace RsomeV.C01Stray
open Finset RsomeV ConeProg RoRows

variable {K : Type} [Field K] [LinearOrder K] [IsStrictOrderedRing K]

/-! ### Decoding `leToRcK` -/

section decode
variable (R : RoRows K) (S : ConeProg K) (known : ℕ)

lemma leToRcK_nc : (R.leToRcK S known).prog.lp.nc = (R.leToRc S).prog.lp.nc := rfl
lemma leToRcK_nr :
    (R.leToRcK S known).prog.lp.nr = (R.leToRc S).prog.lp.nr + R.n5 S known := rfl
lemma leToRcK_ub : (R.leToRcK S known).prog.lp.ub = (R.leToRc S).prog.lp.ub := rfl
lemma leToRcK_lb : (R.leToRcK S known).prog.lp.lb = (R.leToRc S).prog.lp.lb := rfl
lemma leToRcK_qmat : (R.leToRcK S known).prog.qmat = (R.leToRc S).prog.qmat := rfl
lemma leToRcK_xmat : (R.leToRcK S known).prog.xmat = (R.leToRc S).prog.xmat := rfl
lemma leToRcK_n : (R.leToRcK S known).n1 = (R.leToRc S).n1 ∧ (R.leToRcK S known).n2 = (R.leToRc S).n2 ∧
    (R.leToRcK S known).n3 = (R.leToRc S).n3 ∧ (R.leToRcK S known).n4 = (R.leToRc S).n4 :=
  ⟨rfl, rfl, rfl, rfl⟩

/-- the rows of blocks (1)–(4) are those of `leToRc` -/
lemma leToRcK_row_old (r : ℕ) (hr : r < (R.leToRc S).prog.lp.nr) (v : ℕ → K) :
    (R.leToRcK S known).prog.lp.row r v = (R.leToRc S).prog.lp.row r v := by
  show ∑ c ∈ range (R.leToRc S).prog.lp.nc,
      (if r < (R.leToRc S).prog.lp.nr then (R.leToRc S).prog.lp.a r c else _) * v c = _
  simp only [hr, if_true]
  rfl

lemma leToRcK_b_old (r : ℕ) (hr : r < (R.leToRc S).prog.lp.nr) :
    (R.leToRcK S known).prog.lp.b r = (R.leToRc S).prog.lp.b r := by
  show (if r < (R.leToRc S).prog.lp.nr then (R.leToRc S).prog.lp.b r else _) = _
  rw [if_pos hr]

lemma leToRcK_eq_old (r : ℕ) (hr : r < (R.leToRc S).prog.lp.nr) :
    (R.leToRcK S known).prog.lp.eq r = (R.leToRc S).prog.lp.eq r := by
  show (if r < (R.leToRc S).prog.lp.nr then (R.leToRc S).prog.lp.eq r else true) = _
  rw [if_pos hr]

/-- **the repaired fragment contains the old one**: a point of `leToRcK` is a point of `leToRc` -/
theorem leToRcK_feas_old (E : K → K → K → Prop) (v : ℕ → K)
    (hv : (R.leToRcK S known).prog.Feas E v) : (R.leToRc S).prog.Feas E v := by
  refine ⟨⟨?_, hv.lin.ubs, hv.lin.lbs⟩, hv.soc, hv.exp⟩
  intro r hr
  have h := hv.lin.rows r (by rw [leToRcK_nr]; omega)
  rw [leToRcK_row_old R S known r hr, leToRcK_b_old R S known r hr,
    leToRcK_eq_old R S known r hr] at h
  exact h

lemma strayPresent_iff : R.strayPresent S known = true ↔
    ∃ n < R.m, ∃ j, known ≤ j ∧ j < R.numRand S ∧
      (R.Rc n j ≠ 0 ∨ ∃ d < R.nd, R.Rl n j d ≠ 0) := by
  unfold strayPresent strayW
  simp only [List.any_eq_true, List.mem_range, Bool.or_eq_true, decide_eq_true_eq]
  constructor
  · rintro ⟨n, hn, jj, hjj, h⟩
    exact ⟨n, hn, known + jj, by omega, by omega, h⟩
  · rintro ⟨n, hn, j, h1, h2, h⟩
    refine ⟨n, hn, j - known, by omega, ?_⟩
    rw [show known + (j - known) = j by omega]
    exact h

/-- block (5) is absent although `known < num_rand` only if the stray coefficients are
structurally zero -/
lemma stray_struct_zero (h : R.strayPresent S known = false) (n : ℕ) (hn : n < R.m) (j : ℕ)
    (h1 : known ≤ j) (h2 : j < R.numRand S) :
    R.Rc n j = 0 ∧ ∀ d < R.nd, R.Rl n j d = 0 := by
  have h' : ¬ (R.strayPresent S known = true) := by rw [h]; simp
  rw [strayPresent_iff] at h'
  refine ⟨?_, ?_⟩
  · by_contra hc
    exact h' ⟨n, hn, j, h1, h2, Or.inl hc⟩
  · intro d hd
    by_contra hc
    exact h' ⟨n, hn, j, h1, h2, Or.inr ⟨d, hd, hc⟩⟩

lemma n5_present (h : R.strayPresent S known = true) : R.n5 S known = R.m * R.strayW S known := by
  unfold n5; rw [if_pos h]

/-- no stray block when the set knows every paired column (`num_rand ≤ known`; in particular when
the support carries no `num_rand`): the repaired fragment is the old one -/
lemma n5_eq_zero_of_le (h : R.numRand S ≤ known) : R.n5 S known = 0 := by
  have h0 : R.strayW S known = 0 := by unfold strayW; omega
  unfold n5
  rw [h0]
  split_ifs <;> simp

lemma idx5 (r0 m w n k : ℕ) (hn : n < m) (hk : k < w) :
    ¬ (r0 + (n * w + k) < r0) ∧ r0 + (n * w + k) < r0 + m * w ∧
    (r0 + (n * w + k) - r0) / w = n ∧ (r0 + (n * w + k) - r0) % w = k := by
  have h1 : n * w + k < m * w := by
    have : (n + 1) * w ≤ m * w := Nat.mul_le_mul_right _ hn
    rw [Nat.succ_mul] at this
    omega
  refine ⟨by omega, by omega, ?_, ?_⟩
  · rw [Nat.add_sub_cancel_left, Nat.add_comm, Nat.add_mul_div_right _ _ (by omega),
      Nat.div_eq_of_lt hk]; simp
  · rw [Nat.add_sub_cancel_left, Nat.add_comm, Nat.add_mul_mod_self_right, Nat.mod_eq_of_lt hk]

/-- row (5) of the counterpart (position `(n, k)` of the flattened block, random component
`known + k`) -/
lemma leToRcK_row5 (n : ℕ) (hn : n < R.m) (k : ℕ) (hk : k < R.strayW S known) (v : ℕ → K) :
    (R.leToRcK S known).prog.lp.row ((R.leToRc S).prog.lp.nr + (n * R.strayW S known + k)) v
      = ∑ d ∈ range R.nd, R.Rl n (known + k) d * v d := by
  obtain ⟨h1, _, h3, h4⟩ := idx5 (R.leToRc S).prog.lp.nr R.m (R.strayW S known) n k hn hk
  show ∑ c ∈ range (R.nd + R.m * S.lp.nc),
      (if (R.leToRc S).prog.lp.nr + (n * R.strayW S known + k) < (R.leToRc S).prog.lp.nr
        then (R.leToRc S).prog.lp.a _ c
        else (if c < R.nd then
          R.Rl (((R.leToRc S).prog.lp.nr + (n * R.strayW S known + k) - (R.leToRc S).prog.lp.nr)
              / R.strayW S known)
            (known + ((R.leToRc S).prog.lp.nr + (n * R.strayW S known + k)
              - (R.leToRc S).prog.lp.nr) % R.strayW S known) c else 0)) * v c = _
  simp only [h1, h3, h4, if_false]
  rw [Finset.sum_range_add]
  have hz : ∑ x ∈ range (R.m * S.lp.nc),
      (if R.nd + x < R.nd then R.Rl n (known + k) (R.nd + x) else 0) * v (R.nd + x) = 0 := by
    apply Finset.sum_eq_zero; intro x _
    rw [if_neg (by omega), zero_mul]
  rw [hz, add_zero]
  apply Finset.sum_congr rfl; intro d hd
  rw [if_pos (Finset.mem_range.mp hd)]

lemma leToRcK_b5 (n : ℕ) (hn : n < R.m) (k : ℕ) (hk : k < R.strayW S known) :
    (R.leToRcK S known).prog.lp.b ((R.leToRc S).prog.lp.nr + (n * R.strayW S known + k))
      = - R.Rc n (known + k) := by
  obtain ⟨h1, _, h3, h4⟩ := idx5 (R.leToRc S).prog.lp.nr R.m (R.strayW S known) n k hn hk
  show (if (R.leToRc S).prog.lp.nr + (n * R.strayW S known + k) < (R.leToRc S).prog.lp.nr
      then (R.leToRc S).prog.lp.b _
      else - R.Rc (((R.leToRc S).prog.lp.nr + (n * R.strayW S known + k) - (R.leToRc S).prog.lp.nr)
              / R.strayW S known)
            (known + ((R.leToRc S).prog.lp.nr + (n * R.strayW S known + k)
              - (R.leToRc S).prog.lp.nr) % R.strayW S known)) = _
  rw [if_neg h1, h3, h4]

lemma leToRcK_eq5 (n : ℕ) (hn : n < R.m) (k : ℕ) (hk : k < R.strayW S known) :
    (R.leToRcK S known).prog.lp.eq ((R.leToRc S).prog.lp.nr + (n * R.strayW S known + k))
      = true := by
  obtain ⟨h1, _, _, _⟩ := idx5 (R.leToRc S).prog.lp.nr R.m (R.strayW S known) n k hn hk
  show (if (R.leToRc S).prog.lp.nr + (n * R.strayW S known + k) < (R.leToRc S).prog.lp.nr
      then (R.leToRc S).prog.lp.eq _ else true) = true
  rw [if_neg h1]

/-- **Block (5) forces the stray coefficients to vanish**: at a point of the repaired fragment the
coefficient of every random component `known ≤ j < num_rand` of every row is zero — by the
equality rows of block (5) when the block is present, and structurally when it is absent. -/
theorem leToRcK_stray_zero (E : K → K → K → Prop) (v : ℕ → K)
    (hv : (R.leToRcK S known).prog.Feas E v)
    (n : ℕ) (hn : n < R.m) (j : ℕ) (h1 : known ≤ j) (h2 : j < R.numRand S) :
    R.coef n j v = 0 := by
  unfold coef
  by_cases hp : R.strayPresent S known = true
  · have hk : j - known < R.strayW S known := by unfold strayW; omega
    obtain ⟨_, hlt, _, _⟩ := idx5 (R.leToRc S).prog.lp.nr R.m (R.strayW S known) n _ hn hk
    have hr := hv.lin.rows _ (by rw [leToRcK_nr, n5_present R S known hp]; exact hlt)
    rw [leToRcK_row5 R S known n hn _ hk, leToRcK_b5 R S known n hn _ hk,
      leToRcK_eq5 R S known n hn _ hk, show known + (j - known) = j by omega] at hr
    simp only [if_true] at hr
    rw [hr]; ring
  · have hp' : R.strayPresent S known = false := by simpa using hp
    obtain ⟨hc, hl⟩ := stray_struct_zero R S known hp' n hn j h1 h2
    rw [hc, add_zero]
    apply Finset.sum_eq_zero; intro d hd
    rw [hl d (Finset.mem_range.mp hd), zero_mul]

/-- at a point of the repaired fragment the coefficient of **every** random component `j ≥ known`
vanishes (stray block for `j < num_rand`, late block for `j ≥ num_rand`) -/
theorem leToRcK_coef_zero (E : K → K → K → Prop) (v : ℕ → K)
    (hv : (R.leToRcK S known).prog.Feas E v)
    (n : ℕ) (hn : n < R.m) (j : ℕ) (h1 : known ≤ j) (h2 : j < R.nz) :
    R.coef n j v = 0 := by
  by_cases h : j < R.numRand S
  · exact leToRcK_stray_zero R S known E v hv n hn j h1 h
  · exact leToRc_late_zero R S E v (leToRcK_feas_old R S known E v hv) n hn j (by omega) h2

end decode

/-! ### Soundness -/

/-- `C01.rc_sound_late` with the hypothesis on the lifted columns stated about the **value** of the
coefficients at `v` (`hcoef`: the coefficient of every column `k ≤ j < Pz.lp.nc` of row `n`
vanishes at `v`) instead of their structure (`hlift`), and with the realisation `ζ` tied to the
point `ζ₀` of the support program on the columns `< k` only (the proof of `rc_sound_late` uses the
coefficients only through `coef n j v`, and `hζ` only below `min R.nz k`). -/
theorem rc_sound_late_val (Pz : ConeProg K) (E : K → K → K → Prop) (hE : ExpPair E) (hwf : Pz.WF)
    (hones : ∀ j, Pz.lp.c j = 1)
    (R : RoRows K)
    (k : ℕ) (hk : k ≤ Pz.lp.nc)
    (hq : Pz.rowsRemoved = true → ∀ q ∈ Pz.qmat, ∀ j ∈ q, k ≤ j)
    (hxq : Pz.rowsRemoved = true → ∀ e ∈ Pz.xmat, ∀ j ∈ e, j ∉ Pz.eye)
    (v : ℕ → K) (hv : (R.leToRc Pz.coneDual).prog.Feas E v)
    (n : ℕ) (hn : n < R.m)
    (hcoef : ∀ j, k ≤ j → j < Pz.lp.nc → j < R.nz → R.coef n j v = 0)
    (ζ₀ : ℕ → K) (hζ₀ : Pz.Feas E ζ₀)
    (ζ : ℕ → K) (hζ : ∀ j < k, ζ j = ζ₀ j) :
    R.eval n v ζ ≤ 0 := by
  set S := Pz.coneDual with hS
  set k₀ := min R.nz k with hk₀
  have hk₀k : k₀ ≤ k := Nat.min_le_right _ _
  have hk₀z : k₀ ≤ R.nz := Nat.min_le_left _ _
  set c' : ℕ → K := fun j => if j < k₀ then - R.coef n j v else 0 with hc'
  -- layout facts
  have hkS : k ≤ S.lp.nr := by
    by_cases hr : Pz.rowsRemoved = true
    · exact le_coneDual_nr Pz k hk (hq hr)
    · rw [hS, coneDual_nr, if_neg hr]; exact hk
  have hSle : S.lp.nr ≤ Pz.lp.nc := coneDual_nr_le Pz
  have hlt : ∀ j < k, Pz.rowIdx j = j := by
    intro j hj
    by_cases hr : Pz.rowsRemoved = true
    · exact rowIdx_lt Pz k hk (hq hr) j hj
    · unfold rowIdx; rw [if_neg hr]
  have hge : ∀ r, k ≤ r → r < S.lp.nr → k ≤ Pz.rowIdx r := by
    intro r hr1 hr2
    by_cases hr : Pz.rowsRemoved = true
    · exact rowIdx_ge Pz k hk (hq hr) r hr1 hr2
    · unfold rowIdx; rw [if_neg hr]; exact hr1
  have hnumz : R.numRand S ≤ R.nz := Nat.min_le_left _ _
  have hnumS : R.numRand S ≤ S.lp.nr := Nat.min_le_right _ _
  have hcoef0 : ∀ j, k ≤ j → j < Pz.lp.nc → j < R.nz → R.coef n j v = 0 := hcoef
  have hlate : ∀ j, Pz.lp.nc ≤ j → j < R.nz → R.coef n j v = 0 := fun j h1 h2 =>
    leToRc_late_zero R S E v hv n hn j (by omega) h2
  have hb : S.lp.b = Pz.dualRhs Pz.lp.c := coneDual_b Pz
  -- the multipliers of row `n` are feasible for the conic dual of the re-costed support program
  have hy : (Pz.withCost c').coneDual.Feas E (fun i => v (R.ycol S n i)) := by
    rw [coneDual_withCost]
    apply leToRc_extract R S E (coneDual_ub Pz) (coneDual_lb Pz) (coneDual_xlen Pz) v hv n hn
    intro j hj
    rw [hb]
    unfold dualRhs
    by_cases h : j < k₀
    · have hjk : j < k := by omega
      have hjn : j < R.numRand S := by
        unfold numRand; exact lt_min (by omega) (by omega)
      rw [if_pos hjn, hlt j hjk, hones]
      simp only [hc', h, if_true]
      split_ifs <;> ring
    · have hidx : ¬ Pz.rowIdx j < k₀ := by
        by_cases hjk : j < k
        · rw [hlt j hjk]; exact h
        · have := hge j (by omega) hj
          omega
      simp only [hc', hidx, if_false]
      by_cases hjn : j < R.numRand S
      · rw [if_pos hjn]
        have hkj : k ≤ j := by
          by_contra hkj
          exact h (lt_min (by omega) (by omega))
        rw [hcoef0 j hkj (by omega) (by omega)]
        split_ifs <;> simp
      · rw [if_neg hjn]
        split_ifs <;> simp
  have hwf' : (Pz.withCost c').WF := ⟨hwf.qlt, hwf.xlen, hwf.xlt, hwf.xnotneg, hwf.stcov⟩
  have hζ' : (Pz.withCost c').Feas E ζ₀ :=
    ⟨⟨hζ₀.lin.rows, hζ₀.lin.ubs, hζ₀.lin.lbs⟩, hζ₀.soc, hζ₀.exp⟩
  have hcz : (Pz.withCost c').rowsRemoved = true →
      ∀ q ∈ (Pz.withCost c').qmat, ∀ j ∈ q, (Pz.withCost c').lp.c j = 0 := by
    intro hr q hq' j hj
    have := hq hr q hq' j hj
    show c' j = 0
    simp only [hc', show ¬ j < k₀ by omega, if_false]
  have hweak := coneDual_weak (Pz.withCost c') E hE hwf' hcz hxq ζ₀ _ hζ' hy
  have hobjS : (Pz.withCost c').coneDual.lp.obj (fun i => v (R.ycol S n i))
      = ∑ i ∈ range S.lp.nc, S.lp.c i * v (R.ycol S n i) := by
    rw [coneDual_withCost]; rfl
  -- primal objective at `ζ₀` = minus the uncertain part of the row at `ζ`
  have hobjP : (Pz.withCost c').lp.obj ζ₀ = - ∑ j ∈ range R.nz, R.coef n j v * ζ j := by
    show ∑ j ∈ range Pz.lp.nc, c' j * ζ₀ j = _
    rw [sum_range_tail_zero k₀ Pz.lp.nc (by omega) (fun j => c' j * ζ₀ j)
        (fun j => - (R.coef n j v * ζ₀ j))
        (by intro j hj; simp only [hc', hj, if_true]; ring)
        (by intro j h1 _; simp only [hc', show ¬ j < k₀ by omega, if_false, zero_mul]),
      sum_range_tail_zero k₀ R.nz hk₀z (fun j => R.coef n j v * ζ j)
        (fun j => R.coef n j v * ζ₀ j)
        (by intro j hj; show R.coef n j v * ζ j = R.coef n j v * ζ₀ j; rw [hζ j (by omega)])
        (by
          intro j h1 h2
          have hkj : k ≤ j := by
            by_contra hkj
            exact absurd (lt_min h2 (by omega) : j < min R.nz k) (by omega)
          show R.coef n j v * ζ j = 0
          by_cases hjc : j < Pz.lp.nc
          · rw [hcoef0 j hkj hjc h2, zero_mul]
          · rw [hlate j (by omega) h2, zero_mul]),
      Finset.sum_neg_distrib]
  have hrow1 := hv.lin.rows n (by rw [leToRc_nr]; omega)
  rw [leToRc_row1 R S n hn, leToRc_b1 R S n hn, leToRc_eq1 R S n hn] at hrow1
  simp only [Bool.false_eq_true, if_false] at hrow1
  rw [hobjS, hobjP] at hweak
  unfold RoRows.eval
  unfold coef at hweak
  linarith

/-- `C01.rc_sound_late` is an instance of the value variant -/
example (Pz : ConeProg K) (E : K → K → K → Prop) (hE : ExpPair E) (hwf : Pz.WF)
    (hones : ∀ j, Pz.lp.c j = 1) (R : RoRows K) (k : ℕ) (hk : k ≤ Pz.lp.nc)
    (hq : Pz.rowsRemoved = true → ∀ q ∈ Pz.qmat, ∀ j ∈ q, k ≤ j)
    (hlift : ∀ n < R.m, ∀ j, k ≤ j → j < Pz.lp.nc → j < R.nz →
      R.Rc n j = 0 ∧ ∀ d < R.nd, R.Rl n j d = 0)
    (hxq : Pz.rowsRemoved = true → ∀ e ∈ Pz.xmat, ∀ j ∈ e, j ∉ Pz.eye)
    (v : ℕ → K) (hv : (R.leToRc Pz.coneDual).prog.Feas E v)
    (n : ℕ) (hn : n < R.m) (ζ₀ : ℕ → K) (hζ₀ : Pz.Feas E ζ₀)
    (ζ : ℕ → K) (hζ : ∀ j < Pz.lp.nc, ζ j = ζ₀ j) : R.eval n v ζ ≤ 0 :=
  rc_sound_late_val Pz E hE hwf hones R k hk hq hxq v hv n hn
    (by
      intro j h1 h2 h3
      obtain ⟨hc, hl⟩ := hlift n hn j h1 h2 h3
      unfold coef
      rw [hc, add_zero]
      apply Finset.sum_eq_zero; intro d hd
      rw [hl d (Finset.mem_range.mp hd), zero_mul])
    ζ₀ hζ₀ ζ (fun j hj => hζ j (by omega))

/-- **Safety of the repaired robust counterpart, without `hlift`** (model of the repaired
`RoConstr.le_to_rc` over the model of the support's conic dual, `known = support.num_rand`).

Every assignment `v` (decisions and multipliers) feasible for the repaired fragment satisfies
uncertain row `n` at every realisation `ζ` that agrees with a point `ζ₀` of the (lifted) support
program `Pz` on the columns `< known` — the random variables the set was written for — and is
**arbitrary on every column `≥ known`**: random variables declared after the set was formulated are
unrestricted, whatever column number they took (that of an auxiliary column of the set, `known ≤ j <
Pz.lp.nc`, or beyond).

Structural facts used (they hold for every set `forall()` / `minmax()` formulate):
* `hk`  : `known ≤ Pz.lp.nc` — the random variables the set was written for are the leading columns
  of the support program; the columns `known ≤ j < Pz.lp.nc` are auxiliary columns of the
  formulation (that is the meaning of `ζ₀`: the uncertainty set is the projection of `Pz` onto the
  columns `< known`);
* `hq`  : in the compact dual layout the second-order cones sit on columns `≥ known`;
* `hxq` : as in `rc_sound`.
Nothing is assumed about `R.nz`, and **nothing about the coefficients of the rows** (`hlift` of
`rc_sound_late` is gone: the stray block forces what it assumed). -/
theorem rc_sound_stray (Pz : ConeProg K) (E : K → K → K → Prop) (hE : ExpPair E) (hwf : Pz.WF)
    (hones : ∀ j, Pz.lp.c j = 1)
    (R : RoRows K)
    (known : ℕ) (hk : known ≤ Pz.lp.nc)
    (hq : Pz.rowsRemoved = true → ∀ q ∈ Pz.qmat, ∀ j ∈ q, known ≤ j)
    (hxq : Pz.rowsRemoved = true → ∀ e ∈ Pz.xmat, ∀ j ∈ e, j ∉ Pz.eye)
    (v : ℕ → K) (hv : (R.leToRcK Pz.coneDual known).prog.Feas E v)
    (n : ℕ) (hn : n < R.m)
    (ζ₀ : ℕ → K) (hζ₀ : Pz.Feas E ζ₀)
    (ζ : ℕ → K) (hζ : ∀ j < known, ζ j = ζ₀ j) :
    R.eval n v ζ ≤ 0 :=
  rc_sound_late_val Pz E hE hwf hones R known hk hq hxq v
    (leToRcK_feas_old R Pz.coneDual known E v hv) n hn
    (fun j h1 _ h3 => leToRcK_coef_zero R Pz.coneDual known E v hv n hn j h1 h3)
    ζ₀ hζ₀ ζ hζ

/-- converse of `leToRcK_feas_old` + `leToRcK_stray_zero`: a point of the old fragment at which the
stray coefficients vanish is a point of the repaired fragment -/
theorem leToRcK_feas_of (R : RoRows K) (S : ConeProg K) (known : ℕ) (E : K → K → K → Prop)
    (v : ℕ → K) (hv : (R.leToRc S).prog.Feas E v)
    (hs : ∀ n < R.m, ∀ j, known ≤ j → j < R.numRand S → R.coef n j v = 0) :
    (R.leToRcK S known).prog.Feas E v := by
  refine ⟨⟨?_, hv.lin.ubs, hv.lin.lbs⟩, hv.soc, hv.exp⟩
  intro r hr
  rw [leToRcK_nr] at hr
  by_cases h : r < (R.leToRc S).prog.lp.nr
  · rw [leToRcK_row_old R S known r h, leToRcK_b_old R S known r h, leToRcK_eq_old R S known r h]
    exact hv.lin.rows r h
  · have hp : R.strayPresent S known = true := by
      by_contra hp
      have : R.n5 S known = 0 := by unfold n5; rw [if_neg hp]
      omega
    rw [n5_present R S known hp] at hr
    set w := R.strayW S known with hw
    set t := r - (R.leToRc S).prog.lp.nr with ht
    have htw : t < R.m * w := by omega
    have hw0 : 0 < w := by
      rcases Nat.eq_zero_or_pos w with h0 | h0
      · rw [h0] at htw; omega
      · exact h0
    have hk : t % w < w := Nat.mod_lt _ hw0
    have hn : t / w < R.m := by
      rw [Nat.div_lt_iff_lt_mul hw0]; exact htw
    have hr' : r = (R.leToRc S).prog.lp.nr + (t / w * w + t % w) := by
      rw [Nat.div_add_mod']; omega
    rw [hr', leToRcK_row5 R S known _ hn _ hk, leToRcK_b5 R S known _ hn _ hk,
      leToRcK_eq5 R S known _ hn _ hk]
    simp only [if_true]
    have := hs _ hn (known + t % w) (by omega) (by unfold strayW at hw; omega)
    unfold coef at this
    linarith

/-- the row depends on the realisation only through the columns `< known` at a point of the
repaired fragment (the reduction behind `rc_sound_stray`, stated on its own) -/
theorem eval_indep_late (R : RoRows K) (S : ConeProg K) (known : ℕ) (E : K → K → K → Prop)
    (v : ℕ → K) (hv : (R.leToRcK S known).prog.Feas E v) (n : ℕ) (hn : n < R.m)
    (ζ ζ' : ℕ → K) (h : ∀ j < known, ζ j = ζ' j) : R.eval n v ζ = R.eval n v ζ' := by
  unfold RoRows.eval
  congr 1
  apply Finset.sum_congr rfl
  intro j hj
  by_cases hjk : j < known
  · rw [h j hjk]
  · have := leToRcK_coef_zero R S known E v hv n hn j (by omega) (Finset.mem_range.mp hj)
    unfold coef at this
    rw [this, zero_mul, zero_mul]

/-! ### The reproducer in numbers

    m = ro.Model(); x, y = m.dvar(), m.dvar(); z = m.rvar(2)
    m.minmax(x, rso.norm(z, 1) <= 1)                       # default set: columns z_0 z_1 | t_0 t_1 (auxiliary)
    m.st((x >= z[0] - 10).forall(z >= -1, z <= 1))         # own set without auxiliary columns in between
    w = m.rvar()                                           # takes column number 2 = that of t_0
    m.st(x >= z.sum() + y*w + y, y >= -5, y <= 5)

The support program `exPz` of the default set is `z_i - t_i ≤ 0`, `-z_i - t_i ≤ 0`, `t_0 + t_1 ≤ 1`
(5 rows, 4 free columns, `known = support.num_rand = 2`); its stored dual has 4 rows (one per column)
and 5 multiplier columns.  The last constraint is the row `z_0 + z_1 + y·w + (y - x) ≤ 0` over the
decision columns `x, y` with `nz = 3` random components (`w` = component 2): `num_rand = min 3 4 =
3 > known`, so the coefficient `y` of `w` is paired with row 2 of the dual (the row of `t_0`) by
block (2) — and forced to vanish by the stray block `y = 0` of the repaired code. -/

/-- support program of `‖z‖₁ ≤ 1` as `do_math(primal=True, obj=False)` formulates it -/
def exPz : ConeProg ℚ :=
  let a : ℕ → ℕ → ℚ := fun i j =>
    if i = 0 then (if j = 0 then 1 else if j = 2 then -1 else 0)
    else if i = 1 then (if j = 1 then 1 else if j = 3 then -1 else 0)
    else if i = 2 then (if j = 0 then -1 else if j = 2 then -1 else 0)
    else if i = 3 then (if j = 1 then -1 else if j = 3 then -1 else 0)
    else if i = 4 then (if j = 2 then 1 else if j = 3 then 1 else 0)
    else 0
  { lp := { nr := 5, nc := 4, a := a, b := fun i => if i = 4 then 1 else 0, eq := fun _ => false,
            ub := fun _ => none, lb := fun _ => none, c := fun _ => 1 }
    st := fun i j => decide (a i j ≠ 0), qmat := [], xmat := [] }

/-- the uncertain row `z_0 + z_1 + y·w + (y - x) ≤ 0` over the decision columns `x`, `y` and the random
components `z_0`, `z_1` (known to the set) and `w` (declared later; column number 2) -/
def exR : RoRows ℚ :=
  { nd := 2, m := 1, nz := 3
    Rl := fun _ j d => if j = 2 ∧ d = 1 then 1 else 0
    Rc := fun _ j => if j < 2 then 1 else 0
    al := fun _ d => if d = 0 then -1 else if d = 1 then 1 else 0
    ac := fun _ => 0 }

/-- the stored dual of the set in numbers (what `do_math(primal=False, obj=False)` returns) -/
def exSa : ℕ → ℕ → ℚ := fun j i =>
  if j = 0 then (if i = 0 then 1 else if i = 2 then -1 else 0)
  else if j = 1 then (if i = 1 then 1 else if i = 3 then -1 else 0)
  else if j = 2 then (if i = 0 then -1 else if i = 2 then -1 else if i = 4 then 1 else 0)
  else if j = 3 then (if i = 1 then -1 else if i = 3 then -1 else if i = 4 then 1 else 0)
  else 0

lemma exS_nc : exPz.coneDual.lp.nc = 5 := by decide
lemma exS_nr : exPz.coneDual.lp.nr = 4 := by decide
lemma exS_a : ∀ j < 4, ∀ i < 5, exPz.coneDual.lp.a j i = exSa j i := by decide
lemma exS_b : ∀ j < 4, exPz.coneDual.lp.b j = 1 := by decide
lemma exS_eq : ∀ j < 4, exPz.coneDual.lp.eq j = true := by decide
lemma exS_c : ∀ i < 5, exPz.coneDual.lp.c i = if i = 4 then -1 else 0 := by decide
lemma exS_ub : ∀ i < 5, exPz.coneDual.lp.ub i = some 0 := by decide
lemma exS_lb : ∀ i < 5, exPz.coneDual.lp.lb i = none := by decide
lemma exS_q : exPz.coneDual.qmat = [] := by decide
lemma exS_x : exPz.coneDual.xmat = [] := by decide
lemma exNum : exR.numRand exPz.coneDual = 3 := by decide

/-- the old fragment for the instance, in numbers: columns `x, y, Y₀ … Y₄` -/
lemma ex_old_feas (v : ℕ → ℚ)
    (h1 : - v 0 + v 1 - v 6 ≤ 0)
    (h2 : v 2 - v 4 = -1) (h3 : v 3 - v 5 = -1)
    (h4 : v 1 - v 2 - v 4 + v 6 = 0)          -- the late `w` paired with the auxiliary row 2 of the set
    (h5 : - v 3 - v 5 + v 6 = 0)
    (hb : ∀ c, 2 ≤ c → c < 7 → v c ≤ 0) :
    (exR.leToRc exPz.coneDual).prog.Feas (fun _ _ _ => False) v := by
  have hnr : (exR.leToRc exPz.coneDual).prog.lp.nr = 5 := by
    rw [leToRc_nr, exNum, exS_nr, n4_eq_zero_of_le _ _ (by rw [exS_nr]; decide)]; rfl
  have hnc : (exR.leToRc exPz.coneDual).prog.lp.nc = 7 := by
    rw [leToRc_nc, exS_nc]; rfl
  refine ⟨⟨?_, ?_, ?_⟩, ?_, ?_⟩
  · intro i hi
    rw [hnr] at hi
    obtain rfl | rfl | rfl | rfl | rfl : i = 0 ∨ i = 1 ∨ i = 2 ∨ i = 3 ∨ i = 4 := by omega
    · have h := leToRc_row1 exR exPz.coneDual 0 (by decide) v
      rw [h, leToRc_b1 _ _ 0 (by decide), leToRc_eq1 _ _ 0 (by decide), exS_nc]
      simp [exS_c, exR, ycol, exS_nc, Finset.sum_range_succ]
      linarith
    · have h := leToRc_row2 exR exPz.coneDual 0 (by decide) 0 (by decide) v
      have hb' := leToRc_b2 exR exPz.coneDual 0 (by decide) 0 (by decide)
      have he := leToRc_eq2 exR exPz.coneDual 0 (by decide) 0 (by decide)
      rw [exNum] at h hb' he
      have e1 : exR.m + (0 * 3 + 0) = 1 := rfl
      rw [e1] at h hb' he
      rw [h, hb', he, exS_eq 0 (by decide), exS_nc]
      simp [exS_a, exSa, exS_b, exR, ycol, exS_nc, Finset.sum_range_succ]
      linarith
    · have h := leToRc_row2 exR exPz.coneDual 0 (by decide) 1 (by decide) v
      have hb' := leToRc_b2 exR exPz.coneDual 0 (by decide) 1 (by decide)
      have he := leToRc_eq2 exR exPz.coneDual 0 (by decide) 1 (by decide)
      rw [exNum] at h hb' he
      have e1 : exR.m + (0 * 3 + 1) = 2 := rfl
      rw [e1] at h hb' he
      rw [h, hb', he, exS_eq 1 (by decide), exS_nc]
      simp [exS_a, exSa, exS_b, exR, ycol, exS_nc, Finset.sum_range_succ]
      linarith
    · have h := leToRc_row2 exR exPz.coneDual 0 (by decide) 2 (by decide) v
      have hb' := leToRc_b2 exR exPz.coneDual 0 (by decide) 2 (by decide)
      have he := leToRc_eq2 exR exPz.coneDual 0 (by decide) 2 (by decide)
      rw [exNum] at h hb' he
      have e1 : exR.m + (0 * 3 + 2) = 3 := rfl
      rw [e1] at h hb' he
      rw [h, hb', he, exS_eq 2 (by decide), exS_nc]
      simp [exS_a, exSa, exS_b, exR, ycol, exS_nc, Finset.sum_range_succ]
      linarith
    · have hk : 0 < exPz.coneDual.lp.nr - exR.numRand exPz.coneDual := by rw [exNum, exS_nr]; decide
      have h := leToRc_row3 exR exPz.coneDual 0 (by decide) 0 hk v
      have hb' := leToRc_b3 exR exPz.coneDual 0 (by decide) 0 hk
      have he := leToRc_eq3 exR exPz.coneDual 0 (by decide) 0 hk
      rw [exNum, exS_nr] at h hb' he
      have e1 : exR.m + exR.m * 3 + (0 * (4 - 3) + 0) = 4 := rfl
      rw [e1] at h hb' he
      rw [h, hb', he, exS_eq 3 (by decide), exS_nc]
      simp [exS_a, exSa, exR, ycol, exS_nc, Finset.sum_range_succ]
      linarith
  · intro j hj
    rw [hnc] at hj
    have : j < 2 ∨ (2 ≤ j ∧ j < 7) := by omega
    rcases this with h | ⟨h, h'⟩
    · have hu : (exR.leToRc exPz.coneDual).prog.lp.ub j = none := by
        simp [leToRc, exR]; intro hh; omega
      rw [hu]; trivial
    · have := hb j h h'
      obtain rfl | rfl | rfl | rfl | rfl : j = 2 ∨ j = 3 ∨ j = 4 ∨ j = 5 ∨ j = 6 := by omega
      all_goals simp [leToRc, LinProg.leUb, exR, exS_nc, exS_ub, this]
  · intro j hj
    rw [hnc] at hj
    have hl : (exR.leToRc exPz.coneDual).prog.lp.lb j = none := by
      have : j < 2 ∨ (2 ≤ j ∧ j < 7) := by omega
      rcases this with h | ⟨h, h'⟩
      · simp [leToRc, exR]; intro hh; omega
      · obtain rfl | rfl | rfl | rfl | rfl : j = 2 ∨ j = 3 ∨ j = 4 ∨ j = 5 ∨ j = 6 := by omega
        all_goals simp [leToRc, exR, exS_nc, exS_lb]
    rw [hl]; trivial
  · intro q hq
    simp [leToRc, exS_q] at hq
  · intro e he
    simp [leToRc, exS_x] at he

lemma exPz_wf : exPz.WF where
  qlt := by intro q hq; simp [exPz] at hq
  xlen := by intro e he; simp [exPz] at he
  xlt := by intro e he; simp [exPz] at he
  xnotneg := by intro e he; simp [exPz] at he
  stcov := by intro i j h; simpa [exPz] using h

/-- decisions `x = 1`, `y = 0`, multipliers `Y = (-1, -1, 0, 0, -1)` -/
def exV : ℕ → ℚ := fun c => if c = 0 then 1 else if c = 2 ∨ c = 3 ∨ c = 6 then -1 else 0

/-- decisions `x = 11`, `y = 5`, multipliers `Y = (-1, -7/2, 0, -5/2, -6)` -/
def exVbad : ℕ → ℚ := fun c =>
  if c = 0 then 11 else if c = 1 then 5 else if c = 2 then -1 else if c = 3 then -7/2
  else if c = 4 then 0 else if c = 5 then -5/2 else if c = 6 then -6 else 0

/-- the stray block is present: one row (`y = 0`), after the five rows of the old fragment -/
lemma exN5 : exR.n5 exPz.coneDual 2 = 1 ∧ (exR.leToRcK exPz.coneDual 2).prog.lp.nr = 6 ∧
    (exR.leToRc exPz.coneDual).prog.lp.nr = 5 := by decide

lemma ex_feas : (exR.leToRcK exPz.coneDual 2).prog.Feas (fun _ _ _ => False) exV := by
  apply leToRcK_feas_of
  · apply ex_old_feas <;> simp [exV]
    intro c h1 h2
    obtain rfl | rfl | rfl | rfl | rfl : c = 2 ∨ c = 3 ∨ c = 4 ∨ c = 5 ∨ c = 6 := by omega
    all_goals norm_num
  · intro n hn j h1 h2
    rw [exNum] at h2
    have hn0 : n = 0 := by have : exR.m = 1 := rfl; omega
    obtain rfl : j = 2 := by omega
    subst hn0
    simp [coef, exR, exV, Finset.sum_range_succ]

lemma ex_feas_bad : (exR.leToRc exPz.coneDual).prog.Feas (fun _ _ _ => False) exVbad := by
  apply ex_old_feas <;> simp [exVbad] <;> norm_num
  intro c h1 h2
  obtain rfl | rfl | rfl | rfl | rfl : c = 2 ∨ c = 3 ∨ c = 4 ∨ c = 5 ∨ c = 6 := by omega
  all_goals norm_num

lemma exZero_feas : exPz.Feas (fun _ _ _ => False) (fun _ => 0) := by
  refine ⟨⟨?_, ?_, ?_⟩, ?_, ?_⟩
  · intro i hi
    simp [exPz, LinProg.row]
    split_ifs <;> norm_num
  · intro j _; simp [exPz, LinProg.leUb]
  · intro j _; simp [exPz, LinProg.geLb]
  · intro q hq; simp [exPz] at hq
  · intro e he; simp [exPz] at he

/-- all hypotheses of `rc_sound_stray` (with `known = 2`) hold for the instance; the late variable
took the column number `2` of an auxiliary column of the set (`known ≤ 2 < Pz.lp.nc`), its
coefficient is decision dependent — the hypothesis `hlift` of `rc_sound_late` FAILS — and the stray
block is present -/
example :
    exPz.WF ∧ (∀ j, exPz.lp.c j = 1) ∧ 2 ≤ exPz.lp.nc ∧ exR.nz = 3 ∧ exPz.lp.nc = 4 ∧
    (exPz.rowsRemoved = true → ∀ q ∈ exPz.qmat, ∀ j ∈ q, 2 ≤ j) ∧
    (exPz.rowsRemoved = true → ∀ e ∈ exPz.xmat, ∀ j ∈ e, j ∉ exPz.eye) ∧
    ¬ (∀ n < exR.m, ∀ j, 2 ≤ j → j < exPz.lp.nc → j < exR.nz →
        exR.Rc n j = 0 ∧ ∀ d < exR.nd, exR.Rl n j d = 0) ∧
    exR.n5 exPz.coneDual 2 = 1 ∧
    (exR.leToRcK exPz.coneDual 2).prog.Feas (fun _ _ _ => False) exV := by
  refine ⟨exPz_wf, fun _ => rfl, by decide, rfl, rfl, ?_, ?_, ?_, exN5.1, ex_feas⟩
  · intro _ q hq; simp [exPz] at hq
  · intro _ e he; simp [exPz] at he
  · intro h
    have := (h 0 (by decide) 2 (le_refl _) (by decide) (by decide)).2 1 (by decide)
    simp [exR] at this

/-- and `rc_sound_stray` gives the robust guarantee `ζ_0 + ζ_1 + 0·t + (-1 + 0) ≤ 0` for every
`(ζ_0, ζ_1)` in the 1-norm ball and every value `t` of the late random variable -/
example (ζ₀ : ℕ → ℚ) (hζ₀ : exPz.Feas (fun _ _ _ => False) ζ₀) (t : ℚ) :
    exR.eval 0 exV (fun j => if j = 2 then t else ζ₀ j) ≤ 0 :=
  rc_sound_stray exPz _ (fun _ _ _ _ _ _ h _ => h.elim) exPz_wf (fun _ => rfl) exR 2 (by decide)
    (by intro _ q hq; simp [exPz] at hq) (by intro _ e he; simp [exPz] at he) exV ex_feas 0
    (by decide) ζ₀ hζ₀ _ (by intro j hj; rw [if_neg (by omega)])

/-- **The defect**, as a statement about the old model `leToRc` (= the code before the repair):
WITHOUT the stray block the fragment is feasible at `x = 11`, `y = 5` — the coefficient `y` of the
late variable `w` was paired with the auxiliary row `2` of the set's dual instead of being forced
to vanish — although the row `z_0 + z_1 + y·w + y - x ≤ 0` is violated at the point `z = (0, 0)` of
the set and `w = 2` (`w` is unrestricted): the value is `4`. -/
example :
    (exR.leToRc exPz.coneDual).prog.Feas (fun _ _ _ => False) exVbad ∧
    ∃ ζ₀, exPz.Feas (fun _ _ _ => False) ζ₀ ∧ ∃ ζ : ℕ → ℚ, (∀ j < 2, ζ j = ζ₀ j) ∧
      0 < exR.eval 0 exVbad ζ := by
  refine ⟨ex_feas_bad, fun _ => 0, exZero_feas, fun j => if j = 2 then 2 else 0, ?_, ?_⟩
  · intro j hj
    show (if j = 2 then (2 : ℚ) else 0) = 0
    rw [if_neg (by omega)]
  · simp [RoRows.eval, exR, exVbad, Finset.sum_range_succ]
    norm_num

/-- the repaired fragment rejects that `v` (the stray block demands `y = 0`) -/
example : ¬ (exR.leToRcK exPz.coneDual 2).prog.Feas (fun _ _ _ => False) exVbad := by
  intro hv
  have h := leToRcK_stray_zero exR exPz.coneDual 2 _ _ hv 0 (by decide) 2 (le_refl _)
    (by rw [exNum]; decide)
  simp [coef, exR, exVbad, Finset.sum_range_succ] at h

end RsomeV.C01Stray
