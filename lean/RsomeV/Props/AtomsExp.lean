import RsomeV.L.AtomsExpList

/-! # Exponential-cone atoms of `gcp.Model.do_math` : the encoding is equivalent to the user's inequality

Model: `RsomeV/M/AtomsExp.lean` (`encodeAtom n a` = the `ExpEnc` state `do_math` reaches for a model
with `n` columns — epigraph column `0` and the user columns — holding the single constraint `a`;
`.prog` is the emitted `GCProg`).  Cone: `realExpCone e1 e2 e3` (`e3*exp(e1/e3) ≤ e2`, closed).

Every theorem is over `ℝ` with `Real.exp` / `Real.log`.  `v : ℕ → ℝ` is an assignment of columns; the
user's inequality reads only the columns `< n` (`R.inVal n v i`, `R.outVal n v j`, `R.scVal n v l`,
`R.pVal n v t` = value of the flattened entry of `affine_in` / `affine_out` / `affine_scale` / `p`).
`R.WF n` says that those expressions have no coefficient beyond column `n` (true of every request the
driver builds: `Aff.suppLt_ofRow`).  `R.pairs` / `R.triples` are the index tuples `rso_broadcast` forms.

* `sound`   : `prog.Feas realExpCone v → user inequality at v`
* `complete`: `user inequality at v → ∃ w, (∀ j < n, w j = v j) ∧ prog.Feas realExpCone w`

The proofs are in `RsomeV/L/AtomsExp.lean` (common last step of `do_math`, real-analysis facts about
the closed cone) and `RsomeV/L/AtomsExpList.lean` (per-atom fragments at an arbitrary column offset,
lists of constraints); the per-atom theorems below are the one-constraint instances of
`encodeAtoms_sound` / `encodeAtoms_complete` at the end of this file.

Multiplier `k = R.mult > 0` (rsome guarantees it: `Convex.__mul__` stores `abs(other)`), no
hypothesis on the sign of anything else. -/

namespace RsomeV.AExp
open Real Finset

/-- **X (exp), soundness.**  `k*exp(affine_in) + affine_out <= 0` with `k > 0`: every feasible point
`v` of the program `do_math` emits satisfies `k * exp(in_i) + out_j ≤ 0` for every pair `(i, j)` that
`rso_broadcast(affine_in, affine_out)` forms (values read on the model's `n` columns). -/
theorem exp_sound (n : ℕ) (R : CvxReq ℝ) (hwf : R.WF n) (hk : 0 < R.mult) (v : ℕ → ℝ)
    (hf : (encodeAtom n (.exp R)).prog.Feas realExpCone v) :
    ∀ p ∈ R.pairs,
      R.mult * exp (R.inVal n v (p.getD 0 0)) + R.outVal n v (p.getD 1 0) ≤ 0 :=
  atom_sound n (.exp R) ⟨hwf, hk⟩ v hf

/-- **X (exp), completeness.**  If the user's inequalities hold at `v`, the auxiliary cone columns can
be filled in (`w` agrees with `v` on the model's `n` columns) so that the emitted program is feasible. -/
theorem exp_complete (n : ℕ) (R : CvxReq ℝ) (hwf : R.WF n) (hk : 0 < R.mult) (v : ℕ → ℝ)
    (h : ∀ p ∈ R.pairs,
      R.mult * exp (R.inVal n v (p.getD 0 0)) + R.outVal n v (p.getD 1 0) ≤ 0) :
    ∃ w, (∀ j < n, w j = v j) ∧ (encodeAtom n (.exp R)).prog.Feas realExpCone w :=
  atom_complete n (.exp R) ⟨hwf, hk⟩ v h

/-- **L (log), soundness.**  `-k*log(affine_in) + affine_out <= 0`: a feasible point has `in_i > 0`
*strictly* and `-k*log(in_i) + out_j ≤ 0`.  The cone of this atom is `ExpConstr(out/k, in, 1)`: its
third entry is the constant `1`, so the boundary face `z = 0` of the closed cone is never reached and
the encoding admits **no** point with `in_i = 0` (nor `in_i < 0`): `exp(out_j/k) ≤ in_i` forces
`in_i > 0`. -/
theorem log_sound (n : ℕ) (R : CvxReq ℝ) (hwf : R.WF n) (hk : 0 < R.mult) (v : ℕ → ℝ)
    (hf : (encodeAtom n (.log R)).prog.Feas realExpCone v) :
    ∀ p ∈ R.pairs, 0 < R.inVal n v (p.getD 0 0) ∧
      -R.mult * log (R.inVal n v (p.getD 0 0)) + R.outVal n v (p.getD 1 0) ≤ 0 :=
  atom_sound n (.log R) ⟨hwf, hk⟩ v hf

/-- **L (log), completeness** on the exact domain `in_i > 0`. -/
theorem log_complete (n : ℕ) (R : CvxReq ℝ) (hwf : R.WF n) (hk : 0 < R.mult) (v : ℕ → ℝ)
    (h : ∀ p ∈ R.pairs, 0 < R.inVal n v (p.getD 0 0) ∧
      -R.mult * log (R.inVal n v (p.getD 0 0)) + R.outVal n v (p.getD 1 0) ≤ 0) :
    ∃ w, (∀ j < n, w j = v j) ∧ (encodeAtom n (.log R)).prog.Feas realExpCone w :=
  atom_complete n (.log R) ⟨hwf, hk⟩ v h

/-- **perspective X (pexp), soundness.**  `k*pexp(in, s) + out <= 0`, cone `ExpConstr(in, -out/k, s)`.
A feasible point has, for every broadcast triple, either `s > 0` and `k * s*exp(in/s) + out ≤ 0`, or it
lies on the boundary face of the closed cone: `s = 0`, `in ≤ 0`, `out ≤ 0` (the closure of the
perspective: `s*exp(in/s) → 0` as `s ↓ 0` when `in ≤ 0`).  In particular `s ≥ 0` always and the user's
inequality holds whenever `s > 0`. -/
theorem pexp_sound (n : ℕ) (R : PCvxReq ℝ) (hwf : R.WF n) (hk : 0 < R.mult) (v : ℕ → ℝ)
    (hf : (encodeAtom n (.pexp R)).prog.Feas realExpCone v) :
    ∀ p ∈ R.triples,
      (0 < R.scVal n v (p.getD 1 0) ∧
        R.mult * (R.scVal n v (p.getD 1 0) *
          exp (R.inVal n v (p.getD 0 0) / R.scVal n v (p.getD 1 0))) + R.outVal n v (p.getD 2 0) ≤ 0) ∨
      (R.scVal n v (p.getD 1 0) = 0 ∧ R.inVal n v (p.getD 0 0) ≤ 0 ∧ R.outVal n v (p.getD 2 0) ≤ 0) :=
  atom_sound n (.pexp R) ⟨hwf, hk⟩ v hf

/-- **perspective X (pexp), completeness**: exactly the points described by `pexp_sound` are admitted
(the strict domain `s > 0` is the left disjunct). -/
theorem pexp_complete (n : ℕ) (R : PCvxReq ℝ) (hwf : R.WF n) (hk : 0 < R.mult) (v : ℕ → ℝ)
    (h : ∀ p ∈ R.triples,
      (0 < R.scVal n v (p.getD 1 0) ∧
        R.mult * (R.scVal n v (p.getD 1 0) *
          exp (R.inVal n v (p.getD 0 0) / R.scVal n v (p.getD 1 0))) + R.outVal n v (p.getD 2 0) ≤ 0) ∨
      (R.scVal n v (p.getD 1 0) = 0 ∧ R.inVal n v (p.getD 0 0) ≤ 0 ∧ R.outVal n v (p.getD 2 0) ≤ 0)) :
    ∃ w, (∀ j < n, w j = v j) ∧ (encodeAtom n (.pexp R)).prog.Feas realExpCone w :=
  atom_complete n (.pexp R) ⟨hwf, hk⟩ v h

/-- **perspective L (plog), soundness.**  `-k*plog(in, s) + out <= 0`, cone `ExpConstr(out/k, in, s)`.
A feasible point has either `s > 0`, `in > 0` and `-k * s*log(in/s) + out ≤ 0`, or it lies on the
boundary face `s = 0`, `out ≤ 0`, `in ≥ 0`.  Points with `s > 0` and `in = 0` are not admitted. -/
theorem plog_sound (n : ℕ) (R : PCvxReq ℝ) (hwf : R.WF n) (hk : 0 < R.mult) (v : ℕ → ℝ)
    (hf : (encodeAtom n (.plog R)).prog.Feas realExpCone v) :
    ∀ p ∈ R.triples,
      (0 < R.scVal n v (p.getD 1 0) ∧ 0 < R.inVal n v (p.getD 0 0) ∧
        -R.mult * (R.scVal n v (p.getD 1 0) *
          log (R.inVal n v (p.getD 0 0) / R.scVal n v (p.getD 1 0))) + R.outVal n v (p.getD 2 0) ≤ 0) ∨
      (R.scVal n v (p.getD 1 0) = 0 ∧ R.outVal n v (p.getD 2 0) ≤ 0 ∧ 0 ≤ R.inVal n v (p.getD 0 0)) :=
  atom_sound n (.plog R) ⟨hwf, hk⟩ v hf

/-- **perspective L (plog), completeness**: exactly the points described by `plog_sound` are admitted. -/
theorem plog_complete (n : ℕ) (R : PCvxReq ℝ) (hwf : R.WF n) (hk : 0 < R.mult) (v : ℕ → ℝ)
    (h : ∀ p ∈ R.triples,
      (0 < R.scVal n v (p.getD 1 0) ∧ 0 < R.inVal n v (p.getD 0 0) ∧
        -R.mult * (R.scVal n v (p.getD 1 0) *
          log (R.inVal n v (p.getD 0 0) / R.scVal n v (p.getD 1 0))) + R.outVal n v (p.getD 2 0) ≤ 0) ∨
      (R.scVal n v (p.getD 1 0) = 0 ∧ R.outVal n v (p.getD 2 0) ≤ 0 ∧ 0 ≤ R.inVal n v (p.getD 0 0))) :
    ∃ w, (∀ j < n, w j = v j) ∧ (encodeAtom n (.plog R)).prog.Feas realExpCone w :=
  atom_complete n (.plog R) ⟨hwf, hk⟩ v h

/-- **P (entropy), soundness.**  `k * Σ_t in_t*log(in_t) + out <= 0` (i.e. `-k*entropy(in) + out <= 0`).
A feasible point has `in_t ≥ 0` for all entries and satisfies the inequality for every entry of
`affine_out` (it is a scalar in normal use).  The boundary `in_t = 0` IS admitted by the closed cone
(`ExpConstr(aux_t, 1, in_t)` contains `(aux ≤ 0, 1, 0)`) and it is consistent with the convention
`0*log 0 = 0`, which is also Mathlib's (`Real.log 0 = 0`): the statement needs no case split. -/
theorem entropy_sound (n : ℕ) (R : CvxReq ℝ) (hwf : R.WF n) (hk : 0 < R.mult) (v : ℕ → ℝ)
    (hf : (encodeAtom n (.entropy R)).prog.Feas realExpCone v) :
    (∀ t < R.ain.length, 0 ≤ R.inVal n v t) ∧
    ∀ i < R.aout.length,
      R.mult * (∑ t ∈ range R.ain.length, R.inVal n v t * log (R.inVal n v t)) + R.outVal n v i ≤ 0 :=
  atom_sound n (.entropy R) ⟨hwf, hk⟩ v hf

/-- **P (entropy), completeness** on the closed domain `in_t ≥ 0` (auxiliary column `t` takes the
value `-in_t*log(in_t)`). -/
theorem entropy_complete (n : ℕ) (R : CvxReq ℝ) (hwf : R.WF n) (hk : 0 < R.mult) (v : ℕ → ℝ)
    (h : (∀ t < R.ain.length, 0 ≤ R.inVal n v t) ∧
      ∀ i < R.aout.length,
        R.mult * (∑ t ∈ range R.ain.length, R.inVal n v t * log (R.inVal n v t)) + R.outVal n v i ≤ 0) :
    ∃ w, (∀ j < n, w j = v j) ∧ (encodeAtom n (.entropy R)).prog.Feas realExpCone w :=
  atom_complete n (.entropy R) ⟨hwf, hk⟩ v h

/-- **F (softplus), soundness.**  `k*log(1+exp(in_i)) + out_j <= 0` for every broadcast pair:
the two cones `exp(in+out/k) ≤ u`, `exp(out/k) ≤ w` and the row `u + w ≤ 1`. -/
theorem softplus_sound (n : ℕ) (R : CvxReq ℝ) (hwf : R.WF n) (hk : 0 < R.mult) (v : ℕ → ℝ)
    (hf : (encodeAtom n (.softplus R)).prog.Feas realExpCone v) :
    ∀ p ∈ R.pairs,
      R.mult * log (1 + exp (R.inVal n v (p.getD 0 0))) + R.outVal n v (p.getD 1 0) ≤ 0 :=
  atom_sound n (.softplus R) ⟨hwf, hk⟩ v hf

/-- **F (softplus), completeness** (`u = exp(in+out/k)`, `w = exp(out/k)`). -/
theorem softplus_complete (n : ℕ) (R : CvxReq ℝ) (hwf : R.WF n) (hk : 0 < R.mult) (v : ℕ → ℝ)
    (h : ∀ p ∈ R.pairs,
      R.mult * log (1 + exp (R.inVal n v (p.getD 0 0))) + R.outVal n v (p.getD 1 0) ≤ 0) :
    ∃ w, (∀ j < n, w j = v j) ∧ (encodeAtom n (.softplus R)).prog.Feas realExpCone w :=
  atom_complete n (.softplus R) ⟨hwf, hk⟩ v h

/-- **K (kldiv), soundness.**  `KLConstr(p, phat, r)` with numeric `phat_t > 0`: a feasible point has
`p_t ≥ 0` and `Σ_t p_t*log(p_t/phat_t) ≤ r` (the boundary `p_t = 0` is admitted, with `0*log 0 = 0`). -/
theorem kl_sound (n : ℕ) (R : KLReq ℝ) (hwf : R.WF n) (hq : ∀ t < R.p.length, 0 < R.phat.getD t 0)
    (v : ℕ → ℝ) (hf : (encodeAtom n (.kl R)).prog.Feas realExpCone v) :
    (∀ t < R.p.length, 0 ≤ R.pVal n v t) ∧
    ∑ t ∈ range R.p.length, R.pVal n v t * log (R.pVal n v t / R.phat.getD t 0) ≤ R.r :=
  atom_sound n (.kl R) ⟨hwf, hq⟩ v hf

/-- **K (kldiv), completeness** on the closed domain `p_t ≥ 0` (auxiliary column `t` takes the value
`p_t*log(p_t/phat_t)`). -/
theorem kl_complete (n : ℕ) (R : KLReq ℝ) (hwf : R.WF n) (hq : ∀ t < R.p.length, 0 < R.phat.getD t 0)
    (v : ℕ → ℝ)
    (h : (∀ t < R.p.length, 0 ≤ R.pVal n v t) ∧
      ∑ t ∈ range R.p.length, R.pVal n v t * log (R.pVal n v t / R.phat.getD t 0) ≤ R.r) :
    ∃ w, (∀ j < n, w j = v j) ∧ (encodeAtom n (.kl R)).prog.Feas realExpCone w :=
  atom_complete n (.kl R) ⟨hwf, hq⟩ v h

/-- perspective X on the strict domain: where `s > 0` the user's inequality holds -/
theorem pexp_sound_pos (n : ℕ) (R : PCvxReq ℝ) (hwf : R.WF n) (hk : 0 < R.mult) (v : ℕ → ℝ)
    (hf : (encodeAtom n (.pexp R)).prog.Feas realExpCone v) (p : List ℕ) (hp : p ∈ R.triples)
    (hs : 0 < R.scVal n v (p.getD 1 0)) :
    R.mult * (R.scVal n v (p.getD 1 0) *
      exp (R.inVal n v (p.getD 0 0) / R.scVal n v (p.getD 1 0))) + R.outVal n v (p.getD 2 0) ≤ 0 := by
  rcases pexp_sound n R hwf hk v hf p hp with h | h
  · exact h.2
  · exact absurd h.1 (ne_of_gt hs)

/-- perspective L on the strict domain: where `s > 0` the input is positive and the user's inequality
holds -/
theorem plog_sound_pos (n : ℕ) (R : PCvxReq ℝ) (hwf : R.WF n) (hk : 0 < R.mult) (v : ℕ → ℝ)
    (hf : (encodeAtom n (.plog R)).prog.Feas realExpCone v) (p : List ℕ) (hp : p ∈ R.triples)
    (hs : 0 < R.scVal n v (p.getD 1 0)) :
    0 < R.inVal n v (p.getD 0 0) ∧
    -R.mult * (R.scVal n v (p.getD 1 0) *
      log (R.inVal n v (p.getD 0 0) / R.scVal n v (p.getD 1 0))) + R.outVal n v (p.getD 2 0) ≤ 0 := by
  rcases plog_sound n R hwf hk v hf p hp with h | h
  · exact h.2
  · exact absurd h.1 (ne_of_gt hs)

/-! ## several exp-type constraints in one model

`encodeAtoms n atoms` is the state `do_math` reaches when `other_constr = atoms` (in `st` order):
auxiliary columns of `P`/`F`/`K` atoms are allocated in that order, cones of `X`/`L`/`F`/perspective
atoms go to `exp_constr`, those of `P`/`K` to `more_exp`, and the final `xmat` lists
`exp_constr + more_exp`.  `Atom.Ok n a` collects the side conditions of the per-atom theorems
(`R.WF n`, `0 < R.mult`, resp. `0 < phat_t`), `Atom.Sem n v a` is the per-atom characterisation
(the right-hand sides of the theorems above; `PexpPt` / `PlogPt` are the two-case descriptions of
`pexp_sound` / `plog_sound`). -/

/-- **soundness for a list of constraints**: a feasible point of the emitted program satisfies the
user's inequality of every constraint. -/
theorem encodeAtoms_sound (n : ℕ) (atoms : List (Atom ℝ)) (hok : ∀ a ∈ atoms, a.Ok n) (v : ℕ → ℝ)
    (hf : (encodeAtoms n atoms).prog.Feas realExpCone v) : ∀ a ∈ atoms, a.Sem n v :=
  encodeAtoms_sound' n atoms hok v hf

/-- **completeness for a list of constraints**: if all user inequalities hold at `v`, the auxiliary
columns of all constraints can be filled in simultaneously. -/
theorem encodeAtoms_complete (n : ℕ) (atoms : List (Atom ℝ)) (hok : ∀ a ∈ atoms, a.Ok n) (v : ℕ → ℝ)
    (h : ∀ a ∈ atoms, a.Sem n v) :
    ∃ w, (∀ j < n, w j = v j) ∧ (encodeAtoms n atoms).prog.Feas realExpCone w :=
  encodeAtoms_complete' n atoms hok v h

/-! ## concrete instances

A model with columns `0` (epigraph), `1` (`x`), `2` (`s`).  `exR k c` is the request
`k*f(x) + c <= 0`, `exPR k c` the perspective request `k*pf(x, s) + c <= 0`. -/

namespace AtomsExpExamples

/-- the expression `x` (column 1 of a 3-column model) -/
noncomputable def xE : Aff ℝ := Aff.ofRow 3 (fun j => if j = 1 then 1 else 0) 0
/-- the expression `s` (column 2) -/
noncomputable def sE : Aff ℝ := Aff.ofRow 3 (fun j => if j = 2 then 1 else 0) 0
/-- a constant -/
noncomputable def cE (c : ℝ) : Aff ℝ := Aff.ofRow 3 (fun _ => 0) c

noncomputable def exR (k c : ℝ) : CvxReq ℝ := ⟨k, [xE], [cE c], [1], [1]⟩
noncomputable def exPR (k c : ℝ) : PCvxReq ℝ := { exR k c with ascale := [sE], scShape := [1] }
noncomputable def exKL : KLReq ℝ := ⟨[xE], [1 / 2], 1⟩

lemma exR_wf (k c : ℝ) : (exR k c).WF 3 := by
  constructor <;> intro e he <;> simp [exR] at he <;> subst he <;> exact Aff.suppLt_ofRow _ _ _

lemma exPR_wf (k c : ℝ) : (exPR k c).WF 3 := by
  refine ⟨exR_wf k c, ?_⟩
  intro e he; simp [exPR] at he; subst he; exact Aff.suppLt_ofRow _ _ _

lemma exKL_wf : exKL.WF 3 := by
  intro e he; simp [exKL] at he; subst he; exact Aff.suppLt_ofRow _ _ _

lemma exR_pairs (k c : ℝ) : (exR k c).pairs = [[0, 0]] := by
  show bcastIdx [[1], [1]] = [[0, 0]]
  decide
lemma exPR_triples (k c : ℝ) : (exPR k c).triples = [[0, 0, 0]] := by
  show bcastIdx [[1], [1], [1]] = [[0, 0, 0]]
  decide

lemma exR_in (k c : ℝ) (v : ℕ → ℝ) : (exR k c).inVal 3 v 0 = v 1 := by
  simp [CvxReq.inVal, CvxReq.inAt, exR, xE, Aff.eval, Aff.ofRow, Finset.sum_range_succ]
lemma exR_out (k c : ℝ) (v : ℕ → ℝ) : (exR k c).outVal 3 v 0 = c := by
  simp [CvxReq.outVal, exR, cE, Aff.eval, Aff.ofRow]
lemma exPR_in (k c : ℝ) (v : ℕ → ℝ) : (exPR k c).inVal 3 v 0 = v 1 := exR_in k c v
lemma exPR_out (k c : ℝ) (v : ℕ → ℝ) : (exPR k c).outVal 3 v 0 = c := exR_out k c v
lemma exPR_sc (k c : ℝ) (v : ℕ → ℝ) : (exPR k c).scVal 3 v 0 = v 2 := by
  simp [PCvxReq.scVal, PCvxReq.scAt, exPR, sE, Aff.eval, Aff.ofRow, Finset.sum_range_succ]
lemma exKL_p (v : ℕ → ℝ) : exKL.pVal 3 v 0 = v 1 := by
  simp [KLReq.pVal, exKL, xE, Aff.eval, Aff.ofRow, Finset.sum_range_succ]

lemma exR_mult (k c : ℝ) : (exR k c).mult = k := rfl
lemma exPR_mult (k c : ℝ) : (exPR k c).mult = k := rfl
lemma exKL_hat : ∀ t < exKL.p.length, 0 < exKL.phat.getD t 0 := by
  intro t ht
  have : t = 0 := by simpa [exKL] using ht
  subst this; simp [exKL]

/-- `exp(x) - 1 <= 0` : every feasible point of the encoding has `x ≤ 0` -/
example (w : ℕ → ℝ) (hf : (encodeAtom 3 (.exp (exR 1 (-1)))).prog.Feas realExpCone w) : w 1 ≤ 0 := by
  have := exp_sound 3 (exR 1 (-1)) (exR_wf _ _) (by simp [exR_mult]) w hf [0, 0] (by simp [exR_pairs])
  simp only [List.getD_cons_zero, List.getD_cons_succ, exR_in, exR_out, exR_mult] at this
  have h1 : exp (w 1) ≤ 1 := by linarith
  exact exp_le_one_iff.1 h1

/-- `exp(x) - 1 <= 0` : the point `x = 0` extends to a feasible point of the encoding -/
example : ∃ w : ℕ → ℝ, w 1 = 0 ∧ (encodeAtom 3 (.exp (exR 1 (-1)))).prog.Feas realExpCone w := by
  obtain ⟨w, hw, hf⟩ := exp_complete 3 (exR 1 (-1)) (exR_wf _ _) (by simp [exR_mult]) (fun _ => 0) (by
    intro p hp
    simp only [exR_pairs, List.mem_singleton] at hp
    subst hp
    simp only [List.getD_cons_zero, List.getD_cons_succ, exR_in, exR_out, exR_mult]
    simp)
  exact ⟨w, hw 1 (by norm_num), hf⟩

/-- `-log(x) <= 0` : every feasible point has `x ≥ 1` (in particular `x = 0` is excluded) -/
example (w : ℕ → ℝ) (hf : (encodeAtom 3 (.log (exR 1 0))).prog.Feas realExpCone w) : 1 ≤ w 1 := by
  have := log_sound 3 (exR 1 0) (exR_wf _ _) (by simp [exR_mult]) w hf [0, 0] (by simp [exR_pairs])
  simp only [List.getD_cons_zero, List.getD_cons_succ, exR_in, exR_out, exR_mult] at this
  obtain ⟨hpos, h⟩ := this
  have h1 : 0 ≤ log (w 1) := by linarith
  exact (log_nonneg_iff hpos).1 h1

/-- `-log(x) <= 0` : `x = 1` is admitted -/
example : ∃ w : ℕ → ℝ, w 1 = 1 ∧ (encodeAtom 3 (.log (exR 1 0))).prog.Feas realExpCone w := by
  obtain ⟨w, hw, hf⟩ := log_complete 3 (exR 1 0) (exR_wf _ _) (by simp [exR_mult]) (fun _ => 1) (by
    intro p hp
    simp only [exR_pairs, List.mem_singleton] at hp
    subst hp
    simp only [List.getD_cons_zero, List.getD_cons_succ, exR_in, exR_out, exR_mult]
    simp)
  exact ⟨w, hw 1 (by norm_num), hf⟩

/-- `x*log(x) <= 0` (`-entropy(x) <= 0`) : every feasible point has `x ≥ 0` -/
example (w : ℕ → ℝ) (hf : (encodeAtom 3 (.entropy (exR 1 0))).prog.Feas realExpCone w) : 0 ≤ w 1 := by
  have := (entropy_sound 3 (exR 1 0) (exR_wf _ _) (by simp [exR_mult]) w hf).1 0 (by simp [exR])
  rwa [exR_in] at this

/-- `x*log(x) <= 0` : the boundary point `x = 0` is admitted (`0*log 0 = 0`) -/
example : ∃ w : ℕ → ℝ, w 1 = 0 ∧ (encodeAtom 3 (.entropy (exR 1 0))).prog.Feas realExpCone w := by
  obtain ⟨w, hw, hf⟩ := entropy_complete 3 (exR 1 0) (exR_wf _ _) (by simp [exR_mult]) (fun _ => 0) (by
    have hl : (exR 1 0).ain.length = 1 := rfl
    have hl' : (exR 1 0).aout.length = 1 := rfl
    rw [hl, hl']
    constructor
    · intro t ht
      have : t = 0 := by omega
      subst this; rw [exR_in]
    · intro i hi
      have : i = 0 := by omega
      subst this
      simp only [Finset.sum_range_one, exR_in, exR_out, exR_mult]
      simp)
  exact ⟨w, hw 1 (by norm_num), hf⟩

/-- `log(1+exp(x)) - 1 <= 0` : the user's inequality holds at every feasible point -/
example (w : ℕ → ℝ) (hf : (encodeAtom 3 (.softplus (exR 1 (-1)))).prog.Feas realExpCone w) :
    log (1 + exp (w 1)) ≤ 1 := by
  have := softplus_sound 3 (exR 1 (-1)) (exR_wf _ _) (by simp [exR_mult]) w hf [0, 0] (by simp [exR_pairs])
  simp only [List.getD_cons_zero, List.getD_cons_succ, exR_in, exR_out, exR_mult] at this
  linarith

/-- `log(1+exp(x)) - 1 <= 0` : `x = 0` is admitted (`log 2 ≤ 1`) -/
example : ∃ w : ℕ → ℝ, w 1 = 0 ∧ (encodeAtom 3 (.softplus (exR 1 (-1)))).prog.Feas realExpCone w := by
  obtain ⟨w, hw, hf⟩ := softplus_complete 3 (exR 1 (-1)) (exR_wf _ _) (by simp [exR_mult]) (fun _ => 0) (by
    intro p hp
    simp only [exR_pairs, List.mem_singleton] at hp
    subst hp
    simp only [List.getD_cons_zero, List.getD_cons_succ, exR_in, exR_out, exR_mult]
    have := log_le_sub_one_of_pos (show (0:ℝ) < 1 + exp 0 by positivity)
    rw [exp_zero] at this ⊢
    linarith)
  exact ⟨w, hw 1 (by norm_num), hf⟩

/-- `s*exp(x/s) - 1 <= 0` : every feasible point has `s ≥ 0` -/
example (w : ℕ → ℝ) (hf : (encodeAtom 3 (.pexp (exPR 1 (-1)))).prog.Feas realExpCone w) : 0 ≤ w 2 := by
  have := pexp_sound 3 (exPR 1 (-1)) (exPR_wf _ _) (by simp [exPR_mult]) w hf [0, 0, 0]
    (by simp [exPR_triples])
  simp only [List.getD_cons_zero, List.getD_cons_succ, exPR_in, exPR_out, exPR_sc] at this
  rcases this with ⟨h, _⟩ | ⟨h, _⟩
  · exact le_of_lt h
  · exact le_of_eq h.symm

/-- `s*exp(x/s) - 1 <= 0` : the boundary point `s = 0`, `x = -1` is admitted by the closed cone -/
example : ∃ w : ℕ → ℝ, w 1 = -1 ∧ w 2 = 0 ∧
    (encodeAtom 3 (.pexp (exPR 1 (-1)))).prog.Feas realExpCone w := by
  obtain ⟨w, hw, hf⟩ := pexp_complete 3 (exPR 1 (-1)) (exPR_wf _ _) (by simp [exPR_mult])
    (fun j => if j = 1 then -1 else 0) (by
    intro p hp
    simp only [exPR_triples, List.mem_singleton] at hp
    subst hp
    right
    simp only [List.getD_cons_zero, List.getD_cons_succ, exPR_in, exPR_out, exPR_sc]
    norm_num)
  exact ⟨w, by rw [hw 1 (by norm_num)]; simp, by rw [hw 2 (by norm_num)]; simp, hf⟩

/-- `-s*log(x/s) <= 0` : every feasible point has `s ≥ 0` and `x ≥ 0` -/
example (w : ℕ → ℝ) (hf : (encodeAtom 3 (.plog (exPR 1 0))).prog.Feas realExpCone w) :
    0 ≤ w 2 ∧ 0 ≤ w 1 := by
  have := plog_sound 3 (exPR 1 0) (exPR_wf _ _) (by simp [exPR_mult]) w hf [0, 0, 0]
    (by simp [exPR_triples])
  simp only [List.getD_cons_zero, List.getD_cons_succ, exPR_in, exPR_out, exPR_sc] at this
  rcases this with ⟨h, h', _⟩ | ⟨h, _, h'⟩
  · exact ⟨le_of_lt h, le_of_lt h'⟩
  · exact ⟨le_of_eq h.symm, h'⟩

/-- `-s*log(x/s) <= 0` : `x = s = 1` is admitted -/
example : ∃ w : ℕ → ℝ, w 1 = 1 ∧ w 2 = 1 ∧
    (encodeAtom 3 (.plog (exPR 1 0))).prog.Feas realExpCone w := by
  obtain ⟨w, hw, hf⟩ := plog_complete 3 (exPR 1 0) (exPR_wf _ _) (by simp [exPR_mult])
    (fun _ => 1) (by
    intro p hp
    simp only [exPR_triples, List.mem_singleton] at hp
    subst hp
    left
    simp only [List.getD_cons_zero, List.getD_cons_succ, exPR_in, exPR_out, exPR_sc, exPR_mult]
    norm_num)
  exact ⟨w, hw 1 (by norm_num), hw 2 (by norm_num), hf⟩

/-- `kldiv(x, 1/2, 1)` : every feasible point has `x ≥ 0` and `x*log(x/(1/2)) ≤ 1` -/
example (w : ℕ → ℝ) (hf : (encodeAtom 3 (.kl exKL)).prog.Feas realExpCone w) :
    0 ≤ w 1 ∧ w 1 * log (w 1 / (1 / 2)) ≤ 1 := by
  have := kl_sound 3 exKL exKL_wf exKL_hat w hf
  have hl : exKL.p.length = 1 := rfl
  rw [hl] at this
  obtain ⟨h1, h2⟩ := this
  have h1' := h1 0 (by norm_num)
  rw [exKL_p] at h1'
  refine ⟨h1', ?_⟩
  simp only [Finset.sum_range_one, exKL_p] at h2
  exact h2

/-- `kldiv(x, 1/2, 1)` : `x = 1/2` is admitted -/
example : ∃ w : ℕ → ℝ, w 1 = 1 / 2 ∧ (encodeAtom 3 (.kl exKL)).prog.Feas realExpCone w := by
  obtain ⟨w, hw, hf⟩ := kl_complete 3 exKL exKL_wf exKL_hat (fun _ => 1 / 2) (by
    have hl : exKL.p.length = 1 := rfl
    rw [hl]
    constructor
    · intro t ht
      have : t = 0 := by omega
      subst this; rw [exKL_p]; norm_num
    · simp only [Finset.sum_range_one, exKL_p]
      have : exKL.phat.getD 0 0 = 1 / 2 := rfl
      rw [this, div_self (by norm_num), log_one]
      have : exKL.r = 1 := rfl
      rw [this]; norm_num)
  exact ⟨w, hw 1 (by norm_num), hf⟩


/-- two constraints in one model, `x*log(x) <= 0` (P: one auxiliary column, cone in `more_exp`) and
`exp(x) - 1 <= 0` (X: cone in `exp_constr`): the `X` cone comes first in `xmat` although the `P`
constraint was stated first; columns 3 = entropy aux, 4..6 = X cone, 7..9 = P cone -/
example : (encodeAtoms 3 [.entropy (exR 1 0), .exp (exR 1 (-1))]).prog.xmat = [[4, 5, 6], [7, 8, 9]] := by
  have h1 : (exR 1 (-1)).pairs = [[0, 0]] := exR_pairs _ _
  have h0 : (exR 1 0).ain.length = 1 := rfl
  simp [encodeAtoms, EncSt.step, EncSt.finish, ExpEnc.prog, h1, h0, List.range_succ]

/-- ... and every feasible point of that program has `x = 0`
(`x ≥ 0` from the entropy constraint, `x ≤ 0` from the exp constraint) -/
example (w : ℕ → ℝ)
    (hf : (encodeAtoms 3 [.entropy (exR 1 0), .exp (exR 1 (-1))]).prog.Feas realExpCone w) : w 1 = 0 := by
  have hok : ∀ a ∈ [Atom.entropy (exR 1 0), Atom.exp (exR 1 (-1))], a.Ok 3 := by
    intro a ha
    simp only [List.mem_cons, List.not_mem_nil, or_false] at ha
    rcases ha with rfl | rfl
    · exact ⟨exR_wf _ _, by simp [exR_mult]⟩
    · exact ⟨exR_wf _ _, by simp [exR_mult]⟩
  have hs := encodeAtoms_sound 3 _ hok w hf
  have h1 := (hs (.entropy (exR 1 0)) (by simp)).1 0 (by simp [exR])
  have h2 := hs (.exp (exR 1 (-1))) (by simp) [0, 0] (by simp [exR_pairs])
  rw [exR_in] at h1
  simp only [List.getD_cons_zero, List.getD_cons_succ, exR_in, exR_out, exR_mult] at h2
  have h3 : exp (w 1) ≤ 1 := by linarith
  have h4 := exp_le_one_iff.1 h3
  linarith

end AtomsExpExamples
end RsomeV.AExp
