import RsomeV.Props.C18
import RsomeV.L.SocApproxUpper
import RsomeV.L.SocApproxJensen
import Mathlib.Analysis.Complex.ExponentialBounds

/-! # C18 (upper direction): completeness of the blocks of `GCProg.to_socp`

`RsomeV/Props/C18.lean` proves what a feasible block of the model `toSocp` of
`GCProg.to_socp(degree = L, cuts = (lo, hi))` *enforces* (`socp_block_sound`, `socp_exp_lower`).
This file proves the converse: which values of the three columns `(x1, x2, x3)` of an exponential
cone (`x3·exp(x1/x3) ≤ x2`) can be *extended* to a feasible block, by constructing the `8 + L`
auxiliary columns (the squaring chain) and the `3·(3+L)` cone columns.

* `socp_block_complete_split`, `socp_block_complete`, `socp_block_iff`, `socp_block_iff_exists`,
  `socp_block_iff_nosplit` (every linear ordered field): a block is satisfiable with given
  `t, x0, x1, α0, α1` iff the conclusions of `socp_block_sound_div` + `socp_block_t_nonneg` hold;
  without split (`x0 = α0 = 0`), `x3 > 0`: iff `lo·x3 ≤ x1 ≤ hi·x3` and
  `x3·P4(x1/(x3·2^L))^(2^L) ≤ x2`.
* `socp_block_below_cut`, `socp_block_below_cut_iff`, `socp_block_upper_cut`: below the lower cut the
  block asks for the flat piece `elo·x3 ≤ x2` (`elo = np.exp(lo)`, the coefficient of `α0` in row 0 -
  the repair of the lower cut); above the upper cut it is infeasible.
* `socp_exp_upper`, `socp_block_exp_lower_orig`, `socp_block_below_cut_lower`, `socp_sandwich`,
  `socp_lower_cut_tight` (over `ℝ`, `elo = exp lo`): for `L ≥ 4`, cuts in `[-4, 4]`, `x3 > 0`:
  `x3·exp(x1/x3)·(1+10⁻³) ≤ x2` and `lo·x3 ≤ x1 ≤ hi·x3` ⟹ block satisfiable;
  block satisfiable ⟹ `x3·exp(x1/x3)·(1−10⁻³) ≤ x2` for EVERY `x1` (no margin; two-point Jensen,
  `RsomeV/L/SocApproxJensen.lean`).
* `BlockRelOld`, `old_lower_cut_gap`, `old_lower_cut_gap'`: the relation before the repair
  (`elo = 0`) accepts `x2 = 0` at `x1 = lo·x3`; the repaired one does not.
* `toSocp_complete_blocks`, `toSocp_complete_P4`, `toSocp_complete`: a point feasible for the source
  program with every exponential-cone membership strengthened extends to a point feasible for
  `toSocp P L lo hi elo` with the same original columns and the same objective value.
* `toSocp_sound_orig`, `toSocp_sound`: a feasible point of `toSocp P L lo hi (exp lo)` satisfies every
  exponential cone of `P` (with `x3 > 0`) deflated by `10⁻³`, with no condition on the exponent.

Trust: the theorems over `ℝ` take the row-0 coefficient to be `Real.exp lo`; the code writes the float
`np.exp(cut_lower)` (the value the tie `test_to_socp.py` passes exactly to the model), which is
trusted to equal `exp(cut_lower)` to within rounding. -/

set_option linter.unusedSectionVars false
set_option linter.unusedSimpArgs false
set_option linter.unusedVariables false

namespace RsomeV.C18Upper
open Finset RsomeV RsomeV.SocApprox RsomeV.C18

variable {K : Type} [Field K] [LinearOrder K] [IsStrictOrderedRing K]

/-! ### 1. completeness of one block -/

/-- the least value of `v_0` is `α1·P4(x1/(α1·2^L))` -/
lemma v0_div (L : ℕ) (x1 α1 : K) (h : α1 ≠ 0) : v0 L x1 α1 / α1 = P4 (x1 / (α1 * 2 ^ L)) := by
  have e1 : x1 / 2 ^ L / α1 = x1 / (α1 * 2 ^ L) := by rw [div_div, mul_comm]
  rw [v0_eq L x1 α1 h, Q4_eq _ _ h, e1]
  field_simp

/-- **C18.5a (block completeness, with the split).** Let `1 ≤ L`.  Given values `t, x0, x1, α0, α1`
that satisfy what `socp_block_sound_div` and `socp_block_t_nonneg` say a feasible block enforces —
`0 ≤ t ≤ x_{i1}`, `x0 + x1 = x_{i0}`, `α0 + α1 = x_{i2}`, `α0, α1 ≥ 0`, `x0 ≤ lo·α0`,
`lo·α1 ≤ x1 ≤ hi·α1`, and `α1·P4(x1/(α1·2^L))^(2^L) ≤ t` if `α1 > 0`, `x1 = 0` if `α1 = 0` — there
are values of all `numCols L` block columns with these five values in columns `0..4` that satisfy
every row, bound and rotated cone of the block (`BlockRel`).  The point is explicit:
`f = u²/α1`, `g = (u+α1)²/α1`, `h = g²/α1` (`u = x1/2^L`), `v_d = α1·P4(x1/(α1·2^L))^(2^d)`, and the
`q`-th cone triple is `((α1 − w_q)/2, y_q, (α1 + w_q)/2)`. -/
theorem socp_block_complete_split (L : ℕ) (hL : 1 ≤ L) (lo hi elo a0 a1 a2 t x0 x1 α0 α1 : K)
    (h0 : 0 ≤ t) (h1 : t + elo * α0 ≤ a1) (h2 : x0 + x1 = a0) (h3 : α0 + α1 = a2) (h4 : 0 ≤ α0) (h5 : 0 ≤ α1)
    (h6 : x0 ≤ lo * α0) (h7 : lo * α1 ≤ x1) (h8 : x1 ≤ hi * α1)
    (h9 : 0 < α1 → α1 * P4 (x1 / (α1 * 2 ^ L)) ^ 2 ^ L ≤ t) (h10 : α1 = 0 → x1 = 0) :
    ∃ y : ℕ → K, BlockRel L lo hi elo a0 a1 a2 y ∧
      y 0 = t ∧ y 1 = x0 ∧ y 2 = x1 ∧ y 3 = α0 ∧ y 4 = α1 ∧
      (0 < α1 → ∀ d < L, y (8 + d) = α1 * P4 (x1 / (α1 * 2 ^ L)) ^ 2 ^ d) := by
  have hV : numVars L = 8 + L := by unfold numVars; omega
  refine ⟨extend L (corePt L t x0 x1 α0 α1), ?_, ?_, ?_, ?_, ?_, ?_, ?_⟩
  · apply blockRel_of_core L hL
    rcases h5.lt_or_eq with hpos | hzero
    · apply blockCore_corePt_pos L hL lo hi elo a0 a1 a2 t x0 x1 α0 α1 h1 h2 h3 h4 hpos h6 h7 h8
      rw [v0_div L x1 α1 (ne_of_gt hpos)]
      exact h9 hpos
    · subst hzero
      rw [h10 rfl] at h2 ⊢
      exact blockCore_corePt_zero L hL lo hi elo a0 a1 a2 t x0 α0 h0 h1 (by simpa using h2)
        (by simpa using h3) h4 h6
  · rw [extend_lt _ _ _ (by omega)]; rfl
  · rw [extend_lt _ _ _ (by omega)]; rfl
  · rw [extend_lt _ _ _ (by omega)]; rfl
  · rw [extend_lt _ _ _ (by omega)]; rfl
  · rw [extend_lt _ _ _ (by omega)]; rfl
  · intro hpos d hd
    rw [extend_lt _ _ _ (by omega), corePt_v, v0_div L x1 α1 (ne_of_gt hpos)]

/-- **C18.5b (`socp_block_complete`, block completeness without split).** Let `1 ≤ L` and let
`(x1, x2, x3)` be values of the three columns `[i0, i1, i2]` of an exponential cone with `x3 > 0`,
inside the cuts (`lo·x3 ≤ x1 ≤ hi·x3`, rows 4-6 of the block) and with
`x3·P4(x1/(x3·2^L))^(2^L) ≤ x2`.  Then the block is satisfiable: with `t = x2`, `x0 = α0 = 0`,
`x1, α1 = x1, x3` and the squaring chain `v_d = x3·P4(x1/(x3·2^L))^(2^d)` all rows, bounds and
rotated cones of the block hold. -/
theorem socp_block_complete (L : ℕ) (hL : 1 ≤ L) (lo hi elo x1 x2 x3 : K) (hx3 : 0 < x3)
    (hlo : lo * x3 ≤ x1) (hhi : x1 ≤ hi * x3) (hP : x3 * P4 (x1 / (x3 * 2 ^ L)) ^ 2 ^ L ≤ x2) :
    ∃ y : ℕ → K, BlockRel L lo hi elo x1 x2 x3 y ∧
      y 0 = x2 ∧ y 1 = 0 ∧ y 2 = x1 ∧ y 3 = 0 ∧ y 4 = x3 ∧
      ∀ d < L, y (8 + d) = x3 * P4 (x1 / (x3 * 2 ^ L)) ^ 2 ^ d := by
  have hP4 : 0 ≤ P4 (x1 / (x3 * 2 ^ L)) := by
    have := Q4_nonneg (x1 / (x3 * 2 ^ L)) 1
    rw [Q4_eq _ _ one_ne_zero] at this
    simpa using this
  have hx2 : 0 ≤ x2 := le_trans (mul_nonneg hx3.le (pow_nonneg hP4 _)) hP
  obtain ⟨y, hy, e0, e1, e2, e3, e4, e5⟩ :=
    socp_block_complete_split L hL lo hi elo x1 x2 x3 x2 0 x1 0 x3 hx2 (by simp) (zero_add _) (zero_add _)
      le_rfl hx3.le (by simp) hlo hhi (fun _ => hP) (fun h => absurd h (ne_of_gt hx3))
  exact ⟨y, hy, e0, e1, e2, e3, e4, e5 hx3⟩

/-- **C18.5c (`socp_block_iff`, sound + complete).** For `1 ≤ L`: there is a block point with
`BlockRel` and prescribed `t, x0, x1, α0, α1` **iff** those five values satisfy the relations of
`socp_block_sound` / `socp_block_sound_div` / `socp_block_t_nonneg`. -/
theorem socp_block_iff (L : ℕ) (hL : 1 ≤ L) (lo hi elo a0 a1 a2 t x0 x1 α0 α1 : K) :
    (∃ y : ℕ → K, BlockRel L lo hi elo a0 a1 a2 y ∧
      y 0 = t ∧ y 1 = x0 ∧ y 2 = x1 ∧ y 3 = α0 ∧ y 4 = α1) ↔
    (0 ≤ t ∧ t + elo * α0 ≤ a1 ∧ x0 + x1 = a0 ∧ α0 + α1 = a2 ∧ 0 ≤ α0 ∧ 0 ≤ α1 ∧
      x0 ≤ lo * α0 ∧ lo * α1 ≤ x1 ∧ x1 ≤ hi * α1 ∧
      (0 < α1 → α1 * P4 (x1 / (α1 * 2 ^ L)) ^ 2 ^ L ≤ t) ∧ (α1 = 0 → x1 = 0)) := by
  constructor
  · rintro ⟨y, hy, rfl, rfl, rfl, rfl, rfl⟩
    obtain ⟨-, s1, s2, s3, s4, s5, s6, s7, s8⟩ := socp_block_sound L hL lo hi elo a0 a1 a2 y hy
    obtain ⟨d1, d2⟩ := socp_block_sound_div L hL lo hi elo a0 a1 a2 y hy
    exact ⟨socp_block_t_nonneg L hL lo hi elo a0 a1 a2 y hy, s1, s2, s3, s4, s5, s6, s7, s8, d1, d2⟩
  · rintro ⟨h0, h1, h2, h3, h4, h5, h6, h7, h8, h9, h10⟩
    obtain ⟨y, hy, e0, e1, e2, e3, e4, -⟩ :=
      socp_block_complete_split L hL lo hi elo a0 a1 a2 t x0 x1 α0 α1 h0 h1 h2 h3 h4 h5 h6 h7 h8 h9 h10
    exact ⟨y, hy, e0, e1, e2, e3, e4⟩

/-- **C18.5d.** The projection of a block on the three columns of its exponential cone: the block is
satisfiable iff there are a split and an epigraph value as in `socp_block_iff`. -/
theorem socp_block_iff_exists (L : ℕ) (hL : 1 ≤ L) (lo hi elo a0 a1 a2 : K) :
    (∃ y : ℕ → K, BlockRel L lo hi elo a0 a1 a2 y) ↔
    ∃ t x0 x1 α0 α1 : K, 0 ≤ t ∧ t + elo * α0 ≤ a1 ∧ x0 + x1 = a0 ∧ α0 + α1 = a2 ∧ 0 ≤ α0 ∧ 0 ≤ α1 ∧
      x0 ≤ lo * α0 ∧ lo * α1 ≤ x1 ∧ x1 ≤ hi * α1 ∧
      (0 < α1 → α1 * P4 (x1 / (α1 * 2 ^ L)) ^ 2 ^ L ≤ t) ∧ (α1 = 0 → x1 = 0) := by
  constructor
  · rintro ⟨y, hy⟩
    exact ⟨y 0, y 1, y 2, y 3, y 4,
      (socp_block_iff L hL lo hi elo a0 a1 a2 _ _ _ _ _).mp ⟨y, hy, rfl, rfl, rfl, rfl, rfl⟩⟩
  · rintro ⟨t, x0, x1, α0, α1, h⟩
    obtain ⟨y, hy, -⟩ := (socp_block_iff L hL lo hi elo a0 a1 a2 t x0 x1 α0 α1).mpr h
    exact ⟨y, hy⟩

/-- **C18.5e (no split).** For `x3 > 0`: the block is satisfiable with `x0 = α0 = 0` **iff**
`(x1, x3)` is inside the cuts and `x3·P4(x1/(x3·2^L))^(2^L) ≤ x2`. -/
theorem socp_block_iff_nosplit (L : ℕ) (hL : 1 ≤ L) (lo hi elo x1 x2 x3 : K) (hx3 : 0 < x3) :
    (∃ y : ℕ → K, BlockRel L lo hi elo x1 x2 x3 y ∧ y 1 = 0 ∧ y 3 = 0) ↔
    (lo * x3 ≤ x1 ∧ x1 ≤ hi * x3 ∧ x3 * P4 (x1 / (x3 * 2 ^ L)) ^ 2 ^ L ≤ x2) := by
  constructor
  · rintro ⟨y, hy, e1, e3⟩
    obtain ⟨-, s1, s2, s3, s4, s5, s6, s7, s8⟩ := socp_block_sound L hL lo hi elo x1 x2 x3 y hy
    rw [e1, zero_add] at s2
    rw [e3, zero_add] at s3
    rw [e3, mul_zero, add_zero] at s1
    have hd := (socp_block_sound_div L hL lo hi elo x1 x2 x3 y hy).1
    rw [s2, s3] at hd s7 s8
    exact ⟨s7, s8, le_trans (hd hx3) s1⟩
  · rintro ⟨h1, h2, h3⟩
    obtain ⟨y, hy, -, e1, -, e3, -⟩ := socp_block_complete L hL lo hi elo x1 x2 x3 hx3 h1 h2 h3
    exact ⟨y, hy, e1, e3⟩

/-- **C18.5f (below the lower cut, sufficiency).** If `x1 ≤ lo·x3`, `x3 ≥ 0` the block is satisfiable
for every `x2 ≥ elo·x3` (take `α1 = 0`, `x0 = x1`, `α0 = x3`, `t = x2 − elo·x3`): below the lower cut
the approximation replaces `x3·exp(x1/x3) ≤ x2` by the flat piece `exp(lo)·x3 ≤ x2`
(`elo = np.exp(lo)`; before the repair, `elo = 0`, by `0 ≤ x2`). -/
theorem socp_block_below_cut (L : ℕ) (hL : 1 ≤ L) (lo hi elo x1 x2 x3 : K) (hx3 : 0 ≤ x3)
    (hlo : x1 ≤ lo * x3) (hx2 : elo * x3 ≤ x2) : ∃ y : ℕ → K, BlockRel L lo hi elo x1 x2 x3 y := by
  obtain ⟨y, hy, -⟩ := socp_block_complete_split L hL lo hi elo x1 x2 x3 (x2 - elo * x3) x1 0 x3 0
    (by linarith) (by linarith) (add_zero _) (add_zero _) hx3 le_rfl hlo (by simp) (by simp)
    (fun h => absurd h (lt_irrefl _)) (fun _ => rfl)
  exact ⟨y, hy⟩

/-- **C18.5f' (below the lower cut, the flat piece exactly).** The block is satisfiable with `α1 = 0`
(everything on the piece below the cut) **iff** `x3 ≥ 0`, `x1 ≤ lo·x3` and `elo·x3 ≤ x2`.
(Without the restriction `α1 = 0` the converse of `socp_block_below_cut` holds only up to the
approximation error of the curve: a split may use a point `r1 ∈ [lo, hi]` of the approximated curve
`P4(r1/2^L)^(2^L)`, which for `lo > 0` is slightly below `exp(lo)` at `r1 = lo`; over `ℝ` the bound
that holds for every split is `socp_block_below_cut_lower`.) -/
theorem socp_block_below_cut_iff (L : ℕ) (hL : 1 ≤ L) (lo hi elo x1 x2 x3 : K) :
    (∃ y : ℕ → K, BlockRel L lo hi elo x1 x2 x3 y ∧ y 4 = 0) ↔
    (0 ≤ x3 ∧ x1 ≤ lo * x3 ∧ elo * x3 ≤ x2) := by
  constructor
  · rintro ⟨y, hy, e4⟩
    obtain ⟨-, s1, s2, s3, s4, s5, s6, s7, s8⟩ := socp_block_sound L hL lo hi elo x1 x2 x3 y hy
    have h2 := (socp_block_sound_div L hL lo hi elo x1 x2 x3 y hy).2 e4
    have ht := socp_block_t_nonneg L hL lo hi elo x1 x2 x3 y hy
    rw [h2, add_zero] at s2
    rw [e4, add_zero] at s3
    rw [s2, s3] at s6
    rw [s3] at s1 s4
    exact ⟨s4, s6, by linarith⟩
  · rintro ⟨h1, h2, h3⟩
    obtain ⟨y, hy, -, -, -, -, e4, -⟩ := socp_block_complete_split L hL lo hi elo x1 x2 x3
      (x2 - elo * x3) x1 0 x3 0
      (by linarith) (by linarith) (add_zero _) (add_zero _) h1 le_rfl h2 (by simp) (by simp)
      (fun h => absurd h (lt_irrefl _)) (fun _ => rfl)
    exact ⟨y, hy, e4⟩

/-- **C18.5g (above the upper cut).** A feasible block forces `x_{i0} ≤ hi·x_{i2}` (`lo ≤ hi`):
points of the exponential cone with `x1/x3 > hi` are cut off. -/
theorem socp_block_upper_cut (L : ℕ) (hL : 1 ≤ L) (lo hi elo a0 a1 a2 : K) (hlh : lo ≤ hi) (y : ℕ → K)
    (h : BlockRel L lo hi elo a0 a1 a2 y) : a0 ≤ hi * a2 := by
  obtain ⟨-, -, s2, s3, s4, s5, s6, s7, s8⟩ := socp_block_sound L hL lo hi elo a0 a1 a2 y h
  have := mul_le_mul_of_nonneg_right hlh s4
  rw [← s2, ← s3, mul_add]
  linarith

/-! ### 2. the sandwich over `ℝ` -/

/-- **C18.6a (`socp_exp_upper`).** Over `ℝ`, `L ≥ 4`: if `x3 > 0`, `(x1, x3)` is inside the cuts, the
exponent is in the range `|x1/x3| ≤ 4` and `x3·exp(x1/x3)·(1 + 10⁻³) ≤ x2`, then the block of the
cone is satisfiable (without split): the approximation is never tighter than the exponential cone
inflated by `10⁻³` (for every value of the coefficient `elo`: the point has `α0 = 0`). -/
theorem socp_exp_upper (L : ℕ) (hL : 4 ≤ L) (lo hi elo x1 x2 x3 : ℝ) (hx3 : 0 < x3)
    (hlo : lo * x3 ≤ x1) (hhi : x1 ≤ hi * x3) (hr : |x1 / x3| ≤ 4)
    (hE : x3 * Real.exp (x1 / x3) * (1 + 1 / 1000) ≤ x2) :
    ∃ y : ℕ → ℝ, BlockRel L lo hi elo x1 x2 x3 y ∧ y 1 = 0 ∧ y 3 = 0 := by
  have hw : (2 : ℝ) ^ L * (x1 / (x3 * 2 ^ L)) = x1 / x3 := by
    field_simp
  have ht := (taylor4_pow_close_two_pow L hL (x1 / (x3 * 2 ^ L)) (by rw [hw]; exact hr)).2
  rw [hw] at ht
  have h1 := mul_le_mul_of_nonneg_left ht hx3.le
  exact (socp_block_iff_nosplit L (by omega) lo hi elo x1 x2 x3 hx3).mpr ⟨hlo, hhi, by linarith⟩

/-- **C18.6b₀ (lower bound in the original columns, generic coefficient).** As
`socp_block_exp_lower_orig`, for any row-0 coefficient `elo ≥ (1 − 10⁻³)·exp(lo)` (so the statement
covers the float `np.exp(lo)` as long as it is within `10⁻³` relative of `exp(lo)` from below; the
instance `elo = exp(lo)` is `socp_block_exp_lower_orig`). -/
theorem socp_block_exp_lower_orig_of_le (L : ℕ) (hL : 4 ≤ L) (lo hi elo a0 a1 a2 : ℝ) (hlo : -4 ≤ lo)
    (hhi : hi ≤ 4) (helo : (1 - 1 / 1000) * Real.exp lo ≤ elo) (y : ℕ → ℝ)
    (h : BlockRel L lo hi elo a0 a1 a2 y) (ha2 : 0 < a2) :
    (1 - 1 / 1000) * (a2 * Real.exp (a0 / a2)) ≤ a1 := by
  obtain ⟨-, s1, s2, s3, s4, s5, s6, s7, s8⟩ :=
    socp_block_sound L (by omega) lo hi elo a0 a1 a2 y h
  have hz := (socp_block_sound_div L (by omega) lo hi elo a0 a1 a2 y h).2
  have ht := socp_block_t_nonneg L (by omega) lo hi elo a0 a1 a2 y h
  have hδ : (0 : ℝ) ≤ 1 - 1 / 1000 := by norm_num
  -- `elo·α0 ≥ (1 − 10⁻³)·exp(lo)·α0`
  have h2 : (1 - 1 / 1000 : ℝ) * (y 3 * Real.exp lo) ≤ elo * y 3 := by
    have := mul_le_mul_of_nonneg_right helo s4
    linarith
  rcases s5.lt_or_eq with hpos | hzero
  · -- `α1 > 0`
    have hl := socp_block_exp_lower L hL lo hi elo a0 a1 a2 hlo hhi y h hpos
    have ha : a0 ≤ y 3 * lo + y 2 := by
      rw [← s2]; linarith
    have hj := exp_persp_split (y 3) (y 4) lo (y 2) a0 s4 hpos ha
    rw [s3] at hj
    have h1 := mul_le_mul_of_nonneg_left hj hδ
    linarith
  · -- `α1 = 0`: everything on the flat piece
    have h2' := hz hzero.symm
    rw [h2', add_zero] at s2
    rw [← hzero, add_zero] at s3
    rw [s2, s3] at s6
    rw [s3] at s1 h2
    have hr : a0 / a2 ≤ lo := by
      rw [div_le_iff₀ ha2]; exact s6
    have he : Real.exp (a0 / a2) ≤ Real.exp lo := Real.exp_le_exp.mpr hr
    have h3 : (1 - 1 / 1000 : ℝ) * (a2 * Real.exp (a0 / a2)) ≤ (1 - 1 / 1000) * (a2 * Real.exp lo) :=
      mul_le_mul_of_nonneg_left (mul_le_mul_of_nonneg_left he ha2.le) hδ
    linarith

/-- **C18.6b (lower bound in the original columns, no margin).** Over `ℝ`, `L ≥ 4`, cuts inside
`[-4, 4]`, row 0 of the block `t + exp(lo)·α0 ≤ x2` (the repaired `to_socp`; the float `np.exp(lo)`
the code writes is trusted to be `exp(lo)` to within rounding): a feasible block of a cone with
`x3 > 0` enforces `(1 − 10⁻³)·x3·exp(x1/x3) ≤ x2`, for EVERY exponent `x1/x3` (below the cut, inside
the cuts; above `hi` the block is infeasible, `socp_block_upper_cut`) and whatever split
`x1 = x0 + x1'`, `x3 = α0 + α1` the block point uses.

Proof: `t ≥ (1 − 10⁻³)·α1·exp(x1'/α1)` (`socp_block_exp_lower`), so
`x2 ≥ (1 − 10⁻³)·(α1·exp(x1'/α1) + α0·exp(lo))`; two-point Jensen for `exp` (`exp_persp_split`) and
`x1 ≤ lo·α0 + x1'` give `α0·exp(lo) + α1·exp(x1'/α1) ≥ x3·exp(x1/x3)`.  If `α1 = 0` then `x1 ≤ lo·x3`
and `x2 ≥ exp(lo)·x3 ≥ x3·exp(x1/x3)`.

Before the repair (`elo = 0`) this needed the margin `(lo + 1)·x3 ≤ x1`, and fails without it:
`old_lower_cut_gap`. -/
theorem socp_block_exp_lower_orig (L : ℕ) (hL : 4 ≤ L) (lo hi a0 a1 a2 : ℝ) (hlo : -4 ≤ lo)
    (hhi : hi ≤ 4) (y : ℕ → ℝ) (h : BlockRel L lo hi (Real.exp lo) a0 a1 a2 y) (ha2 : 0 < a2) :
    (1 - 1 / 1000) * (a2 * Real.exp (a0 / a2)) ≤ a1 :=
  socp_block_exp_lower_orig_of_le L hL lo hi (Real.exp lo) a0 a1 a2 hlo hhi
    (by have := Real.exp_pos lo; linarith) y h ha2

/-- **C18.6b' (the flat piece, every split).** Over `ℝ` (hypotheses of `socp_block_exp_lower_orig`):
every feasible block enforces `(1 − 10⁻³)·exp(lo)·x3 ≤ x2`, whatever the split and whatever `x1`
(the approximated curve on `[lo, hi]` is `≥ (1 − 10⁻³)·exp(lo)`, the piece below the cut is
`exp(lo)`).  With `socp_block_below_cut` this describes the block below the cut (`x1 ≤ lo·x3`):
`exp(lo)·x3 ≤ x2` ⟹ satisfiable ⟹ `(1 − 10⁻³)·exp(lo)·x3 ≤ x2`.  (An exact "iff `exp(lo)·x3 ≤ x2`"
holds for block points with `α1 = 0`, `socp_block_below_cut_iff`; with `α1 > 0` the point `r1 = lo`
of the curve may be used, whose approximated value is within `10⁻³` of `exp(lo)`, not equal.) -/
theorem socp_block_below_cut_lower (L : ℕ) (hL : 4 ≤ L) (lo hi a0 a1 a2 : ℝ) (hlo : -4 ≤ lo)
    (hhi : hi ≤ 4) (y : ℕ → ℝ) (h : BlockRel L lo hi (Real.exp lo) a0 a1 a2 y) :
    (1 - 1 / 1000) * (Real.exp lo * a2) ≤ a1 := by
  obtain ⟨-, s1, s2, s3, s4, s5, s6, s7, s8⟩ :=
    socp_block_sound L (by omega) lo hi (Real.exp lo) a0 a1 a2 y h
  have ht := socp_block_t_nonneg L (by omega) lo hi (Real.exp lo) a0 a1 a2 y h
  have he0 : 0 ≤ Real.exp lo * y 3 := mul_nonneg (Real.exp_pos lo).le s4
  have h2 : (1 - 1 / 1000 : ℝ) * (Real.exp lo * y 3) ≤ Real.exp lo * y 3 := by nlinarith
  rcases s5.lt_or_eq with hpos | hzero
  · have hl := socp_block_exp_lower L hL lo hi (Real.exp lo) a0 a1 a2 hlo hhi y h hpos
    have hr : lo ≤ y 2 / y 4 := by rw [le_div_iff₀ hpos]; exact s7
    have he : Real.exp lo ≤ Real.exp (y 2 / y 4) := Real.exp_le_exp.mpr hr
    have h3 : (1 - 1 / 1000 : ℝ) * (Real.exp lo * y 4) ≤ (1 - 1 / 1000) * (y 4 * Real.exp (y 2 / y 4)) := by
      apply mul_le_mul_of_nonneg_left _ (by norm_num)
      have := mul_le_mul_of_nonneg_left he hpos.le
      linarith
    rw [← s3, mul_add, mul_add]
    linarith
  · rw [← s3, ← hzero, add_zero]
    linarith

/-- **C18.6c (`socp_sandwich`, whole range).** Over `ℝ`, `L ≥ 4`, cuts `-4 ≤ lo`, `hi ≤ 4`, row 0 with
the coefficient `exp(lo)`, and a cone with `x3 > 0` whose exponent `r = x1/x3` lies in `[lo, hi]`
(the whole range between the cuts; before the repair: `[lo + 1, hi]`):

* (upper) `x3·exp(x1/x3)·(1 + 10⁻³) ≤ x2` ⟹ the block of `to_socp` is satisfiable;
* (lower) the block is satisfiable ⟹ `x3·exp(x1/x3)·(1 − 10⁻³) ≤ x2`;
* the least `x2` the un-split block accepts, `B = x3·P4(x1/(x3·2^L))^(2^L)`, satisfies
  `x3·exp(x1/x3)·(1 − 10⁻³) ≤ B ≤ x3·exp(x1/x3)·(1 + 10⁻³)`.

So between the cuts the set the approximation describes lies between the exponential cone deflated
and inflated by `10⁻³` in the `x2` coordinate.  (The lower half holds for every `x1`, see
`socp_block_exp_lower_orig`.) -/
theorem socp_sandwich (L : ℕ) (hL : 4 ≤ L) (lo hi x1 x3 : ℝ) (hlo : -4 ≤ lo) (hhi : hi ≤ 4)
    (hx3 : 0 < x3) (hl : lo * x3 ≤ x1) (hh : x1 ≤ hi * x3) :
    (∀ x2, x3 * Real.exp (x1 / x3) * (1 + 1 / 1000) ≤ x2 →
      ∃ y : ℕ → ℝ, BlockRel L lo hi (Real.exp lo) x1 x2 x3 y) ∧
    (∀ x2, (∃ y : ℕ → ℝ, BlockRel L lo hi (Real.exp lo) x1 x2 x3 y) →
      x3 * Real.exp (x1 / x3) * (1 - 1 / 1000) ≤ x2) ∧
    x3 * Real.exp (x1 / x3) * (1 - 1 / 1000) ≤ x3 * P4 (x1 / (x3 * 2 ^ L)) ^ 2 ^ L ∧
    x3 * P4 (x1 / (x3 * 2 ^ L)) ^ 2 ^ L ≤ x3 * Real.exp (x1 / x3) * (1 + 1 / 1000) := by
  have hr : |x1 / x3| ≤ 4 := by
    rw [abs_le]
    constructor
    · rw [le_div_iff₀ hx3]; nlinarith
    · rw [div_le_iff₀ hx3]; nlinarith
  have hw : (2 : ℝ) ^ L * (x1 / (x3 * 2 ^ L)) = x1 / x3 := by
    field_simp
  have ht := taylor4_pow_close_two_pow L hL (x1 / (x3 * 2 ^ L)) (by rw [hw]; exact hr)
  rw [hw] at ht
  refine ⟨?_, ?_, ?_, ?_⟩
  · intro x2 h2
    obtain ⟨y, hy, -⟩ := socp_exp_upper L hL lo hi (Real.exp lo) x1 x2 x3 hx3 hl hh hr h2
    exact ⟨y, hy⟩
  · rintro x2 ⟨y, hy⟩
    have := socp_block_exp_lower_orig L hL lo hi x1 x2 x3 hlo hhi y hy hx3
    linarith
  · have := mul_le_mul_of_nonneg_left ht.1 hx3.le
    linarith
  · have := mul_le_mul_of_nonneg_left ht.2 hx3.le
    linarith

/-- **C18.6d (`socp_lower_cut_tight`).** At the lower cut itself (`x1 = lo·x3`, `x3 > 0`) the repaired
block forces `x3·exp(lo)·(1 − 10⁻³) ≤ x2` (positive counterpart of `old_lower_cut_gap`), and it is
satisfiable as soon as `exp(lo)·x3 ≤ x2`. -/
theorem socp_lower_cut_tight (L : ℕ) (hL : 4 ≤ L) (lo hi x2 x3 : ℝ) (hlo : -4 ≤ lo) (hhi : hi ≤ 4)
    (hx3 : 0 < x3) :
    ((∃ y : ℕ → ℝ, BlockRel L lo hi (Real.exp lo) (lo * x3) x2 x3 y) →
      x3 * Real.exp lo * (1 - 1 / 1000) ≤ x2) ∧
    (Real.exp lo * x3 ≤ x2 → ∃ y : ℕ → ℝ, BlockRel L lo hi (Real.exp lo) (lo * x3) x2 x3 y) := by
  constructor
  · rintro ⟨y, hy⟩
    have := socp_block_exp_lower_orig L hL lo hi (lo * x3) x2 x3 hlo hhi y hy hx3
    have e : lo * x3 / x3 = lo := by field_simp
    rw [e] at this
    linarith
  · intro h
    exact socp_block_below_cut L (by omega) lo hi (Real.exp lo) (lo * x3) x2 x3 hx3.le le_rfl h

/-- the relations of one block of `to_socp` BEFORE the repair: row 0 is `t ≤ x_{i1}`, i.e. `BlockRel`
with the coefficient `elo = 0` of `α0` -/
abbrev BlockRelOld (L : ℕ) (lo hi a0 a1 a2 : K) (y : ℕ → K) : Prop := BlockRel L lo hi 0 a0 a1 a2 y

lemma blockRelOld_epi (L : ℕ) (lo hi a0 a1 a2 : K) (y : ℕ → K) (h : BlockRelOld L lo hi a0 a1 a2 y) :
    y 0 ≤ a1 := by
  have := h.epi
  simpa using this

/-- **C18.6e (`old_lower_cut_gap`, the defect the repair removes).** For the OLD block relation
(`elo = 0`: row 0 is `t ≤ x2`): at the lower cut itself (`x1 = lo·x3`) the block is satisfiable with
`x2 = 0`, although `x3·exp(lo) > 0`: the lower half of `socp_sandwich` does not hold for the old
relation with `lo` in place of `lo + 1`; with user cuts inside `[-4, 4]` exponents in `[lo, lo+1)`,
inside the cut-off range, were under-approximated by up to 100 %. -/
theorem old_lower_cut_gap (L : ℕ) (hL : 1 ≤ L) (lo hi x3 : ℝ) (hx3 : 0 < x3) :
    (∃ y : ℕ → ℝ, BlockRel L lo hi 0 (lo * x3) 0 x3 y) ∧
    ¬ (x3 * Real.exp (lo * x3 / x3) * (1 - 1 / 1000) ≤ 0) := by
  refine ⟨socp_block_below_cut L hL lo hi 0 (lo * x3) 0 x3 hx3.le le_rfl (by simp), ?_⟩
  have : 0 < x3 * Real.exp (lo * x3 / x3) * (1 - 1 / 1000) := by
    have := Real.exp_pos (lo * x3 / x3)
    positivity
  linarith

/-- the same for `BlockRelOld`, and the contrast: the repaired relation is NOT satisfiable there -/
theorem old_lower_cut_gap' (L : ℕ) (hL : 4 ≤ L) (lo hi x3 : ℝ) (hlo : -4 ≤ lo) (hhi : hi ≤ 4)
    (hx3 : 0 < x3) :
    (∃ y : ℕ → ℝ, BlockRelOld L lo hi (lo * x3) 0 x3 y) ∧
    ¬ ∃ y : ℕ → ℝ, BlockRel L lo hi (Real.exp lo) (lo * x3) 0 x3 y := by
  refine ⟨(old_lower_cut_gap L (by omega) lo hi x3 hx3).1, ?_⟩
  intro hb
  have h := (socp_lower_cut_tight L hL lo hi 0 x3 hlo hhi hx3).1 hb
  have : 0 < x3 * Real.exp lo * (1 - 1 / 1000) := by
    have := Real.exp_pos lo
    positivity
  linarith

/-! ### 3. the whole program -/

/-- **C18.7a (program completeness, generic).** Let `1 ≤ L`, `P` a program whose exponential cones
are triples of existing columns and whose second-order cones index existing columns.  If `x` is
feasible for `P` with exponential-cone predicate `E`, and `E a0 a1 a2` implies that the block of
`to_socp` for the values `(a0, a1, a2)` is satisfiable, then there is `z`, equal to `x` on the
original columns, that is feasible for `toSocp P L lo hi elo` (which has no exponential cone left), with
the same objective value. -/
theorem toSocp_complete_blocks (P : ConeProg K) (L : ℕ) (hL : 1 ≤ L) (lo hi elo : K) (hx : XOk P)
    (hq : ∀ q ∈ P.qmat, ∀ j ∈ q, j < P.lp.nc) (E E' : K → K → K → Prop)
    (hE : ∀ a0 a1 a2, E a0 a1 a2 → ∃ y : ℕ → K, BlockRel L lo hi elo a0 a1 a2 y)
    (x : ℕ → K) (hf : P.Feas E x) :
    ∃ z : ℕ → K, (∀ j < P.lp.nc, z j = x j) ∧ (toSocp P L lo hi elo).Feas E' z ∧
      (toSocp P L lo hi elo).lp.obj z = P.lp.obj x := by
  have hex : ∀ k, ∃ y : ℕ → K, k < P.xmat.length →
      BlockRel L lo hi elo (x ((P.xmat.getD k []).getD 0 0)) (x ((P.xmat.getD k []).getD 1 0))
        (x ((P.xmat.getD k []).getD 2 0)) y := by
    intro k
    by_cases hk : k < P.xmat.length
    · have hm : P.xmat.getD k [] ∈ P.xmat := by
        rw [List.getD_eq_getElem _ _ hk]; exact List.getElem_mem hk
      obtain ⟨y, hy⟩ := hE _ _ _ (hf.exp _ hm)
      exact ⟨y, fun _ => hy⟩
    · exact ⟨fun _ => 0, fun h => absurd h hk⟩
  choose Y hY using hex
  refine ⟨glue P L x Y, glue_lt P L x Y, ?_, ?_⟩
  · exact toSocp_feas_of_blocks P L hL lo hi elo hx hq x hf.lin hf.soc Y hY E'
  · rw [(socp_carry_row P L lo hi elo _).2]
    unfold LinProg.obj
    apply Finset.sum_congr rfl
    intro j hj
    rw [glue_lt P L x Y j (Finset.mem_range.mp hj)]

/-- **C18.7b (program completeness, Taylor form, every linear ordered field).** Every point feasible
for `P` with each exponential-cone membership `x3·exp(x1/x3) ≤ x2` replaced by
`x3 > 0`, `lo·x3 ≤ x1 ≤ hi·x3`, `x3·P4(x1/(x3·2^L))^(2^L) ≤ x2` extends to a feasible point of
`toSocp P L lo hi elo`. -/
theorem toSocp_complete_P4 (P : ConeProg K) (L : ℕ) (hL : 1 ≤ L) (lo hi elo : K) (hx : XOk P)
    (hq : ∀ q ∈ P.qmat, ∀ j ∈ q, j < P.lp.nc) (E' : K → K → K → Prop) (x : ℕ → K)
    (hf : P.Feas (fun x1 x2 x3 => 0 < x3 ∧ lo * x3 ≤ x1 ∧ x1 ≤ hi * x3 ∧
      x3 * P4 (x1 / (x3 * 2 ^ L)) ^ 2 ^ L ≤ x2) x) :
    ∃ z : ℕ → K, (∀ j < P.lp.nc, z j = x j) ∧ (toSocp P L lo hi elo).Feas E' z ∧
      (toSocp P L lo hi elo).lp.obj z = P.lp.obj x := by
  apply toSocp_complete_blocks P L hL lo hi elo hx hq _ E' _ x hf
  rintro a0 a1 a2 ⟨h1, h2, h3, h4⟩
  obtain ⟨y, hy, -⟩ := socp_block_complete L hL lo hi elo a0 a1 a2 h1 h2 h3 h4
  exact ⟨y, hy⟩

/-- the exponential cone (rsome's ordering `x3·exp(x1/x3) ≤ x2`, `x3 > 0`) inflated by `10⁻³`,
restricted to the cuts and to the exponent range `|x1/x3| ≤ 4` -/
def ExpStrong (lo hi : ℝ) (x1 x2 x3 : ℝ) : Prop :=
  0 < x3 ∧ lo * x3 ≤ x1 ∧ x1 ≤ hi * x3 ∧ |x1 / x3| ≤ 4 ∧
    x3 * Real.exp (x1 / x3) * (1 + 1 / 1000) ≤ x2

/-- **C18.7c (`toSocp_complete`).** Over `ℝ`, `L ≥ 4`: every point `x` feasible for the exact program
`P` with each exponential-cone membership strengthened to `ExpStrong`
(`x3·exp(x1/x3)·(1 + 10⁻³) ≤ x2`, inside the cuts, `|x1/x3| ≤ 4`) extends to a point `z` feasible for
`toSocp P L lo hi elo` (every value of the row-0 coefficient `elo`, in particular `exp lo` and the
float `np.exp(lo)`: the extension uses no split, `α0 = 0`), with `z = x` on the original columns and
the same objective value.  Since `ExpStrong` implies the exact membership, `x` is in particular
feasible for the exact program: the optimal value of the approximation is at most that of the
`10⁻³`-strengthened exact program. -/
theorem toSocp_complete (P : ConeProg ℝ) (L : ℕ) (hL : 4 ≤ L) (lo hi elo : ℝ) (hx : XOk P)
    (hq : ∀ q ∈ P.qmat, ∀ j ∈ q, j < P.lp.nc) (E' : ℝ → ℝ → ℝ → Prop) (x : ℕ → ℝ)
    (hf : P.Feas (ExpStrong lo hi) x) :
    ∃ z : ℕ → ℝ, (∀ j < P.lp.nc, z j = x j) ∧ (toSocp P L lo hi elo).Feas E' z ∧
      (toSocp P L lo hi elo).lp.obj z = P.lp.obj x := by
  apply toSocp_complete_blocks P L (by omega) lo hi elo hx hq _ E' _ x hf
  rintro a0 a1 a2 ⟨h1, h2, h3, h4, h5⟩
  obtain ⟨y, hy, -⟩ := socp_exp_upper L hL lo hi elo a0 a1 a2 h1 h2 h3 h4 h5
  exact ⟨y, hy⟩

/-- `ExpStrong` is a strengthening of the exact membership `x3·exp(x1/x3) ≤ x2`, `x3 > 0`. -/
theorem ExpStrong.exact (lo hi x1 x2 x3 : ℝ) (h : ExpStrong lo hi x1 x2 x3) :
    0 < x3 ∧ x3 * Real.exp (x1 / x3) ≤ x2 := by
  obtain ⟨h1, -, -, -, h5⟩ := h
  refine ⟨h1, ?_⟩
  have : 0 ≤ x3 * Real.exp (x1 / x3) := mul_nonneg h1.le (Real.exp_pos _).le
  linarith

/-- **C18.7d (`toSocp_sound_orig`, whole program, no condition on the exponent).** A point feasible
for `toSocp P L lo hi (exp lo)` (`L ≥ 4`, cuts inside `[-4, 4]`; the repaired `to_socp`, the float
`np.exp(lo)` trusted to within rounding) satisfies, for every exponential cone `[i0, i1, i2]` of `P`
with `x_{i2} > 0`, the exact membership deflated by `10⁻³`:
`(1 − 10⁻³)·x_{i2}·exp(x_{i0}/x_{i2}) ≤ x_{i1}` — with NO condition on the exponent
(before the repair: only for `x_{i0} ≥ (lo+1)·x_{i2}`). -/
theorem toSocp_sound_orig (P : ConeProg ℝ) (L : ℕ) (hL : 4 ≤ L) (lo hi : ℝ) (hlo : -4 ≤ lo)
    (hhi : hi ≤ 4) (hx : XOk P) (E : ℝ → ℝ → ℝ → Prop) (x : ℕ → ℝ)
    (hf : (toSocp P L lo hi (Real.exp lo)).Feas E x) (k : ℕ) (hk : k < P.xmat.length)
    (h3 : 0 < x ((P.xmat.getD k []).getD 2 0)) :
    (1 - 1 / 1000) * (x ((P.xmat.getD k []).getD 2 0) *
      Real.exp (x ((P.xmat.getD k []).getD 0 0) / x ((P.xmat.getD k []).getD 2 0))) ≤
      x ((P.xmat.getD k []).getD 1 0) :=
  socp_block_exp_lower_orig L hL lo hi _ _ _ hlo hhi _
    (socp_feas_block P L (by omega) lo hi (Real.exp lo) hx E x hf k hk) h3

/-- **C18.7e (whole program, everything a feasible point of the repaired approximation satisfies).**
`x` feasible for `toSocp P L lo hi (exp lo)`, `L ≥ 4`, `-4 ≤ lo ≤ hi ≤ 4`: `x` satisfies the rows,
bounds and second-order cones of `P`, and for every exponential cone `[i0, i1, i2]` of `P`:
`x_{i2} ≥ 0`, `x_{i0} ≤ hi·x_{i2}`, `(1 − 10⁻³)·exp(lo)·x_{i2} ≤ x_{i1}`, and if `x_{i2} > 0` the
membership deflated by `10⁻³`, `(1 − 10⁻³)·x_{i2}·exp(x_{i0}/x_{i2}) ≤ x_{i1}`. -/
theorem toSocp_sound (P : ConeProg ℝ) (L : ℕ) (hL : 4 ≤ L) (lo hi : ℝ) (hlo : -4 ≤ lo)
    (hhi : hi ≤ 4) (hlh : lo ≤ hi) (hx : XOk P) (E : ℝ → ℝ → ℝ → Prop) (x : ℕ → ℝ)
    (hf : (toSocp P L lo hi (Real.exp lo)).Feas E x) :
    P.lp.Feas x ∧ (∀ q ∈ P.qmat, socMem x q) ∧
    ∀ k < P.xmat.length,
      0 ≤ x ((P.xmat.getD k []).getD 2 0) ∧
      x ((P.xmat.getD k []).getD 0 0) ≤ hi * x ((P.xmat.getD k []).getD 2 0) ∧
      (1 - 1 / 1000) * (Real.exp lo * x ((P.xmat.getD k []).getD 2 0)) ≤
        x ((P.xmat.getD k []).getD 1 0) ∧
      (0 < x ((P.xmat.getD k []).getD 2 0) →
        (1 - 1 / 1000) * (x ((P.xmat.getD k []).getD 2 0) *
          Real.exp (x ((P.xmat.getD k []).getD 0 0) / x ((P.xmat.getD k []).getD 2 0))) ≤
          x ((P.xmat.getD k []).getD 1 0)) := by
  obtain ⟨h1, h2⟩ := socp_carry_feas P L lo hi (Real.exp lo) E x hf
  refine ⟨h1, h2, ?_⟩
  intro k hk
  have hb := socp_feas_block P L (by omega) lo hi (Real.exp lo) hx E x hf k hk
  obtain ⟨-, s1, s2, s3, s4, s5, -⟩ := socp_block_sound L (by omega) _ _ _ _ _ _ _ hb
  refine ⟨by rw [← s3]; linarith, socp_block_upper_cut L (by omega) _ _ _ _ _ _ hlh _ hb,
    socp_block_below_cut_lower L hL lo hi _ _ _ hlo hhi _ hb, ?_⟩
  intro h3
  exact socp_block_exp_lower_orig L hL lo hi _ _ _ hlo hhi _ hb h3

/-! ### 4. concrete instances -/

/-- `L = 1`, cuts `(-1, 1)`, `elo = 3/8`, cone values `(x1, x2, x3) = (0, 1, 1)`: `1·P4(0)² = 1 ≤ 1`, so
the block is satisfiable (compare the hand-written point `C18.exY`) -/
example : ∃ y : ℕ → ℚ, BlockRel 1 (-1) 1 (3 / 8) 0 1 1 y := by
  obtain ⟨y, hy, -⟩ := socp_block_complete 1 le_rfl (-1) 1 (3 / 8) (0 : ℚ) 1 1 (by norm_num)
    (by norm_num) (by norm_num) (by norm_num [P4])
  exact ⟨y, hy⟩

/-- `L = 2`, cuts `(-2, 2)`, `(x1, x2, x3) = (1, 11/4, 1)`: `P4(1/4)⁴ = (7889/6144)⁴ ≈ 2.71828 ≤ 2.75`,
and the chain values are `v_0 = 7889/6144`, `v_1 = (7889/6144)²` -/
example : ∃ y : ℕ → ℚ, BlockRel 2 (-2) 2 (1 / 8) 1 (11 / 4) 1 y ∧ y 8 = 7889 / 6144 ∧
    y 9 = (7889 / 6144) ^ 2 := by
  obtain ⟨y, hy, -, -, -, -, -, hv⟩ := socp_block_complete 2 (by norm_num) (-2) 2 (1 / 8) (1 : ℚ)
    (11 / 4) 1 (by norm_num) (by norm_num) (by norm_num) (by norm_num [P4])
  refine ⟨y, hy, ?_, ?_⟩
  · have := hv 0 (by norm_num)
    rw [this]; norm_num [P4]
  · have := hv 1 (by norm_num)
    rw [this]; norm_num [P4]

/-- the iff at work: with `x2 = 27/10 < P4(1/4)⁴` the un-split block is NOT satisfiable -/
example : ¬ ∃ y : ℕ → ℚ, BlockRel 2 (-2) 2 (1 / 8) 1 (27 / 10) 1 y ∧ y 1 = 0 ∧ y 3 = 0 := by
  rw [socp_block_iff_nosplit 2 (by norm_num) (-2) 2 (1 / 8) (1 : ℚ) (27 / 10) 1 (by norm_num)]
  norm_num [P4]

/-- below the lower cut (`x1/x3 = -3 < -2`), `elo = 1/8 ≈ exp(-2)`: the block accepts `x2 = 1/8` … -/
example : ∃ y : ℕ → ℚ, BlockRel 2 (-2) 2 (1 / 8) (-3) (1 / 8) 1 y :=
  socp_block_below_cut 2 (by norm_num) (-2) 2 (1 / 8) (-3) (1 / 8) 1 (by norm_num) (by norm_num)
    (by norm_num)

/-- … but on the flat piece (`α1 = 0`) no longer `x2 = 0` (`socp_block_below_cut_iff`), which the old
relation (`elo = 0`) accepted -/
example : (¬ ∃ y : ℕ → ℚ, BlockRel 2 (-2) 2 (1 / 8) (-3) 0 1 y ∧ y 4 = 0) ∧
    ∃ y : ℕ → ℚ, BlockRelOld 2 (-2) 2 (-3) 0 1 y ∧ y 4 = 0 := by
  constructor
  · rw [socp_block_below_cut_iff 2 (by norm_num) (-2) 2 (1 / 8) (-3 : ℚ) 0 1]
    norm_num
  · exact (socp_block_below_cut_iff 2 (by norm_num) (-2) 2 0 (-3 : ℚ) 0 1).mpr (by norm_num)

/-- `socp_exp_upper` with numbers: `L = 4`, cuts `(-4, 4)`, `(x1, x2, x3) = (1, 3, 1)`:
`exp(1)·1.001 ≤ 2.7182818286·1.001 < 3` -/
example : ∃ y : ℕ → ℝ, BlockRel 4 (-4) 4 (Real.exp (-4)) 1 3 1 y := by
  obtain ⟨y, hy, -⟩ := socp_exp_upper 4 le_rfl (-4) 4 (Real.exp (-4)) 1 3 1 (by norm_num)
    (by norm_num) (by norm_num) (by norm_num) (by
      have := Real.exp_one_lt_d9
      norm_num
      linarith)
  exact ⟨y, hy⟩

/-- `socp_sandwich` with numbers: `L = 4`, cuts `(-4, 4)`, `x1 = 2`, `x3 = 1` (`r = 2 ∈ [-4, 4]`) -/
example (x2 : ℝ) :
    (Real.exp 2 * (1 + 1 / 1000) ≤ x2 → ∃ y : ℕ → ℝ, BlockRel 4 (-4) 4 (Real.exp (-4)) 2 x2 1 y) ∧
    ((∃ y : ℕ → ℝ, BlockRel 4 (-4) 4 (Real.exp (-4)) 2 x2 1 y) → Real.exp 2 * (1 - 1 / 1000) ≤ x2) := by
  obtain ⟨h1, h2, -, -⟩ := socp_sandwich 4 le_rfl (-4) 4 2 1 (by norm_num) (by norm_num)
    (by norm_num) (by norm_num) (by norm_num)
  constructor
  · intro h
    exact h1 x2 (by simpa using h)
  · intro h
    simpa using h2 x2 h

/-- `socp_sandwich` with numbers inside the former gap: `x1 = -7/2`, `x3 = 1`
(`r = -3.5 ∈ [lo, lo + 1) = [-4, -3)`): the repaired block enforces `exp(-3.5)·(1 − 10⁻³) ≤ x2` -/
example (x2 : ℝ) :
    (Real.exp (-7 / 2) * (1 + 1 / 1000) ≤ x2 →
      ∃ y : ℕ → ℝ, BlockRel 4 (-4) 4 (Real.exp (-4)) (-7 / 2) x2 1 y) ∧
    ((∃ y : ℕ → ℝ, BlockRel 4 (-4) 4 (Real.exp (-4)) (-7 / 2) x2 1 y) →
      Real.exp (-7 / 2) * (1 - 1 / 1000) ≤ x2) := by
  obtain ⟨h1, h2, -, -⟩ := socp_sandwich 4 le_rfl (-4) 4 (-7 / 2) 1 (by norm_num) (by norm_num)
    (by norm_num) (by norm_num) (by norm_num)
  constructor
  · intro h
    exact h1 x2 (by simpa using h)
  · intro h
    simpa using h2 x2 h

/-- the hypotheses of `socp_lower_cut_tight` / `old_lower_cut_gap'` are satisfiable: `L = 4`, cuts
`(-4, 4)`, `x3 = 1`: the old block accepts `(x1, x2, x3) = (-4, 0, 1)`, the repaired one does not -/
example : (∃ y : ℕ → ℝ, BlockRelOld 4 (-4) 4 (-4 * 1) 0 1 y) ∧
    ¬ ∃ y : ℕ → ℝ, BlockRel 4 (-4) 4 (Real.exp (-4)) (-4 * 1) 0 1 y :=
  old_lower_cut_gap' 4 le_rfl (-4) 4 1 le_rfl le_rfl one_pos

/-- the source program of `C18.exP` over `ℝ`: one row `x1 + x2 ≤ 3`, four columns, the cone `[0, 1]`
and the exponential cone `[1, 2, 3]`, cost `x0` -/
noncomputable def exPR : ConeProg ℝ :=
  { lp := { nr := 1, nc := 4, a := fun _ j => if j = 1 ∨ j = 2 then 1 else 0, b := fun _ => 3,
            eq := fun _ => false, ub := fun _ => none, lb := fun _ => none,
            c := fun j => if j = 0 then 1 else 0 }
    st := fun _ j => decide (j = 1 ∨ j = 2), qmat := [[0, 1]], xmat := [[1, 2, 3]] }

/-- `toSocp_complete` with numbers: the point `x = (0, 0, 2, 1)` (row `0 + 2 ≤ 3`, cone `|0| ≤ 0`,
exponential cone `1·exp(0/1)·1.001 = 1.001 ≤ 2`) extends to a feasible point of
`toSocp exPR 4 (-4) 4 (Real.exp (-4))` (a program with `1 + 28` rows and `4 + 33` columns) with objective `0` -/
theorem exPR_point : ∃ z : ℕ → ℝ, z 0 = 0 ∧ z 1 = 0 ∧ z 2 = 2 ∧ z 3 = 1 ∧
    (toSocp exPR 4 (-4) 4 (Real.exp (-4))).Feas (fun _ _ _ => True) z ∧ (toSocp exPR 4 (-4) 4 (Real.exp (-4))).lp.obj z = 0 := by
  set x : ℕ → ℝ := fun j => if j = 2 then 2 else if j = 3 then 1 else 0 with hxdef
  have hok : XOk exPR := by
    intro e he
    simp [exPR] at he
    subst he
    simp [exPR]
  have hq : ∀ q ∈ exPR.qmat, ∀ j ∈ q, j < exPR.lp.nc := by
    intro q hq j hj
    simp [exPR] at hq
    subst hq
    simp at hj
    rcases hj with rfl | rfl <;> simp [exPR]
  have hf : exPR.Feas (ExpStrong (-4) 4) x := by
    refine ⟨⟨?_, ?_, ?_⟩, ?_, ?_⟩
    · intro i hi
      simp [exPR, LinProg.row, Finset.sum_range_succ, hxdef]
      norm_num
    · intro j hj; simp [exPR, LinProg.leUb]
    · intro j hj; simp [exPR, LinProg.geLb]
    · intro q hq
      simp [exPR] at hq
      subst hq
      simp [socMem, hxdef]
    · intro e he
      simp [exPR] at he
      subst he
      simp [ExpStrong, hxdef]
      norm_num
  obtain ⟨z, hz, hfz, hobj⟩ := toSocp_complete exPR 4 le_rfl (-4) 4 (Real.exp (-4)) hok hq (fun _ _ _ => True) x hf
  refine ⟨z, ?_, ?_, ?_, ?_, hfz, ?_⟩
  · rw [hz 0 (by simp [exPR])]; simp [hxdef]
  · rw [hz 1 (by simp [exPR])]; simp [hxdef]
  · rw [hz 2 (by simp [exPR])]; simp [hxdef]
  · rw [hz 3 (by simp [exPR])]; simp [hxdef]
  · rw [hobj]
    simp [exPR, LinProg.obj, Finset.sum_range_succ, hxdef]

/-- `toSocp_sound_orig` is not vacuous: at the feasible point above, the cone `[1, 2, 3]` of `exPR`
(`x3 = z 3 = 1 > 0`) satisfies `(1 − 10⁻³)·z3·exp(z1/z3) ≤ z2` -/
example : ∃ z : ℕ → ℝ, (toSocp exPR 4 (-4) 4 (Real.exp (-4))).Feas (fun _ _ _ => True) z ∧
    (1 - 1 / 1000) * (z 3 * Real.exp (z 1 / z 3)) ≤ z 2 := by
  obtain ⟨z, -, -, -, h3, hf, -⟩ := exPR_point
  refine ⟨z, hf, ?_⟩
  have hok : XOk exPR := by
    intro e he
    simp [exPR] at he
    subst he
    simp [exPR]
  have := toSocp_sound_orig exPR 4 le_rfl (-4) 4 le_rfl le_rfl hok _ z hf 0 (by simp [exPR])
    (by simp [exPR, h3])
  simpa [exPR] using this

end RsomeV.C18Upper
