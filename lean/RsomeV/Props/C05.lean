import RsomeV.L.NdLemmas

/-! C05: the NumPy index maps behind rsome's selector matrices are what the array operators mean.
Model: `RsomeV/M/NdArray.lean` (tied to real NumPy by the differential test of the `nd_*` driver ops);
helper lemmas: `RsomeV/L/NdLemmas.lean`. -/

namespace RsomeV.C05
open List RsomeV.Nd

/-! ## 1. ravel / unravel are mutually inverse -/

/-- Unravelling a flat position `k` of an array and ravelling the multi-index again gives `k` back. -/
theorem ravel_unravel (shape : List Nat) (k : Nat) (h : k < size shape) :
    ravel shape (unravel shape k) = k :=
  Nd.ravel_unravel h

example : unravel [2, 3, 4] 17 = [1, 1, 1] ∧ ravel [2, 3, 4] [1, 1, 1] = 17 := by decide

/-- Ravelling a legal multi-index (right number of components, each below its dimension) and
unravelling the flat position gives the multi-index back. -/
theorem unravel_ravel (shape idx : List Nat) (hl : idx.length = shape.length)
    (hb : ∀ j, j < shape.length → idx.getD j 0 < shape.getD j 0) :
    unravel shape (ravel shape idx) = idx :=
  Nd.unravel_ravel (validIdx_iff.2 ⟨hl, hb⟩)

example : unravel [2, 3] (ravel [2, 3] [1, 2]) = [1, 2] := by decide

/-- The flat position of a legal multi-index lies inside the array. -/
theorem ravel_lt (shape idx : List Nat) (hl : idx.length = shape.length)
    (hb : ∀ j, j < shape.length → idx.getD j 0 < shape.getD j 0) :
    ravel shape idx < size shape :=
  Nd.ravel_lt (validIdx_iff.2 ⟨hl, hb⟩)

example : ravel [2, 3] [1, 2] = 5 ∧ size [2, 3] = 6 := by decide

/-- The multi-index of a flat position inside the array is legal. -/
theorem unravel_valid (shape : List Nat) (k : Nat) (h : k < size shape) :
    (unravel shape k).length = shape.length ∧
    ∀ j, j < shape.length → (unravel shape k).getD j 0 < shape.getD j 0 :=
  validIdx_iff.1 (validIdx_unravel h)

example : unravel [2, 3] 5 = [1, 2] := by decide

/-! ## 2. broadcasting -/

/-- The defining property of NumPy broadcasting: if `a` and `b` broadcast to `t`, the element of the
broadcast of `a` at flat position `k` of `t` is the element of `a` whose multi-index is the multi-index
of `k` in `t`, restricted to the trailing `a.length` axes, with 0 on every axis where `a` has length 1;
and that element exists. -/
theorem bcastFlat_spec {a b t : List Nat} (h : broadcastShapes a b = some t) {k : Nat} (hk : k < size t) :
    unravel a (bcastFlat a t k) =
      zipWith (fun d i => if d = 1 then 0 else i) a ((unravel t k).drop (t.length - a.length))
    ∧ bcastFlat a t k < size a := by
  have hc := (broadcastShapes_compat h).1
  have hv := validIdx_bcastIdx hc.2 (validIdx_unravel hk)
  refine ⟨?_, Nd.ravel_lt hv⟩
  have := Nd.unravel_ravel hv
  simpa [bcastFlat, bcastIdx] using this

example : broadcastShapes [2, 1, 3] [4, 1] = some [2, 4, 3] ∧
    unravel [2, 4, 3] 17 = [1, 1, 2] ∧ bcastFlat [2, 1, 3] [2, 4, 3] 17 = ravel [2, 1, 3] [1, 0, 2] ∧
    bcastFlat [4, 1] [2, 4, 3] 17 = ravel [4, 1] [1, 0] := by decide

/-- The same for the right operand. -/
theorem bcastFlat_spec_right {a b t : List Nat} (h : broadcastShapes a b = some t) {k : Nat} (hk : k < size t) :
    unravel b (bcastFlat b t k) =
      zipWith (fun d i => if d = 1 then 0 else i) b ((unravel t k).drop (t.length - b.length))
    ∧ bcastFlat b t k < size b := by
  have hc := (broadcastShapes_compat h).2
  have hv := validIdx_bcastIdx hc.2 (validIdx_unravel hk)
  refine ⟨?_, Nd.ravel_lt hv⟩
  have := Nd.unravel_ravel hv
  simpa [bcastFlat, bcastIdx] using this

example : bcastFlat [4, 1] [2, 4, 3] 17 = 1 := by decide

/-- Component-wise reading of `bcastFlat_spec`: axis `j` of the source multi-index is axis
`t.length - a.length + j` of the target multi-index, or 0 where `a` has length 1. -/
theorem bcastFlat_spec_getD {a b t : List Nat} (h : broadcastShapes a b = some t) {k : Nat} (hk : k < size t)
    (j : Nat) (hj : j < a.length) :
    (unravel a (bcastFlat a t k)).getD j 0 =
      if a.getD j 0 = 1 then 0 else (unravel t k).getD (t.length - a.length + j) 0 := by
  rw [(bcastFlat_spec h hk).1]
  have hl := (broadcastShapes_compat h).1.1
  have h2 : t.length - a.length + j < t.length := by omega
  simp [List.getD_eq_getElem?_getD, getElem?_zipWith, hj, h2]

/-- What the broadcast shape is: each operand is at most as long as `t`, and each of its dimensions
is 1 or the dimension of `t` at the right-aligned position. -/
theorem broadcastShapes_dims {a b t : List Nat} (h : broadcastShapes a b = some t) :
    (a.length ≤ t.length ∧ ∀ j, j < a.length → a.getD j 0 = 1 ∨ a.getD j 0 = t.getD (t.length - a.length + j) 0) ∧
    (b.length ≤ t.length ∧ ∀ j, j < b.length → b.getD j 0 = 1 ∨ b.getD j 0 = t.getD (t.length - b.length + j) 0) := by
  obtain ⟨⟨ha, hca⟩, ⟨hb, hcb⟩⟩ := broadcastShapes_compat h
  refine ⟨⟨ha, fun j hj => ?_⟩, ⟨hb, fun j hj => ?_⟩⟩
  · have := (compat_iff.1 hca).2 j hj
    simpa using this
  · have := (compat_iff.1 hcb).2 j hj
    simpa using this

example : broadcastShapes [2, 1, 3] [4, 1] = some [2, 4, 3] ∧ broadcastShapes [2, 3] [4, 1] = none := by decide

/-! ## 3. transpose -/

/-- Element `k` of `a.T` is the element of `a` whose multi-index is the reversed multi-index of `k`
(taken in the reversed shape). -/
theorem transposeSrc_spec (shape : List Nat) (k : Nat) (h : k < size shape) :
    unravel shape (transposeSrc shape k) = (unravel shape.reverse k).reverse := by
  have hv : ValidIdx shape (unravel shape.reverse k).reverse := by
    have := validIdx_reverse (validIdx_unravel (shape := shape.reverse) (by rwa [size_reverse]))
    rwa [reverse_reverse] at this
  exact Nd.unravel_ravel hv

example : transposeSrc [2, 3] 3 = 4 ∧ unravel [3, 2] 3 = [1, 1] ∧ unravel [2, 3] 4 = [1, 1] := by decide

/-- The source position of an element of `a.T` lies inside `a`. -/
theorem transposeSrc_lt (shape : List Nat) (k : Nat) (h : k < size shape) :
    transposeSrc shape k < size shape := by
  have hv : ValidIdx shape (unravel shape.reverse k).reverse := by
    have := validIdx_reverse (validIdx_unravel (shape := shape.reverse) (by rwa [size_reverse]))
    rwa [reverse_reverse] at this
  exact Nd.ravel_lt hv

example : (List.range 6).map (transposeSrc [2, 3]) = [0, 3, 1, 4, 2, 5] := by decide

/-- Transposing twice is the identity: the index map of the reversed shape undoes the index map of
the shape. -/
theorem transposeSrc_involutive (shape : List Nat) (k : Nat) (h : k < size shape) :
    transposeSrc shape.reverse (transposeSrc shape k) = k := by
  have h' : k < size shape.reverse := by rwa [size_reverse]
  have := transposeSrc_spec shape k h
  unfold transposeSrc at this ⊢
  rw [reverse_reverse, this, reverse_reverse]
  exact Nd.ravel_unravel h'

example : transposeSrc [3, 2] (transposeSrc [2, 3] 3) = 3 := by decide

/-- `transposeSrc` is a bijection of the flat positions: the list of source positions is a
permutation of `range (size shape)`. -/
theorem transposeSrc_perm (shape : List Nat) :
    (range (size shape)).map (transposeSrc shape) ~ range (size shape) :=
  perm_range_of_leftInverse _ (transposeSrc shape.reverse) (transposeSrc_lt shape)
    (transposeSrc_involutive shape)

example : (List.range 6).map (transposeSrc [2, 3]) ~ List.range 6 := by decide

/-! ## 4. matmul -/

/-- 2-D `@`: `[m,n] @ [n,p]` has shape `[m,p]`, and output element `(r, c)` (flat `r*p + c`) adds up
`A[r,i] * B[i,c]` over `i < n`: the pairs are `(r*n + i, i*p + c)`. -/
theorem matmulPairs_2d (m n p : Nat) :
    matmulShape [m, n] [n, p] = some [m, p] ∧
    (matmulPairs [m, n] [n, p]).length = m * p ∧
    ∀ r c, r < m → c < p →
      (matmulPairs [m, n] [n, p])[r * p + c]? = some ((range n).map fun i => (r * n + i, i * p + c)) := by
  have h := matmul_eq_core (ba := []) (bb := []) m n p (broadcastShapes_nil_left [])
  simp only [nil_append] at h
  refine ⟨h.1, by rw [h.2, length_matmulCore]; simp, fun r c hr hc => ?_⟩
  have := matmulCore_getElem? (broadcastShapes_nil_left []) (m := m) (n := n) (p := p) (β := 0) (r := r) (c := c)
    (by simp) hr hc
  rw [h.2]
  simpa [bcastFlat_nil] using this

example : matmulPairs [2, 3] [3, 2] =
    [[(0, 0), (1, 2), (2, 4)], [(0, 1), (1, 3), (2, 5)], [(3, 0), (4, 2), (5, 4)], [(3, 1), (4, 3), (5, 5)]] := by
  decide

/-- Batched `@` with broadcasting of the batch axes on both sides: for `a = ba ++ [m,n]`,
`b = bb ++ [n,p]` whose batch shapes broadcast to `bt`, the result has shape `bt ++ [m,p]`, and output
element `(β, r, c)` (`β` a flat batch position) adds up, over `i < n`, the element `(r, i)` of the
matrix of `a` that broadcasting assigns to `β` times the element `(i, c)` of the matrix of `b` that
broadcasting assigns to `β`. -/
theorem matmulPairs_batch {ba bb bt : List Nat} (m n p : Nat) (h : broadcastShapes ba bb = some bt) :
    matmulShape (ba ++ [m, n]) (bb ++ [n, p]) = some (bt ++ [m, p]) ∧
    (matmulPairs (ba ++ [m, n]) (bb ++ [n, p])).length = size bt * (m * p) ∧
    ∀ β r c, β < size bt → r < m → c < p →
      (matmulPairs (ba ++ [m, n]) (bb ++ [n, p]))[β * (m * p) + r * p + c]? =
        some ((range n).map fun i =>
          (bcastFlat ba bt β * (m * n) + r * n + i, bcastFlat bb bt β * (n * p) + i * p + c)) := by
  have h' := matmul_eq_core m n p h
  refine ⟨h'.1, by rw [h'.2, length_matmulCore], fun β r c hβ hr hc => ?_⟩
  rw [h'.2]
  exact matmulCore_getElem? h hβ hr hc

example : matmulShape [2, 1, 2, 3] [4, 3, 2] = some [2, 4, 2, 2] ∧
    (matmulPairs [2, 1, 2, 3] [4, 3, 2])[(1 * 4 + 2) * (2 * 2) + 1 * 2 + 0]? =
      some [(1 * 6 + 1 * 3 + 0, 2 * 6 + 0 * 2 + 0), (1 * 6 + 1 * 3 + 1, 2 * 6 + 1 * 2 + 0),
            (1 * 6 + 1 * 3 + 2, 2 * 6 + 2 * 2 + 0)] := by decide

/-- Batched left operand, plain matrix on the right: every batch uses the same `B`. -/
theorem matmulPairs_batch_left (ba : List Nat) (m n p : Nat) :
    matmulShape (ba ++ [m, n]) [n, p] = some (ba ++ [m, p]) ∧
    ∀ β r c, β < size ba → r < m → c < p →
      (matmulPairs (ba ++ [m, n]) [n, p])[β * (m * p) + r * p + c]? =
        some ((range n).map fun i => (β * (m * n) + r * n + i, i * p + c)) := by
  have h := matmulPairs_batch (bb := []) m n p (broadcastShapes_nil_right ba)
  simp only [nil_append] at h
  refine ⟨h.1, fun β r c hβ hr hc => ?_⟩
  have := h.2.2 β r c hβ hr hc
  simpa [bcastFlat_nil, bcastFlat_self hβ] using this

example : (matmulPairs [2, 2, 2] [2, 1])[3]? = some [(6, 0), (7, 1)] := by decide

/-- Plain matrix on the left, batched right operand: every batch uses the same `A`. -/
theorem matmulPairs_batch_right (bb : List Nat) (m n p : Nat) :
    matmulShape [m, n] (bb ++ [n, p]) = some (bb ++ [m, p]) ∧
    ∀ β r c, β < size bb → r < m → c < p →
      (matmulPairs [m, n] (bb ++ [n, p]))[β * (m * p) + r * p + c]? =
        some ((range n).map fun i => (r * n + i, β * (n * p) + i * p + c)) := by
  have h := matmulPairs_batch (ba := []) m n p (broadcastShapes_nil_left bb)
  simp only [nil_append] at h
  refine ⟨h.1, fun β r c hβ hr hc => ?_⟩
  have := h.2.2 β r c hβ hr hc
  simpa [bcastFlat_nil, bcastFlat_self hβ] using this

example : (matmulPairs [1, 2] [2, 2, 1])[1]? = some [(0, 2), (1, 3)] := by decide

/-- 1-D left operand: the vector is used as a single row and the row axis is dropped from the
result, `(v @ B)[β, c] = Σ_i v[i] * B[β, i, c]`. -/
theorem matmulPairs_vec_left (bb : List Nat) (n p : Nat) :
    matmulShape [n] (bb ++ [n, p]) = some (bb ++ [p]) ∧
    ∀ β c, β < size bb → c < p →
      (matmulPairs [n] (bb ++ [n, p]))[β * p + c]? =
        some ((range n).map fun i => (i, β * (n * p) + i * p + c)) := by
  have h := matmulPairs_batch_right bb 1 n p
  have e : matmulPairs [n] (bb ++ [n, p]) = matmulPairs [1, n] (bb ++ [n, p]) := by
    simp [matmulPairs, promoteL]
  refine ⟨?_, fun β c hβ hc => ?_⟩
  · simp [matmulShape, promoteL, batchOf, rowsOf, colsOf, List.getD_eq_getElem?_getD, broadcastShapes_nil_left]
  · have := h.2 β 0 c hβ (by omega) hc
    rw [e]
    simpa using this

example : matmulShape [3] [2, 3, 2] = some [2, 2] ∧
    (matmulPairs [3] [2, 3, 2])[3]? = some [(0, 7), (1, 9), (2, 11)] := by decide

/-- 1-D right operand: the vector is used as a single column and the column axis is dropped,
`(A @ v)[β, r] = Σ_i A[β, r, i] * v[i]`. -/
theorem matmulPairs_vec_right (ba : List Nat) (m n : Nat) :
    matmulShape (ba ++ [m, n]) [n] = some (ba ++ [m]) ∧
    ∀ β r, β < size ba → r < m →
      (matmulPairs (ba ++ [m, n]) [n])[β * m + r]? =
        some ((range n).map fun i => (β * (m * n) + r * n + i, i)) := by
  have h := matmulPairs_batch_left ba m n 1
  have e : matmulPairs (ba ++ [m, n]) [n] = matmulPairs (ba ++ [m, n]) [n, 1] := by
    simp [matmulPairs, promoteR]
  refine ⟨?_, fun β r hβ hr => ?_⟩
  · simp [matmulShape, promoteR, batchOf, rowsOf, colsOf, List.getD_eq_getElem?_getD, broadcastShapes_nil_right]
  · have := h.2 β r 0 hβ hr (by omega)
    rw [e]
    simpa using this

example : matmulShape [2, 2, 3] [3] = some [2, 2] ∧
    (matmulPairs [2, 2, 3] [3])[3]? = some [(9, 0), (10, 1), (11, 2)] := by decide

/-- Two vectors: the inner product, a 0-d result. -/
theorem matmulPairs_vec_vec (n : Nat) :
    matmulShape [n] [n] = some [] ∧ matmulPairs [n] [n] = [(range n).map fun i => (i, i)] := by
  have h := matmulPairs_2d 1 n 1
  have e : matmulPairs [n] [n] = matmulPairs [1, n] [n, 1] := by
    simp [matmulPairs, promoteR, promoteL]
  refine ⟨by simp [matmulShape, promoteL, promoteR, batchOf, rowsOf, colsOf, broadcastShapes_nil_left], ?_⟩
  rw [e]
  have h1 := h.2.1
  have h2 := h.2.2 0 0 (by omega) (by omega)
  match hm : matmulPairs [1, n] [n, 1], h1, h2 with
  | [x], _, h2 => simpa using h2

example : matmulPairs [3] [3] = [[(0, 0), (1, 1), (2, 2)]] := by decide

/-! ## 5. slices -/

/-- The model of `range(lo, hi, s)`: it has the elements `lo + i*s` (`i = 0, 1, …`) that lie before
`hi` in the direction of the step, and nothing for `s = 0`. -/
theorem pyRange_spec (lo hi s x : Int) :
    x ∈ pyRange lo hi s ↔ ∃ i : Nat, x = lo + (i : Int) * s ∧ ((0 < s ∧ x < hi) ∨ (s < 0 ∧ hi < x)) :=
  mem_pyRange

example : pyRange 1 8 3 = [1, 4, 7] ∧ pyRange 4 (-1) (-2) = [4, 2, 0] ∧ pyRange 3 3 1 = [] := by decide

/-- The `i`-th element of `range(lo, hi, s)` is `lo + i*s`: the first element is `lo` and consecutive
elements differ by `s`. -/
theorem pyRange_getElem? (lo hi s : Int) (i : Nat) (h : i < (pyRange lo hi s).length) :
    (pyRange lo hi s)[i]? = some (lo + (i : Int) * s) :=
  getElem?_pyRange (by simpa using h)

example : (pyRange 4 (-1) (-2))[2]? = some (4 + 2 * (-2)) := by decide

/-- The normalised start of a slice is what CPython's `PySlice_AdjustIndices` computes: a missing
start is the first position in the direction of the step; a negative one counts from the end; the
result is clipped to `[0, n]` for a positive and to `[-1, n-1]` for a negative step. -/
theorem sliceLo_spec (n : Nat) (v s : Int) :
    sliceLo n none s = (if s < 0 then (n : Int) - 1 else 0) ∧
    (0 < s → sliceLo n (some v) s = max 0 (min (n : Int) (if v < 0 then v + n else v))) ∧
    (s < 0 → sliceLo n (some v) s = max (-1) (min ((n : Int) - 1) (if v < 0 then v + n else v))) := by
  refine ⟨rfl, fun h => ?_, fun h => ?_⟩
  · rw [sliceLo_some, show decide (s < 0) = false by simp; omega, adjustBound_pos]
  · rw [sliceLo_some, show decide (s < 0) = true by simp; omega, adjustBound_neg]

example : sliceLo 5 (some (-2)) 1 = 3 ∧ sliceLo 5 (some 9) (-1) = 4 ∧ sliceLo 5 (some (-9)) (-1) = -1 := by decide

/-- The normalised stop of a slice, likewise (a missing stop is one past the last position in the
direction of the step). -/
theorem sliceHi_spec (n : Nat) (v s : Int) :
    sliceHi n none s = (if s < 0 then -1 else (n : Int)) ∧
    (0 < s → sliceHi n (some v) s = max 0 (min (n : Int) (if v < 0 then v + n else v))) ∧
    (s < 0 → sliceHi n (some v) s = max (-1) (min ((n : Int) - 1) (if v < 0 then v + n else v))) := by
  refine ⟨rfl, fun h => ?_, fun h => ?_⟩
  · rw [sliceHi_some, show decide (s < 0) = false by simp; omega, adjustBound_pos]
  · rw [sliceHi_some, show decide (s < 0) = true by simp; omega, adjustBound_neg]

example : sliceHi 5 (some (-1)) 2 = 4 ∧ sliceHi 5 none (-1) = -1 := by decide

/-- Every position selected by a slice of an axis of length `n` is below `n`. -/
theorem sliceIdx_lt (n : Nat) (start stop step : Option Int) :
    ∀ x ∈ sliceIdx n start stop step, x < n := by
  intro x hx
  simp only [sliceIdx, mem_map] at hx
  obtain ⟨y, hy, rfl⟩ := hx
  have := pyRange_slice_bounds n start stop _ y hy
  omega

example : sliceIdx 5 none (some (-1)) (some 2) = [0, 2] := by decide

/-- `sliceIdx` is exactly Python's `range` over the normalised bounds (no information is lost by
returning natural numbers). -/
theorem sliceIdx_eq_pyRange (n : Nat) (start stop step : Option Int) :
    (sliceIdx n start stop step).map Int.ofNat =
      pyRange (sliceLo n start (step.getD 1)) (sliceHi n stop (step.getD 1)) (step.getD 1) := by
  simp only [sliceIdx, map_map]
  conv => rhs; rw [← map_id (pyRange _ _ _)]
  apply map_congr_left
  intro y hy
  have := pyRange_slice_bounds n start stop _ y hy
  simp only [Function.comp_apply, id_eq]
  exact Int.toNat_of_nonneg this.1

example : (sliceIdx 5 (some (-1)) none (some (-2))).map Int.ofNat = pyRange 4 (-1) (-2) := by decide

/-- Full characterisation of a slice: with `s` the step (1 if missing) and `lo`, `hi` the
normalised bounds, (a) the `i`-th selected position is `lo + i*s` (so the first one is the normalised
start and consecutive ones differ by `s`), and (b) a position is selected iff it is `lo + i*s` for
some `i` and lies before `hi` in the direction of the step. A zero step selects nothing. -/
theorem sliceIdx_spec (n : Nat) (start stop step : Option Int) :
    (∀ i, i < (sliceIdx n start stop step).length →
      ∃ x, (sliceIdx n start stop step)[i]? = some x ∧
        (x : Int) = sliceLo n start (step.getD 1) + (i : Int) * step.getD 1) ∧
    (∀ x : Nat, x ∈ sliceIdx n start stop step ↔
      ∃ i : Nat, (x : Int) = sliceLo n start (step.getD 1) + (i : Int) * step.getD 1 ∧
        ((0 < step.getD 1 ∧ (x : Int) < sliceHi n stop (step.getD 1)) ∨
         (step.getD 1 < 0 ∧ sliceHi n stop (step.getD 1) < (x : Int)))) := by
  have he := sliceIdx_eq_pyRange n start stop step
  constructor
  · intro i hi
    have hlen : i < (pyRange (sliceLo n start (step.getD 1)) (sliceHi n stop (step.getD 1)) (step.getD 1)).length := by
      rw [← he]; simpa using hi
    have h1 := pyRange_getElem? _ _ _ i hlen
    rw [← he, getElem?_map] at h1
    obtain ⟨x, hx, hx'⟩ := Option.map_eq_some_iff.1 h1
    exact ⟨x, hx, hx'⟩
  · intro x
    rw [← mem_pyRange, ← he, mem_map]
    constructor
    · intro h; exact ⟨x, h, rfl⟩
    · rintro ⟨y, hy, hxy⟩
      have : y = x := by exact Int.ofNat_inj.1 hxy
      exact this ▸ hy

example : sliceIdx 7 (some 5) (some (-7)) (some (-2)) = [5, 3, 1] ∧ sliceIdx 7 none none (some 0) = [] := by decide

/-! ## 6. axis sums -/

/-- A negative axis counts from the end; anything outside `[-rank, rank)` is rejected. -/
theorem normAxis_spec (rank : Nat) (axis : Int) (k : Nat) :
    normAxis rank axis = some k ↔ k < rank ∧ ((axis : Int) = k ∨ (axis : Int) = (k : Int) - rank) := by
  unfold normAxis
  split
  · simp only [Option.some.injEq]; omega
  · split
    · simp only [Option.some.injEq]; omega
    · simp only [reduceCtorEq, false_iff]; omega

example : normAxis 3 (-1) = some 2 ∧ normAxis 3 2 = some 2 ∧ normAxis 3 3 = none ∧ normAxis 3 (-4) = none := by
  decide

/-- Flat form of the axis sum: for an array of shape `pre ++ [d] ++ post` summed over the axis of
length `d`, output element `o = p * size post + q` adds up the `d` positions
`p * (d * size post) + j * size post + q`, `j < d`, i.e. the elements `a[p…, j, q…]`. -/
theorem sumAxisGroups_flat (pre post : List Nat) (d : Nat) :
    sumAxisGroups (pre ++ d :: post) pre.length =
      (range (size pre * size post)).map fun o =>
        (range d).map fun j => (o / size post) * (d * size post) + j * size post + o % size post :=
  sumAxisGroups_append pre post d

example : sumAxisGroups [2, 3, 2] 1 = [[0, 2, 4], [1, 3, 5], [6, 8, 10], [7, 9, 11]] := by decide

/-- The groups of `a.sum(axis)` partition the positions of `a`: they are pairwise disjoint, their
concatenation is a permutation of all flat positions, each group has `shape[axis]` members, and there
is one group per element of the result. -/
theorem sumAxisGroups_partition (shape : List Nat) (axis : Nat) (h : axis < shape.length) :
    (sumAxisGroups shape axis).Pairwise List.Disjoint ∧
    (sumAxisGroups shape axis).flatten ~ range (size shape) ∧
    (∀ g ∈ sumAxisGroups shape axis, g.length = shape.getD axis 0) ∧
    (sumAxisGroups shape axis).length = size (shape.eraseIdx axis) := by
  refine ⟨?_, ?_, ?_, ?_⟩
  · obtain ⟨hs, hl⟩ := shape_split h
    have := (sumAxis_flat_partition (size (shape.take axis)) (shape.getD axis 0) (size (shape.drop (axis + 1)))).1
    rw [← sumAxisGroups_append, hl, ← hs] at this
    exact this
  · obtain ⟨hs, hl⟩ := shape_split h
    have := (sumAxis_flat_partition (size (shape.take axis)) (shape.getD axis 0) (size (shape.drop (axis + 1)))).2
    rw [← sumAxisGroups_append, hl, ← hs] at this
    have e : size shape = size (shape.take axis) * shape.getD axis 0 * size (shape.drop (axis + 1)) := by
      conv => lhs; rw [hs]
      rw [size_append, size_cons, Nat.mul_assoc]
    rw [e]; exact this
  · intro g hg
    simp only [sumAxisGroups, mem_map] at hg
    obtain ⟨o, _, rfl⟩ := hg
    simp
  · simp [sumAxisGroups]

example : (sumAxisGroups [2, 3] 1) = [[0, 1, 2], [3, 4, 5]] ∧ (sumAxisGroups [2, 3] 0) = [[0, 3], [1, 4], [2, 5]] := by
  decide

/-! ## 7. diagonals -/

/-- `np.diag(a, k)` of a `rows × cols` array reads exactly the positions `(i, j)` with `j - i = k`:
a flat position is listed iff it is `i*cols + j` for such a pair inside the array. -/
theorem diagIdx_spec (rows cols : Nat) (k : Int) (x : Nat) :
    x ∈ diagIdx rows cols k ↔ ∃ i j, i < rows ∧ j < cols ∧ (j : Int) - i = k ∧ x = i * cols + j :=
  mem_diagIdx

example : diagIdx 3 2 (-1) = [2, 5] ∧ diagIdx 3 4 1 = [1, 6, 11] ∧ diagIdx 2 2 5 = [] := by decide

/-- The diagonal is listed in increasing row order: the `t`-th entry is at row `t + max(0,-k)` and
column `t + max(0,k)`, there are `min (rows - max(0,-k)) (cols - max(0,k))` entries, and the flat
positions are strictly increasing (so together with `diagIdx_spec` the list is determined). -/
theorem diagIdx_order (rows cols : Nat) (k : Int) :
    diagIdx rows cols k = ((range (diagIdx rows cols k).length).map fun t =>
      (t + (-k).toNat) * cols + (t + k.toNat)) ∧
    (diagIdx rows cols k).length = min (rows - (-k).toNat) (cols - k.toNat) ∧
    (diagIdx rows cols k).Pairwise (· < ·) :=
  ⟨diagIdx_eq rows cols k, length_diagIdx rows cols k, diagIdx_sorted rows cols k⟩

example : diagIdx 4 3 (-2) = [(0 + 2) * 3 + 0, (1 + 2) * 3 + 1] := by decide

/-! ## 8. extras: `swapaxes(-1,-2)` and `concatenate` -/

/-- `np.swapaxes(a, -1, -2)` for `a` of shape `b ++ [m,n]` has shape `b ++ [n,m]`, and its element
`(β, c, r)` is the element `(β, r, c)` of `a`. -/
theorem swapLastSrc_spec (b : List Nat) (m n β r c : Nat) (hβ : β < size b) (hr : r < m) (hc : c < n) :
    swapLast (b ++ [m, n]) = b ++ [n, m] ∧
    swapLastSrc (b ++ [m, n]) (β * (n * m) + c * m + r) = β * (m * n) + r * n + c :=
  ⟨swapLast_append_two b m n, swapLastSrc_append_two hβ hr hc⟩

example : swapLast [2, 3, 4] = [2, 4, 3] ∧ swapLastSrc [2, 3, 4] (1 * 12 + 3 * 3 + 2) = 1 * 12 + 2 * 4 + 3 := by
  decide

/-- `np.concatenate((a, b), axis)` for shapes `pre ++ [da] ++ post` and `pre ++ [db] ++ post`: the
result has `da + db` along the axis, and its element `(p, i, q)` is `a[p, i, q]` for `i < da` and
`b[p, i - da, q]` otherwise. -/
theorem concatSrc_spec (pre post : List Nat) (da db p i q : Nat) (hp : p < size pre) (hi : i < da + db)
    (hq : q < size post) :
    concatShape (pre ++ da :: post) (pre ++ db :: post) pre.length = some (pre ++ (da + db) :: post) ∧
    (concatSrc (pre ++ da :: post) (pre ++ db :: post) pre.length)[p * ((da + db) * size post) + i * size post + q]? =
      some (if i < da then (false, p * (da * size post) + i * size post + q)
            else (true, p * (db * size post) + (i - da) * size post + q)) :=
  ⟨concatShape_append pre post da db, concatSrc_getElem? hp hi hq⟩

example : concatShape [2, 3] [1, 3] 0 = some [3, 3] ∧
    concatSrc [2, 3] [1, 3] 0 =
      [(false, 0), (false, 1), (false, 2), (false, 3), (false, 4), (false, 5), (true, 0), (true, 1), (true, 2)] ∧
    concatShape [2, 3] [1, 2] 0 = none := by decide

end RsomeV.C05
