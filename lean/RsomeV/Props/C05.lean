namespace RsomeV.C05
end RsomeV.C05
