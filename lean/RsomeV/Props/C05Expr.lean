import RsomeV.L.AffExpr

/-! C05 (expression level): the affine array rsome builds for an array expression evaluates to NumPy's
value of the expression.

Model: `RsomeV/M/AffExpr.lean` (`Expr`, `Expr.shape?`, `Expr.compile`, `Expr.denote`), tied to the real code by
`test_aff_expr.py` (random trees built through the rsome API, `linear` / `const` compared entry by entry with
`Expr.compile`).  Per-operator lemmas: `RsomeV/L/AffExpr.lean`; index-map theorems: `RsomeV/Props/C05.lean`. -/

namespace RsomeV.C05Expr
open List RsomeV.Nd RsomeV.AffE

variable {K : Type} [CommRing K]

/-! ## 1. compile-correctness -/

mutual
/-- structural induction: if compilation succeeds, the denotation exists and the compiled array represents it -/
theorem compile_rep (x : ℕ → K) (n : ℕ) :
    ∀ (e : Expr K) (arr : AffArr K), e.compile n = some arr → ∃ v, e.denote x = some v ∧ Rep x n arr v
  | .var first s, arr, h => by
    simp only [Expr.compile] at h
    simpa only [Expr.denote] using rep_var h
  | .const s data, arr, h => by
    simp only [Expr.compile] at h
    simpa only [Expr.denote] using rep_const h
  | .neg e, arr, h => by
    simp only [Expr.compile] at h
    obtain ⟨a, ha, rfl⟩ := Option.map_eq_some_iff.1 h
    obtain ⟨v, hv, hr⟩ := compile_rep x n e a ha
    exact ⟨Val.neg v, by simp only [Expr.denote, hv, Option.map_some], rep_neg hr⟩
  | .add a b, arr, h => by
    simp only [Expr.compile] at h
    obtain ⟨a', ha, h⟩ := Option.bind_eq_some_iff.1 h
    obtain ⟨b', hb, h⟩ := Option.bind_eq_some_iff.1 h
    obtain ⟨va, hva, hra⟩ := compile_rep x n a a' ha
    obtain ⟨vb, hvb, hrb⟩ := compile_rep x n b b' hb
    simpa only [Expr.denote, hva, hvb, Option.bind_some] using rep_add hra hrb h
  | .sub a b, arr, h => by
    simp only [Expr.compile] at h
    obtain ⟨a', ha, h⟩ := Option.bind_eq_some_iff.1 h
    obtain ⟨b', hb, h⟩ := Option.bind_eq_some_iff.1 h
    obtain ⟨va, hva, hra⟩ := compile_rep x n a a' ha
    obtain ⟨vb, hvb, hrb⟩ := compile_rep x n b b' hb
    simpa only [Expr.denote, hva, hvb, Option.bind_some] using rep_sub hra hrb h
  | .mulc e cs c, arr, h => by
    simp only [Expr.compile] at h
    obtain ⟨a, ha, h⟩ := Option.bind_eq_some_iff.1 h
    obtain ⟨v, hv, hr⟩ := compile_rep x n e a ha
    simpa only [Expr.denote, hv, Option.bind_some] using (rep_mulc hr h).1
  | .rmulc cs c e, arr, h => by
    simp only [Expr.compile] at h
    obtain ⟨a, ha, h⟩ := Option.bind_eq_some_iff.1 h
    obtain ⟨v, hv, hr⟩ := compile_rep x n e a ha
    simpa only [Expr.denote, hv, Option.bind_some] using (rep_mulc hr h).2
  | .scale k e, arr, h => by
    simp only [Expr.compile] at h
    obtain ⟨a, ha, rfl⟩ := Option.map_eq_some_iff.1 h
    obtain ⟨v, hv, hr⟩ := compile_rep x n e a ha
    exact ⟨Val.scale k v, by simp only [Expr.denote, hv, Option.map_some], rep_scale k hr⟩
  | .matmulc e cs c, arr, h => by
    simp only [Expr.compile] at h
    obtain ⟨a, ha, h⟩ := Option.bind_eq_some_iff.1 h
    obtain ⟨v, hv, hr⟩ := compile_rep x n e a ha
    simpa only [Expr.denote, hv, Option.bind_some] using rep_matmulc hr h
  | .rmatmulc cs c e, arr, h => by
    simp only [Expr.compile] at h
    obtain ⟨a, ha, h⟩ := Option.bind_eq_some_iff.1 h
    obtain ⟨v, hv, hr⟩ := compile_rep x n e a ha
    simpa only [Expr.denote, hv, Option.bind_some] using rep_rmatmulc hr h
  | .getitem e items, arr, h => by
    simp only [Expr.compile] at h
    obtain ⟨a, ha, h⟩ := Option.bind_eq_some_iff.1 h
    obtain ⟨v, hv, hr⟩ := compile_rep x n e a ha
    simpa only [Expr.denote, hv, Option.bind_some] using rep_getitem hr h
  | .reshape e l, arr, h => by
    simp only [Expr.compile] at h
    obtain ⟨a, ha, h⟩ := Option.bind_eq_some_iff.1 h
    obtain ⟨v, hv, hr⟩ := compile_rep x n e a ha
    simpa only [Expr.denote, hv, Option.bind_some] using rep_reshape hr h
  | .T e, arr, h => by
    simp only [Expr.compile] at h
    obtain ⟨a, ha, rfl⟩ := Option.map_eq_some_iff.1 h
    obtain ⟨v, hv, hr⟩ := compile_rep x n e a ha
    exact ⟨Val.transpose v, by simp only [Expr.denote, hv, Option.map_some], rep_transpose hr⟩
  | .sum e, arr, h => by
    simp only [Expr.compile] at h
    obtain ⟨a, ha, rfl⟩ := Option.map_eq_some_iff.1 h
    obtain ⟨v, hv, hr⟩ := compile_rep x n e a ha
    exact ⟨Val.sumAll v, by simp only [Expr.denote, hv, Option.map_some], rep_sumAll hr⟩
  | .sumaxis e ax, arr, h => by
    simp only [Expr.compile] at h
    obtain ⟨a, ha, h⟩ := Option.bind_eq_some_iff.1 h
    obtain ⟨v, hv, hr⟩ := compile_rep x n e a ha
    simpa only [Expr.denote, hv, Option.bind_some] using rep_sumAxis hr h
  | .concat ax es, arr, h => by
    simp only [Expr.compile] at h
    obtain ⟨arrs, ha, h⟩ := Option.bind_eq_some_iff.1 h
    obtain ⟨vs, hvs, hr⟩ := compileList_rep x n es arrs ha
    simpa only [Expr.denote, hvs, Option.bind_some] using rep_concatN hr h
  | .diag e k, arr, h => by
    simp only [Expr.compile] at h
    obtain ⟨a, ha, h⟩ := Option.bind_eq_some_iff.1 h
    obtain ⟨v, hv, hr⟩ := compile_rep x n e a ha
    simpa only [Expr.denote, hv, Option.bind_some] using rep_diag hr h
/-- the same for the operand list of a `concat` -/
theorem compileList_rep (x : ℕ → K) (n : ℕ) :
    ∀ (es : List (Expr K)) (arrs : List (AffArr K)), Expr.compileList n es = some arrs →
      ∃ vs, Expr.denoteList x es = some vs ∧ Forall₂ (Rep x n) arrs vs
  | [], arrs, h => by
    simp only [Expr.compileList, Option.some.injEq] at h
    subst h
    exact ⟨[], by simp only [Expr.denoteList], Forall₂.nil⟩
  | e :: es, arrs, h => by
    simp only [Expr.compileList] at h
    obtain ⟨a, ha, h⟩ := Option.bind_eq_some_iff.1 h
    obtain ⟨r, hr, rfl⟩ := Option.map_eq_some_iff.1 h
    obtain ⟨v, hv, hrep⟩ := compile_rep x n e a ha
    obtain ⟨vs, hvs, hreps⟩ := compileList_rep x n es r hr
    exact ⟨v :: vs, by simp only [Expr.denoteList, hv, hvs, Option.bind_some, Option.map_some],
      Forall₂.cons hrep hreps⟩
end

/-- **Compile-correctness.**  If rsome's construction succeeds for the expression `e` (in a model with `n`
columns) and yields the affine array `arr`, then NumPy's meaning of `e` at any point `x` is defined, has the
shape of `arr`, and at every position inside the array it is the value of the affine form stored there:
`Σ_c linear[k, c] * x[c] + const[k]`. -/
theorem compile_correct (n : ℕ) (e : Expr K) (arr : AffArr K) (h : e.compile n = some arr) (x : ℕ → K) :
    ∃ v : ℕ → K, e.denote x = some (arr.shape, v) ∧ ∀ k, k < size arr.shape → v k = arr.eval x k := by
  obtain ⟨⟨s, v⟩, hv, _, hs, hk⟩ := compile_rep x n e arr h
  simp only at hs
  subst hs
  exact ⟨v, hv, hk⟩

/-- the compiled array has the `n` columns of the model -/
theorem compile_ncols (n : ℕ) (e : Expr K) (arr : AffArr K) (h : e.compile n = some arr) : arr.ncols = n := by
  obtain ⟨_, _, hn, _⟩ := compile_rep (fun _ => 0) n e arr h
  exact hn

/-! ## 2. shapes: compilation succeeds exactly where NumPy accepts -/

mutual
/-- compilation can only succeed when every variable block lies inside the `n` columns -/
theorem compile_varsBelow (n : ℕ) : ∀ (e : Expr K) (arr : AffArr K), e.compile n = some arr → e.VarsBelow n
  | .var first s, arr, h => by
    simp only [Expr.compile, AffArr.var] at h
    simp only [Expr.VarsBelow]
    split at h
    · assumption
    · simp at h
  | .const s data, arr, h => by simp only [Expr.VarsBelow]
  | .neg e, arr, h => by
    simp only [Expr.compile] at h
    obtain ⟨a, ha, _⟩ := Option.map_eq_some_iff.1 h
    simpa only [Expr.VarsBelow] using compile_varsBelow n e a ha
  | .add a b, arr, h => by
    simp only [Expr.compile] at h
    obtain ⟨a', ha, h⟩ := Option.bind_eq_some_iff.1 h
    obtain ⟨b', hb, h⟩ := Option.bind_eq_some_iff.1 h
    simpa only [Expr.VarsBelow] using And.intro (compile_varsBelow n a a' ha) (compile_varsBelow n b b' hb)
  | .sub a b, arr, h => by
    simp only [Expr.compile] at h
    obtain ⟨a', ha, h⟩ := Option.bind_eq_some_iff.1 h
    obtain ⟨b', hb, h⟩ := Option.bind_eq_some_iff.1 h
    simpa only [Expr.VarsBelow] using And.intro (compile_varsBelow n a a' ha) (compile_varsBelow n b b' hb)
  | .mulc e cs c, arr, h => by
    simp only [Expr.compile] at h
    obtain ⟨a, ha, _⟩ := Option.bind_eq_some_iff.1 h
    simpa only [Expr.VarsBelow] using compile_varsBelow n e a ha
  | .rmulc cs c e, arr, h => by
    simp only [Expr.compile] at h
    obtain ⟨a, ha, _⟩ := Option.bind_eq_some_iff.1 h
    simpa only [Expr.VarsBelow] using compile_varsBelow n e a ha
  | .scale k e, arr, h => by
    simp only [Expr.compile] at h
    obtain ⟨a, ha, _⟩ := Option.map_eq_some_iff.1 h
    simpa only [Expr.VarsBelow] using compile_varsBelow n e a ha
  | .matmulc e cs c, arr, h => by
    simp only [Expr.compile] at h
    obtain ⟨a, ha, _⟩ := Option.bind_eq_some_iff.1 h
    simpa only [Expr.VarsBelow] using compile_varsBelow n e a ha
  | .rmatmulc cs c e, arr, h => by
    simp only [Expr.compile] at h
    obtain ⟨a, ha, _⟩ := Option.bind_eq_some_iff.1 h
    simpa only [Expr.VarsBelow] using compile_varsBelow n e a ha
  | .getitem e items, arr, h => by
    simp only [Expr.compile] at h
    obtain ⟨a, ha, _⟩ := Option.bind_eq_some_iff.1 h
    simpa only [Expr.VarsBelow] using compile_varsBelow n e a ha
  | .reshape e l, arr, h => by
    simp only [Expr.compile] at h
    obtain ⟨a, ha, _⟩ := Option.bind_eq_some_iff.1 h
    simpa only [Expr.VarsBelow] using compile_varsBelow n e a ha
  | .T e, arr, h => by
    simp only [Expr.compile] at h
    obtain ⟨a, ha, _⟩ := Option.map_eq_some_iff.1 h
    simpa only [Expr.VarsBelow] using compile_varsBelow n e a ha
  | .sum e, arr, h => by
    simp only [Expr.compile] at h
    obtain ⟨a, ha, _⟩ := Option.map_eq_some_iff.1 h
    simpa only [Expr.VarsBelow] using compile_varsBelow n e a ha
  | .sumaxis e ax, arr, h => by
    simp only [Expr.compile] at h
    obtain ⟨a, ha, _⟩ := Option.bind_eq_some_iff.1 h
    simpa only [Expr.VarsBelow] using compile_varsBelow n e a ha
  | .concat ax es, arr, h => by
    simp only [Expr.compile] at h
    obtain ⟨arrs, ha, _⟩ := Option.bind_eq_some_iff.1 h
    simpa only [Expr.VarsBelow] using compileList_varsBelow n es arrs ha
  | .diag e k, arr, h => by
    simp only [Expr.compile] at h
    obtain ⟨a, ha, _⟩ := Option.bind_eq_some_iff.1 h
    simpa only [Expr.VarsBelow] using compile_varsBelow n e a ha
theorem compileList_varsBelow (n : ℕ) :
    ∀ (es : List (Expr K)) (arrs : List (AffArr K)), Expr.compileList n es = some arrs → Expr.VarsBelowList n es
  | [], arrs, h => by simp only [Expr.VarsBelowList]
  | e :: es, arrs, h => by
    simp only [Expr.compileList] at h
    obtain ⟨a, ha, h⟩ := Option.bind_eq_some_iff.1 h
    obtain ⟨r, hr, _⟩ := Option.map_eq_some_iff.1 h
    simpa only [Expr.VarsBelowList] using And.intro (compile_varsBelow n e a ha) (compileList_varsBelow n es r hr)
end

mutual
/-- with all variable blocks inside the `n` columns, compilation fails exactly where `shape?` fails and
otherwise yields an array of that shape -/
theorem compile_shape_eq (n : ℕ) : ∀ e : Expr K, e.VarsBelow n → (e.compile n).map AffArr.shape = e.shape?
  | .var first s, h => by
    simp only [Expr.VarsBelow] at h
    simp only [Expr.compile, Expr.shape?, AffArr.var_shape, h, if_true]
  | .const s data, _ => by simp only [Expr.compile, Expr.shape?, AffArr.const_shape]
  | .neg e, h => by
    have ih := compile_shape_eq n e (by simpa only [Expr.VarsBelow] using h)
    simp only [Expr.compile, Expr.shape?, ← ih]
    cases e.compile n <;> rfl
  | .add a b, h => by
    simp only [Expr.VarsBelow] at h
    have iha := compile_shape_eq n a h.1
    have ihb := compile_shape_eq n b h.2
    simp only [Expr.compile, Expr.shape?, ← iha, ← ihb]
    cases a.compile n <;> cases b.compile n <;> simp [AffArr.add_shape]
  | .sub a b, h => by
    simp only [Expr.VarsBelow] at h
    have iha := compile_shape_eq n a h.1
    have ihb := compile_shape_eq n b h.2
    simp only [Expr.compile, Expr.shape?, ← iha, ← ihb]
    cases a.compile n <;> cases b.compile n <;> simp [AffArr.sub_shape]
  | .mulc e cs c, h => by
    have ih := compile_shape_eq n e (by simpa only [Expr.VarsBelow] using h)
    simp only [Expr.compile, Expr.shape?, ← ih]
    cases e.compile n <;> simp [AffArr.mulc_shape]
  | .rmulc cs c e, h => by
    have ih := compile_shape_eq n e (by simpa only [Expr.VarsBelow] using h)
    simp only [Expr.compile, Expr.shape?, ← ih]
    cases e.compile n <;> simp [AffArr.mulc_shape]
  | .scale k e, h => by
    have ih := compile_shape_eq n e (by simpa only [Expr.VarsBelow] using h)
    simp only [Expr.compile, Expr.shape?, ← ih]
    cases e.compile n <;> rfl
  | .matmulc e cs c, h => by
    have ih := compile_shape_eq n e (by simpa only [Expr.VarsBelow] using h)
    simp only [Expr.compile, Expr.shape?, ← ih]
    cases e.compile n <;> simp [AffArr.matmulc_shape]
  | .rmatmulc cs c e, h => by
    have ih := compile_shape_eq n e (by simpa only [Expr.VarsBelow] using h)
    simp only [Expr.compile, Expr.shape?, ← ih]
    cases e.compile n <;> simp [AffArr.rmatmulc_shape]
  | .getitem e items, h => by
    have ih := compile_shape_eq n e (by simpa only [Expr.VarsBelow] using h)
    simp only [Expr.compile, Expr.shape?, ← ih]
    cases e.compile n <;> simp [AffArr.getitem_shape]
  | .reshape e l, h => by
    have ih := compile_shape_eq n e (by simpa only [Expr.VarsBelow] using h)
    simp only [Expr.compile, Expr.shape?, ← ih]
    cases e.compile n <;> simp [AffArr.reshape_shape]
  | .T e, h => by
    have ih := compile_shape_eq n e (by simpa only [Expr.VarsBelow] using h)
    simp only [Expr.compile, Expr.shape?, ← ih]
    cases e.compile n <;> rfl
  | .sum e, h => by
    have ih := compile_shape_eq n e (by simpa only [Expr.VarsBelow] using h)
    simp only [Expr.compile, Expr.shape?, ← ih]
    cases e.compile n <;> rfl
  | .sumaxis e ax, h => by
    have ih := compile_shape_eq n e (by simpa only [Expr.VarsBelow] using h)
    simp only [Expr.compile, Expr.shape?, ← ih]
    cases e.compile n <;> simp [AffArr.sumAxis_shape]
  | .concat ax es, h => by
    have ih := compileList_shape_eq n es (by simpa only [Expr.VarsBelow] using h)
    simp only [Expr.compile, Expr.shape?, ← ih]
    cases Expr.compileList n es <;> simp [AffArr.concatN_shape]
  | .diag e k, h => by
    have ih := compile_shape_eq n e (by simpa only [Expr.VarsBelow] using h)
    simp only [Expr.compile, Expr.shape?, ← ih]
    cases e.compile n <;> simp [AffArr.diag_shape]
theorem compileList_shape_eq (n : ℕ) :
    ∀ es : List (Expr K), Expr.VarsBelowList n es →
      (Expr.compileList n es).map (fun arrs => arrs.map AffArr.shape) = Expr.shapeList es
  | [], _ => by simp only [Expr.compileList, Expr.shapeList, Option.map_some, map_nil]
  | e :: es, h => by
    simp only [Expr.VarsBelowList] at h
    have ih1 := compile_shape_eq n e h.1
    have ih2 := compileList_shape_eq n es h.2
    simp only [Expr.compileList, Expr.shapeList, ← ih1, ← ih2]
    cases e.compile n <;> cases Expr.compileList n es <;> simp
end

mutual
/-- the denotation is defined exactly where `shape?` is, with that shape -/
theorem denote_shape (x : ℕ → K) : ∀ e : Expr K, (e.denote x).map Prod.fst = e.shape?
  | .var first s => by
    simp only [Expr.denote, Expr.shape?]
    cases nonEmpty s <;> rfl
  | .const s data => by
    simp only [Expr.denote, Expr.shape?]
    cases nonEmpty s <;> rfl
  | .neg e => by
    have ih := denote_shape x e
    simp only [Expr.denote, Expr.shape?, ← ih]
    cases e.denote x <;> rfl
  | .add a b => by
    have iha := denote_shape x a
    have ihb := denote_shape x b
    simp only [Expr.denote, Expr.shape?, ← iha, ← ihb]
    cases a.denote x <;> cases b.denote x <;> simp [Val.add_shape]
  | .sub a b => by
    have iha := denote_shape x a
    have ihb := denote_shape x b
    simp only [Expr.denote, Expr.shape?, ← iha, ← ihb]
    cases a.denote x <;> cases b.denote x <;> simp [Val.sub_shape]
  | .mulc e cs c => by
    have ih := denote_shape x e
    simp only [Expr.denote, Expr.shape?, ← ih]
    cases e.denote x <;> simp [Val.mulc_shape]
  | .rmulc cs c e => by
    have ih := denote_shape x e
    simp only [Expr.denote, Expr.shape?, ← ih]
    cases e.denote x <;> simp [Val.rmulc_shape]
  | .scale k e => by
    have ih := denote_shape x e
    simp only [Expr.denote, Expr.shape?, ← ih]
    cases e.denote x <;> rfl
  | .matmulc e cs c => by
    have ih := denote_shape x e
    simp only [Expr.denote, Expr.shape?, ← ih]
    cases e.denote x <;> simp [Val.matmulc_shape]
  | .rmatmulc cs c e => by
    have ih := denote_shape x e
    simp only [Expr.denote, Expr.shape?, ← ih]
    cases e.denote x <;> simp [Val.rmatmulc_shape]
  | .getitem e items => by
    have ih := denote_shape x e
    simp only [Expr.denote, Expr.shape?, ← ih]
    cases e.denote x <;> simp [Val.getitem_shape]
  | .reshape e l => by
    have ih := denote_shape x e
    simp only [Expr.denote, Expr.shape?, ← ih]
    cases e.denote x <;> simp [Val.reshape_shape]
  | .T e => by
    have ih := denote_shape x e
    simp only [Expr.denote, Expr.shape?, ← ih]
    cases e.denote x <;> rfl
  | .sum e => by
    have ih := denote_shape x e
    simp only [Expr.denote, Expr.shape?, ← ih]
    cases e.denote x <;> rfl
  | .sumaxis e ax => by
    have ih := denote_shape x e
    simp only [Expr.denote, Expr.shape?, ← ih]
    cases e.denote x <;> simp [Val.sumAxis_shape]
  | .concat ax es => by
    have ih := denoteList_shape x es
    simp only [Expr.denote, Expr.shape?, ← ih]
    cases Expr.denoteList x es <;> simp [Val.concatN_shape]
  | .diag e k => by
    have ih := denote_shape x e
    simp only [Expr.denote, Expr.shape?, ← ih]
    cases e.denote x <;> simp [Val.diag_shape]
theorem denoteList_shape (x : ℕ → K) :
    ∀ es : List (Expr K), (Expr.denoteList x es).map (fun vs => vs.map Prod.fst) = Expr.shapeList es
  | [] => by simp only [Expr.denoteList, Expr.shapeList, Option.map_some, map_nil]
  | e :: es => by
    have ih1 := denote_shape x e
    have ih2 := denoteList_shape x es
    simp only [Expr.denoteList, Expr.shapeList, ← ih1, ← ih2]
    cases e.denote x <;> cases Expr.denoteList x es <;> simp
end

/-- **Shape agreement.**  Compilation in a model with `n` columns succeeds if and only if NumPy accepts the
expression (`shape?` is defined: every operator gets operands of admissible, non-empty shapes) and all variable
blocks lie inside the `n` columns; the compiled array then has NumPy's shape. -/
theorem compile_shape (n : ℕ) (e : Expr K) :
    (∀ arr, e.compile n = some arr → e.shape? = some arr.shape ∧ e.VarsBelow n) ∧
    (∀ s, e.shape? = some s → e.VarsBelow n → ∃ arr, e.compile n = some arr ∧ arr.shape = s) := by
  constructor
  · intro arr h
    have hv := compile_varsBelow n e arr h
    have := compile_shape_eq n e hv
    rw [h] at this
    exact ⟨this.symm, hv⟩
  · intro s hs hv
    have := compile_shape_eq n e hv
    rw [hs] at this
    obtain ⟨arr, h1, h2⟩ := Option.map_eq_some_iff.1 this
    exact ⟨arr, h1, h2⟩

theorem compile_isSome_iff (n : ℕ) (e : Expr K) :
    (e.compile n).isSome ↔ e.shape?.isSome ∧ e.VarsBelow n := by
  constructor
  · intro h
    obtain ⟨arr, ha⟩ := Option.isSome_iff_exists.1 h
    obtain ⟨h1, h2⟩ := (compile_shape n e).1 arr ha
    exact ⟨by rw [h1]; rfl, h2⟩
  · rintro ⟨h1, h2⟩
    obtain ⟨s, hs⟩ := Option.isSome_iff_exists.1 h1
    obtain ⟨arr, ha, _⟩ := (compile_shape n e).2 s hs h2
    rw [ha]; rfl

/-- the denotation is defined if and only if NumPy accepts the expression -/
theorem denote_isSome_iff (x : ℕ → K) (e : Expr K) : (e.denote x).isSome ↔ e.shape?.isSome := by
  rw [← denote_shape x e]
  cases e.denote x <;> rfl

/-! ## 3. corollaries -/

/-- what a compiled entry is: an affine form in `x` (by definition of `eval`) -/
theorem compile_linear (arr : AffArr K) (x : ℕ → K) (k : ℕ) :
    arr.eval x k = (∑ c ∈ Finset.range arr.ncols, arr.coef k c * x c) + arr.cst k := rfl

/-- an affine array maps affine combinations of points to the affine combinations of the values -/
theorem eval_affine (arr : AffArr K) (a b : K) (hab : a + b = 1) (x y : ℕ → K) (k : ℕ) :
    arr.eval (fun c => a * x c + b * y c) k = a * arr.eval x k + b * arr.eval y k := by
  simp only [AffArr.eval, mul_add, Finset.sum_add_distrib, Finset.mul_sum]
  have e1 : ∀ c, arr.coef k c * (a * x c) = a * (arr.coef k c * x c) := fun c => by ring
  have e2 : ∀ c, arr.coef k c * (b * y c) = b * (arr.coef k c * y c) := fun c => by ring
  simp only [e1, e2]
  have : arr.cst k = a * arr.cst k + b * arr.cst k := by rw [← add_mul, hab, one_mul]
  conv => lhs; rw [this]
  ring

/-- **The meaning of every compilable expression is affine in the variables**: NumPy's value of the expression
at an affine combination of two points is the same combination of its values at the points (position by
position). -/
theorem denote_affine (n : ℕ) (e : Expr K) (arr : AffArr K) (h : e.compile n = some arr) (a b : K)
    (hab : a + b = 1) (x y : ℕ → K) :
    ∃ vx vy vz : ℕ → K, e.denote x = some (arr.shape, vx) ∧ e.denote y = some (arr.shape, vy) ∧
      e.denote (fun c => a * x c + b * y c) = some (arr.shape, vz) ∧
      ∀ k, k < size arr.shape → vz k = a * vx k + b * vy k := by
  obtain ⟨vx, hx, hx'⟩ := compile_correct n e arr h x
  obtain ⟨vy, hy, hy'⟩ := compile_correct n e arr h y
  obtain ⟨vz, hz, hz'⟩ := compile_correct n e arr h (fun c => a * x c + b * y c)
  exact ⟨vx, vy, vz, hx, hy, hz, fun k hk => by rw [hz' k hk, hx' k hk, hy' k hk, eval_affine arr a b hab]⟩

/-! ## 4. concrete expressions of depth 4 -/

/-- `((x[::-1] + [1,2,3]) @ [[1,0],[0,1],[2,1]]).sum(axis=-1)` for a 2×3 block `x` in columns 0..5 -/
def ex1 : Expr ℤ :=
  .sumaxis (.matmulc (.add (.getitem (.var 0 [2, 3]) [.slice none none (some (-1))])
      (.const [3] fun i => [1, 2, 3].getD i 0)) [3, 2] fun i => [1, 0, 0, 1, 2, 1].getD i 0) (-1)

set_option maxRecDepth 100000 in
/-- entry 0 is `x[1,0] + x[1,1] + 3 x[1,2] + 12`, entry 1 is `x[0,0] + x[0,1] + 3 x[0,2] + 12` -/
example : (ex1.compile 6).map (fun a => (a.shape, (List.range 2).map fun k => ((List.range 6).map (a.coef k), a.cst k))) =
    some ([2], [([0, 0, 0, 1, 1, 3], 12), ([1, 1, 3, 0, 0, 0], 12)]) := by decide

set_option maxRecDepth 100000 in
/-- NumPy's value at `x = [[1,2,3],[4,5,6]]` -/
example : (ex1.denote fun c => (c : ℤ) + 1).map (fun v => (v.1, (List.range 2).map v.2)) = some ([2], [39, 24]) := by
  decide

/-- `diag(concat([(x * [4, 2, -1]).T, (3 * y).reshape(1, -1), [[5, 7]]], axis=0), -2)` for a 2×3 block `x` in
columns 1..6 and a block `y` of length 2 in columns 7, 8 -/
def ex2 : Expr ℤ :=
  .diag (.concat 0 [.T (.mulc (.var 1 [2, 3]) [3] fun i => [4, 2, -1].getD i 0),
    .reshape (.scale 3 (.var 7 [2])) [1, -1], .const [1, 2] fun i => [5, 7].getD i 0]) (-2)

set_option maxRecDepth 100000 in
/-- entry 0 is `-x[0,2]` (column 3), entry 1 is `3 y[1]` (column 8) -/
example : (ex2.compile 9).map (fun a => (a.shape, (List.range 2).map fun k => ((List.range 9).map (a.coef k), a.cst k))) =
    some ([2], [([0, 0, 0, -1, 0, 0, 0, 0, 0], 0), ([0, 0, 0, 0, 0, 0, 0, 0, 3], 0)]) := by decide

/-- rejected: the operands of `+` do not broadcast (`[2,3]` and `[2]`); an empty selection; a block outside the
columns -/
example : (Expr.add (.var 0 [2, 3]) (.var 6 [2]) : Expr ℤ).shape? = none ∧
    (Expr.getitem (.var 0 [2, 3]) [.slice (some 1) (some 1) none] : Expr ℤ).shape? = none ∧
    ((Expr.var 0 [2, 3] : Expr ℤ).compile 5).isSome = false := by decide

end RsomeV.C05Expr
