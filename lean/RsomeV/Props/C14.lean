import RsomeV.M.DualCert
import RsomeV.L.DualCert
import Mathlib.Tactic.LinearCombination
import Mathlib.Tactic.IntervalCases
import Mathlib.Tactic.NormNum
import Mathlib.Algebra.BigOperators.Intervals

/-! # C14 — `dual()` returns valid shadow prices of the user's constraints

Model: `RsomeV/M/DualCert.lean` (`UserLP`, `UserLP.compile`, `UserLP.ciarray`, `dualLin`,
`dualBound`, `KKT`, `UserCert`); lemmas: `RsomeV/L/DualCert.lean`. -/

set_option linter.unusedSectionVars false
set_option linter.unusedSimpArgs false

namespace RsomeV.C14
open RsomeV.DualCert Finset

variable {K : Type} [Field K] [LinearOrder K] [IsStrictOrderedRing K]

/-- **`dual_transfer`**.  Let `(π, λU, λL)` be a KKT multiplier (scipy's convention: `π ≤ 0` on `<=`
rows, `λU ≤ 0`, `λL ≥ 0`, stationarity in every column, value identity, zero multipliers on
infinite bounds) of the program `do_math()` compiles from the user's LP, with optimal value `v`.
Under the side condition "at most one upper and one lower bound constraint per entry" the numbers
`d k r = sign·π (offset k + r)`, `dU j = sign·λU j`, `dL j = sign·λL j` form a dual certificate of the
*user's* model for the value `sign·v` (= the user's optimal objective, `objective_sense` of C12):
gradient identity on every user column, value identity, and signs following the direction of
optimisation.  Key step (`UserLP.epi_multiplier`): stationarity in column `x0` forces the multiplier
of the epigraph row to be `-1`. -/
theorem dual_transfer (U : UserLP K) (hwf : U.WF) (hone : OneBound U.bounds)
    {π lamU lamL : ℕ → K} {v : K} (hk : KKT U.compile π lamU lamL v) :
    UserCert U (fun k r => U.sign * π (U.offset k + r)) (fun j => U.sign * lamU j)
      (fun j => U.sign * lamL j) (U.sign * v) := by
  have hepi := U.epi_multiplier hwf hone hk
  have hs := U.sign_mul_self
  have hnc : U.compile.nc = U.n + 1 := rfl
  have hpull : ∀ g : ℕ → ℕ → K,
      ∑ k ∈ range U.blocks.length, ∑ r ∈ range (U.blk k).m, U.sign * π (U.offset k + r) * g k r =
      U.sign * ∑ k ∈ range U.blocks.length, ∑ r ∈ range (U.blk k).m, π (U.offset k + r) * g k r := by
    intro g; simp only [Finset.mul_sum, mul_assoc]
  have hpullJ : ∀ (lam : ℕ → K) (w : ℕ → K),
      ∑ j ∈ Finset.Ico 1 (U.n + 1), U.sign * lam j * w j =
      U.sign * ∑ j ∈ Finset.Ico 1 (U.n + 1), lam j * w j := by
    intro lam w; simp only [Finset.mul_sum, mul_assoc]
  have hsgn : U.isMax = false → U.sign = 1 := by intro h; simp [UserLP.sign, h]
  have hsgn' : U.isMax = true → U.sign = -1 := by intro h; simp [UserLP.sign, h]
  have hrow : ∀ k < U.blocks.length, (U.blk k).eq = false → ∀ r < (U.blk k).m,
      π (U.offset k + r) ≤ 0 := by
    intro k hk' he r hr
    apply hk.rowSign _ (U.offset_lt_nr k r hk' hr)
    show (U.rows.getD (U.offset k + r) default).eq = false
    rw [U.rows_getD_block k r hk' hr]; exact he
  have hlt : ∀ j ∈ Finset.Ico 1 (U.n + 1), j < U.compile.nc := by
    intro j hj; rw [hnc]; exact (Finset.mem_Ico.mp hj).2
  refine ⟨?_, ?_, ?_, ?_, ?_, ?_⟩
  · -- gradient
    intro j hj
    have hj1 : j ≠ 0 := by have := (Finset.mem_Ico.mp hj).1; omega
    have h := hk.stat j (hlt j hj)
    rw [U.sum_coef, hepi] at h
    have hc : U.compile.c j = 0 := by simp [UserLP.compile, hj1]
    have he : U.epiRow.coef j = U.sign * U.c j := by simp [UserLP.epiRow, hj1]
    rw [hc, he] at h
    rw [hpull (fun k r => (U.blk k).a r j)]
    linear_combination U.sign * h - U.c j * hs
  · -- value
    have h := hk.value
    rw [U.sum_rhs, hepi, hnc, sum_range_succ_Ico, sum_range_succ_Ico,
      hk.ubInf 0 (by simp [UserLP.compile]) (U.compile_ub0 hwf hone),
      hk.lbInf 0 (by simp [UserLP.compile]) (U.compile_lb0 hwf hone)] at h
    have he : U.epiRow.rhs = -(U.sign * U.c0) := rfl
    rw [he] at h
    simp only [U.compile_ub hone, U.compile_lb hone] at h
    rw [hpull (fun k r => (U.blk k).b r), hpullJ lamU (fun j => (U.ubOf j).getD 0),
      hpullJ lamL (fun j => (U.lbOf j).getD 0)]
    linear_combination U.sign * h - U.c0 * hs
  · -- signs, min
    intro hmin
    rw [hsgn hmin]
    refine ⟨?_, ?_, ?_⟩
    · intro k hk' he r hr; simpa using hrow k hk' he r hr
    · intro j hj; simpa using hk.ubSign j (hlt j hj)
    · intro j hj; simpa using hk.lbSign j (hlt j hj)
  · -- signs, max
    intro hmax
    rw [hsgn' hmax]
    refine ⟨?_, ?_, ?_⟩
    · intro k hk' he r hr; simpa using hrow k hk' he r hr
    · intro j hj; simpa using hk.ubSign j (hlt j hj)
    · intro j hj; simpa using hk.lbSign j (hlt j hj)
  · intro j hj hnone
    rw [hk.ubInf j (hlt j hj) (by rw [U.compile_ub hone]; exact hnone), mul_zero]
  · intro j hj hnone
    rw [hk.lbInf j (hlt j hj) (by rw [U.compile_lb hone]; exact hnone), mul_zero]


/-- **`stored_orientation`**: a `>=` constraint is stored as the `<=` constraint of its negation;
row `r` of the user's block holds at `x` iff the stored row does (the certificate is stated for the
stored orientation). -/
theorem stored_orientation (B : UBlock K) (s : Finset ℕ) (x : ℕ → K) (r : ℕ) :
    (match B.sense with
      | .le => ∑ j ∈ s, B.a r j * x j ≤ B.b r
      | .ge => B.b r ≤ ∑ j ∈ s, B.a r j * x j
      | .eq => ∑ j ∈ s, B.a r j * x j = B.b r) ↔
    (if B.stored.eq then ∑ j ∈ s, B.stored.a r j * x j = B.stored.b r
      else ∑ j ∈ s, B.stored.a r j * x j ≤ B.stored.b r) := by
  cases h : B.sense <;> simp [UBlock.stored, h, Finset.sum_neg_distrib]

/-- **`kkt_certifies_compiled`**: the hypothesis of `dual_transfer` is the usual optimality
certificate of the compiled program: a KKT multiplier with value `v` bounds the cost of every
feasible point from below (so `v` is the optimum as soon as it is attained). -/
theorem kkt_certifies_compiled (P : LinProg K) {π lamU lamL : ℕ → K} {v : K}
    (hk : KKT P π lamU lamL v) {x : ℕ → K} (hx : P.Feas x) : v ≤ P.obj x :=
  kkt_lower_bound P hk hx

/-- **`readback_lin`**: `constr.dual()` (`y['pi'][ciarray == index] * sign`) of the `k`-th linear
constraint returns `sign·π` on exactly the rows of that constraint, in row order — for every
numbering base (re-formulations renumber the constraints) and every multiplier vector. -/
theorem readback_lin (U : UserLP K) (pi : ℕ → K) (k : ℕ) (hk : k < U.blocks.length) :
    U.readLin pi k = (List.range (U.blk k).m).map fun r => U.sign * pi (U.offset k + r) :=
  dualLin_block U pi k hk

/-- **`readback_bnd`**: under the side condition nothing is zeroed and `bounds.dual()` returns
`sign·λU` (resp. `sign·λL`) of the addressed entries, in index order. -/
theorem readback_bnd (U : UserLP K) (hone : OneBound U.bounds) (upi lpi : ℕ → K) (B : Bound K)
    (hB : B ∈ U.bounds) :
    U.readBnd upi lpi B = B.entries.map fun p => U.sign * (if B.upper then upi p.1 else lpi p.1) :=
  dualBound_oneBound hone U.sign upi lpi hB

/-- certificates only depend on the values at the user's rows / entries -/
theorem _root_.RsomeV.DualCert.UserCert.congr {U : UserLP K} {d d' : ℕ → ℕ → K} {dU dU' dL dL' : ℕ → K} {val : K}
    (h : UserCert U d dU dL val)
    (hd : ∀ k < U.blocks.length, ∀ r < (U.blk k).m, d' k r = d k r)
    (hU : ∀ j ∈ Finset.Ico 1 (U.n + 1), dU' j = dU j)
    (hL : ∀ j ∈ Finset.Ico 1 (U.n + 1), dL' j = dL j) : UserCert U d' dU' dL' val := by
  have e1 : ∀ g : ℕ → ℕ → K,
      ∑ k ∈ range U.blocks.length, ∑ r ∈ range (U.blk k).m, d' k r * g k r =
      ∑ k ∈ range U.blocks.length, ∑ r ∈ range (U.blk k).m, d k r * g k r := by
    intro g
    apply Finset.sum_congr rfl; intro k hk
    apply Finset.sum_congr rfl; intro r hr
    rw [hd k (Finset.mem_range.mp hk) r (Finset.mem_range.mp hr)]
  have e2 : ∀ w : ℕ → K, ∑ j ∈ Finset.Ico 1 (U.n + 1), dU' j * w j =
      ∑ j ∈ Finset.Ico 1 (U.n + 1), dU j * w j := by
    intro w; apply Finset.sum_congr rfl; intro j hj; rw [hU j hj]
  have e3 : ∀ w : ℕ → K, ∑ j ∈ Finset.Ico 1 (U.n + 1), dL' j * w j =
      ∑ j ∈ Finset.Ico 1 (U.n + 1), dL j * w j := by
    intro w; apply Finset.sum_congr rfl; intro j hj; rw [hL j hj]
  refine ⟨?_, ?_, ?_, ?_, ?_, ?_⟩
  · intro j hj; rw [e1 (fun k r => (U.blk k).a r j), hU j hj, hL j hj]; exact h.grad j hj
  · rw [e1 (fun k r => (U.blk k).b r), e2 (fun j => (U.ubOf j).getD 0), e3 (fun j => (U.lbOf j).getD 0)]
    exact h.value
  · intro hm
    obtain ⟨a, b, c⟩ := h.signMin hm
    exact ⟨fun k hk he r hr => by rw [hd k hk r hr]; exact a k hk he r hr,
      fun j hj => by rw [hU j hj]; exact b j hj, fun j hj => by rw [hL j hj]; exact c j hj⟩
  · intro hm
    obtain ⟨a, b, c⟩ := h.signMax hm
    exact ⟨fun k hk he r hr => by rw [hd k hk r hr]; exact a k hk he r hr,
      fun j hj => by rw [hU j hj]; exact b j hj, fun j hj => by rw [hL j hj]; exact c j hj⟩
  · intro j hj hn; rw [hU j hj]; exact h.ubFree j hj hn
  · intro j hj hn; rw [hL j hj]; exact h.lbFree j hj hn

/-- **`dual_certificate`** (C14 in terms of the returned values).  With the hypotheses of
`dual_transfer`, the numbers the user actually reads — entry `r` of `constr_k.dual()` for row `r`
of the `k`-th linear constraint, and for entry `j` the values `bounds.dual()` reports for `j`
(`UserLP.retBnd`: summed over the `Bounds` objects of that kind; under the side condition at most
one term) — form a dual certificate of the user's model for the value `sign·v`. -/
theorem dual_certificate (U : UserLP K) (hwf : U.WF) (hone : OneBound U.bounds)
    {π lamU lamL : ℕ → K} {v : K} (hk : KKT U.compile π lamU lamL v) :
    UserCert U (fun k r => (U.readLin π k).getD r 0) (U.retBnd lamU lamL true)
      (U.retBnd lamU lamL false) (U.sign * v) := by
  have hT := dual_transfer U hwf hone hk
  apply hT.congr
  · intro k hk' r hr
    rw [readback_lin U π k hk']
    simp [List.getD_eq_getElem?_getD, hr]
  · intro j hj
    rw [U.retBnd_upper hone]
    have hlen := (hone j).1
    rcases Nat.lt_or_ge 0 (upVals U.bounds j).length with h | h
    · rw [show (upVals U.bounds j).length = 1 by omega]; simp
    · have hnil : upVals U.bounds j = [] := List.eq_nil_of_length_eq_zero (by omega)
      have := hT.ubFree j hj (by simp [UserLP.ubOf, hnil])
      rw [hnil, this]; simp
  · intro j hj
    rw [U.retBnd_lower hone]
    have hlen := (hone j).2
    rcases Nat.lt_or_ge 0 (loVals U.bounds j).length with h | h
    · rw [show (loVals U.bounds j).length = 1 by omega]; simp
    · have hnil : loVals U.bounds j = [] := List.eq_nil_of_length_eq_zero (by omega)
      have := hT.lbFree j hj (by simp [UserLP.lbOf, hnil])
      rw [hnil, this]; simp

/-- **`cert_bounds_objective`**: why the three identities are a *certificate*: every point that
satisfies the user's constraints has objective `≥ val` (`min`) resp. `≤ val` (`max`).  Hence if
`val` is attained (as it is for `val = sign·v = model.get()`), it is the user's optimum. -/
theorem cert_bounds_objective (U : UserLP K) {d : ℕ → ℕ → K} {dU dL : ℕ → K} {val : K}
    (h : UserCert U d dU dL val) {x : ℕ → K} (hx : U.Feas x) :
    if U.isMax then U.objVal x ≤ val else val ≤ U.objVal x := by
  cases hm : U.isMax with
  | false =>
    simp only [Bool.false_eq_true, if_false]
    obtain ⟨a, b, c⟩ := h.signMin hm
    exact U.cert_bound_core hx U.c U.c0 val d dU dL h.grad h.value a b c h.ubFree h.lbFree
  | true =>
    simp only [if_true]
    obtain ⟨a, b, c⟩ := h.signMax hm
    have := U.cert_bound_core hx (fun j => - U.c j) (- U.c0) (- val) (fun k r => - d k r)
      (fun j => - dU j) (fun j => - dL j)
      (by
        intro j hj
        have hg := h.grad j hj
        simp only [neg_mul, Finset.sum_neg_distrib]
        linarith)
      (by
        have hv := h.value
        simp only [neg_mul, Finset.sum_neg_distrib]
        linarith)
      (fun k hk he r hr => by simpa using a k hk he r hr)
      (fun j hj => by simpa using b j hj) (fun j hj => by simpa using c j hj)
      (fun j hj hn => by simpa using h.ubFree j hj hn)
      (fun j hj hn => by simpa using h.lbFree j hj hn)
    simp only [neg_mul, Finset.sum_neg_distrib] at this
    unfold UserLP.objVal
    linarith

/-- **zeroing rule, general case** (repeated bound constraints on one entry allowed, values of one
object consistent): the value `bounds.dual()` reports at a position is `0` iff another bound of the
same kind given for the same entry is *strictly* tighter; otherwise it is the full `sign·λ`.  So a
strictly dominated bound reports `0` and the certificate identities survive, but two bound
constraints that *tie* on an entry both report the full multiplier (see `tie_double_counts`). -/
theorem zeroing_rule (U : UserLP K) (hc : ∀ b ∈ U.bounds, b.Consistent) (upi lpi : ℕ → K)
    (B : Bound K) :
    U.readBnd upi lpi B = B.entries.map fun p =>
      if B.upper then (if ∃ w ∈ upVals U.bounds p.1, w < p.2 then 0 else upi p.1 * U.sign)
      else (if ∃ w ∈ loVals U.bounds p.1, p.2 < w then 0 else lpi p.1 * U.sign) := by
  unfold UserLP.readBnd dualBound
  apply List.map_congr_left
  intro p _
  have h1 : ubLt (U.compile.ub p.1) p.2 = true ↔ ∃ w ∈ upVals U.bounds p.1, w < p.2 :=
    ubLt_fold_iff hc p.1 p.2
  have h2 : lbGt (U.compile.lb p.1) p.2 = true ↔ ∃ w ∈ loVals U.bounds p.1, p.2 < w :=
    lbGt_fold_iff hc p.1 p.2
  by_cases hu : B.upper = true
  · simp only [hu, if_true]
    by_cases hw : ∃ w ∈ upVals U.bounds p.1, w < p.2
    · rw [if_pos hw, if_pos (h1.mpr hw)]
    · rw [if_neg hw, if_neg (fun h => hw (h1.mp h))]
  · simp only [hu, Bool.false_eq_true, if_false]
    by_cases hw : ∃ w ∈ loVals U.bounds p.1, p.2 < w
    · rw [if_pos hw, if_pos (h2.mpr hw)]
    · rw [if_neg hw, if_neg (fun h => hw (h2.mp h))]


/-! ### Concrete instances -/

section Examples

def vec (l : List ℚ) : ℕ → ℚ := fun j => l.getD j 0
def mat (l : List (List ℚ)) : ℕ → ℕ → ℚ := fun r j => (l.getD r []).getD j 0

/-- `min x1 + 3 x2 + x3 + 3  s.t.  x1 + x2 >= 2,  x3 - x1 == 1,  x1 <= 5,  x2 >= 1/2`
(optimum `17/2` at `x = (3/2, 1/2, 5/2)`) -/
def Ex0 : UserLP ℚ where
  n := 3
  isMax := false
  c := vec [0, 1, 3, 1]
  c0 := 3
  blocks := [(⟨1, mat [[0, 1, 1, 0]], vec [2], .ge⟩ : UBlock ℚ).stored,
             (⟨1, mat [[0, -1, 0, 1]], vec [1], .eq⟩ : UBlock ℚ).stored]
  bounds := [⟨true, [(1, 5)]⟩, ⟨false, [(2, 1/2)]⟩]
  base := 0

/-- the same model written as `max -(x1 + 3 x2 + x3 + 3)`, formulated a second time (`base = 2`) -/
def Ex1 : UserLP ℚ := { Ex0 with isMax := true, c := vec [0, -1, -3, -1], c0 := -3, base := 2 }

/-- a KKT multiplier of the compiled program (rows: `-x1-x2 <= -2`, `-x1+x3 == 1`, epigraph) -/
def pi0 : ℕ → ℚ := vec [-2, 1, -1]
def lamU0 : ℕ → ℚ := vec []
def lamL0 : ℕ → ℚ := vec [0, 0, 1, 0]

macro "ex_simp" : tactic => `(tactic|
  (simp [Ex0, Ex1, pi0, lamU0, lamL0, UserLP.compile, UserLP.rows, UserLP.epiRow, UserLP.sign, blockRows,
    LinBlock.rows, UBlock.stored, UserLP.blk, mat, vec, Finset.sum_range_succ, foldBounds, applyBound,
    lastVal, valsFor, optOp, List.range_succ] <;> norm_num))

lemma ex0_kkt : KKT Ex0.compile pi0 lamU0 lamL0 (17/2) := by
  have hnr : Ex0.compile.nr = 3 := rfl
  have hnc : Ex0.compile.nc = 4 := rfl
  constructor
  · intro j hj; rw [hnc] at hj; rw [hnr]; interval_cases j <;> ex_simp
  · intro i hi; rw [hnr] at hi; interval_cases i <;> ex_simp
  · intro j hj; rw [hnc] at hj; interval_cases j <;> ex_simp
  · intro j hj; rw [hnc] at hj; interval_cases j <;> ex_simp
  · intro j hj; rw [hnc] at hj; interval_cases j <;> ex_simp
  · intro j hj; rw [hnc] at hj; interval_cases j <;> ex_simp
  · rw [hnr, hnc]; ex_simp

lemma ex1_kkt : KKT Ex1.compile pi0 lamU0 lamL0 (17/2) := by
  have hnr : Ex1.compile.nr = 3 := rfl
  have hnc : Ex1.compile.nc = 4 := rfl
  constructor
  · intro j hj; rw [hnc] at hj; rw [hnr]; interval_cases j <;> ex_simp
  · intro i hi; rw [hnr] at hi; interval_cases i <;> ex_simp
  · intro j hj; rw [hnc] at hj; interval_cases j <;> ex_simp
  · intro j hj; rw [hnc] at hj; interval_cases j <;> ex_simp
  · intro j hj; rw [hnc] at hj; interval_cases j <;> ex_simp
  · intro j hj; rw [hnc] at hj; interval_cases j <;> ex_simp
  · rw [hnr, hnc]; ex_simp

lemma ex0_wf : Ex0.WF := by
  constructor
  · intro k hk r hr
    have hk' : k < 2 := hk
    interval_cases k
    · have : r < 1 := hr
      interval_cases r; ex_simp
    · have : r < 1 := hr
      interval_cases r; ex_simp
  · intro b hb p hp
    simp [Ex0] at hb
    rcases hb with rfl | rfl <;> simp at hp <;> subst hp <;> simp [Ex0]

lemma ex1_wf : Ex1.WF := ⟨ex0_wf.col0, ex0_wf.bnd⟩

lemma ex0_one : OneBound Ex0.bounds := by
  intro j
  constructor
  · simp only [Ex0, upVals, valsFor, List.filter_cons, List.filter_nil]
    by_cases h : 1 = j <;> simp [h]
  · simp only [Ex0, loVals, valsFor, List.filter_cons, List.filter_nil]
    by_cases h : 2 = j <;> simp [h]

lemma ex1_one : OneBound Ex1.bounds := ex0_one

/-- `Model.ciarray` of the two formulations -/
example : Ex0.ciarray = [some 0, some 1, none] ∧ Ex1.ciarray = [some 2, some 3, none] := by decide

/-- `dual_transfer` / `dual_certificate` apply (hypotheses are satisfiable), `min` … -/
example : UserCert Ex0 (fun k r => (Ex0.readLin pi0 k).getD r 0) (Ex0.retBnd lamU0 lamL0 true)
    (Ex0.retBnd lamU0 lamL0 false) (17/2) := by
  have := dual_certificate Ex0 ex0_wf ex0_one ex0_kkt
  simpa [UserLP.sign, Ex0] using this

/-- … and `max`: the certified value is `sign·v = -17/2` -/
example : UserCert Ex1 (fun k r => (Ex1.readLin pi0 k).getD r 0) (Ex1.retBnd lamU0 lamL0 true)
    (Ex1.retBnd lamU0 lamL0 false) (-(17/2)) := by
  have := dual_certificate Ex1 ex1_wf ex1_one ex1_kkt
  simpa [UserLP.sign, Ex1] using this

/-- the optimum is attained at `x = (3/2, 1/2, 5/2)`, so by `cert_bounds_objective` `17/2` is the
user's optimal objective -/
example : Ex0.Feas (vec [0, 3/2, 1/2, 5/2]) ∧ Ex0.objVal (vec [0, 3/2, 1/2, 5/2]) = 17/2 := by
  refine ⟨⟨?_, ?_⟩, ?_⟩
  · intro k hk r hr
    have hk' : k < 2 := hk
    interval_cases k
    · have : r < 1 := hr
      interval_cases r
      simp [UserLP.rowVal, Finset.sum_Ico_eq_sum_range, Finset.sum_range_succ]; ex_simp
    · have : r < 1 := hr
      interval_cases r
      simp [UserLP.rowVal, Finset.sum_Ico_eq_sum_range, Finset.sum_range_succ]; ex_simp
  · intro b hb p hp
    simp [Ex0] at hb
    rcases hb with rfl | rfl <;> simp at hp <;> subst hp <;> norm_num [vec]
  · simp [UserLP.objVal, Finset.sum_Ico_eq_sum_range, Finset.sum_range_succ]; ex_simp

/-- the values the user reads: `dual()` of the two constraints and of the lower-bound object, in the
`min` formulation and (signs reversed) in the `max` formulation -/
example : Ex0.readLin pi0 0 = [-2] ∧ Ex0.readLin pi0 1 = [1] ∧
    Ex0.readBnd lamU0 lamL0 ⟨false, [(2, 1/2)]⟩ = [1] ∧ Ex0.readBnd lamU0 lamL0 ⟨true, [(1, 5)]⟩ = [0] ∧
    Ex1.readLin pi0 0 = [2] ∧ Ex1.readLin pi0 1 = [-1] ∧
    Ex1.readBnd lamU0 lamL0 ⟨false, [(2, 1/2)]⟩ = [-1] := by
  refine ⟨?_, ?_, ?_, ?_, ?_, ?_, ?_⟩ <;>
  simp [UserLP.readLin, UserLP.readBnd, dualLin, dualBound, posOf, UserLP.ciarray, UserLP.indexOf, ubLt, lbGt,
    Ex0, Ex1, pi0, lamU0, lamL0, UserLP.compile, UserLP.rows, UserLP.epiRow, UserLP.sign, blockRows,
    LinBlock.rows, UBlock.stored, vec, foldBounds, applyBound, lastVal, valsFor, optOp, List.range_succ,
    List.zipIdx_cons]

/-- every feasible point of `Ex0` has objective `≥ 17/2` -/
example (x : ℕ → ℚ) (hx : Ex0.Feas x) : 17/2 ≤ Ex0.objVal x := by
  have h := dual_transfer Ex0 ex0_wf ex0_one ex0_kkt
  have := cert_bounds_objective Ex0 h hx
  simpa [Ex0, UserLP.sign] using this

/-- `min x1  s.t.  x1 >= 1,  x1 >= 1` (the same bound given twice) -/
def ExTie : UserLP ℚ where
  n := 1
  isMax := false
  c := vec [0, 1]
  c0 := 0
  blocks := []
  bounds := [⟨false, [(1, 1)]⟩, ⟨false, [(1, 1)]⟩]
  base := 0

/-- **`tie_double_counts`**: outside the side condition the certificate can fail.  For
`min x1 s.t. x1 >= 1, x1 >= 1` and the (unique) KKT multiplier `λL = 1` both `Bounds.dual()` calls
return `1` (neither bound is *strictly* dominated, nothing is zeroed), the duals reported for entry
`x1` add up to `2`, and the gradient identity `c₁ = 1 = Σ duals` fails. -/
theorem tie_double_counts :
    ExTie.WF ∧ KKT ExTie.compile (vec [-1]) (vec []) (vec [0, 1]) 1 ∧
    ExTie.readBnd (vec []) (vec [0, 1]) ⟨false, [(1, 1)]⟩ = [1] ∧
    ExTie.retBnd (vec []) (vec [0, 1]) false 1 = 2 ∧
    ¬ UserCert ExTie (fun k r => (ExTie.readLin (vec [-1]) k).getD r 0)
        (ExTie.retBnd (vec []) (vec [0, 1]) true) (ExTie.retBnd (vec []) (vec [0, 1]) false) 1 := by
  have hnr : ExTie.compile.nr = 1 := rfl
  have hnc : ExTie.compile.nc = 2 := rfl
  have hU : ExTie.retBnd (vec []) (vec [0, 1]) true 1 = 0 := by
    simp [UserLP.retBnd, ExTie]
  have hL : ExTie.retBnd (vec []) (vec [0, 1]) false 1 = 2 := by
    simp [UserLP.retBnd, UserLP.readBnd, dualBound, lbGt, ExTie, UserLP.compile, UserLP.sign, vec, foldBounds,
      applyBound, lastVal, valsFor, optOp]
    norm_num
  refine ⟨⟨?_, ?_⟩, ?_, ?_, hL, ?_⟩
  · intro k hk; simp [ExTie] at hk
  · intro b hb p hp
    simp [ExTie] at hb
    subst hb; simp at hp; subst hp; simp [ExTie]
  · constructor
    · intro j hj; rw [hnc] at hj; rw [hnr]
      interval_cases j <;>
        simp [ExTie, UserLP.compile, UserLP.rows, UserLP.epiRow, UserLP.sign, blockRows, vec,
          Finset.sum_range_succ]
    · intro i hi; rw [hnr] at hi; interval_cases i; simp [vec]
    · intro j hj; simp [vec]
    · intro j hj; rw [hnc] at hj; interval_cases j <;> simp [vec]
    · intro j hj; simp [vec]
    · intro j hj; rw [hnc] at hj
      interval_cases j <;>
        simp [ExTie, UserLP.compile, vec, foldBounds, applyBound, lastVal, valsFor, optOp]
    · rw [hnr, hnc]
      simp [ExTie, UserLP.compile, UserLP.rows, UserLP.epiRow, UserLP.sign, blockRows, vec,
        Finset.sum_range_succ, foldBounds, applyBound, lastVal, valsFor, optOp]
  · simp [UserLP.readBnd, dualBound, lbGt, ExTie, UserLP.compile, UserLP.sign, vec, foldBounds,
      applyBound, lastVal, valsFor, optOp]
  · intro h
    have hg := h.grad 1 (by simp [ExTie])
    rw [hU, hL] at hg
    simp [ExTie, vec] at hg

/-- a *strictly* dominated bound reports `0` (zeroing rule): `x1 >= 1, x1 >= 0` with `λL = 1` -/
example :
    let U : UserLP ℚ := { ExTie with bounds := [⟨false, [(1, 1)]⟩, ⟨false, [(1, 0)]⟩] }
    U.readBnd (vec []) (vec [0, 1]) ⟨false, [(1, 1)]⟩ = [1] ∧
    U.readBnd (vec []) (vec [0, 1]) ⟨false, [(1, 0)]⟩ = [0] := by
  constructor <;>
  simp [UserLP.readBnd, dualBound, lbGt, ExTie, UserLP.compile, UserLP.sign, vec, foldBounds,
    applyBound, lastVal, valsFor, optOp]

end Examples

end RsomeV.C14
