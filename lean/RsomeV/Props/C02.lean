import RsomeV.M.Robust
import RsomeV.L.ConeDualWeak
import RsomeV.L.LpDualStrong
import RsomeV.L.RobustSound
import RsomeV.L.RobustComplete
import RsomeV.Props.C01
import Mathlib.Tactic.Linarith
import Mathlib.Tactic.Ring
import Mathlib.Tactic.NormNum
import Mathlib.Tactic.Choose

/-! C02 — completeness / exactness of the robust counterpart: for polyhedral (LP-class) supports
the model `RoRows.leToRc` of `RoConstr.le_to_rc` applied to the model `ConeProg.coneDual` of the
support's dual is also a *necessary* condition (up to the choice of the multipliers): its
projection on the decision columns is exactly the robust feasible set.  The proof is Farkas' lemma
in the form of LP strong duality (`LinProg.dual_strong`).  For supports with cones the same
statement is proved *relative to* an explicit no-duality-gap hypothesis (`rc_exact_conic_partial`);
conic strong duality itself is not proved. -/

set_option linter.unusedSectionVars false
set_option linter.unusedSimpArgs false
set_option linter.unusedVariables false

namespace RsomeV.C02
open Finset RsomeV ConeProg RoRows RsomeV.C01

variable {K : Type} [Field K] [LinearOrder K] [IsStrictOrderedRing K]

/-- **Completeness from dual attainment** (any support): if for every row `n` the conic dual of
the support program re-costed with the uncertain part of row `n` at `v` has a feasible point whose
value covers the deterministic part of the row, the counterpart fragment is feasible at an
assignment that agrees with `v` on the decision columns.

(The cone index lists of the dual form address columns of the dual form: `coneDual_qlt`,
`coneDual_xlt` in `RsomeV/L/RobustComplete.lean`.) -/
theorem rc_complete_of_dual (Pz : ConeProg K) (E : K → K → K → Prop)
    (hones : ∀ j, Pz.lp.c j = 1)
    (R : RoRows K) (hnz : R.nz ≤ Pz.lp.nc)
    (hq : ∀ q ∈ Pz.qmat, ∀ j ∈ q, R.nz ≤ j)
    (v : ℕ → K)
    (hdual : ∀ n < R.m, ∃ y, (Pz.withCost (R.rowCost n v)).coneDual.Feas E y ∧
      R.detPart n v ≤ - (Pz.withCost (R.rowCost n v)).coneDual.lp.obj y) :
    ∃ v' : ℕ → K, (∀ d < R.nd, v' d = v d) ∧ (R.leToRc Pz.coneDual).prog.Feas E v' := by
  choose! y hy using hdual
  refine ⟨R.assemble Pz.coneDual v y, fun d hd => R.assemble_dec _ v y d hd, ?_⟩
  apply leToRc_build R Pz.coneDual E (coneDual_qlt Pz) (coneDual_xlt Pz) (coneDual_xlen Pz) v y
    (fun n => Pz.dualRhs (R.rowCost n v))
  · intro n hn j hj
    exact R.dualRhs_rowCost Pz hones hnz hq n v j hj
  · intro n hn
    have h := (hy n hn).1
    rw [coneDual_withCost] at h
    exact h
  · intro n hn
    have h := (hy n hn).2
    have hobj : (Pz.withCost (R.rowCost n v)).coneDual.lp.obj (y n)
        = ∑ i ∈ range Pz.coneDual.lp.nc, Pz.coneDual.lp.c i * y n i := by
      rw [coneDual_withCost]; rfl
    rw [hobj] at h
    unfold detPart at h
    linarith
  · -- block (4) is empty: every random component of the rows is a row of the dual form
    intro n hn j h1 h2
    have hnr : R.nz ≤ Pz.coneDual.lp.nr := le_coneDual_nr Pz R.nz hnz hq
    have : R.numRand Pz.coneDual = R.nz := by unfold numRand; exact Nat.min_eq_left hnr
    omega

/-- **Completeness of the robust counterpart for polyhedral (LP-class) supports**: if the support
program has no cones, is non-empty, and the decisions `v` satisfy every uncertain row of the block
at every point of the support, then multiplier values exist that make the counterpart fragment
feasible without changing the decision columns.  (Farkas' lemma, via `LinProg.dual_strong`.)

No hypothesis was added to the requested statement (`hwf` is not used by this direction). -/
theorem rc_complete_lp (Pz : ConeProg K) (E : K → K → K → Prop) (hwf : Pz.WF)
    (hq : Pz.qmat = []) (hx : Pz.xmat = [])
    (hones : ∀ j, Pz.lp.c j = 1)
    (R : RoRows K) (hnz : R.nz ≤ Pz.lp.nc)
    (hne : ∃ ζ, Pz.Feas E ζ)
    (v : ℕ → K)
    (hsemi : ∀ n < R.m, ∀ ζ, Pz.Feas E ζ → R.eval n v ζ ≤ 0) :
    ∃ v' : ℕ → K, (∀ d < R.nd, v' d = v d) ∧ (R.leToRc Pz.coneDual).prog.Feas E v' := by
  apply rc_complete_of_dual Pz E hones R hnz
  · intro q hq'; rw [hq] at hq'; simp at hq'
  · intro n hn
    -- the inner problem of row `n`: minimise minus the uncertain part over the support
    set P' := Pz.withCost (R.rowCost n v) with hP'
    have hS' : P'.coneDual
        = { lp := P'.lp.dual, st := fun j i => P'.augSt i j, qmat := [], xmat := [] } :=
      coneDual_nocone P' hq hx
    obtain ⟨ζ0, hζ0⟩ := hne
    have hfeas : ∃ x, P'.lp.Feas x := ⟨ζ0, ⟨hζ0.lin.rows, hζ0.lin.ubs, hζ0.lin.lbs⟩⟩
    have hbd : ∀ x, P'.lp.Feas x → R.detPart n v ≤ P'.lp.obj x := by
      intro x hx'
      have hxz : Pz.Feas E x :=
        ⟨⟨hx'.rows, hx'.ubs, hx'.lbs⟩, by intro q hq'; rw [hq] at hq'; simp at hq',
          by intro e he'; rw [hx] at he'; simp at he'⟩
      have h := hsemi n hn x hxz
      rw [R.eval_eq] at h
      rw [hP', R.obj_rowCost Pz hnz n v x]
      linarith
    obtain ⟨y, hyf, hyv⟩ := LinProg.dual_strong P'.lp (R.detPart n v) hfeas hbd
    refine ⟨y, ?_, ?_⟩
    · rw [hS']
      exact ⟨hyf, by intro q hq'; simp at hq', by intro e he'; simp at he'⟩
    · rw [hS']
      exact hyv

/-! #### The hypotheses of `rc_complete_lp` are satisfiable: interval support `0 ≤ z ≤ 2`, row
`x·z - 4 ≤ 0`, decision `x = 2` (instance of `RsomeV/Props/C01.lean`) -/

/-- the interval is non-empty -/
lemma exPz_feas0 : exPz.Feas (fun _ _ _ => False) (fun _ => 0) := by
  refine ⟨⟨?_, ?_, ?_⟩, ?_, ?_⟩
  · intro i hi; exact absurd hi (Nat.not_lt_zero _)
  · intro j hj
    have : j = 0 := by change j < 1 at hj; omega
    subst this; simp [exPz, LinProg.leUb]
  · intro j hj
    have : j = 0 := by change j < 1 at hj; omega
    subst this; simp [exPz, LinProg.geLb]
  · intro q hq; simp [exPz] at hq
  · intro e he; simp [exPz] at he

/-- `x = 2` satisfies `x·ζ - 4 ≤ 0` on the whole interval -/
lemma ex_semi : ∀ n < exR.m, ∀ ζ, exPz.Feas (fun _ _ _ => False) ζ → exR.eval n exV ζ ≤ 0 := by
  intro n hn ζ hζ
  have hn0 : n = 0 := by change n < 1 at hn; omega
  subst hn0
  have hu : ζ 0 ≤ 2 := by
    have h := hζ.lin.ubs 0 (by decide)
    simpa [exPz, LinProg.leUb] using h
  simp [RoRows.eval, exR, exV]
  linarith

/-- all hypotheses of `rc_complete_lp` hold for the instance (decision `x = 2`) -/
example :
    exPz.WF ∧ exPz.qmat = [] ∧ exPz.xmat = [] ∧ (∀ j, exPz.lp.c j = 1) ∧ exR.nz ≤ exPz.lp.nc ∧
    (∃ ζ, exPz.Feas (fun _ _ _ => False) ζ) ∧ exV 0 = 2 ∧
    (∀ n < exR.m, ∀ ζ, exPz.Feas (fun _ _ _ => False) ζ → exR.eval n exV ζ ≤ 0) :=
  ⟨exPz_wf, rfl, rfl, fun _ => rfl, le_refl _, ⟨_, exPz_feas0⟩, rfl, ex_semi⟩

/-- so `rc_complete_lp` yields multipliers for the counterpart at `x = 2` -/
example : ∃ v' : ℕ → ℚ, (∀ d < exR.nd, v' d = exV d) ∧
    (exR.leToRc exPz.coneDual).prog.Feas (fun _ _ _ => False) v' :=
  rc_complete_lp exPz _ exPz_wf rfl rfl (fun _ => rfl) exR (le_refl _) ⟨_, exPz_feas0⟩ exV ex_semi

/-- and an explicit witness is `Y = -2` (`C01.ex_feas`) -/
example : ∃ v' : ℕ → ℚ, (∀ d < exR.nd, v' d = exV d) ∧
    (exR.leToRc exPz.coneDual).prog.Feas (fun _ _ _ => False) v' :=
  ⟨exV, fun _ _ => rfl, ex_feas⟩

/-- **Exactness for LP-class supports**: the projection of the counterpart's feasible set on the
decision columns is exactly the set of decisions that satisfy the uncertain rows for every
realisation of the support.

`→` is `C01.rc_sound` (no pairing hypothesis on `E` is needed: without cones neither program
mentions `E`); `←` is `rc_complete_lp`. -/
theorem rc_exact_lp (Pz : ConeProg K) (E : K → K → K → Prop) (hwf : Pz.WF)
    (hq : Pz.qmat = []) (hx : Pz.xmat = [])
    (hones : ∀ j, Pz.lp.c j = 1)
    (R : RoRows K) (hnz : R.nz ≤ Pz.lp.nc)
    (hne : ∃ ζ, Pz.Feas E ζ)
    (x : ℕ → K) :
    (∃ v' : ℕ → K, (∀ d < R.nd, v' d = x d) ∧ (R.leToRc Pz.coneDual).prog.Feas E v') ↔
      (∀ n < R.m, ∀ ζ, Pz.Feas E ζ → R.eval n x ζ ≤ 0) := by
  constructor
  · rintro ⟨v', hd, hv⟩ n hn ζ hζ
    have hS := coneDual_nocone Pz hq hx
    have hxm : (R.leToRc Pz.coneDual).prog.xmat = [] := by
      rw [hS]; simp [leToRc]
    have hv0 : (R.leToRc Pz.coneDual).prog.Feas (fun _ _ _ => False) v' :=
      ⟨hv.lin, hv.soc, by intro e he; rw [hxm] at he; simp at he⟩
    have hζ0 : Pz.Feas (fun _ _ _ => False) ζ :=
      ⟨hζ.lin, hζ.soc, by intro e he; rw [hx] at he; simp at he⟩
    have h := C01.rc_sound Pz (fun _ _ _ => False) (fun _ _ _ _ _ _ h _ => h.elim) hwf hones R hnz
      (by intro q hq'; rw [hq] at hq'; simp at hq')
      (by intro _ e he; rw [hx] at he; simp at he) v' hv0 n hn ζ hζ0
    rw [R.eval_congr n x v' ζ (fun d hd' => (hd d hd').symm)]
    exact h
  · intro hsemi
    exact rc_complete_lp Pz E hwf hq hx hones R hnz hne x hsemi

/-! #### Random variables declared after the set (`R.nz > Pz.lp.nc` allowed)

The counterparts of `rc_complete_of_dual`, `rc_complete_lp`, `rc_exact_lp` without `hnz`, for the
model with block (4) (`raffine[:, num_rand:] == 0`).  The semi-infinite row quantifies over every
`ζ` whose first `Pz.lp.nc` components are a point of the support program; the later components
are unrestricted. -/

/-- **Completeness from dual attainment, late random variables allowed**: as `rc_complete_of_dual`,
with the inner problem of row `n` posed for the rows truncated to the `min R.nz Pz.lp.nc` random
components the support program knows, plus the requirement that the coefficients of the late
components vanish at `v` (block (4)). -/
theorem rc_complete_of_dual_late (Pz : ConeProg K) (E : K → K → K → Prop)
    (hones : ∀ j, Pz.lp.c j = 1)
    (R : RoRows K)
    (hq : ∀ q ∈ Pz.qmat, ∀ j ∈ q, min R.nz Pz.lp.nc ≤ j)
    (v : ℕ → K)
    (h4 : ∀ n < R.m, ∀ j, Pz.lp.nc ≤ j → j < R.nz → R.coef n j v = 0)
    (hdual : ∀ n < R.m, ∃ y,
      (Pz.withCost ((R.trunc (min R.nz Pz.lp.nc)).rowCost n v)).coneDual.Feas E y ∧
      R.detPart n v ≤ - (Pz.withCost ((R.trunc (min R.nz Pz.lp.nc)).rowCost n v)).coneDual.lp.obj y) :
    ∃ v' : ℕ → K, (∀ d < R.nd, v' d = v d) ∧ (R.leToRc Pz.coneDual).prog.Feas E v' := by
  choose! y hy using hdual
  set R₀ := R.trunc (min R.nz Pz.lp.nc) with hR₀
  have hnz₀ : R₀.nz ≤ Pz.lp.nc := Nat.min_le_right _ _
  have hSle : Pz.coneDual.lp.nr ≤ Pz.lp.nc := coneDual_nr_le Pz
  have hkS : min R.nz Pz.lp.nc ≤ Pz.coneDual.lp.nr :=
    le_coneDual_nr Pz (min R.nz Pz.lp.nc) (Nat.min_le_right _ _) hq
  have hnum : R₀.numRand Pz.coneDual = R.numRand Pz.coneDual := by
    show min (min R.nz Pz.lp.nc) Pz.coneDual.lp.nr = min R.nz Pz.coneDual.lp.nr
    omega
  refine ⟨R.assemble Pz.coneDual v y, fun d hd => R.assemble_dec _ v y d hd, ?_⟩
  apply leToRc_build R Pz.coneDual E (coneDual_qlt Pz) (coneDual_xlt Pz) (coneDual_xlen Pz) v y
    (fun n => Pz.dualRhs (R₀.rowCost n v))
  · intro n hn j hj
    have h := R₀.dualRhs_rowCost Pz hones hnz₀ hq n v j hj
    rw [hnum] at h
    exact h
  · intro n hn
    have h := (hy n hn).1
    rw [coneDual_withCost] at h
    exact h
  · intro n hn
    have h := (hy n hn).2
    have hobj : (Pz.withCost (R₀.rowCost n v)).coneDual.lp.obj (y n)
        = ∑ i ∈ range Pz.coneDual.lp.nc, Pz.coneDual.lp.c i * y n i := by
      rw [coneDual_withCost]; rfl
    rw [hobj] at h
    unfold detPart at h
    linarith
  · intro n hn j h1 h2
    apply h4 n hn j _ h2
    have : R.numRand Pz.coneDual = min R.nz Pz.coneDual.lp.nr := rfl
    omega

/-- **Completeness for polyhedral supports, late random variables allowed** (no `hnz`): if the
decisions `v` satisfy every uncertain row at every realisation whose first `Pz.lp.nc` components
are a point of the (non-empty) support and whose later components are arbitrary, then multiplier
values exist that make the counterpart fragment — block (4) included — feasible. -/
theorem rc_complete_late_lp (Pz : ConeProg K) (E : K → K → K → Prop) (hwf : Pz.WF)
    (hq : Pz.qmat = []) (hx : Pz.xmat = [])
    (hones : ∀ j, Pz.lp.c j = 1)
    (R : RoRows K)
    (hne : ∃ ζ, Pz.Feas E ζ)
    (v : ℕ → K)
    (hsemi : ∀ n < R.m, ∀ ζ₀, Pz.Feas E ζ₀ → ∀ ζ : ℕ → K, (∀ j < Pz.lp.nc, ζ j = ζ₀ j) →
      R.eval n v ζ ≤ 0) :
    ∃ v' : ℕ → K, (∀ d < R.nd, v' d = v d) ∧ (R.leToRc Pz.coneDual).prog.Feas E v' := by
  obtain ⟨ζ0, hζ0⟩ := hne
  -- the late components are unrestricted, so their coefficients vanish
  have h4 : ∀ n < R.m, ∀ j, Pz.lp.nc ≤ j → j < R.nz → R.coef n j v = 0 := by
    intro n hn j h1 h2
    by_contra hc
    set A := R.eval n v ζ0 with hA
    have h := hsemi n hn ζ0 hζ0 (fun i => if i = j then ζ0 i + (1 - A) / R.coef n j v else ζ0 i)
      (by intro i hi; rw [if_neg (by omega)])
    rw [R.eval_bump n v ζ0 j h2, mul_div_cancel₀ _ hc] at h
    linarith
  apply rc_complete_of_dual_late Pz E hones R
    (by intro q hq'; rw [hq] at hq'; simp at hq') v h4
  intro n hn
  set R₀ := R.trunc (min R.nz Pz.lp.nc) with hR₀
  have hnz₀ : R₀.nz ≤ Pz.lp.nc := Nat.min_le_right _ _
  set P' := Pz.withCost (R₀.rowCost n v) with hP'
  have hS' : P'.coneDual
      = { lp := P'.lp.dual, st := fun j i => P'.augSt i j, qmat := [], xmat := [] } :=
    coneDual_nocone P' hq hx
  have hfeas : ∃ x, P'.lp.Feas x := ⟨ζ0, ⟨hζ0.lin.rows, hζ0.lin.ubs, hζ0.lin.lbs⟩⟩
  have hbd : ∀ x, P'.lp.Feas x → R.detPart n v ≤ P'.lp.obj x := by
    intro x hx'
    have hxz : Pz.Feas E x :=
      ⟨⟨hx'.rows, hx'.ubs, hx'.lbs⟩, by intro q hq'; rw [hq] at hq'; simp at hq',
        by intro e he'; rw [hx] at he'; simp at he'⟩
    have h := hsemi n hn x hxz x (fun _ _ => rfl)
    rw [R.eval_eq] at h
    have hsum : ∑ j ∈ range R.nz, R.coef n j v * x j
        = ∑ j ∈ range R₀.nz, R₀.coef n j v * x j := by
      apply sum_range_tail_zero (min R.nz Pz.lp.nc) R.nz (Nat.min_le_left _ _)
      · intro j _; rfl
      · intro j h1 h2
        show R.coef n j v * x j = 0
        rw [h4 n hn j (by omega) h2, zero_mul]
    rw [hP', R₀.obj_rowCost Pz hnz₀ n v x, ← hsum]
    linarith
  obtain ⟨y, hyf, hyv⟩ := LinProg.dual_strong P'.lp (R.detPart n v) hfeas hbd
  refine ⟨y, ?_, ?_⟩
  · rw [hS']
    exact ⟨hyf, by intro q hq'; simp at hq', by intro e he'; simp at he'⟩
  · rw [hS']
    exact hyv

/-- **Exactness for LP-class supports, late random variables allowed**: the projection of the
counterpart's feasible set (block (4) included) on the decision columns is exactly the set of
decisions that satisfy the uncertain rows for every point of the support and every value of the
random components the support program does not know.
`→` is `C01.rc_sound_late'`, `←` is `rc_complete_late_lp`. -/
theorem rc_exact_late_lp (Pz : ConeProg K) (E : K → K → K → Prop) (hwf : Pz.WF)
    (hq : Pz.qmat = []) (hx : Pz.xmat = [])
    (hones : ∀ j, Pz.lp.c j = 1)
    (R : RoRows K)
    (hne : ∃ ζ, Pz.Feas E ζ)
    (x : ℕ → K) :
    (∃ v' : ℕ → K, (∀ d < R.nd, v' d = x d) ∧ (R.leToRc Pz.coneDual).prog.Feas E v') ↔
      (∀ n < R.m, ∀ ζ₀, Pz.Feas E ζ₀ → ∀ ζ : ℕ → K, (∀ j < Pz.lp.nc, ζ j = ζ₀ j) →
        R.eval n x ζ ≤ 0) := by
  constructor
  · rintro ⟨v', hd, hv⟩ n hn ζ₀ hζ₀ ζ hζ
    have hS := coneDual_nocone Pz hq hx
    have hxm : (R.leToRc Pz.coneDual).prog.xmat = [] := by
      rw [hS]; simp [leToRc]
    have hv0 : (R.leToRc Pz.coneDual).prog.Feas (fun _ _ _ => False) v' :=
      ⟨hv.lin, hv.soc, by intro e he; rw [hxm] at he; simp at he⟩
    have hζ0 : Pz.Feas (fun _ _ _ => False) ζ₀ :=
      ⟨hζ₀.lin, hζ₀.soc, by intro e he; rw [hx] at he; simp at he⟩
    have h := C01.rc_sound_late' Pz (fun _ _ _ => False) (fun _ _ _ _ _ _ h _ => h.elim) hwf hones R
      (by intro q hq'; rw [hq] at hq'; simp at hq')
      (by intro _ e he; rw [hx] at he; simp at he) v' hv0 n hn ζ₀ hζ0 ζ hζ
    rw [R.eval_congr n x v' ζ (fun d hd' => (hd d hd').symm)]
    exact h
  · intro hsemi
    exact rc_complete_late_lp Pz E hwf hq hx hones R hne x hsemi

/-- **Exactness for conic supports, relative to the absence of a duality gap** (this makes precise
what is *not* proved here: conic strong duality).  For a support with second-order and/or
exponential cones the counterpart is still sound (`C01.rc_sound`); it is exact at the decision `x`
provided the inner maximisation of every row has no duality gap and its dual is attained — the
explicit hypothesis `hgap`: whenever row `n` holds on the whole support, the conic dual of the
support program re-costed with (minus) the uncertain part of row `n` has a feasible point `y`
whose value `- obj y` covers the deterministic part of the row.  For LP-class supports `hgap` is
a theorem (`LinProg.dual_strong`, see `rc_complete_lp`); for conic supports it holds e.g. under a
Slater condition, which is outside the scope of this development. -/
theorem rc_exact_conic_partial (Pz : ConeProg K) (E : K → K → K → Prop) (hE : ExpPair E)
    (hwf : Pz.WF) (hones : ∀ j, Pz.lp.c j = 1)
    (R : RoRows K) (hnz : R.nz ≤ Pz.lp.nc)
    (hq : ∀ q ∈ Pz.qmat, ∀ j ∈ q, R.nz ≤ j)
    (hxq : Pz.rowsRemoved = true → ∀ e ∈ Pz.xmat, ∀ j ∈ e, j ∉ Pz.eye)
    (x : ℕ → K)
    (hgap : ∀ n < R.m, (∀ ζ, Pz.Feas E ζ → R.eval n x ζ ≤ 0) →
      ∃ y, (Pz.withCost (R.rowCost n x)).coneDual.Feas E y ∧
        R.detPart n x ≤ - (Pz.withCost (R.rowCost n x)).coneDual.lp.obj y) :
    (∃ v' : ℕ → K, (∀ d < R.nd, v' d = x d) ∧ (R.leToRc Pz.coneDual).prog.Feas E v') ↔
      (∀ n < R.m, ∀ ζ, Pz.Feas E ζ → R.eval n x ζ ≤ 0) := by
  constructor
  · rintro ⟨v', hd, hv⟩ n hn ζ hζ
    rw [R.eval_congr n x v' ζ (fun d hd' => (hd d hd').symm)]
    exact C01.rc_sound Pz E hE hwf hones R hnz hq hxq v' hv n hn ζ hζ
  · intro hsemi
    exact rc_complete_of_dual Pz E hones R hnz hq x (fun n hn => hgap n hn (hsemi n hn))

end RsomeV.C02
