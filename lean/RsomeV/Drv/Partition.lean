import RsomeV.Drv.Json
import RsomeV.M.Partition
namespace RsomeV.Drv
open Lean RsomeV.Partition

def readEvents (j : Json) : Except String Events := do
  pure ((← jNatMat j).toList.map (·.toList))

/-- op "evt_seq": a sequence of `evtadapt` calls on a fresh decision of a model with `S` scenarios;
replies with the events after each successful call and stops at the first error -/
def opEvtSeq (j : Json) : Except String Json := do
  let S ← jNat (← fld j "S")
  let calls ← readEvents (← fld j "calls")
  let rec go (st : EvState) (cs : List (List Nat)) (acc : Array Json) : Array Json :=
    match cs with
    | [] => acc
    | c :: cs' =>
      match evtadapt st c with
      | .ok st' => go st' cs' (acc.push (Json.mkObj [("ok", oNatLists st'.events)]))
      | .error e => acc.push (Json.mkObj [("err", Json.str e.name)])
  pure (Json.mkObj [("results", Json.arr (go (EvState.init S) calls #[]))])

def opCombSet (j : Json) : Except String Json := do
  let p ← readEvents (← fld j "p")
  let q ← readEvents (← fld j "q")
  pure (Json.mkObj [("events", oNatLists (combSet p q))])

def opRuleCols (j : Json) : Except String Json := do
  let S ← jNat (← fld j "S")
  let ds ← (← jArr (← fld j "decs")).mapM fun d => do
    let size ← jNat (← fld d "size")
    let ev ← readEvents (← fld d "events")
    pure ({ size := size, events := ev } : Dec)
  let dl := ds.toList
  pure (Json.mkObj [
    ("cols", oNatLists ((List.range S).map fun s => scenCols dl s)),
    ("ro_first", oNatList ((List.range dl.length).map fun k => roFirst dl k))])

def readMask (j : Json) : Except String Mask := do
  pure ((← jNatMat j).toList.map fun r => r.toList.map (· != 0))

/-- op "rule_lin": coefficient-column structure of `rule_var` -/
def opRuleLin (j : Json) : Except String Json := do
  let S ← jNat (← fld j "S")
  let ds ← (← jArr (← fld j "decs")).mapM fun d => do
    let size ← jNat (← fld d "size")
    let ev ← readEvents (← fld d "events")
    let mk ← readMask (← fld d "mask")
    pure ({ size := size, events := ev, mask := mk } : DecM)
  let dl := ds.toList
  pure (Json.mkObj [
    ("lin_cols", oNatLists ((List.range S).map fun s => linCols dl s)),
    ("nz_rows", oNatList (nzRowsAll dl))])

def opAffSeq (j : Json) : Except String Json := do
  let size ← jNat (← fld j "size")
  let nrand ← jNat (← fld j "nrand")
  let isInt ← jBool (← fld j "is_int")
  let calls ← (← jArr (← fld j "calls")).mapM fun c => do
    let di ← jNatArr (← fld c "dec")
    let ri ← jNatArr (← fld c "rand")
    pure (di.toList, ri.toList)
  let m0 : Mask := List.replicate size (List.replicate nrand false)
  let rec go (m : Mask) (cs : List (List Nat × List Nat)) (acc : Array Json) : Mask × Array Json :=
    match cs with
    | [] => (m, acc)
    | (di, ri) :: cs' =>
      match affadapt isInt m di ri with
      | .ok m' => go m' cs' (acc.push (Json.str "ok"))
      | .error e => (m, acc.push (Json.str e.name))
  let (m, res) := go m0 calls.toList #[]
  pure (Json.mkObj [("results", Json.arr res),
    ("mask", Json.arr (m.map fun r => Json.arr (r.map fun b => oNat (if b then 1 else 0)).toArray).toArray),
    ("nz_rows", oNatList (nzRows m))])

end RsomeV.Drv
