import RsomeV.Drv.AffExpr
import RsomeV.M.AffTri
namespace RsomeV.Drv
open Lean RsomeV.Nd RsomeV.AffE

/-! driver operation of `RsomeV/M/AffTri.lean`:
`{"op":"aff_tri","expr":<tree of op aff_expr>,"ncols":n,"post":[P..]}` with
`P = {"f":"tril","k":i} | {"f":"triu","k":i} | {"f":"trace"} | {"f":"diagfill","k":i}`
-> `applyPosts` of the compiled expression: `{"shape","ncols","linear","const"}` (dense, exact rationals),
`{"error":"shape"}` when the expression itself does not compile, `{"error":"post","at":t}` when the `t`-th post
operation (0-based) is the first one that raises. -/

def readPost (j : Json) : Except String Post := do
  let f ← jStr (← fld j "f")
  match f with
  | "tril" => pure (.tril (← jInt (← fld j "k")))
  | "triu" => pure (.triu (← jInt (← fld j "k")))
  | "trace" => pure .trace
  | "diagfill" => pure (.diagFill (← jInt (← fld j "k")))
  | _ => throw s!"unknown post operation {f}"

def opAffTri (j : Json) : Except String Json := do
  let e ← readExpr 64 (← fld j "expr")
  let n ← jNat (← fld j "ncols")
  let ps := (← (← jArr (← fld j "post")).mapM readPost).toList
  match e.compile n with
  | none => pure (Json.mkObj [("error", Json.str "shape")])
  | some a0 =>
    match applyPosts a0 ps with
    | none =>
      -- the first prefix that fails
      let t := ((List.range ps.length).find? fun t => (applyPosts a0 (ps.take (t + 1))).isNone).getD 0
      pure (Json.mkObj [("error", Json.str "post"), ("at", oNat t)])
    | some a =>
      let sz := size a.shape
      pure (Json.mkObj [("shape", oNatList a.shape), ("ncols", oNat a.ncols),
        ("linear", oRatMat sz a.ncols a.coef), ("const", oRatVec sz a.cst)])

end RsomeV.Drv
