import RsomeV.M.LpDual
import Lean.Data.Json
import Mathlib.Algebra.Field.Rat
import Mathlib.Algebra.Order.Ring.Rat

/-! JSON line-protocol helpers shared by every driver handler.  Rationals travel as
"p/q" strings, `null` is ±∞ in bound vectors. -/

namespace RsomeV.Drv
open Lean

def parseRat (s : String) : Option ℚ :=
  match s.splitOn "/" with
  | [p] => p.toInt?.map (fun i => (i : ℚ))
  | [p, q] => do
      let pi ← p.toInt?
      let qi ← q.toNat?
      if qi = 0 then none else some ((pi : ℚ) / (qi : ℚ))
  | _ => none

def ratStr (r : ℚ) : String := if r.den = 1 then toString r.num else s!"{r.num}/{r.den}"

def jRat (j : Json) : Except String ℚ := do
  match j with
  | .str s => match parseRat s with | some r => pure r | none => throw s!"bad rat {s}"
  | .num n => if n.exponent = 0 then pure (n.mantissa : ℚ) else throw "non-integer json number"
  | _ => throw "rat expected"

def jOptRat (j : Json) : Except String (Option ℚ) :=
  if j.isNull then pure none else (jRat j).map some

def jArr (j : Json) : Except String (Array Json) := j.getArr?
def jNat (j : Json) : Except String ℕ := j.getNat?
def jInt (j : Json) : Except String Int := j.getInt?
def jBool (j : Json) : Except String Bool := j.getBool?
def jStr (j : Json) : Except String String := j.getStr?
def fld (j : Json) (k : String) : Except String Json := j.getObjVal? k
def fldD (j : Json) (k : String) (d : Json) : Json := (j.getObjVal? k).toOption.getD d

def jRatArr (j : Json) : Except String (Array ℚ) := do (← jArr j).mapM jRat
def jNatArr (j : Json) : Except String (Array ℕ) := do (← jArr j).mapM jNat
def jIntArr (j : Json) : Except String (Array Int) := do (← jArr j).mapM jInt
def jOptRatArr (j : Json) : Except String (Array (Option ℚ)) := do (← jArr j).mapM jOptRat
def jRatMat (j : Json) : Except String (Array (Array ℚ)) := do (← jArr j).mapM jRatArr
def jNatMat (j : Json) : Except String (Array (Array ℕ)) := do (← jArr j).mapM jNatArr

def oRat (r : ℚ) : Json := Json.str (ratStr r)
def oOptRat : Option ℚ → Json | none => Json.null | some v => oRat v
def oNat (n : ℕ) : Json := Json.num (n : Int)
def oInt (n : Int) : Json := Json.num n
def oRatVec (n : ℕ) (f : ℕ → ℚ) : Json := Json.arr ((List.range n).map fun i => oRat (f i)).toArray
def oOptRatVec (n : ℕ) (f : ℕ → Option ℚ) : Json := Json.arr ((List.range n).map fun i => oOptRat (f i)).toArray
def oRatMat (m n : ℕ) (f : ℕ → ℕ → ℚ) : Json := Json.arr ((List.range m).map fun i => oRatVec n (f i)).toArray
def oNatList (l : List ℕ) : Json := Json.arr (l.map oNat).toArray
def oNatLists (l : List (List ℕ)) : Json := Json.arr (l.map oNatList).toArray
def oBoolVec (n : ℕ) (f : ℕ → Bool) : Json := Json.arr ((List.range n).map fun i => oNat (if f i then 1 else 0)).toArray

/-- read a `LinProg ℚ` from {"nr","nc","a","b","eq","ub","lb","c"} -/
def readLinProg (j : Json) : Except String (LinProg ℚ) := do
  let nr ← jNat (← fld j "nr")
  let nc ← jNat (← fld j "nc")
  let a ← jRatMat (← fld j "a")
  let b ← jRatArr (← fld j "b")
  let eq ← jNatArr (← fld j "eq")
  let ub ← jOptRatArr (← fld j "ub")
  let lb ← jOptRatArr (← fld j "lb")
  let c ← jRatArr (← fld j "c")
  pure { nr := nr, nc := nc
         a := fun i k => (a.getD i #[]).getD k 0
         b := fun i => b.getD i 0
         eq := fun i => eq.getD i 0 == 1
         ub := fun k => ub.getD k none
         lb := fun k => lb.getD k none
         c := fun k => c.getD k 0 }

def writeLinProgFields (D : LinProg ℚ) : List (String × Json) := [
    ("nr", oNat D.nr), ("nc", oNat D.nc),
    ("a", oRatMat D.nr D.nc D.a),
    ("b", oRatVec D.nr D.b),
    ("eq", oBoolVec D.nr D.eq),
    ("ub", oOptRatVec D.nc D.ub),
    ("lb", oOptRatVec D.nc D.lb),
    ("c", oRatVec D.nc D.c)]

def writeLinProg (D : LinProg ℚ) : Json := Json.mkObj (writeLinProgFields D)

end RsomeV.Drv
