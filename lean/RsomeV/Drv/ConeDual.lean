import RsomeV.Drv.Json
import RsomeV.M.ConeDual
namespace RsomeV.Drv
open Lean

/-- read a `ConeProg ℚ`: LinProg fields + "sp" (stored columns per row, optional) + "qmat" + "xmat" -/
def readConeProg (j : Json) : Except String (ConeProg ℚ) := do
  let lp ← readLinProg j
  let qmat ← jNatMat (fldD j "qmat" (Json.arr #[]))
  let xmat ← jNatMat (fldD j "xmat" (Json.arr #[]))
  let st : ℕ → ℕ → Bool ← match (j.getObjVal? "sp").toOption with
    | some sp => do
        let rows ← jNatMat sp
        pure fun i k => (rows.getD i #[]).contains k
    | none => pure fun i k => decide (lp.a i k ≠ 0)
  pure { lp := lp, st := st, qmat := qmat.toList.map (·.toList), xmat := xmat.toList.map (·.toList) }

def writeConeProg (D : ConeProg ℚ) (extra : List (String × Json) := []) : Json :=
  Json.mkObj (writeLinProgFields D.lp ++ [
    ("qmat", oNatLists D.qmat), ("xmat", oNatLists D.xmat),
    ("sp", oNatLists ((List.range D.lp.nr).map fun i => (List.range D.lp.nc).filter fun k => D.st i k))] ++ extra)

/-- op "conic_dual": model of `gcp.Model.do_math(primal=False)` (LP + SOC layouts + exp block) -/
def opConicDual (j : Json) : Except String Json := do
  let P ← readConeProg (← fld j "prog")
  pure (writeConeProg P.coneDual [("branches", Json.arr (P.branches.map Json.str).toArray)])

end RsomeV.Drv
