import RsomeV.Drv.Json
import RsomeV.M.IPCone
namespace RsomeV.Drv
open Lean RsomeV.IPC

/-- variable naming of the `ipcone` op: `"x"`, `"r<i>"`, `"a<k>"` (k-th created variable) -/
def ipcVarStr : Var → String
  | .x => "x"
  | .r i => s!"r{i}"
  | .aux k => s!"a{k}"

def oIpcVar (v : Var) : Json := Json.str (ipcVarStr v)

/-- op "ipcone": `{"op":"ipcone","beta":[2,1,1]}` →
`{"ok":true,"pad":b,"abs":[[lhs,rhs],..],"cones":[[left,u,v],..],"naux":k,"auxflag":[1,0,..],
"calls":[[..],..]}` (`calls` = weight vectors `split` was invoked on, pre-order)
(`auxflag[k] = 1` iff the k-th created variable was created with `aux=True`) -/
def opIPCone (j : Json) : Except String Json := do
  let β ← jNatArr (← fld j "beta")
  match toSoc β.toList with
  | none => pure (Json.mkObj [("ok", Json.bool false)])
  | some o =>
    pure (Json.mkObj [
      ("ok", Json.bool true),
      ("pad", Json.bool o.pad),
      ("abs", Json.arr (o.absRows.map fun p => Json.arr #[oIpcVar p.1, oIpcVar p.2]).toArray),
      ("cones", Json.arr (o.cones.map fun c => Json.arr #[oIpcVar c.left, oIpcVar c.u, oIpcVar c.v]).toArray),
      ("naux", oNat o.flags.length),
      ("calls", oNatLists o.calls),
      ("auxflag", Json.arr (o.flags.map fun b => oNat (if b then 1 else 0)).toArray)])

end RsomeV.Drv
