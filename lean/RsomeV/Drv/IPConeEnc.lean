import RsomeV.Drv.Json
import RsomeV.Drv.ConeDual
import RsomeV.M.IPConeEnc
namespace RsomeV.Drv
open Lean RsomeV.IPC

/-- rows of a matrix + constants → affine expressions -/
def readAffsIPC (m : Array (Array ℚ)) (b : Array ℚ) : List (Aff ℚ) :=
  (List.range m.size).map fun i =>
    let row := m.getD i #[]
    ({ lin := fun j => row.getD j 0, c := b.getD i 0 } : Aff ℚ)

/-- op "atom_encode" for xtype 'G', 'T', 'C':
`{"op":"atom_encode","xtype":"G","ncols":n+1,"mult":"k","ain":[[..]],"bin":[..],"aout":[[..]],"bout":[..],
"params":P}` with `P` = the integer degree `p` or `[a,b]` ('G'; the model derives `β = [1,p-1]` / `[b,a-b]`),
`{"idx":[..],"p":[..],"q":[..]}` ('T': one triple per element of `np.broadcast(arange(size), p, q)`),
the weight list ('C').  Reply: the program in the format of `writeConeProg`. -/
def opAtomEncodeIPC (j : Json) : Except String Json := do
  let xt ← jStr (← fld j "xtype")
  let ncols ← jNat (← fld j "ncols")
  let k ← jRat (← fld j "mult")
  let ain := readAffsIPC (← jRatMat (← fld j "ain")) (← jRatArr (← fld j "bin"))
  let aout := readAffsIPC (← jRatMat (← fld j "aout")) (← jRatArr (← fld j "bout"))
  let pj ← fld j "params"
  let pr : Params ← match xt with
    | "G" =>
      match pj.getNat? with
      | .ok p => pure (Params.g [1, p - 1])
      | .error _ => do
        let ab ← jNatArr pj
        pure (Params.g [ab.getD 1 0, ab.getD 0 0 - ab.getD 1 0])
    | "T" => do
      let idx ← jNatArr (← fld pj "idx")
      let p ← jNatArr (← fld pj "p")
      let q ← jNatArr (← fld pj "q")
      pure (Params.t ((List.range idx.size).map fun i => (idx.getD i 0, p.getD i 0, q.getD i 0)))
    | "C" => do pure (Params.c (← jNatArr pj).toList)
    | _ => throw s!"atom_encode: unsupported xtype {xt}"
  match atomEncode ncols k ain aout pr with
  | none => throw "atom_encode: tower failed"
  | some P => pure (writeConeProg P)

end RsomeV.Drv
