import RsomeV.Drv.ConeDual
import RsomeV.M.Solvers
import Mathlib.Data.Rat.Floor
namespace RsomeV.Drv
open Lean RsomeV.Solvers

/-! Driver ops for the solver-interface model (`RsomeV/M/Solvers.lean`).

`{"op":"iface_data","iface":"def_sol"|"ecos"|"ortools"|"gurobi","prog":<ConeProg json + "vtype":"CBI…">}`
(`prog` as read by `readConeProg`: nr nc a b eq ub lb c qmat xmat and the optional stored pattern
`sp`; `vtype` one letter per column).  Rationals are "p/q" strings, `null` is ±∞ or Python `None`.

* def_sol → `{"call":"linprog","c":[…],"A_ub":[[…]]|null,"b_ub":[…]|null,"A_eq":…,"b_eq":…,
  "bounds":[[lb,ub],…]}` or `{"call":"milp","c":[…],"A":[[…]],"b_l":[…|null],"b_u":[…],"lb":[…],"ub":[…],
  "integrality":[0|1,…]}`
* ecos → `{"c":[…],"G":[[…]],"h":[…],"dims":{"l":n,"q":[…],"e":k},"A":[[…]]|null,"b":[…]|null,
  "bool":[…],"int":[…],"mixed":true|false}`
* ortools → `{"solver":"GLOP"|"SCIP","lb":[…],"ub":[…],"integer":[0|1,…],"obj":[…],
  "rows":[{"coef":[…],"lo":…|null,"hi":…},…]}`
* gurobi → `{"lb":[…],"ub":[…],"vtype":"CBI…","A_eq":…|null,"b_eq":…|null,"A_le":…|null,"b_le":…|null,
  "qcs":[{"left":[…],"right":[…]},…],"obj":[…]}`

`{"op":"iface_status","iface":"def_sol","status":k,"c":[…],"x":[…]}` /
`{"op":"iface_status","iface":"ecos","status":exitFlag,"pcost":"p/q","x":[…]}` →
`{"objval":…|null,"x":[…]|null,"status":k}` (`null` objval = `nan`, `null` x = `None`). -/

def oRows (n : ℕ) (l : List (ℕ → ℚ)) : Json := Json.arr (l.map fun g => oRatVec n g).toArray
def oVec (l : List ℚ) : Json := Json.arr (l.map oRat).toArray
def oOptRows (n : ℕ) : Option (List (ℕ → ℚ)) → Json
  | none => Json.null
  | some l => oRows n l
def oOptVec : Option (List ℚ) → Json
  | none => Json.null
  | some l => oVec l

def readVtype (j : Json) : Except String (ℕ → Char) := do
  match fldD j "vtype" Json.null with
  | .str s => let l := s.toList; pure fun k => l.getD k 'C'
  | .null => pure fun _ => 'C'
  | _ => throw "vtype: string expected"

def writeDefSol : DefSolArgs ℚ → Json
  | .linprog d => Json.mkObj [
      ("call", Json.str "linprog"), ("c", oRatVec d.n d.c),
      ("A_ub", oOptRows d.n d.aUb), ("b_ub", oOptVec d.bUb),
      ("A_eq", oOptRows d.n d.aEq), ("b_eq", oOptVec d.bEq),
      ("bounds", Json.arr ((List.range d.n).map fun k =>
        Json.arr #[oOptRat (d.lb k), oOptRat (d.ub k)]).toArray)]
  | .milp d => Json.mkObj [
      ("call", Json.str "milp"), ("c", oRatVec d.n d.c),
      ("A", oRatMat d.m d.n d.a), ("b_l", oOptRatVec d.m d.bl), ("b_u", oRatVec d.m d.bu),
      ("lb", oOptRatVec d.n d.lb), ("ub", oOptRatVec d.n d.ub),
      ("integrality", oBoolVec d.n d.integrality)]

def writeEcos (d : EcosArgs ℚ) : Json := Json.mkObj [
  ("c", oRatVec d.n d.c), ("G", oRows d.n d.G), ("h", oVec d.h),
  ("dims", Json.mkObj [("l", oNat d.dimL), ("q", oNatList d.dimQ), ("e", oNat d.dimE)]),
  ("A", oOptRows d.n d.A), ("b", oOptVec d.b),
  ("bool", oNatList d.boolIdx), ("int", oNatList d.intIdx), ("mixed", Json.bool d.mixed)]

def writeOrt (d : OrtArgs ℚ) : Json := Json.mkObj [
  ("solver", Json.str d.solver),
  ("lb", oOptRatVec d.n d.lb), ("ub", oOptRatVec d.n d.ub),
  ("integer", oBoolVec d.n d.integer), ("obj", oRatVec d.n d.obj),
  ("rows", Json.arr (d.rows.map fun r => Json.mkObj [
    ("coef", oRatVec d.n r.coef), ("lo", oOptRat r.lo), ("hi", oRat r.hi)]).toArray)]

def writeGrb (d : GrbArgs ℚ) : Json := Json.mkObj [
  ("lb", oOptRatVec d.n d.lb), ("ub", oOptRatVec d.n d.ub),
  ("vtype", Json.str (String.ofList ((List.range d.n).map d.vtype))),
  ("A_eq", oOptRows d.n d.aEq), ("b_eq", oOptVec d.bEq),
  ("A_le", oOptRows d.n d.aLe), ("b_le", oOptVec d.bLe),
  ("qcs", Json.arr (d.qcs.map fun c => Json.mkObj [
    ("left", oNatList c.left), ("right", oNatList c.right)]).toArray),
  ("obj", oRatVec d.n d.obj)]

/-- op "iface_data" -/
def opIfaceData (j : Json) : Except String Json := do
  let pj ← fld j "prog"
  let P ← readConeProg pj
  let vt ← readVtype pj
  match ← jStr (← fld j "iface") with
  | "def_sol" => pure (writeDefSol (defSol P vt))
  | "ecos" => pure (writeEcos (ecos P vt))
  | "ortools" => pure (writeOrt (ortools P vt))
  | "gurobi" => pure (writeGrb (gurobi P vt))
  | s => throw s!"unknown iface {s}"

def writeSol (n : ℕ) (s : Sol ℚ) : Json := Json.mkObj [
  ("objval", oOptRat s.objval),
  ("x", match s.x with | none => Json.null | some x => oRatVec n x),
  ("status", oInt s.status)]

/-- op "iface_status" -/
def opIfaceStatus (j : Json) : Except String Json := do
  let status ← jInt (← fld j "status")
  let x ← jRatArr (← fld j "x")
  let xf : ℕ → ℚ := fun k => x.getD k 0
  match ← jStr (← fld j "iface") with
  | "def_sol" =>
      let c ← jRatArr (← fld j "c")
      pure (writeSol x.size (defSolSolution c.size (fun k => c.getD k 0) status xf))
  | "ecos" =>
      let pc ← jRat (← fld j "pcost")
      pure (writeSol x.size (ecosSolution status pc xf))
  | "gurobi" =>
      let ov ← jRat (← fld j "objval")
      let inc ← jInt (← fld j "inc")
      pure (writeSol x.size (grbSolution status (inc != 0) ov xf))
  | "ortools" =>
      let ov ← jRat (← fld j "objval")
      pure (writeSol x.size (ortSolution status ov xf))
  | s => throw s!"unknown iface {s}"

end RsomeV.Drv
