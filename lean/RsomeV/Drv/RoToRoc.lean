import RsomeV.Drv.DroRows
import RsomeV.Drv.Partition
import RsomeV.M.RoToRoc
namespace RsomeV.Drv
open Lean RsomeV.Partition RsomeV.RoToRoc

/-! op "ro_to_roc": model of `dro.Model.ro_to_roc(constr)` for a `DecRoConstr` / `DecLinConstr`.

Request
```
{"op":"ro_to_roc","S":<num_scen>,"nrand":<num_rand>,"nd":<padding width of the items>,
 "constr":{"kind":"ro"|"lin","eq":0|1,"rows":<rows_json over the num_var vt columns>,"rst":[d,…]},
 "amb":"own"|"list"|"default"|"none",
 "c0":<first rc_model column of var_const>,
 "decs":[{"size":..,"events":[[s,…],…],"mask":[[0|1,…],…]},…]}      -- dec_vars (epigraph variable first)
```
The rule tables are computed by `Rule.ofDecs` from the partition bookkeeping model.
Reply: `{"raises":"SyntaxError: …"}` or
`{"items":[{"h":0|1,"s":..,"kind":"ro"|"lin","tag":"own"|"default"|"list"|null,"tag_s":..|null,"eq":0|1,
            "rows":<rows_json>},…]}`, both with
`"split":0|1,"is_ro":0|1,"n0":<columns after rule_var>,"rule":{"nv":..,"cc":[s][d],"mask":[d][j],"lcol":[s][d][j]}`. -/

def readDecM (d : Json) : Except String DecM := do
  let size ← jNat (← fld d "size")
  let ev ← readEvents (← fld d "events")
  let mk ← readMask (← fld d "mask")
  pure { size := size, events := ev, mask := mk }

def opRoToRoc (j : Json) : Except String Json := do
  let S ← jNat (← fld j "S")
  let nrand ← jNat (← fld j "nrand")
  let nd ← jNat (← fld j "nd")
  let cj ← fld j "constr"
  let kind ← jStr (← fld cj "kind")
  let kind ← (match kind with
    | "ro" => pure Kind.ro | "lin" => pure Kind.lin | k => throw s!"unknown kind {k}" : Except String Kind)
  let eq ← jNat (← fld cj "eq")
  let rows ← readRoRows (← fld cj "rows")
  let rst ← jNatArr (← fld cj "rst")
  let amb ← jStr (← fld j "amb")
  let amb ← (match amb with
    | "own" => pure AmbSel.own | "list" => pure AmbSel.list | "default" => pure AmbSel.dflt
    | "none" => pure AmbSel.none | a => throw s!"unknown amb {a}" : Except String AmbSel)
  let c0 ← jNat (← fld j "c0")
  let ds ← (← jArr (← fld j "decs")).mapM readDecM
  let dl := ds.toList
  let r := Rule.ofDecs c0 nrand dl
  let C : Constr ℚ := { kind := kind, eq := eq == 1, rows := rows, rst := fun d => rst.contains d }
  let common : List (String × Json) := [
    ("split", oNat (if splits C r then 1 else 0)),
    ("is_ro", oNat (if r.isRo nrand then 1 else 0)),
    ("n0", oNat (ruleWidth c0 dl)),
    ("rule", Json.mkObj [
      ("nv", oNat r.nv),
      ("cc", oNatLists ((List.range S).map fun s => (List.range r.nv).map fun d => r.cc s d)),
      ("mask", Json.arr ((List.range r.nv).map fun d => oBoolVec nrand (r.mask d)).toArray),
      ("lcol", Json.arr ((List.range S).map fun s =>
        oNatLists ((List.range r.nv).map fun d => (List.range nrand).map fun k => r.lcol s d k)).toArray)])]
  match roToRoc C r S amb (fun _ _ => nd) with
  | .error e => pure (Json.mkObj (("raises", Json.str e.msg) :: common))
  | .ok items =>
    pure (Json.mkObj (("items", Json.arr (items.map fun it => Json.mkObj [
        ("h", oNat it.h), ("s", oNat it.s),
        ("kind", Json.str (if it.tag.isSome then "ro" else "lin")),
        ("tag", match it.tag with
          | some (.own _) => Json.str "own" | some (.dflt _) => Json.str "default"
          | some .list => Json.str "list" | none => Json.null),
        ("tag_s", match it.tag with
          | some (.own s) => oNat s | some (.dflt s) => oNat s | _ => Json.null),
        ("eq", oNat (if it.eq then 1 else 0)),
        ("rows", writeRoRows it.row)]).toArray) :: common))

end RsomeV.Drv
