import RsomeV.Drv.ConeDual
import RsomeV.M.Robust
namespace RsomeV.Drv
open Lean

def readRoRows (j : Json) : Except String (RoRows ℚ) := do
  let nd ← jNat (← fld j "nd")
  let m ← jNat (← fld j "m")
  let nz ← jNat (← fld j "nz")
  let rl ← (← jArr (← fld j "Rl")).mapM jRatMat      -- [n][j][d]
  let rc ← jRatMat (← fld j "Rc")
  let al ← jRatMat (← fld j "al")
  let ac ← jRatArr (← fld j "ac")
  pure { nd := nd, m := m, nz := nz
         Rl := fun n k d => (((rl.getD n #[]).getD k #[]).getD d 0)
         Rc := fun n k => (rc.getD n #[]).getD k 0
         al := fun n d => (al.getD n #[]).getD d 0
         ac := fun n => ac.getD n 0 }

/-- op "le_to_rc": model of `RoConstr.le_to_rc(support)` -/
def opLeToRc (j : Json) : Except String Json := do
  let S ← readConeProg (← fld j "support")
  let R ← readRoRows (← fld j "rows")
  let F := R.leToRc S
  pure (writeConeProg F.prog [("n1", oNat F.n1), ("n2", oNat F.n2), ("n3", oNat F.n3), ("n4", oNat F.n4)])

end RsomeV.Drv
