import RsomeV.Drv.AtomsSoc
import RsomeV.Drv.AtomsExp
import RsomeV.Drv.IPConeEnc
import RsomeV.M.DetModel
namespace RsomeV.Drv
open Lean RsomeV.Det

namespace DetModel

/-- parameters of a G / T / C atom (same conventions as op "atom_encode") -/
def readIpcParams (xt : String) (pj : Json) : Except String IPC.Params :=
  match xt with
  | "G" =>
    match pj.getNat? with
    | .ok p => pure (IPC.Params.g [1, p - 1])
    | .error _ => do
      let ab ← jNatArr pj
      pure (IPC.Params.g [ab.getD 1 0, ab.getD 0 0 - ab.getD 1 0])
  | "T" => do
    let idx ← jNatArr (← fld pj "idx")
    let p ← jNatArr (← fld pj "p")
    let q ← jNatArr (← fld pj "q")
    pure (IPC.Params.t ((List.range idx.size).map fun i => (idx.getD i 0, p.getD i 0, q.getD i 0)))
  | "C" => do pure (IPC.Params.c (← jNatArr pj).toList)
  | _ => throw s!"det_model: unsupported xtype {xt}"

/-- one atom object, in the format of the per-atom op "atom_encode" (without "op" / "ncols") -/
def readDAtom (ncols : ℕ) (j0 : Json) : Except String (DAtom ℚ) := do
  let j := j0.mergeObj (Json.mkObj [("ncols", oNat ncols)])
  let xt ← jStr (← fld j "xtype")
  if ["A", "M", "I", "E", "S", "Q"].contains xt then
    let some x := XType.ofString? xt | throw s!"unsupported xtype {xt}"
    pure (.soc x (← readAtomIn j))
  else if ["G", "T", "C"].contains xt then
    let k ← jRat (← fld j "mult")
    let ain := readAffsIPC (← jRatMat (← fld j "ain")) (← jRatArr (← fld j "bin"))
    let aout := readAffsIPC (← jRatMat (← fld j "aout")) (← jRatArr (← fld j "bout"))
    pure (.ipc k ain aout (← readIpcParams xt (← fld j "params")))
  else
    pure (.exp (← AtomsExp.readAtomExp ncols j))

def readItem (ncols : ℕ) (j : Json) : Except String (Option (Item ℚ)) := do
  let kind ← jStr (← fld j "kind")
  match kind with
  | "row" =>
    let lin ← jRatArr (← fld j "lin")
    let rhs ← jRat (← fld j "rhs")
    let eq ← jNat (← fld j "eq")
    pure (some (.row ⟨fun c => if c < ncols then lin.getD c 0 else 0, rhs, eq == 1⟩))
  | "bound" =>
    let t ← jStr (← fld j "btype")
    let idx ← jNatArr (← fld j "idx")
    let vals ← jRatArr (← fld j "vals")
    if idx.size ≠ vals.size then throw "indices/values length mismatch"
    -- `btype` other than 'U' / 'L' is skipped by the fold
    if t == "U" || t == "L" then pure (some (.bound ⟨t == "U", idx.toList.zip vals.toList⟩))
    else pure none
  | "atom" => pure (some (.atom (← readDAtom ncols j)))
  | _ => throw s!"det_model: unknown item kind {kind}"

def readObj (ncols : ℕ) (j : Json) : Except String (Obj ℚ) := do
  if j.isNull then return .none
  let kind ← jStr (← fld j "kind")
  let sg ← jRat (← fld j "sign")
  match kind with
  | "affine" =>
    let lin ← jRatArr (← fld j "lin")
    let c ← jRat (← fld j "const")
    pure (.affine sg (fun k => if k < ncols then lin.getD k 0 else 0) c)
  | "atom" => pure (.atom sg (← readDAtom ncols j))
  | _ => throw s!"det_model: unknown objective kind {kind}"

def readDesc (j : Json) : Except String (Desc ℚ) := do
  let ncols ← jNat (← fld j "ncols")
  let top ← jNat (fldD j "top" (oNat 2))
  let uv ← readUserVars j ncols
  let items ← (← jArr (← fld j "items")).toList.mapM (readItem ncols)
  let obj ← readObj ncols (fldD j "obj" Json.null)
  pure { top := top, ncols := ncols, userVars := uv, items := items.filterMap id, obj := obj }

end DetModel

/-- op "det_model":
`{"op":"det_model","top":0|1|2,"ncols":n,"uservars":[[vtype,size],..],"items":[item..],"obj":O}` with
items `{"kind":"row","lin":[..],"rhs":r,"eq":0|1}`, `{"kind":"bound","btype":"U"|"L","idx":[..],"vals":[..]}`,
`{"kind":"atom", <fields of op "atom_encode">}` in `st` order, and `O` = `null`,
`{"kind":"affine","sign":s,"lin":[..],"const":c}` or `{"kind":"atom","sign":s, <atom fields>}`.
Reply: the whole compiled program (`writeConeProg` format) + `"vtype"`. -/
def opDetModel (j : Json) : Except String Json := do
  let D ← DetModel.readDesc j
  match detModel D, detVtype D with
  | some P, some vt => pure (writeConeProg P [("vtype", Json.str (String.ofList vt))])
  | _, _ => throw "det_model: a tower of a G/T/C constraint cannot be built"

end RsomeV.Drv
