import RsomeV.Drv.ConeDual
import RsomeV.M.Lmi
namespace RsomeV.Drv
open Lean

/-- read one LMI block `{"dim", "w", "linear" (dim² × w), "const" (dim²)}` -/
def readLmiBlock (j : Json) : Except String (LmiBlock ℚ) := do
  let dim ← jNat (← fld j "dim")
  let w ← jNat (← fld j "w")
  let lin ← jRatMat (← fld j "linear")
  let const ← jRatArr (← fld j "const")
  if lin.size ≠ dim ^ 2 then throw "lmi: linear must have dim² rows"
  if const.size ≠ dim ^ 2 then throw "lmi: const must have dim² entries"
  pure { dim := dim, w := w
         lin := fun e c => (lin.getD e #[]).getD c 0
         const := fun e => const.getD e 0 }

/-- read an `LmiProg ℚ`: the `ConeProg` fields plus "lmi" -/
def readLmiProg (j : Json) : Except String (LmiProg ℚ) := do
  let cone ← readConeProg j
  let blocks ← (← jArr (fldD j "lmi" (Json.arr #[]))).mapM readLmiBlock
  pure { cone := cone, lmi := blocks.toList }

def writeLmiBlock (B : LmiBlock ℚ) : Json :=
  Json.mkObj [("dim", oNat B.dim), ("w", oNat B.w),
              ("linear", oRatMat (B.dim ^ 2) B.w B.lin),
              ("const", oRatVec (B.dim ^ 2) B.const)]

/-- op "lmi_dual": model of `gcp.Model.do_math(primal=False)` for programs with LMI blocks.
request  `{"op":"lmi_dual","prog":{nr,nc,a,b,eq,ub,lb,c,sp?,qmat,xmat,lmi:[{dim,w,linear,const}]}}`
reply    `{nr,nc,a,b,eq,ub,lb,c,qmat,xmat,sp,lmi:[{dim,w,linear,const}],branches}` -/
def opLmiDual (j : Json) : Except String Json := do
  let P ← readLmiProg (← fld j "prog")
  let D := P.lmiDual
  pure (writeConeProg D.cone [("lmi", Json.arr (D.lmi.map writeLmiBlock).toArray),
                               ("branches", Json.arr (P.branches.map Json.str).toArray)])

/-- op "rc_lmi": the LMI constraints `RoConstr.le_to_rc(support)` appends (model `RoRows.rcLmi`).
request  `{"op":"rc_lmi","nd":…,"m":…,"support":{…prog fields…, lmi:[…]}}`
reply    `{"lmi":[{dim,w,linear,const}, …]}` in the order of the returned list -/
def opRcLmi (j : Json) : Except String Json := do
  let S ← readLmiProg (← fld j "support")
  let nd ← jNat (← fld j "nd")
  let m ← jNat (← fld j "m")
  let R : RoRows ℚ := { nd := nd, m := m, nz := 0, Rl := fun _ _ _ => 0, Rc := fun _ _ => 0,
                        al := fun _ _ => 0, ac := fun _ => 0 }
  pure (Json.mkObj [("lmi", Json.arr ((R.rcLmi S).map writeLmiBlock).toArray)])

end RsomeV.Drv
