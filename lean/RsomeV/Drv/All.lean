import RsomeV.Drv.LpDual
import RsomeV.Drv.ConeDual
import RsomeV.Drv.Robust
import RsomeV.Drv.Partition
import RsomeV.Drv.Curv
import RsomeV.Drv.NdArray
import RsomeV.Drv.AtomsSoc
import RsomeV.Drv.AtomsExp
import RsomeV.Drv.AtomsSum
import RsomeV.Drv.IPCone
import RsomeV.Drv.IPConeEnc
import RsomeV.Drv.Export
import RsomeV.Drv.Dro
import RsomeV.Drv.Solvers
import RsomeV.Drv.DualCert
import RsomeV.Drv.SocApprox
import RsomeV.Drv.DroRows
import RsomeV.Drv.RoModel
import RsomeV.Drv.RoToRoc
import RsomeV.Drv.ShowTable
import RsomeV.Drv.AffExpr
import RsomeV.Drv.DetModel
import RsomeV.Drv.AffTri
import RsomeV.Drv.Lmi
import RsomeV.Drv.DroModel
import RsomeV.Drv.Assign
import RsomeV.Drv.RobustStray
open Lean
namespace RsomeV.Drv
/-- every operation of the line protocol -/
def dispatch (op : String) (j : Json) : Except String Json :=
  match op with
  | "lp_dual" => opLpDual j
  | "conic_dual" => opConicDual j
  | "le_to_rc" => opLeToRc j
  | "le_to_rc_k" => opLeToRcK j
  | "evt_seq" => opEvtSeq j
  | "comb_set" => opCombSet j
  | "rule_cols" => opRuleCols j
  | "aff_seq" => opAffSeq j
  | "rule_lin" => opRuleLin j
  | "curv_chain" => opCurvChain j
  | "pw_chain" => opPwChain j
  | "nd_ravel" => opNdRavel j
  | "nd_unravel" => opNdUnravel j
  | "nd_bcast" => opNdBcast j
  | "nd_transpose" => opNdTranspose j
  | "nd_swaplast" => opNdSwapLast j
  | "nd_matmul" => opNdMatmul j
  | "nd_slice" => opNdSlice j
  | "nd_sum_axis" => opNdSumAxis j
  | "nd_concat" => opNdConcat j
  | "nd_diag" => opNdDiag j
  | "atom_encode" =>
      (match fldD j "xtype" Json.null with
       | .str x => if x ∈ ["A", "M", "I", "E", "S", "Q"] then opAtomEncode j
                   else if x ∈ ["G", "T", "C"] then opAtomEncodeIPC j else opAtomEncodeExp j
       | _ => opAtomEncodeExp j)
  | "atoms_exp_encode" => opAtomsExpEncode j
  | "atom_sum_encode" => opAtomSumEncode j
  | "ipcone" => opIPCone j
  | "lp_render" => opLpRender j
  | "mix_support" => opMixSupport j
  | "iface_data" => opIfaceData j
  | "iface_status" => opIfaceStatus j
  | "dual_compile" => opDualCompile j
  | "dual_readback" => opDualReadback j
  | "to_socp" => opToSocp j
  | "rsocone_encode" => opRsoconeEncode j
  | "fold_bounds" => opFoldBounds j
  | "vtype_vector" => opVtypeVector j
  | "dro_to_roc" => opDroToRoc j
  | "ro_model" => opRoModel j
  | "ro_to_roc" => opRoToRoc j
  | "show_table" => opShowTable j
  | "aff_expr" => opAffExpr j
  | "det_model" => opDetModel j
  | "aff_tri" => opAffTri j
  | "lmi_dual" => opLmiDual j
  | "rc_lmi" => opRcLmi j
  | "dro_model" => opDroModel j
  | "assign_call" => opAssignCall j
  | _ => throw s!"unknown op {op}"
end RsomeV.Drv
