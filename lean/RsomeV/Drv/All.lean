import RsomeV.Drv.LpDual
import RsomeV.Drv.ConeDual
open Lean
namespace RsomeV.Drv
/-- every operation of the line protocol -/
def dispatch (op : String) (j : Json) : Except String Json :=
  match op with
  | "lp_dual" => opLpDual j
  | "conic_dual" => opConicDual j
  | _ => throw s!"unknown op {op}"
end RsomeV.Drv
