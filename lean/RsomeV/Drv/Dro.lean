import RsomeV.Drv.ConeDual
import RsomeV.M.Dro
namespace RsomeV.Drv
open Lean

/-- the well-formedness hypotheses of `C03.mixSupport_lift` / `C03.dro_sound_compiled` on the
inputs (`hst`, `hqp`, `hxl`, `hxp`, `hqe`, `hxle`, `hxe`, `hidx`), checked on the in-range entries -/
def wfInputs (pro : ConeProg ℚ) (exps : List (ConeProg ℚ × List ℕ)) : Bool :=
  ((List.range pro.lp.nr).all fun i => (List.range pro.lp.nc).all fun j =>
      decide (pro.lp.a i j = 0) || pro.st i j) &&
  (pro.qmat.all fun q => q.all fun j => decide (j < pro.lp.nc)) &&
  (pro.xmat.all fun e => e.length == 3 && e.all fun j => decide (j < pro.lp.nc)) &&
  (exps.all fun e => (e.1.qmat.all fun q => q.all fun j => decide (j < e.1.lp.nc)) &&
      (e.1.xmat.all fun x => x.length == 3 && x.all fun j => decide (j < e.1.lp.nc)) &&
      e.2.all fun s => decide (s < pro.lp.nc))

/-- op "mix_support": model of `Ambiguity.mix_support(primal=True)`.
`{"op":"mix_support","pro":<ConeProg>,"exps":[{"prog":<ConeProg>,"indices":[..]},…]}` → ConeProg
(+ `"rows_removed"`: does the conic dual of the result take the compact layout?
   `"wf_inputs"`: do the well-formedness hypotheses of the C03 theorems hold on the inputs?) -/
def opMixSupport (j : Json) : Except String Json := do
  let pro ← readConeProg (← fld j "pro")
  let es ← jArr (← fld j "exps")
  let exps ← es.toList.mapM fun e => do
    let P ← readConeProg (← fld e "prog")
    let ix ← jNatArr (← fld e "indices")
    pure (P, ix.toList)
  let M := Dro.mixSupport pro exps
  pure (writeConeProg M [("rows_removed", Json.bool M.rowsRemoved),
    ("wf_inputs", Json.bool (wfInputs pro exps))])

end RsomeV.Drv
