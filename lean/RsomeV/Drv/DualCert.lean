import RsomeV.Drv.AtomsSoc
import RsomeV.M.DualCert
namespace RsomeV.Drv
open Lean RsomeV.DualCert

def oOptNat : Option ℕ → Json | none => Json.null | some v => oNat v

def jOptNat (j : Json) : Except String (Option ℕ) :=
  if j.isNull then pure none else (jNat j).map some

def readSense (s : String) : Except String Sense :=
  match s with
  | "le" => pure .le | "ge" => pure .ge | "eq" => pure .eq
  | _ => throw s!"bad sense {s}"

/-- read a `UserLP ℚ` from
`{"n","is_max","c":[n+1 entries, c[0] unused],"c0","base","blocks":[{"a","b","sense"}],"bounds":[[t,[idx],[vals]]]}`;
blocks come in the user's orientation (`le`/`ge`/`eq`) and are stored through `UBlock.stored` -/
def readUserLP (j : Json) : Except String (UserLP ℚ) := do
  let n ← jNat (← fld j "n")
  let isMax ← jBool (← fld j "is_max")
  let c ← jRatArr (← fld j "c")
  let c0 ← jRat (← fld j "c0")
  let base ← jNat (fldD j "base" (Json.num 0))
  let bs ← jArr (← fld j "blocks")
  let blocks ← bs.toList.mapM fun e => do
    let a ← jRatMat (← fld e "a")
    let b ← jRatArr (← fld e "b")
    let s ← readSense (← jStr (← fld e "sense"))
    if a.size ≠ b.size then throw "a/b row mismatch"
    let ub : UBlock ℚ := ⟨b.size, fun r k => (a.getD r #[]).getD k 0, fun r => b.getD r 0, s⟩
    pure ub.stored
  pure { n := n, isMax := isMax, c := fun k => c.getD k 0, c0 := c0, blocks := blocks,
         bounds := (← readBounds j), base := base }

/-- op "dual_compile": model of `do_math()` for a continuous LP written through the API:
the compiled `LinProg`, `Model.ciarray` and the first row of every block -/
def opDualCompile (j : Json) : Except String Json := do
  let U ← readUserLP j
  pure (Json.mkObj (writeLinProgFields U.compile ++
    [("ciarray", Json.arr (U.ciarray.map oOptNat).toArray),
     ("offsets", oNatList ((List.range U.blocks.length).map U.offset))]))

/-- op "dual_readback":
`{"sign":±1,"ciarray":[k|null..],"pi":[..],"upi":[..],"lpi":[..],"ub":[..|null],"lb":[..|null],
  "queries":[{"kind":"lin","index":k} | {"kind":"U"|"L","indices":[..],"values":[..]}]}`
→ `{"duals":[[..],..]}`: what `LinConstr.dual()` / `Bounds.dual()` return (as flat lists) -/
def opDualReadback (j : Json) : Except String Json := do
  let sign ← jInt (← fld j "sign")
  let ci ← (← jArr (← fld j "ciarray")).toList.mapM jOptNat
  let pi ← jRatArr (← fld j "pi")
  let upi ← jRatArr (← fld j "upi")
  let lpi ← jRatArr (← fld j "lpi")
  let ub ← jOptRatArr (← fld j "ub")
  let lb ← jOptRatArr (← fld j "lb")
  let qs ← jArr (← fld j "queries")
  let sg : ℚ := (sign : ℚ)
  let res ← qs.toList.mapM fun q => do
    let kind ← jStr (← fld q "kind")
    if kind == "lin" then
      let idx ← jNat (← fld q "index")
      pure (dualLin sg ci (fun i => pi.getD i 0) idx)
    else if kind == "U" || kind == "L" then
      let idx ← jNatArr (← fld q "indices")
      let vals ← jRatArr (← fld q "values")
      if idx.size ≠ vals.size then throw "indices/values length mismatch"
      let B : Bound ℚ := ⟨kind == "U", idx.toList.zip vals.toList⟩
      pure (dualBound sg (fun k => ub.getD k none) (fun k => lb.getD k none)
        (fun k => upi.getD k 0) (fun k => lpi.getD k 0) B)
    else throw s!"unknown bounds kind {kind}"
  pure (Json.mkObj [("duals", Json.arr (res.map fun l => Json.arr (l.map oRat).toArray).toArray)])

end RsomeV.Drv
