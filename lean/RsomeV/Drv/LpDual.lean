import RsomeV.Drv.Json
namespace RsomeV.Drv
open Lean
/-- op "lp_dual": primal standard form in, model of `lp.Model.do_math(primal=False)` out -/
def opLpDual (j : Json) : Except String Json := do
  let P ← readLinProg (← fld j "prog")
  pure (writeLinProg P.dual)
end RsomeV.Drv
