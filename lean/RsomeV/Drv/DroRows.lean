import RsomeV.Drv.Dro
import RsomeV.Drv.Robust
import RsomeV.M.DroRows
namespace RsomeV.Drv
open Lean

/-- a block of uncertain rows in the `rows_json` format of the harness -/
def writeRoRows (R : RoRows ℚ) : Json :=
  Json.mkObj [
    ("nd", oNat R.nd), ("m", oNat R.m), ("nz", oNat R.nz),
    ("Rl", Json.arr ((List.range R.m).map fun n => oRatMat R.nz R.nd (R.Rl n)).toArray),
    ("Rc", oRatMat R.m R.nz R.Rc),
    ("al", oRatMat R.m R.nd R.al),
    ("ac", oRatVec R.m R.ac)]

/-- op "dro_to_roc": model of the rows `dro.Model.dro_to_roc` emits for one row of an expectation
constraint.
`{"op":"dro_to_roc","pro":<ConeProg>,"exps":[{"prog":<ConeProg>,"indices":[..]},…],
  "S":..,"nrand":..,"acol0":..,"np":..,"rand":[0/1 per piece],"rule_ro":0/1,"nd2":..,
  "pieces":[ per scenario [ per piece {"Rl":[j][d],"Rc":[j],"al":[d],"ac":".."} ] ]}`
→ `{"first": rows, "first_rc": <le_to_rc fragment of the first-stage row over the conic dual of the
     mixed support, + n1..n4>, "second":[{"s":..,"l":..,"lin":0/1,"rows": rows},…],
    "rows_removed":…, "wf_inputs":…}` -/
def opDroToRoc (j : Json) : Except String Json := do
  let pro ← readConeProg (← fld j "pro")
  let es ← jArr (← fld j "exps")
  let exps ← es.toList.mapM fun e => do
    let P ← readConeProg (← fld e "prog")
    let ix ← jNatArr (← fld e "indices")
    pure (P, ix.toList)
  let S ← jNat (← fld j "S")
  let nrand ← jNat (← fld j "nrand")
  let acol0 ← jNat (← fld j "acol0")
  let np ← jNat (← fld j "np")
  let rand ← jNatArr (← fld j "rand")
  let ruleRo ← jNat (← fld j "rule_ro")
  let nd2 ← jNat (← fld j "nd2")
  let ps ← (← jArr (← fld j "pieces")).mapM fun sj => do
    (← jArr sj).mapM fun pj => do
      let rl ← jRatMat (← fld pj "Rl")
      let rc ← jRatArr (← fld pj "Rc")
      let al ← jRatArr (← fld pj "al")
      let ac ← jRat (← fld pj "ac")
      pure (rl, rc, al, ac)
  let dflt : Array (Array ℚ) × Array ℚ × Array ℚ × ℚ := (#[], #[], #[], 0)
  let pc : ℕ → ℕ → Array (Array ℚ) × Array ℚ × Array ℚ × ℚ := fun s l => (ps.getD s #[]).getD l dflt
  let I : Dro.DroIn ℚ :=
    { S := S, nrand := nrand, acol0 := acol0, np := np
      rand := fun l => rand.getD l 0 == 1
      ruleRo := ruleRo == 1
      Rl := fun s l k d => ((pc s l).1.getD k #[]).getD d 0
      Rc := fun s l k => (pc s l).2.1.getD k 0
      al := fun s l d => (pc s l).2.2.1.getD d 0
      ac := fun s l => (pc s l).2.2.2 }
  let O := Dro.droToRoc pro exps I (fun _ _ => nd2)
  let M := Dro.mixSupport pro exps
  let F := O.first.leToRc M.coneDual
  pure (Json.mkObj [
    ("first", writeRoRows O.first),
    ("first_rc", writeConeProg F.prog [("n1", oNat F.n1), ("n2", oNat F.n2), ("n3", oNat F.n3), ("n4", oNat F.n4)]),
    ("second", Json.arr (O.second.map fun r => Json.mkObj [
        ("s", oNat r.s), ("l", oNat r.l), ("lin", oNat (if r.lin then 1 else 0)),
        ("rows", writeRoRows r.row)]).toArray),
    ("rows_removed", Json.bool M.rowsRemoved),
    ("wf_inputs", Json.bool (wfInputs pro exps))])

end RsomeV.Drv
