import RsomeV.Drv.ConeDual
import RsomeV.M.AtomsExp
namespace RsomeV.Drv
open Lean RsomeV.AExp
namespace AtomsExp

/-- rows of a matrix + constants as `Aff` entries over the first `ncols` columns -/
def readAffs (ncols : ℕ) (j : Json) (mk vk : String) : Except String (List (Aff ℚ)) := do
  let m ← jRatMat (← fld j mk)
  let v ← jRatArr (← fld j vk)
  if m.size ≠ v.size then throw s!"{mk}/{vk}: size mismatch"
  pure ((List.range m.size).map fun i =>
    let row := m.getD i #[]
    Aff.ofRow ncols (fun k => row.getD k 0) (v.getD i 0))

def readShape (j : Json) (k : String) (dflt : ℕ) : Except String (List ℕ) :=
  match (j.getObjVal? k).toOption with
  | some s => do pure (← jNatArr s).toList
  | none => pure [dflt]

/-- one atom object: {"xtype","mult","ain","bin","aout","bout"[,"in_shape","out_shape"]
[,"ascale","bscale"[,"scale_shape"]]} or {"xtype":"K","p","pb","phat","r"} -/
def readAtomExp (ncols : ℕ) (j : Json) : Except String (Atom ℚ) := do
  let xt ← jStr (← fld j "xtype")
  if xt == "K" then
    let p ← readAffs ncols j "p" "pb"
    let phat ← jRatArr (← fld j "phat")
    let r ← jRat (← fld j "r")
    return .kl ⟨p, phat.toList, r⟩
  let mult ← jRat (← fld j "mult")
  let ain ← readAffs ncols j "ain" "bin"
  let aout ← readAffs ncols j "aout" "bout"
  let ish ← readShape j "in_shape" ain.length
  let osh ← readShape j "out_shape" aout.length
  let R : CvxReq ℚ := ⟨mult, ain, aout, ish, osh⟩
  match (j.getObjVal? "ascale").toOption with
  | some _ =>
    let asc ← readAffs ncols j "ascale" "bscale"
    let ssh ← readShape j "scale_shape" asc.length
    let P : PCvxReq ℚ := { R with ascale := asc, scShape := ssh }
    match xt with
    | "X" => pure (.pexp P)
    | "L" => pure (.plog P)
    | _ => throw s!"atom_encode(exp): unsupported perspective xtype {xt}"
  | none =>
    match xt with
    | "X" => pure (.exp R)
    | "L" => pure (.log R)
    | "P" => pure (.entropy R)
    | "F" => pure (.softplus R)
    | _ => throw s!"atom_encode(exp): unsupported xtype {xt}"

/-- does this handler own the request's xtype? (for chaining with other `atom_encode` handlers) -/
def isExpAtomXtype (xt : String) : Bool := ["X", "L", "P", "F", "K"].contains xt

end AtomsExp
open AtomsExp

/-- op "atom_encode" for xtypes X, L, P, F (+ perspective X, L) and K: model of the standard form
`gcp.Model.do_math()` builds for a model holding this single constraint -/
def opAtomEncodeExp (j : Json) : Except String Json := do
  let ncols ← jNat (← fld j "ncols")
  let a ← readAtomExp ncols j
  pure (writeConeProg (encodeAtom ncols a).prog)

/-- op "atoms_exp_encode": {"ncols", "atoms":[atom objects in `st` order]} : several exp-type
constraints in one model (exercises the `exp_constr + more_exp` order) -/
def opAtomsExpEncode (j : Json) : Except String Json := do
  let ncols ← jNat (← fld j "ncols")
  let atoms ← (← jArr (← fld j "atoms")).toList.mapM (readAtomExp ncols)
  pure (writeConeProg (encodeAtoms ncols atoms).prog)

end RsomeV.Drv
