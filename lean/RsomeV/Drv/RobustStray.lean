import RsomeV.Drv.Robust
import RsomeV.M.RobustStray
namespace RsomeV.Drv
open Lean

/-- op "le_to_rc_k": model of the repaired `RoConstr.le_to_rc(support)` with `support.num_rand = known`
(`"known"` absent: the support carries no `num_rand`, `known = num_rand`, no stray block).
Reply: the program fragment, the block sizes `n1 … n5` and the kinds of the items of the returned
list in order (`"items"`). -/
def opLeToRcK (j : Json) : Except String Json := do
  let S ← readConeProg (← fld j "support")
  let R ← readRoRows (← fld j "rows")
  let known ← match (j.getObjVal? "known").toOption with
    | some (Json.null) => pure (R.numRand S)
    | some k => jNat k
    | none => pure (R.numRand S)
  let F := R.leToRcK S known
  pure (writeConeProg F.prog [("n1", oNat F.n1), ("n2", oNat F.n2), ("n3", oNat F.n3), ("n4", oNat F.n4),
    ("n5", oNat (R.n5 S known)),
    ("items", Json.arr ((R.itemKinds S known).map Json.str).toArray)])

end RsomeV.Drv
