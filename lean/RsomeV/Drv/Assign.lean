import RsomeV.Drv.Json
import RsomeV.M.Assign
namespace RsomeV.Drv
open Lean RsomeV.Assign

/-! driver operation of `RsomeV/M/Assign.lean`.

ro (no `"nscen"`):
`{"op":"assign_call","nrand":n,"coef":[[K rows of n]],"det":[K],"args":[{"pos":[..],"vals":[..]},…]}`
→ `{"out":[K],"rvec":[n]}`: `roCall` for the `K` output entries (flat, row-major) and `buildRvec`.

dro (`"nscen":S`):
`{"op":"assign_call","nscen":S,"path":"ro"|"dec","eventwise":b,"nrand":n,"coef":[S tables],"det":[S lists],
  "args":[{"pos":[..],"sw":false,"vals":[..]} | {"pos":[..],"sw":true,"vals":[S lists]},…]}`
→ `{"out":[S lists of K],"rvecs":[S lists of n],"series":b}`: `droCall` (path `ro`: `DecRoAffine.__call__`) or
`decCall` (path `dec`: `DecAffine.__call__`) for every scenario, the rows of `buildRvecsSw`, and whether the code answers
with a per-scenario Series (`droSeries` / `decSeries`).

`pos` and `vals` must have the same length (`{"error":"length"}` otherwise). -/

def readArg (j : Json) : Except String Arg := do
  let ps ← jNatArr (← fld j "pos")
  let vs ← jRatArr (← fld j "vals")
  if ps.size ≠ vs.size then throw "length"
  pure (Arg.mk' ps.toList vs.toList)

def readSwArg (nscen : ℕ) (j : Json) : Except String SwArg := do
  let sw ← jBool (← fld j "sw")
  if sw then
    let ps ← jNatArr (← fld j "pos")
    let vss ← jRatMat (← fld j "vals")
    if vss.size ≠ nscen then throw "length"
    if vss.any (fun vs => vs.size ≠ ps.size) then throw "length"
    let tab := vss.map fun vs => Arg.mk' ps.toList vs.toList
    pure ⟨true, ⟨[]⟩, fun s => tab.getD s ⟨[]⟩⟩
  else
    pure ⟨false, ← readArg j, fun _ => ⟨[]⟩⟩

def opAssignCall (j : Json) : Except String Json := do
  let n ← jNat (← fld j "nrand")
  match (fld j "nscen").toOption with
  | none =>
    let coef ← jRatMat (← fld j "coef")
    let det ← jRatArr (← fld j "det")
    match (← jArr (← fld j "args")).toList.mapM readArg with
    | .error "length" => pure (Json.mkObj [("error", Json.str "length")])
    | .error e => throw e
    | .ok args =>
      let cf := fun k c => (coef.getD k #[]).getD c 0
      let dt := fun k => det.getD k 0
      pure (Json.mkObj [("out", oRatVec det.size (roCall n cf dt args)), ("rvec", oRatVec n (buildRvec n args))])
  | some js =>
    let S ← jNat js
    let path ← jStr (← fld j "path")
    let ew ← jBool (← fld j "eventwise")
    let coefs ← (← jArr (← fld j "coef")).mapM jRatMat
    let dets ← jRatMat (← fld j "det")
    match (← jArr (← fld j "args")).toList.mapM (readSwArg S) with
    | .error "length" => pure (Json.mkObj [("error", Json.str "length")])
    | .error e => throw e
    | .ok args =>
      let cf := fun s k c => ((coefs.getD s #[]).getD k #[]).getD c 0
      let dt := fun s k => (dets.getD s #[]).getD k 0
      let K := (dets.getD 0 #[]).size
      let out ← match path with
        | "ro" => pure (oRatMat S K (droCall S n cf dt args))
        | "dec" => pure (oRatMat S K (decCall n cf dt args))
        | _ => throw s!"unknown path {path}"
      let series := if path == "ro" then droSeries S ew args else decSeries S ew args
      pure (Json.mkObj [("out", out), ("rvecs", oRatMat S n (buildRvecsSw S n args)), ("series", Json.bool series)])

end RsomeV.Drv
