import RsomeV.Drv.ConeDual
import RsomeV.M.SocApprox
namespace RsomeV.Drv
open Lean

/-- op "to_socp": `{"op":"to_socp","prog":<ConeProg json>,"degree":L,"cuts":["lo","hi"],"elo":"p/q"}` →
the model of `GCProg.to_socp(L, (lo, hi))` in the `writeConeProg` format.  `elo` is the float
`np.exp(lo)` the code writes at `(row 0, α0)` of every block, as an exact rational string.  The field
is REQUIRED: a request without it (the format used before the repair of `to_socp`) is rejected, so
that an old-format call cannot silently model the old code. -/
def opToSocp (j : Json) : Except String Json := do
  let P ← readConeProg (← fld j "prog")
  let L ← jNat (← fld j "degree")
  let cuts ← jRatArr (← fld j "cuts")
  let elo ← match j.getObjVal? "elo" with
    | .ok e => jRat e
    | .error _ => throw "to_socp: field \"elo\" (np.exp(cut_lower) as a rational string) is required"
  if cuts.size ≠ 2 then throw "to_socp: cuts must have two entries"
  if L = 0 then throw "to_socp: degree 0 (rsome raises IndexError)"
  pure (writeConeProg (SocApprox.toSocp P L (cuts.getD 0 0) (cuts.getD 1 0) elo))

end RsomeV.Drv
