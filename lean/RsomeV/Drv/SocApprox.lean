import RsomeV.Drv.ConeDual
import RsomeV.M.SocApprox
namespace RsomeV.Drv
open Lean

/-- op "to_socp": `{"op":"to_socp","prog":<ConeProg json>,"degree":L,"cuts":["lo","hi"]}` →
the model of `GCProg.to_socp(L, (lo, hi))` in the `writeConeProg` format -/
def opToSocp (j : Json) : Except String Json := do
  let P ← readConeProg (← fld j "prog")
  let L ← jNat (← fld j "degree")
  let cuts ← jRatArr (← fld j "cuts")
  if cuts.size ≠ 2 then throw "to_socp: cuts must have two entries"
  if L = 0 then throw "to_socp: degree 0 (rsome raises IndexError)"
  pure (writeConeProg (SocApprox.toSocp P L (cuts.getD 0 0) (cuts.getD 1 0)))

end RsomeV.Drv
