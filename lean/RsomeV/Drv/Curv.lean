import RsomeV.Drv.Json
import RsomeV.M.Curv
namespace RsomeV.Drv
open Lean RsomeV.Curv

/-- ops come as `["neg"]`, `["scale","k"]`, `["add","c","d"]` ... where additive terms have a constant
part `c` and a coefficient `d` on the marker variable; the calculus is run once per component -/
def readOps (j : Json) (comp : Nat) : Except String (List (Op ℚ)) := do
  let arr ← jArr j
  arr.toList.mapM fun o => do
    let a ← jArr o
    let tag ← jStr (a.getD 0 Json.null)
    match tag with
    | "neg" => pure Op.neg
    | "scale" => do pure (Op.scale (← jRat (a.getD 1 Json.null)))
    | "add" => do pure (Op.add (← jRat (a.getD (1 + comp) Json.null)))
    | "sub" => do pure (Op.sub (← jRat (a.getD (1 + comp) Json.null)))
    | "rsub" => do pure (Op.rsub (← jRat (a.getD (1 + comp) Json.null)))
    | t => throw s!"bad op {t}"

def verdictStr : Verdict → String
  | .accept => "accept" | .valueError => "ValueError" | .typeError => "TypeError"

/-- op "curv_chain": a chain of operations on one atom, then a comparison -/
def opCurvChain (j : Json) : Except String Json := do
  let quad ← jBool (← fld j "quad")
  let s ← jRat (← fld j "sign")
  let ops0 ← readOps (← fld j "ops") 0
  let ops1 ← readOps (← fld j "ops") 1
  let cmp ← jStr (← fld j "cmp")
  let rhs ← jArr (← fld j "rhs")
  let c0 ← jRat (rhs.getD 0 Json.null)
  let c1 ← jRat (rhs.getD 1 Json.null)
  let r0 := run (atom quad s) ops0
  let r1 := run (atom quad s) ops1
  let expr := Json.mkObj [("sign", oRat r0.sign), ("mult", oRat r0.mult), ("out0", oRat r0.out), ("out1", oRat r1.out)]
  let fin : Json :=
    match cmp with
    | "le" => let (v, l0) := le r0 c0; let (_, l1) := le r1 c1
              Json.mkObj [("verdict", Json.str (verdictStr v)), ("mult", oRat l0.mult), ("out0", oRat l0.out), ("out1", oRat l1.out)]
    | "ge" => let (v, l0) := ge r0 c0; let (_, l1) := ge r1 c1
              Json.mkObj [("verdict", Json.str (verdictStr v)), ("mult", oRat l0.mult), ("out0", oRat l0.out), ("out1", oRat l1.out)]
    | "min" => Json.mkObj [("verdict", Json.str (verdictStr (le (scale r0 1) 0).1))]      -- (vars[0] - (+obj) >= 0): rejected iff sign(+obj) = -1
    | "max" => Json.mkObj [("verdict", Json.str (verdictStr (le (scale r0 (-1)) 0).1))]   -- (vars[0] - (-obj) >= 0): rejected iff sign(-obj) = -1
    | _ => Json.mkObj [("verdict", Json.str "TypeError")]                                 -- "eq"
  pure (Json.mkObj [("expr", expr), ("final", fin)])

/-- op "pw_chain": a chain on `maxof` / `minof` of affine pieces `(const, coef)` -/
def opPwChain (j : Json) : Except String Json := do
  let isMin ← jBool (← fld j "minof")
  let ps ← jRatMat (← fld j "pieces")       -- [[const, coef], ...]
  let ops0 ← readOps (← fld j "ops") 0
  let ops1 ← readOps (← fld j "ops") 1
  let mk (comp : Nat) : PW ℚ :=
    let vals := ps.toList.map fun p => p.getD comp 0
    if isMin then PW.minof vals else PW.maxof vals
  let p0 := (mk 0).run ops0
  let p1 := (mk 1).run ops1
  pure (Json.mkObj [("sign", oRat p0.sign),
    ("pieces", Json.arr ((List.zip p0.pieces p1.pieces).map fun (a, b) => Json.arr #[oRat a, oRat b]).toArray)])

end RsomeV.Drv
