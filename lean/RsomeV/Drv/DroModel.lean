import RsomeV.Drv.RoToRoc
import RsomeV.Drv.RoModel
import RsomeV.M.DroModel
namespace RsomeV.Drv
open Lean RsomeV.Partition RsomeV.RoToRoc RsomeV.DroModel

/-! op "dro_model": model of the whole `dro.Model.do_math()`.

Request
```
{"op":"dro_model","S":<num_scen>,"nrand":<num_rand>,
 "decs":[{"size":..,"events":[[s,…],…],"mask":[[0|1,…],…],"vtype":"C"},…],   -- dec_vars (epigraph variable first)
 "ambs":[{"sup":[<prog>,… one per scenario],"pro":<prog>,"exps":[{"prog":<prog>,"indices":[..]},…]},…],
 "default":<index into ambs>|null,                                            -- obj_ambiguity
 "obj": {"k":"con","con":<con>}                                               -- dec_vars[0] >= obj*sign as built by the code
      | {"k":"expr","sign":"1"|"-1","ctype":"R"|"E","kind":"ro"|"lin","rows":<rows_json>,"rst":[d,…]},
 "cons":[<con>,…]}
<con> = {"k":"R","kind":"ro"|"lin","eq":0|1,"rows":<rows_json over the num_var vt columns>,"rst":[d,…],
         "sel":{"k":"amb","a":<index>}|{"k":"list","prog":<prog>}|{"k":"dflt"}}
      | {"k":"E","eq":0|1,"amb":<index>|null,"pieces":[{"kind":"ro"|"lin","rows":<rows_json>,"pat":[[d,…] per row]},…]}
```
`<prog>`: primal programs in the `readConeProg` format (with the stored pattern `"sp"`).
Reply: `{"raises": …}` or the compiled program (`writeConeProg` format) plus `"vtype"`, `"nd"` (decision
columns), `"n0"` (columns after `rule_var`), `"nitems"`, `"branches"`. -/

def readKind (j : Json) : Except String Kind := do
  match ← jStr j with
  | "ro" => pure Kind.ro
  | "lin" => pure Kind.lin
  | k => throw s!"unknown kind {k}"

def readAmb (j : Json) : Except String (Amb ℚ) := do
  let sups ← (← jArr (← fld j "sup")).mapM readConeProg
  let pro ← readConeProg (← fld j "pro")
  let exps ← (← jArr (← fld j "exps")).toList.mapM fun e => do
    let P ← readConeProg (← fld e "prog")
    let ix ← jNatArr (← fld e "indices")
    pure (P, ix.toList)
  pure { sup := fun s => sups.getD s ConeProg.undef, pro := pro, exps := exps }

def readPiece (j : Json) : Except String (Constr ℚ × Array (Array ℕ)) := do
  let kind ← readKind (← fld j "kind")
  let rows ← readRoRows (← fld j "rows")
  let pat ← jNatMat (fldD j "pat" (Json.arr #[]))      -- per row: the vt columns stored in its random coefficients
  pure ({ kind := kind, eq := false, rows := rows, rst := fun _ => false }, pat)

def readDCon (j : Json) : Except String (DCon ℚ) := do
  match ← jStr (← fld j "k") with
  | "R" =>
      let kind ← readKind (← fld j "kind")
      let eq ← jNat (← fld j "eq")
      let rows ← readRoRows (← fld j "rows")
      let rst ← jNatArr (← fld j "rst")
      let sj ← fld j "sel"
      let sel ← (match ← jStr (← fld sj "k") with
        | "amb" => do pure (Sel.amb (← jNat (← fld sj "a")))
        | "list" => do pure (Sel.list (← readConeProg (← fld sj "prog")))
        | "dflt" => pure Sel.dflt
        | k => throw s!"unknown sel {k}" : Except String (Sel ℚ))
      pure (.R { kind := kind, eq := eq == 1, rows := rows, rst := fun d => rst.contains d } sel)
  | "E" =>
      let eq ← jNat (← fld j "eq")
      let aj := fldD j "amb" Json.null
      let a ← (if aj.isNull then pure none else do pure (some (← jNat aj)) : Except String (Option ℕ))
      let ps ← (← jArr (← fld j "pieces")).mapM readPiece
      pure (.E (ps.toList.map (·.1)) (eq == 1) a
        (fun l i d => (((ps.getD l (Constr.zero, #[])).2).getD i #[]).contains d))
  | k => throw s!"unknown constraint kind {k}"

def readDObj (j : Json) : Except String (DCon ℚ) := do
  match ← jStr (← fld j "k") with
  | "con" => readDCon (← fld j "con")
  | "expr" =>
      let sign ← jRat (← fld j "sign")
      let ct ← jStr (← fld j "ctype")
      let kind ← readKind (← fld j "kind")
      let rows ← readRoRows (← fld j "rows")
      let rst ← jNatArr (← fld j "rst")
      pure (objCon sign (ct == "E") kind rows (fun d => rst.contains d))
  | k => throw s!"unknown objective kind {k}"

/-- vtype string of `var_const`: `''.join(dvar.vtype * dvar.size * len(dvar.event_adapt) if len(dvar.vtype) == 1
else dvar.vtype * len(dvar.event_adapt))` -/
def constVtype (ds : List (DecM × String)) : String :=
  String.join (ds.map fun p =>
    if p.2.length = 1 then String.join (List.replicate (p.1.size * p.1.events.length) p.2)
    else String.join (List.replicate p.1.events.length p.2))

/-- `C03Model.RuleWF` on the in-range entries (scenarios `s < S`, components `j < nrand`; the masks have
`nrand` columns) -/
def ruleWF (D : DroDesc ℚ) : Bool :=
  decide (1 < D.n0) &&
  (List.range D.S).all fun s => (List.range D.rule.nv).all fun d =>
    decide (D.rule.cc s d < D.n0) &&
    (List.range D.nrand).all fun j => !D.rule.mask d j || decide (D.rule.lcol s d j < D.n0)

/-- the index / shape hypotheses of `C03Model.AmbWF` (without the `C01.rc_sound` hypotheses on the supports) -/
def ambWF (D : DroDesc ℚ) (A : Amb ℚ) : Bool :=
  wfInputs A.pro A.exps && !(Dro.mixSupport A.pro A.exps).rowsRemoved && decide (D.S ≤ A.pro.lp.nc) &&
  A.exps.all fun e => decide (D.nrand ≤ e.1.lp.nc)

/-- `C03Model.PiecesOK` on the in-range entries -/
def piecesOK (D : DroDesc ℚ) (ps : List (Constr ℚ)) : Bool :=
  ps.all fun p => decide (p.rows.nz = D.nrand) && decide (D.rule.nv = p.rows.nd) &&
    (List.range p.rows.m).all fun n => (List.range p.rows.nz).all fun j => (List.range p.rows.nd).all fun d =>
      decide (p.rows.Rl n j d = 0) || (List.range D.nrand).all fun j' => !D.rule.mask d j'

def opDroModel (j : Json) : Except String Json := do
  let S ← jNat (← fld j "S")
  let nrand ← jNat (← fld j "nrand")
  let dj ← jArr (← fld j "decs")
  let ds ← dj.toList.mapM readDecM
  let vts ← dj.toList.mapM fun d => do jStr (fldD d "vtype" (Json.str "C"))
  let ambs ← (← jArr (← fld j "ambs")).toList.mapM readAmb
  let dj := fldD j "default" Json.null
  let dflt ← (if dj.isNull then pure none else do pure (some (← jNat dj)) : Except String (Option ℕ))
  let objc ← readDObj (← fld j "obj")
  let cons ← (← jArr (← fld j "cons")).toList.mapM readDCon
  let dl : List Dec := ds.map fun d => { size := d.size, events := d.events }
  let total := roFirst dl dl.length
  let vtc := constVtype (ds.zip vts)
  let D : DroDesc ℚ :=
    { S := S, nrand := nrand, rule := Rule.ofDecs 1 nrand ds, n0 := ruleWidth 1 ds
      vtc := (vtc, total)
      ambs := ambs, dflt := dflt, objc := objc, cons := cons }
  match droItems D with
  | .error e => pure (Json.mkObj [("raises", Json.str e)])
  | .ok (items, nd) =>
    let P := compile items nd
    pure (writeConeProg P [
      ("vtype", Json.arr ((droVtype D P).map fun c => Json.str (String.singleton c)).toArray),
      ("nd", oNat nd), ("n0", oNat D.n0), ("nitems", oNat items.length),
      ("rule_wf", Json.bool (ruleWF D)),
      ("amb_wf", Json.arr ((objc :: cons).filterMap fun c => match c with
        | .E _ _ a _ => (eAmb D a).map fun ai => Json.bool (ambWF D (D.amb ai))
        | _ => none).toArray),
      ("pieces_ok", Json.arr ((objc :: cons).filterMap fun c => match c with
        | .E ps _ _ _ => some (Json.bool (piecesOK D ps))
        | _ => none).toArray),
      ("branches", Json.arr ((droBranches items).map Json.str).toArray)])

end RsomeV.Drv
