import RsomeV.M.Export
import RsomeV.L.ExportLemmas
import RsomeV.Drv.Json

/-! Driver op `lp_render` (C16): render an `ExProg` as rsome's `lp_export()` text.

Request `{"op":"lp_render","prog":{"obj":[[neg,isZero,"tok"],…],"rows":[[[neg,isZero,"tok",col],…],…],
"sense":[0/1…],"const":["…"],"lb":["…"],"ub":["…"],"vtype":"CBI…","qmat":[[…]]}}`
(`neg`, `isZero` are JSON booleans or 0/1) → `{"text":"…","parse_ok":true/false,"wf":true/false}` where `parse_ok`
says whether `parseText text = some (toParsed prog)` (proved for well-formed programs in Props/C16) and
`wf` whether the program satisfies `ExProg.WF` (the hypothesis of those theorems). -/

namespace RsomeV.Drv
open Lean RsomeV.Export

def jFlag (j : Json) : Except String Bool :=
  match j with
  | .bool b => pure b
  | .num n => pure (n.mantissa != 0)
  | _ => throw "flag expected"

def jCoef (a : Array Json) : Except String Coef := do
  if a.size < 3 then throw "coef: [neg,isZero,tok] expected"
  pure ⟨← jFlag a[0]!, ← jFlag a[1]!, ← jStr a[2]!⟩

def readExProg (j : Json) : Except String ExProg := do
  let obj ← (← jArr (← fld j "obj")).mapM fun e => do jCoef (← jArr e)
  let rows ← (← jArr (← fld j "rows")).mapM fun r => do
    let es ← (← jArr r).mapM fun e => do
      let a ← jArr e
      if a.size < 4 then throw "row entry: [neg,isZero,tok,col] expected"
      pure ((← jCoef a), (← jNat a[3]!))
    pure es.toList
  let sense ← (← jArr (← fld j "sense")).mapM jFlag
  let const ← (← jArr (← fld j "const")).mapM jStr
  let lb ← (← jArr (← fld j "lb")).mapM jStr
  let ub ← (← jArr (← fld j "ub")).mapM jStr
  let vtype ← jStr (← fld j "vtype")
  let qmat ← jNatMat (fldD j "qmat" (Json.arr #[]))
  pure { obj := obj.toList, rows := rows.toList, sense := sense.toList, const := const.toList,
         lb := lb.toList, ub := ub.toList, vtype := vtype.toList,
         qmat := (qmat.map Array.toList).toList }

def opLpRender (j : Json) : Except String Json := do
  let p ← readExProg (← fld j "prog")
  let text := render p
  pure (Json.mkObj [("text", Json.str text),
    ("parse_ok", Json.bool (decide (parseText text = some (toParsed p)))),
    ("wf", Json.bool (decide p.WF))])

end RsomeV.Drv
