import RsomeV.Drv.AtomsExp
import RsomeV.M.AtomsSum
namespace RsomeV.Drv
open Lean RsomeV.AExp RsomeV.ASum
namespace AtomsSum

def optShape (j : Json) (k : String) : Except String (Option (List ℕ)) :=
  match (j.getObjVal? k).toOption with
  | some s => do pure (some (← jNatArr s).toList)
  | none => pure none

/-- request of op "atom_sum_encode":
`{"ncols", "xtype":"X"|"L", "mult", "ain","bin" (entries of affine_in, row-major), "aout","bout"
(entries of affine_out)` and EITHER `"in_shape":[..], "axis": int|null` (the groups and the shape of the
sums are computed by the model) OR `"groups":[[flat indices]..]` (in the order of the sums' entries)
`[, "sum_shape":[..]]` (default `[#groups]`); optional `"out_shape"` (default `[#aout]`) `}` -/
def readSumReq (ncols : ℕ) (j : Json) : Except String (SumReq ℚ) := do
  let xt ← jStr (← fld j "xtype")
  let isLog ← (match xt with
    | "X" => pure false
    | "L" => pure true
    | _ => throw s!"atom_sum_encode: unsupported xtype {xt}")
  let mult ← jRat (← fld j "mult")
  let ain ← AtomsExp.readAffs ncols j "ain" "bin"
  let aout ← AtomsExp.readAffs ncols j "aout" "bout"
  let osh := (← optShape j "out_shape").getD [aout.length]
  match (j.getObjVal? "groups").toOption with
  | some gs =>
    let groups := (← jNatMat gs).toList.map Array.toList
    let ssh := (← optShape j "sum_shape").getD [groups.length]
    pure ⟨isLog, mult, ain, groups, aout, ssh, osh⟩
  | none =>
    let ish := (← jNatArr (← fld j "in_shape")).toList
    if Nd.size ish ≠ ain.length then throw "atom_sum_encode: in_shape does not match ain"
    let axJ ← fld j "axis"
    let axis ← (if axJ.isNull then pure none else do pure (some (← jInt axJ)))
    match groupsOfAxis ish axis with
    | none => throw "atom_sum_encode: axis out of range"
    | some (groups, ssh) => pure ⟨isLog, mult, ain, groups, aout, ssh, osh⟩

end AtomsSum
open AtomsSum

/-- op "atom_sum_encode": model of the standard form `gcp.Model.do_math()` builds for a model holding
the single constraint `k*exp(e).sum(axis) + out <= 0` / `-k*log(e).sum(axis) + out <= 0` -/
def opAtomSumEncode (j : Json) : Except String Json := do
  let ncols ← jNat (← fld j "ncols")
  let R ← readSumReq ncols j
  pure (writeConeProg (encodeSumAtom ncols R).prog)

end RsomeV.Drv
