import RsomeV.Drv.Json
import RsomeV.M.NdArray
namespace RsomeV.Drv
open Lean RsomeV.Nd

/-! driver operations of the NumPy index-arithmetic model (`RsomeV/M/NdArray.lean`) -/

def readShape (j : Json) : Except String (List Nat) := do pure (← jNatArr j).toList

def jOptInt (j : Json) : Except String (Option Int) :=
  if j.isNull then pure none else (jInt j).map some

def oPair (a b : Nat) : Json := Json.arr #[oNat a, oNat b]

def shapeNull : Json := Json.mkObj [("shape", Json.null)]

def opNdRavel (j : Json) : Except String Json := do
  let shape ← readShape (← fld j "shape")
  let idx ← readShape (← fld j "idx")
  pure (Json.mkObj [("flat", oNat (ravel shape idx))])

def opNdUnravel (j : Json) : Except String Json := do
  let shape ← readShape (← fld j "shape")
  let k ← jNat (← fld j "flat")
  pure (Json.mkObj [("idx", oNatList (unravel shape k))])

def opNdBcast (j : Json) : Except String Json := do
  let a ← readShape (← fld j "a")
  let b ← readShape (← fld j "b")
  match broadcastShapes a b with
  | none => pure shapeNull
  | some t =>
    pure (Json.mkObj [("shape", oNatList t),
      ("ia", oNatList ((List.range (size t)).map (bcastFlat a t))),
      ("ib", oNatList ((List.range (size t)).map (bcastFlat b t)))])

def opNdTranspose (j : Json) : Except String Json := do
  let shape ← readShape (← fld j "shape")
  pure (Json.mkObj [("shape", oNatList shape.reverse),
    ("src", oNatList ((List.range (size shape)).map (transposeSrc shape)))])

def opNdSwapLast (j : Json) : Except String Json := do
  let shape ← readShape (← fld j "shape")
  pure (Json.mkObj [("shape", oNatList (swapLast shape)),
    ("src", oNatList ((List.range (size shape)).map (swapLastSrc shape)))])

def opNdMatmul (j : Json) : Except String Json := do
  let a ← readShape (← fld j "a")
  let b ← readShape (← fld j "b")
  match matmulShape a b with
  | none => pure shapeNull
  | some t =>
    pure (Json.mkObj [("shape", oNatList t),
      ("pairs", Json.arr ((matmulPairs a b).map fun ps =>
          Json.arr (ps.map fun (x, y) => oPair x y).toArray).toArray)])

def opNdSlice (j : Json) : Except String Json := do
  let n ← jNat (← fld j "n")
  let start ← jOptInt (fldD j "start" Json.null)
  let stop ← jOptInt (fldD j "stop" Json.null)
  let step ← jOptInt (fldD j "step" Json.null)
  pure (Json.mkObj [("idx", oNatList (sliceIdx n start stop step))])

def opNdSumAxis (j : Json) : Except String Json := do
  let shape ← readShape (← fld j "shape")
  let axis ← jInt (← fld j "axis")
  match normAxis shape.length axis with
  | none => pure shapeNull
  | some ax =>
    pure (Json.mkObj [("shape", oNatList (shape.eraseIdx ax)),
      ("groups", oNatLists (sumAxisGroups shape ax))])

def opNdConcat (j : Json) : Except String Json := do
  let a ← readShape (← fld j "a")
  let b ← readShape (← fld j "b")
  let axis ← jInt (← fld j "axis")
  match normAxis a.length axis with
  | none => pure shapeNull
  | some ax =>
    match concatShape a b ax with
    | none => pure shapeNull
    | some t =>
      pure (Json.mkObj [("shape", oNatList t),
        ("src", Json.arr ((concatSrc a b ax).map fun (w, k) => oPair (if w then 1 else 0) k).toArray)])

def opNdDiag (j : Json) : Except String Json := do
  let rows ← jNat (← fld j "rows")
  let cols ← jNat (← fld j "cols")
  let k ← jInt (← fld j "k")
  pure (Json.mkObj [("idx", oNatList (diagIdx rows cols k))])

end RsomeV.Drv
