import RsomeV.Drv.ConeDual
import RsomeV.M.AtomsSoc
namespace RsomeV.Drv
open Lean

def readUserVars (j : Json) (ncols : ℕ) : Except String (List (String × ℕ)) :=
  match (j.getObjVal? "uservars").toOption with
  | some uv => do
      let arr ← jArr uv
      let l ← arr.toList.mapM fun e => do
        let p ← jArr e
        pure ((← jStr (p.getD 0 Json.null)), (← jNat (p.getD 1 Json.null)))
      pure l
  | none => pure [("C", 1), ("C", ncols - 1)]

def readAtomIn (j : Json) : Except String (AtomIn ℚ) := do
  let n ← jNat (← fld j "ncols")
  let k ← jRat (← fld j "mult")
  let ain ← jRatMat (← fld j "ain")
  let bin ← jRatArr (← fld j "bin")
  let aout ← jRatMat (← fld j "aout")
  let bout ← jRatArr (← fld j "bout")
  pure { n := n, r := ain.size, k := k
         ain := fun i c => (ain.getD i #[]).getD c 0
         bin := fun i => bin.getD i 0
         aout := fun i c => (aout.getD i #[]).getD c 0
         bout := fun i => bout.getD i 0 }

def readBounds (j : Json) : Except String (List (Bound ℚ)) := do
  let bs ← jArr (fldD j "bounds" (Json.arr #[]))
  let bl ← bs.toList.mapM fun e => do
    let p ← jArr e
    let t ← jStr (p.getD 0 Json.null)
    let idx ← jNatArr (p.getD 1 Json.null)
    let vals ← jRatArr (p.getD 2 Json.null)
    if idx.size ≠ vals.size then throw "indices/values length mismatch"
    pure (t, (⟨t == "U", idx.toList.zip vals.toList⟩ : Bound ℚ))
  -- `btype` other than 'U' / 'L' is skipped by the loop
  pure ((bl.filter fun p => p.1 == "U" || p.1 == "L").map Prod.snd)

def writeEnc (E : AtomEnc ℚ) (uv : List (String × ℕ)) (ub : List (Bound ℚ))
    (extra : List (String × Json) := []) : Json :=
  writeConeProg (E.prog ub) ([("vtype", Json.str (String.ofList (E.vtype uv)))] ++ extra)

/-- op "atom_encode": model of the rows / columns / bounds / cones `do_math` creates for one
`CvxConstr` of xtype A, M, I, E, S or Q -/
def opAtomEncode (j : Json) : Except String Json := do
  let xs ← jStr (← fld j "xtype")
  let some xt := XType.ofString? xs | throw s!"unsupported xtype {xs}"
  let A ← readAtomIn j
  let uv ← readUserVars j A.n
  pure (writeEnc (encodeAtom xt A) uv (← readBounds j))

/-- op "rsocone_encode": the `CvxConstr` of `rso.rsocone(x, y, z)` and its encoding -/
def opRsoconeEncode (j : Json) : Except String Json := do
  let n ← jNat (← fld j "ncols")
  let ax ← jRatMat (← fld j "ax")
  let bx ← jRatArr (← fld j "bx")
  let ay ← jRatArr (← fld j "ay")
  let by_ ← jRat (← fld j "by")
  let az ← jRatArr (← fld j "az")
  let bz ← jRat (← fld j "bz")
  let A : AtomIn ℚ := rsoconeAtom n ax.size (fun i c => (ax.getD i #[]).getD c 0) (fun i => bx.getD i 0)
    (fun c => ay.getD c 0) by_ (fun c => az.getD c 0) bz
  let uv ← readUserVars j n
  pure (writeEnc (encodeAtom .E A) uv (← readBounds j) [
    ("mult", oRat A.k),
    ("ain", oRatMat A.r A.n A.ain), ("bin", oRatVec A.r A.bin),
    ("aout", oRatMat 1 A.n A.aout), ("bout", oRatVec 1 A.bout)])

/-- op "fold_bounds": `{"n":k,"bounds":[["U",[idx..],["v"..]],...]}` → `{"ub":[..],"lb":[..]}` -/
def opFoldBounds (j : Json) : Except String Json := do
  let n ← jNat (← fld j "n")
  let s := foldBounds (← readBounds j)
  pure (Json.mkObj [("ub", oOptRatVec n s.1), ("lb", oOptRatVec n s.2)])

/-- op "vtype_vector": `{"vars":[["C",3],["BIC",3]]}` → `{"vtype":"CCCBIC"}` -/
def opVtypeVector (j : Json) : Except String Json := do
  let arr ← jArr (← fld j "vars")
  let l ← arr.toList.mapM fun e => do
    let p ← jArr e
    pure ((← jStr (p.getD 0 Json.null)), (← jNat (p.getD 1 Json.null)))
  pure (Json.mkObj [("vtype", Json.str (String.ofList (vtypeVector l)))])

end RsomeV.Drv
