import RsomeV.M.ShowTable
import RsomeV.Drv.ConeDual

/-! Driver op `show_table` (C16): the DataFrame of `formula.show()`.

Request `{"op":"show_table","prog":<ConeProg json + "vtype":["C","B",…]>,"cls":"lp"|"socp"|"gcp"}`
(`cls` = class of the formula object, default `"gcp"`; `prog` as written by `prog_json`: `null` in
`ub` / `lb` is `+inf` / `-inf`) →
`{"columns":[…],"index":[…],"cells":[[cell…]…],"read_ok":bool,"no_raise":bool,"distinct":bool}` with
cells `["n","p/q"]` (finite float, exact), `["f","inf"]` / `["f","-inf"]` / `["f","nan"]`, `["s","…"]`
(string).  `read_ok` says whether `readTable (showTable …) = toData …` (a theorem under `no_raise` and
`distinct`, Props/C16Show). -/

namespace RsomeV.Drv
open Lean RsomeV.ShowTable

def oCell : Cell → Json
  | .num q => Json.arr #[Json.str "n", oRat q]
  | .inf neg => Json.arr #[Json.str "f", Json.str (if neg then "-inf" else "inf")]
  | .str s => Json.arr #[Json.str "s", Json.str s]
  | .nan => Json.arr #[Json.str "f", Json.str "nan"]

def opShowTable (j : Json) : Except String Json := do
  let pj ← fld j "prog"
  let P ← readConeProg pj
  let vt ← (← jArr (← fld pj "vtype")).mapM jStr
  let k ← match fldD j "cls" (Json.str "gcp") with
    | .str "lp" => pure Kind.lin
    | .str "socp" => pure Kind.soc
    | .str "gcp" => pure Kind.gcp
    | _ => throw "cls: lp | socp | gcp expected"
  let T := showTable P k vt.toList
  pure (Json.mkObj [
    ("columns", Json.arr (T.columns.map Json.str).toArray),
    ("index", Json.arr (T.index.map Json.str).toArray),
    ("cells", Json.arr (T.cells.map fun r => Json.arr (r.map oCell).toArray).toArray),
    ("read_ok", Json.bool (decide (readTable T = toData P k vt.toList))),
    ("no_raise", Json.bool (decide (NoRaise P vt.toList))),
    ("distinct", Json.bool (decide (Distinct P)))])

end RsomeV.Drv
