import RsomeV.Drv.Json
import RsomeV.Drv.NdArray
import RsomeV.M.AffExpr
namespace RsomeV.Drv
open Lean RsomeV.Nd RsomeV.AffE

/-! driver operation of the array-expression language (`RsomeV/M/AffExpr.lean`):
`{"op":"aff_expr","expr":<tree>,"ncols":n}` -> the compiled affine array (dense, exact rationals).

tree nodes (`"t"` is the constructor):
`{"t":"var","first":f,"shape":[..]}`, `{"t":"const","shape":[..],"data":[..]}`, `{"t":"neg","a":T}`,
`{"t":"add"|"sub","a":T,"b":T}`, `{"t":"mulc"|"rmulc"|"matmulc"|"rmatmulc","a":T,"cshape":[..],"c":[..]}`,
`{"t":"scale","k":"p/q","a":T}`, `{"t":"getitem","a":T,"items":[i | [start,stop,step]]}` (`null` = missing),
`{"t":"reshape","a":T,"shape":[ints]}`, `{"t":"T"|"sum","a":T}`, `{"t":"sumaxis","a":T,"axis":i}`,
`{"t":"concat","axis":i,"es":[T..]}`, `{"t":"diag","a":T,"k":i}` -/

def readData (j : Json) : Except String (ℕ → ℚ) := do
  let a ← jRatArr j
  pure fun i => a.getD i 0

def readIx (j : Json) : Except String Ix :=
  match j with
  | .arr #[a, b, c] => do pure (Ix.slice (← jOptInt a) (← jOptInt b) (← jOptInt c))
  | _ => do pure (Ix.int (← jInt j))

/-- `fuel` bounds the depth of the tree -/
def readExpr : ℕ → Json → Except String (Expr ℚ)
  | 0, _ => throw "expression too deep"
  | fuel + 1, j => do
  let t ← jStr (← fld j "t")
  let sub (k : String) : Except String (Expr ℚ) := do readExpr fuel (← fld j k)
  match t with
  | "var" => pure (.var (← jNat (← fld j "first")) (← readShape (← fld j "shape")))
  | "const" => pure (.const (← readShape (← fld j "shape")) (← readData (← fld j "data")))
  | "neg" => pure (.neg (← sub "a"))
  | "add" => pure (.add (← sub "a") (← sub "b"))
  | "sub" => pure (.sub (← sub "a") (← sub "b"))
  | "mulc" => pure (.mulc (← sub "a") (← readShape (← fld j "cshape")) (← readData (← fld j "c")))
  | "rmulc" => pure (.rmulc (← readShape (← fld j "cshape")) (← readData (← fld j "c")) (← sub "a"))
  | "scale" => pure (.scale (← jRat (← fld j "k")) (← sub "a"))
  | "matmulc" => pure (.matmulc (← sub "a") (← readShape (← fld j "cshape")) (← readData (← fld j "c")))
  | "rmatmulc" => pure (.rmatmulc (← readShape (← fld j "cshape")) (← readData (← fld j "c")) (← sub "a"))
  | "getitem" => pure (.getitem (← sub "a") (← (← jArr (← fld j "items")).mapM readIx).toList)
  | "reshape" => pure (.reshape (← sub "a") (← jIntArr (← fld j "shape")).toList)
  | "T" => pure (.T (← sub "a"))
  | "sum" => pure (.sum (← sub "a"))
  | "sumaxis" => pure (.sumaxis (← sub "a") (← jInt (← fld j "axis")))
  | "concat" => pure (.concat (← jInt (← fld j "axis")) (← (← jArr (← fld j "es")).mapM (readExpr fuel)).toList)
  | "diag" => pure (.diag (← sub "a") (← jInt (← fld j "k")))
  | _ => throw s!"unknown expression node {t}"

def opAffExpr (j : Json) : Except String Json := do
  let e ← readExpr 64 (← fld j "expr")
  let n ← jNat (← fld j "ncols")
  match e.compile n with
  | none => pure (Json.mkObj [("error", Json.str "shape")])
  | some a =>
    let sz := size a.shape
    pure (Json.mkObj [("shape", oNatList a.shape), ("ncols", oNat a.ncols),
      ("linear", oRatMat sz a.ncols a.coef), ("const", oRatVec sz a.cst),
      ("shape_q", match e.shape? with | none => Json.null | some s => oNatList s)])

end RsomeV.Drv
