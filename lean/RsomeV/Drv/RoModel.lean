import RsomeV.Drv.Robust
import RsomeV.M.RoModel
namespace RsomeV.Drv
open Lean

/-! op "ro_model": model of `ro.Model.do_math()` (LP-class robust models).

Request
```
{"op":"ro_model",
 "nd": <rc_model.last when do_math starts>,
 "vars": [["C",1],["C",3],...],                       -- rc_model.vars: (vtype, size)
 "supports": [<prog>, ...],                           -- support programs (dual form), prog_json format
 "default": <index into supports> | null,             -- obj_support
 "items": [ {"k":"det","nr":..,"a":[[..]],"b":[..],"eq":[..]}
          | {"k":"bnd","upper":0|1,"idx":[..],"vals":[..]}
          | {"k":"rob","rows":<RoRows>,"support":<index>|null}
          | {"k":"robeq","rows":<RoRows>,"support":<index>|null} ],
 "obj": {"k":"affine","sign":"1","c":[..],"c0":".."}
      | {"k":"roaffine","sign":"-1","rows":<RoRows>}
      | {"k":"piecewise","sign":"1","pwsign":"1","pieces":[{"k":"aff","c":[..],"c0":".."}|{"k":"ro","rows":<RoRows>}]}}
```
Reply: the compiled program in the `writeConeProg` format plus `"vtype"` and `"branches"`, or
`{"error": ...}` where `do_math` raises (`support undefined`, `nonconvex`). -/

def readSupportRef (sups : Array (ConeProg ℚ)) (j : Json) : Except String (Option (ConeProg ℚ)) := do
  let s := fldD j "support" Json.null
  if s.isNull then pure none else
    let i ← jNat s
    match sups[i]? with
    | some S => pure (some S)
    | none => throw s!"bad support index {i}"

def readRoItem (sups : Array (ConeProg ℚ)) (j : Json) : Except String (RoItem ℚ) := do
  let k ← jStr (← fld j "k")
  match k with
  | "det" =>
      let nr ← jNat (← fld j "nr")
      let a ← jRatMat (← fld j "a")
      let b ← jRatArr (← fld j "b")
      let eq ← jNatArr (← fld j "eq")
      pure (.det nr (fun i c => (a.getD i #[]).getD c 0) (fun i => b.getD i 0) (fun i => eq.getD i 0 == 1))
  | "bnd" =>
      let up ← jNat (← fld j "upper")
      let idx ← jNatArr (← fld j "idx")
      let vals ← jRatArr (← fld j "vals")
      pure (.bnd { upper := up == 1, entries := (idx.toList.zip vals.toList) })
  | "rob" => pure (.rob (← readRoRows (← fld j "rows")) (← readSupportRef sups j))
  | "robeq" => pure (.robEq (← readRoRows (← fld j "rows")) (← readSupportRef sups j))
  | _ => throw s!"unknown item kind {k}"

def readObjPiece (j : Json) : Except String (ObjPiece ℚ) := do
  let k ← jStr (← fld j "k")
  match k with
  | "aff" =>
      let c ← jRatArr (← fld j "c")
      let c0 ← jRat (← fld j "c0")
      pure (.aff (fun d => c.getD d 0) c0)
  | "ro" => pure (.ro (← readRoRows (← fld j "rows")))
  | _ => throw s!"unknown piece kind {k}"

def readRoObj (j : Json) : Except String (RoObj ℚ) := do
  let k ← jStr (← fld j "k")
  let sign ← jRat (← fld j "sign")
  match k with
  | "affine" =>
      let c ← jRatArr (← fld j "c")
      let c0 ← jRat (← fld j "c0")
      pure (.affine sign (fun d => c.getD d 0) c0)
  | "roaffine" => pure (.roaffine sign (← readRoRows (← fld j "rows")))
  | "piecewise" =>
      let pws ← jRat (← fld j "pwsign")
      -- `PiecewiseConvex.__le__`: `if left.sign == -1: raise ValueError('Nonconvex constraints.')`
      if sign * pws ≠ 1 then throw "nonconvex"
      pure (.piecewise (← (← jArr (← fld j "pieces")).mapM readObjPiece).toList)
  | _ => throw s!"unknown objective kind {k}"

def readVars (j : Json) : Except String (List (String × ℕ)) := do
  let arr ← jArr j
  let l ← arr.mapM fun v => do
    let p ← jArr v
    let t ← jStr (p.getD 0 Json.null)
    let n ← jNat (p.getD 1 Json.null)
    pure (t, n)
  pure l.toList

/-- op "ro_model": model of `ro.Model.do_math()` -/
def opRoModel (j : Json) : Except String Json := do
  let nd ← jNat (← fld j "nd")
  let vars ← readVars (← fld j "vars")
  let sups ← (← jArr (← fld j "supports")).mapM readConeProg
  let dflt := fldD j "default" Json.null
  let S0 : Option (ConeProg ℚ) ← if dflt.isNull then pure none else do
    let i ← jNat dflt
    match sups[i]? with
    | some S => pure (some S)
    | none => throw s!"bad default index {i}"
  let items ← (← jArr (← fld j "items")).mapM (readRoItem sups)
  let obj ← readRoObj (← fld j "obj")
  let M : RoSpec ℚ := { nd := nd, vars := vars, items := items.toList, obj := obj, S0 := S0 }
  if !M.defined then throw "support undefined"
  pure (writeConeProg (roModel M) [
    ("vtype", Json.arr ((roVtype M).map fun c => Json.str (String.singleton c)).toArray),
    ("branches", Json.arr ((roBranches M).map Json.str).toArray)])

end RsomeV.Drv
