import RsomeV.M.ConeDual
import Mathlib.Order.Lattice
import Mathlib.Order.Defs.LinearOrder

/-! Order-faithful model of the LP / SOC *atom encodings* of `do_math(primal=True)`:

* `lp.Model.do_math` (rsome/lp.py l.521-547): xtypes `A` (abs), `M` (1-norm), `I` (inf-norm);
* `socp.Model.do_math` (rsome/socp.py l.169-228): xtypes `E` (2-norm, also the carrier of
  `rsocone`), `S` (element-wise square), `Q` (sum of squares), `A`;
* the program assembly shared by all atoms (rsome/lp.py l.585-597): the `vtype` vector and the
  fold of the `Bounds` objects into the `ub` / `lb` vectors.

Columns: `0 .. n-1` are the user columns (column 0 = epigraph column), auxiliary columns follow
in creation order.  Rows are the `aux_constr` in creation order.  Executable over `ℚ`. -/

namespace RsomeV
open Finset

variable {K : Type} [Field K] [LinearOrder K] [IsStrictOrderedRing K]

/-! ### Program assembly: bounds and variable types -/

/-- one `lp.Bounds` object: `btype` (`upper = true` for `'U'`, `false` for `'L'`) and the pairs
`(indices[p], values[p])` in array order -/
structure Bound (K : Type) where
  upper : Bool
  entries : List (ℕ × K)

/-- all values a `Bounds` object carries for entry `j`, in array order -/
def valsFor (l : List (ℕ × K)) (j : ℕ) : List K := (l.filter fun p => p.1 == j).map Prod.snd

/-- the value NumPy's fancy assignment `v[indices] = values` leaves in entry `j`: the one at the
*last* position that addresses `j` (`none`: entry not addressed) -/
def lastVal (l : List (ℕ × K)) (j : ℕ) : Option K := (valsFor l j).getLast?

/-- binary operation on extended values where `none` is the neutral (infinite) element:
`np.minimum(v, inf) = v`, `np.maximum(v, -inf) = v` -/
def optOp (f : K → K → K) : Option K → Option K → Option K
  | none, y => y
  | some a, none => some a
  | some a, some b => some (f a b)

/-- the state `(ub, lb)`; `none` is `+inf` in `ub` and `-inf` in `lb` -/
abbrev BndState (K : Type) := (ℕ → Option K) × (ℕ → Option K)

/-- one pass of the loop body
`ub[b.indices] = np.minimum(b.values, ub[b.indices])` / `lb[b.indices] = np.maximum(b.values, lb[b.indices])`:
the right-hand side is computed from the old vector, then written position by position (last
write wins on repeated indices) -/
def applyBound (s : BndState K) (b : Bound K) : BndState K :=
  if b.upper then (fun j => optOp min (lastVal b.entries j) (s.1 j), s.2)
  else (s.1, fun j => optOp max (lastVal b.entries j) (s.2 j))

/-- `for b in self.bounds + self.aux_bounds: ...` starting from `ub = +inf`, `lb = -inf` -/
def foldBounds (bs : List (Bound K)) : BndState K :=
  bs.foldl applyBound (fun _ => none, fun _ => none)

/-- `np.concatenate([np.array([item.vtype] * item.size) if len(item.vtype) == 1
else np.array(list(item.vtype)) for item in self.vars + self.auxs])` — every variable is a pair
(type string, size) -/
def vtypeVector (vars : List (String × ℕ)) : List Char :=
  vars.flatMap fun v => if v.1.length = 1 then List.replicate v.2 (v.1.toList.headD 'C') else v.1.toList

/-! ### Atom constraints -/

/-- the data of one `CvxConstr`: `multiplier`, `affine_in` (`r` rows `ain`, `bin`) and
`affine_out` (`aout`, `bout`; `r` rows for the element-wise atoms `A`, `S`, one row otherwise)
over `n` user columns.  `k` is the *stored* multiplier (for `S`, `Q` the square root of the
user's factor). -/
structure AtomIn (K : Type) where
  n : ℕ
  r : ℕ
  k : K
  ain : ℕ → ℕ → K
  bin : ℕ → K
  aout : ℕ → ℕ → K
  bout : ℕ → K

namespace AtomIn
/-- value of row `i` of `affine_in` at the assignment `v` (user columns only) -/
def inv (A : AtomIn K) (v : ℕ → K) (i : ℕ) : K := ∑ j ∈ range A.n, A.ain i j * v j + A.bin i
/-- value of row `i` of `affine_out` at the assignment `v` (user columns only) -/
def outv (A : AtomIn K) (v : ℕ → K) (i : ℕ) : K := ∑ j ∈ range A.n, A.aout i j * v j + A.bout i
end AtomIn

/-- the xtypes handled here -/
inductive XType | A | M | I | E | S | Q
  deriving DecidableEq, Repr

def XType.ofString? : String → Option XType
  | "A" => some .A | "M" => some .M | "I" => some .I
  | "E" => some .E | "S" => some .S | "Q" => some .Q
  | _ => none

/-- one row of `aux_constr`: coefficients on the user columns, coefficients on the auxiliary
columns (offset from `n`), right-hand side `const`, sense (`eq = true` for `==`) -/
structure Row (K : Type) where
  u : ℕ → K
  s : ℕ → K
  b : K
  eq : Bool

/-- what `do_math` adds for one atom: auxiliary variables (sizes, creation order), rows
(creation order), `aux_bounds`, second-order cones -/
structure AtomEnc (K : Type) where
  n : ℕ
  auxs : List ℕ
  rows : List (Row K)
  bounds : List (Bound K)
  qmat : List (List ℕ)

/-- coefficient `c` on auxiliary column `i`, zero elsewhere -/
def unitAt (i : ℕ) (c : K) (t : ℕ) : K := if t = i then c else 0

instance : Inhabited (Row K) := ⟨⟨fun _ => 0, fun _ => 0, 0, false⟩⟩

namespace AtomEnc

def naux (E : AtomEnc K) : ℕ := E.auxs.sum

/-- the standard form `do_math` returns for a model whose only constraint is the atom
(no objective: cost `e₀`); the bound vectors are the fold of `self.bounds + self.aux_bounds`
(`userBounds` = the `Bounds` objects the user passed to `st`, none by default) -/
def prog (E : AtomEnc K) (userBounds : List (Bound K) := []) : ConeProg K :=
  let a : ℕ → ℕ → K := fun i j =>
    if j < E.n then (E.rows.getD i default).u j else (E.rows.getD i default).s (j - E.n)
  { lp := { nr := E.rows.length
            nc := E.n + E.naux
            a := a
            b := fun i => (E.rows.getD i default).b
            eq := fun i => (E.rows.getD i default).eq
            ub := (foldBounds (userBounds ++ E.bounds)).1
            lb := (foldBounds (userBounds ++ E.bounds)).2
            c := fun j => if j = 0 then 1 else 0 }
    st := fun i j => decide (a i j ≠ 0)
    qmat := E.qmat
    xmat := [] }

/-- the `vtype` vector: user variables as declared, auxiliary variables continuous -/
def vtype (E : AtomEnc K) (userVars : List (String × ℕ)) : List Char :=
  vtypeVector (userVars ++ E.auxs.map fun sz => ("C", sz))

end AtomEnc

/-- `'A'`: `affine_in*k + affine_out <= 0`, `-affine_in*k + affine_out <= 0` -/
def encA (A : AtomIn K) : AtomEnc K where
  n := A.n
  auxs := []
  rows :=
    ((List.range A.r).map fun i =>
      ⟨fun j => A.k * A.ain i j + A.aout i j, fun _ => 0, -(A.k * A.bin i + A.bout i), false⟩) ++
    ((List.range A.r).map fun i =>
      ⟨fun j => -(A.k * A.ain i j) + A.aout i j, fun _ => 0, -(-(A.k * A.bin i) + A.bout i), false⟩)
  bounds := []
  qmat := []

/-- `'M'`: `aux = dvar(r)`; `affine_in*k <= aux`, `-affine_in*k <= aux`, `sum(aux) + affine_out <= 0` -/
def encM (A : AtomIn K) : AtomEnc K where
  n := A.n
  auxs := [A.r]
  rows :=
    ((List.range A.r).map fun i =>
      ⟨fun j => A.k * A.ain i j, unitAt i (-1), -(A.k * A.bin i), false⟩) ++
    ((List.range A.r).map fun i =>
      ⟨fun j => -(A.k * A.ain i j), unitAt i (-1), A.k * A.bin i, false⟩) ++
    [⟨fun j => A.aout 0 j, fun t => if t < A.r then 1 else 0, -(A.bout 0), false⟩]
  bounds := []
  qmat := []

/-- `'I'`: `aux = dvar(1)`; `affine_in*k <= aux`, `-affine_in*k <= aux`, `aux + affine_out <= 0` -/
def encI (A : AtomIn K) : AtomEnc K where
  n := A.n
  auxs := [1]
  rows :=
    ((List.range A.r).map fun i =>
      ⟨fun j => A.k * A.ain i j, unitAt 0 (-1), -(A.k * A.bin i), false⟩) ++
    ((List.range A.r).map fun i =>
      ⟨fun j => -(A.k * A.ain i j), unitAt 0 (-1), A.k * A.bin i, false⟩) ++
    [⟨fun j => A.aout 0 j, unitAt 0 1, -(A.bout 0), false⟩]
  bounds := []
  qmat := []

/-- `'E'`: `aux_left = dvar(r)`, `aux_right = dvar(1)`; `affine_in*k - aux_left == 0`,
`affine_out + aux_right <= 0`, bound `aux_right >= 0`, cone `[aux_right, aux_left...]` -/
def encE (A : AtomIn K) : AtomEnc K where
  n := A.n
  auxs := [A.r, 1]
  rows :=
    ((List.range A.r).map fun i =>
      ⟨fun j => A.k * A.ain i j, unitAt i (-1), -(A.k * A.bin i), true⟩) ++
    [⟨fun j => A.aout 0 j, unitAt A.r 1, -(A.bout 0), false⟩]
  bounds := [⟨false, [(A.n + A.r, 0)]⟩]
  qmat := [(A.n + A.r) :: (List.range A.r).map fun i => A.n + i]

/-- `'S'`: `aux1, aux2, aux3 = dvar(r)`; `aux1 - 0.5*(1+affine_out) == 0`,
`aux2 - affine_in*k == 0`, `aux3 - 0.5*(1-affine_out) == 0`, bound `aux3 >= 0`,
cones `[aux3_i, aux1_i, aux2_i]` -/
def encS (A : AtomIn K) : AtomEnc K where
  n := A.n
  auxs := [A.r, A.r, A.r]
  rows :=
    ((List.range A.r).map fun i =>
      ⟨fun j => -(1/2 * A.aout i j), unitAt i 1, 1/2 * (1 + A.bout i), true⟩) ++
    ((List.range A.r).map fun i =>
      ⟨fun j => -(A.k * A.ain i j), unitAt (A.r + i) 1, A.k * A.bin i, true⟩) ++
    ((List.range A.r).map fun i =>
      ⟨fun j => 1/2 * A.aout i j, unitAt (A.r + A.r + i) 1, 1/2 * (1 - A.bout i), true⟩)
  bounds := [⟨false, (List.range A.r).map fun i => (A.n + (A.r + A.r + i), 0)⟩]
  qmat := (List.range A.r).map fun i => [A.n + (A.r + A.r + i), A.n + i, A.n + (A.r + i)]

/-- `'Q'`: `aux1 = dvar(1)`, `aux2 = dvar(r)`, `aux3 = dvar(1)`, `aux4 = dvar(1)`;
`aux1 - 0.5*(1-aux4) == 0`, `aux2 - affine_in*k == 0`, `aux3 - 0.5*(1+aux4) == 0`,
`aux4 + affine_out <= 0`, bound `aux3 >= 0`, cone `[aux3, aux1, aux2...]` -/
def encQ (A : AtomIn K) : AtomEnc K where
  n := A.n
  auxs := [1, A.r, 1, 1]
  rows :=
    [⟨fun _ => 0, fun t => unitAt 0 1 t + unitAt (A.r + 2) (1/2) t, 1/2, true⟩] ++
    ((List.range A.r).map fun i =>
      ⟨fun j => -(A.k * A.ain i j), unitAt (1 + i) 1, A.k * A.bin i, true⟩) ++
    [⟨fun _ => 0, fun t => unitAt (A.r + 1) 1 t + unitAt (A.r + 2) (-(1/2)) t, 1/2, true⟩,
     ⟨fun j => A.aout 0 j, unitAt (A.r + 2) 1, -(A.bout 0), false⟩]
  bounds := [⟨false, [(A.n + (A.r + 1), 0)]⟩]
  qmat := [(A.n + (A.r + 1)) :: A.n :: (List.range A.r).map fun i => A.n + (1 + i)]

/-- the encoding `do_math` builds for a `CvxConstr` of the given xtype -/
def encodeAtom : XType → AtomIn K → AtomEnc K
  | .A => encA | .M => encM | .I => encI | .E => encE | .S => encS | .Q => encQ

/-- the `CvxConstr` that `Affine.rsocone` builds for `rso.rsocone(x, y, z)` with `x` an affine
`r`-vector (`ax`, `bx`) and `y`, `z` affine scalars: xtype `'E'`, multiplier 1,
`affine_in = concat(((y-z)*0.5), x)`, `affine_out = -((y+z)*0.5)` -/
def rsoconeAtom (n r : ℕ) (ax : ℕ → ℕ → K) (bx : ℕ → K) (ay : ℕ → K) (by_ : K) (az : ℕ → K) (bz : K) :
    AtomIn K where
  n := n
  r := r + 1
  k := 1
  ain := fun i j => if i = 0 then (ay j - az j) * (1/2) else ax (i - 1) j
  bin := fun i => if i = 0 then (by_ - bz) * (1/2) else bx (i - 1)
  aout := fun _ j => -((ay j + az j) * (1/2))
  bout := fun _ => -((by_ + bz) * (1/2))

end RsomeV
