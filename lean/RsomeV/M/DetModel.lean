import RsomeV.M.AtomsSoc
import RsomeV.M.AtomsExp
import RsomeV.M.IPConeEnc

/-! Order-faithful model of the WHOLE deterministic formulation `Model.do_math(primal=True)` of a
model with several atoms, rows, bounds, integrality and an (atom) objective:
`gcp.Model.do_math` (rsome/gcp.py l.68-262) → `socp.Model.do_math` (rsome/socp.py l.80-230) →
`lp.Model.do_math` (rsome/lp.py l.489-616).

The model is a *composition* of the existing per-atom encoders; no atom is re-modelled:

* exp-type atoms (X, L, P, F, perspective X / L, K): `AExp.encodeAtoms` on the model's `ncols`
  columns (the whole gcp layer: atom columns, then three columns per exponential cone);
* G, T, C: `IPC.branch` (first loop of `socp.do_math`) at the current column offset, the pending
  constraints of all towers are processed later by `IPC.process` (second loop);
* A, M, I, E, S, Q: `encodeAtom` on the atom re-read over all columns that exist when it is
  reached (`AtomIn.at`), its rows are embedded at that offset (`embedRow`).

Processing order of one `do_math()` (all auxiliary columns are appended in creation order after the
user's columns, column 0 is the epigraph column; rows are `lin_constr` in `st` order followed by
`aux_constr` in creation order):

1. gcp layer: `other_constr` (exp-type atoms in `st` order) followed by the objective constraint when
   it is of an exp type (the objective comes AFTER the user's constraints: `other_constr + more_others`);
   then the rows / columns of `exp_constr + atom_exp + more_exp`;
2. socp layer, first loop: `ip_constr` (G, T, C in `st` order) followed by a G/T/C objective
   (`ip_constr + aux_ipc`, again AFTER);
3. socp layer, second loop: `cvx_constr` (E, S, Q in `st` order), then `more_cvx` = the objective
   constraint if it is a `CvxConstr` of any other xtype (only E, S, Q and A are acted upon; for an
   `A` objective the two rows are emitted here AND again by the lp layer), then the pending
   constraints of the towers;
   (an objective constraint whose xtype belongs to a layer the model class does not have — an exp-type
   objective on a `socp.Model`, an E / G / X … objective on an `lp.Model` — is silently skipped by every
   loop: the program then does not constrain the epigraph column; `st` raises for such CONSTRAINTS)
4. lp layer: the row of an affine objective (`t - sign*obj >= 0`), then `pws_constr` (A, M, I in `st`
   order), then an A/M/I objective (`pws_constr + more_cvx`, AFTER);
5. assembly: rows, `vtype`, the fold of `bounds + aux_bounds`, cost `e_0`.

Executable over `ℚ`; theorems (over `ℝ`) in `RsomeV/L/DetModel.lean`, `RsomeV/Props/C06Model.lean`. -/

namespace RsomeV.Det
open RsomeV

variable {K : Type} [Field K] [LinearOrder K] [IsStrictOrderedRing K]

/-! ### description of a deterministic model -/

/-- a `CvxConstr` / `PCvxConstr` / `KLConstr` of the user, by encoder family -/
inductive DAtom (K : Type) where
  /-- xtypes A, M, I, E, S, Q: `A.n` is the number of model columns, `A.k` the stored multiplier -/
  | soc (xt : XType) (A : AtomIn K)
  /-- xtypes G, T, C: multiplier, `affine_in`, `affine_out`, parameters -/
  | ipc (k : K) (ain aout : List (IPC.Aff K)) (pr : IPC.Params)
  /-- xtypes X, L, P, F, perspective X / L, K -/
  | exp (a : AExp.Atom K)

/-- what the user passes to `st`, one object per item, in `st` order (a `LinConstr` with several rows
is several consecutive `row` items) -/
inductive Item (K : Type) where
  | row (r : AExp.ERow K)
  | bound (b : Bound K)
  | atom (a : DAtom K)

/-- the objective: none (`min`/`max` never called), affine `sign * (lin·x + const)` or an atom
`sign * atom` (`sign = 1` for `min`, `-1` for `max`) -/
inductive Obj (K : Type) where
  | none
  | affine (sign : K) (lin : ℕ → K) (const : K)
  | atom (sign : K) (a : DAtom K)

/-- a deterministic model: `top` is the class of the model `do_math` is called on
(0 = `lp.Model`, 1 = `socp.Model`, 2 = `gcp.Model`, also the `rc_model` of `ro.Model`),
`ncols` the number of user columns including the epigraph column 0, `userVars` the declared
variables (type string, size) including the epigraph variable -/
structure Desc (K : Type) where
  top : ℕ
  ncols : ℕ
  userVars : List (String × ℕ)
  items : List (Item K)
  obj : Obj K

/-! ### the objective constraint `vars[0] - sign*obj >= 0` -/

/-- `affine_out` of the objective constraint: `sign * affine_out - vars[0]`
(`Convex.__rmul__`, `Convex.__rsub__`, `Convex.__ge__`) -/
def epiReq (sg : K) (R : AExp.CvxReq K) : AExp.CvxReq K :=
  { R with aout := R.aout.map fun e => (e.smul sg).sub (AExp.Aff.var 0) }

def DAtom.epi (sg : K) : DAtom K → DAtom K
  | .soc xt A => .soc xt { A with aout := fun i j => sg * A.aout i j - (if j = 0 then 1 else 0)
                                  bout := fun i => sg * A.bout i }
  | .ipc k ain aout pr => .ipc k ain (aout.map fun a => (IPC.Aff.smul sg a).sub (IPC.Aff.col 0)) pr
  | .exp (.exp R) => .exp (.exp (epiReq sg R))
  | .exp (.log R) => .exp (.log (epiReq sg R))
  | .exp (.entropy R) => .exp (.entropy (epiReq sg R))
  | .exp (.softplus R) => .exp (.softplus (epiReq sg R))
  | .exp (.pexp R) => .exp (.pexp { R with toCvxReq := epiReq sg R.toCvxReq })
  | .exp (.plog R) => .exp (.plog { R with toCvxReq := epiReq sg R.toCvxReq })
  | .exp (.kl R) => .exp (.kl R)      -- `kldiv` is a constraint, never an objective

/-- the objective constraint, if the objective is an atom -/
def Desc.objAtom (D : Desc K) : List (DAtom K) :=
  match D.obj with
  | .atom sg a => [a.epi sg]
  | _ => []

/-- the `LinConstr` of an affine objective: `-(t - sign*obj) <= 0` -/
def Desc.objRows (D : Desc K) : List (AExp.ERow K) :=
  match D.obj with
  | .affine sg lin c => [⟨fun j => sg * lin j - (if j = 0 then 1 else 0), -(sg * c), false⟩]
  | _ => []

/-! ### routing of the constraints to the layers (`st` of the three classes) -/

def Desc.atoms (D : Desc K) : List (DAtom K) :=
  D.items.filterMap fun | .atom a => some a | _ => none

def Desc.linRows (D : Desc K) : List (AExp.ERow K) :=
  D.items.filterMap fun | .row r => some r | _ => none

def Desc.userBounds (D : Desc K) : List (Bound K) :=
  D.items.filterMap fun | .bound b => some b | _ => none

def expOf : DAtom K → Option (AExp.Atom K)
  | .exp a => some a
  | _ => none

def ipcOf : DAtom K → Option (K × List (IPC.Aff K) × List (IPC.Aff K) × IPC.Params)
  | .ipc k ain aout pr => some (k, ain, aout, pr)
  | _ => none

/-- `CvxConstr` of one of the listed xtypes -/
def socOf (xts : List XType) : DAtom K → Option (XType × AtomIn K)
  | .soc xt A => if xt ∈ xts then some (xt, A) else none
  | _ => none

/-- gcp layer: `self.other_constr + more_others` (only `gcp.Model` has this layer: on a `socp.Model`
or `lp.Model` an exp-type objective constraint is not acted upon by any layer) -/
def Desc.expAtoms (D : Desc K) : List (AExp.Atom K) :=
  D.atoms.filterMap expOf ++ (if 2 ≤ D.top then D.objAtom.filterMap expOf else [])

/-- socp layer, first loop: `self.ip_constr + self.aux_ipc` (not on `lp.Model`) -/
def Desc.ipcAtoms (D : Desc K) : List (K × List (IPC.Aff K) × List (IPC.Aff K) × IPC.Params) :=
  D.atoms.filterMap ipcOf ++ (if 1 ≤ D.top then D.objAtom.filterMap ipcOf else [])

/-- socp layer, second loop before the tower constraints: `self.cvx_constr` + the objective
constraint (`lp.Model` has no such layer) -/
def Desc.cvxAtoms (D : Desc K) : List (XType × AtomIn K) :=
  D.atoms.filterMap (socOf [.E, .S, .Q]) ++
    (if 1 ≤ D.top then D.objAtom.filterMap (socOf [.E, .S, .Q, .A]) else [])

/-- lp layer: `self.pws_constr + more_cvx` -/
def Desc.pwsAtoms (D : Desc K) : List (XType × AtomIn K) :=
  D.atoms.filterMap (socOf [.A, .M, .I]) ++ D.objAtom.filterMap (socOf [.A, .M, .I])

/-! ### the builder state shared by the socp and lp layers -/

/-- `model.last`, `aux_constr`, `aux_bounds`, `qmat` -/
structure St (K : Type) where
  last : ℕ
  rows : List (AExp.ERow K)
  bounds : List (Bound K)
  qmat : List (List ℕ)

/-- the atom re-read on a model that has `b` columns (its data has no coefficient on the columns
`≥ A.n`) -/
def _root_.RsomeV.AtomIn.at (A : AtomIn K) (b : ℕ) : AtomIn K :=
  { A with n := b
           ain := fun i j => if j < A.n then A.ain i j else 0
           aout := fun i j => if j < A.n then A.aout i j else 0 }

/-- a row of a stand-alone encoding (`b` columns before it, `m` auxiliary columns) as a row over all
columns of the model -/
def embedRow (b m : ℕ) (ρ : Row K) : AExp.ERow K :=
  ⟨fun j => if j < b then ρ.u j else if j < b + m then ρ.s (j - b) else 0, ρ.b, ρ.eq⟩

/-- one A / M / I / E / S / Q constraint encoded at the current offset -/
def St.addSoc (s : St K) (p : XType × AtomIn K) : St K :=
  let E := encodeAtom p.1 (p.2.at s.last)
  ⟨s.last + E.naux, s.rows ++ E.rows.map (embedRow s.last E.naux), s.bounds ++ E.bounds,
    s.qmat ++ E.qmat⟩

def ofIpcRow (r : IPC.Row K) : AExp.ERow K := ⟨r.lin, r.rhs, r.eq⟩

/-- `aux_right >= 0` of an `E` encoding as a `Bounds` object -/
def lb0Bound (j : ℕ) : Bound K := ⟨false, [(j, 0)]⟩

/-- first loop of `socp.do_math` over `ip_constr + aux_ipc` starting with `last` columns:
the new `last`, the rows appended to `aux_constr`, the constraints appended to `more_cvx` -/
def ipcLoop : ℕ → List (K × List (IPC.Aff K) × List (IPC.Aff K) × IPC.Params) →
    Option (ℕ × List (IPC.Row K) × List (IPC.Pend K))
  | last, [] => some (last, [], [])
  | last, (k, ain, aout, pr) :: rest =>
    match IPC.branch last k ain aout pr with
    | none => none
    | some (st0, pend) =>
      match ipcLoop st0.last rest with
      | none => none
      | some (l, rows, pend') => some (l, st0.rows ++ rows, pend ++ pend')

/-- the tower constraints in the second loop of `socp.do_math` -/
def St.addPend (s : St K) (pend : List (IPC.Pend K)) : St K :=
  let B := pend.foldl IPC.process ⟨s.last, [], [], []⟩
  ⟨B.last, s.rows ++ B.rows.map ofIpcRow, s.bounds ++ B.lb0.map lb0Bound, s.qmat ++ B.qmat⟩

/-! ### assembly (`lp.Model.do_math`, `SOCProg`, `GCProg`) -/

/-- everything `do_math` hands to the `LinProg` / `SOCProg` / `GCProg` constructors -/
structure Asm (K : Type) where
  nc : ℕ
  rows : List (AExp.ERow K)
  bounds : List (Bound K)
  qmat : List (List ℕ)
  xmat : List (List ℕ)

/-- a model without any row gets the placeholder row `0 == 0`
(`csr_matrix(([], ([], [])), (1, self.last))`, `const = [0]`, `sense = [1]`) -/
def Asm.rows' (A : Asm K) : List (AExp.ERow K) :=
  if A.rows.isEmpty then [⟨fun _ => 0, 0, true⟩] else A.rows

def Asm.prog (A : Asm K) : ConeProg K :=
  let R := A.rows'
  let lp : LinProg K :=
    { nr := R.length
      nc := A.nc
      a := fun i j => (R.getD i default).lin j
      b := fun i => (R.getD i default).rhs
      eq := fun i => (R.getD i default).eq
      ub := (foldBounds A.bounds).1
      lb := (foldBounds A.bounds).2
      c := fun j => if j = 0 then 1 else 0 }
  { lp := lp
    st := fun i j => decide (lp.a i j ≠ 0)
    qmat := A.qmat
    xmat := A.xmat }

/-- state after the gcp layer and the first loop of the socp layer -/
def Desc.exps (D : Desc K) : AExp.ExpEnc K := AExp.encodeAtoms D.ncols D.expAtoms

/-- number of columns after the gcp layer -/
def Desc.expNc (D : Desc K) : ℕ := D.exps.base + 3 * D.exps.cones.length

/-- the socp and lp layers from the result of the first loop on -/
def Desc.tail (D : Desc K) (l : ℕ) (rows : List (IPC.Row K)) (pend : List (IPC.Pend K)) : St K :=
  let s2 : St K := ⟨l, D.exps.allRows ++ rows.map ofIpcRow, [], []⟩
  let s3 := D.cvxAtoms.foldl St.addSoc s2
  let s4 := s3.addPend pend
  let s5 : St K := { s4 with rows := s4.rows ++ D.objRows }
  D.pwsAtoms.foldl St.addSoc s5

/-- all layers; `none` iff a tower of a G / T / C constraint cannot be built (invalid weights) -/
def compile (D : Desc K) : Option (Asm K) :=
  match ipcLoop D.expNc D.ipcAtoms with
  | none => none
  | some (l, rows, pend) =>
    let s := D.tail l rows pend
    some { nc := s.last
           rows := D.linRows ++ s.rows
           bounds := D.userBounds ++ s.bounds
           qmat := s.qmat
           xmat := D.exps.prog.xmat }

/-- **the program `do_math()` returns** -/
def detModel (D : Desc K) : Option (ConeProg K) := (compile D).map Asm.prog

/-- the `vtype` string: the user's variables as declared, every auxiliary column continuous -/
def detVtype (D : Desc K) : Option (List Char) :=
  (compile D).map fun A => vtypeVector (D.userVars ++ [("C", A.nc - D.ncols)])

end RsomeV.Det
