import RsomeV.M.Partition

/-! Model of the solution read-back index arithmetic (rsome/lp.py `Vars.get`, `VarSub.get`, `DecVar.get`,
`Model.get`): which positions of the solver vector a query reads, and how the per-scenario results are labelled. -/

namespace RsomeV.Readback
open RsomeV.Partition

/-- `Vars.get`: positions `first .. first+size-1` -/
def varIdx (first size : Nat) : List Nat := (List.range size).map (first + ·)

/-- `VarSub.get`: the parent's positions gathered by the slice's (relative, flat) indices -/
def subIdx (first : Nat) (indices : List Nat) : List Nat := indices.map (first + ·)

/-- `DecVar.get()`: positions (inside the block of event-wise constants `var_const`) of event number `e` of a decision -/
def eventIdx (roFirst size e : Nat) : List Nat := (List.range size).map fun i => roFirst + e * size + i

/-- `outputs[eindex]` for every event of decision `k`, in event order -/
def outputs (ds : List Dec) (k : Nat) : List (List Nat) :=
  match ds[k]? with
  | none => []
  | some d => (List.range d.events.length).map fun e => eventIdx (roFirst ds k) d.size e

/-- (repaired) the entry labelled with scenario `s` in the returned series: `outputs[edict[s]]` -/
def getIdx (ds : List Dec) (k s : Nat) : List Nat :=
  match ds[k]? with
  | none => []
  | some d => eventIdx (roFirst ds k) d.size ((eventOf d.events s).getD 0)

/-- keys of `event_dict(event_adapt)` in insertion order: scenarios listed event by event -/
def dictOrder (es : Events) : List Nat := es.flatten

/-- the pre-repair series (defect F12): built by iterating the dictionary in insertion order, but labelled
`0, 1, 2, …`: the entry labelled `s` is the value of the `s`-th *key* -/
def legacyGetIdx (ds : List Dec) (k s : Nat) : List Nat :=
  match ds[k]? with
  | none => []
  | some d => eventIdx (roFirst ds k) d.size ((eventOf d.events ((dictOrder d.events).getD s 0)).getD 0)

/-- `Model.get()`: `sign * objval` -/
def modelGet (sign objval : Int) : Int := sign * objval

end RsomeV.Readback
