import RsomeV.M.ConeDual

/-! Order-faithful model of `lp.RoConstr.le_to_rc` (rsome/lp.py): the robust counterpart of a
block of `m` uncertain `≤`-rows  `Σ_j R[n][j](x)·z_j + a[n](x) ≤ 0  ∀ z ∈ Z`, given the
*dual form* `S` of the support program (what `forall()` / `minmax()` store in `.support`).

Random components `j ≥ num_rand = min(nz, S.lp.nr)` (in particular random variables declared after
the set was formulated, which the support program does not know and hence does not restrict) get
the fourth block `raffine[:, num_rand:] == 0`: their coefficients must vanish. -/

namespace RsomeV
open Finset

variable {K : Type} [Field K] [LinearOrder K] [IsStrictOrderedRing K]

/-- a block of uncertain rows: bi-affine in the `nd` existing decision columns and `nz` random
components (`RoAffine.raffine` of shape `(m, nz)` and `RoAffine.affine` of size `m`) -/
structure RoRows (K : Type) where
  nd : ℕ
  m  : ℕ
  nz : ℕ
  Rl : ℕ → ℕ → ℕ → K     -- row n, random component j, decision column d
  Rc : ℕ → ℕ → K         -- constant part of the coefficient of z_j in row n
  al : ℕ → ℕ → K         -- deterministic part: row n, decision column d
  ac : ℕ → K

/-- the list of constraints `le_to_rc` returns, laid out as one program fragment over the columns
`[0, nd)` (decisions) and `[nd, nd + m·|S|)` (multipliers `dual_var`, row-major `(n, i)`) -/
structure RcFragment (K : Type) where
  prog : ConeProg K          -- rows = constr1 ++ constr2 ++ constr3 ++ (late == 0) in that order; bounds on multipliers only
  n1 : ℕ                     -- number of rows of each block
  n2 : ℕ
  n3 : ℕ
  n4 : ℕ                     -- rows of `raffine[:, num_rand:] == 0` (random variables declared after the set)

namespace RoRows

/-- `num_rand = min(raffine.shape[1], support.linear.shape[0])` -/
def numRand (R : RoRows K) (S : ConeProg K) : ℕ := min R.nz S.lp.nr

/-- column of multiplier `(n, i)` -/
def ycol (R : RoRows K) (S : ConeProg K) (n i : ℕ) : ℕ := R.nd + n * S.lp.nc + i

/-- `extra.linear.nnz > 0 or np.any(extra.const)` for `extra = raffine[:, num_rand:]`: some
coefficient of a random component `num_rand ≤ j < nz` (a random variable the support program does
not know: declared after the set was formulated) is structurally non-zero -/
def latePresent (R : RoRows K) (S : ConeProg K) : Bool :=
  (List.range R.m).any fun n => (List.range (R.nz - R.numRand S)).any fun jj =>
    decide (R.Rc n (R.numRand S + jj) ≠ 0) ||
      (List.range R.nd).any fun d => decide (R.Rl n (R.numRand S + jj) d ≠ 0)

/-- number of rows of the block `raffine[:, num_rand:] == 0` (absent when structurally zero, and
when `nz ≤ num_rand`) -/
def n4 (R : RoRows K) (S : ConeProg K) : ℕ :=
  if R.latePresent S then R.m * (R.nz - R.numRand S) else 0

def leToRc (R : RoRows K) (S : ConeProg K) : RcFragment K :=
  let ss := S.lp.nc
  let nr := R.numRand S
  let n1 := R.m
  let n2 := R.m * nr
  let n3 := R.m * (S.lp.nr - nr)
  let n4 := R.n4 S
  let w4 := R.nz - nr
  let nc := R.nd + R.m * ss
  -- decode a multiplier column
  let isY : ℕ → Bool := fun c => decide (R.nd ≤ c ∧ c < nc)
  let yn : ℕ → ℕ := fun c => (c - R.nd) / ss
  let yi : ℕ → ℕ := fun c => (c - R.nd) % ss
  let a : ℕ → ℕ → K := fun r c =>
    if r < n1 then
      (if c < R.nd then R.al r c else if isY c ∧ yn c = r then S.lp.c (yi c) else 0)
    else if r < n1 + n2 then
      (if c < R.nd then R.Rl ((r - n1) / nr) ((r - n1) % nr) c * S.lp.b ((r - n1) % nr)
       else if isY c ∧ yn c = (r - n1) / nr then S.lp.a ((r - n1) % nr) (yi c) else 0)
    else if r < n1 + n2 + n3 then
      (if c < R.nd then 0
       else if isY c ∧ yn c = (r - n1 - n2) / (S.lp.nr - nr) then
         S.lp.a (nr + (r - n1 - n2) % (S.lp.nr - nr)) (yi c) else 0)
    else
      -- `raffine[:, num_rand:] == 0`, flattened row-major `(n, j)`
      (if c < R.nd then R.Rl ((r - n1 - n2 - n3) / w4) (nr + (r - n1 - n2 - n3) % w4) c else 0)
  let b : ℕ → K := fun r =>
    if r < n1 then - R.ac r
    else if r < n1 + n2 then
      - (R.Rc ((r - n1) / nr) ((r - n1) % nr) * S.lp.b ((r - n1) % nr))
    else if r < n1 + n2 + n3 then 0
    else - R.Rc ((r - n1 - n2 - n3) / w4) (nr + (r - n1 - n2 - n3) % w4)
  let eq : ℕ → Bool := fun r =>
    if r < n1 then false
    else if r < n1 + n2 then S.lp.eq ((r - n1) % nr)
    else if r < n1 + n2 + n3 then S.lp.eq (nr + (r - n1 - n2) % (S.lp.nr - nr))
    else true
  { prog :=
      { lp := { nr := n1 + n2 + n3 + n4, nc := nc, a := a, b := b, eq := eq
                -- `dual_var[:, support.ub == 0] <= 0`, `dual_var[:, support.lb == 0] >= 0`
                ub := fun c => if isY c ∧ S.lp.ub (yi c) = some 0 then some 0 else none
                lb := fun c => if isY c ∧ S.lp.lb (yi c) = some 0 then some 0 else none
                c := fun _ => 0 }
        st := fun r c => decide (a r c ≠ 0)
        -- one cone per support cone and row n, on the multiplier columns of row n
        qmat := (List.range R.m).flatMap fun n => S.qmat.map fun q => q.map fun i => R.ycol S n i
        xmat := (List.range R.m).flatMap fun n => S.xmat.map fun e => e.map fun i => R.ycol S n i }
    n1 := n1, n2 := n2, n3 := n3, n4 := n4 }

/-- the uncertain row `n` evaluated at a decision/multiplier assignment `v` and realisation `z` -/
def eval (R : RoRows K) (n : ℕ) (v z : ℕ → K) : K :=
  (∑ j ∈ range R.nz, ((∑ d ∈ range R.nd, R.Rl n j d * v d) + R.Rc n j) * z j) +
  ((∑ d ∈ range R.nd, R.al n d * v d) + R.ac n)

end RoRows
end RsomeV
