/-! Model of NumPy's index arithmetic as used by rsome's selector matrices
(`np.arange(size).reshape(shape)` pushed through an array operation): row-major ravel / unravel,
broadcasting, transpose, `swapaxes(-1,-2)`, `@`, basic slices, axis sums, concatenation, `np.diag`.
Shapes and multi-indices are `List Nat` (C order).  Core Lean only, every function total. -/

namespace RsomeV.Nd

/-! ### ravel / unravel -/

/-- number of elements of an array of the given shape (`np.prod(shape)`, `1` for a 0-d array) -/
def size : List Nat → Nat
  | [] => 1
  | d :: ds => d * size ds

/-- row-major flat index of a multi-index (`np.ravel_multi_index(idx, shape)`); the stride of an
axis is the size of the trailing shape -/
def ravel : List Nat → List Nat → Nat
  | _ :: ds, i :: is => i * size ds + ravel ds is
  | _, _ => 0

/-- multi-index of a flat index (`np.unravel_index(k, shape)`) -/
def unravel : List Nat → Nat → List Nat
  | [], _ => []
  | _ :: ds, k => k / size ds :: unravel ds (k % size ds)

/-- `idx` is a legal multi-index of an array of shape `shape`: same length, every component below
its dimension -/
def ValidIdx : List Nat → List Nat → Prop
  | [], [] => True
  | d :: ds, i :: is => i < d ∧ ValidIdx ds is
  | _, _ => False

/-! ### broadcasting -/

/-- broadcasting of two shapes given last axis first -/
def bcastRev : List Nat → List Nat → Option (List Nat)
  | [], b => some b
  | a, [] => some a
  | x :: a, y :: b =>
    if x = y then (bcastRev a b).map (x :: ·)
    else if x = 1 then (bcastRev a b).map (y :: ·)
    else if y = 1 then (bcastRev a b).map (x :: ·)
    else none

/-- `np.broadcast_shapes(a, b)`: align right, dimensions must be equal or one of them 1;
`none` when NumPy raises -/
def broadcastShapes (a b : List Nat) : Option (List Nat) :=
  (bcastRev a.reverse b.reverse).map List.reverse

/-- the multi-index into an array of shape `src` that is read at multi-index `idx` of its broadcast:
keep the trailing `src.length` components and read position 0 along every axis of length 1 -/
def bcastIdx (src idx : List Nat) : List Nat :=
  List.zipWith (fun d i => if d = 1 then 0 else i) src (idx.drop (idx.length - src.length))

/-- flat index into an array of shape `src` of the element that lands at flat position `k` of its
broadcast to shape `tgt` (`np.broadcast_to(np.arange(size src).reshape(src), tgt).ravel()[k]`) -/
def bcastFlat (src tgt : List Nat) (k : Nat) : Nat :=
  ravel src (bcastIdx src (unravel tgt k))

/-! ### transposes -/

/-- flat source index of element `k` of `a.T` (all axes reversed) for `a` of shape `shape` -/
def transposeSrc (shape : List Nat) (k : Nat) : Nat :=
  ravel shape (unravel shape.reverse k).reverse

/-- exchange the last two entries of a list (identity on lists shorter than 2) -/
def swapLast {α : Type} (l : List α) : List α :=
  l.take (l.length - 2) ++ (l.drop (l.length - 2)).reverse

/-- flat source index of element `k` of `np.swapaxes(a, -1, -2)` -/
def swapLastSrc (shape : List Nat) (k : Nat) : Nat :=
  ravel shape (swapLast (unravel (swapLast shape) k))

/-! ### matmul -/

/-- 1-D left operand of `@` becomes a row -/
def promoteL (a : List Nat) : List Nat := if a.length = 1 then 1 :: a else a
/-- 1-D right operand of `@` becomes a column -/
def promoteR (b : List Nat) : List Nat := if b.length = 1 then b ++ [1] else b
/-- all axes but the last two -/
def batchOf (a : List Nat) : List Nat := a.take (a.length - 2)
/-- second to last dimension -/
def rowsOf (a : List Nat) : Nat := a.getD (a.length - 2) 0
/-- last dimension -/
def colsOf (a : List Nat) : Nat := a.getD (a.length - 1) 0

/-- the pairs of `(ba ++ [m,n]) @ (bb ++ [n,p])` with batch axes broadcast to `bt`: output element
`o` has multi-index `β ++ [r, c]`; it adds up `A[bcast β, r, i] * B[bcast β, i, c]` over `i < n` -/
def matmulCore (ba bb bt : List Nat) (m n p : Nat) : List (List (Nat × Nat)) :=
  (List.range (size (bt ++ [m, p]))).map fun o =>
    let idx := unravel (bt ++ [m, p]) o
    let β := idx.take bt.length
    let r := idx.getD bt.length 0
    let c := idx.getD (bt.length + 1) 0
    (List.range n).map fun i =>
      (ravel (ba ++ [m, n]) (bcastIdx ba β ++ [r, i]), ravel (bb ++ [n, p]) (bcastIdx bb β ++ [i, c]))

/-- shape of `a @ b` (`none` when NumPy raises: 0-d operand, inner dimensions differ, batch axes
not broadcastable) -/
def matmulShape (a b : List Nat) : Option (List Nat) :=
  if a = [] ∨ b = [] then none else
  let a' := promoteL a
  let b' := promoteR b
  if colsOf a' ≠ rowsOf b' then none else
  match broadcastShapes (batchOf a') (batchOf b') with
  | none => none
  | some bt =>
    some (bt ++ (if a.length = 1 then [] else [rowsOf a']) ++ (if b.length = 1 then [] else [colsOf b']))

/-- for every element of `a @ b` (row-major) the list over the inner index of
`(flat index into a, flat index into b)`; `[]` when `matmulShape a b = none` -/
def matmulPairs (a b : List Nat) : List (List (Nat × Nat)) :=
  if a = [] ∨ b = [] then [] else
  let a' := promoteL a
  let b' := promoteR b
  if colsOf a' ≠ rowsOf b' then [] else
  match broadcastShapes (batchOf a') (batchOf b') with
  | none => []
  | some bt => matmulCore (batchOf a') (batchOf b') bt (rowsOf a') (colsOf a') (colsOf b')

/-! ### slices -/

/-- `PySlice_AdjustIndices` applied to one bound (`neg` = the step is negative) -/
def adjustBound (n : Nat) (neg : Bool) (v : Int) : Int :=
  if v < 0 then
    if v + n < 0 then (if neg then -1 else 0) else v + n
  else if v ≥ n then (if neg then (n : Int) - 1 else n)
  else v

/-- `len(range(lo, hi, s))` as CPython computes it -/
def rangeLen (lo hi s : Int) : Nat :=
  if 0 < s then (if lo < hi then ((hi - lo + s - 1) / s).toNat else 0)
  else if s < 0 then (if hi < lo then ((lo - hi - s - 1) / (-s)).toNat else 0)
  else 0

/-- `list(range(lo, hi, s))` (empty for `s = 0`) -/
def pyRange (lo hi s : Int) : List Int :=
  (List.range (rangeLen lo hi s)).map fun (i : Nat) => lo + (i : Int) * s

/-- normalised start of `slice(start, _, s).indices(n)` -/
def sliceLo (n : Nat) (start : Option Int) (s : Int) : Int :=
  match start with
  | none => if s < 0 then (n : Int) - 1 else 0
  | some v => adjustBound n (decide (s < 0)) v

/-- normalised stop of `slice(_, stop, s).indices(n)` -/
def sliceHi (n : Nat) (stop : Option Int) (s : Int) : Int :=
  match stop with
  | none => if s < 0 then -1 else n
  | some v => adjustBound n (decide (s < 0)) v

/-- `list(range(*slice(start, stop, step).indices(n)))`; `[]` for `step = 0` (Python raises) -/
def sliceIdx (n : Nat) (start stop step : Option Int) : List Nat :=
  let s := step.getD 1
  (pyRange (sliceLo n start s) (sliceHi n stop s) s).map Int.toNat

/-! ### axis sums -/

/-- `axis` as a position `< rank`; `none` when NumPy raises `AxisError` -/
def normAxis (rank : Nat) (axis : Int) : Option Nat :=
  if 0 ≤ axis ∧ axis < rank then some axis.toNat
  else if axis < 0 ∧ -(rank : Int) ≤ axis then some (axis + rank).toNat
  else none

/-- for each element of `a.sum(axis)` (row-major, shape `shape.eraseIdx axis`) the flat indices
into `a` it adds up: the output multi-index with `j` inserted at position `axis`, for every `j` -/
def sumAxisGroups (shape : List Nat) (axis : Nat) : List (List Nat) :=
  let out := shape.eraseIdx axis
  (List.range (size out)).map fun o =>
    let idx := unravel out o
    (List.range (shape.getD axis 0)).map fun j => ravel shape (idx.take axis ++ j :: idx.drop axis)

/-! ### concatenate -/

/-- shape of `np.concatenate((a, b), axis)`; `none` when NumPy raises -/
def concatShape (sa sb : List Nat) (axis : Nat) : Option (List Nat) :=
  if sa.length = sb.length ∧ axis < sa.length ∧ sa.eraseIdx axis = sb.eraseIdx axis then
    some (sa.set axis (sa.getD axis 0 + sb.getD axis 0))
  else none

/-- for each element of `np.concatenate((a, b), axis)`: `(false, flat index into a)` or
`(true, flat index into b)` -/
def concatSrc (sa sb : List Nat) (axis : Nat) : List (Bool × Nat) :=
  let da := sa.getD axis 0
  let out := sa.set axis (da + sb.getD axis 0)
  (List.range (size out)).map fun o =>
    let idx := unravel out o
    let i := idx.getD axis 0
    if i < da then (false, ravel sa idx) else (true, ravel sb (idx.set axis (i - da)))

/-! ### diagonals -/

/-- flat indices into a `rows × cols` array of `np.diag(a, k)` -/
def diagIdx (rows cols : Nat) (k : Int) : List Nat :=
  if 0 ≤ k then
    (List.range (min rows (cols - k.toNat))).map fun i => i * cols + (i + k.toNat)
  else
    (List.range (min (rows - (-k).toNat) cols)).map fun i => (i + (-k).toNat) * cols + i

end RsomeV.Nd
