import RsomeV.M.IPCone
import RsomeV.M.ConeDual
import Mathlib.Algebra.Field.Rat
import Mathlib.Algebra.Order.Ring.Rat

/-! Executable, order-faithful model of the standard form `socp.Model.do_math()` produces for ONE
constraint of xtype 'G' (p-norm, SOC method), 'T' (power) or 'C' (geometric mean) on a fresh model
(rsome/socp.py `Model.do_math`, branches l.127-168 and the 'E' / 'A' branches of the second loop;
rsome/lp.py `Model.do_math` for the assembly).

Column 0 is the epigraph column, columns `1..ncols-1` the user variables; auxiliary columns follow in
creation order: first the columns of the branch itself (`aux1`, `aux2` / `aux`), then the variables of
the towers (`to_soc()` of every `IPCone`, in the order the towers are built), then — second loop of
`do_math` — for every returned rotated cone the three columns `aux_left` (2) and `aux_right` (1) of
its 'E' encoding.  Rows are `aux_constr` in creation order. -/

namespace RsomeV.IPC

variable {K : Type} [Field K]

/-- an affine expression over the columns -/
structure Aff (K : Type) where
  lin : ℕ → K
  c : K

namespace Aff
def col (j : ℕ) : Aff K := ⟨fun i => if i = j then 1 else 0, 0⟩
def const (v : K) : Aff K := ⟨fun _ => 0, v⟩
def add (a b : Aff K) : Aff K := ⟨fun i => a.lin i + b.lin i, a.c + b.c⟩
def sub (a b : Aff K) : Aff K := ⟨fun i => a.lin i - b.lin i, a.c - b.c⟩
def neg (a : Aff K) : Aff K := ⟨fun i => - a.lin i, - a.c⟩
def smul (k : K) (a : Aff K) : Aff K := ⟨fun i => k * a.lin i, k * a.c⟩
def sum : List (Aff K) → Aff K
  | [] => const 0
  | a :: t => add a (sum t)
end Aff

/-- a row `lin·x ≤ rhs` / `lin·x = rhs` of `aux_constr` -/
structure Row (K : Type) where
  lin : ℕ → K
  rhs : K
  eq : Bool

/-- `expr <= 0` as a `LinConstr` (`linear = expr.linear`, `const = -expr.const`) -/
def leRow (a : Aff K) : Row K := ⟨a.lin, - a.c, false⟩
/-- `expr == 0` -/
def eqRow (a : Aff K) : Row K := ⟨a.lin, - a.c, true⟩

/-- constraints waiting in `more_cvx` for the second loop of `socp.do_math` -/
inductive Pend (K : Type) where
  /-- `|L| ≤ S` : `CvxConstr` of xtype 'A' with `affine_in = L`, `affine_out = -S` -/
  | abs (L S : Aff K)
  /-- `L.rsocone(U, V)` : xtype 'E' with `affine_in = [(U-V)/2, L]`, `affine_out = -(U+V)/2` -/
  | cone (L U V : Aff K)

/-- builder state: `model.last`, `aux_constr`, the columns of `aux_bounds` (`aux_right >= 0`), `qmat` -/
structure Bld (K : Type) where
  last : ℕ
  rows : List (Row K)
  lb0 : List ℕ
  qmat : List (List ℕ)

/-- values of the symbolic tower variables as affine expressions: `x ↦ left`, `r i ↦ right[i]`,
`aux k ↦` column `base + k` -/
def towerVal (base : ℕ) (left : Aff K) (right : List (Aff K)) : Var → Aff K
  | .x => left
  | .r i => right.getD i (Aff.const 0)
  | .aux k => Aff.col (base + k)

/-- `IPCone(left, right, β).to_soc()` on the builder: creates the tower variables, returns the pending
constraints in the order of the returned list -/
def tower (st : Bld K) (left : Aff K) (right : List (Aff K)) (β : List ℕ) :
    Option (Bld K × List (Pend K)) :=
  match toSoc β with
  | none => none
  | some out =>
    let val := towerVal st.last left right
    some ({ st with last := st.last + out.flags.length },
      out.absRows.map (fun p => Pend.abs (val p.1) (val p.2)) ++
      out.cones.map (fun c => Pend.cone (val c.left) (val c.u) (val c.v)))

/-- second loop of `socp.do_math` on one pending constraint -/
def process (st : Bld K) : Pend K → Bld K
  | .abs L S =>
    -- 'A': `affine_in + affine_out <= 0`, `-affine_in + affine_out <= 0`
    { st with rows := st.rows ++ [leRow (L.add S.neg), leRow (L.neg.add S.neg)] }
  | .cone L U V =>
    -- 'E': `aux_left = dvar(2)`, `aux_right = dvar(1)`; `affine_in - aux_left == 0`,
    -- `affine_out + aux_right <= 0`, bound `aux_right >= 0`, cone `[aux_right, aux_left...]`
    let al := st.last
    let ar := st.last + 2
    { last := st.last + 3
      rows := st.rows ++ [eqRow ((Aff.smul (1/2) (U.sub V)).sub (Aff.col al)),
                          eqRow (L.sub (Aff.col (al + 1))),
                          leRow ((Aff.smul (1/2) (U.add V)).neg.add (Aff.col ar))]
      lb0 := st.lb0 ++ [ar]
      qmat := st.qmat ++ [[ar, al, al + 1]] }

/-- parameters of the atom -/
inductive Params where
  /-- 'G' : weights `[1, p-1]` (integer degree) or `[b, a-b]` (degree `a/b`) -/
  | g (β : List ℕ)
  /-- 'T' : for every element of the broadcast: index into `affine_in`, `p`, `q` -/
  | t (items : List (ℕ × ℕ × ℕ))
  /-- 'C' : weights -/
  | c (β : List ℕ)

/-- run the towers of a list of jobs in order, collecting the pending constraints -/
def towers (st : Bld K) : List (Aff K × List (Aff K) × List ℕ) → Option (Bld K × List (Pend K))
  | [] => some (st, [])
  | (l, r, β) :: rest =>
    match tower st l r β with
    | none => none
    | some (st1, p1) =>
      match towers st1 rest with
      | none => none
      | some (st2, p2) => some (st2, p1 ++ p2)

/-- 'T': rows of the `p == q` elements (appended inside the loop), element `i` of the broadcast -/
def tAbsRows (ncols : ℕ) (ain : List (Aff K)) (i : ℕ) (it : ℕ × ℕ × ℕ) : List (Row K) :=
  if it.2.1 = it.2.2 then
    let a := ain.getD it.1 (Aff.const 0)
    [leRow (a.sub (Aff.col (ncols + i))), leRow ((Aff.col (ncols + i)).neg.sub a)]
  else []

/-- 'T': the tower of element `i` (`p ≠ q`) -/
def tJob (ncols s : ℕ) (ain : List (Aff K)) (i : ℕ) (it : ℕ × ℕ × ℕ) :
    Option (Aff K × List (Aff K) × List ℕ) :=
  if it.2.1 = it.2.2 then none
  else some (ain.getD it.1 (Aff.const 0), [Aff.col (ncols + i), Aff.col (ncols + s + i)],
    [it.2.2, it.2.1 - it.2.2])

/-- 'G': state after `aux1`, `aux2` and the rows `aux2 + affine_out <= 0`, `aux1.sum() <= aux2` -/
def gInit (ncols : ℕ) (ain aout : List (Aff K)) : Bld K :=
  { last := ncols + ain.length + 1, lb0 := [], qmat := [], rows := [
      leRow ((Aff.col (ncols + ain.length)).add (aout.getD 0 (Aff.const 0))),
      leRow ((Aff.sum ((List.range ain.length).map fun j => Aff.col (ncols + j))).sub
        (Aff.col (ncols + ain.length)))] }

/-- 'G': one tower `IPCone(k·in_j, (aux1_j, aux2), β)` per entry -/
def gJobs (ncols : ℕ) (k : K) (ain : List (Aff K)) (β : List ℕ) :
    List (Aff K × List (Aff K) × List ℕ) :=
  (List.range ain.length).map fun j =>
    (Aff.smul k (ain.getD j (Aff.const 0)), [Aff.col (ncols + j), Aff.col (ncols + ain.length)], β)

/-- 'T': state after `aux1`, `aux2` (`size` columns each) and the rows of the `p == q` elements -/
def tInit (ncols : ℕ) (ain : List (Aff K)) (items : List (ℕ × ℕ × ℕ)) : Bld K :=
  { last := ncols + 2 * items.length, lb0 := [], qmat := [],
    rows := ((List.range items.length).zip items).flatMap fun p => tAbsRows ncols ain p.1 p.2 }

/-- 'T': the towers of the `p ≠ q` elements, in order -/
def tJobs (ncols : ℕ) (ain : List (Aff K)) (items : List (ℕ × ℕ × ℕ)) :
    List (Aff K × List (Aff K) × List ℕ) :=
  ((List.range items.length).zip items).filterMap fun p => tJob ncols items.length ain p.1 p.2

/-- 'T': rows `aux2 == 1` then `aux1 + affine_out/multiplier <= 0`, appended after the loop -/
def tTail (ncols : ℕ) (k : K) (aout : List (Aff K)) (s : ℕ) : List (Row K) :=
  ((List.range s).map fun i => eqRow ((Aff.col (ncols + s + i)).sub (Aff.const 1))) ++
  ((List.range s).map fun i =>
    leRow ((Aff.col (ncols + i)).add (Aff.smul (1 / k) (aout.getD i (Aff.const 0)))))

/-- 'C': state after `aux` and the row `aux*multiplier + affine_out <= 0` -/
def cInit (ncols : ℕ) (k : K) (aout : List (Aff K)) : Bld K :=
  { last := ncols + 1, lb0 := [], qmat := [], rows := [
      leRow ((Aff.smul k (Aff.col ncols)).add (aout.getD 0 (Aff.const 0)))] }

/-- first loop of `socp.do_math` for the single constraint: rows and columns of the branch, the towers -/
def branch (ncols : ℕ) (k : K) (ain aout : List (Aff K)) : Params → Option (Bld K × List (Pend K))
  | .g β => towers (gInit ncols ain aout) (gJobs ncols k ain β)
  | .t items =>
    match towers (tInit ncols ain items) (tJobs ncols ain items) with
    | none => none
    | some (st, pend) => some ({ st with rows := st.rows ++ tTail ncols k aout items.length }, pend)
  | .c β => tower (cInit ncols k aout) (Aff.col ncols) ain β

/-- the final builder state: first loop, then the second loop over the pending constraints -/
def finalState (ncols : ℕ) (k : K) (ain aout : List (Aff K)) (pr : Params) : Option (Bld K) :=
  match branch ncols k ain aout pr with
  | none => none
  | some (st0, pend) => some (pend.foldl process st0)

/-- `lp.Model.do_math`: assemble the program from the builder state (objective: the epigraph column) -/
def assemble [DecidableEq K] (st : Bld K) : ConeProg K :=
  { lp := { nr := st.rows.length
            nc := st.last
            a := fun i j => match st.rows[i]? with | some r => r.lin j | none => 0
            b := fun i => match st.rows[i]? with | some r => r.rhs | none => 0
            eq := fun i => match st.rows[i]? with | some r => r.eq | none => false
            ub := fun _ => none
            lb := fun j => if st.lb0.contains j then some 0 else none
            c := fun j => if j = 0 then 1 else 0 }
    st := fun i j => match st.rows[i]? with | some r => decide (r.lin j ≠ 0) | none => false
    qmat := st.qmat
    xmat := [] }

/-- the standard form of `do_math()` for the single constraint -/
def atomEncode [DecidableEq K] (ncols : ℕ) (k : K) (ain aout : List (Aff K)) (pr : Params) :
    Option (ConeProg K) :=
  (finalState ncols k ain aout pr).map assemble

end RsomeV.IPC
