/-! # C16 — model of rsome's LP-format export

`LinProg.lp_export` (rsome/lp.py l.5405-5449) and `SOCProg.lp_export` (rsome/socp.py l.394-406).

Numbers are *abstract tokens*: the Python code prints `abs(coeff)`, `const[i]`, `lb[i]`, `ub[i]`
through `'{}'.format(float)`; here they are already-formatted strings.  What is modelled is the
*layout*: which tokens are printed, in which order, with which signs / labels / keywords / blanks
and line breaks.  `renderLines` gives the text as a list of lines, each line a list of words
(words may be empty: `' c3:  <= 3.0'` is `["", "c3:", "", "<=", "3.0"]`), and
`render p = "\n".intercalate (lines.map (" ".intercalate ·))`, i.e. Python's
`'\n'.join(' '.join(words) for words in lines)`; the last line is `End`, without newline.

Core Lean only (no Mathlib). -/

namespace RsomeV.Export

/-- a printed coefficient: `neg` = `coeff < 0`, `isZero` = `not coeff` (only the objective looks at
it: `... for i, coeff in enumerate(self.obj) if coeff`), `absTok` = `str(abs(coeff))`. -/
structure Coef where
  neg : Bool
  isZero : Bool
  absTok : String
deriving Repr, DecidableEq, Inhabited

/-- the data `lp_export` looks at.  `rows[i]` = the *stored* CSR entries of row `i`
(`row.data`, `row.indices` zipped, in stored order, explicit zeros included);
`sense[i] = true` ⇔ `self.sense[i] ≠ 0` (equality row);
`const/lb/ub` already formatted; `vtype` letters; `qmat` (empty for a plain `LinProg`). -/
structure ExProg where
  obj : List Coef
  rows : List (List (Coef × Nat))
  sense : List Bool
  const : List String
  lb : List String
  ub : List String
  vtype : List Char
  qmat : List (List Nat)
deriving Repr, DecidableEq, Inhabited

/-- one printed term `± tok x{col+1}` -/
structure Term where
  neg : Bool
  tok : String
  col : Nat
deriving Repr, DecidableEq, Inhabited

/-- one parsed / printed linear row: its terms, `eq` (`=` versus `<=`), right-hand-side token -/
structure PRow where
  terms : List Term
  eq : Bool
  rhs : String
deriving Repr, DecidableEq, Inhabited

/-- what the text determines -/
structure Parsed where
  obj : List Term
  cones : List (List Nat)
  rows : List PRow
  bounds : List (String × String)
  ints : List Nat
  bins : List Nat
deriving Repr, DecidableEq, Inhabited

/-! ## labels -/

/-- `'x{}'.format(j+1)` -/
def xLabel (j : Nat) : String := String.ofList ('x' :: Nat.toDigits 10 (j + 1))
/-- `'c{}:'.format(i+1)` -/
def cLabel (i : Nat) : String := String.ofList ('c' :: (Nat.toDigits 10 (i + 1) ++ [':']))
/-- `'q{}:'.format(i+1)` -/
def qLabel (i : Nat) : String := String.ofList ('q' :: (Nat.toDigits 10 (i + 1) ++ [':']))

/-! ## the semantic content (`toParsed`) -/

/-- `[(coeff, i) for i, coeff in enumerate(obj) if coeff]`, counting from `i` -/
def objTermsFrom (i : Nat) : List Coef → List Term
  | [] => []
  | c :: cs => if c.isZero then objTermsFrom (i + 1) cs
               else ⟨c.neg, c.absTok, i⟩ :: objTermsFrom (i + 1) cs

/-- every stored entry of a row, zeros included -/
def rowTerms (r : List (Coef × Nat)) : List Term := r.map fun e => ⟨e.1.neg, e.1.absTok, e.2⟩

/-- rows, senses and constants side by side -/
def zipRows : List (List (Coef × Nat)) → List Bool → List String → List PRow
  | r :: rs, s :: ss, c :: cs => ⟨rowTerms r, s, c⟩ :: zipRows rs ss cs
  | _, _, _ => []

/-- `np.where(vtype == ch)`, counting from `i` -/
def idxWhereFrom (ch : Char) (i : Nat) : List Char → List Nat
  | [] => []
  | c :: cs => if c = ch then i :: idxWhereFrom ch (i + 1) cs else idxWhereFrom ch (i + 1) cs

/-- the program "as the text shows it": zero objective coefficients dropped (and the
`isZero` flags of row entries forgotten), everything else kept. -/
def toParsed (p : ExProg) : Parsed where
  obj := objTermsFrom 0 p.obj
  cones := p.qmat
  rows := zipRows p.rows p.sense p.const
  bounds := p.lb.zip p.ub
  ints := idxWhereFrom 'I' 0 p.vtype
  bins := idxWhereFrom 'B' 0 p.vtype

/-! ## rendering -/

/-- `'{} {} x{}'.format('-' if coeff < 0 else '+', abs(coeff), index+1)` as three words -/
def termWords (t : Term) : List String := [if t.neg then "-" else "+", t.tok, xLabel t.col]

/-- the words of `' '.join(parts)`, each part being itself a non-empty list of words: the join of
no part at all is the empty string, i.e. the single empty word. -/
def spaceJoin (parts : List (List String)) : List String :=
  match parts with
  | [] => [""]
  | _ => parts.flatten

/-- `s[2:] if s[:2] == '+ ' else s` on the word level: the text starts with `'+ '` iff the first
word is `+` and another word follows. -/
def stripPlus (ws : List String) : List String :=
  match ws with
  | w :: rest => if w = "+" ∧ rest ≠ [] then rest else ws
  | [] => []

/-- left-hand side of a row / the objective expression -/
def lhsWords (ts : List Term) : List String := stripPlus (spaceJoin (ts.map termWords))

/-- `' obj: ' + obj_str` -/
def objLine (ts : List Term) : List String := "" :: "obj:" :: lhsWords ts

/-- `' c{i+1}: ' + each_line + (' <= ' | ' = ') + const` -/
def rowLine (i : Nat) (r : PRow) : List String :=
  "" :: cLabel i :: (lhsWords r.terms ++ [if r.eq then "=" else "<=", r.rhs])

def rowLinesFrom (i : Nat) : List PRow → List (List String)
  | [] => []
  | r :: rs => rowLine i r :: rowLinesFrom (i + 1) rs

/-- the words of `' + '.join(parts)` -/
def plusJoin : List (List String) → List String
  | [] => [""]
  | [a] => a
  | a :: b :: rest => a ++ "+" :: plusJoin (b :: rest)

/-- `'[ ' + ' + '.join('x{} ^2' for qc[1:]) + ' - x{qc[0]+1} ^2 ] <= 0'`
(Python raises on an empty `qc`; the model prints column `0` then — excluded by `WF`). -/
def coneBody (qc : List Nat) : List String :=
  "[" :: (plusJoin (qc.tail.map fun j => [xLabel j, "^2"]) ++
      ["-", xLabel (qc.headD 0), "^2", "]", "<=", "0"])

/-- `' q{i+1}: ' + coneBody` -/
def coneLine (i : Nat) (qc : List Nat) : List String := "" :: qLabel i :: coneBody qc

def coneLinesFrom (i : Nat) : List (List Nat) → List (List String)
  | [] => []
  | q :: qs => coneLine i q :: coneLinesFrom (i + 1) qs

/-- `'{} <= x{} <= {}'.format(lb[i], i+1, ub[i])` -/
def boundLine (i : Nat) (b : String × String) : List String := [b.1, "<=", xLabel i, "<=", b.2]

def boundLinesFrom (i : Nat) : List (String × String) → List (List String)
  | [] => []
  | b :: bs => boundLine i b :: boundLinesFrom (i + 1) bs

/-- `kw + '\n' + ' ' + '\n'.join(names) + '\n'` when there is at least one name, nothing otherwise -/
def typeSection (kw : String) (idx : List Nat) : List (List String) :=
  match idx with
  | [] => []
  | j :: js => [kw] :: ["", xLabel j] :: js.map fun k => [xLabel k]

/-- the lines of the text for given content -/
def parsedLines (q : Parsed) : List (List String) :=
  ["Minimize"] :: objLine q.obj :: ["Subject", "To"] ::
    (coneLinesFrom 0 q.cones ++ (rowLinesFrom 0 q.rows ++
      (["Bounds"] :: (boundLinesFrom 0 q.bounds ++ (typeSection "General" q.ints ++
        (typeSection "Binary" q.bins ++ [["End"]]))))))

/-- line / word structure of `lp_export()` -/
def renderLines (p : ExProg) : List (List String) := parsedLines (toParsed p)

/-- `'\n'.join(' '.join(ws) for ws in lines)` -/
def unlinesWords (ls : List (List String)) : String :=
  "\n".intercalate (ls.map fun ws => " ".intercalate ws)

/-- the text returned by `lp_export()` -/
def render (p : ExProg) : String := unlinesWords (renderLines p)

/-! ## well-formedness -/

/-- words with a fixed meaning in the emitted text -/
def keywords : List String :=
  ["+", "-", "<=", "=", "^2", "[", "]", "obj:", "Minimize", "Subject", "To", "Bounds", "General",
   "Binary", "End"]

/-- a printable number token (`str(float)` always is one: `1.0`, `1e-07`, `inf`, `nan`, …):
non-empty, no blank, no newline, not a keyword. -/
structure GoodTok (s : String) : Prop where
  ne : s ≠ ""
  noBlank : ' ' ∉ s.toList
  noNewline : '\n' ∉ s.toList
  notKw : s ∉ keywords

/-- well-formed programs: what `lp_export` can meet on a formula object that does not make it raise.
Lengths agree (one sense and one constant per row; one lower bound, one upper bound, one objective
coefficient per column), every printed token is a `GoodTok`, the type letters are `C`, `B`, `I`,
no cone is empty. -/
structure ExProg.WF (p : ExProg) : Prop where
  len_sense : p.sense.length = p.rows.length
  len_const : p.const.length = p.rows.length
  len_lb : p.lb.length = p.vtype.length
  len_ub : p.ub.length = p.vtype.length
  len_obj : p.obj.length = p.vtype.length
  tok_obj : ∀ c ∈ p.obj, GoodTok c.absTok
  tok_rows : ∀ r ∈ p.rows, ∀ e ∈ r, GoodTok e.1.absTok
  tok_const : ∀ s ∈ p.const, GoodTok s
  tok_lb : ∀ s ∈ p.lb, GoodTok s
  tok_ub : ∀ s ∈ p.ub, GoodTok s
  vtype_ok : ∀ c ∈ p.vtype, c = 'C' ∨ c = 'B' ∨ c = 'I'
  cones_ne : ∀ q ∈ p.qmat, q ≠ []

/-! ## parser for the emitted subset -/

/-- `x{k}` ↦ `k-1` (`k ≥ 1`, decimal digits only) -/
def parseX (w : String) : Option Nat :=
  match w.toList with
  | 'x' :: ds =>
    if ds.all Char.isDigit && !ds.isEmpty then
      let k := Nat.ofDigitChars 10 ds 0
      if k = 0 then none else some (k - 1)
    else none
  | _ => none

/-- `± tok x ± tok x …` -/
def parseTerms : List String → Option (List Term)
  | [] => some []
  | s :: t :: x :: rest =>
    (if s = "-" then some true else if s = "+" then some false else none).bind fun neg =>
    (parseX x).bind fun col =>
    (parseTerms rest).bind fun ts => some (⟨neg, t, col⟩ :: ts)
  | _ => none

/-- an expression whose leading `+` may have been stripped; the single empty word is `0` -/
def parseLhs (ws : List String) : Option (List Term) :=
  if ws = [""] then some [] else
  match ws with
  | w :: _ => if w = "-" then parseTerms ws else parseTerms ("+" :: ws)
  | [] => none

/-- `ws = lhs ++ [s, r]` ↦ `(lhs, s, r)` -/
def splitLast2 : List String → Option (List String × String × String)
  | a :: b :: c :: rest =>
    (splitLast2 (b :: c :: rest)).map fun x => (a :: x.1, x.2.1, x.2.2)
  | [s, r] => some ([], s, r)
  | _ => none

/-- what follows ` c{i}: ` -/
def parseRowBody (ws : List String) : Option PRow :=
  (splitLast2 ws).bind fun x =>
  (if x.2.1 = "<=" then some false else if x.2.1 = "=" then some true else none).bind fun eq =>
  (parseLhs x.1).bind fun ts => some ⟨ts, eq, x.2.2⟩

/-- the maximal block of lines ` c{i+1}: …`, ` c{i+2}: …`, …; returns the rows and the other lines -/
def parseRows (i : Nat) : List (List String) → Option (List PRow × List (List String))
  | [] => some ([], [])
  | l :: ls =>
    match l with
    | e :: lab :: body =>
      if e = "" ∧ lab = cLabel i then
        (parseRowBody body).bind fun r =>
        (parseRows (i + 1) ls).bind fun x => some (r :: x.1, x.2)
      else some ([], l :: ls)
    | _ => some ([], l :: ls)

/-- `x{h} ^2 ] <= 0` (what follows the `-`) ↦ `h` -/
def parseConeEnd (ws : List String) : Option Nat :=
  match ws with
  | [h, p, b, le, z] => if p = "^2" ∧ b = "]" ∧ le = "<=" ∧ z = "0" then parseX h else none
  | _ => none

/-- `x{j} ^2 + x{j} ^2 + … - x{h} ^2 ] <= 0` ↦ `(tail, h)` -/
def parseConeTail : List String → Option (List Nat × Nat)
  | x :: p :: s :: rest =>
    if p = "^2" then
      (parseX x).bind fun j =>
      if s = "+" then (parseConeTail rest).bind fun y => some (j :: y.1, y.2)
      else if s = "-" then (parseConeEnd rest).bind fun h => some ([j], h)
      else none
    else none
  | _ => none

/-- what follows ` q{i}: `: `[ … - x{h} ^2 ] <= 0` ↦ `h :: tail` (an empty tail shows as an empty word) -/
def parseConeBody (ws : List String) : Option (List Nat) :=
  match ws with
  | br :: e :: rest =>
    if br = "[" then
      if e = "" then
        match rest with
        | m :: rest' => if m = "-" then (parseConeEnd rest').bind fun h => some [h] else none
        | [] => none
      else (parseConeTail (e :: rest)).bind fun y => some (y.2 :: y.1)
    else none
  | _ => none

/-- the maximal block of lines ` q{i+1}: …`, ` q{i+2}: …`, … -/
def parseCones (i : Nat) : List (List String) → Option (List (List Nat) × List (List String))
  | [] => some ([], [])
  | l :: ls =>
    match l with
    | e :: lab :: body =>
      if e = "" ∧ lab = qLabel i then
        (parseConeBody body).bind fun q =>
        (parseCones (i + 1) ls).bind fun x => some (q :: x.1, x.2)
      else some ([], l :: ls)
    | _ => some ([], l :: ls)

/-- the maximal block of lines `lb <= x{i+1} <= ub`, `lb <= x{i+2} <= ub`, … -/
def parseBounds (i : Nat) : List (List String) → List (String × String) × List (List String)
  | [] => ([], [])
  | l :: ls =>
    match l with
    | [lo, a, x, b, hi] =>
      if a = "<=" ∧ b = "<=" ∧ x = xLabel i then
        ((lo, hi) :: (parseBounds (i + 1) ls).1, (parseBounds (i + 1) ls).2)
      else ([], l :: ls)
    | _ => ([], l :: ls)

/-- the maximal block of one-word lines `x{j}` -/
def parseNames : List (List String) → List Nat × List (List String)
  | [] => ([], [])
  | l :: ls =>
    match l with
    | [w] =>
      match parseX w with
      | some n => (n :: (parseNames ls).1, (parseNames ls).2)
      | none => ([], l :: ls)
    | _ => ([], l :: ls)

/-- an optional section `kw` / ` x{j}` / `x{j}` / … -/
def parseSection (kw : String) (ls : List (List String)) : Option (List Nat × List (List String)) :=
  match ls with
  | l :: rest =>
    if l = [kw] then
      match rest with
      | [e, w] :: rest' =>
        if e = "" then (parseX w).bind fun n => some (n :: (parseNames rest').1, (parseNames rest').2)
        else none
      | _ => none
    else some ([], ls)
  | [] => some ([], [])

/-- parser for exactly the subset of the LP format that `lp_export` emits -/
def parseLines (ls : List (List String)) : Option Parsed :=
  match ls with
  | l0 :: l1 :: l2 :: rest =>
    if l0 = ["Minimize"] ∧ l2 = ["Subject", "To"] then
      match l1 with
      | e :: o :: ow =>
        if e = "" ∧ o = "obj:" then
          (parseLhs ow).bind fun obj =>
          (parseCones 0 rest).bind fun xc =>
          (parseRows 0 xc.2).bind fun xr =>
          match xr.2 with
          | lb :: rest' =>
            if lb = ["Bounds"] then
              let xb := parseBounds 0 rest'
              (parseSection "General" xb.2).bind fun xi =>
              (parseSection "Binary" xi.2).bind fun xn =>
              if xn.2 = [["End"]] then some ⟨obj, xc.1, xr.1, xb.1, xi.1, xn.1⟩ else none
            else none
          | [] => none
        else none
      | _ => none
    else none
  | _ => none

/-! ## text level: splitting at newlines and blanks -/

/-- `s.split(sep)` on character lists (always at least one piece) -/
def splitChars (sep : Char) : List Char → List (List Char)
  | [] => [[]]
  | c :: cs =>
    if c = sep then [] :: splitChars sep cs
    else match splitChars sep cs with
      | w :: ws => (c :: w) :: ws
      | [] => [[c]]

/-- `[line.split(' ') for line in s.split('\n')]` -/
def splitText (s : String) : List (List String) :=
  (splitChars '\n' s.toList).map fun l => (splitChars ' ' l).map String.ofList

/-- parser on the text itself -/
def parseText (s : String) : Option Parsed := parseLines (splitText s)

end RsomeV.Export
