import Mathlib.Data.Nat.Log
import Mathlib.Data.List.Basic
import Mathlib.Algebra.Order.Field.Basic
import Mathlib.Algebra.Order.Ring.Abs
import Mathlib.Algebra.BigOperators.Ring.Finset
import Mathlib.Algebra.Order.BigOperators.Group.Finset

/-! Executable, order-faithful model of rsome's `IPCone` tower (rsome/lp.py, class `IPCone`, l.3227-3336):
`to_pot`, `split`, `to_soc`.

`IPCone(x, r, β)` stands for `|x|^(Σβ) ≤ Π r_i^β_i, r ≥ 0` with integer weights `β_i ≥ 1`.
`to_soc` rewrites it with rotated second-order cones `left.rsocone(u, v)`
(`left² ≤ u·v, u ≥ 0, v ≥ 0`) over fresh variables.

Variables are symbolic: `Var.x` is the left-hand side handed to `IPCone`, `Var.r i` the `i`-th entry of
`right`, `Var.aux k` the `k`-th variable created by the tower (creation order = column order: the
real column is `model.last + k` where `model.last` is read before `to_soc` runs).  For every created
variable a flag records whether the code used `model.dvar(aux=True)` (`true`) or `model.dvar()`
(`false`: the variable lands in `model.vars`, not `model.auxs`).  In the current code every variable of
the tower is auxiliary (all flags `true`). -/

namespace RsomeV.IPC

inductive Var where
  | x : Var
  | r (i : ℕ) : Var
  | aux (k : ℕ) : Var
  deriving DecidableEq, Repr

/-- `left.rsocone(u, v)` : `left² ≤ u·v`, `u ≥ 0`, `v ≥ 0` -/
structure RCone where
  left : Var
  u : Var
  v : Var
  deriving DecidableEq, Repr

/-- result of `split`: the cones in the order of the returned list, the `aux=` flag of every
created variable in creation order, the next free creation index, and the trace of the weight
vectors `split` was invoked on (pre-order, the outermost call first) -/
structure SplitRes where
  cones : List RCone
  flags : List Bool
  next : ℕ
  calls : List (List ℕ)
  deriving Repr, DecidableEq

/-- `max(beta)` -/
def maxL (β : List ℕ) : ℕ := β.foldr max 0

/-- `np.argmax(beta)` : first position of the maximum -/
def argmax (β : List ℕ) : ℕ := β.idxOf (maxL β)

/-- `np.argmax(np.cumsum(beta) >= degree/2)` : first position whose cumulative sum reaches `D/2`
(`acc` = sum of the entries already passed) -/
def cumIdx (D : ℕ) : List ℕ → ℕ → ℕ
  | [], _ => 0
  | b :: t, acc => if D ≤ 2 * (acc + b) then 0 else cumIdx D t (acc + b) + 1

/-- `len(beta) == 2 and beta[0] == beta[1]` -/
def isPair (β : List ℕ) : Prop := β.length = 2 ∧ β.getD 0 0 = β.getD 1 0
instance (β : List ℕ) : Decidable (isPair β) := by unfold isPair; infer_instance

/-- branch `max(beta) >= degree/2`: `mid = beta[index] - degree//2` -/
def mid2 (β : List ℕ) : ℕ := β.getD (argmax β) 0 - β.sum / 2
/-- `beta1 = beta[:index] + ([] if mid == 0 else [mid]) + beta[index+1:]` -/
def beta2 (β : List ℕ) : List ℕ :=
  β.take (argmax β) ++ ((if mid2 β = 0 then [] else [mid2 β]) ++ β.drop (argmax β + 1))
/-- `right1 = right` if `mid > 0`, else `right` without position `index` -/
def right2 (β : List ℕ) (right : List Var) : List Var :=
  if 0 < mid2 β then right else right.take (argmax β) ++ right.drop (argmax β + 1)

/-- cumulative branch: `index = argmax(cumsum(beta) >= degree/2)` -/
def idx3 (β : List ℕ) : ℕ := cumIdx β.sum β 0
/-- `mid = degree//2 - cum[index-1]` -/
def mid3 (β : List ℕ) : ℕ := β.sum / 2 - (β.take (idx3 β)).sum
/-- `beta1 = beta[:index] + [mid]`, `right1 = right[:index+1]` -/
def beta3a (β : List ℕ) : List ℕ := β.take (idx3 β) ++ [mid3 β]
def right3a (β : List ℕ) (right : List Var) : List Var := right.take (idx3 β + 1)
/-- `beta2`/`right2` of the cumulative branch -/
def beta3b (β : List ℕ) : List ℕ :=
  if mid3 β = β.getD (idx3 β) 0 then β.drop (idx3 β + 1)
  else (β.getD (idx3 β) 0 - mid3 β) :: β.drop (idx3 β + 1)
def right3b (β : List ℕ) (right : List Var) : List Var :=
  if mid3 β = β.getD (idx3 β) 0 then right.drop (idx3 β + 1) else right.drop (idx3 β)

/-- `IPCone.split` with a fuel argument (`none` = out of fuel, i.e. the Python recursion has not
returned within `fuel` nested calls; also `none` on `β = []`, where `max([])` raises).
`n` is the creation index of the next fresh variable. -/
def splitF : ℕ → Var → List Var → List ℕ → ℕ → Option SplitRes
  | 0, _, _, _, _ => none
  | fuel + 1, left, right, β, n =>
    if β = [] then none
    else if isPair β then
      some ⟨[⟨left, right.getD 0 .x, right.getD 1 .x⟩], [], n, [β]⟩
    else if β.sum ≤ 2 * maxL β then
      -- `max(beta) >= degree/2` : one new variable `u = model.dvar(aux=True)`
      -- (before repository commit a0d7c9c this was `model.dvar()`, i.e. flag `false`: the variable leaked
      -- into `model.vars`; the flag list is kept so that the differential test pins the repaired behaviour)
      match splitF fuel (.aux n) (right2 β right) (beta2 β) (n + 1) with
      | none => none
      | some r1 =>
        some ⟨⟨left, .aux n, right.getD (argmax β) .x⟩ :: r1.cones, true :: r1.flags, r1.next,
              β :: r1.calls⟩
    else
      -- cumulative branch: two new variables `u, v = model.dvar(aux=True)`
      match splitF fuel (.aux n) (right3a β right) (beta3a β) (n + 2) with
      | none => none
      | some r1 =>
        match splitF fuel (.aux (n + 1)) (right3b β right) (beta3b β) r1.next with
        | none => none
        | some r2 =>
          some ⟨⟨left, .aux n, .aux (n + 1)⟩ :: (r1.cones ++ r2.cones),
                true :: true :: (r1.flags ++ r2.flags), r2.next, β :: (r1.calls ++ r2.calls)⟩

/-- `2 ** ceil(log2(degree))`: the smallest power of two `≥ degree` (the code computes it in floating
point, exact for every degree a model can reach) -/
def pot (d : ℕ) : ℕ := 2 ^ Nat.clog 2 d

/-- `[r 0, …, r (n-1)]` -/
def rvars (n : ℕ) : List Var := (List.range n).map Var.r

/-- result of `to_soc`: rows `|a| ≤ b` (the `s >= abs(left)` row of `to_pot`, or the single row of the
singleton case) followed by the rotated cones, in the order of the returned list -/
structure SocOut where
  pad : Bool
  absRows : List (Var × Var)
  cones : List RCone
  flags : List Bool
  calls : List (List ℕ)
  deriving Repr, DecidableEq

/-- `IPCone(x, r, β).to_soc()` (fuel = padded degree, always enough: `toSoc_isSome`) -/
def toSoc (β : List ℕ) : Option SocOut :=
  if β.length = 1 then
    some ⟨false, [(.x, .r 0)], [], [], []⟩
  else
    let d := β.sum
    let xbeta := pot d - d
    if 0 < xbeta then
      let s := Var.aux 0
      match splitF (pot d) s (rvars β.length ++ [s]) (β ++ [xbeta]) 1 with
      | none => none
      | some r => some ⟨true, [(.x, s)], r.cones, true :: r.flags, r.calls⟩
    else
      match splitF (pot d) .x (rvars β.length) β 0 with
      | none => none
      | some r => some ⟨false, [], r.cones, r.flags, r.calls⟩

/-! ### semantics -/

section Semantics
variable {K : Type} [Field K] [LinearOrder K] [IsStrictOrderedRing K]

/-- the rotated cone `left² ≤ u·v, u ≥ 0, v ≥ 0` under a valuation of the symbolic variables -/
def RCone.holds (ρ : Var → K) (c : RCone) : Prop :=
  ρ c.left ^ 2 ≤ ρ c.u * ρ c.v ∧ 0 ≤ ρ c.u ∧ 0 ≤ ρ c.v

/-- `Π_i ρ(right_i) ^ β_i` -/
def prodPow (ρ : Var → K) : List Var → List ℕ → K
  | v :: vs, b :: bs => ρ v ^ b * prodPow ρ vs bs
  | _, _ => 1

/-- all constraints returned by `to_soc` hold under `ρ` -/
def SocOut.holds (ρ : Var → K) (o : SocOut) : Prop :=
  (∀ p ∈ o.absRows, |ρ p.1| ≤ ρ p.2) ∧ ∀ c ∈ o.cones, c.holds ρ

/-! ### the atoms built on the tower (rsome/socp.py `Model.do_math`, branches 'G', 'T', 'C')

The three branches are modelled at the level of *values*: the values of the affine expressions that
enter the branch (`affine_in`, `affine_out`), of the auxiliary columns the branch creates, and — for
every `IPCone(..).to_soc()` call — the existence of a valuation of the symbolic tower variables (each
call creates its own fresh variables) under which the returned constraints hold.
`RsomeV/M/IPConeEnc.lean` is the executable standard-form model of the same branches and
`RsomeV/L/IPConeEncSound.lean` proves that feasibility of that standard form implies these systems. -/

/-- one `IPCone(x, r, β).to_soc()` whose left side has value `x` and whose right sides have the values
`r i` (`i < len β`): the returned constraints hold for some values of the created variables -/
def TowerSat (β : List ℕ) (x : K) (r : ℕ → K) : Prop :=
  ∃ ρ : Var → K, ρ .x = x ∧ (∀ i < β.length, ρ (.r i) = r i) ∧
    ∃ out, toSoc β = some out ∧ out.holds ρ

/-- xtype 'G' (`pnorm`, method 'soc'): `y j` = entries of `affine_in * multiplier`, `o` = `affine_out`,
`t j` = `aux1[j]`, `w` = `aux2`; rows `aux2 + affine_out <= 0`, `aux1.sum() <= aux2` and one tower
`IPCone(y_j, (aux1_j, aux2), β)` per entry, `β = [1, p-1]` (integer degree `p`) or `[b, a-b]`
(degree `a/b`). -/
structure PnormEnc (β : List ℕ) (n : ℕ) (y : ℕ → K) (o : K) (t : ℕ → K) (w : K) : Prop where
  row_out : w + o ≤ 0
  row_sum : ∑ j ∈ Finset.range n, t j ≤ w
  tower : ∀ j < n, TowerSat β (y j) (fun i => if i = 0 then t j else w)

/-- xtype 'T' (`power`, one entry of the broadcast): `x` = entry of `affine_in`, `o` = entry of
`affine_out * (1/multiplier)`, `t` = `aux1[i]`, `one` = `aux2[i]`; rows `aux2 == 1`,
`aux1 + affine_out <= 0`, and either the two rows `x <= aux1`, `x >= -aux1` (`p == q`) or the tower
`IPCone(x, (aux1_i, aux2_i), [q, p-q])`. -/
structure PowerEnc (p q : ℕ) (x o t one : K) : Prop where
  row_one : one = 1
  row_out : t + o ≤ 0
  body : if p = q then x ≤ t ∧ -t ≤ x
    else TowerSat [q, p - q] x (fun i => if i = 0 then t else one)

/-- xtype 'C' (`gmean`, concave: the constraint is `-k·gmean(in) + o <= 0`): `a` = `aux`, `k` =
`multiplier`, `o` = `affine_out`, `inp i` = entries of `affine_in`; row
`aux*multiplier + affine_out <= 0` and the tower `IPCone(aux, affine_in, β)`. -/
structure GmeanEnc (β : List ℕ) (k o : K) (inp : ℕ → K) (a : K) : Prop where
  row_out : a * k + o ≤ 0
  tower : TowerSat β a inp

end Semantics

/-- the variable exists before creation index `n` (user variables always do) -/
def Var.lt (n : ℕ) : Var → Prop
  | .aux k => k < n
  | _ => True

end RsomeV.IPC
