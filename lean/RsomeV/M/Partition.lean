/-! Model of the event-partition bookkeeping of dro decisions (rsome/lp.py `DecVar.evtadapt`,
`DecVarSub.affadapt`; rsome/subroutines.py `event_dict`, `comb_set`; rsome/dro.py
`Model.rule_var` column allocation).  Pure `List ℕ` code, no Mathlib. -/

namespace RsomeV.Partition

/-- `DecVar.event_adapt`: a list of events, each a list of scenario indices -/
abbrev Events := List (List Nat)

inductive Err where
  | keyError | runtimeError | valueError | indexError | typeError | syntaxError
  deriving Repr, DecidableEq

def Err.name : Err → String
  | .keyError => "KeyError" | .runtimeError => "RuntimeError" | .valueError => "ValueError"
  | .indexError => "IndexError" | .typeError => "TypeError" | .syntaxError => "SyntaxError"

/-- `[list(range(num_scen))]` -/
def init (S : Nat) : Events := [List.range S]

/-- state of one decision's event bookkeeping: the events and whether `events[0]` is still the
remainder of undeclared scenarios (the repaired code tracks this; see DESIGN.md F19) -/
structure EvState where
  events : Events
  rest   : Bool
  deriving Repr, DecidableEq

def EvState.init (S : Nat) : EvState := { events := [List.range S], rest := true }

/-- remove the scenarios of `ev` one by one from the head event; `none` = `KeyError` -/
def removeAll : List Nat → List Nat → Option (List Nat)
  | hd, [] => some hd
  | hd, s :: ss => if hd.contains s then removeAll (hd.erase s) ss else none

/-- the body of `DecVar.evtadapt(events)` for a non-empty list (scenario labels already mapped to indices; unknown labels are a
`KeyError` raised by the label lookup and are presented here as an index `≥ S`) -/
def evtadaptCore (st : EvState) (ev : List Nat) : Except Err EvState :=
  match st.events with
  | [] => .error .indexError
  | hd :: tl =>
    if !st.rest && !ev.isEmpty then .error .keyError else
    match removeAll hd ev with
    | none => .error .keyError
    | some hd' =>
      if hd'.isEmpty then .ok { events := tl ++ [ev], rest := false }
      else .ok { events := (hd' :: tl) ++ [ev], rest := st.rest }

/-- `DecVar.evtadapt(events)`: an empty list of scenarios is refused first (`ValueError`: an event must contain at least one
scenario), then `evtadaptCore` -/
def evtadapt (st : EvState) (ev : List Nat) : Except Err EvState :=
  if ev.isEmpty then .error .valueError else evtadaptCore st ev

theorem evtadapt_eq_core {st : EvState} {ev : List Nat} (h : ev ≠ []) : evtadapt st ev = evtadaptCore st ev := by
  unfold evtadapt
  cases ev with
  | nil => exact absurd rfl h
  | cons a l => rfl

theorem evtadapt_ok_ne {st st' : EvState} {ev : List Nat} (h : evtadapt st ev = .ok st') :
    ev ≠ [] ∧ evtadaptCore st ev = .ok st' := by
  unfold evtadapt at h
  cases ev with
  | nil => simp at h
  | cons a l => exact ⟨by simp, h⟩

/-- `event_dict`: scenario ↦ index of its event (`none` if in no event) -/
def eventOf (es : Events) (s : Nat) : Option Nat :=
  es.findIdx? fun e => e.contains s

/-- `comb_set(s1, s2)`: group scenarios `0..n-1` (n = number of scenarios covered by `s1`) by the
pair of their event indices, groups in order of first appearance -/
def combSet (p q : Events) : Events :=
  let n := (p.map List.length).sum
  let key : Nat → Option Nat × Option Nat := fun s => (eventOf p s, eventOf q s)
  (List.range n).foldl (fun (acc : List ((Option Nat × Option Nat) × List Nat)) s =>
      match acc.findIdx? (fun g => g.1 == key s) with
      | some i => acc.modify i (fun g => (g.1, g.2 ++ [s]))
      | none => acc ++ [(key s, [s])]) []
    |>.map (·.2)

/-- a decision array as `rule_var` sees it: its size and its events -/
structure Dec where
  size : Nat
  events : Events
  deriving Repr

/-- `dvar.ro_first`: first column (inside `var_const`) of decision `k` -/
def roFirst : List Dec → Nat → Nat
  | [], _ => 0
  | _, 0 => 0
  | d :: ds, k + 1 => d.size * d.events.length + roFirst ds k

/-- columns (inside `var_const`) of the entries of decision `k` in scenario `s` -/
def constCols (ds : List Dec) (k s : Nat) : List Nat :=
  match ds[k]? with
  | none => []
  | some d => (List.range d.size).map fun i => roFirst ds k + d.size * (eventOf d.events s).getD 0 + i

/-- `var_ev_list[s]` index list: all decisions concatenated -/
def scenCols (ds : List Dec) (s : Nat) : List Nat :=
  (List.range ds.length).flatMap fun k => constCols ds k s

/-- dependency mask of a decision (`rand_adapt`), row-major `size × nrand` -/
abbrev Mask := List (List Bool)

/-- `DecVarSub.affadapt`: set mask entries `(i, j)` for `i ∈ decIdx`, `j ∈ randIdx`;
re-declaration is a `RuntimeError`, integer decisions a `ValueError` -/
def affadapt (isInt : Bool) (m : Mask) (decIdx randIdx : List Nat) : Except Err Mask :=
  if isInt then .error .valueError
  else if decIdx.any (fun i => randIdx.any fun j => ((m.getD i []).getD j false)) then .error .runtimeError
  else .ok (m.mapIdx fun i row => row.mapIdx fun j b => b || (decIdx.contains i && randIdx.contains j))

/-- positions (row-major) of the declared dependencies: `np.where(depend_mat.flatten())[0]` -/
def nzRows (m : Mask) : List Nat :=
  let flat := m.flatten
  (List.range flat.length).filter fun k => flat.getD k false

/-- coefficient column (inside `var_linear[index]`, i.e. its rank) of dependency `(i, j)`;
`none` when no dependence was declared -/
def coefRank (m : Mask) (nrand i j : Nat) : Option Nat :=
  (nzRows m).idxOf? (i * nrand + j)

/-- a decision with its dependency mask, as the second half of `rule_var` sees it -/
structure DecM where
  size : Nat
  events : Events
  mask : Mask
  deriving Repr

def numDep (d : DecM) : Nat := (nzRows d.mask).length

/-- first column (inside `var_linear`) of the coefficient block of decision `k` -/
def linFirst : List DecM → Nat → Nat
  | [], _ => 0
  | _, 0 => 0
  | d :: ds, k + 1 => numDep d * d.events.length + linFirst ds k

/-- `index` of the second loop of `rule_var` for scenario `s`: coefficient columns of all
affinely adaptive decisions, concatenated -/
def linCols (ds : List DecM) (s : Nat) : List Nat :=
  (List.range ds.length).flatMap fun k =>
    match ds[k]? with
    | none => []
    | some d => (List.range (numDep d)).map fun r =>
        linFirst ds k + numDep d * (eventOf d.events s).getD 0 + r

/-- `nz_rows` of the concatenated dependency matrix (all decisions stacked, `nrand` columns) -/
def nzRowsAll (ds : List DecM) : List Nat :=
  nzRows (ds.flatMap (·.mask))

end RsomeV.Partition
