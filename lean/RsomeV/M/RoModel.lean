import RsomeV.M.Robust
import RsomeV.M.AtomsSoc

/-! Order-faithful model of the whole assembly `ro.Model.do_math()` (rsome/ro.py l.340-404) for
robust models whose deterministic part is linear (LP-class: `LinConstr`, `Bounds`, `RoConstr`;
supports: any conic program the support model emits without LMIs):

* `ro.Model.do_math` (formerly `st`) : robust equalities are split into `expr <= 0`, `-expr <= 0` (`RoItem.robEq`);
* the objective: a plain affine objective is handed to `rc_model` (its epigraph row is the last row,
  an `aux_constr`); an uncertain objective becomes the robust constraint `vars[0] >= sign*obj` with
  the default support, appended after all user constraints; a piecewise objective one constraint
  per piece;
* every `RoConstr` is compiled with `le_to_rc(own support or obj_support)`: the multipliers
  `dual_var = dec_model.dvar((m, |S|))` are allocated at that moment, so the multiplier blocks are
  numbered in compilation order (`place`);
* `rc_model.do_math(primal=True, obj=True)` (`gcp` → `socp` → `lp.Model.do_math`): rows in `st()`
  order, the `Bounds` folded with minimum/maximum, the `ConeConstr` of every fragment as `qmat`
  entries, every `ExpConstr` routed through three auxiliary columns and three auxiliary rows
  (`gcp.Model.do_math` l.255-261), the epigraph row of a plain objective last, cost `e_0`.

Columns: `[0, nd)` the decision columns of `rc_model` when `do_math` starts (column 0 is the
epigraph column), then one block of `m·|S|` multipliers per robust constraint, then three
auxiliary columns per exponential cone.  Executable over `ℚ`. -/

namespace RsomeV
open Finset

variable {K : Type} [Field K] [LinearOrder K] [IsStrictOrderedRing K]

/-- one stacked row of the compiled program -/
structure PRow (K : Type) where
  a : ℕ → K
  b : K
  eq : Bool

/-- the row `lp.Model.do_math` emits when there is no constraint at all: `0 == 0` -/
instance : Inhabited (PRow K) := ⟨⟨fun _ => 0, 0, true⟩⟩

namespace RoRows

/-- the same block of rows seen from a model that meanwhile has `cur` columns: the coefficient
arrays are zero-padded (`le_to_rc` starts the multiplier block at `dec_model.last`) -/
def rebase (R : RoRows K) (cur : ℕ) : RoRows K :=
  { nd := cur, m := R.m, nz := R.nz
    Rl := fun n j d => if d < R.nd then R.Rl n j d else 0
    Rc := R.Rc
    al := fun n d => if d < R.nd then R.al n d else 0
    ac := R.ac }

/-- `RoAffine(-raffine, -affine)`: the second half of a robust equality (`ro.Model.st`) -/
def neg (R : RoRows K) : RoRows K :=
  { R with Rl := fun n j d => - R.Rl n j d, Rc := fun n j => - R.Rc n j,
           al := fun n d => - R.al n d, ac := fun n => - R.ac n }

/-- `rc_model.vars[0] >= sign * obj` as a block of `<=`-rows: `sign*obj - x_0 <= 0` -/
def epi (R : RoRows K) (sign : K) : RoRows K :=
  { R with Rl := fun n j d => sign * R.Rl n j d, Rc := fun n j => sign * R.Rc n j,
           al := fun n d => sign * R.al n d + (if d = 0 then -1 else 0),
           ac := fun n => sign * R.ac n }

/-- the `Bounds` objects `le_to_rc` returns: `dual_var[:, support.ub == 0] <= 0` and
`dual_var[:, support.lb == 0] >= 0` (row-major positions; an object without entries stands for
"not emitted": it does not change the fold) -/
def rcBounds (R : RoRows K) (S : ConeProg K) : List (Bound K) :=
  [ { upper := true
      entries := (List.range R.m).flatMap fun n =>
        ((List.range S.lp.nc).filter fun i => decide (S.lp.ub i = some 0)).map fun i => (R.ycol S n i, 0) },
    { upper := false
      entries := (List.range R.m).flatMap fun n =>
        ((List.range S.lp.nc).filter fun i => decide (S.lp.lb i = some 0)).map fun i => (R.ycol S n i, 0) } ]

end RoRows

/-! ### Items -/

/-- an entry of `ro.Model.all_constr` (or a user-level constraint handed to `ro.Model.st`) -/
inductive RoItem (K : Type) where
  /-- a `LinConstr` with `nr` rows over the decision columns -/
  | det (nr : ℕ) (a : ℕ → ℕ → K) (b : ℕ → K) (eq : ℕ → Bool)
  /-- a `Bounds` object -/
  | bnd (b : Bound K)
  /-- a `RoConstr` with sense `<=`; `S = none`: no own support (`forall` was not called), the
  default set of `minmax`/`maxmin` is used -/
  | rob (R : RoRows K) (S : Option (ConeProg K))
  /-- a user-level `RoConstr` with sense `==`: `ro.Model.st` stores the two inequalities
  `RoAffine(raffine, affine) <= 0`, `RoAffine(-raffine, -affine) <= 0`, both with the support of
  the equality -/
  | robEq (R : RoRows K) (S : Option (ConeProg K))

/-- an item with its support resolved -/
inductive CItem (K : Type) where
  | det (nr : ℕ) (a : ℕ → ℕ → K) (b : ℕ → K) (eq : ℕ → Bool)
  | bnd (b : Bound K)
  | rob (R : RoRows K) (S : ConeProg K)

/-- one piece of a `PiecewiseConvex` objective: a deterministic affine expression `c·x + c0` or a
bi-affine one (`m = 1`) -/
inductive ObjPiece (K : Type) where
  | aff (c : ℕ → K) (c0 : K)
  | ro (R : RoRows K)

/-- `ro.Model.obj` with `ro.Model.sign` -/
inductive RoObj (K : Type) where
  /-- `Vars`, `VarSub`, `Affine`, `Real`: handed to `rc_model` (`rc_model.obj`, `rc_model.sign`) -/
  | affine (sign : K) (c : ℕ → K) (c0 : K)
  /-- `RoAffine`: `more_roc = [vars[0] >= sign*obj]` with `support = obj_support` -/
  | roaffine (sign : K) (R : RoRows K)
  /-- `PiecewiseConvex` (with `sign * obj.sign = 1`): `more_roc = (vars[0] >= sign*obj).pieces`,
  one `piece - x_0 <= 0` per piece -/
  | piecewise (pieces : List (ObjPiece K))

/-- the conic program without columns and rows (stands for an undefined default support) -/
def ConeProg.undef : ConeProg K :=
  { lp := { nr := 0, nc := 0, a := fun _ _ => 0, b := fun _ => 0, eq := fun _ => false,
            ub := fun _ => none, lb := fun _ => none, c := fun _ => 0 }
    st := fun _ _ => false, qmat := [], xmat := [] }

namespace RoItem

/-- resolution of the support (`constr.support` if set, else `obj_support`) and the equality split -/
def resolve (D : ConeProg K) : RoItem K → List (CItem K)
  | .det nr a b eq => [.det nr a b eq]
  | .bnd b => [.bnd b]
  | .rob R S => [.rob R (S.getD D)]
  | .robEq R S => [.rob R (S.getD D), .rob R.neg (S.getD D)]

/-- does the item need the default support? -/
def needsDefault : RoItem K → Bool
  | .rob _ none => true
  | .robEq _ none => true
  | _ => false

end RoItem

namespace RoObj

/-- `more_roc`: the constraints the objective contributes, appended after `all_constr` -/
def moreRoc : RoObj K → List (RoItem K)
  | .affine _ _ _ => []
  | .roaffine s R => [.rob (R.epi s) none]
  | .piecewise ps => ps.map fun p => match p with
      | .aff c c0 => .det 1 (fun _ d => c d + (if d = 0 then -1 else 0)) (fun _ => - c0) (fun _ => false)
      | .ro R => .rob (R.epi 1) none

/-- the epigraph row of a plain objective: `lp.Model.do_math` appends
`vars[0] - sign*obj >= 0`, i.e. `(sign*c - e_0)·x <= -sign*c0`, to `aux_constr` -/
def objRow : RoObj K → List (PRow K)
  | .affine s c c0 => [⟨fun d => s * c d + (if d = 0 then -1 else 0), - (s * c0), false⟩]
  | _ => []

end RoObj

/-! ### Placement: multiplier blocks in compilation order -/

/-- a compiled item: deterministic rows (coefficients beyond the decision columns are zero), a
bound, or the fragment of a robust block whose multipliers start at column `R.nd` -/
inductive PItem (K : Type) where
  | det (nr : ℕ) (a : ℕ → ℕ → K) (b : ℕ → K) (eq : ℕ → Bool)
  | bnd (b : Bound K)
  | frag (R : RoRows K) (S : ConeProg K)

/-- the loop `for constr in self.all_constr + more_roc` with `cur = rc_model.last` -/
def place (nd0 : ℕ) : ℕ → List (CItem K) → List (PItem K)
  | _, [] => []
  | cur, .det nr a b eq :: t => .det nr (fun i c => if c < nd0 then a i c else 0) b eq :: place nd0 cur t
  | cur, .bnd b :: t => .bnd b :: place nd0 cur t
  | cur, .rob R S :: t => .frag (R.rebase cur) S :: place nd0 (cur + R.m * S.lp.nc) t

/-- `rc_model.last` after the loop -/
def endCol : ℕ → List (CItem K) → ℕ
  | cur, [] => cur
  | cur, .rob R S :: t => endCol (cur + R.m * S.lp.nc) t
  | cur, _ :: t => endCol cur t

namespace PItem

/-- the `LinConstr` rows the item hands to `rc_model.st` -/
def rows : PItem K → List (PRow K)
  | .det nr a b eq => (List.range nr).map fun i => ⟨a i, b i, eq i⟩
  | .bnd _ => []
  | .frag R S =>
      (List.range (R.leToRc S).prog.lp.nr).map fun i =>
        ⟨(R.leToRc S).prog.lp.a i, (R.leToRc S).prog.lp.b i, (R.leToRc S).prog.lp.eq i⟩

/-- the `Bounds` objects -/
def bounds : PItem K → List (Bound K)
  | .det _ _ _ _ => []
  | .bnd b => [b]
  | .frag R S => R.rcBounds S

/-- the `ConeConstr` objects, as `qmat` entries -/
def qmat : PItem K → List (List ℕ)
  | .frag R S => (R.leToRc S).prog.qmat
  | _ => []

/-- the `ExpConstr` objects: the three multiplier columns of each -/
def xmat : PItem K → List (List ℕ)
  | .frag R S => (R.leToRc S).prog.xmat
  | _ => []

/-- variables allocated by the item -/
def vars : PItem K → List (String × ℕ)
  | .frag R S => [("C", R.m * S.lp.nc)]
  | _ => []

end PItem

/-! ### `rc_model.do_math(primal=True, obj=True)` -/

/-- `gcp.Model.do_math` l.255-261: for the `k`-th `ExpConstr` (columns `e`) the auxiliary rows
`aux[0] - expr1 == 0`, `aux[1] - expr2 <= 0`, `aux[2] - expr3 == 0` on the auxiliary columns
`base + 3k ..` -/
def expRows (base : ℕ) (X : List (List ℕ)) : List (PRow K) :=
  (List.range X.length).flatMap fun k =>
    [ ⟨fun j => (if j = base + 3 * k then 1 else 0) - (if j = (X.getD k []).getD 0 0 then 1 else 0), 0, true⟩,
      ⟨fun j => (if j = base + 3 * k + 1 then 1 else 0) - (if j = (X.getD k []).getD 1 0 then 1 else 0), 0, false⟩,
      ⟨fun j => (if j = base + 3 * k + 2 then 1 else 0) - (if j = (X.getD k []).getD 2 0 then 1 else 0), 0, true⟩ ]

/-- all `ExpConstr` objects in `st()` order -/
def asmX (P : List (PItem K)) : List (List ℕ) := P.flatMap PItem.xmat

/-- `lin_constr` in `st()` order, then `aux_constr`: the rows of the exponential cones, then the
epigraph row of a plain objective -/
def asmRows0 (base : ℕ) (P : List (PItem K)) (objRow : List (PRow K)) : List (PRow K) :=
  P.flatMap PItem.rows ++ expRows base (asmX P) ++ objRow

/-- `lp.Model.do_math` l.567-588: without any row the program gets the row `0 == 0` -/
def asmRows (base : ℕ) (P : List (PItem K)) (objRow : List (PRow K)) : List (PRow K) :=
  if (asmRows0 base P objRow).isEmpty then [default] else asmRows0 base P objRow

/-- `self.bounds` in `st()` order -/
def asmBounds (P : List (PItem K)) : List (Bound K) := P.flatMap PItem.bounds

/-- the stacked program: `P` the compiled items, `base` the number of columns before the auxiliary
columns of the exponential cones, `objRow` the epigraph row of a plain objective -/
def assemble (base : ℕ) (P : List (PItem K)) (objRow : List (PRow K)) : ConeProg K :=
  { lp := { nr := (asmRows base P objRow).length, nc := base + 3 * (asmX P).length
            a := fun i j => ((asmRows base P objRow).getD i default).a j
            b := fun i => ((asmRows base P objRow).getD i default).b
            eq := fun i => ((asmRows base P objRow).getD i default).eq
            ub := (foldBounds (asmBounds P)).1
            lb := (foldBounds (asmBounds P)).2
            c := fun j => if j = 0 then 1 else 0 }
    st := fun i j => decide (((asmRows base P objRow).getD i default).a j ≠ 0)
    qmat := P.flatMap PItem.qmat
    xmat := (List.range (asmX P).length).map fun k => [base + 3 * k, base + 3 * k + 1, base + 3 * k + 2] }

/-! ### The whole model -/

/-- what `ro.Model.do_math` reads -/
structure RoSpec (K : Type) where
  /-- `rc_model.last` when `do_math` starts: the decision columns (epigraph column, `dvar`s, LDR
  intercepts and coefficients) -/
  nd : ℕ
  /-- `rc_model.vars` as (vtype string, size) -/
  vars : List (String × ℕ)
  /-- `all_constr` (a `robEq` stands for the pair `ro.Model.st` stores) -/
  items : List (RoItem K)
  obj : RoObj K
  /-- `obj_support` (dual form), `none` if the objective was set with `min`/`max` -/
  S0 : Option (ConeProg K)

namespace RoSpec

/-- `all_constr + more_roc` with the supports resolved -/
def blocks (M : RoSpec K) : List (CItem K) :=
  (M.items ++ M.obj.moreRoc).flatMap (RoItem.resolve (M.S0.getD ConeProg.undef))

/-- no `le_to_rc` raises `'The support of random variables is undefined.'` -/
def defined (M : RoSpec K) : Bool :=
  M.S0.isSome || (M.items ++ M.obj.moreRoc).all fun it => !it.needsDefault

def placed (M : RoSpec K) : List (PItem K) := place M.nd M.nd M.blocks

/-- the epigraph row of a plain objective (coefficients beyond the decision columns are zero) -/
def objRow (M : RoSpec K) : List (PRow K) :=
  M.obj.objRow.map fun r => { r with a := fun d => if d < M.nd then r.a d else 0 }

end RoSpec

/-- **`ro.Model.do_math()`** -/
def roModel (M : RoSpec K) : ConeProg K := assemble (endCol M.nd M.blocks) M.placed M.objRow

/-- the `vtype` vector of the compiled program: decision variables as declared, multipliers and
auxiliary columns continuous -/
def roVtype (M : RoSpec K) : List Char :=
  vtypeVector (M.vars ++ M.placed.flatMap PItem.vars ++
    (M.placed.flatMap PItem.xmat).map fun _ => ("C", 3))

/-- branch labels (for the coverage histogram of the correspondence test) -/
def roBranches (M : RoSpec K) : List String :=
  (match M.obj with
    | .affine _ _ _ => ["obj.plain"] | .roaffine _ _ => ["obj.roaffine"] | .piecewise _ => ["obj.piecewise"]) ++
  (if M.items.any fun it => match it with | .robEq _ _ => true | _ => false then ["st.eq_split"] else []) ++
  (if (M.items ++ M.obj.moreRoc).any RoItem.needsDefault then ["support.default"] else []) ++
  (if M.items.any fun it => match it with | .rob _ (some _) => true | .robEq _ (some _) => true | _ => false
    then ["support.own"] else []) ++
  (if M.placed.any fun p => !p.qmat.isEmpty then ["cone.soc"] else []) ++
  (if M.placed.any fun p => !p.xmat.isEmpty then ["cone.exp"] else []) ++
  (if M.placed.any fun p => match p with | .frag R S => decide (0 < (R.leToRc S).n3) | _ => false
    then ["rc.block3"] else []) ++
  (if M.placed.any fun p => match p with | .frag R S => decide (0 < (R.leToRc S).n4) | _ => false
    then ["rc.block4"] else [])

end RsomeV
